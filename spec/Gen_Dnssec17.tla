---------------------------- MODULE Gen_Dnssec17 ----------------------------
(* Vector generator for C17.  Every case is one TLC state; Out evaluates        *)
(* Dnssec17 on it and appends the case WITH the expected result (or, where the *)
(* result is a hash value, with the exact octets / term the hash is applied    *)
(* to) to vectors.ndjson.                                                      *)
EXTENDS Dnssec17, GenBase

CONSTANTS Mode,      \* "keytag" | "ds" | "nsec3" | "cover" | "validity" | "spell"
          SpellPs,   \* mode "spell": the octet counts p of the spread names (every k in 1..5 that gives a valid name)
          Iters,     \* iteration counts for mode "nsec3"
          KSmall,    \* mode "keytag": every key over {00, ff} of at most this many octets
          BigNames   \* mode "nsec3": iteration counts above 1000 only for the first BigNames names and salts of 0 / 8 octets

VARIABLES v

Fill(len, o) == [i \in 1..len |-> o]
Alt(len, a, b) == [i \in 1..len |-> IF i % 2 = 1 THEN a ELSE b]

-----------------------------------------------------------------------------
\* keytag: v = <<flags, proto, alg, key>>
SmallKeys(k) == UNION { [1..m -> {0, 255}] : m \in 0..k }
BigKeys(x)   == UNION { { Fill(n, 0), Fill(n, 255), Alt(n, 255, 0), Alt(n, 0, 255), Alt(n, 255, 254) } : n \in {255, 256, 257, 1024} }
FlagsAll  == {0, 1, 128, 256, 257, 384, 385, 65535}       \* SEP = 1, REVOKE = 128, ZONE = 256
ProtoAll  == {0, 3, 255}
AlgAll    == {0, 2, 5, 8, 13, 15, 255}                     \* never 1 (RSA/MD5 has its own key tag rule)
KeytagCases(x) ==
  { <<f, p, a, k>> : f \in FlagsAll, p \in ProtoAll, a \in AlgAll, k \in SmallKeys(KSmall) }
  \cup { <<f, 3, a, k>> : f \in {256, 385, 65535}, a \in {8, 255}, k \in BigKeys(0) }
KeytagVector(c) ==
  LET rd == DNSKEYRdata(c[1], c[2], c[3], c[4]) IN
  [kind |-> "keytag", flags |-> c[1], proto |-> c[2], alg |-> c[3], key |-> c[4], tag |-> KeyTag(rd)]

-----------------------------------------------------------------------------
\* ds: v = <<owner, variant, dt, keyno>>
DSOwners == << <<>>,
               << <<101, 120, 97, 109, 112, 108, 101>>, <<99, 111, 109>> >>,                  \* example.com.
               << <<65, 90, 97, 122>>, <<64, 91, 96, 123>> >>,                                  \* AZaz.@[`{.  (neighbours of the letters)
               << <<193, 225, 0, 46, 92>>, <<88>> >>,                                           \* octets >= 0x80 are not letters
               << Fill(63, 77), Fill(63, 109), Fill(63, 65), Fill(61, 122) >> >>                \* 255 wire octets
Variant(n, k) == CASE k = 0 -> n [] k = 1 -> UpperName(n) [] k = 2 -> LowerName(n)
                   [] OTHER -> [i \in 1..Len(n) |-> [j \in 1..Len(n[i]) |-> IF j % 2 = 0 THEN Upper(n[i])[j] ELSE Lower(n[i])[j]]]
DSKeys == << <<256, 3, 8, <<1, 2, 3>> >>,
             <<257, 3, 13, [i \in 1..64 |-> (i * 7) % 256]>>,
             <<385, 3, 15, Fill(32, 255)>>,
             <<0, 255, 5, [i \in 1..260 |-> (i * 13 + 5) % 256]>> >>
\* the defined types 1, 2, 4; the holes between and beside them (0, 3 = GOST R 34.11-94, 5); the first types above every
\* table a library may keep (6, 7); the octet's sign boundary and its end
DSTypes == {0, 1, 2, 3, 4, 5, 6, 7, 127, 128, 255}
DSVector(c) ==
  LET n == Variant(DSOwners[c[1]], c[2])  k == DSKeys[c[4]]
      text == IF c[2] = 4 THEN PresentDDD(UpperName(DSOwners[c[1]])) ELSE Present(n)
      rd == DNSKEYRdata(k[1], k[2], k[3], k[4]) IN
  [kind |-> "ds", owner |-> text, dkey |-> DSDigestKey(DSHash(c[3]), text), pkey |-> DSPanicKey(c[3]), flags |-> k[1], proto |-> k[2], alg |-> k[3], key |-> k[4],
   dt |-> c[3], hash |-> DSHash(c[3]), input |-> DSInput(n, rd), tag |-> KeyTag(rd)]

-----------------------------------------------------------------------------
\* nsec3: v = <<name index, salt length, iterations>>
N3Names == << <<>>, << <<97>> >>,
              << <<69, 120, 65, 109, 80, 108, 69>>, <<67, 79, 77>> >>,
              << <<64, 91, 96, 123, 200, 0>>, <<42>>, <<120, 45, 49>> >>,
              << Fill(63, 77), Fill(63, 109), Fill(63, 65), Fill(61, 122) >> >>
SaltOf(n) == [i \in 1..n |-> (i * 37 + 11) % 256]
SaltLens == {0, 1, 8, 255}
N3Vector(c) ==
  LET n == N3Names[c[1]]  salt == SaltOf(c[2])  k == c[3] IN
  [kind |-> "nsec3", names |-> << Present(n), Present(UpperName(n)), Present(LowerName(n)), Present(Variant(n, 3)), PresentDDD(UpperName(n)) >>,
   keys |-> << HashNameKey(Present(n), FALSE), HashNameKey(Present(n), TRUE), HashNameKey(Present(n), TRUE), HashNameKey(Present(n), TRUE),
               HashNameKey(PresentDDD(UpperName(n)), TRUE) >>,
   salt |-> salt, iter |-> k, plan |-> NSEC3Plan(n, salt, k),
   term |-> IF k <= 10 /\ Len(salt) <= 8 THEN NSEC3Hash(n, salt, k) ELSE <<>>]

-----------------------------------------------------------------------------
\* cover: v = <<o, nx, h, pair, ownercase>>; hashes are positions 0..4, the harness realises them
\* as 160-bit numbers at the same relative positions around the real hash of the name
CZone == << <<101, 120>>, <<99>> >>
CPairs == << <<CZone, << <<119>>, <<69, 88>>, <<67>> >> >>,           \* w.EX.C.   inside (case differs)
             <<CZone, CZone>>,                                         \* the apex itself
             <<CZone, << <<119>>, <<101, 120>>, <<100>> >> >>,         \* w.ex.d.   other TLD
             <<CZone, << <<99>> >> >>,                                 \* c.        the parent
             <<CZone, << <<119, 101, 120>>, <<99>> >> >>,              \* wex.c.    suffix of the text, not of the labels
             << << <<99>> >>, << <<119>>, <<99>> >> >>,                 \* zone c., name w.c.  inside a one-label zone
             << <<>>, << <<119>>, <<100>> >> >> >>                     \* the root zone holds every name
\* z, n: zone and name (labels); text: the spelling of n handed to the real code
CoverVectorOf(z, n, text, o, nx, h, lc) ==
  [kind |-> "cover", zone |-> Present(z), name |-> text, o |-> o, nx |-> nx, h |-> h,
   lowerowner |-> lc, rootzone |-> z = <<>>,
   inzone |-> InZone(z, n), shape |-> Shape(<<o>>, <<nx>>), pos |-> Pos(<<o>>, <<nx>>, <<h>>),
   class |-> CoverClass(z, n, <<o>>, <<nx>>, <<h>>) \o (IF LongText(text) THEN ":text-longer-than-255" ELSE ""),
   match |-> Match(z, n, <<o>>, <<h>>), cover |-> Cover(z, n, <<o>>, <<nx>>, <<h>>)]
CoverVector(c) ==
  LET z == CPairs[c[4]][1]  n == CPairs[c[4]][2] IN CoverVectorOf(z, n, Present(n), c[1], c[2], c[3], c[5] = 1)

-----------------------------------------------------------------------------
\* spell: the operations that are handed a name as text, on names whose text is not as long as their wire form:
\* Dnssec17!SpreadName(p, k, class) in every spelling of Dnssec17!Spellings.  With k = 1..5 the texts of the
\* all-escaped names of 63 octets are 253..257 characters long; 250 octets in 4 labels is the longest name there is
\* (255 on the wire, 1004 characters).
\*   v = <<"n3", p, k, class>>                      HashName, all spellings in one vector; salt and iterations by p, k
\*   v = <<"ds", p, k, class, spelling>>            ToDS of that owner; digest type and key by p, k, spelling
\*   v = <<"cover", p, k, class, spelling, in, o, nx, h>>   Match / Cover of the spread labels below (in = 1) or
\*                                                  beside (in = 0) the zone ex.c., hash positions 0..2
SpellSeq == <<"lib", "ddd", "esc", "mix">>
SpellPK(extra) == { pk \in SpellPs \X (1..5) : SpreadOK(pk[1], pk[2], extra) }
SpellSalts == <<0, 1, 8>>
SpellIters == <<0, 1, 2, 10>>
SpellDts   == <<1, 2, 4>>
SpellN3Vector(c) ==
  LET n == SpreadName(c[2], c[3], c[4])  salt == SaltOf(SpellSalts[((c[2] + c[3]) % 3) + 1])  k == SpellIters[((c[2] * c[3]) % 4) + 1] IN
  [kind |-> "nsec3", names |-> [i \in 1..4 |-> Spell(n, SpellSeq[i])],
   keys |-> [i \in 1..4 |-> HashNameKey(Spell(n, SpellSeq[i]), FALSE)],
   textlens |-> [i \in 1..4 |-> Len(Spell(n, SpellSeq[i]))], wirelen |-> WireLen(n),
   salt |-> salt, iter |-> k, plan |-> NSEC3Plan(n, salt, k),
   term |-> IF Len(salt) <= 8 THEN NSEC3Hash(n, salt, k) ELSE <<>>]
SpellIdx(how) == CHOOSE i \in 1..4 : SpellSeq[i] = how
SpellDSVector(c) ==
  LET n == SpreadName(c[2], c[3], c[4])  text == Spell(n, c[5])
      dt == SpellDts[((c[2] + c[3] + SpellIdx(c[5])) % 3) + 1]
      k == DSKeys[((c[2] + SpellIdx(c[5])) % Len(DSKeys)) + 1]
      rd == DNSKEYRdata(k[1], k[2], k[3], k[4]) IN
  [kind |-> "ds", owner |-> text, dkey |-> DSDigestKey(DSHash(dt), text), pkey |-> DSPanicKey(dt), flags |-> k[1], proto |-> k[2], alg |-> k[3], key |-> k[4],
   dt |-> dt, hash |-> DSHash(dt), input |-> DSInput(n, rd), tag |-> KeyTag(rd), textlen |-> Len(text), wirelen |-> WireLen(n)]
SpellOutZone == << <<101, 120>>, <<100>> >>                     \* ex.d.
SpellCoverPK == { <<63, 1>>, <<63, 3>>, <<64, 2>>, <<126, 2>>, <<245, 4>> } \cap SpellPK(5)
SpellCoverVector(c) ==
  LET pre == SpreadName(c[2], c[3], c[4])
      suf == IF c[6] = 1 THEN CZone ELSE SpellOutZone
      text == Spell(pre, c[5]) \o Present(suf) IN
  CoverVectorOf(CZone, pre \o suf, text, c[7], c[8], c[9], (c[2] + c[7]) % 2 = 1)

-----------------------------------------------------------------------------
\* validity: v = <<t32, epoch, dI, dE>>: the instant t = epoch * 2^32 + t32, the instants
\* I* = t + dI, E* = t + dE (offsets in two's complement, |d| < 2^31), the fields I, E = those mod 2^32
VTs   == { <<0, 0>>, <<0, 1>>, <<0, 100>>, <<0, 65535>>, <<1, 0>>, <<27000, 4660>>, <<32767, 65535>>, <<32768, 0>>, <<32768, 1>>,
           <<65535, 65436>>, <<65535, 65535>> }
VOffs == { <<0, 0>>, <<0, 1>>, <<65535, 65535>>, <<0, 200>>, <<65535, 65336>>, <<1, 0>>, <<65535, 0>>,
           <<32767, 65535>>, <<32768, 1>>, <<16384, 0>>, <<49152, 0>>, <<0, 60>> }
ValidityVector(c) ==
  LET t == c[1]  I == Add32(t, c[3])  E == Add32(t, c[4]) IN
  [kind |-> "validity", I |-> I, E |-> E, t |-> <<c[2]>> \o t, dI |-> c[3], dE |-> c[4],
   class |-> ValidityClass(I, E, t, c[2]),
   valid |-> ValidAt(I, E, t)]

-----------------------------------------------------------------------------
Init ==
  \/ Mode = "keytag"   /\ v \in KeytagCases(0)
  \/ Mode = "ds"       /\ v \in (1..Len(DSOwners)) \X (0..4) \X DSTypes \X (1..Len(DSKeys))
  \/ Mode = "nsec3"    /\ v \in (1..Len(N3Names)) \X SaltLens \X Iters
                       /\ (v[3] > 1000 => v[1] >= 2 /\ v[1] <= BigNames + 1 /\ v[2] \in {0, 8})
  \/ Mode = "cover"    /\ v \in (0..4) \X (0..4) \X (0..4) \X (1..Len(CPairs)) \X {0, 1}
  \/ Mode = "validity" /\ v \in VTs \X {0, 1} \X VOffs \X VOffs
  \/ Mode = "spell"    /\ \/ \E pk \in SpellPK(0), cls \in SpreadClasses : v = <<"n3", pk[1], pk[2], cls>>
                          \/ \E pk \in SpellPK(0), cls \in SpreadClasses, how \in Spellings : v = <<"ds", pk[1], pk[2], cls, how>>
                          \/ \E pk \in SpellCoverPK, cls \in {"ctl", "punct"}, how \in Spellings, inz \in {0, 1}, o \in 0..2, nx \in 0..2, h \in 0..2 :
                                v = <<"cover", pk[1], pk[2], cls, how, inz, o, nx, h>>
Next == UNCHANGED v

Out ==
  CASE Mode = "keytag"   -> Emit(KeytagVector(v))
    [] Mode = "ds"       -> Emit(DSVector(v))
    [] Mode = "nsec3"    -> Emit(N3Vector(v))
    [] Mode = "cover"    -> Emit(CoverVector(v))
    [] Mode = "validity" -> Emit(ValidityVector(v))
    [] Mode = "spell"    -> Emit(CASE v[1] = "n3" -> SpellN3Vector(v) [] v[1] = "ds" -> SpellDSVector(v) [] OTHER -> SpellCoverVector(v))
=============================================================================
