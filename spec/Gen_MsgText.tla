----------------------------- MODULE Gen_MsgText -----------------------------
(* Vectors for X05: every flag word whose opcode and RCODE have mnemonics ->     *)
(* the admissible MsgHdr.String() texts, exactly.  (Words with unassigned code   *)
(* points are judged by Trace_MsgText.)                                          *)
EXTENDS MsgText, GenBase

CONSTANTS Shard, NShards

VARIABLES v

RECURSIVE SetToSeq(_)
SetToSeq(S) == IF S = {} THEN <<>> ELSE LET e == CHOOSE x \in S : TRUE IN <<e>> \o SetToSeq(S \ {e})

Determined(w) == LET h == HdrOfWord(0, w) IN h.opcode \in DOMAIN OpcodeNames /\ h.rcode \in DOMAIN RcodeNames
Ids == {0, 9, 10, 48404, 65535}
Init == \E w \in { x \in 0..65535 : x % NShards = Shard /\ Determined(x) } : v = <<w, CHOOSE i \in Ids : TRUE>>
        \/ (w \in {0, 33152, 34176, 65024} /\ \E i \in Ids : v = <<w, i>>)
Next == UNCHANGED v

Vector(w, id) ==
  LET h == HdrOfWord(id, w) IN
  [kind |-> "hdr", w |-> w, h |-> h,
   exp |-> SetToSeq({ TOpcode \o o \o TStatus \o r \o HdrTail(h) : o \in OpcodeNames[h.opcode], r \in RcodeNames[h.rcode] })]

Out == Emit(Vector(v[1], v[2]))
=============================================================================
