------------------------------- MODULE Names -------------------------------
(* Domain names: the abstract value (a sequence of labels, each a non-empty   *)
(* octet string), its wire form (RFC 1035 section 3.1, 4.1.4) and its         *)
(* presentation form (RFC 1035 section 5.1 as the library writes it), plus    *)
(* every label helper of labels.go / defaults.go / dnsutil, each DEFINED from *)
(* the one parser below.  Properties C03 and C19; used by every other module. *)
EXTENDS Bytes

CONSTANTS MaxLabel,   \* 63 in the real world
          MaxName     \* 255 in the real world

-----------------------------------------------------------------------------
(* Abstract names and the wire form *)

WireLen(n) == 1 + SumSeq([i \in 1..Len(n) |-> 1 + Len(n[i])])

ValidName(n) == /\ \A i \in 1..Len(n) : Len(n[i]) >= 1 /\ Len(n[i]) <= MaxLabel
                /\ WireLen(n) <= MaxName

EncName(n) == Concat([i \in 1..Len(n) |-> <<Len(n[i])>> \o n[i]]) \o <<0>>

LowerName(n) == [i \in 1..Len(n) |-> Lower(n[i])]

(* DecName follows compression pointers.  It accepts exactly the chains that  *)
(* terminate, whose labels are 1..63 octets and whose total is <= MaxName;    *)
(* `next' is the offset (0-based) after the name in the enclosing record:     *)
(* after the root octet, or after the first pointer.                          *)
(* msg is 1-based in TLA+, offsets are the 0-based ones of the wire.          *)
RECURSIVE DN(_, _, _, _, _, _)
DN(msg, off, labels, hops, first, seen) ==
  IF off >= Len(msg) THEN [ok |-> FALSE, why |-> "short"]
  ELSE LET c == msg[off + 1] IN
    IF c = 0 THEN
      [ok |-> ValidName(labels), why |-> "long", name |-> labels,
       next |-> IF first = -1 THEN off + 1 ELSE first, hops |-> hops]
    ELSE IF c < 64 THEN
      IF off + 1 + c > Len(msg) THEN [ok |-> FALSE, why |-> "short"]
      ELSE IF WireLen(labels) + c + 1 > MaxName THEN [ok |-> FALSE, why |-> "long"]
      ELSE DN(msg, off + 1 + c, Append(labels, Sub(msg, off + 2, off + 1 + c)), hops, first, seen)
    ELSE IF c >= 192 THEN
      IF off + 1 >= Len(msg) THEN [ok |-> FALSE, why |-> "short"]
      ELSE LET t == (c - 192) * 256 + msg[off + 2] IN
        IF t \in seen THEN [ok |-> FALSE, why |-> "loop"]
        ELSE DN(msg, t, labels, hops + 1, IF first = -1 THEN off + 2 ELSE first, seen \cup {t})
    ELSE [ok |-> FALSE, why |-> "reserved"]

DecName(msg, off) == DN(msg, off, <<>>, 0, -1, {})

-----------------------------------------------------------------------------
(* Presentation form as the library writes it (UnpackDomainName):             *)
(* backslash before  . space ' @ ; ( ) " \  ; \DDD for octets outside 0x20..0x7e *)

Special == {46, 32, 39, 64, 59, 40, 41, 34, 92}

PresOctet(b) == IF b \in Special THEN <<92, b>>
                ELSE IF b < 32 \/ b > 126 THEN <<92>> \o Dec3(b)
                ELSE <<b>>

PresLabel(lab) == Concat([i \in 1..Len(lab) |-> PresOctet(lab[i])])

Present(n) == IF n = <<>> THEN <<46>>
              ELSE Concat([i \in 1..Len(n) |-> PresLabel(n[i]) \o <<46>>])

-----------------------------------------------------------------------------
(* The one reader of presentation text (RFC 1035 section 5.1):                *)
(*   \DDD  = the octet with that decimal value (DDD <= 255)                    *)
(*   \X    = X, for X not a digit                                              *)
(*   \D    = D for a digit D that is not the first of three digits: RFC 1035   *)
(*           does not define this spelling; every reader in the library (and   *)
(*           BIND) takes it as the digit itself, and the clauses "IsDomainName *)
(*           exactly when PackDomainName accepts" / "helpers agree with the    *)
(*           wire labels" quantify over such texts too, so the specification   *)
(*           fixes this one reading (round-4 seeds C03-11, C19-11)             *)
(*   .     = label separator unless escaped                                    *)
(* st: "ok" | "bad" (no reading accepts: empty label, dangling backslash)      *)
(*     | "undef" (outside RFC 1035: \DDD > 255)                                *)
(* labels: the octets of each label; starts: 0-based text offset where each    *)
(* label begins; fq: text ended with an unescaped dot.                         *)
RECURSIVE P(_, _, _, _, _, _)
P(s, i, cur, labs, starts, curStart) ==
  IF i > Len(s) THEN
    IF cur = <<>> THEN [st |-> IF Len(s) > 0 THEN "ok" ELSE "bad", labels |-> labs, starts |-> starts, fq |-> Len(s) > 0]
    ELSE [st |-> "ok", labels |-> Append(labs, cur), starts |-> Append(starts, curStart), fq |-> FALSE]
  ELSE LET c == s[i] IN
    IF c = 92 THEN
      IF i + 3 <= Len(s) /\ IsDigit(s[i+1]) /\ IsDigit(s[i+2]) /\ IsDigit(s[i+3]) THEN
        LET v == 100 * (s[i+1] - 48) + 10 * (s[i+2] - 48) + (s[i+3] - 48) IN
        IF v > 255 THEN [st |-> "undef", labels |-> labs, starts |-> starts, fq |-> FALSE]
        ELSE P(s, i + 4, Append(cur, v), labs, starts, curStart)
      ELSE IF i + 1 <= Len(s) THEN P(s, i + 2, Append(cur, s[i+1]), labs, starts, curStart)   \* also a digit not followed by two more: see above
      ELSE [st |-> "bad", labels |-> labs, starts |-> starts, fq |-> FALSE]
    ELSE IF c = 46 THEN
      IF cur = <<>> THEN
        IF Len(s) = 1 THEN [st |-> "ok", labels |-> <<>>, starts |-> <<>>, fq |-> TRUE]      \* the root
        ELSE [st |-> "bad", labels |-> labs, starts |-> starts, fq |-> FALSE]                \* empty label
      ELSE P(s, i + 1, <<>>, Append(labs, cur), Append(starts, curStart), i)
    ELSE P(s, i + 1, Append(cur, c), labs, starts, curStart)

Parse(s) == P(s, 1, <<>>, <<>>, <<>>, 0)

(* Fully-qualified test on text alone: last character is a dot preceded by an *)
(* even number of backslashes.                                                *)
RECURSIVE TrailingBackslashes(_, _)
TrailingBackslashes(s, i) == IF i >= 1 /\ s[i] = 92 THEN 1 + TrailingBackslashes(s, i - 1) ELSE 0
IsFqdnSpec(s) == Len(s) > 0 /\ s[Len(s)] = 46 /\ TrailingBackslashes(s, Len(s) - 1) % 2 = 0
FqdnSpec(s) == IF IsFqdnSpec(s) THEN s ELSE s \o <<46>>
CanonicalSpec(s) == Lower(FqdnSpec(s))

(* C03: the judge all three implementations must agree with, for fully        *)
(* qualified text.                                                            *)
Accept(s) == LET p == Parse(s) IN p.st = "ok" /\ p.fq /\ ValidName(p.labels)

-----------------------------------------------------------------------------
(* C19: label helpers, defined from Parse(s).labels / .starts                 *)

CountLabelSpec(s) == Len(Parse(s).labels)
SplitSpec(s)      == Parse(s).starts                      \* Split(".") = nil = <<>>
\* NextLabel(s, off): the next label start strictly after off, or (len(s), end)
NextLabelSpec(s, off) ==
  LET st == Parse(s).starts
      later == { st[i] : i \in 1..Len(st) } \cap { x \in 0..Len(s) : x > off }
  IN IF later = {} THEN [i |-> Len(s), end |-> TRUE]
     ELSE [i |-> CHOOSE x \in later : \A y \in later : x <= y, end |-> FALSE]
\* PrevLabel(s, n): start of the n-th label from the right (n >= 1); n = 0 gives len(s);
\* start=TRUE when the beginning of the name was overshot (fewer than n labels)
PrevLabelSpec(s, n) ==
  LET st == Parse(s).starts IN
  IF n = 0 THEN [i |-> Len(s), start |-> FALSE]
  ELSE IF n <= Len(st) THEN [i |-> st[Len(st) - n + 1], start |-> FALSE]
  ELSE [i |-> 0, start |-> TRUE]
\* The same two steppers given the label starts st = Parse(s).starts and len = Len(s): equal to the definitions above
\* (MC_Names: SteppersFromStarts), but the text is read once per name instead of once per step - names of 127 labels.
RECURSIVE FirstAfter(_, _, _)
FirstAfter(st, i, off) == IF i > Len(st) THEN 0 ELSE IF st[i] > off THEN i ELSE FirstAfter(st, i + 1, off)   \* st is increasing
NextLabelFrom(st, len, off) ==
  LET k == FirstAfter(st, 1, off) IN IF k = 0 THEN [i |-> len, end |-> TRUE] ELSE [i |-> st[k], end |-> FALSE]
PrevLabelFrom(st, len, n) ==
  IF n = 0 THEN [i |-> len, start |-> FALSE]
  ELSE IF n <= Len(st) THEN [i |-> st[Len(st) - n + 1], start |-> FALSE]
  ELSE [i |-> 0, start |-> TRUE]
\* the text of each label (escapes kept), as SplitDomainName returns it
SplitDomainNameSpec(s) ==
  LET p == Parse(s)
      endOf(k) == IF k < Len(p.starts) THEN p.starts[k+1] - 1
                  ELSE IF p.fq THEN Len(s) - 1 ELSE Len(s)
  IN [k \in 1..Len(p.starts) |-> Sub(s, p.starts[k] + 1, endOf(k))]

RECURSIVE CommonSuffix(_, _)
CommonSuffix(a, b) ==     \* number of trailing labels equal ASCII-case-insensitively
  IF a = <<>> \/ b = <<>> THEN 0
  ELSE IF Lower(a[Len(a)]) = Lower(b[Len(b)]) THEN 1 + CommonSuffix(Sub(a, 1, Len(a) - 1), Sub(b, 1, Len(b) - 1))
  ELSE 0
CompareSpec(s1, s2)   == CommonSuffix(Parse(s1).labels, Parse(s2).labels)
IsSubDomainSpec(p, c) == CompareSpec(p, c) = CountLabelSpec(p)

\* dnsutil: relative name r (not fully qualified, not empty, not "@") under origin o (fully qualified)
AddOriginSpec(r, o) == IF o = <<46>> THEN r \o <<46>> ELSE r \o <<46>> \o o
-----------------------------------------------------------------------------
(* Added for C03 / C19 round 7 (operators only ADDED; nothing above changed).  *)

(* WireDenotesName: the octets of msg at off - labels and, possibly, compression       *)
(* pointers into msg - stand for exactly the labels n, octet for octet (letter *)
(* case included: a pointer stands for the octets it points at), and the name  *)
(* ends at `end'.  This is what "packs back to the identical octets" means for *)
(* a packer that may shorten a name by a pointer: the reader of section 4.1.4  *)
(* gets the identical name back.                                               *)
WireDenotesName(msg, off, end, n) ==
  LET d == DecName(msg, off) IN d.ok /\ d.name = n /\ d.next = end

(* The name with every ASCII letter in the other case: the same name to a      *)
(* comparison (RFC 1035 s.2.3.3), other octets on the wire.                    *)
OtherCaseOctet(b) == IF b >= 65 /\ b <= 90 THEN b + 32 ELSE IF b >= 97 /\ b <= 122 THEN b - 32 ELSE b
OtherCaseName(n) == [i \in 1..Len(n) |-> [j \in 1..Len(n[i]) |-> OtherCaseOctet(n[i][j])]]

(* Raw presentation: only the characters that are syntax are escaped; every    *)
(* other octet - control characters, octets above 0x7e - stands for itself, as *)
(* in a zone file written in UTF-8 or Latin-1.  A text is a string of OCTETS:  *)
(* Parse reads RawPresent(n) back to n, whatever the octets would mean to a    *)
(* reader of runes (MC_Names: RawRoundTrip).                                   *)
RawPresOctet(b) == IF b \in Special THEN <<92, b>> ELSE <<b>>
RawPresent(n) == IF n = <<>> THEN <<46>>
                 ELSE Concat([i \in 1..Len(n) |-> Concat([j \in 1..Len(n[i]) |-> RawPresOctet(n[i][j])]) \o <<46>>])
=============================================================================
