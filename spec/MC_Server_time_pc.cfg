CONSTANTS
  Mode = "pc"
  NStart = 1
  NLsn = 1
  NShut = 2
  NConns = 0
  MaxReq = 0
  NPkts = 2
  CtxMayExpire = TRUE
  PlainShut = {1}
  DeadlinesMayFire = TRUE
  ClientMayClose = FALSE
  HandlerMayClose = FALSE
  HandlerMayHijack = FALSE
  StartMayFail = FALSE
  SpareFields = FALSE
  SeqRestart = FALSE
  Bug = "none"
  TrackAct = TRUE
INIT Init
NEXT Next
VIEW View
CHECK_DEADLOCK FALSE
INVARIANTS TypeOK PlainShutdownWaits GracefulReturn RepliesDelivered ServeReturnsNil OneLoopPerGeneration LockDiscipline NoCrash PromptUnblock NothingLeft
PROPERTIES NoHandlerStartAfterShutdownReturned StartTwiceErrors ShutdownNotStartedErrors FailedStartLeavesStopped
