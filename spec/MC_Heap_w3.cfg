CONSTANTS
  Obj = {1, 2, 3}
  NSlots = 2
INIT Init
NEXT Next
INVARIANTS WitnessCopyToAliased
CHECK_DEADLOCK FALSE
