CONSTANTS
  Chars = {97, 32, 34, 92, 59, 40, 41, 10}
  StrLen = 6
  Octs = {97, 32, 34, 92, 59, 40, 41, 10, 0, 200, 49}
  OctLen = 4
INIT Init
NEXT Next
INVARIANTS Total RoundTrip CommentsTransparent ParensTransparent IllIndependent ValRoundTrip Examples
CHECK_DEADLOCK FALSE
