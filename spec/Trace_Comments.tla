---------------------------- MODULE Trace_Comments ----------------------------
(* Events recorded from the real dns.ZoneParser (harness `comments record`) on    *)
(* seeded-random zones assembled from Gen_Comments' pieces, judged by             *)
(* Comments.tla.  Nothing blocks: a wrong event is marked bad (with its finding   *)
(* key printed as VP:k<line>=<clause>:<class>) and the trace goes on.             *)
(*   zone     [zone, text, inc]  the abstract zone and the octets the harness      *)
(*            rendered from it: text = Render(zone), inc = IncText(zone), the      *)
(*            entries are well-formed and the comments read back from the OCTETS   *)
(*            are the model's -- otherwise the harness is wrong ("render")         *)
(*   next     [ok, name]         Next(): ok exactly while records are expected;    *)
(*            the owner is the expected record's                                   *)
(*   comment  [c]                Comment(): c \in Admitted(entry of the record     *)
(*            most recently returned); "" before the first and after the last      *)
(*            Next(); the same text as the call before                             *)
(*   end      [err]              Err() # nil exactly when the zone has a refused   *)
(*            line                                                                 *)
EXTENDS Comments, TraceBase

VARIABLES l, sm, ex, lost
Ev == Trace[l]

RECURSIVE WF(_)
WF(es) == \A i \in 1..Len(es) : WellFormedEntry(es[i]) /\ (es[i].kind = "inc" => WF(es[i].sub))
ZoneOK(e) == /\ WF(e.zone.entries)
             /\ Cardinality({ i \in 1..Len(e.zone.entries) : e.zone.entries[i].kind = "inc" }) <= 1
             /\ e.text = Render(e.zone)
             /\ e.inc = IncText(e.zone)
             /\ ScanZone(e.text) = ModelScan(e.zone)

Key(k) == PrintT("VP:k" \o ToString(l) \o "=" \o k)

Init == l = 1 /\ HWInit /\ sm = SMStart(<<>>) /\ ex = [err |-> FALSE, crlf |-> FALSE] /\ lost = TRUE

Step ==
  CASE Ev.ev = "zone" ->
         IF ZoneOK(Ev)
         THEN LET x == ExpectZone(Ev.zone) IN sm' = SMStart(x.recs) /\ ex' = [err |-> x.err, crlf |-> Ev.zone.crlf] /\ lost' = FALSE
         ELSE MarkBad(l) /\ Key("render") /\ sm' = SMStart(<<>>) /\ lost' = TRUE /\ UNCHANGED ex
    [] lost -> UNCHANGED <<sm, ex, lost>>                  \* out of step with this zone: not judged until the next one
    [] Ev.ev = "next" ->
         IF Ev.ok # SMHasNext(sm)
         THEN MarkBad(l) /\ Key(IF Ev.ok THEN "records:more" ELSE "records:fewer") /\ lost' = TRUE /\ UNCHANGED <<sm, ex>>
         ELSE IF Ev.ok /\ Ev.name # sm.recs[sm.i + 1].name
         THEN MarkBad(l) /\ Key("records:owner") /\ lost' = TRUE /\ UNCHANGED <<sm, ex>>
         ELSE sm' = SMNext(sm) /\ UNCHANGED <<ex, lost>>
    [] Ev.ev = "comment" ->
         /\ sm' = SMComment(sm, Ev.c)
         /\ UNCHANGED <<ex, lost>>
         /\ IF Ev.c \in SMAllowed(sm) THEN TRUE
            ELSE MarkBad(l) /\ Key(IF sm.reg # Unknown THEN "second-call"
                                   ELSE IF sm.done \/ sm.i = 0 THEN "after-end"
                                   ELSE Clause(Ev.c, sm.recs[sm.i].e, ex.crlf) \o ":" \o Cls(sm.recs[sm.i].e))
    [] Ev.ev = "end" ->
         /\ UNCHANGED <<sm, ex, lost>>
         /\ IF sm.done /\ Ev.err = ex.err THEN TRUE ELSE MarkBad(l) /\ Key("error")
    [] OTHER -> MarkBad(l) /\ Key("render") /\ UNCHANGED <<sm, ex, lost>>

Next == /\ l <= Len(Trace)
        /\ Step
        /\ HW(l)
        /\ l' = l + 1
=============================================================================
