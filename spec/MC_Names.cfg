CONSTANTS
  MaxLabel = 2
  MaxName = 8
  Alpha = {0, 46, 49, 65, 92}
  Chars = {46, 92, 48, 50, 65, 97}
  StrLen = 6
INIT Init
NEXT Next
INVARIANTS WireRoundTrip TextRoundTrip Boundary Helpers SteppersFromStarts StrInv RawRoundTrip DenotesOwn
