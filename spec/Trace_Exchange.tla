---------------------------- MODULE Trace_Exchange ----------------------------
(* Validates events recorded by `exchange record`: N concurrent clients, each  *)
(* doing R exchanges one after the other, against one real server.             *)
(*                                                                             *)
(*   send   client c starts exchange (c, round) (try > 0: sends it again)      *)
(*   handle the handler was invoked for a datagram / message whose source      *)
(*          address is client c's: the request as the handler saw it on entry  *)
(*          (req1) and again after `later' more packets had been received      *)
(*          (req2), same = the two Pack() results are equal                    *)
(*   crecv  client c got a reply for (c, round): id, question name, token; on   *)
(*          transport "udpmulti" (a server on a wildcard socket, clients that   *)
(*          talk to different local addresses of it from unconnected sockets)  *)
(*          also src = which server address the reply came FROM, to be compared *)
(*          with dst of the send event                                          *)
(*   lost   an exchange attempt ended without reply (real UDP only); not an    *)
(*          error                                                              *)
(* The events are written under one lock, a handler's event before it writes   *)
(* its reply.  Every request field (id, question name, address record, token)  *)
(* is a function of (c, round), so TLC can tell whose request a handler saw,   *)
(* field by field, and whose reply a client got.  The Exchange machine is      *)
(* stepped along: send -> Send/Resend, handle -> Recv;Decode;Release;Handle;   *)
(* Reply for the instance client c is waiting for, crecv -> ClientRecv.        *)
(* On the datagram transports the repo's verification hooks (build tag verif)  *)
(* report every pool Get / Put with the identity of the buffer, and the        *)
(* recorder's DecorateReader reports which buffer each datagram was read into, *)
(* from whom, and which exchange the raw octets name:                          *)
(*   get(b) ; recv(b, c, inst) -> Recv(b, inst)                                *)
(*   put(b)                    -> Decode ; Release  (the machine decodes at    *)
(*                                the last moment the code is allowed to)      *)
(*   handle(c)                 -> Handle ; Reply of a released task of c       *)
(* so that a handler that saw another client's request is explained: it is    *)
(* the request received later into the same buffer.                            *)
(* Events are judged without blocking (bad ones get a class).                  *)
EXTENDS Exchange, TraceBase

VARIABLES l, x, cur, sentAt, out        \* out: buffers taken from the pool into which nothing has been received yet

Ev == Trace[l]
MarkBadC(i, c) == MarkBad(i) /\ TLCSet(3, Append(TLCGet(3), <<i, c>>))

Inst(c, r)   == c * 8 + r
RoundOf(i)   == i % 8
ClientOf(i)  == i \div 8
NameOf(c, r) == <<99, 65 + (c \div 8), 65 + (c % 8), 114, 65 + r, 46, 101, 120, 99, 104, 46>>     \* c<C><C>r<R>.exch.
IpOf(c, r)   == <<10, c, r, (c + r) % 256>>
\* requests differ in size: the token is padded (the recorder's padLen / instTok)
ReqBase == 73
PadMax  == 512 - ReqBase
PadLen(c, r) == CASE r % 4 = 0 -> c % 6
                  [] r % 4 = 1 -> PadMax - (c % 3)
                  [] r % 4 = 2 -> (c * 37 + r * 101) % (PadMax + 1)
                  [] OTHER     -> IF c % 2 = 0 THEN PadMax ELSE 0
TokOf(c, r)  == <<c, r, (c * 7 + r) % 256, 255 - c>> \o [i \in 1..PadLen(c, r) |-> (c * 13 + r * 7 + i) % 256]
First4(t)    == SubSeq(t, 1, 4)
IdOf(c, r)   == 1000 + c * 8 + r
ReplyTokOf(t) == [i \in 1..Len(t) |-> (t[Len(t) + 1 - i] + 1) % 256]
FieldsOf(c, r) == [id |-> IdOf(c, r), qname |-> NameOf(c, r), ip |-> IpOf(c, r), tok |-> TokOf(c, r)]

TraceClients == { Inst(Trace[i].c, Trace[i].round) : i \in { j \in 1..Len(Trace) : Trace[j].ev = "send" } }
CIds == { Trace[i].c : i \in { j \in 1..Len(Trace) : Trace[j].ev = "send" } }

\* which field of the request a handler saw is not its client's
ForeignField(f, c, r) ==
  IF f.id # IdOf(c, r) THEN "id"
  ELSE IF f.qname # NameOf(c, r) THEN "qname"
  ELSE IF f.ip # IpOf(c, r) THEN "address-record"
  ELSE IF f.tok # TokOf(c, r) THEN "token"
  ELSE ""

Prune(s) == [s EXCEPT !.tasks = SelectSeq(s.tasks, LAMBDA t : t.stage # "done"), !.saw = <<>>]

ServeOne(s, inst) ==      \* the server side of one exchange on a transport without pooled buffers, as server.go orders it
  LET b == CHOOSE b \in Free(s) : TRUE
      s1 == Recv(s, b, inst)
      t == Len(s1.tasks)
      s4 == Reply(Handle(Release(Decode(s1, t), t), t), t) IN
  \* the machine itself never mixes (Decode before Release); finished tasks and the history are then dropped
  IF Assert(NoMixing(s4) /\ BufferOwned(s4), "Exchange.tla mixes requests") THEN Prune(s4) ELSE s4

\* tasks whose buffer has been released and whose handler has not run yet, for datagrams that came from client c
Pending(s, c) == { t \in 1..Len(s.tasks) : s.tasks[t].stage = "released" /\ ClientOf(s.tasks[t].from) = c }
Holding(s, b) == { t \in 1..Len(s.tasks) : s.tasks[t].stage = "recv" /\ s.tasks[t].b = b }
MinOf(S) == CHOOSE t \in S : \A u \in S : t <= u
FieldsOfInst(i) == FieldsOf(ClientOf(i), RoundOf(i))

Pooled(e) == e.tr \in {"udp", "udpmulti", "pc"}
Lossless == {"tcp", "tcpreal", "pc", "tcptsig"}
\* what a handler is shown by ResponseWriter.TsigStatus() for a request that carried no TSIG / a TSIG made with the shared
\* secret / a TSIG whose MAC was altered / a TSIG under a key name the server has no secret for
StatusFor(kind) == CASE kind = "none" -> "none" [] kind = "good" -> "ok" [] OTHER -> "err"

Init == l = 1 /\ x = XInit /\ cur = [c \in CIds |-> -1] /\ sentAt = [i \in TraceClients |-> 0] /\ out = {} /\ HWInit /\ TLCSet(3, <<>>)

\* the octets client instance i put on the wire
SentWire(i) == Trace[sentAt[i]].wire

HandleEvent ==
  LET c == Ev.c IN
  \* a ResponseWriter answers the client whose request it was created for, also when the reply is written after the
  \* handler has returned (c0: the peer it named on entry, c: when the reply is written)
  IF Ev.c0 # Ev.c THEN MarkBadC(l, "response-writer-changed-peer") /\ UNCHANGED x
  ELSE IF c \notin CIds \/ cur[c] = -1 THEN MarkBadC(l, "handler-invoked-for-unknown-peer") /\ UNCHANGED x
  ELSE IF ~Pooled(Ev) THEN
    \* stream transports: one connection per client, served in order: the request is the one the client is waiting for
    LET i == cur[c] IN
    IF x.net[i] = 0 THEN MarkBadC(l, "handler-invoked-without-request") /\ UNCHANGED x
    ELSE /\ x' = ServeOne(x, i)
         /\ LET ff == ForeignField(Ev.req1, ClientOf(i), RoundOf(i)) IN
            IF ff # "" THEN MarkBadC(l, "handler-saw-foreign-request:" \o ff)
            ELSE IF Ev.wire # SentWire(i) THEN MarkBadC(l, "handler-request-octets-differ")
            ELSE IF Ev.req2 # Ev.req1 \/ ~Ev.same THEN MarkBadC(l, "request-changed-under-handler")
            ELSE TRUE
  ELSE
    \* datagram transports: the handler must have been given one of the datagrams received from c whose buffer
    \* has been released; the machine decoded each of them before the release
    LET P == Pending(x, c)
        M == { t \in P : x.tasks[t].req.who # 0 /\ Ev.req1 = FieldsOfInst(x.tasks[t].req.who) } IN
    IF P = {} THEN MarkBadC(l, "handler-invoked-without-received-request") /\ UNCHANGED x
    ELSE LET t == IF M # {} THEN MinOf(M) ELSE MinOf(P)
             i == x.tasks[t].from
             s2 == Reply(Handle(x, t), t) IN
      /\ x' = (IF Assert(NoMixing(s2), "Exchange.tla mixes requests") THEN Prune(s2) ELSE s2)
      /\ IF M = {} THEN
           \* whose request was it?  the one received later into the same buffer: the buffer was recycled under the decoder
           IF x.buf[x.tasks[t].b].who # i /\ x.buf[x.tasks[t].b].who # 0 /\ Ev.req1 = FieldsOfInst(x.buf[x.tasks[t].b].who)
             THEN MarkBadC(l, "handler-saw-request-from-recycled-buffer")
             ELSE MarkBadC(l, "handler-saw-foreign-request:" \o ForeignField(Ev.req1, ClientOf(i), RoundOf(i)))
         ELSE IF Ev.wire # SentWire(i) THEN MarkBadC(l, "handler-request-octets-differ")      \* every octet, the length included
         ELSE IF Ev.req2 # Ev.req1 \/ ~Ev.same THEN MarkBadC(l, "request-changed-under-handler")
         ELSE TRUE

Next ==
  /\ l <= Len(Trace)
  /\ HW(l)
  /\ l' = l + 1
  /\ CASE Ev.ev = "send" ->
            LET i == Inst(Ev.c, Ev.round) IN
            /\ cur' = [cur EXCEPT ![Ev.c] = i]
            /\ sentAt' = [sentAt EXCEPT ![i] = l]
            /\ UNCHANGED out
            /\ IF Ev.req # FieldsOf(Ev.c, Ev.round) \/ Len(Ev.wire) # ReqBase + PadLen(Ev.c, Ev.round) \/ Len(Ev.wire) > Cap
                 THEN MarkBadC(l, "recorder-send-fields") /\ UNCHANGED x
               ELSE IF Ev.try = 0 /\ CanSend(x, i) THEN x' = Send(x, i, Len(Ev.wire), Ev.dst)
               ELSE IF Ev.try > 0 /\ CanResend(x, i) THEN x' = Resend(x, i)
               ELSE MarkBadC(l, "recorder-send-order") /\ UNCHANGED x
       [] Ev.ev = "get" ->        \* pool.get hook: the buffer leaves the pool
            /\ UNCHANGED <<x, cur, sentAt>>
            /\ IF InPool(x, Ev.buf) /\ Ev.buf \notin out THEN out' = out \cup {Ev.buf}
               ELSE MarkBadC(l, "buffer-handed-out-while-in-use") /\ UNCHANGED out
       [] Ev.ev = "recv" ->       \* a datagram from client c was read into the buffer (seen by the DecorateReader)
            /\ UNCHANGED <<cur, sentAt>>
            /\ IF ~Pooled(Ev) THEN UNCHANGED <<x, out>>
               ELSE IF Ev.buf \notin out THEN MarkBadC(l, "received-into-a-buffer-not-taken-from-the-pool") /\ UNCHANGED <<x, out>>
               ELSE IF Ev.c = 0 THEN       \* from one of the recorder's noise senders: a datagram that never reaches a handler
                    x' = RecvJunk(SendJunk(x), Ev.buf) /\ out' = out \ {Ev.buf}
               ELSE IF Ev.inst \notin TraceClients \/ ClientOf(Ev.inst) # Ev.c \/ x.net[Ev.inst] = 0
                    THEN MarkBadC(l, "recorder-recv-unsent") /\ UNCHANGED <<x, out>>
               ELSE /\ x' = Recv(x, Ev.buf, Ev.inst) /\ out' = out \ {Ev.buf}
                    \* the read must have taken every octet the client sent (the buffer has room for Cap)
                    /\ IF Ev.len = Taken(x, Ev.buf, Ev.inst) THEN TRUE
                       ELSE IF Ev.len < x.size[Ev.inst] THEN MarkBadC(l, "request-cut-on-receive-into-recycled-buffer")
                       ELSE MarkBadC(l, "received-more-than-was-sent")
       [] Ev.ev = "put" ->        \* pool.put hook: what the server knows of the datagram it knows now (Decode), then the buffer is free
            /\ UNCHANGED <<cur, sentAt>>
            /\ IF Ev.buf \in out THEN out' = out \ {Ev.buf} /\ UNCHANGED x       \* the read failed, nothing was received
               ELSE IF Holding(x, Ev.buf) # {} THEN
                 LET t == MinOf(Holding(x, Ev.buf)) IN
                 /\ x' = (IF x.tasks[t].from = Junk THEN Prune(JunkRelease(x, t)) ELSE Release(Decode(x, t), t))
                 /\ UNCHANGED out
               ELSE MarkBadC(l, "buffer-put-back-twice") /\ UNCHANGED <<x, out>>
       [] Ev.ev = "handle" -> HandleEvent /\ UNCHANGED <<cur, sentAt, out>>
       [] Ev.ev = "crecv" ->
            /\ UNCHANGED <<cur, sentAt, out>>
            /\ LET i == Inst(Ev.c, Ev.round)
                   rep == [to |-> i, body |-> ReplyFor(Whole(x, i)), src |-> x.via[i]] IN
               IF i \notin TraceClients \/ ~CanClientRecv(x, i, rep) THEN MarkBadC(l, "reply-without-handler") /\ UNCHANGED x
               ELSE
                 /\ x' = ClientRecv(x, i, rep)
                 /\ IF Ev.tr = "udpmulti" /\ Ev.src # x.via[i] THEN MarkBadC(l, "reply-from-wrong-local-address")
                    ELSE IF Ev.req.id # IdOf(Ev.c, Ev.round) THEN MarkBadC(l, "client-got-foreign-reply:id")
                    ELSE IF Ev.req.qname # NameOf(Ev.c, Ev.round) THEN MarkBadC(l, "client-got-foreign-reply:qname")
                    ELSE IF Ev.req.tok # ReplyTokOf(First4(TokOf(Ev.c, Ev.round))) THEN MarkBadC(l, "client-got-foreign-reply:token")
                    ELSE TRUE
       [] Ev.ev = "lost" ->
            \* an attempt that ended without reply.  Running into the deadline is never a verdict (loss on real UDP, a loaded
            \* machine); an exchange that FAILS -- ErrId, a reply that does not decode, a connection that ends -- on a
            \* transport that loses and reorders nothing means the client was given something else than the reply to its request
            /\ UNCHANGED <<x, cur, sentAt, out>>
            /\ IF Ev.tr \in Lossless /\ Ev.err = "other" THEN MarkBadC(l, "exchange-failed-on-lossless-transport") ELSE TRUE
       [] Ev.ev = "hstat" ->
            \* the TSIG status a handler is shown belongs to the request it is handling, not to an earlier one on the connection
            /\ UNCHANGED <<x, cur, sentAt, out>>
            /\ IF Ev.seen = StatusFor(Ev.kind) THEN TRUE ELSE MarkBadC(l, "handler-saw-tsig-status-of-another-request:" \o Ev.kind)
       [] OTHER -> MarkBadC(l, "unknown-event") /\ UNCHANGED <<x, cur, sentAt, out>>

\* the machine itself never mixes (Decode before Release): checked along the way
ModelSane == NoMixing(x) /\ BufferOwned(x) /\ PoolOnce(x)

AcceptedC == PrintT("VP:cls=" \o ToJson(TLCGet(3))) /\ Accepted
=============================================================================
