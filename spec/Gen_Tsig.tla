----------------------------- MODULE Gen_Tsig -----------------------------
(* Vectors for C11.  The messages are INPUT: msgs.ndjson holds octet strings  *)
(* the harness produced with the real Pack (`tsig msgs'); every vector is one *)
(* TLC state: message x algorithm x key x secret x request MAC x timers-only  *)
(* x original id (= / # message id) x error/other-data x fudge/time.  For     *)
(* each the specification gives                                               *)
(*   digest      the octets RFC 8945 4.3 puts into the HMAC                   *)
(*   pre / post  the signed message around a MAC of `maclen' octets           *)
(*   preAlt      AMBIG: same with the header ID replaced by the original ID   *)
(*               (RFC 8945 does not say which ID a signer emits when they     *)
(*               differ)                                                      *)
(*   nows        clock values at and around both window edges with the        *)
(*               expected time verdict                                        *)
(* The harness: real TsigGenerate must return HMAC(secret, digest) and        *)
(* pre . MAC . post; real verification of pre . HMAC . post at each `now'     *)
(* must succeed exactly where ok = 1.                                         *)
EXTENDS Tsig, GenBase

CONSTANTS Shard, NShards

VARIABLE v     \* <<message, algorithm, key, request MAC, timers only, original id, error case, time case>>

Msgs == ndJsonDeserialize("msgs.ndjson")          \* [mi, octets]

\* algorithm names as given to the signer; maclen 0 = not an HMAC the library supports
Algs == <<
  [name |-> << <<104, 109, 97, 99, 45, 115, 104, 97, 49>> >>,            maclen |-> 20],   \* hmac-sha1.
  [name |-> << <<104, 109, 97, 99, 45, 115, 104, 97, 50, 50, 52>> >>,    maclen |-> 28],   \* hmac-sha224.
  [name |-> << <<104, 109, 97, 99, 45, 115, 104, 97, 50, 53, 54>> >>,    maclen |-> 32],   \* hmac-sha256.
  [name |-> << <<104, 109, 97, 99, 45, 115, 104, 97, 51, 56, 52>> >>,    maclen |-> 48],   \* hmac-sha384.
  [name |-> << <<104, 109, 97, 99, 45, 115, 104, 97, 53, 49, 50>> >>,    maclen |-> 64],   \* hmac-sha512.
  [name |-> << <<72, 77, 65, 67, 45, 83, 72, 65, 50, 53, 54>> >>,        maclen |-> 32],   \* HMAC-SHA256. (case folded in the digest)
  [name |-> << <<104, 109, 97, 99, 45, 115, 104, 97, 50, 53, 55>> >>,    maclen |-> 0]     \* hmac-sha257.: no such algorithm
>>
Keys == << << <<75, 101, 121>>, <<69, 120, 97, 109, 112, 108, 101>> >>,    \* Key.Example.
           << <<107>> >> >>                                                \* k.
\* request MACs: none, 32 octets, 10 octets (the shortest RFC 8945 5.2.2.1 lets a MAC be; the library's
\* digest buffer is too small for request MACs of a single octet, which no HMAC produces)
ReqMacs == << <<>>, [i \in 1..32 |-> (i * 37) % 256], [i \in 1..10 |-> 255 - i] >>
ErrCases == << [error |-> 0, other |-> <<>>],
               [error |-> 18, other |-> <<0, 0, 101, 1, 2, 3>>],          \* BADTIME carries the server time
               [error |-> 23, other |-> <<>>],
               [error |-> 0, other |-> <<9, 9>>] >>
\* fudge and signing time; the 48-bit time needs all three limbs in two of them
TimeCases == << [time |-> <<0, 25000, 4464>>, fudge |-> 300],
                [time |-> <<3, 0, 17>>, fudge |-> 300],                    \* window reaches below a limb boundary
                [time |-> <<0, 65535, 65000>>, fudge |-> 65535],           \* and above one
                [time |-> <<0, 30000, 1>>, fudge |-> 1] >>

Universe == (1..Len(Msgs)) \X (1..Len(Algs)) \X (1..Len(Keys)) \X (1..Len(ReqMacs)) \X {0, 1} \X {0, 1}
              \X (1..Len(ErrCases)) \X (1..Len(TimeCases))
InShard(x) == (x[1] + 3 * x[2] + 5 * x[3] + 7 * x[4] + 11 * x[5] + 13 * x[6] + 17 * x[7] + 19 * x[8]) % NShards = Shard

Init == v \in Universe /\ InShard(v)
Next == UNCHANGED v

Vector ==
  LET body == Msgs[v[1]].octets
      a    == Algs[v[2]]
      tc   == TimeCases[v[8]]
      ec   == ErrCases[v[7]]
      id   == MsgId(body)
      oid  == IF v[6] = 0 THEN id ELSE (id + 4660) % 65536
      t    == [key |-> Keys[v[3]], alg |-> a.name, class |-> ClassANY, ttl |-> TTL0, time |-> tc.time, fudge |-> tc.fudge,
               origId |-> oid, error |-> ec.error, other |-> ec.other]
      rq   == ReqMacs[v[4]]
      to   == v[5] = 1
      f    == tc.fudge
  IN [kind |-> "sign", mi |-> Msgs[v[1]].mi, body |-> body, key |-> t.key, alg |-> t.alg, maclen |-> a.maclen,
      secret |-> (v[1] + v[2] + v[4]) % 3,
      reqmac |-> rq, timers |-> to, origid |-> oid, error |-> t.error, other |-> t.other,
      time |-> t.time, fudge |-> f,
      digest |-> DigestInput(rq, body, oid, t, to),
      pre |-> SignedPre(body, t, a.maclen),
      preAlt |-> SignedPre(SetU16(body, 0, oid), t, a.maclen),
      post |-> SignedPost(t),
      nows |-> [k \in 1..7 |->
                  LET d == <<0 - f - 1, 0 - f, -1, 0, 1, f, f + 1>>[k]
                      n == T48Add(t.time, d) IN
                  [now |-> n, ok |-> IF InWindow(n, t.time, f) THEN 1 ELSE 0]]]

\* spec-level sanity of every vector: SplitTsig reads the layout back
Out ==
  LET x == Vector
      s == x.pre \o [i \in 1..x.maclen |-> 170] \o x.post
      p == SplitTsig(s) IN
  /\ p.st = "ok" /\ p.strict /\ p.body = x.body /\ p.t.origId = x.origid /\ p.t.time = x.time
  /\ DigestInput(x.reqmac, p.body, p.t.origId, p.t, x.timers) = x.digest
  /\ Emit(x)
=============================================================================
