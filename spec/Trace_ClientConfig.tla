------------------------- MODULE Trace_ClientConfig -------------------------
(* Events of harness `clientconfig record`: random resolv.conf files (as line   *)
(* / token structures, rendered to text by the harness) with the configuration  *)
(* the real reader returned, and NameList results; judged by ClientConfig.tla.  *)
EXTENDS ClientConfig, TraceBase

VARIABLE l
Ev == Trace[l]

LineOK(ln) == \A i \in 1..Len(ln.toks) : ln.toks[i].k \in {"word", "cmt", "opt", "dom"}

Judge(e) ==
  CASE e.ev = "parse" -> /\ \A i \in 1..Len(e.lines) : LineOK(e.lines[i])
                         /\ e.cfg \in Admissible(e.lines)
    [] e.ev = "names" -> /\ (e.labels # <<>> \/ e.fq)
                         /\ e.got \in NameListAdm(e.ndots, e.search, [labels |-> e.labels, fq |-> e.fq])
    [] OTHER -> FALSE

Init == l = 1 /\ HWInit
Next == /\ l <= Len(Trace)
        /\ IF Judge(Ev) THEN TRUE ELSE MarkBad(l)
        /\ HW(l)
        /\ l' = l + 1
=============================================================================
