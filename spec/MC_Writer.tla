----------------------------- MODULE MC_Writer -----------------------------
(* Writer.tla on itself: one connection, every interleaving of client and      *)
(* handler actions over a small alphabet, every transport and configuration.    *)
EXTENDS Writer

CONSTANTS MaxReq,      \* messages the client sends at most
          MaxOps,      \* operations per handler invocation at most
          MaxPost      \* operations after the worker has gone at most

VARIABLES c,           \* the connection record
          nreq, nops, npost,
          byserver,    \* history: the worker closed the net.Conn
          hclosed,     \* history: a handler's Close reached the net.Conn
          failed,      \* history: a read failed (the peer went away)
          last         \* history: the last action [a, op, r]
vars == << c, nreq, nops, npost, byserver, hclosed, failed, last >>

Cfgs == { [maxq |-> m, rt |-> r, idle |-> i] : m \in {0, -1, 1, 2}, r \in {"", "1h"}, i \in {"", "3h"} }

Op(n, len, ok) == [op |-> n, len |-> len, ok |-> ok]
Alphabet == { Op("WriteMsg", 40, TRUE), Op("WriteMsg", 40, FALSE), Op("Write", 12, TRUE), Op("Write", 65536, TRUE),
              Op("Close", 0, TRUE), Op("Hijack", 0, TRUE), Op("TsigStatus", 0, TRUE), Op("RemoteAddr", 0, TRUE),
              Op("ConnectionState", 0, TRUE), Op("LocalAddr", 0, TRUE) }
NoOp  == Op("", 0, TRUE)
NoRes == Quiet(NoErr)
Did(a, op, r) == [a |-> a, op |-> op, r |-> r]

Init == /\ \E tr \in Transports, cfg \in Cfgs : c = NewConn(tr, cfg)
        /\ nreq = 0 /\ nops = 0 /\ npost = 0 /\ byserver = FALSE /\ hclosed = FALSE /\ failed = FALSE
        /\ last = Did("init", NoOp, NoRes)

Top ==  /\ c.at = "loop"
        /\ IF CanRead(c) THEN c' = SrvRead(c) /\ last' = Did("read", NoOp, NoRes)
                         ELSE c' = SrvLeave(c) /\ last' = Did("leave", NoOp, NoRes)
        /\ UNCHANGED << nreq, nops, npost, byserver, hclosed, failed >>

Query == /\ c.at = "reading" /\ nreq < MaxReq
         /\ \E kind \in {"query", "ign"}, src \in {"s1", "s2"}, ts \in Signings :
               c' = Deliver(c, kind, src, ts, TRUE)
         /\ nreq' = nreq + 1 /\ nops' = 0
         /\ last' = Did("deliver", NoOp, NoRes)
         /\ UNCHANGED << npost, byserver, hclosed, failed >>

PeerCloses == /\ c.at = "reading" /\ Stream(c.tr)
              /\ c' = ReadFails(c) /\ last' = Did("readfails", NoOp, NoRes) /\ failed' = TRUE
              /\ UNCHANGED << nreq, nops, npost, byserver, hclosed >>

Do(a) == \E op \in Alphabet :
           LET d == DoOp(c, op) IN
           /\ c' = d.c /\ last' = Did(a, op, d.r)
           /\ hclosed' = (hclosed \/ d.r.closes > 0)

HandlerOp == /\ c.at = "handling" /\ nops < MaxOps /\ Do("op") /\ nops' = nops + 1
             /\ UNCHANGED << nreq, npost, byserver, failed >>

Ret == /\ c.at = "handling" /\ c' = Return(c) /\ last' = Did("ret", NoOp, NoRes)
       /\ UNCHANGED << nreq, nops, npost, byserver, hclosed, failed >>

Fin == /\ c.at = "finish" /\ c' = Finish(c) /\ byserver' = (FinishCloses(c) = 1)
       /\ last' = Did("fin", NoOp, NoRes)
       /\ UNCHANGED << nreq, nops, npost, hclosed, failed >>

PostOp == /\ CanPost(c) /\ c.nh > 0 /\ npost < MaxPost /\ Do("post") /\ npost' = npost + 1
          /\ UNCHANGED << nreq, nops, byserver, failed >>

Next == Top \/ Query \/ PeerCloses \/ HandlerOp \/ Ret \/ Fin \/ PostOp

-----------------------------------------------------------------------------
TypeOK ==
  /\ c.tr \in Transports /\ c.closed \in BOOLEAN /\ c.hijacked \in BOOLEAN /\ c.open \in BOOLEAN
  /\ c.at \in {"loop", "reading", "handling", "finish", "gone"}
  /\ c.q \in 0..MaxReq /\ c.nh \in 0..MaxReq /\ c.ncloses \in 0..1

\* W8: at most MaxTCPQueries messages are read, hence at most that many handlers run
AtMostMaxQ == Stream(c.tr) /\ ~Unlimited(c.cfg) => c.q <= Limit(c.cfg) /\ c.nh <= c.q
PacketsUnbounded == ~Stream(c.tr) => c.q = 0            \* MaxTCPQueries does not count datagrams

\* W2: the transport is closed at most once, W4: a packet conn never
CloseOnce == /\ c.ncloses <= 1
             /\ c.open <=> c.ncloses = 0
             /\ ~Stream(c.tr) => c.open
             /\ ~(byserver /\ hclosed)

\* W5 / W6: when the worker disposes of the connection the server closes it iff it was neither
\* hijacked nor already closed by a handler; a hijacked connection stays open unless its owner closed it
Disposed == [][ last'.a = "fin" =>
                  /\ byserver' <=> (~c.hijacked /\ ~hclosed)
                  /\ c'.open <=> (c.hijacked /\ ~hclosed)
                  /\ ~c.hijacked => c'.closed ]_vars
ServerClosed == byserver => ~c.open /\ c.closed /\ c.at = "gone"

\* W9
Deadlines ==
  /\ \A i \in 1..Len(c.dls) : c.dls[i] = IF Stream(c.tr) /\ i > 1 THEN IdleTO(c.cfg) ELSE ReadTO(c.cfg)
  /\ Stream(c.tr) => Len(c.dls) = c.q + (IF c.at = "reading" \/ failed THEN 1 ELSE 0)      \* one deadline per message
  /\ Len(c.dls) > 0 \/ c.at = "loop"

IsWrite(op) == op.op \in {"Write", "WriteMsg"}
SameWriter  == Stream(c.tr) \/ last'.a # "deliver"

\* W1: no octets after Close;  every frame is accounted for by a successful write
NoOctetsAfterClose == [][ c.closed /\ SameWriter => c'.nw = c.nw ]_vars
WritesAccounted ==
  [][ /\ c'.nw - c.nw = Len(last'.r.writes)
      /\ (last'.a \in {"op", "post"} /\ IsWrite(last'.op) => (last'.r.err = NoErr <=> Len(last'.r.writes) = 1))
      /\ (last'.a \in {"op", "post"} /\ IsWrite(last'.op) /\ c.closed =>
              last'.r.err = "dns: " \o last'.op.op \o " called after Close" /\ last'.r.n = 0)
      /\ (last'.a \notin {"op", "post"} => c'.nw = c.nw) ]_vars
\* W2
SecondCloseErrors ==
  [][ last'.a \in {"op", "post"} /\ last'.op.op = "Close" =>
         /\ last'.r.err = NoErr <=> ~c.closed
         /\ c.closed => last'.r.err = "dns: connection already closed" /\ last'.r.closes = 0 ]_vars
\* the flags of a stream's writer never go back
Sticky == [][ Stream(c.tr) => (c.closed => c'.closed) /\ (c.hijacked => c'.hijacked) /\ (~c.open => ~c'.open) ]_vars
\* W7: a handler that neither closed nor hijacked leaves the worker in its loop, and the loop reads on unless W8 forbids
Usable == [][ last'.a = "ret" /\ Stream(c.tr) /\ ~c.closed /\ ~c.hijacked =>
                c'.at = "loop" /\ c'.open /\ (MayRead(c.cfg, c.q) => CanRead(c')) ]_vars
\* W5: after Hijack the package does nothing with the connection: only the handler's own calls change it
HandsOff == [][ c.hijacked /\ Stream(c.tr) /\ last'.a \notin {"op", "post"} =>
                  c'.open = c.open /\ c'.nw = c.nw /\ c'.ncloses = c.ncloses /\ c'.dls = c.dls ]_vars
\* W4
ReplyToSource == [][ \A i \in 1..Len(last'.r.writes) :
                        last'.r.writes[i].to = (IF Stream(c.tr) THEN "" ELSE c.src) ]_vars
\* W3
Framed == [][ \A i \in 1..Len(last'.r.writes) :
                 LET f == last'.r.writes[i] IN
                 IF Stream(c.tr) THEN f.len <= 65535 /\ Len(f.pre) = 2 /\ f.pre[1] * 256 + f.pre[2] = f.len
                                 ELSE f.pre = <<>> ]_vars
=============================================================================
