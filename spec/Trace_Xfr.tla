----------------------------- MODULE Trace_Xfr -----------------------------
(* Validates observations of the real transfer code against Xfr.tla.           *)
(*   in   one run of Transfer.In: the envelopes the network delivered (records, *)
(*        ID ok, RCODE, abstract signature, cut) and what the user of the       *)
(*        channel saw; the specification's receiver (Observe) must predict      *)
(*        exactly that: the same envelopes without error, an error iff it says  *)
(*        so, channel and connection closed, nothing after an error.  Envelopes *)
(*        carry their gap (ticks the receiver waited; ReadTimeout = TimeoutTicks *)
(*        on the harness' virtual clock); the spellings of the zone name in     *)
(*        query and answer are in the event's description only: nothing        *)
(*        depends on them (Xfr!Spellings).                                      *)
(*   out  one run of Transfer.Out behind a real server: the answer sections on  *)
(*        the wire must be the chunks the handler fed, in order, each message   *)
(*        with the query's ID, and the specification's receiver must find the   *)
(*        transfer complete exactly at the last one; a verified signed request  *)
(*        gets a TSIG on every envelope (the MAC chain itself: Trace_Tsig).     *)
(*        Either Out reports an error to its caller or every record arrives.    *)
(* All events are pure-function observations: a wrong one is marked bad.       *)
EXTENDS Xfr, TraceBase

VARIABLE l

Ev == Trace[l]

InOK(e) ==
  LET o == Observe(e.mode, e.q, e.tsig, 1, e.envs) IN
  /\ e.obs.chclosed /\ e.obs.connclosed /\ e.obs.extra = 0
  /\ \/ o.ambig                               \* a validly truncated MAC was met: AMBIG, only closure is asserted
     \/ o.delivered = e.obs.delivered /\ o.err = e.obs.err

IsPrefix(a, b) == Len(a) <= Len(b) /\ \A i \in 1..Len(a) : a[i] = b[i]

OutOK(e) ==
  IF e.outerr
  THEN \* the sender told its caller that the transfer failed (e.g. an envelope that cannot be packed into one
       \* message): what did go out is a prefix of what was fed, well formed
       /\ IsPrefix(e.wire, e.chunks) /\ e.ids
  ELSE \* no error reported: every record arrived, in the envelopes fed
       /\ e.wire = e.chunks
       /\ e.ids
       /\ (e.variant = "signed" => e.signed = Len(e.wire))
       /\ LET o == Observe(e.mode, e.q, FALSE, 1, [i \in 1..Len(e.wire) |-> Env(e.wire[i])]) IN
          /\ o.complete /\ ~o.err /\ o.used = Len(e.wire) /\ o.delivered = e.chunks

Judge(e) == CASE e.ev = "in"  -> InOK(e)
              [] e.ev = "out" -> OutOK(e)
              [] OTHER -> FALSE

Init == l = 1 /\ HWInit
Next == /\ l <= Len(Trace)
        /\ IF Judge(Ev) THEN TRUE ELSE MarkBad(l)
        /\ HW(l)
        /\ l' = l + 1
=============================================================================
