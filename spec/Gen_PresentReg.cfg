CONSTANTS
  MaxLabel = 63
  MaxName = 255
INIT Init
NEXT Next
INVARIANT Out
