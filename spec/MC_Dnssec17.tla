---------------------------- MODULE MC_Dnssec17 ----------------------------
(* Bounded exhaustive check of Dnssec17 on itself.  Each case of the universe  *)
(* is one state; every operator is compared with an independent second         *)
(* formulation of the same RFC text.                                           *)
EXTENDS Dnssec17

VARIABLES kind, c      \* c: the case, a tuple whose meaning depends on kind

-----------------------------------------------------------------------------
\* key tag: second formulation keeps a 16-bit sum and counts the carries as it goes;
\* third formulation sums the high and the low octets separately
RECURSIVE KTFold(_, _, _, _)
KTFold(rdata, i, lo, hi) ==
  IF i > Len(rdata) THEN (lo + hi) % 65536
  ELSE LET s == lo + KTWord(rdata, i) IN KTFold(rdata, i + 1, s % 65536, hi + (s \div 65536))
KTSplit(rdata) ==
  LET even == SumSeq([i \in 1..Len(rdata) |-> IF i % 2 = 1 THEN rdata[i] ELSE 0])
      odd  == SumSeq([i \in 1..Len(rdata) |-> IF i % 2 = 0 THEN rdata[i] ELSE 0])
      ac   == 256 * even + odd
  IN (ac + (ac \div 65536)) % 65536
KTUniverse == UNION { [1..m -> {0, 1, 255}] : m \in 0..6 }

KeyTagOK ==
  kind = "keytag" =>
    /\ KeyTag(c) = KTFold(c, 1, 0, 0)
    /\ KeyTag(c) = KTSplit(c)
    /\ KeyTag(c) \in 0..65535
KeyTagKnown ==    \* hand-computed: ff ff ff ff -> ac = 1fffe -> ffff ; 01 00 | 00 01 -> 0101
  kind = "keytag" =>
    /\ (c = <<255, 255, 255, 255>> => KeyTag(c) = 65535)
    /\ (c = <<255, 255, 255, 255, 255, 255>> => KeyTag(c) = 65535)      \* 2fffd -> fffd + 2
    /\ (c = <<1, 0, 0, 1>> => KeyTag(c) = 257)
    /\ (c = <<255>> => KeyTag(c) = 65280)
    /\ (c = <<>> => KeyTag(c) = 0)

-----------------------------------------------------------------------------
\* Match / Cover over hashes 0..4: c = <<o, nx, h, inz>>
HS == 0..4
Zone17 == << <<101, 120>>, <<99>> >>                 \* ex.c.
NameIn  == << <<119>>, <<69, 88>>, <<67>> >>         \* w.EX.C.   (case differs: still inside)
NameOut == << <<119>>, <<101, 120>>, <<100>> >>      \* w.ex.d.
\* independent formulation: walk the circle upwards from o; the interval has
\* (nx - o) mod 5 steps, 5 when nx = o
Dist(a, b) == (b - a + 5) % 5
CircBetween(o, nx, h) == LET d == IF Dist(o, nx) = 0 THEN 5 ELSE Dist(o, nx) IN Dist(o, h) > 0 /\ Dist(o, h) < d
CoverOK ==
  kind = "cover" =>
    LET o == c[1]  nx == c[2]  h == c[3]
        name == IF c[4] = 1 THEN NameIn ELSE NameOut
        m  == Match(Zone17, name, <<o>>, <<h>>)
        cv == Cover(Zone17, name, <<o>>, <<nx>>, <<h>>)
    IN /\ ~(m /\ cv)
       /\ (c[4] = 0 => ~m /\ ~cv)
       /\ (c[4] = 1 => (m <=> h = o) /\ (cv <=> CircBetween(o, nx, h)))
\* closed chains: c = <<S, h>>, S the set of owner hashes of a zone
NextIn(S, o) == IF \E x \in S : x > o THEN CHOOSE x \in S : x > o /\ \A y \in S : y > o => x <= y
                ELSE CHOOSE x \in S : \A y \in S : x <= y
ChainOK ==
  kind = "chain" =>
    LET S == c[1]  h == c[2]
        covering == { o \in S : Cover(Zone17, NameIn, <<o>>, <<NextIn(S, o)>>, <<h>>) }
        matching == { o \in S : Match(Zone17, NameIn, <<o>>, <<h>>) }
    IN IF h \in S THEN covering = {} /\ matching = {h}
       ELSE Cardinality(covering) = 1 /\ matching = {}
ZoneOK ==
  kind = "zone" =>
    /\ InZone(Zone17, Zone17)                       \* the apex is inside
    /\ InZone(<<>>, NameOut)                        \* everything is inside the root zone
    /\ ~InZone(Zone17, <<>>) /\ ~InZone(Zone17, Tail(Zone17))      \* ancestors are outside
    /\ ~InZone(Zone17, << <<119, 101, 120>>, <<99>> >>)             \* wex.c. is not under ex.c.

-----------------------------------------------------------------------------
\* validity.  "plain": c = <<I, E, t>> plain integers below 2^31 whose distances are below 2^31
W(v) == << v \div 65536, v % 65536 >>
Lattice == {0, 1, 2, 65535, 65536, 65537, 2147483646, 2147483647}
ValidPlainOK ==
  kind = "vplain" =>
    LET I == c[1]  E == c[2]  t == c[3] IN
    /\ ValidDefined(W(I), W(E), W(t))
    /\ (ValidAt(W(I), W(E), W(t)) <=> (I <= t /\ t <= E))
\* "wrap": c = <<t, dI, dE>> 32-bit limbs, the offsets in two's complement
Lt32(a, b) == a[1] < b[1] \/ (a[1] = b[1] /\ a[2] < b[2])
\* RFC 1982 section 3.2, literally
SerialLT(a, b) == \/ Lt32(a, b) /\ Lt32(Sub32(b, a), Half)
                  \/ Lt32(b, a) /\ Lt32(Half, Sub32(a, b))
SerialLE(a, b) == a = b \/ SerialLT(a, b)
Neg32(d) == d[1] >= 32768
Zero32 == <<0, 0>>
Ts   == { <<0, 0>>, <<0, 100>>, <<0, 65535>>, <<1, 0>>, <<32767, 65535>>, <<32768, 0>>, <<32768, 1>>, <<65535, 65436>>, <<65535, 65535>> }
Offs == { <<0, 0>>, <<0, 1>>, <<65535, 65535>>, <<0, 200>>, <<65535, 65336>>, <<1, 0>>, <<65535, 0>>,
          <<32767, 65535>>, <<32768, 1>>, <<16384, 0>>, <<49152, 0>> }
ValidWrapOK ==
  kind = "vwrap" =>
    LET t == c[1]  I == Add32(t, c[2])  E == Add32(t, c[3]) IN
    /\ IsW32(I) /\ IsW32(E)
    /\ Sub32(I, t) = c[2] /\ Sub32(E, t) = c[3]
    /\ ValidDefined(I, E, t)
    /\ (ValidAt(I, E, t) <=> (c[2] = Zero32 \/ Neg32(c[2])) /\ ~Neg32(c[3]))     \* I* <= t <= E*
    /\ (ValidAt(I, E, t) <=> SerialLE(I, t) /\ SerialLE(t, E))
ValidKnown ==
  kind = "zone" =>
    /\ ValidAt(<<65535, 65436>>, <<0, 300>>, <<0, 100>>)          \* t = 100, I = 2^32 - 100, E = 300
    /\ ~ValidAt(<<0, 300>>, <<65535, 65436>>, <<0, 100>>)
    /\ ValidAt(<<65535, 65436>>, <<0, 300>>, <<65535, 65486>>)    \* window straddling the wrap, t before it
    /\ ~ValidAt(<<65535, 65436>>, <<0, 300>>, <<0, 301>>)
    /\ ~ValidDefined(<<0, 0>>, <<0, 5>>, <<32768, 0>>)

-----------------------------------------------------------------------------
\* iterated hash: c = <<saltlen, xlen, k>>
ToySalt(n) == [i \in 1..n |-> 200 + i]
ToyX(n)    == [i \in 1..n |-> i]
Toy(x)     == << (7 * SumSeq(x) + Len(x) + 3) % 251 >>        \* a stand-in for H when evaluating terms
RECURSIVE ToyIH(_, _, _)
ToyIH(salt, x, k) == IF k = 0 THEN Toy(x \o salt) ELSE Toy(ToyIH(salt, x, k - 1) \o salt)
\* term evaluator: a stack of partial arguments; HOpen pushes, HClose hashes the top and appends it below
RECURSIVE Eval(_, _, _)
Eval(term, i, stack) ==
  IF i > Len(term) THEN stack
  ELSE IF term[i] = HOpen THEN Eval(term, i + 1, <<<<>>>> \o stack)
  ELSE IF term[i] = HClose THEN Eval(term, i + 1, <<stack[2] \o Toy(stack[1])>> \o Tail(Tail(stack)))
  ELSE Eval(term, i + 1, <<Append(stack[1], term[i])>> \o Tail(stack))
IHOK ==
  kind = "ih" =>
    LET salt == ToySalt(c[1])  x == ToyX(c[2])  k == c[3]  term == IH(salt, x, k) IN
    /\ Run(IHPlan(salt, x, k), k) = term
    /\ Applications(term) = k + 1
    /\ Eval(term, 1, <<<<>>>>) = <<ToyIH(salt, x, k)>>
    /\ Sub(term, k + 2, k + 1 + Len(x) + Len(salt)) = x \o salt          \* innermost argument
    /\ Len(term) = Len(x) + (k + 1) * (Len(salt) + 2)

-----------------------------------------------------------------------------
\* base32hex and DS input
B32Universe == UNION { [1..m -> {0, 1, 31, 128, 255}] : m \in 0..4 } \cup { <<102, 111, 111, 98, 97>>, <<102, 111, 111, 98, 97, 114>> }
B32OK ==
  kind = "b32" =>
    /\ IsB32(B32Hex(c))
    /\ Len(B32Hex(c)) = (8 * Len(c) + 4) \div 5
    /\ (Len(c) % 5 = 0 => B32Dec(B32Hex(c)) = c)
    /\ Take(B32Dec(B32Hex(c)), Len(c)) = c
    /\ B32Dec([i \in 1..Len(B32Hex(c)) |-> LowerOctet(B32Hex(c)[i])]) = B32Dec(B32Hex(c))
    /\ (c = <<102, 111, 111, 98, 97>> => B32Hex(c) = <<67, 80, 78, 77, 85, 79, 74, 49>>)                    \* RFC 4648 section 10
    /\ (c = <<102, 111, 111, 98, 97, 114>> => B32Hex(c) = <<67, 80, 78, 77, 85, 79, 74, 49, 69, 56>>)
B32Order ==       \* the text order of equally long hashes is their numeric order
  kind = "b32pair" => (LexLess(c[1], c[2]) <=> LexLess(B32Hex(c[1]), B32Hex(c[2])))
DSNames == { <<>>, << <<65>> >>, << <<97, 90>>, <<64, 91, 96, 123>> >>, << <<193, 0, 46>>, <<99, 79, 109>> >> }
DSOK ==
  kind = "ds" =>
    LET n == c[1]  r == c[2] IN
    /\ DSInput(n, r) = DSInput(UpperName(n), r)
    /\ DSInput(n, r) = DSInput(LowerName(n), r)
    /\ Len(DSInput(n, r)) = WireLen(n) + Len(r)
    /\ DecName(DSInput(n, r), 0).name = LowerName(n)
    /\ Drop(DSInput(n, r), WireLen(n)) = r
    /\ (n = << <<97, 90>>, <<64, 91, 96, 123>> >> => Take(DSInput(n, r), 9) = <<2, 97, 122, 4, 64, 91, 96, 123, 0>>)
    /\ NSEC3Input(n) = Take(DSInput(n, r), WireLen(n))
    /\ Parse(PresentDDD(n)).st = "ok" /\ Parse(PresentDDD(n)).labels = n /\ Parse(PresentDDD(n)).fq
    /\ (HasEscUpper(PresentDDD(n), 1) <=> \E i \in 1..Len(n) : \E j \in 1..Len(n[i]) : n[i][j] >= 65 /\ n[i][j] <= 90)
    /\ ~HasEscUpper(Present(n), 1) \/ n = << <<193, 0, 46>>, <<99, 79, 109>> >>
KeyEncOK ==
  kind = "zone" =>
    /\ RSAPublicKey(<<1, 0, 1>>, <<200, 7>>) = <<3, 1, 0, 1, 200, 7>>
    /\ RSAPublicKey(<<3>>, <<200>>) = <<1, 3, 200>>
    /\ Take(RSAPublicKey([i \in 1..256 |-> 1], <<9>>), 4) = <<0, 1, 0, 1>>
    /\ ECPublicKey(<<5>>, <<1, 2, 3>>, 3) = <<0, 0, 5, 1, 2, 3>>
    /\ SortRdata({<<2>>, <<1, 9>>, <<1>>}) = << <<1>>, <<1, 9>>, <<2>> >>
    /\ LET f == [tc |-> 1, alg |-> 8, labels |-> 1, origttl |-> <<0, 0, 1, 44>>, exp |-> <<0, 0, 0, 2>>, inc |-> <<0, 0, 0, 1>>,
                  keytag |-> 258, signer |-> << <<90>> >>]
       IN RRSIGInput(f, << <<87>> >>, 1, << <<9, 9, 9, 9>>, <<1, 1, 1, 1>>, <<9, 9, 9, 9>> >>)
            = <<0, 1, 8, 1, 0, 0, 1, 44, 0, 0, 0, 2, 0, 0, 0, 1, 1, 2, 1, 122, 0>>
              \o <<1, 119, 0, 0, 1, 0, 1, 0, 0, 1, 44, 0, 4, 1, 1, 1, 1>>
              \o <<1, 119, 0, 0, 1, 0, 1, 0, 0, 1, 44, 0, 4, 9, 9, 9, 9>>
HexOK ==
  kind = "zone" =>
    /\ HexDec(<<48, 57, 97, 70, 102, 65>>) = <<9, 175, 250>>
    /\ IsHex(<<48, 57, 97, 70>>) /\ ~IsHex(<<48>>) /\ ~IsHex(<<48, 71>>)
    /\ DSHash(1) = "sha1" /\ DSHash(2) = "sha256" /\ DSHash(4) = "sha384" /\ DSHash(3) = "none" /\ DSHash(0) = "none"

-----------------------------------------------------------------------------
\* BIND private-key text: c = <<kind, layout>>.  Every layout of a kind is well-formed and means the same key
\* fields, with the markers and with values put in their place; hand-written texts.
KFPlain == [fmt |-> "v1.3", timing |-> FALSE, mnem |-> TRUE, blank |-> "none", finalnl |-> TRUE]
KFInst(tpl, val, mn) == Concat([i \in 1..Len(tpl) |-> IF tpl[i] = KFVal THEN val ELSE IF tpl[i] = KFMnem THEN mn ELSE <<tpl[i]>>])
KFCount(t, o) == Cardinality({ i \in 1..Len(t) : t[i] = o })
KeyFileOK ==
  kind = "keyfile" =>
    LET t == KFTemplate(c[1], c[2])  lay == c[2]  b == KFBlanks(lay.blank)
        nlines == 2 + Len(KFKeyNames(c[1])) + (IF lay.timing THEN 3 ELSE 0)
        inst(x) == KFInst(x, <<65, 47, 43, 61>>, <<82, 83, 65>>) IN
    /\ KFWellFormed(t)
    /\ KFKeyFields(t) = KFTemplateFields(c[1])
    /\ KFSameKey(t, KFTemplate(c[1], KFPlain))
    /\ KFSameKey(inst(t), inst(KFTemplate(c[1], KFPlain)))
    /\ Cardinality(KFFields(t)) = nlines
    /\ KFCount(t, 10) = nlines - 1 + b[1] + (nlines - 1) * b[2] + b[3] + (IF lay.finalnl THEN 1 ELSE 0)
    /\ KFCount(t, KFVal) = nlines - 1 - (IF lay.timing THEN 3 ELSE 0)
    /\ KFCount(t, KFMnem) = (IF lay.mnem THEN 1 ELSE 0)
    /\ ~KFSameKey(t, KFTemplate(IF c[1] = "rsa" THEN "ec" ELSE "rsa", lay))
KFHand == <<80, 114, 105, 118, 97, 116, 101, 45, 107, 101, 121, 45, 102, 111, 114, 109, 97, 116, 58, 32, 118, 49, 46, 51, 10,    \* Private-key-format: v1.3 LF
            65, 108, 103, 111, 114, 105, 116, 104, 109, 58, 32, 49, 51, 32, 40, 88, 41, 10,                                           \* Algorithm: 13 (X) LF
            80, 114, 105, 118, 97, 116, 101, 75, 101, 121, 58, 32, 65, 66>>                                                           \* PrivateKey: AB     (no LF)
KeyFileKnown ==
  kind = "zone" =>
    /\ KFWellFormed(KFHand)
    /\ KFKeyFields(KFHand) = { << KFnAlgorithm, <<49, 51>> >>, << <<112, 114, 105, 118, 97, 116, 101, 107, 101, 121>>, <<65, 66>> >> }
    /\ KFSameKey(KFHand, KFHand \o <<10>>) /\ KFSameKey(KFHand, <<10>> \o KFHand \o <<10, 10>>)
    /\ ~KFSameKey(KFHand, Take(KFHand, Len(KFHand) - 1))                  \* another value
    /\ ~KFSameKey(KFHand, Take(KFHand, 42))                               \* the last field lost
    /\ ~KFWellFormed(Drop(KFHand, 25))                                    \* no format line
    /\ ~KFWellFormed(KFHand \o <<10>> \o Drop(KFHand, 43) \o <<67>>)      \* PrivateKey twice, two values
    /\ KFLines(<<>>) = { <<>> } /\ KFFields(<<10, 10>>) = {}
    /\ Cardinality(KFLayouts(FALSE)) = 48 /\ Cardinality(KFLayouts(TRUE)) = 72
    /\ DSPanicKey(3) = "ds/panics:undefined-type" /\ DSPanicKey(2) = "ds/panics:sha256"

-----------------------------------------------------------------------------
\* spellings: c = <<name, spelling>>: every spelling is a text of the name, and only the library's form and the
\* octet classes decide its length.  spread: c = <<p, k, class>>.
SpellNames == DSNames \cup { << <<46, 92, 48, 57, 32>>, <<45, 0, 255, 127, 126, 33>> >>, << <<49, 50, 51, 52>> >> }
EscLen(b, how) == Len(SpellOctet(b, how))
SpellOK ==
  kind = "spell" =>
    LET n == c[1]  t == Spell(n, c[2])  q == Parse(t) IN
    /\ q.st = "ok" /\ q.fq /\ q.labels = n
    /\ Spell(n, "lib") = Present(n) /\ Spell(n, "ddd") = PresentDDD(n)
    /\ Len(Spell(n, "ddd")) = IF n = <<>> THEN 1 ELSE 4 * (WireLen(n) - 1 - Len(n)) + Len(n)
    /\ Len(Spell(n, "lib")) <= Len(Spell(n, "ddd")) /\ Len(Spell(n, "mix")) <= Len(Spell(n, "ddd"))
    /\ \A b \in 0..255 : EscLen(b, "ddd") = 4 /\ EscLen(b, "esc") \in {2, 4} /\ EscLen(b, "lib") \in {1, 2, 4}
                          /\ (EscLen(b, "esc") = 2 <=> b > 32 /\ b < 127 /\ ~IsDigit(b))
SpreadPs == {1, 2, 5, 63, 64, 127, 250, 251}
SpreadOKInv ==
  kind = "spread" =>
    LET p == c[1]  k == c[2]  n == SpreadName(p, k, c[3]) IN
    IF SpreadOK(p, k, 0) THEN
      /\ ValidName(n) /\ Len(n) = k /\ WireLen(n) = p + k + 1
      /\ \A i \in 1..k : Len(n[i]) \in {p \div k, (p \div k) + 1}
      /\ Len(Spell(n, "ddd")) = 4 * p + k
      /\ (c[3] \in {"ctl", "high"} => \A how \in Spellings : Len(Spell(n, how)) = 4 * p + k)
      /\ (c[3] = "lower" => Len(Spell(n, "lib")) = p + k /\ Len(Spell(n, "esc")) = 2 * p + k)
      /\ \A how \in Spellings : Parse(Spell(n, how)).labels = n /\ (HasEscUpper(Spell(n, how), 1) => c[3] = "letters" /\ how \in {"ddd", "mix"})
      /\ (LongText(Spell(n, "ddd")) <=> 4 * p + k > 255)
    ELSE k > p \/ ~ValidName(n)
SpreadKnown ==      \* the boundary the family is built for is crossed: texts of 253..257 characters for names of 65..69 octets,
  kind = "zone" =>  \* the longest name there is has a text of 1004 characters, and ordinary names never have a long text
    /\ { Len(Spell(SpreadName(63, k, "ctl"), "lib")) : k \in 1..5 } = 253..257
    /\ SpreadOK(250, 4, 0) /\ ~SpreadOK(250, 5, 0) /\ ~SpreadOK(250, 3, 0) /\ ~SpreadOK(251, 4, 0)
    /\ WireLen(SpreadName(250, 4, "high")) = 255 /\ Len(Spell(SpreadName(250, 4, "high"), "lib")) = 1004
    /\ Len(Spell(SpreadName(250, 4, "lower"), "lib")) = 254 /\ ~LongText(Spell(SpreadName(250, 4, "lower"), "lib"))
    /\ HashNameKey(Spell(SpreadName(80, 4, "ctl"), "lib"), FALSE) = "nsec3/hashname:text-longer-than-255"
    /\ HashNameKey(Spell(SpreadName(62, 1, "ctl"), "lib"), FALSE) = "nsec3/hashname"
    /\ DSDigestKey("sha1", Spell(SpreadName(64, 2, "punct"), "ddd")) = "ds/digest:sha1:text-longer-than-255"
    /\ DSDigestKey("sha1", Spell(SpreadName(64, 2, "letters"), "ddd")) = "ds/digest:escaped-uppercase"

-----------------------------------------------------------------------------
Init ==
  \/ kind = "spell"  /\ c \in SpellNames \X Spellings
  \/ kind = "spread" /\ c \in SpreadPs \X (1..5) \X SpreadClasses
  \/ kind = "keytag" /\ c \in KTUniverse
  \/ kind = "cover"  /\ c \in HS \X HS \X HS \X {0, 1}
  \/ kind = "chain"  /\ c \in ((SUBSET HS) \ {{}}) \X HS
  \/ kind = "zone"   /\ c = <<>>
  \/ kind = "vplain" /\ c \in Lattice \X Lattice \X Lattice
  \/ kind = "vwrap"  /\ c \in Ts \X Offs \X Offs
  \/ kind = "ih"     /\ c \in (0..2) \X (0..2) \X (0..4)
  \/ kind = "b32"    /\ c \in B32Universe
  \/ kind = "b32pair" /\ c \in [1..2 -> {0, 7, 8, 255}] \X [1..2 -> {0, 7, 8, 255}]
  \/ kind = "ds"     /\ c \in DSNames \X { <<>>, <<1, 0, 3, 8, 255>> }
  \/ kind = "keyfile" /\ c \in {"rsa", "ec"} \X KFLayouts(TRUE)
Next == UNCHANGED <<kind, c>>
=============================================================================
