CONSTANTS
  Mode = "tcp"
  NStart = 6
  NLsn = 6
  NShut = 10
  NConns = 40
  MaxReq = 4
  NPkts = 0
  CtxMayExpire = TRUE
  PlainShut = {}
  DeadlinesMayFire = FALSE
  ClientMayClose = TRUE
  HandlerMayClose = TRUE
  HandlerMayHijack = TRUE
  StartMayFail = TRUE
  SpareFields = TRUE
  SeqRestart = FALSE
  Bug = "none"
  TrackAct = FALSE
  Loose = FALSE
INIT TInit
NEXT TNext
POSTCONDITION Done
CHECK_DEADLOCK FALSE
