CONSTANTS
  MaxLabel = 63
  MaxName = 255
INIT Init
NEXT Next
INVARIANTS KeyTagOK KeyTagKnown CoverOK ChainOK ZoneOK ValidPlainOK ValidWrapOK ValidKnown IHOK B32OK B32Order DSOK HexOK KeyEncOK KeyFileOK KeyFileKnown SpellOK SpreadOKInv SpreadKnown
