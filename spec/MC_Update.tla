----------------------------- MODULE MC_Update -----------------------------
(* Update.tla on itself: for every helper and every record of a small universe  *)
(* the receiver side of RFC 2136 (s.3.2, s.3.4) reads the sender's record as    *)
(* what the helper is for; the section-wide rules of s.2.4 / s.2.5 hold; the    *)
(* message built from the rows is recognised by IsUpdateMsg, and a message with *)
(* one field changed is not.                                                    *)
EXTENDS Update

VARIABLES h, r, zc

Owners == { <<>>, << <<97>>, <<98, 99>> >> }
Recs == { Frame(o, t, c, ttl, rd) : o \in Owners, t \in {1, 15, 16}, c \in {1, 3, 254, 255},
                                   ttl \in {Zero4, <<0, 0, 14, 16>>, <<255, 255, 255, 255>>},
                                   rd \in {<<>>, <<192, 0, 2, 1>>, <<0, 10, 1, 120, 0>>} }
Init == h \in Helpers /\ r \in Recs /\ zc \in {1, 3}
Next == UNCHANGED <<h, r, zc>>

Res == Result(h, zc, r)

Receiver ==
  IF Table[h].sec = "pr" THEN PrereqMeaning(Res, zc) = Intent[h]
  ELSE UpdateMeaning(Res, zc) = Intent[h]

SectionRules ==
  /\ Res.owner = r.owner
  /\ (Table[h].sec = "pr" => Res.ttl = Zero4)                         \* s.2.4: "TTL must be specified as zero"
  /\ (Res.class = ClassANY => Res.rdata = <<>> /\ Res.ttl = Zero4)
  /\ (Res.type = TypeANY => Res.rdata = <<>>)
  /\ (Res.rdata # <<>> => Res.rdata = r.rdata /\ Res.type = r.type)
  /\ (h = "Insert" => Res = [r EXCEPT !.class = zc])                  \* s.2.5.1: everything but the class is the record's
  /\ Intent[h] \in {"add", "rrset-exists-value", "delete-rr"} <=> Table[h].rdata
  /\ \A g \in Helpers : g # h => Intent[g] # Intent[h]               \* nine different meanings

\* build the octets from the rows and recognise them
EncFrame(f) == EncName(f.owner) \o U16(f.type) \o U16(f.class) \o f.ttl \o U16(Len(f.rdata)) \o f.rdata
Zone == << <<122>> >>
EncUpd(id, bits, zclass, pr, up) ==
  U16(id) \o U16(bits) \o U16(1) \o U16(Len(pr)) \o U16(Len(up)) \o U16(0)
  \o EncName(Zone) \o U16(TypeSOA) \o U16(zclass)
  \o Concat([i \in 1..Len(pr) |-> EncFrame(pr[i])]) \o Concat([i \in 1..Len(up) |-> EncFrame(up[i])])

Recognised ==
  LET calls == << [h |-> h, rrs |-> <<r, r>>], [h |-> "NameUsed", rrs |-> <<r>>], [h |-> "Remove", rrs |-> <<r>>] >>
      pr == Section("pr", calls, zc)
      up == Section("up", calls, zc)
      b  == EncUpd(7, UpdateBits, zc, pr, up)
      other == [Res EXCEPT !.class = IF @ = ClassANY THEN ClassNONE ELSE ClassANY]
  IN /\ Len(pr) + Len(up) = 4
     /\ IsUpdateMsg(b, 7, Zone, zc, pr, up)
     /\ FrameOfRR(EncFrame(r)).ok /\ FrameOfRR(EncFrame(r)).f = r
     /\ ~IsUpdateMsg(b, 7, Zone, zc, up, pr) \/ pr = up
     /\ ~IsUpdateMsg(EncUpd(7, UpdateBits, zc, <<other>>, <<>>), 7, Zone, zc, <<Res>>, <<>>)
     /\ ~IsUpdateMsg(EncUpd(7, 0, zc, pr, up), 7, Zone, zc, pr, up)                     \* opcode QUERY
     /\ ~IsUpdateMsg(EncUpd(7, UpdateBits, zc, pr, up) \o <<0>>, 7, Zone, zc, pr, up)    \* trailing octet
=============================================================================
