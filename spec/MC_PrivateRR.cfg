CONSTANTS
  Depth = 4
INIT Init
NEXT Next
INVARIANTS Resolvable StandardSafe Bookkeeping Records
CHECK_DEADLOCK FALSE
