------------------------------ MODULE MC_Tsig ------------------------------
(* Bounded exhaustive check of Tsig.tla on itself, and (EmitChains = TRUE) the *)
(* export of every chain behaviour with its expected verdicts for the harness. *)
(*                                                                             *)
(* A sender signs a chain of L <= MaxLen small messages (real octets: header   *)
(* only / with a question / with an additional record), the network applies at *)
(* most MaxFaults faults, the receiver verifies envelope by envelope.  The HMAC *)
(* is MacModel, an injective constructor.                                      *)
(*   sign-time faults  wrongkey (right name, wrong secret), unknownkey,        *)
(*                     wrongmac (chained on a MAC that was never sent), stale  *)
(*   octet faults      unsign, alter_* (one bit: header ID, header flags, case *)
(*                     of a key-name letter, TSIG class, TSIG TTL, signing     *)
(*                     time, MAC, original ID)                                 *)
(*   sequence faults   drop, dup, swap (with the next envelope) -- at most one *)
(* Expected: the receiver rejects exactly at the first delivered envelope that *)
(* is not, up to the benign alterations (header ID, key-name case: neither is  *)
(* covered by the MAC, RFC 8945 4.3.2 / RFC 4343; class and TTL of the TSIG in *)
(* timers-only envelopes), the envelope an honest sender produced for that     *)
(* position; nothing after a rejection is verified.                            *)
EXTENDS Tsig, GenBase

CONSTANTS MaxLen, MaxFaults, EmitChains

VARIABLES cfgv,        \* [L, F]: chain length and fault set, fixed by Init
          sent, sS,    \* sender: envelopes signed so far, session state
          wire,        \* octets the sender produced
          inbox, xmit, \* what the network delivers (after faults), whether it did
          rS, verdicts, dead   \* receiver: session, verdict per verified envelope, stopped after a rejection

vars == <<cfgv, sent, sS, wire, inbox, xmit, rS, verdicts, dead>>

-----------------------------------------------------------------------------
Key1 == << <<75, 101, 121>> >>          \* "Key"
KeyX == << <<120>> >>                   \* a key the receiver does not know
Alg  == << <<104, 77>> >>               \* "hM"
S1   == <<11, 12>>
SBad == <<99>>
SecretOf(n) == IF n = LowerName(Key1) THEN S1 ELSE <<>>
Now   == <<1, 0, 100>>                  \* subtracting the fudge borrows from the upper limbs
Fudge == 300
ReqMAC == <<7, 7, 7>>

Hdr(id, fl, qd, ar) == U16(id) \o <<fl, 0>> \o U16(qd) \o U16(0) \o U16(0) \o U16(ar)
Body(i) ==
  CASE i = 1 -> Hdr(257, 132, 0, 0)
    [] i = 2 -> Hdr(258, 132, 1, 0) \o EncName(<< <<97>> >>) \o U16(252) \o U16(1)
    [] i = 3 -> Hdr(259, 132, 0, 1) \o <<0>> \o U16(41) \o U16(4096) \o U32(0) \o U16(0)
    [] OTHER -> Hdr(260, 128, 0, 0)

SignKinds  == {"wrongkey", "unknownkey", "wrongmac", "stale"}
AlterKinds == {"alter_id", "alter_flags", "alter_keycase", "alter_class", "alter_ttl", "alter_time", "alter_mac", "alter_origid"}
OctetKinds == AlterKinds \cup {"unsign"}
SeqKinds   == {"drop", "dup", "swap"}
\* not covered by the MAC, by design: the header ID (the original ID is), the case of name letters; and in a
\* timers-only envelope (every one but the first) nothing of the TSIG record but time and fudge
BenignFault(f) == \/ f.kind \in {"alter_id", "alter_keycase"}
                  \/ f.kind \in {"alter_class", "alter_ttl"} /\ f.pos >= 2

Faults(L) == { [kind |-> k, pos |-> p] : k \in SignKinds \cup OctetKinds \cup {"drop", "dup"}, p \in 1..L }
             \cup { [kind |-> "swap", pos |-> p] : p \in 1..(L - 1) }
FaultSets(L) ==      \* built by size: SUBSET Faults(L) has 2^55 elements
  LET one == { {f} : f \in Faults(L) }
      two == { {f, g} : f \in Faults(L), g \in Faults(L) } IN
  { F \in (IF MaxFaults >= 2 THEN {{}} \cup one \cup two ELSE IF MaxFaults = 1 THEN {{}} \cup one ELSE {{}}) :
      Cardinality({f \in F : f.kind \in SeqKinds}) <= 1 }
Has(F, k, p) == [kind |-> k, pos |-> p] \in F

-----------------------------------------------------------------------------
\* the sender's step for envelope i
Vars(F, i) == [key |-> IF Has(F, "unknownkey", i) THEN KeyX ELSE Key1, alg |-> Alg, class |-> ClassANY, ttl |-> TTL0,
               time |-> IF Has(F, "stale", i) THEN T48Add(Now, 0 - Fudge - 1) ELSE Now,
               fudge |-> Fudge, origId |-> MsgId(Body(i)), error |-> 0, other |-> <<>>]
SignStep(F, s, i) ==
  SignEnv([s EXCEPT !.prev = IF Has(F, "wrongmac", i) THEN <<6, 6>> ELSE s.prev], Body(i), Vars(F, i),
          IF Has(F, "wrongkey", i) \/ Has(F, "unknownkey", i) THEN SBad ELSE S1)

\* octet faults on envelope i
BitOf(kind, env) ==
  LET p  == SplitTsig(env)
      b  == Len(p.body)                              \* the TSIG record starts here
      rd == b + Len(EncName(p.t.key)) + 10
      tm == rd + Len(EncName(p.t.alg))
  IN CASE kind = "alter_id"      -> 15
       [] kind = "alter_flags"   -> 23
       [] kind = "alter_keycase" -> 8 * (b + 1) + 2
       [] kind = "alter_class"   -> 8 * (rd - 8) + 7           \* ANY (255) -> 511
       [] kind = "alter_ttl"     -> 8 * (rd - 6) + 31
       [] kind = "alter_time"    -> 8 * (tm + 5) + 7
       [] kind = "alter_mac"     -> 8 * (tm + 10)
       [] kind = "alter_origid"  -> 8 * (tm + 10 + Len(p.t.mac) + 1) + 7
RECURSIVE Alter(_, _, _)
Alter(F, i, env) ==
  LET ks == { k \in AlterKinds : Has(F, k, i) } IN
  IF ks = {} THEN env
  ELSE LET k == CHOOSE k \in ks : TRUE IN Alter(F \ {[kind |-> k, pos |-> i]}, i, FlipBit(env, BitOf(k, env)))
OctetFaults(F, i, env) == LET a == Alter(F, i, env) IN IF Has(F, "unsign", i) THEN Unsign(a) ELSE a

\* sequence fault over the whole chain
SeqFaults(F, q) ==
  LET sf == { f \in F : f.kind \in SeqKinds } IN
  IF sf = {} THEN q
  ELSE LET f == CHOOSE f \in sf : TRUE IN
       CASE f.kind = "drop" -> DropAt(q, f.pos)
         [] f.kind = "dup"  -> DupAt(q, f.pos)
         [] f.kind = "swap" -> SwapAt(q, f.pos)
Network(F, q) == SeqFaults(F, [i \in 1..Len(q) |-> OctetFaults(F, i, q[i])])

\* the whole chain of a sender with sign-time faults F, as a function (the Sign action must agree)
RECURSIVE ChainFrom(_, _, _, _)
ChainFrom(F, s, i, L) == IF i > L THEN <<>>
                         ELSE LET r == SignStep(F, s, i) IN <<r.env>> \o ChainFrom(F, r.s, i + 1, L)
Chain(F, L) == ChainFrom(F, Session(ReqMAC), 1, L)

-----------------------------------------------------------------------------
Init == /\ \E L \in 1..MaxLen : \E F \in FaultSets(L) : cfgv = [L |-> L, F |-> F]
        /\ sent = 0 /\ sS = Session(ReqMAC) /\ wire = <<>>
        /\ inbox = <<>> /\ xmit = FALSE
        /\ rS = Session(ReqMAC) /\ verdicts = <<>> /\ dead = FALSE

Sign == /\ sent < cfgv.L
        /\ LET r == SignStep(cfgv.F, sS, sent + 1) IN
           /\ sS' = r.s /\ wire' = Append(wire, r.env)
        /\ sent' = sent + 1
        /\ UNCHANGED <<cfgv, inbox, xmit, rS, verdicts, dead>>

Deliver == /\ sent = cfgv.L /\ ~xmit
           /\ inbox' = Network(cfgv.F, wire) /\ xmit' = TRUE
           /\ UNCHANGED <<cfgv, sent, sS, wire, rS, verdicts, dead>>

Verify == /\ xmit /\ ~dead /\ Len(verdicts) < Len(inbox)
          /\ LET r == VerifyEnv(rS, inbox[Len(verdicts) + 1], Now, SecretOf) IN
             /\ rS' = r.s /\ verdicts' = Append(verdicts, r.ok) /\ dead' = ~r.ok
          /\ UNCHANGED <<cfgv, sent, sS, wire, inbox, xmit>>

Done == xmit /\ (dead \/ Len(verdicts) = Len(inbox))
Next == Sign \/ Deliver \/ Verify \/ (Done /\ UNCHANGED vars)

-----------------------------------------------------------------------------
AllTrue(v) == \A i \in 1..Len(v) : v[i]
Effective(F) == { f \in F : ~BenignFault(f) }

\* C11: a chain is accepted end to end iff no (effective) fault
EndToEnd == Done => ((Len(verdicts) = cfgv.L /\ AllTrue(verdicts)) <=> Effective(cfgv.F) = {})

\* ... and the rejection is at the first envelope that is not the honest one for its position
FirstReject ==
  Done =>
    LET honest == Chain({}, cfgv.L)
        ref    == Network(Effective(cfgv.F), Chain(cfgv.F, cfgv.L))
        diff   == { p \in 1..Len(ref) : p > Len(honest) \/ ref[p] # honest[p] } IN
    IF diff = {} THEN AllTrue(verdicts) /\ Len(verdicts) = Len(inbox)
    ELSE LET m == CHOOSE p \in diff : \A q \in diff : p <= q IN
         /\ Len(verdicts) = m /\ ~verdicts[m] /\ AllTrue(SubSeq(verdicts, 1, m - 1))

\* the incremental sender and the functional chain agree
SenderOK == wire = SubSeq(Chain(cfgv.F, cfgv.L), 1, sent)

\* a message without TSIG is never accepted, whatever the session state
NoTsigNeverAccepted ==
  /\ \A i \in 1..4 : ~TsigAccept(Body(i), rS.prev, rS.timers, Now, SecretOf)
  /\ \A i \in 1..Len(inbox) : SplitTsig(inbox[i]).st # "ok" => ~TsigAccept(inbox[i], rS.prev, rS.timers, Now, SecretOf)

\* layout: what SplitTsig reads back is what Signed wrote; ARCOUNT is raised by exactly one
Layout ==
  \A i \in 1..Len(wire) :
    LET p == SplitTsig(wire[i]) IN
    /\ p.st = "ok" /\ p.strict
    /\ p.body = Body(i)
    /\ ArCount(wire[i]) = ArCount(Body(i)) + 1
    /\ wire[i] = Signed(Body(i), Vars(cfgv.F, i), p.t.mac)
    /\ wire[i] = SignedPre(Body(i), Vars(cfgv.F, i), Len(p.t.mac)) \o p.t.mac \o SignedPost(Vars(cfgv.F, i))
    /\ Unsign(wire[i]) = Body(i)

\* 48-bit window arithmetic, including borrows and the two edges
ASSUME \A n \in { <<1, 0, 100>>, <<0, 0, 300>>, <<0, 65535, 65535>>, <<2, 0, 0>> } :
         \A k \in {-301, -300, -1, 0, 1, 300, 301} :
           (n = <<0, 0, 300>> /\ k = -301) \/ (InWindow(n, T48Add(n, k), 300) <=> (k >= -300 /\ k <= 300))
ASSUME T48Add(<<0, 65535, 65535>>, 1) = <<1, 0, 0>> /\ T48Add(<<1, 0, 0>>, -1) = <<0, 65535, 65535>>
ASSUME ~InWindow(<<1, 0, 0>>, <<0, 0, 0>>, 65535) /\ InWindow(<<0, 1, 0>>, <<0, 0, 1>>, 65535)

\* client connections: the answer chained on the request as written is accepted on the first and on any later read of
\* the transaction (reads do not move the state); the request reflected back, an answer to the previous request of the
\* connection and an answer chained on nothing are not; the next signed request starts a new transaction
ConnQ(i, prev) == SignEnv(Session(prev), Body(i), Vars({}, i), S1)
ConnA(i, q)    == SignEnv(Session(q.mac), Body(i), Vars({}, i), S1).env
ASSUME LET q1 == ConnQ(2, <<>>)
           c1 == ConnWrite(ConnOpen, q1.env)
           q2 == ConnQ(4, q1.mac)             \* what the library writes for a second request; any MAC will do here
           c2 == ConnWrite(c1, q2.env)
       IN /\ c1 = Session(q1.mac) /\ c2 = Session(q2.mac) /\ c1 # c2
          /\ ConnWrite(c1, Body(3)) = c1
          /\ ConnAccept(c1, ConnA(1, q1), Now, SecretOf)
          /\ ConnReadDigest(c1, ConnA(1, q1)).st = "ok"
          /\ ConnReadDigest(c1, Body(3)).st = "nosig"
          /\ ~ConnAccept(c1, q1.env, Now, SecretOf)
          /\ ~ConnAccept(c1, Body(1), Now, SecretOf)
          /\ ~ConnAccept(ConnOpen, ConnA(1, q1), Now, SecretOf)
          /\ ~ConnAccept(c2, ConnA(1, q1), Now, SecretOf)
          /\ ConnAccept(c2, ConnA(3, q2), Now, SecretOf)
          /\ ConnRequestDigest(q1.env).digest = DigestInput(<<>>, Body(2), MsgId(Body(2)), Vars({}, 2), FALSE)
          /\ ConnRequestDigest(q2.env).digest # DigestInput(q1.mac, Body(4), MsgId(Body(4)), Vars({}, 4), FALSE)

\* export: one line per (L, F) -- the terminal state is unique for a configuration
KindOrder == <<"wrongkey", "unknownkey", "wrongmac", "stale", "unsign", "alter_id", "alter_flags", "alter_keycase",
               "alter_class", "alter_ttl", "alter_time", "alter_mac", "alter_origid", "drop", "dup", "swap">>
FaultList(F) == LET idx == { <<k, p>> \in (1..Len(KindOrder)) \X (1..MaxLen) : Has(F, KindOrder[k], p) }
                    RECURSIVE Lst(_)
                    Lst(S) == IF S = {} THEN <<>>
                              ELSE LET x == CHOOSE x \in S : \A y \in S : x[1] < y[1] \/ (x[1] = y[1] /\ x[2] <= y[2]) IN
                                   <<[kind |-> KindOrder[x[1]], pos |-> x[2]]>> \o Lst(S \ {x})
                IN Lst(idx)
Out == (EmitChains /\ Done) =>
         Emit([kind |-> "chain", L |-> cfgv.L, faults |-> FaultList(cfgv.F), delivered |-> Len(inbox),
               verdicts |-> [i \in 1..Len(verdicts) |-> IF verdicts[i] THEN 1 ELSE 0]])
=============================================================================
