CONSTANTS
  MaxLines = 2
INIT Init
NEXT Next
INVARIANTS ParseInv NamesInv
CHECK_DEADLOCK FALSE
