------------------------------- MODULE Server -------------------------------
(* Start / serve / shutdown protocol of server.go (property C13).             *)
(*                                                                            *)
(* One action per critical section of server.go, one pc per process:          *)
(*   starters  P   ActivateAndServe/ListenAndServe call = lock, started?,     *)
(*                 init(), started := TRUE, unlock-once, then the serve loop   *)
(*                 (serveTCP / serveUDP) and its defer (wg.Wait, close chan)   *)
(*   workers   C   serveTCPConn, one per accepted connection                   *)
(*   packets   K   serveUDPPacket, one per packet read (PacketConn mode)       *)
(*   shutters  H   ShutdownContext calls                                       *)
(*   clients       connect / send / close (environment)                        *)
(*                                                                            *)
(* What the model keeps from the code, on purpose:                            *)
(*  - srv.shutdown and srv.conns are FIELDS that init() replaces: `gen' is the *)
(*    generation of the field, `closed' the set of generations whose channel   *)
(*    has been closed.  close(srv.shutdown) in the serve loop's defer and      *)
(*    <-srv.shutdown in ShutdownContext read the field when they execute       *)
(*    (SCloseChan / ShCapture), not when their serve call started.             *)
(*  - the WaitGroup is a local of the serve call: wg[p].                        *)
(*  - ShutdownContext holds srv.lock while it clears started, closes the       *)
(*    listener / moves the PacketConn deadline and moves every connection's    *)
(*    read deadline: ShBegin, ShCloseL, ShKick(c)*, ShUnlock are separate      *)
(*    steps under one lock hold (a reader does not need the lock to return).   *)
(*  - wg.Done() is folded into the unregister step (WUnreg) / handler exit of  *)
(*    a packet worker (KExit): the hook that reports it runs before Done, so   *)
(*    the model lets the drain proceed at most a few instructions early.       *)
(*                                                                            *)
(* Deliberate deviations (DEV):                                               *)
(*  DEV1 with DeadlinesMayFire = FALSE a read deadline in the future never     *)
(*       fires (ReadTimeout/IdleTimeout are far longer than a run; the harness *)
(*       sets one hour like the repo's tests).  PromptUnblock is exactly the   *)
(*       statement that nothing depends on it.  With DeadlinesMayFire = TRUE   *)
(*       time is part of the environment: TFire(c) / TFirePC say that the      *)
(*       instant a deadline names has come (a deadline "in the future" has     *)
(*       become one "in the past"), the blocked read fails with a timeout, a   *)
(*       stream worker closes its connection, the packet loop goes round.      *)
(*       Nothing else in the server depends on time: in particular a           *)
(*       Shutdown() -- the call WITHOUT a context, callers PlainShut -- is     *)
(*       released by the drain only, however long the handlers take and        *)
(*       whatever ReadTimeout / WriteTimeout / IdleTimeout say                 *)
(*       (PlainShutdownWaits); only ShutdownContext's own ctx ends a wait      *)
(*       early (ShCtx).                                                        *)
(*  DEV2 MaxTCPQueries, Hijack, MsgAcceptFunc reject/ignore, short packets,    *)
(*       DecorateReader/Writer and TLS handshakes are not modelled; a TLS      *)
(*       listener is a Listener to server.go.                                   *)
(*  DEV3 srv.Listener is a public field the caller assigns: HSetListener, only  *)
(*       while the server is not started and no call holds srv.lock.  A start   *)
(*       serves whatever the field holds when StBody runs (possibly a listener  *)
(*       an earlier Shutdown closed).                                           *)
(*  DEV4 a handler writes at most one reply, then may close, then returns.     *)
EXTENDS Integers, Sequences, FiniteSets, TLC

CONSTANTS
  Mode,            \* "tcp" | "pc"  (pc = generic net.PacketConn and UDP)
  NStart,          \* starter processes 1..NStart
  NLsn,            \* tcp: listener objects 1..NLsn the harness may assign to srv.Listener, in order
  NShut,           \* shutdown callers 1..NShut
  NConns,          \* tcp: client connections 1..NConns
  MaxReq,          \* tcp: requests per connection
  NPkts,           \* pc: packets 1..NPkts
  CtxMayExpire,    \* BOOLEAN: ShutdownContext's ctx may expire
  PlainShut,       \* the shutdown callers (subset of 1..NShut) that call Shutdown(): no context, nothing expires
  DeadlinesMayFire,\* BOOLEAN: time passes -- a read deadline in the future may come (TFire / TFirePC)
  ClientMayClose,  \* BOOLEAN: a client may close its connection at any time
  HandlerMayClose, \* BOOLEAN: a handler may call w.Close()
  HandlerMayHijack,\* BOOLEAN: a handler may call w.Hijack(): the connection is the handler's from then on
  StartMayFail,    \* BOOLEAN: start calls that cannot succeed are made (no listener configured, unusable
                   \* socket / address / Net): the failed-start paths of ActivateAndServe / ListenAndServe
  SpareFields,     \* BOOLEAN: the Server value may hold BOTH fields: a PacketConn next to the Listener it serves
                   \* (left over from an earlier udp run of the same value, or supplied by the user), or a
                   \* Listener next to the PacketConn it serves
  SeqRestart,      \* BOOLEAN: a start call is made only while no other call of the server is in progress
  Bug,             \* "none", or the name of a deliberately broken variant (sanity checks)
  TrackAct         \* BOOLEAN: record the label of the last action in `act'

P == 1..NStart
H == 1..NShut
C == IF Mode = "tcp" THEN 1..NConns ELSE {}
K == IF Mode = "pc" THEN 1..NPkts ELSE {}
Lsn == 1..NLsn

VARIABLES
  \* ---- fields of Server
  started, lock, gen, closed, conns, lsnField, cfgBad, pcField,
  \* ---- transports
  lsnOpen, pend,          \* tcp listeners: open?, accept queue
  pcOpen, pcDL, pin,      \* the packet conn: open?, read deadline, packets waiting
  pcWDL,                  \* ... its write deadline
  wdl,                    \* connection c: write deadline ("none" | "future" | "past")
  \* ---- starter / serve loop p
  spc, sgen, sres, wg, scur, serr, slsn, sbad,
  \* ---- connection worker c
  wpc, wown, dl, copen, hrep, hclosed, hij,
  \* ---- packet worker k
  kpc, kown, nread,
  \* ---- shutdown caller h
  shpc, shres, shgen, capt, kick, shseen, shtodo,
  \* ---- clients
  cst, csent, inbox, psent,
  \* ---- history
  replyLost, crashed, act

fields  == <<started, lock, gen, closed, conns, lsnField, cfgBad, pcField>>
transp  == <<lsnOpen, pend, pcOpen, pcDL, pcWDL, pin>>
svars   == <<spc, sgen, sres, wg, scur, serr, slsn, sbad>>
wvars   == <<wpc, wown, dl, wdl, copen, hrep, hclosed, hij>>
kvars   == <<kpc, kown, nread>>
shvars  == <<shpc, shres, shgen, capt, kick, shseen, shtodo>>
cvars   == <<cst, csent, inbox, psent>>
hist    == <<replyLost, crashed>>
vars    == <<fields, transp, svars, wvars, kvars, shvars, cvars, hist, act>>
View    == <<fields, transp, svars, wvars, kvars, shvars, cvars, hist>>     \* hides `act'

L(x)  == act' = IF TrackAct THEN x ELSE <<>>
HasPC == Mode = "pc" \/ pcField
FieldsSet == (IF HasPC THEN {"pc"} ELSE {}) \cup (IF lsnField # 0 THEN {"lsn"} ELSE {})
NoLock == <<"-", 0>>
Free  == lock = NoLock
Min(S) == CHOOSE x \in S : \A y \in S : x <= y

Init ==
  /\ started = FALSE /\ lock = NoLock /\ gen = 0 /\ closed = {} /\ conns = {}
  /\ lsnField = IF Mode = "tcp" THEN 1 ELSE 0      \* the harness assigned listener 1 before the first call
  /\ cfgBad = FALSE
  /\ pcField = (Mode = "pc")                        \* srv.PacketConn # nil
  /\ lsnOpen = [l \in Lsn |-> TRUE] /\ pend = [l \in Lsn |-> {}]
  /\ pcOpen = TRUE /\ pcDL = "none" /\ pcWDL = "none" /\ pin = 0
  /\ spc = [p \in P |-> "idle"] /\ sgen = [p \in P |-> 0] /\ sres = [p \in P |-> "-"]
  /\ wg = [p \in P |-> 0] /\ scur = [p \in P |-> 0] /\ serr = [p \in P |-> "-"] /\ slsn = [p \in P |-> 0]
  /\ sbad = [p \in P |-> FALSE]
  /\ wpc = [c \in C |-> "none"] /\ wown = [c \in C |-> 0] /\ dl = [c \in C |-> "none"] /\ wdl = [c \in C |-> "none"]
  /\ copen = [c \in C |-> TRUE] /\ hrep = [c \in C |-> FALSE] /\ hclosed = [c \in C |-> FALSE] /\ hij = [c \in C |-> FALSE]
  /\ kpc = [k \in K |-> "none"] /\ kown = [k \in K |-> 0] /\ nread = 0
  /\ shpc = [h \in H |-> "idle"] /\ shres = [h \in H |-> "-"] /\ shgen = [h \in H |-> 0]
  /\ capt = [h \in H |-> 0] /\ kick = [h \in H |-> {}] /\ shseen = [h \in H |-> {}] /\ shtodo = [h \in H |-> {}]
  /\ cst = [c \in C |-> "new"] /\ csent = [c \in C |-> 0] /\ inbox = [c \in C |-> 0] /\ psent = 0
  /\ replyLost = FALSE /\ crashed = "-" /\ act = <<>>

-----------------------------------------------------------------------------
(* Starter: ActivateAndServe / ListenAndServe, server.go 309-398             *)

StLock(p, bad) ==                 \* srv.lock.Lock(); defer unlock()
  /\ spc[p] = "idle" /\ Free         \* bad: a call that cannot succeed whatever the configuration
  /\ (bad => StartMayFail)           \* (ListenAndServe with an unsupported Net / an unusable address)
  /\ (Mode = "tcp" => ~pcField)       \* ActivateAndServe would serve the PacketConn: the harness clears it first
  /\ (SeqRestart => /\ \A q \in P : spc[q] \in {"idle", "returned"}
                    /\ \A h \in H : shpc[h] \in {"idle", "returned"})
  /\ lock' = <<"s", p>>
  /\ spc' = [spc EXCEPT ![p] = "locked"]
  /\ sbad' = [sbad EXCEPT ![p] = bad]
  /\ UNCHANGED <<started, gen, closed, conns, lsnField, cfgBad, pcField, transp, sgen, sres, wg, scur, serr, slsn, sbad, wvars, kvars, shvars, cvars, hist>>
  /\ L(<<"StLock", p, bad>>)

StBody(p) ==                      \* if srv.started {return err}; srv.init(); <checks>; srv.started = true; unlock()
  /\ spc[p] = "locked"
  /\ IF started /\ Bug # "no_started_check"
     THEN /\ spc' = [spc EXCEPT ![p] = "err"]
          /\ sres' = [sres EXCEPT ![p] = "already"]
          /\ UNCHANGED <<started, lock, gen, conns, sgen, wg, slsn, sbad>>
          /\ L(<<"StRefused", p>>)
     ELSE IF cfgBad \/ sbad[p]
     THEN \* "bad listeners", setUDPSocketOptions / listen failure, "bad network": init() has already run,
          \* started is NOT set, the deferred unlock releases the lock (StErrReturn)
          /\ gen' = gen + 1
          /\ conns' = {}
          /\ started' = (Bug = "started_early")
          /\ spc' = [spc EXCEPT ![p] = "err"]
          /\ sres' = [sres EXCEPT ![p] = "fail"]
          /\ UNCHANGED <<lock, sgen, wg, slsn, sbad>>
          /\ L(<<"StFailed", p>>)
     ELSE /\ started' = TRUE
          /\ gen' = gen + 1                       \* init(): a new srv.shutdown ...
          /\ conns' = {}                          \* ... and a new srv.conns
          /\ sgen' = [sgen EXCEPT ![p] = gen + 1]
          /\ wg' = [wg EXCEPT ![p] = 0]
          /\ slsn' = [slsn EXCEPT ![p] = lsnField]     \* serveTCP(srv.Listener)
          /\ lock' = NoLock
          /\ spc' = [spc EXCEPT ![p] = "notify"]    \* the lock is released BEFORE NotifyStartedFunc runs
          /\ UNCHANGED sres
          /\ L(<<"StStarted", p>>)
  /\ UNCHANGED <<closed, lsnField, cfgBad, pcField, transp, scur, serr, sbad, wvars, kvars, shvars, cvars, hist>>

StErrReturn(p) ==                 \* the deferred unlock() on the error path
  /\ spc[p] = "err"
  /\ lock' = NoLock
  /\ spc' = [spc EXCEPT ![p] = "returned"]
  /\ UNCHANGED <<started, gen, closed, conns, lsnField, cfgBad, pcField, transp, sgen, sres, wg, scur, serr, slsn, sbad, wvars, kvars, shvars, cvars, hist>>
  /\ L(<<"StErrReturn", p>>)

-----------------------------------------------------------------------------
(* Serve loops: serveTCP 463-496, serveUDP 499-558                           *)

SNotify(p) ==                     \* srv.NotifyStartedFunc() returns: user code, run without srv.lock -- while it
  /\ spc[p] = "notify"              \* runs a second start is refused and a Shutdown goes ahead
  /\ spc' = [spc EXCEPT ![p] = "top"]
  /\ UNCHANGED <<fields, transp, sgen, sres, wg, scur, serr, slsn, sbad, wvars, kvars, shvars, cvars, hist>>
  /\ L(<<"SNotify", p>>)

SCheck(p) ==                      \* for srv.isStarted()
  /\ spc[p] = "top" /\ Free
  /\ IF started
     THEN spc' = [spc EXCEPT ![p] = IF Mode = "tcp" THEN "accept" ELSE "rdl"] /\ UNCHANGED sres
     ELSE spc' = [spc EXCEPT ![p] = "defer"] /\ sres' = [sres EXCEPT ![p] = "nil"]
  /\ UNCHANGED <<fields, transp, sgen, wg, scur, serr, slsn, sbad, wvars, kvars, shvars, cvars, hist>>
  /\ L(<<"SCheck", p, started>>)

SAcceptOk(p) ==                   \* l.Accept() returns a connection
  /\ Mode = "tcp" /\ spc[p] = "accept"
  /\ lsnOpen[slsn[p]] /\ pend[slsn[p]] # {}
  /\ LET c == Min(pend[slsn[p]]) IN
       /\ pend' = [pend EXCEPT ![slsn[p]] = @ \ {c}]
       /\ scur' = [scur EXCEPT ![p] = c]
       /\ L(<<"SAcceptOk", p, c>>)
  /\ spc' = [spc EXCEPT ![p] = "got"]
  /\ UNCHANGED <<fields, lsnOpen, pcOpen, pcDL, pcWDL, pin, sgen, sres, wg, serr, slsn, sbad, wvars, kvars, shvars, cvars, hist>>

SAcceptErr(p) ==                  \* l.Accept() fails: the listener is closed
  /\ Mode = "tcp" /\ spc[p] = "accept"
  /\ ~lsnOpen[slsn[p]]
  /\ spc' = [spc EXCEPT ![p] = "goterr"]
  /\ serr' = [serr EXCEPT ![p] = "closed"]
  /\ UNCHANGED <<fields, transp, sgen, sres, wg, scur, slsn, sbad, wvars, kvars, shvars, cvars, hist>>
  /\ L(<<"SAcceptErr", p>>)

SErrCheck(p) ==                   \* if !srv.isStarted() {return nil}; Temporary() -> continue; return err
  /\ spc[p] = "goterr" /\ Free
  /\ IF ~started /\ Bug # "no_recheck"
     THEN spc' = [spc EXCEPT ![p] = "defer"] /\ sres' = [sres EXCEPT ![p] = "nil"]
     ELSE IF serr[p] = "timeout"
          THEN spc' = [spc EXCEPT ![p] = "top"] /\ UNCHANGED sres
          ELSE spc' = [spc EXCEPT ![p] = "defer"] /\ sres' = [sres EXCEPT ![p] = "err"]
  /\ serr' = [serr EXCEPT ![p] = "-"]
  /\ UNCHANGED <<fields, transp, sgen, wg, scur, slsn, sbad, wvars, kvars, shvars, cvars, hist>>
  /\ L(<<"SErrCheck", p, started>>)

SRegister(p) ==                   \* lock; conns[rw] = {}; unlock; wg.Add(1); go serveTCPConn
  /\ Mode = "tcp" /\ spc[p] = "got" /\ Free /\ Bug # "reg_after_spawn"
  /\ LET c == scur[p] IN
       /\ conns' = conns \cup {c}
       /\ wpc' = [wpc EXCEPT ![c] = "spawned"]
       /\ wown' = [wown EXCEPT ![c] = p]
       /\ L(<<"SRegister", p, c>>)
  /\ wg' = [wg EXCEPT ![p] = @ + 1]
  /\ scur' = [scur EXCEPT ![p] = 0]
  /\ spc' = [spc EXCEPT ![p] = "top"]
  /\ UNCHANGED <<started, lock, gen, closed, lsnField, cfgBad, pcField, transp, sgen, sres, serr, slsn, sbad, dl, wdl, copen, hrep, hclosed, hij, kvars, shvars, cvars, hist>>

\* broken variant "reg_after_spawn": the worker is spawned first, the connection registered afterwards
SSpawnFirst(p) ==
  /\ Mode = "tcp" /\ spc[p] = "got" /\ Bug = "reg_after_spawn"
  /\ LET c == scur[p] IN
       /\ wpc' = [wpc EXCEPT ![c] = "spawned"]
       /\ wown' = [wown EXCEPT ![c] = p]
       /\ L(<<"SSpawnFirst", p, c>>)
  /\ wg' = [wg EXCEPT ![p] = @ + 1]
  /\ spc' = [spc EXCEPT ![p] = "got2"]
  /\ UNCHANGED <<fields, transp, sgen, sres, scur, serr, slsn, sbad, dl, wdl, copen, hrep, hclosed, hij, kvars, shvars, cvars, hist>>
SRegLate(p) ==
  /\ spc[p] = "got2" /\ Free
  /\ conns' = conns \cup {scur[p]}
  /\ scur' = [scur EXCEPT ![p] = 0]
  /\ spc' = [spc EXCEPT ![p] = "top"]
  /\ UNCHANGED <<started, lock, gen, closed, lsnField, cfgBad, pcField, transp, sgen, sres, wg, serr, slsn, sbad, wvars, kvars, shvars, cvars, hist>>
  /\ L(<<"SRegLate", p>>)

SDrain(p) ==                      \* defer: wg.Wait() returns
  /\ spc[p] = "defer"
  /\ (wg[p] = 0 \/ Bug = "close_before_wait")
  /\ spc' = [spc EXCEPT ![p] = "drained"]
  /\ UNCHANGED <<fields, transp, sgen, sres, wg, scur, serr, slsn, sbad, wvars, kvars, shvars, cvars, hist>>
  /\ L(<<"SDrain", p>>)

SCloseChan(p) ==                  \* defer: close(srv.shutdown) -- the field as it is NOW
  /\ spc[p] = "drained"
  /\ IF gen \in closed
     THEN /\ crashed' = "close of closed channel"
          /\ sres' = [sres EXCEPT ![p] = "panic"]
          /\ UNCHANGED closed
     ELSE /\ closed' = closed \cup {gen}
          /\ UNCHANGED <<crashed, sres>>
  /\ spc' = [spc EXCEPT ![p] = "closed"]
  /\ UNCHANGED <<started, lock, gen, conns, lsnField, cfgBad, pcField, transp, sgen, wg, scur, serr, slsn, sbad, wvars, kvars, shvars, cvars, replyLost>>
  /\ L(<<"SCloseChan", p, gen>>)

SReturn(p) ==                     \* defer l.Close(); deferred unlock() (a no-op: once); the serve call returns
  /\ spc[p] = "closed"
  /\ IF Mode = "tcp"
     THEN lsnOpen' = [lsnOpen EXCEPT ![slsn[p]] = FALSE] /\ UNCHANGED pcOpen
     ELSE pcOpen' = FALSE /\ UNCHANGED lsnOpen
  /\ IF Bug = "plain_unlock"         \* srv.lock.Unlock() a second time
     THEN IF lock = NoLock THEN crashed' = "unlock of unlocked mutex" /\ UNCHANGED lock
                      ELSE lock' = NoLock /\ UNCHANGED crashed
     ELSE UNCHANGED <<lock, crashed>>
  /\ spc' = [spc EXCEPT ![p] = "returned"]
  /\ UNCHANGED <<started, gen, closed, conns, lsnField, cfgBad, pcField, pend, pcDL, pcWDL, pin, sgen, sres, wg, scur, serr, slsn, sbad, wvars, kvars, shvars, cvars, replyLost>>
  /\ L(<<"SReturn", p, sres[p]>>)

\* ---- PacketConn / UDP serve loop
URdl(p) ==                        \* readPacketConn/readUDP: RLock; if started {SetReadDeadline(future)}; RUnlock
  /\ Mode = "pc" /\ spc[p] = "rdl" /\ Free
  /\ pcDL' = (IF started \/ Bug = "dl_nocheck" THEN "future" ELSE pcDL) /\ UNCHANGED pcWDL
  /\ spc' = [spc EXCEPT ![p] = "read"]
  /\ UNCHANGED <<fields, lsnOpen, pend, pcOpen, pin, sgen, sres, wg, scur, serr, slsn, sbad, wvars, kvars, shvars, cvars, hist>>
  /\ L(<<"URdl", p, started>>)

UReadOk(p) ==                     \* ReadFrom returns a packet
  /\ Mode = "pc" /\ spc[p] = "read"
  /\ pcOpen /\ pcDL # "past" /\ pin > 0
  /\ pin' = pin - 1
  /\ nread' = nread + 1
  /\ scur' = [scur EXCEPT ![p] = nread + 1]
  /\ spc' = [spc EXCEPT ![p] = "got"]
  /\ UNCHANGED <<fields, lsnOpen, pend, pcOpen, pcDL, pcWDL, sgen, sres, wg, serr, slsn, sbad, wvars, kpc, kown, shvars, cvars, hist>>
  /\ L(<<"UReadOk", p, nread + 1>>)

UReadErr(p) ==                    \* ReadFrom fails: deadline in the past (Temporary) or conn closed
  /\ Mode = "pc" /\ spc[p] = "read"
  /\ \/ ~pcOpen /\ serr' = [serr EXCEPT ![p] = "closed"]
     \/ pcOpen /\ pcDL = "past" /\ serr' = [serr EXCEPT ![p] = "timeout"]
  /\ spc' = [spc EXCEPT ![p] = "goterr"]
  /\ UNCHANGED <<fields, transp, sgen, sres, wg, scur, slsn, sbad, wvars, kvars, shvars, cvars, hist>>
  /\ L(<<"UReadErr", p, serr'[p]>>)

USpawn(p) ==                      \* wg.Add(1); go serveUDPPacket
  /\ Mode = "pc" /\ spc[p] = "got"
  /\ LET k == scur[p] IN
       /\ kpc' = [kpc EXCEPT ![k] = "spawned"]
       /\ kown' = [kown EXCEPT ![k] = p]
       /\ L(<<"USpawn", p, k>>)
  /\ wg' = [wg EXCEPT ![p] = @ + 1]
  /\ scur' = [scur EXCEPT ![p] = 0]
  /\ spc' = [spc EXCEPT ![p] = "top"]
  /\ UNCHANGED <<fields, transp, sgen, sres, serr, slsn, sbad, wvars, nread, shvars, cvars, hist>>

-----------------------------------------------------------------------------
(* Connection worker: serveTCPConn 561-613, readTCP 686-708                  *)

WStart(c) ==
  /\ wpc[c] = "spawned"
  /\ wpc' = [wpc EXCEPT ![c] = "top"]
  /\ UNCHANGED <<fields, transp, svars, wown, dl, wdl, copen, hrep, hclosed, hij, kvars, shvars, cvars, hist>>
  /\ L(<<"WStart", c>>)

WLoop(c) ==                       \* for ... && srv.isStarted()
  /\ wpc[c] = "top" /\ Free
  /\ wpc' = [wpc EXCEPT ![c] = IF started THEN "rdl" ELSE "close"]
  /\ UNCHANGED <<fields, transp, svars, wown, dl, wdl, copen, hrep, hclosed, hij, kvars, shvars, cvars, hist>>
  /\ L(<<"WLoop", c, started>>)

WSetDeadline(c) ==                \* RLock; if srv.started {conn.SetReadDeadline(future)}; RUnlock
  /\ wpc[c] = "rdl" /\ Free
  /\ dl' = [dl EXCEPT ![c] = IF started \/ Bug = "dl_nocheck" THEN "future" ELSE @] /\ UNCHANGED wdl
  /\ wpc' = [wpc EXCEPT ![c] = "read"]
  /\ UNCHANGED <<fields, transp, svars, wown, copen, hrep, hclosed, hij, kvars, shvars, cvars, hist>>
  /\ L(<<"WSetDeadline", c, started>>)

WReadOk(c) ==
  /\ wpc[c] = "read" /\ copen[c] /\ dl[c] # "past" /\ inbox[c] > 0
  /\ inbox' = [inbox EXCEPT ![c] = @ - 1]
  /\ wpc' = [wpc EXCEPT ![c] = "have"]
  /\ UNCHANGED <<fields, transp, svars, wown, dl, wdl, copen, hrep, hclosed, hij, kvars, shvars, cst, csent, psent, hist>>
  /\ L(<<"WReadOk", c>>)

WReadTimeout(c) ==
  /\ wpc[c] = "read" /\ copen[c] /\ dl[c] = "past"
  /\ wpc' = [wpc EXCEPT ![c] = "close"]
  /\ UNCHANGED <<fields, transp, svars, wown, dl, wdl, copen, hrep, hclosed, hij, kvars, shvars, cvars, hist>>
  /\ L(<<"WReadTimeout", c>>)

WReadEOF(c) ==                    \* peer closed (after its data was consumed), or our side is closed
  /\ wpc[c] = "read"
  /\ (cst[c] = "closed" /\ inbox[c] = 0) \/ ~copen[c]
  /\ wpc' = [wpc EXCEPT ![c] = "close"]
  /\ UNCHANGED <<fields, transp, svars, wown, dl, wdl, copen, hrep, hclosed, hij, kvars, shvars, cvars, hist>>
  /\ L(<<"WReadEOF", c>>)

WHandlerEnter(c) ==               \* serveDNS -> srv.Handler.ServeDNS
  /\ wpc[c] = "have"
  /\ wpc' = [wpc EXCEPT ![c] = "inh"]
  /\ hrep' = [hrep EXCEPT ![c] = FALSE]
  /\ UNCHANGED <<fields, transp, svars, wown, dl, wdl, copen, hclosed, hij, kvars, shvars, cvars, hist>>
  /\ L(<<"WHandlerEnter", c>>)

WReply(c) ==                      \* w.WriteMsg from the handler
  /\ wpc[c] = "inh" /\ ~hrep[c] /\ ~hclosed[c]
  /\ hrep' = [hrep EXCEPT ![c] = TRUE]
  \* the write fails although the client is there: the connection was closed under the handler, or its write
  \* deadline has come
  /\ replyLost' = (replyLost \/ ((~copen[c] \/ wdl[c] = "past") /\ cst[c] # "closed"))
  /\ UNCHANGED <<fields, transp, svars, wpc, wown, dl, wdl, copen, hclosed, hij, kvars, shvars, cvars, crashed>>
  /\ L(<<"WReply", c, copen[c] /\ wdl[c] # "past" /\ cst[c] # "closed">>)

WHClose(c) ==                     \* w.Close() from the handler
  /\ HandlerMayClose /\ wpc[c] = "inh" /\ ~hclosed[c]
  /\ hclosed' = [hclosed EXCEPT ![c] = TRUE]
  /\ copen' = [copen EXCEPT ![c] = FALSE]
  /\ UNCHANGED <<fields, transp, svars, wpc, wown, dl, wdl, hrep, hij, kvars, shvars, cvars, hist>>
  /\ L(<<"WHClose", c>>)

WHijack(c) ==                     \* w.Hijack() from the handler: the server will neither read nor close the connection again
  /\ HandlerMayHijack /\ wpc[c] = "inh" /\ hrep[c] /\ ~hclosed[c] /\ ~hij[c]
  /\ hij' = [hij EXCEPT ![c] = TRUE]
  /\ UNCHANGED <<fields, transp, svars, wpc, wown, dl, wdl, copen, hrep, hclosed, kvars, shvars, cvars, hist>>
  /\ L(<<"WHijack", c>>)

WHandlerExit(c) ==
  /\ wpc[c] = "inh" /\ (hrep[c] \/ hclosed[c])
  /\ wpc' = [wpc EXCEPT ![c] = IF hclosed[c] \/ hij[c] THEN "closing" ELSE "top"]    \* if w.closed / w.hijacked {break}
  /\ UNCHANGED <<fields, transp, svars, wown, dl, wdl, copen, hrep, hclosed, hij, kvars, shvars, cvars, hist>>
  /\ L(<<"WHandlerExit", c>>)

WClose(c) ==                      \* w.Close() after the loop
  /\ wpc[c] = "close"
  /\ copen' = [copen EXCEPT ![c] = FALSE]
  /\ wpc' = [wpc EXCEPT ![c] = "closing"]
  /\ UNCHANGED <<fields, transp, svars, wown, dl, wdl, hrep, hclosed, hij, kvars, shvars, cvars, hist>>
  /\ L(<<"WClose", c>>)

WUnreg(c) ==                      \* lock; delete(srv.conns, rw) -- the CURRENT map; unlock; wg.Done()
  /\ wpc[c] = "closing" /\ Free
  /\ conns' = IF Bug = "hijack_keeps_conn" /\ hij[c] THEN conns ELSE conns \ {c}   \* hijacked or not: untracked
  /\ wg' = [wg EXCEPT ![wown[c]] = @ - 1]
  /\ wpc' = [wpc EXCEPT ![c] = "done"]
  /\ UNCHANGED <<started, lock, gen, closed, lsnField, cfgBad, pcField, transp, spc, sgen, sres, scur, serr, slsn, sbad, wown, dl, wdl, copen, hrep, hclosed, hij, kvars, shvars, cvars, hist>>
  /\ L(<<"WUnreg", c>>)

WExit(c) ==                       \* the goroutine is gone
  /\ wpc[c] = "done"
  /\ wpc' = [wpc EXCEPT ![c] = "gone"]
  /\ UNCHANGED <<fields, transp, svars, wown, dl, wdl, copen, hrep, hclosed, hij, kvars, shvars, cvars, hist>>
  /\ L(<<"WExit", c>>)

-----------------------------------------------------------------------------
(* Packet worker: serveUDPPacket 616-626                                     *)

KStart(k) ==
  /\ kpc[k] = "spawned"
  /\ kpc' = [kpc EXCEPT ![k] = "have"]
  /\ UNCHANGED <<fields, transp, svars, wvars, kown, nread, shvars, cvars, hist>>
  /\ L(<<"KStart", k>>)

KEnter(k) ==
  /\ kpc[k] = "have"
  /\ kpc' = [kpc EXCEPT ![k] = "inh"]
  /\ UNCHANGED <<fields, transp, svars, wvars, kown, nread, shvars, cvars, hist>>
  /\ L(<<"KEnter", k>>)

KReply(k) ==                      \* WriteTo on the packet conn
  /\ kpc[k] = "inh"
  /\ kpc' = [kpc EXCEPT ![k] = "replied"]
  /\ replyLost' = (replyLost \/ ~pcOpen \/ pcWDL = "past")
  /\ UNCHANGED <<fields, transp, svars, wvars, kown, nread, shvars, cvars, crashed>>
  /\ L(<<"KReply", k, pcOpen /\ pcWDL # "past">>)

KExit(k) ==                       \* handler returns; wg.Done()
  /\ kpc[k] = "replied"
  /\ kpc' = [kpc EXCEPT ![k] = "done"]
  /\ wg' = [wg EXCEPT ![kown[k]] = @ - 1]
  /\ UNCHANGED <<fields, transp, spc, sgen, sres, scur, serr, slsn, sbad, wvars, kown, nread, shvars, cvars, hist>>
  /\ L(<<"KExit", k>>)

KGone(k) ==
  /\ kpc[k] = "done"
  /\ kpc' = [kpc EXCEPT ![k] = "gone"]
  /\ UNCHANGED <<fields, transp, svars, wvars, kown, nread, shvars, cvars, hist>>
  /\ L(<<"KGone", k>>)

-----------------------------------------------------------------------------
(* ShutdownContext 411-450                                                   *)

InLoop(p) == spc[p] \in {"notify", "top", "accept", "rdl", "read", "got", "got2", "goterr"}

ShBegin(h) ==                     \* Lock; if !started {Unlock; return err}; started = false
  /\ shpc[h] = "idle" /\ Free
  /\ IF ~started /\ Bug # "no_shut_check"
     THEN /\ shpc' = [shpc EXCEPT ![h] = "returned"]
          /\ shres' = [shres EXCEPT ![h] = "notstarted"]
          /\ UNCHANGED <<started, lock, shgen, kick, shseen, shtodo>>
          /\ L(<<"ShRefused", h>>)
     ELSE /\ started' = FALSE
          /\ lock' = <<"h", h>>
          /\ shgen' = [shgen EXCEPT ![h] = gen]
          /\ kick' = [kick EXCEPT ![h] = conns]
          /\ shseen' = [shseen EXCEPT ![h] = { p \in P : sgen[p] = gen /\ InLoop(p) }]   \* history: the serve calls this shutdown stops
          /\ shtodo' = [shtodo EXCEPT ![h] = FieldsSet]
          /\ shpc' = [shpc EXCEPT ![h] = IF FieldsSet = {} THEN "kick" ELSE "closing"]
          /\ UNCHANGED shres
          /\ L(<<"ShBegin", h>>)
  /\ UNCHANGED <<gen, closed, conns, lsnField, cfgBad, pcField, transp, svars, wvars, kvars, capt, cvars, hist>>

\* ShutdownContext touches BOTH fields, each when it is set (lock held):
\*   if srv.PacketConn != nil {SetReadDeadline(aLongTimeAgo)} ; if srv.Listener != nil {Close()}
\* The statement does not care about the order of the two, so the model admits both.
ShKickPC(h) ==
  /\ shpc[h] = "closing" /\ "pc" \in shtodo[h]
  /\ pcDL' = IF Bug = "no_listener_close" /\ Mode = "pc" THEN pcDL ELSE "past"
  /\ pcWDL' = IF Bug = "sh_write_deadline" THEN "future" ELSE pcWDL        \* see ShKick
  /\ shtodo' = [shtodo EXCEPT ![h] = @ \ {"pc"}]
  /\ shpc' = [shpc EXCEPT ![h] = IF shtodo[h] = {"pc"} THEN "kick" ELSE "closing"]
  /\ UNCHANGED <<fields, lsnOpen, pend, pcOpen, pin, svars, wvars, kvars, shres, shgen, capt, kick, shseen, cvars, hist>>
  /\ L(<<"ShKickPC", h>>)

ShCloseL(h) ==
  /\ shpc[h] = "closing" /\ "lsn" \in shtodo[h]
  /\ lsnOpen' = IF (Bug = "no_listener_close" /\ Mode = "tcp") \/ (Bug = "switch_close" /\ HasPC)
                 THEN lsnOpen ELSE [lsnOpen EXCEPT ![lsnField] = FALSE]
  /\ shtodo' = [shtodo EXCEPT ![h] = @ \ {"lsn"}]
  /\ shpc' = [shpc EXCEPT ![h] = IF shtodo[h] = {"lsn"} THEN "kick" ELSE "closing"]
  /\ UNCHANGED <<fields, pend, pcOpen, pcDL, pcWDL, pin, svars, wvars, kvars, shres, shgen, capt, kick, shseen, cvars, hist>>
  /\ L(<<"ShCloseL", h>>)

ShKick(h, c) ==                   \* for rw := range srv.conns {rw.SetReadDeadline(aLongTimeAgo)}, lock held
  /\ shpc[h] = "kick" /\ c \in kick[h]
  /\ kick' = [kick EXCEPT ![h] = @ \ {c}]
  /\ IF Bug = "sh_closes_conns"
     THEN copen' = [copen EXCEPT ![c] = FALSE] /\ UNCHANGED dl
     ELSE dl' = [dl EXCEPT ![c] = "past"] /\ UNCHANGED copen
  \* the walk touches READ deadlines only: a write deadline armed here ("so that a peer that stopped reading cannot
  \* hold up the shutdown") comes while a handler the shutdown waits for has not answered yet -- broken variant
  /\ wdl' = IF Bug = "sh_write_deadline" THEN [wdl EXCEPT ![c] = "future"] ELSE wdl
  /\ UNCHANGED <<fields, transp, svars, wpc, wown, hrep, hclosed, hij, kvars, shpc, shres, shgen, capt, shseen, shtodo, cvars, hist>>
  /\ L(<<"ShKick", h, c>>)

ShUnlock(h) ==
  /\ shpc[h] = "kick" /\ kick[h] = {}
  /\ lock' = NoLock
  /\ shpc' = [shpc EXCEPT ![h] = "select"]
  /\ UNCHANGED <<started, gen, closed, conns, lsnField, cfgBad, pcField, transp, svars, wvars, kvars, shres, shgen, capt, kick, shseen, shtodo, cvars, hist>>
  /\ L(<<"ShUnlock", h>>)

ShCapture(h) ==                   \* select evaluates srv.shutdown: the field as it is NOW
  /\ shpc[h] = "select"
  /\ capt' = [capt EXCEPT ![h] = gen]
  /\ shpc' = [shpc EXCEPT ![h] = "wait"]
  /\ UNCHANGED <<fields, transp, svars, wvars, kvars, shres, shgen, kick, shseen, shtodo, cvars, hist>>
  /\ L(<<"ShCapture", h, gen>>)

ShWake(h) ==                      \* case <-srv.shutdown
  /\ shpc[h] = "wait" /\ capt[h] \in closed
  /\ shres' = [shres EXCEPT ![h] = "ok"]
  /\ shpc' = [shpc EXCEPT ![h] = IF HasPC THEN "after" ELSE "returned"]
  /\ UNCHANGED <<fields, transp, svars, wvars, kvars, shgen, capt, kick, shseen, shtodo, cvars, hist>>
  /\ L(<<"ShWake", h>>)

ShCtx(h) ==                       \* case <-ctx.Done(): only a ShutdownContext caller has a ctx that can be done;
  /\ CtxMayExpire /\ shpc[h] = "wait"     \* Shutdown() passes context.Background()
  /\ (h \notin PlainShut \/ Bug = "plain_gives_up")     \* broken variant: Shutdown() bounds its wait by a timer of its own
  /\ shres' = [shres EXCEPT ![h] = "ctx"]
  /\ shpc' = [shpc EXCEPT ![h] = IF HasPC THEN "after" ELSE "returned"]
  /\ UNCHANGED <<fields, transp, svars, wvars, kvars, shgen, capt, kick, shseen, shtodo, cvars, hist>>
  /\ L(<<"ShCtx", h>>)

ShClosePC(h) ==                   \* if srv.PacketConn != nil {srv.PacketConn.Close()}
  /\ shpc[h] = "after"
  /\ pcOpen' = FALSE
  /\ shpc' = [shpc EXCEPT ![h] = "returned"]
  /\ UNCHANGED <<fields, lsnOpen, pend, pcDL, pcWDL, pin, svars, wvars, kvars, shres, shgen, capt, kick, shseen, shtodo, cvars, hist>>
  /\ L(<<"ShClosePC", h>>)

-----------------------------------------------------------------------------
(* Clients (environment)                                                     *)

CConnect(c, l) ==
  /\ cst[c] = "new" /\ \A d \in C : d < c => cst[d] # "new"
  /\ lsnOpen[l]
  /\ pend' = [pend EXCEPT ![l] = @ \cup {c}]
  /\ cst' = [cst EXCEPT ![c] = "open"]
  /\ UNCHANGED <<fields, lsnOpen, pcOpen, pcDL, pcWDL, pin, svars, wvars, kvars, shvars, csent, inbox, psent, hist>>
  /\ L(<<"CConnect", c, l>>)

CSend(c) ==
  /\ cst[c] = "open" /\ csent[c] < MaxReq
  /\ csent' = [csent EXCEPT ![c] = @ + 1]
  /\ inbox' = [inbox EXCEPT ![c] = @ + 1]
  /\ UNCHANGED <<fields, transp, svars, wvars, kvars, shvars, cst, psent, hist>>
  /\ L(<<"CSend", c>>)

CClose(c) ==
  /\ ClientMayClose /\ cst[c] = "open"
  /\ cst' = [cst EXCEPT ![c] = "closed"]
  /\ UNCHANGED <<fields, transp, svars, wvars, kvars, shvars, csent, inbox, psent, hist>>
  /\ L(<<"CClose", c>>)

CSendPkt ==
  /\ Mode = "pc" /\ psent < NPkts /\ pcOpen
  /\ psent' = psent + 1
  /\ pin' = pin + 1
  /\ UNCHANGED <<fields, lsnOpen, pend, pcOpen, pcDL, pcWDL, svars, wvars, kvars, shvars, cst, csent, inbox, hist>>
  /\ L(<<"CSendPkt", psent + 1>>)

TFire(c) ==                       \* time: the instant the read deadline of connection c names has come
  /\ DeadlinesMayFire /\ dl[c] = "future"
  /\ dl' = [dl EXCEPT ![c] = "past"] /\ UNCHANGED wdl
  /\ UNCHANGED <<fields, transp, svars, wpc, wown, copen, hrep, hclosed, hij, kvars, shvars, cvars, hist>>
  /\ L(<<"TFire", c>>)

TFirePC ==                        \* ... of the packet conn
  /\ DeadlinesMayFire /\ pcDL = "future"
  /\ pcDL' = "past" /\ UNCHANGED pcWDL
  /\ UNCHANGED <<fields, lsnOpen, pend, pcOpen, pin, svars, wvars, kvars, shvars, cvars, hist>>
  /\ L(<<"TFirePC">>)

TFireW(c) ==                      \* time: the instant the WRITE deadline of connection c names has come; every later
  /\ DeadlinesMayFire /\ wdl[c] = "future"          \* write fails and nothing goes out (WReply)
  /\ wdl' = [wdl EXCEPT ![c] = "past"]
  /\ UNCHANGED <<fields, transp, svars, wpc, wown, dl, copen, hrep, hclosed, hij, kvars, shvars, cvars, hist>>
  /\ L(<<"TFireW", c>>)

TFireWPC ==                       \* ... of the packet conn
  /\ DeadlinesMayFire /\ pcWDL = "future"
  /\ pcWDL' = "past"
  /\ UNCHANGED <<fields, lsnOpen, pend, pcOpen, pcDL, pin, svars, wvars, kvars, shvars, cvars, hist>>
  /\ L(<<"TFireWPC">>)

HSetListener(l) ==                \* the harness assigns a fresh listener to srv.Listener (DEV3: only while not started,
  /\ Mode = "tcp" /\ l \in Lsn /\ l = lsnField + 1      \* and while no call is inside its critical section)
  /\ ~started /\ Free
  /\ (SeqRestart => /\ \A q \in P : spc[q] \in {"idle", "returned"}
                    /\ \A h \in H : shpc[h] \in {"idle", "returned"})
  /\ gen > 0
  /\ lsnField' = l
  /\ UNCHANGED <<started, lock, gen, closed, conns, cfgBad, pcField, transp, svars, wvars, kvars, shvars, cvars, hist>>
  /\ L(<<"HSetListener", l>>)

HSparePC ==                       \* srv.PacketConn := a packet conn nobody serves, on a running tcp server
  /\ SpareFields /\ Mode = "tcp" /\ ~pcField /\ started /\ Free
  /\ pcField' = TRUE /\ pcOpen' = TRUE /\ pcDL' = "none" /\ pcWDL' = "none"
  /\ UNCHANGED <<started, lock, gen, closed, conns, lsnField, cfgBad, lsnOpen, pend, pin, svars, wvars, kvars, shvars, cvars, hist>>
  /\ L(<<"HSparePC">>)

HSpareLsn(l) ==                   \* srv.Listener := a listener nobody serves, on a value that serves its PacketConn
  /\ SpareFields /\ Mode = "pc" /\ lsnField = 0 /\ l \in Lsn /\ l = 1 /\ Free
  /\ lsnField' = l
  /\ UNCHANGED <<started, lock, gen, closed, conns, cfgBad, pcField, transp, svars, wvars, kvars, shvars, cvars, hist>>
  /\ L(<<"HSpareLsn", l>>)

HCalm == /\ Free /\ \A q \in P : spc[q] \in {"idle", "returned"}      \* no call of the server is in progress
         /\ \A h \in H : shpc[h] \in {"idle", "returned"}

HBreak ==                         \* the caller leaves the server without a usable listener / packet conn
  /\ StartMayFail /\ ~cfgBad /\ ~started /\ HCalm                            \* (nil, or a closed *net.UDPConn)
  /\ cfgBad' = TRUE
  /\ UNCHANGED <<started, lock, gen, closed, conns, lsnField, pcField, transp, svars, wvars, kvars, shvars, cvars, hist>>
  /\ L(<<"HBreak">>)

HClearPC ==                       \* srv.PacketConn := nil before the value is started again on its listener
  /\ Mode = "tcp" /\ pcField /\ HCalm
  /\ pcField' = FALSE
  /\ UNCHANGED <<started, lock, gen, closed, conns, lsnField, cfgBad, transp, svars, wvars, kvars, shvars, cvars, hist>>
  /\ L(<<"HClearPC">>)

HFix ==                           \* ... and puts the usable one back
  /\ cfgBad /\ HCalm
  /\ cfgBad' = FALSE
  /\ UNCHANGED <<started, lock, gen, closed, conns, lsnField, pcField, transp, svars, wvars, kvars, shvars, cvars, hist>>
  /\ L(<<"HFix">>)

-----------------------------------------------------------------------------
StarterStep(p) == (\E bad \in BOOLEAN : StLock(p, bad)) \/ StBody(p) \/ StErrReturn(p)
ServeStep(p)   == \/ SNotify(p) \/ SCheck(p) \/ SAcceptOk(p) \/ SAcceptErr(p) \/ SErrCheck(p) \/ SRegister(p)
                  \/ SSpawnFirst(p) \/ SRegLate(p) \/ SDrain(p) \/ SCloseChan(p) \/ SReturn(p)
                  \/ URdl(p) \/ UReadOk(p) \/ UReadErr(p) \/ USpawn(p)
WorkerStep(c)  == \/ WStart(c) \/ WLoop(c) \/ WSetDeadline(c) \/ WReadOk(c) \/ WReadTimeout(c) \/ WReadEOF(c)
                  \/ WHandlerEnter(c) \/ WReply(c) \/ WHClose(c) \/ WHijack(c) \/ WHandlerExit(c) \/ WClose(c) \/ WUnreg(c) \/ WExit(c)
\* a handler is free to close or not: only its termination is a fairness assumption
WorkerFair(c)  == \/ WStart(c) \/ WLoop(c) \/ WSetDeadline(c) \/ WReadOk(c) \/ WReadTimeout(c) \/ WReadEOF(c)
                  \/ WHandlerEnter(c) \/ WReply(c) \/ WHandlerExit(c) \/ WClose(c) \/ WUnreg(c) \/ WExit(c)
PacketStep(k)  == KStart(k) \/ KEnter(k) \/ KReply(k) \/ KExit(k) \/ KGone(k)
ShutStep(h)    == ShBegin(h) \/ ShKickPC(h) \/ ShCloseL(h) \/ (\E c \in C : ShKick(h, c)) \/ ShUnlock(h) \/ ShCapture(h) \/ ShWake(h) \/ ShClosePC(h)
ClientStep     == (\E c \in C : (\E l \in Lsn : CConnect(c, l)) \/ CSend(c) \/ CClose(c)) \/ CSendPkt
                  \/ (\E l \in Lsn : HSetListener(l) \/ HSpareLsn(l)) \/ HBreak \/ HFix \/ HSparePC \/ HClearPC
                  \/ (\E c \in C : TFire(c)) \/ TFirePC \/ (\E c \in C : TFireW(c)) \/ TFireWPC

Next == \/ \E p \in P : StarterStep(p) \/ ServeStep(p)
        \/ \E c \in C : WorkerStep(c)
        \/ \E k \in K : PacketStep(k)
        \/ \E h \in H : ShutStep(h) \/ ShCtx(h)
        \/ ClientStep

\* Fairness: every server goroutine that can move eventually moves; handlers return.
\* Nothing is assumed about clients, about when Start/Shutdown are called, or about ctx.
Fairness == /\ \A p \in P : WF_vars(StBody(p) \/ StErrReturn(p) \/ ServeStep(p))
            /\ \A c \in C : WF_vars(WorkerFair(c))
            /\ \A k \in K : WF_vars(PacketStep(k))
            /\ \A h \in H : WF_vars(ShKickPC(h) \/ ShCloseL(h) \/ (\E c \in C : ShKick(h, c)) \/ ShUnlock(h) \/ ShCapture(h) \/ ShWake(h) \/ ShClosePC(h))

Spec == Init /\ [][Next]_vars /\ Fairness

-----------------------------------------------------------------------------
(* Properties                                                                *)

TypeOK ==
  /\ started \in BOOLEAN /\ cfgBad \in BOOLEAN /\ pcField \in BOOLEAN /\ gen \in 0..NStart /\ closed \subseteq 1..NStart /\ conns \subseteq C
  /\ \A p \in P : spc[p] \in {"idle", "locked", "err", "notify", "top", "accept", "rdl", "read", "got", "got2", "goterr",
                              "defer", "drained", "closed", "returned"}
  /\ \A p \in P : wg[p] >= 0
  /\ \A c \in C : wpc[c] \in {"none", "spawned", "top", "rdl", "read", "have", "inh", "close", "closing", "done", "gone"}
  /\ \A h \in H : shpc[h] \in {"idle", "closing", "kick", "select", "wait", "after", "returned"}

WLive(c) == wpc[c] \notin {"none", "done", "gone"}
KLive(k) == kpc[k] \notin {"none", "done", "gone"}
ShDone(h) == shpc[h] \in {"after", "returned"}
ServeFinished(p) == spc[p] \in {"drained", "closed", "returned"}

\* the serve call(s) and workers of the generation shutdown h stopped
GenLoops(g)   == { p \in P : sgen[p] = g }
GenWorkers(g) == { c \in C : wown[c] # 0 /\ sgen[wown[c]] = g }
GenPackets(g) == { k \in K : kown[k] # 0 /\ sgen[kown[k]] = g }

\* A normal return of Shutdown: every handler of that generation that was entered has returned
\* (indeed every worker is done) and the serve loop is past wg.Wait().
GracefulReturn ==
  \A h \in H : ShDone(h) /\ shres[h] = "ok" =>
     /\ \A c \in GenWorkers(shgen[h]) : ~WLive(c)
     /\ \A k \in GenPackets(shgen[h]) : ~KLive(k)
     /\ \A p \in GenLoops(shgen[h]) : ServeFinished(p)

\* No handler is entered once Shutdown has returned normally (AMBIG: after a ctx expiry the
\* statement's first clause releases the caller early; handlers already read may still run).
NoHandlerStartAfterShutdownReturned ==
  [][ /\ \A c \in C : (wpc[c] # "inh" /\ wpc'[c] = "inh") =>
            ~\E h \in H : shpc[h] = "returned" /\ shres[h] = "ok" /\ c \in GenWorkers(shgen[h])
      /\ \A k \in K : (kpc[k] # "inh" /\ kpc'[k] = "inh") =>
            ~\E h \in H : shpc[h] = "returned" /\ shres[h] = "ok" /\ k \in GenPackets(shgen[h]) ]_vars

\* A reply written by an entered handler is not lost by the server's doing.
\* (Packet conn: Shutdown closes it only after the drain; after a ctx expiry it may be closed
\*  under a running handler -- the statement's "unless ctx expired".)
RepliesDelivered == replyLost => \E h \in H : shres[h] = "ctx"

\* The serve call that a shutdown found in its loop returns nil.
ServeReturnsNil ==
  \A h \in H : \A p \in shseen[h] : spc[p] = "returned" => sres[p] = "nil"

\* Starting a started server is refused under the lock and returns (pc "err" -> "returned").
StartTwiceErrors ==
  [][ \A p \in P : spc[p] = "locked" /\ spc'[p] # "locked" =>
        IF started THEN spc'[p] = "err" /\ sres'[p] = "already" /\ UNCHANGED <<started, gen, conns>>
                   ELSE (spc'[p] = "notify" /\ started') \/ (spc'[p] = "err" /\ sres'[p] = "fail") ]_vars
\* A start that returns an error leaves the server not started and the lock free; it does not block.
FailedStartLeavesStopped ==
  [][ \A p \in P : /\ (spc[p] = "locked" /\ spc'[p] = "err" /\ sres'[p] = "fail" => ~started')
                    /\ (spc[p] = "err" /\ spc'[p] = "returned" => lock' = NoLock /\ (sres[p] = "fail" => ~started')) ]_vars
OneLoopPerGeneration ==
  \A p, q \in P : p # q /\ sgen[p] # 0 /\ sgen[q] # 0 => sgen[p] # sgen[q]

ShutdownNotStartedErrors ==
  [][ \A h \in H : shpc[h] = "idle" /\ shpc'[h] # "idle" =>
        IF started THEN shpc'[h] \in {"closing", "kick"} /\ ~started'
                   ELSE shpc'[h] = "returned" /\ shres'[h] = "notstarted" /\ UNCHANGED started ]_vars

\* srv.lock: held only inside the two multi-step sections, whose holder can always move.
LockDiscipline ==
  /\ (lock # NoLock) => ((lock[1] = "s" /\ spc[lock[2]] \in {"locked", "err"})
                         \/ (lock[1] = "h" /\ shpc[lock[2]] \in {"closing", "kick"}))
  /\ \A p \in P : spc[p] \in {"locked", "err"} => lock = <<"s", p>>
  /\ \A h \in H : shpc[h] \in {"closing", "kick"} => lock = <<"h", h>>
LockReleased == (lock # NoLock) ~> (lock = NoLock)
NoCrash == crashed = "-"

\* Shutdown() has no context: it comes back only through the drain (with nil), never by giving up -- not after
\* the idle timeout, not after any other duration the server knows.  (GracefulReturn says what "ok" implies.)
PlainShutdownWaits ==
  \A h \in H : h \in PlainShut /\ ShDone(h) => shres[h] \in {"ok", "notstarted"}

\* After Shutdown has begun (and until a new start), no reader is blocked behind a deadline in
\* the future: what the `if srv.started' under RLock in readTCP/readUDP/readPacketConn is for.
ShutdownInProgress == ~started /\ \E h \in H : shpc[h] \in {"select", "wait"} /\ shgen[h] = gen
PromptUnblock ==
  ShutdownInProgress =>
    /\ \A c \in C : wpc[c] = "read" /\ copen[c] => dl[c] = "past"
    /\ \A p \in P : Mode = "pc" /\ spc[p] = "read" /\ pcOpen => pcDL = "past"

\* Once a shutdown completed normally nothing of that generation is left.
NothingLeft ==
  \A h \in H : ShDone(h) /\ shres[h] = "ok" =>
     /\ \A c \in GenWorkers(shgen[h]) : c \notin conns /\ wpc[c] \in {"done", "gone"}
     /\ (gen = shgen[h] => conns = {})

ShutdownTerminates == \A h \in H : (shpc[h] = "wait") ~> (shpc[h] = "returned")
ServeTerminates    == \A p \in P : \A h \in H : (shpc[h] = "wait" /\ sgen[p] = shgen[h]) ~> (spc[p] = "returned")
WorkersEnd         == \A h \in H : (shpc[h] = "wait") ~> (\A c \in GenWorkers(shgen[h]) : wpc[c] \in {"none", "gone"})
=============================================================================
