------------------------------- MODULE Dnssec -------------------------------
(* C10: what RRSIG.Sign must produce and what RRSIG.Verify may accept           *)
(* (RFC 4034 s.3.1.8.1, s.6; RFC 4035 s.5.3.1, 5.3.2; RFC 6840 s.5.1).          *)
(*                                                                             *)
(* Abstract values (the JSON shapes of WireRR.tla):                            *)
(*   RR     [name, type, class, ttl, nodata, f]     (ttl = 4 octets)           *)
(*   sig    [owner, class, f]   the RRSIG record: f = TypeCovered Algorithm    *)
(*          Labels OrigTtl Expiration Inception (4 octets each) KeyTag         *)
(*          SignerName Signature                                               *)
(*   key    [owner, class, f]   the DNSKEY record: f = Flags Protocol          *)
(*          Algorithm PublicKey                                                *)
(* The signature primitive is not interpreted: the specification fixes the     *)
(* OCTET STRING it is applied to (SignedData); `sigok' -- does the primitive   *)
(* accept sig.f.Signature over those octets under key.f.PublicKey -- is        *)
(* supplied by the harness from Go's standard library.                         *)
EXTENDS WireRR

-----------------------------------------------------------------------------
(* RFC 4034 s.6.2 item 3, the types whose RDATA names are lower-cased:          *)
(*   NS MD MF CNAME SOA MB MG MR PTR HINFO MINFO MX HINFO RP AFSDB RT SIG PX    *)
(*   NXT NAPTR KX SRV DNAME A6 RRSIG NSEC                                       *)
(* as amended by RFC 6840 s.5.1: NSEC is NOT lower-cased, HINFO holds no names, *)
(* RRSIG stays.  A6 (38) has no layout here (obsolete, RFC 6563): opaque.       *)
CanonLowerTypes == {2, 3, 4, 5, 6, 7, 8, 9, 12, 14, 15, 17, 18, 21, 24, 26, 30, 35, 36, 33, 39, 46}

TypeRRSIG == 46
Star == <<42>>                                          \* the wildcard label

LowerRdata(t, f) ==
  IF t \notin CanonLowerTypes THEN f
  ELSE LET es == FieldsOf(t)
           kindOf(n) == es[CHOOSE i \in 1..Len(es) : es[i].n = n].k
       IN [n \in DOMAIN f |->
             IF kindOf(n) \in {"name", "cname"} THEN LowerName(f[n])
             ELSE IF kindOf(n) = "names" THEN [i \in 1..Len(f[n]) |-> LowerName(f[n][i])]
             ELSE f[n]]

(* RFC 4034 s.6.2 items 1, 2, 4 and RFC 4035 s.5.3.2: the owner of a record     *)
(* with more labels than the RRSIG Labels field is replaced by "*." followed by *)
(* its rightmost `labels' labels; then lower-cased; never compressed.           *)
CanonOwner(name, labels) ==
  LowerName(IF Len(name) > labels THEN <<Star>> \o SubSeq(name, Len(name) - labels + 1, Len(name)) ELSE name)

CanonRdata(rr) == IF rr.nodata THEN <<>> ELSE EncRdata(rr.type, LowerRdata(rr.type, rr.f))

\* canonical form of one RR with a given canonical RDATA (s.6.2 item 5: the TTL is the RRSIG's Original TTL)
CanonWith(rr, origTTL, labels, rd) ==
  EncName(CanonOwner(rr.name, labels)) \o U16(rr.type) \o U16(rr.class) \o origTTL \o U16(Len(rd)) \o rd
CanonRR(rr, origTTL, labels) == CanonWith(rr, origTTL, labels, CanonRdata(rr))

(* RFC 4034 s.6.3: RRs sorted by RDATA as left-justified unsigned octet         *)
(* strings; equal RDATA = duplicate record, kept once.                          *)
(* The order is Bytes!LexLess.  That definition walks the two strings octet by   *)
(* octet (depth = the common prefix): fine for the few dozen octets of ordinary *)
(* RDATA, hopeless for records of 4 .. 64 kB that agree up to their end.  The  *)
(* same relation without the walk: the length of the common prefix by          *)
(* bisection (sequence equality is a primitive), then one comparison.          *)
(* MC_Dnssec: LexLessB = LexLess on all short strings over three octet values. *)
RECURSIVE CommonPrefix(_, _, _, _)     \* the largest m in lo..hi with a[1..m] = b[1..m], given a[1..lo] = b[1..lo]
CommonPrefix(a, b, lo, hi) ==
  IF lo >= hi THEN lo
  ELSE LET mid == (lo + hi + 1) \div 2 IN
       IF SubSeq(a, lo + 1, mid) = SubSeq(b, lo + 1, mid) THEN CommonPrefix(a, b, mid, hi) ELSE CommonPrefix(a, b, lo, mid - 1)
LexLessB(a, b) ==
  LET n == Min(Len(a), Len(b))
      m == CommonPrefix(a, b, 0, n)
  IN IF m = n THEN Len(a) < Len(b) ELSE a[m + 1] < b[m + 1]

RECURSIVE SortOctets(_)
SortOctets(S) == IF S = {} THEN <<>>
                 ELSE LET m == CHOOSE x \in S : \A y \in S : x = y \/ LexLessB(x, y)
                      IN <<m>> \o SortOctets(S \ {m})

\* the RRSIG RDATA with the signature left out and the signer in canonical form (s.3.1.8.1)
SigPrefix(s) ==
  U16(s.TypeCovered) \o <<s.Algorithm, s.Labels>> \o s.OrigTtl \o s.Expiration \o s.Inception
  \o U16(s.KeyTag) \o EncName(LowerName(s.SignerName))

\* signature = sign(RRSIG_RDATA | RR(1) | RR(2) ... )
SignedData(s, rrset) ==
  LET rds == SortOctets({ CanonRdata(rrset[i]) : i \in 1..Len(rrset) })
  IN SigPrefix(s) \o Concat([i \in 1..Len(rds) |-> CanonWith(rrset[1], s.OrigTtl, s.Labels, rds[i])])

-----------------------------------------------------------------------------
(* Key tag, RFC 4034 appendix B, over the DNSKEY RDATA.                         *)
KeyRdata(k) == U16(k.Flags) \o <<k.Protocol, k.Algorithm>> \o k.PublicKey
KeyTagOf(k) ==
  LET rd == KeyRdata(k)
      ac == SumSeq([i \in 1..Len(rd) |-> IF i % 2 = 1 THEN rd[i] * 256 ELSE rd[i]])
  IN (ac + ((ac \div 65536) % 65536)) % 65536

ZoneKey(k) == (k.Flags \div 256) % 2 = 1               \* bit 7 of the flags field (RFC 4034 s.2.1.1)

SameName(a, b) == LowerName(a) = LowerName(b)

\* an RRset: at least one record, all of one owner (names compare case-insensitively), class and type
WFRRset(rrset) ==
  /\ Len(rrset) >= 1
  /\ \A i \in 1..Len(rrset) : /\ SameName(rrset[i].name, rrset[1].name)
                              /\ rrset[i].class = rrset[1].class /\ rrset[i].type = rrset[1].type
\* AMBIG: are records whose owners differ in letter case among themselves one RRset?  (the library says no)
UniformOwner(rrset) == \A i \in 1..Len(rrset) : rrset[i].name = rrset[1].name

(* What must hold besides the signature itself (RFC 4035 s.5.3.1).  The         *)
(* validity period is NOT part of Verify (the caller checks it).                *)
PreChecks(sig, key, rrset) ==
  /\ WFRRset(rrset)
  /\ sig.f.KeyTag = KeyTagOf(key.f)
  /\ sig.f.Algorithm = key.f.Algorithm
  /\ sig.class = key.class
  /\ SameName(sig.f.SignerName, key.owner)
  /\ ZoneKey(key.f) /\ key.f.Protocol = 3
  /\ SameName(sig.owner, rrset[1].name) /\ sig.class = rrset[1].class /\ sig.f.TypeCovered = rrset[1].type
  /\ sig.f.Labels <= Len(rrset[1].name)

\* RFC 4035 s.5.3.1: the signer is the zone the RRset lies in.  The statement of C10 does not list it;
\* the library checks it (textually).  AMBIG: RRsets outside it are not judged.
InZone(sig, rrset) ==
  LET o == LowerName(rrset[1].name)  z == LowerName(sig.f.SignerName) IN
  Len(z) <= Len(o) /\ SubSeq(o, Len(o) - Len(z) + 1, Len(o)) = z

Accepts(sig, key, rrset, sigok) == PreChecks(sig, key, rrset) /\ sigok

-----------------------------------------------------------------------------
(* What Sign fills in (RFC 4034 s.3.1): owner, class, type covered from the     *)
(* RRset; Labels = labels of the owner, not counting the root and a leading     *)
(* wildcard label; Original TTL = the RRset's TTL unless the caller set one.    *)
IsWildcard(name) == Len(name) >= 1 /\ name[1] = Star
LabelsField(name) == Len(name) - (IF IsWildcard(name) THEN 1 ELSE 0)

(* req is the RRSIG value as it is handed to Sign, fresh or not: of an earlier  *)
(* use (Sign on another RRset: its owner, class, covered type, Labels,          *)
(* signature) nothing but a non-zero Original TTL may show in the result --     *)
(* owner, class, covered type and Labels are ALWAYS those of this RRset.        *)
Zero4 == <<0, 0, 0, 0>>
SignFills(req, rrset) ==       \* req: the fields the caller set before Sign (f as in sig)
  [owner |-> rrset[1].name, class |-> rrset[1].class,
   f |-> [req.f EXCEPT !.TypeCovered = rrset[1].type,
                       !.Labels = LabelsField(rrset[1].name),
                       !.OrigTtl = IF req.f.OrigTtl = Zero4 THEN rrset[1].ttl ELSE req.f.OrigTtl]]

\* the fields of two sigs agree, the signature aside
SameButSignature(a, b) ==
  /\ a.owner = b.owner /\ a.class = b.class
  /\ \A n \in DOMAIN a.f \ {"Signature"} : a.f[n] = b.f[n]

WFSig(s) == /\ DOMAIN s = {"owner", "class", "f"} /\ WFName(s.owner) /\ IsU16(s.class)
            /\ WFRdata(TypeRRSIG, s.f)
WFKey(k) == /\ DOMAIN k = {"owner", "class", "f"} /\ WFName(k.owner) /\ IsU16(k.class)
            /\ WFRdata(48, k.f)
=============================================================================
