CONSTANTS
  MaxLabel = 63
  MaxName = 255
INIT Init
NEXT Next
INVARIANTS RoundTrip NotLive Standard Unique Static
CHECK_DEADLOCK FALSE
