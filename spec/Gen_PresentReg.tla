--------------------------- MODULE Gen_PresentReg ---------------------------
(* Vectors for C05 under a changing registry (PresentReg.tla).                  *)
(* GMode:                                                                      *)
(*   "tables"  "probes" and "states" in one run                                  *)
(*   "probes"  one line: the probe records -- abstract value, the octets the    *)
(*             record packs to, whether it is a record OF a private code, the   *)
(*             codes of the universe it mentions                                *)
(*   "states"  one line per registry state of the universe (every injective     *)
(*             assignment of the mnemonics to the registrable codes): its id,   *)
(*             the live registrations, and for every probe the texts the        *)
(*             statement allows in that state (preferred spelling, TYPEnnn,     *)
(*             lower case) -- written by PresentReg!TextOf                      *)
(*   "beh"     one line per behaviour: a sequence of at most N actions each of   *)
(*             which is inside the universe when it is taken (PresentReg!ActOK), *)
(*             with the id of the state after every action (the specification's *)
(*             state machine runs here, not in the harness) and the class of    *)
(*             every code then: live / removed (was registered earlier) / never  *)
(*             Behaviours of exactly N actions are sharded.                     *)
EXTENDS PresentReg, GenBase

CONSTANTS GMode, N, Shard, NShards

VARIABLE v

Codes    == <<65280, 65407, 65534>>
Control  == 65281
AllCodes == SortedSeq(Range(Codes) \cup {Control})
Given    == << <<80, 82, 73, 86, 65>>, <<112, 114, 105, 118, 98>>, <<80, 114, 105, 118, 45, 67, 57>> >>     \* PRIVA privb Priv-C9
ActSeq   == [x \in 1..(Len(Codes) * Len(Given)) |->
               [op |-> "handle", mn |-> Given[1 + ((x - 1) % Len(Given))], code |-> Codes[1 + ((x - 1) \div Len(Given))]]]
            \o [x \in 1..Len(AllCodes) |-> [op |-> "remove", mn |-> <<>>, code |-> AllCodes[x]]]

PSeq == Probes(AllCodes)

\* state id: digit i (base Len(Given) + 1) = the index of the mnemonic code i holds, 0 = none
MnIdx(u) == IF u = <<>> THEN 0 ELSE CHOOSE j \in 1..Len(Given) : Upper(Given[j]) = u
RECURSIVE SidFrom(_, _)
SidFrom(reg, i) == IF i > Len(Codes) THEN 0 ELSE MnIdx(reg[Codes[i]]) + (Len(Given) + 1) * SidFrom(reg, i + 1)
Sid(reg) == SidFrom(reg, 1)
RegOf(asg) == [c \in PrivCodes |-> IF \E i \in 1..Len(Codes) : Codes[i] = c /\ asg[i] # 0
                                   THEN Upper(Given[asg[CHOOSE i \in 1..Len(Codes) : Codes[i] = c]]) ELSE <<>>]
Injective(asg) == \A i, j \in 1..Len(Codes) : i # j /\ asg[i] # 0 => asg[i] # asg[j]

RECURSIVE Valid(_, _)
Valid(reg, q) == q = <<>> \/ (ActOK(reg, ActSeq[Head(q)]) /\ Valid(Apply(reg, ActSeq[Head(q)]), Tail(q)))
InShard(q) == Len(q) < N \/ SumSeq([i \in 1..Len(q) |-> i * q[i]]) % NShards = Shard

Init ==
  \/ GMode \in {"probes", "tables"} /\ v = <<0>>
  \/ GMode \in {"states", "tables"} /\ v \in { a \in [1..Len(Codes) -> 0..Len(Given)] : Injective(a) }
  \/ GMode = "beh" /\ v \in UNION { [1..k -> 1..Len(ActSeq)] : k \in 1..N } /\ InShard(v) /\ Valid(RegInit, v)
Next == UNCHANGED v

ClassOf3(reg, c, before) == IF IsLive(reg, c) THEN "live"
                            ELSE IF \E i \in 1..Len(before) : ActSeq[before[i]].op = "handle" /\ ActSeq[before[i]].code = c THEN "removed"
                            ELSE "never"
RECURSIVE Steps(_, _, _)
Steps(reg, q, k) ==
  IF k > Len(q) THEN <<>>
  ELSE LET r2 == Apply(reg, ActSeq[q[k]]) IN
       << [act |-> ActSeq[q[k]], sid |-> Sid(r2),
           cls |-> [i \in 1..Len(AllCodes) |-> ClassOf3(r2, AllCodes[i], SubSeq(q, 1, k))]] >> \o Steps(r2, q, k + 1)

ProbeOut(i) == LET rr == PSeq[i] IN
  [a |-> rr, seg |-> OctetsOf(rr), own |-> IsOwn(rr), codes |-> SortedSeq(Mentions(rr, AllCodes))]
StateOut(asg) == LET reg == RegOf(asg) IN
  [sid |-> Sid(reg),
   live |-> [i \in 1..Len(Codes) |-> [code |-> Codes[i], mn |-> reg[Codes[i]]]],
   texts |-> [i \in 1..Len(PSeq) |-> [k \in 1..Len(Spellings) |-> TextOf(reg, PSeq[i], Spellings[k])]]]

Out ==
  IF GMode \in {"probes", "tables"} /\ Len(v) = 1 THEN Emit([kind |-> "probes", codes |-> AllCodes, spellings |-> Spellings, probes |-> [i \in 1..Len(PSeq) |-> ProbeOut(i)]])
  ELSE IF GMode \in {"states", "tables"} THEN Emit([kind |-> "state"] @@ StateOut(v))
  ELSE Emit([kind |-> "beh", g |-> "reg", v |-> v, steps |-> Steps(RegInit, v, 1)])
=============================================================================
