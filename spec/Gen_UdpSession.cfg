INIT GInit
NEXT GNext
INVARIANT GOut
CHECK_DEADLOCK FALSE
