------------------------------ MODULE MC_Xfr ------------------------------
(* Bounded exhaustive check of Xfr.tla on itself and (EmitBehaviours = TRUE)   *)
(* export of every behaviour with the expected observation for the harness.    *)
(*                                                                             *)
(* Universe: AXFR of zones with 0..MaxRecs records; IXFR for every serial case  *)
(* (client q, intermediate m, server s): the single SOA when s is not newer     *)
(* than q (RFC 1982), else AXFR-style with 0..MaxRecs records and incremental   *)
(* with 1 or 2 difference sequences holding <= MaxRecs records in all; every    *)
(* composition of the stream into envelopes (optionally one envelope without    *)
(* records in the middle); with and without TSIG; at most one fault (with TSIG  *)
(* also the MAC field emptied / truncated / extended); optionally               *)
(* one more envelope after the end of the transfer.                             *)
(* Fault-free behaviours also come in variants on which nothing may depend:     *)
(* the zone name spelled in another letter case in the query / in the answer    *)
(* (RFC 4343), and a pacing sender -- every envelope 2 ticks after the previous *)
(* one, each within the read timeout of 3 ticks, the whole transfer far beyond  *)
(* it; fault "stall": one envelope later than the timeout (paced or not).       *)
(* Serial rows 8-10: the server's / the client's serial is exactly 0 (the zero  *)
(* value of a counter is a serial like any other, RFC 1982).                    *)
EXTENDS Xfr, GenBase

CONSTANTS MaxRecs,          \* records (not counting SOAs) per transfer
          SerialIds,        \* which rows of SerialTable (a cfg file cannot hold tuples)
          TsigModes,        \* subset of BOOLEAN
          Empties,          \* TRUE: also partitions with one empty envelope after the first
          Consumer,         \* TRUE: the consumer of the channel is a process of its own, free to be slow
          Focus,            \* "base": faults, no variants / stall; "variants": fault-free behaviours in all variants + stall, nosoa;
                            \* "all": everything
          EmitBehaviours, Shard, NShards

VARIABLES cfgv,             \* the behaviour: [mode, q, R, lens, tsig, fault, tail]
          envs,             \* what the network delivers
          r, pos,           \* receiver state; next envelope
          taken, closed     \* consumer: the envelopes it received (an error envelope counts as <<-1>>); channel closed

vars == <<cfgv, envs, r, pos, taken, closed>>

\* <<q, m, s>>: the client's serial, an intermediate one, the server's; each <<hi, lo>>
SerialTable == <<
  << <<0, 1>>, <<0, 2>>, <<0, 3>> >>,                 \* 1  plain: s newer
  << <<65535, 65535>>, <<0, 1>>, <<0, 5>> >>,         \* 2  wrap-around: q = 2^32-1 numerically larger, yet s = 5 is newer
  << <<0, 5>>, <<0, 6>>, <<65535, 65535>> >>,         \* 3  the converse: s numerically larger, yet older: up to date
  << <<0, 3>>, <<0, 3>>, <<0, 3>> >>,                 \* 4  equal: up to date
  << <<0, 7>>, <<0, 7>>, <<0, 3>> >>,                 \* 5  client ahead: up to date
  << <<32768, 5>>, <<0, 1>>, <<0, 6>> >>,             \* 6  distance 2^31+1: s older: up to date
  << <<0, 6>>, <<16384, 0>>, <<32768, 5>> >>,         \* 7  distance 2^31-1: s newer
  << <<65535, 65534>>, <<65535, 65535>>, <<0, 0>> >>, \* 8  the serial wrapped to exactly 0: s = 0 is newer than q = 2^32-2
  << <<0, 0>>, <<0, 1>>, <<0, 2>> >>,                 \* 9  the client's serial is 0
  << <<0, 0>>, <<0, 0>>, <<0, 0>> >>                  \* 10 both 0: up to date (AXFR: a zone whose serial is 0)
>>
SerialCases == { SerialTable[i] : i \in SerialIds }

KeyGood == 1
KeyBad  == 2

-----------------------------------------------------------------------------
Recs(from, k) == [i \in 1..k |-> Rec(from + i - 1)]

AxfrStreams(s) == { <<SOA(s)>> \o Recs(1, k) \o <<SOA(s)>> : k \in 0..MaxRecs }
Incr1(q, s) == { <<SOA(s), SOA(q)>> \o Recs(1, d) \o <<SOA(s)>> \o Recs(d + 1, a) \o <<SOA(s)>> :
                   <<d, a>> \in { x \in (0..MaxRecs) \X (0..MaxRecs) : x[1] + x[2] <= MaxRecs } }
Incr2(q, m, s) == { <<SOA(s), SOA(q)>> \o Recs(1, x[1]) \o <<SOA(m)>> \o Recs(x[1] + 1, x[2])
                      \o <<SOA(m)>> \o Recs(x[1] + x[2] + 1, x[3]) \o <<SOA(s)>> \o Recs(x[1] + x[2] + x[3] + 1, x[4]) \o <<SOA(s)>> :
                   x \in { y \in (0..MaxRecs) \X (0..MaxRecs) \X (0..MaxRecs) \X (0..MaxRecs) : y[1] + y[2] + y[3] + y[4] <= MaxRecs } }
IxfrStreams(c) == IF ~SerialGT(c[3], c[1]) THEN { <<SOA(c[3])>> }
                  ELSE AxfrStreams(c[3]) \cup Incr1(c[1], c[3]) \cup Incr2(c[1], c[2], c[3])

Transfers == UNION { { [mode |-> "axfr", q |-> c[1], R |-> R] : R \in AxfrStreams(c[3]) } : c \in SerialCases }
             \cup UNION { { [mode |-> "ixfr", q |-> c[1], R |-> R] : R \in IxfrStreams(c) } : c \in SerialCases }

WithEmpty(c) == { SubSeq(c, 1, j) \o <<0>> \o SubSeq(c, j + 1, Len(c)) : j \in 1..(Len(c) - 1) }
Partitions(n) == LET cs == Compositions(n) IN IF Empties THEN cs \cup UNION { WithEmpty(c) : c \in cs } ELSE cs

\* the MAC field of envelope p replaced by: nothing; its first 1 / 9 / 10 octets; its first half; all but the last
\* octet; itself plus one octet (HMAC-SHA256: 32 octets, so max(10, half) = 16)
MacKinds   == {"macempty", "mac1", "mac9", "mac10", "machalf", "macminus1", "macext"}
AmbigKinds == {"machalf", "macminus1"}             \* valid truncations (RFC 8945 5.2.2.1): sig[4] = 2

FaultsFor(k, tsig) ==
  { [kind |-> "none", pos |-> 0], [kind |-> "nosoa", pos |-> 1] }
    \cup (IF Focus # "base" THEN { [kind |-> "stall", pos |-> p] : p \in 1..k } ELSE {})
    \cup (IF Focus = "variants" THEN {} ELSE { [kind |-> f, pos |-> p] : f \in {"rcode", "id", "close", "cut"}, p \in 1..k })
    \cup (IF tsig /\ Focus # "variants" THEN { [kind |-> f, pos |-> p] : f \in {"alter", "unsign", "wrongkey", "drop", "dup", "hdrid"} \cup MacKinds, p \in 1..k }
                       \cup { [kind |-> "swap", pos |-> p] : p \in 1..(k - 1) }
          ELSE {})

\* variants of a behaviour: one more envelope after the end; the zone name spelled differently in the query (sq) and
\* in the owner names of the answer (sa); a pacing sender (every envelope `pace' ticks after the previous one)
Plain == [tail |-> FALSE, sq |-> "lower", sa |-> "lower", pace |-> 0]
Paced == [Plain EXCEPT !.pace = TimeoutTicks - 1]
Variants == IF Focus = "base" THEN {Plain, [Plain EXCEPT !.tail = TRUE]} ELSE
            {Plain, [Plain EXCEPT !.tail = TRUE], Paced}
            \cup { [Plain EXCEPT !.sq = x[1], !.sa = x[2]] : x \in {<<"upper", "lower">>, <<"lower", "upper">>, <<"mixed", "mixed2">>} }
ASSUME \A v \in Variants : v.sq \in Spellings /\ v.sa \in Spellings
ASSUME Paced.pace <= TimeoutTicks /\ 2 * Paced.pace > TimeoutTicks   \* each envelope in time, two of them already beyond the timeout

\* (the behaviours are enumerated by nested quantifiers in Init: TLC normalises a big UNION of record sets
\* in quadratic time)
Hash(b) == Len(b.R) + 3 * Len(b.lens) + 5 * b.fault.pos + 7 * SumSeq([i \in 1..Len(b.lens) |-> i * b.lens[i]])
InShard(b) == Hash(b) % NShards = Shard

-----------------------------------------------------------------------------
\* what the sender / network make of a behaviour
Network(b) ==
  LET f  == b.fault
      R1 == IF f.kind = "nosoa" THEN <<Rec(0)>> \o Tail(b.R) ELSE b.R
      e0 == [i \in 1..Len(b.lens) |->
               LET e == [Env(Chunks(R1, b.lens)[i]) EXCEPT !.gap = IF f.kind = "stall" /\ f.pos = i THEN TimeoutTicks + 1 ELSE b.pace] IN
               IF f.pos # i THEN e
               ELSE IF f.kind = "rcode" THEN [e EXCEPT !.rcode = 2]
               ELSE IF f.kind = "id" THEN [e EXCEPT !.id = FALSE]
               ELSE e]
      e1 == IF b.tail THEN Append(e0, [Env(<<Rec(77)>>) EXCEPT !.gap = b.pace]) ELSE e0
      keys == [i \in 1..Len(e1) |-> IF f.kind = "wrongkey" /\ f.pos = i THEN KeyBad ELSE KeyGood]
      e2 == IF b.tsig THEN SignAll(e1, keys) ELSE e1
      p  == f.pos
  IN CASE f.kind = "alter"  -> [e2 EXCEPT ![p].recs = Append(@, Rec(88)), ![p].sig = [@ EXCEPT ![4] = 0]]
       [] f.kind = "unsign" -> [e2 EXCEPT ![p].sig = NoSig]
       \* the header ID rewritten after signing, the TSIG's original ID kept: the MAC still verifies (RFC 8945 4.3.2:
       \* it covers the original ID), the envelope nevertheless does not carry the ID of the query
       [] f.kind = "hdrid"  -> [e2 EXCEPT ![p].id = FALSE]
       [] f.kind \in MacKinds -> [e2 EXCEPT ![p].sig = [@ EXCEPT ![4] = IF f.kind \in AmbigKinds THEN 2 ELSE 0]]
       [] f.kind = "drop"   -> SubSeq(e2, 1, p - 1) \o SubSeq(e2, p + 1, Len(e2))
       [] f.kind = "dup"    -> SubSeq(e2, 1, p) \o SubSeq(e2, p, Len(e2))
       [] f.kind = "swap"   -> SubSeq(e2, 1, p - 1) \o <<e2[p + 1], e2[p]>> \o SubSeq(e2, p + 2, Len(e2))
       [] f.kind = "close"  -> SubSeq(e2, 1, p - 1)
       [] f.kind = "cut"    -> Append(SubSeq(e2, 1, p - 1), [e2[p] EXCEPT !.cut = TRUE])
       [] OTHER -> e2

Init == /\ \E t \in Transfers : \E l \in Partitions(Len(t.R)) : \E ts \in TsigModes :
             \E f \in FaultsFor(Len(l), ts) : \E va \in Variants :
               \* the variants only on fault-free behaviours; a stall also in a paced transfer
               /\ (va # Plain => (f.kind = "none" \/ (f.kind = "stall" /\ va = Paced)))
               /\ cfgv = [mode |-> t.mode, q |-> t.q, R |-> t.R, lens |-> l, tsig |-> ts, fault |-> f, tail |-> va.tail,
                          sq |-> va.sq, sa |-> va.sa, pace |-> va.pace]
        /\ InShard(cfgv)
        /\ envs = Network(cfgv)
        /\ r = RInit /\ pos = 1
        /\ taken = <<>> /\ closed = FALSE

\* what the receiver has offered to the channel so far: the delivered envelopes, then the error envelope
Offered == r.delivered \o (IF r.status = "error" THEN << <<-1>> >> ELSE <<>>)
Pending == SubSeq(Offered, Len(taken) + 1, Len(Offered))

\* the receiver reads the next envelope only when the consumer has taken the previous one (unbuffered channel)
Recv == /\ r.status = "more" /\ pos <= Len(envs)
        /\ Pending = <<>>
        /\ r' = [RStep(cfgv.mode, cfgv.q, cfgv.tsig, KeyGood, r, envs[pos]) EXCEPT !.used = pos]
        /\ pos' = pos + 1
        /\ IF Consumer THEN UNCHANGED taken ELSE taken' = Offered'
        /\ UNCHANGED <<cfgv, envs, closed>>

End == /\ r.status = "more" /\ pos > Len(envs)
       /\ Pending = <<>>
       /\ r' = REnd(r)
       /\ IF Consumer THEN UNCHANGED taken ELSE taken' = Offered'
       /\ UNCHANGED <<cfgv, envs, pos, closed>>

\* the consumer takes the offered envelope -- whenever it pleases: between the offer and this action any time may pass
Consume == /\ Consumer /\ Pending # <<>>
        /\ taken' = Append(taken, Head(Pending))
        /\ UNCHANGED <<cfgv, envs, r, pos, closed>>

\* the receiver closes connection and channel once it is through and everything offered was taken
Close == /\ r.status # "more" /\ Pending = <<>> /\ ~closed
         /\ closed' = TRUE
         /\ UNCHANGED <<cfgv, envs, r, pos, taken>>

Finished == closed
Next == Recv \/ End \/ Consume \/ Close \/ (Finished /\ UNCHANGED vars)

-----------------------------------------------------------------------------
AllRecs(es) == Concat([i \in 1..Len(es) |-> es[i]])
K == Len(cfgv.lens)                                  \* envelopes of the transfer proper
Clean == cfgv.fault.kind = "none"
\* the one fault that cannot matter: a duplicate of the closing envelope is never read
Harmless == cfgv.fault.kind = "dup" /\ cfgv.fault.pos = K

\* the stream is a complete transfer and no proper prefix of it is: the end point is unique
UniqueEnd == EndPoint(cfgv.mode, cfgv.q, cfgv.R) = Len(cfgv.R)

\* the machine and the grammar agree at every step of a fault-free run
MachineIsGrammar ==
  Clean => (r.status = "done" <=> (r.delivered # <<>> /\ EndPoint(cfgv.mode, cfgv.q, AllRecs(r.delivered)) # 0))

\* no fault => the whole transfer, in the sender's envelopes, no error, nothing read past the closing SOA
NoFaultNoError ==
  (Finished /\ (Clean \/ Harmless)) =>
     /\ r.status = "done"
     /\ r.delivered = Chunks(cfgv.R, cfgv.lens)
     /\ r.used = K

\* a fault => never "complete and error-free"; everything before the fault was delivered, nothing after
FaultIsReported ==
  (Finished /\ ~Clean /\ ~Harmless) =>
     /\ r.status = IF cfgv.fault.kind \in AmbigKinds THEN "ambig" ELSE "error"
     /\ LET f == cfgv.fault
            honest == Chunks(cfgv.R, cfgv.lens)
            before == IF f.kind = "dup" THEN f.pos ELSE f.pos - 1 IN
        r.delivered = SubSeq(honest, 1, before)

\* the hand-off never loses or reorders anything, however slow the consumer: when the channel closes the consumer
\* holds every delivered envelope and, after them, the error envelope if there is one
Handoff == /\ HandoffOK(Offered, Pending, taken)
           /\ (closed => taken = Offered)

\* the step machine and the functional run agree
RunAgrees == Finished => LET o == Observe(cfgv.mode, cfgv.q, cfgv.tsig, KeyGood, envs) IN
                         /\ o.delivered = r.delivered /\ o.err = (r.status = "error") /\ o.used = r.used
                         /\ o.ambig = (r.status = "ambig")

\* RFC 1982
ASSUME /\ SerialGT(<<0, 5>>, <<65535, 65535>>) /\ ~SerialGT(<<65535, 65535>>, <<0, 5>>)
       /\ SerialGT(<<0, 3>>, <<0, 1>>) /\ ~SerialGT(<<0, 3>>, <<0, 3>>)
       /\ SerialGT(<<32768, 5>>, <<0, 6>>) /\ ~SerialGT(<<0, 6>>, <<32768, 5>>)
       /\ ~SerialGT(<<32768, 5>>, <<0, 4>>) /\ SerialGT(<<0, 4>>, <<32768, 5>>)
       /\ SerialUndef(<<32768, 7>>, <<0, 7>>) /\ ~SerialGT(<<32768, 7>>, <<0, 7>>) /\ ~SerialGT(<<0, 7>>, <<32768, 7>>)
       /\ SDiff(<<1, 0>>, <<0, 1>>) = <<0, 65535>>

Out == (EmitBehaviours /\ Finished) =>
  Emit([kind |-> "xfr", mode |-> cfgv.mode, q |-> cfgv.q, R |-> cfgv.R, lens |-> cfgv.lens, tsig |-> cfgv.tsig,
        fault |-> cfgv.fault, tail |-> cfgv.tail, sq |-> cfgv.sq, sa |-> cfgv.sa, pace |-> cfgv.pace, timeout |-> TimeoutTicks, stall |-> TimeoutTicks + 1,
        delivered |-> r.delivered, err |-> r.status = "error", ambig |-> r.status = "ambig", used |-> r.used])
=============================================================================
