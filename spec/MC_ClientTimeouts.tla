-------------------------- MODULE MC_ClientTimeouts --------------------------
(* ClientTimeouts.tla on itself: every combination of symbolic durations       *)
(* 0 (unset) < Default < A < B < C, one state per case.                         *)
EXTENDS ClientTimeouts

A == 3600000
B == 10800000
C == 32400000
D == {0, A, B, C}
Small == 1500               \* below the default, to cross it

VARIABLE s
Sizes == {0, 511, 512, 513, 1232, 4096, 65535}

Init == s \in [timeout : D \cup {Small}, dial : D, read : D \cup {Small}, write : D, dialer : D \cup {-1, Small}, ctx : D \cup {Small}]
Next == UNCHANGED s

With(f, v) == [s EXCEPT ![f] = v]

TypeOK == IsSettings(s)

NothingSet == s.timeout = 0 /\ s.dialer <= 0 =>
                \A k \in Kinds : s[k] = 0 => Request(s, k) = Default

TimeoutOverrides == s.timeout # 0 =>
                      /\ \A k \in Kinds : Base(s, k) = s.timeout
                      /\ Request(s, "read") = Request(s, "write") /\ Request(s, "read") = Request(s, "dial")
                      /\ \A k \in Kinds, v \in D : Request(With(k, v), k) = Request(s, k)      \* the own setting no longer matters

OwnSetting == s.timeout = 0 => \A k \in Kinds : s[k] # 0 => Base(s, k) = s[k]

DialerPriority == \A k \in Kinds :
                    /\ Request(s, k) <= Base(s, k)
                    /\ s.dialer > 0 => Request(s, k) <= s.dialer
                    /\ Request(s, k) \in {Base(s, k), s.dialer}
                    /\ s.dialer <= 0 => Request(s, k) = Base(s, k)
                    /\ Request(s, k) > 0

Independent == /\ \A v \in D : Request(With("write", v), "read") = Request(s, "read")
               /\ \A v \in D : Request(With("dial", v), "read") = Request(s, "read")
               /\ \A v \in D : Request(With("read", v), "write") = Request(s, "write")
               /\ \A v \in D : Request(With("ctx", v), "write") = Request(s, "write")

ContextEarliest == /\ s.ctx = 0 => ReadDeadline(s) = Request(s, "read") /\ WriteDeadline(s) = Request(s, "write")
                   /\ s.ctx # 0 => /\ ReadDeadline(s) <= s.ctx /\ WriteDeadline(s) <= s.ctx
                                   /\ ReadDeadline(s) \in {s.ctx, Request(s, "read")}
                                   /\ ReadDeadline(s) <= Request(s, "read")
                   /\ ReadDeadline(s) > 0 /\ WriteDeadline(s) > 0        \* an exchange always has both deadlines

Monotone == \A f \in {"read", "timeout", "ctx"}, v \in D :
               (s[f] # 0 /\ v >= s[f]) => ReadDeadline(With(f, v)) >= ReadDeadline(s)

Dial == /\ DialDeadlines(s) # {} /\ Cardinality(DialDeadlines(s)) <= 2
        /\ s.dialer = -1 => DialDeadlines(s) = { Earliest(Base(s, "dial"), s.ctx) }
        /\ (s.dialer > 0 /\ s.dialer <= Base(s, "dial")) => Cardinality(DialDeadlines(s)) = 1     \* the readings agree
        /\ \A d \in DialDeadlines(s) : (s.ctx # 0 => d # NoDeadline /\ d <= s.ctx)
        /\ s.dialer # 0 => NoDeadline \notin DialDeadlines(s)

Buffers == \A o \in BOOLEAN, os \in Sizes, cl \in Sizes, co \in Sizes :
             LET S == BufSizes(o, os, cl, co) IN
             /\ S # {} /\ \A b \in S : b >= MinMsgSize
             /\ (o /\ os >= 512) => S = {os}
             /\ (~o /\ cl >= 512) => S = {cl}
             /\ (~o /\ cl < 512 /\ co <= 512) => S = {512}               \* "fallback to the historic limit of 512 bytes"
=============================================================================
