-------------------------- MODULE MC_ClientConfig --------------------------
(* ClientConfig.tla on itself: every sequence of at most MaxLines lines of the  *)
(* alphabet under every policy; every name shape x ndots x search list.         *)
EXTENDS ClientConfig

CONSTANT MaxLines

VARIABLES kind, ls, pol, nm, nd, sl

Seqs == UNION { [1..k -> 1..Len(LineAlphabet)] : k \in 0..MaxLines }
LinesOf(q) == [i \in 1..Len(q) |-> LineAlphabet[q[i]]]

Names == { [labels |-> l, fq |-> f] : l \in { <<"a">>, <<"a", "b">>, <<"a", "b", "c">> }, f \in BOOLEAN } \cup { [labels |-> <<>>, fq |-> TRUE] }
SearchLists == { <<>>, <<ExOrg>>, <<ExOrg, SubDot>>, <<Root>>, <<SubDot, Root, ExOrg>> }

Init == \/ kind = "parse" /\ ls \in Seqs /\ pol \in Pols /\ nm = [labels |-> <<>>, fq |-> TRUE] /\ nd = 0 /\ sl = <<>>
        \/ kind = "names" /\ ls = <<>> /\ pol = [cap |-> TRUE, bare |-> TRUE, lws |-> TRUE] /\ nm \in Names /\ nd \in 0..4 /\ sl \in SearchLists
Next == UNCHANGED <<kind, ls, pol, nm, nd, sl>>

C == ParseConf(LinesOf(ls), pol)
Effective(ln) == ~(ln.toks = <<>> \/ IsComment(ln) \/ (ln.ws /\ ~pol.lws) \/ ln.toks[1].k # "word"
                   \/ ln.toks[1].s \notin {"nameserver", "domain", "search", "options"})
IsKw(ln, kw) == Effective(ln) /\ ln.toks[1].s = kw

ParseInv ==
  kind = "parse" =>
    LET L == LinesOf(ls)  c == C IN
    /\ c.port = "53" /\ c.ndots \in 0..15 /\ c.timeout >= 1 /\ c.attempts >= 1
    /\ (pol.cap => c.timeout <= 30 /\ c.attempts <= 5)
    \* lines without effect can be dropped
    /\ c = ParseConf(SelectSeq(L, Effective), pol)
    \* one server per nameserver line that has a value, in order
    /\ Len(c.servers) = Cardinality({ i \in 1..Len(L) : IsKw(L[i], "nameserver") /\ Len(L[i].toks) > 1 })
    \* the last domain / search line that has a value decides the search list
    /\ LET S == { i \in 1..Len(L) : (IsKw(L[i], "domain") \/ IsKw(L[i], "search")) /\ (pol.bare \/ Len(L[i].toks) > 1) } IN
       IF S = {} THEN c.search = <<>>
       ELSE LET i == CHOOSE x \in S : \A y \in S : y <= x IN
            c.search = (IF IsKw(L[i], "domain") THEN SubSeq(L[i].toks, 2, Min2(2, Len(L[i].toks))) ELSE Tail(L[i].toks))
    \* nothing but options lines moves the numbers
    /\ (\A i \in 1..Len(L) : ~IsKw(L[i], "options")) => c.ndots = 1 /\ c.timeout = 5 /\ c.attempts = 2
    \* reading in two parts = reading at once
    /\ \A k \in 0..Len(L) : Fold(Fold(Default, SubSeq(L, 1, k), pol), SubSeq(L, k + 1, Len(L)), pol) = c
    /\ CfgText(c) \in Admissible(L)
    /\ ~ReadFails(L, Len(L) + 1) /\ (L # <<>> => ReadFails(L, 1))

NamesInv ==
  kind = "names" =>
    LET r == NameList(nd, sl, nm) IN
    /\ (nm.fq => r = <<Fq(nm.labels)>>)
    /\ (~nm.fq => /\ Len(r) = Len(sl) + 1
                  /\ (IF Len(nm.labels) - 1 >= nd THEN r[1] ELSE r[Len(r)]) = Fq(nm.labels)
                  /\ \A i \in 1..Len(sl) : sl[i] = Root => r[(IF Len(nm.labels) - 1 >= nd THEN 1 ELSE 0) + i] = Fq(nm.labels))
    /\ (nd = 0 /\ ~nm.fq => r[1] = Fq(nm.labels))
=============================================================================
