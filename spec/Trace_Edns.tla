----------------------------- MODULE Trace_Edns -----------------------------
(* Events recorded from the real code (harness `edns record`), judged by       *)
(* Edns.tla.  All events are pure-function observations.                        *)
(*  step      one setter call on a live *dns.OPT: header before, operation,     *)
(*            everything readable after                                         *)
(*  setedns0  Msg.SetEdns0 on a message with n additional records               *)
(*  pack      Msg.Pack of a message whose additional section is `shape'         *)
(*  unpack    Msg.Unpack of octets (a packed message with the RCODE nibble and  *)
(*            the OPT's CLASS / TTL octets overwritten at random)               *)
EXTENDS Edns, TraceBase

VARIABLE l
Ev == Trace[l]

IsView(x) == DOMAIN x = {"w", "c", "do", "co", "z", "ver", "xr", "udp"} /\ Len(x.w) = 4

StepOK(e) ==
  /\ e.op \in OpNames /\ IsView(e.post)
  /\ ViewMatches(View(Apply(OfWord(e.pre.w, e.pre.c), [op |-> e.op, v |-> e.v, bs |-> e.bs])), e.post)

ARec == [name |-> << <<97>> >>, type |-> 1, class |-> 1, ttl |-> <<0, 0, 14, 16>>, nodata |-> FALSE, f |-> [A |-> <<192, 0, 2, 1>>]]
Q == [name |-> << <<97>> >>, qtype |-> 1, qclass |-> 1]
MHdr(rcode) == [id |-> 4660, qr |-> TRUE, opcode |-> 0, aa |-> FALSE, tc |-> FALSE, rd |-> TRUE, ra |-> TRUE,
                z |-> FALSE, ad |-> FALSE, cd |-> FALSE, rcode |-> rcode]
MsgOf(e) == [hdr |-> MHdr(e.rcode), q |-> <<Q>>, an |-> <<ARec>>, ns |-> <<>>,
             ar |-> [i \in 1..Len(e.shape) |-> IF e.shape[i] = "o" THEN OptRR(OfWord(e.w0, e.c0)) ELSE ARec]]

SetEdns0OK(e) ==
  LET m0 == [hdr |-> MHdr(0), q |-> <<>>, an |-> <<>>, ns |-> <<>>, ar |-> [i \in 1..e.n |-> ARec]]
      m  == SetEdns0(m0, e.udp, e.do)
      ix == IsEdns0(m)
  IN /\ e.n2 = Len(m.ar) /\ e.idx = ix
     /\ e.name = Present(m.ar[ix].name) /\ e.type = m.ar[ix].type /\ e.nopts = 0
     /\ Len(e.view) = 1 /\ IsView(e.view[1]) /\ ViewMatches(View(HdrOfRR(m.ar[ix])), e.view[1])

PackOK(e) ==
  LET m == MsgOf(e)  ix == IsEdns0(m) IN
  /\ e.idx = ix
  /\ e.ok = Packable(m)
  /\ e.ok => /\ e.wire = EncMsg(m)
             /\ IF ix = 0 THEN e.after = <<>>
                ELSE Len(e.after) = 1 /\ IsView(e.after[1]) /\ ViewMatches(View(HdrOfRR(AfterPack(m).ar[ix])), e.after[1])

UnpackOK(e) ==
  LET d == DecMsg(e.wire) IN
  IF ~d.ok THEN TRUE                     \* not in this module's scope (C01 / C02 judge the decoder proper)
  ELSE /\ e.ok
       /\ e.rcode = d.msg.hdr.rcode
       /\ LET S == { i \in 1..Len(d.msg.ar) : d.msg.ar[i].type = TypeOPT }
              ix == IF S = {} THEN 0 ELSE CHOOSE i \in S : \A j \in S : j <= i
          IN /\ e.idx = ix
             /\ IF ix = 0 THEN e.view = <<>>
                ELSE Len(e.view) = 1 /\ IsView(e.view[1])
                     /\ ViewMatches(View(OfWord(d.msg.ar[ix].ttl, d.msg.ar[ix].class)), e.view[1])

Judge(e) == CASE e.ev = "step"     -> StepOK(e)
              [] e.ev = "setedns0" -> SetEdns0OK(e)
              [] e.ev = "pack"     -> PackOK(e)
              [] e.ev = "unpack"   -> UnpackOK(e)
              [] OTHER -> FALSE

Init == l = 1 /\ HWInit
Next == /\ l <= Len(Trace)
        /\ IF Judge(Ev) THEN TRUE ELSE MarkBad(l)
        /\ HW(l)
        /\ l' = l + 1
=============================================================================
