---------------------------- MODULE Trace_Server ----------------------------
(* Validates event sequences recorded from the real dns.Server (harness        *)
(* `server record|replay|restart') against Server.tla.                          *)
(*                                                                            *)
(* Every event is `IsEvent /\ Action': the recorded step must be a step of the  *)
(* specification from the current state, with the recorded arguments and        *)
(* results.  An event no action accepts stops the cursor: the trace is          *)
(* rejected at that line (high-water mark, TraceBase).                          *)
(*                                                                            *)
(* Unlogged steps (no hook can see them) are taken silently, each only right    *)
(* before the event that needs it, so validation stays near-deterministic:      *)
(*   StLock      before start.started of the same call (a refused start is one   *)
(*               step: lock, check, deferred unlock -- StRefusedAll)             *)
(*   ShCapture   `select' evaluates srv.shutdown: before a start.started (the    *)
(*               only event that changes the field), before the call's own      *)
(*               return, or at a quiescence report                               *)
(*   ShWake/ShCtx before the call's return (tcp) / its PacketConn.Close (pc)     *)
(*   USpawn      wg.Add; go serveUDPPacket: before the loop's next check or the  *)
(*               packet's handler                                                *)
(*   SCloseChan  its panicking branch (close of a closed channel); and the       *)
(*               normal close when its effect is observed first: the hook runs   *)
(*               after close(), so the woken Shutdown may report its return      *)
(*               before serve.chanclosed is logged (`early' remembers it)        *)
(*   TFire/TFirePC (DeadlinesMayFire) the instant a read deadline names has      *)
(*               come: right before the read that reports the timeout            *)
(*                                                                            *)
(* Calls and time (environment, nothing of the server's state changes):          *)
(*   shutdown.call  v = 1: the caller uses Shutdown(), the entry without a       *)
(*               context (`plain'): no ctx.expire can follow, so its wait ends   *)
(*               through ShWake only -- a return with any other result, or       *)
(*               before the drain, has no step (PlainShutdownWaits)              *)
(*   time.elapse the harness let v milliseconds of wall time pass (more than     *)
(*               every timeout the server is configured with or defaults to)     *)
(*                                                                            *)
(* Properties that are not enforced by guards (the specification itself admits   *)
(* the restart-during-shutdown behaviour) are evaluated on every state of the    *)
(* accepted explanation; a name is reported only if EVERY explanation that       *)
(* consumes the whole trace violates it (register 3).                            *)
EXTENDS Server, TraceBase

CONSTANT Loose     \* TRUE for runs on a real UDP socket: no fakenet, so reads, deadline moves and the close of
                   \* the packet conn are not reported and are taken silently wherever the specification allows

VARIABLES l, viol, ctxExp, fin, early, badCall, plain

tvars == <<l, viol, ctxExp, fin, early, badCall, plain>>

Ev == Trace[l]
Is(name) == Ev.ev = name
More == l <= Len(Trace)

-----------------------------------------------------------------------------
InvNames == {"GracefulReturn", "RepliesDelivered", "ServeReturnsNil", "LockDiscipline", "NoCrash",
             "PromptUnblock", "NothingLeft"}
Holds(n) == CASE n = "GracefulReturn"   -> GracefulReturn
              [] n = "RepliesDelivered" -> RepliesDelivered
              [] n = "ServeReturnsNil"  -> ServeReturnsNil
              [] n = "LockDiscipline"   -> LockDiscipline
              [] n = "NoCrash"          -> NoCrash
              [] n = "PromptUnblock"    -> PromptUnblock
              [] n = "NothingLeft"      -> NothingLeft
Broken == { n \in InvNames : ~Holds(n) }

\* a handler entered although a shutdown of its generation had returned normally
LateEnterC(c) == \E h \in H : shpc[h] = "returned" /\ shres[h] = "ok" /\ c \in GenWorkers(shgen[h])
LateEnterK(k) == \E h \in H : shpc[h] = "returned" /\ shres[h] = "ok" /\ k \in GenPackets(shgen[h])

\* every fair (server-side) action: what can still move without the environment
ServerFair == \/ \E p \in P : StBody(p) \/ StErrReturn(p) \/ ServeStep(p)
              \/ \E c \in C : WorkerFair(c)
              \/ \E k \in K : PacketStep(k)
              \/ \E h \in H : ShKickPC(h) \/ ShCloseL(h) \/ (\E c \in C : ShKick(h, c)) \/ ShUnlock(h) \/ ShCapture(h) \/ ShWake(h) \/ ShClosePC(h)

-----------------------------------------------------------------------------
(* composites and trace-only steps                                           *)

KStartEnter(k) ==                 \* gate.pkt.start is not logged: KStart then KEnter
  /\ kpc[k] = "spawned"
  /\ kpc' = [kpc EXCEPT ![k] = "inh"]
  /\ UNCHANGED <<fields, transp, svars, wvars, kown, nread, shvars, cvars, hist, act>>

TransportClosedByServe(p) ==      \* defer l.Close() of the serve call, reported by fakenet before the call returns
  /\ spc[p] = "closed"
  /\ IF Mode = "tcp" THEN lsnOpen' = [lsnOpen EXCEPT ![slsn[p]] = FALSE] /\ UNCHANGED pcOpen
                     ELSE pcOpen' = FALSE /\ UNCHANGED lsnOpen
  /\ UNCHANGED <<fields, pend, pcDL, pcWDL, pin, svars, wvars, kvars, shvars, cvars, hist, act>>

(* Init with every variable primed (TLC cannot prime a defined state predicate); generated from Server!Init *)
ResetAll ==
  /\ started' = FALSE /\ lock' = NoLock /\ gen' = 0 /\ closed' = {} /\ conns' = {}
  /\ lsnField' = IF Mode = "tcp" THEN 1 ELSE 0      \* the harness assigned listener 1 before the first call
  /\ cfgBad' = FALSE
  /\ pcField' = (Mode = "pc")                        \* srv.PacketConn # nil
  /\ lsnOpen' = [ll \in Lsn |-> TRUE] /\ pend' = [ll \in Lsn |-> {}]
  /\ pcOpen' = TRUE /\ pcDL' = "none" /\ pcWDL' = "none" /\ pin' = 0
  /\ spc' = [p \in P |-> "idle"] /\ sgen' = [p \in P |-> 0] /\ sres' = [p \in P |-> "-"]
  /\ wg' = [p \in P |-> 0] /\ scur' = [p \in P |-> 0] /\ serr' = [p \in P |-> "-"] /\ slsn' = [p \in P |-> 0]
  /\ sbad' = [p \in P |-> FALSE]
  /\ wpc' = [c \in C |-> "none"] /\ wown' = [c \in C |-> 0] /\ dl' = [c \in C |-> "none"] /\ wdl' = [c \in C |-> "none"]
  /\ copen' = [c \in C |-> TRUE] /\ hrep' = [c \in C |-> FALSE] /\ hclosed' = [c \in C |-> FALSE] /\ hij' = [c \in C |-> FALSE]
  /\ kpc' = [k \in K |-> "none"] /\ kown' = [k \in K |-> 0] /\ nread' = 0
  /\ shpc' = [h \in H |-> "idle"] /\ shres' = [h \in H |-> "-"] /\ shgen' = [h \in H |-> 0]
  /\ capt' = [h \in H |-> 0] /\ kick' = [h \in H |-> {}] /\ shseen' = [h \in H |-> {}] /\ shtodo' = [h \in H |-> {}]
  /\ cst' = [c \in C |-> "new"] /\ csent' = [c \in C |-> 0] /\ inbox' = [c \in C |-> 0] /\ psent' = 0
  /\ replyLost' = FALSE /\ crashed' = "-" /\ act' = <<>>

Same == UNCHANGED vars

StFailedAll(p) ==                 \* a start that failed before serving: StLock, StBody (failed: init() ran, started
  /\ spc[p] = "idle" /\ Free /\ ~started          \* untouched), StErrReturn.  No hook sits on those paths; the harness
  /\ cfgBad \/ p \in badCall                       \* makes such calls only while no other call is in progress, and logs
  /\ gen' = gen + 1 /\ conns' = {}                 \* the return.
  /\ spc' = [spc EXCEPT ![p] = "returned"]
  /\ sres' = [sres EXCEPT ![p] = "fail"]
  /\ sbad' = [sbad EXCEPT ![p] = p \in badCall]
  /\ UNCHANGED <<started, lock, closed, lsnField, cfgBad, pcField, transp, sgen, wg, scur, serr, slsn, wvars, kvars, shvars, cvars, hist, act>>

StRefusedAll(p) ==                \* StLock, StBody (refused), StErrReturn: one lock hold, reported from inside it;
  /\ spc[p] = "idle" /\ Free /\ started    \* the harness logs the return only later
  /\ spc' = [spc EXCEPT ![p] = "returned"]
  /\ sres' = [sres EXCEPT ![p] = "already"]
  /\ UNCHANGED <<fields, transp, sgen, wg, scur, serr, slsn, sbad, wvars, kvars, shvars, cvars, hist, act>>

EventStep ==
  \/ Is("start.started")  /\ Ev.p \in P /\ StBody(Ev.p) /\ spc'[Ev.p] = "notify"
  \/ Is("notify.enter")   /\ Ev.p \in P /\ spc[Ev.p] = "notify" /\ Same     \* NotifyStartedFunc entered ...
  \/ Is("notify.exit")    /\ Ev.p \in P /\ SNotify(Ev.p)                     \* ... and returned
  \/ Is("handler.hijack") /\ Ev.c \in C /\ WHijack(Ev.c)
  \/ Is("start.refused")  /\ Ev.p \in P /\ StRefusedAll(Ev.p)
  \/ Is("serve.returned") /\ Ev.p \in P /\
        CASE Ev.res = "already" -> spc[Ev.p] = "returned" /\ sres[Ev.p] = "already" /\ Same
          [] Ev.res = "fail"    -> StFailedAll(Ev.p)
          [] OTHER              -> SReturn(Ev.p) /\ sres[Ev.p] = Ev.res
  \/ Is("h.sparepc")      /\ HSparePC
  \/ Is("h.sparelsn")     /\ HSpareLsn(Ev.l)
  \/ Is("h.clearpc")      /\ HClearPC
  \/ Is("h.break")        /\ HBreak
  \/ Is("h.fix")          /\ HFix
  \/ Is("s.isstarted")    /\ Ev.p \in P /\ (Ev.v = 1) = started /\ (SCheck(Ev.p) \/ SErrCheck(Ev.p))
  \/ Is("lsn.accept")     /\ Ev.p \in P /\
        IF Ev.res = "ok" THEN SAcceptOk(Ev.p) /\ scur'[Ev.p] = Ev.c /\ slsn[Ev.p] = Ev.l
                         ELSE SAcceptErr(Ev.p) /\ slsn[Ev.p] = Ev.l
  \/ Is("conn.reg")       /\ Ev.p \in P /\ scur[Ev.p] = Ev.c /\ SRegister(Ev.p)
  \/ Is("w.start")        /\ Ev.c \in C /\ WStart(Ev.c)
  \/ Is("w.isstarted")    /\ Ev.c \in C /\ (Ev.v = 1) = started /\ WLoop(Ev.c)
  \/ Is("conn.setdl")     /\ Ev.c \in C /\
        CASE Ev.res = "past"   -> \/ Ev.h \in H /\ ShKick(Ev.h, Ev.c)
                                  \* time: the reader's own (short) deadline had come before the call that sets it got through
                                  \/ DeadlinesMayFire /\ Ev.h = 0 /\ wpc[Ev.c] = "rdl" /\ started /\ Free /\ Same
          [] Ev.res = "future" -> Ev.h = 0 /\ wpc[Ev.c] = "rdl" /\ started /\ Free /\ Same   \* only `if srv.started'
          [] OTHER -> FALSE
  \/ Is("read.dl")        /\ (Ev.v = 1) = started /\
        IF Ev.c # 0 THEN Ev.c \in C /\ WSetDeadline(Ev.c) ELSE Ev.p \in P /\ URdl(Ev.p)
  \/ Is("conn.read")      /\ Ev.c \in C /\
        CASE Ev.res = "ok"      -> WReadOk(Ev.c)
          [] Ev.res = "timeout" -> WReadTimeout(Ev.c)
          [] OTHER              -> WReadEOF(Ev.c)
  \/ Is("handler.enter")  /\ IF Ev.c # 0 THEN Ev.c \in C /\ WHandlerEnter(Ev.c) ELSE Ev.k \in K /\ KStartEnter(Ev.k)
  \/ Is("conn.write")     /\ Ev.c \in C /\ WReply(Ev.c) /\ (Ev.res = "ok") = (copen[Ev.c] /\ wdl[Ev.c] # "past" /\ cst[Ev.c] # "closed")
  \/ Is("conn.close")     /\ Ev.c \in C /\ (IF wpc[Ev.c] = "inh" THEN WHClose(Ev.c) ELSE WClose(Ev.c))
  \/ Is("handler.exit")   /\ IF Ev.c # 0 THEN Ev.c \in C /\ WHandlerExit(Ev.c) ELSE Ev.k \in K /\ KExit(Ev.k)
  \/ Is("pc.write")       /\ Ev.k \in K /\ KReply(Ev.k) /\ (Loose \/ (Ev.res = "ok") = (pcOpen /\ pcWDL # "past"))
  \/ Is("conn.unreg")     /\ Ev.c \in C /\ WUnreg(Ev.c)
  \/ Is("worker.exit")    /\ IF Ev.c # 0 THEN Ev.c \in C /\ WExit(Ev.c) ELSE Ev.k \in K /\ KGone(Ev.k)
  \/ Is("serve.drained")  /\ Ev.p \in P /\ SDrain(Ev.p)
  \/ Is("serve.chanclosed") /\ Ev.p \in P /\ Ev.p \notin early /\ gen \notin closed /\ SCloseChan(Ev.p)
  \/ Is("shutdown.begin")   /\ Ev.h \in H /\ started /\ ShBegin(Ev.h)
  \/ Is("shutdown.refused") /\ Ev.h \in H /\ ~started /\ ShBegin(Ev.h)
  \/ Is("lsn.close")      /\ IF Ev.h # 0 THEN Ev.h \in H /\ lsnField = Ev.l /\ ShCloseL(Ev.h)
                             ELSE Ev.p \in P /\ slsn[Ev.p] = Ev.l /\ TransportClosedByServe(Ev.p)
  \/ Is("pc.setdl")       /\
        CASE Ev.res = "past"   -> \/ Ev.h \in H /\ ShKickPC(Ev.h)
                                  \/ DeadlinesMayFire /\ Ev.h = 0 /\ Ev.p \in P /\ spc[Ev.p] = "rdl" /\ started /\ Free /\ Same
          [] Ev.res = "future" -> Ev.p \in P /\ spc[Ev.p] = "rdl" /\ started /\ Free /\ Same
          [] OTHER -> FALSE
  \/ Is("pc.read")        /\ Ev.p \in P /\
        IF Ev.res = "ok" THEN UReadOk(Ev.p) /\ scur'[Ev.p] = Ev.k
                         ELSE UReadErr(Ev.p) /\ serr'[Ev.p] = Ev.res
  \/ Is("pc.close")       /\ IF Ev.h # 0 THEN Ev.h \in H /\ ShClosePC(Ev.h) ELSE Ev.p \in P /\ TransportClosedByServe(Ev.p)
  \/ Is("shutdown.unlock")   /\ Ev.h \in H /\ ShUnlock(Ev.h)
  \/ Is("shutdown.returned") /\ Ev.h \in H /\ shpc[Ev.h] = "returned" /\ shres[Ev.h] = Ev.res /\ Same
  \/ Is("h.setlistener")  /\ HSetListener(Ev.l)
  \/ Is("cli.connect")    /\ Ev.c \in C /\ Ev.l \in Lsn /\ CConnect(Ev.c, Ev.l)
  \/ Is("cli.send")       /\ Ev.c \in C /\ CSend(Ev.c)
  \/ Is("cli.close")      /\ Ev.c \in C /\ CClose(Ev.c)
  \/ Is("cli.pkt")        /\ CSendPkt

Silent ==
  \/ Is("start.started") /\ Ev.p \in P /\ StLock(Ev.p, Ev.p \in badCall)
  \/ \E h \in H : /\ \/ Is("start.started")
                     \/ Is("quiescent")
                     \/ ((Is("shutdown.returned") \/ Is("pc.close")) /\ Ev.h = h)
                  /\ ShCapture(h)
  \/ /\ (Is("shutdown.returned") /\ ~HasPC) \/ (Is("pc.close") /\ HasPC)
     /\ Ev.h \in H
     /\ ShWake(Ev.h) \/ (Ev.h \in ctxExp /\ Ev.h \notin plain /\ ShCtx(Ev.h))
  \/ \E p \in P : /\ Mode = "pc" /\ spc[p] = "got"
                  /\ ((Is("s.isstarted") \/ Is("pc.read") \/ Is("read.dl")) /\ Ev.p = p) \/ (Is("handler.enter") /\ Ev.k = scur[p])
                  /\ USpawn(p)
  \/ \E p \in P : /\ gen \in closed
                  /\ (Is("serve.returned") \/ Is("lsn.close") \/ Is("pc.close")) /\ Ev.p = p
                  /\ SCloseChan(p)
  \/ /\ Loose /\ Mode = "pc"
     /\ \/ \E p \in P : UReadOk(p) \/ USpawn(p)                                   \* any time
        \/ Is("s.isstarted") /\ Ev.p \in P /\ UReadErr(Ev.p)                       \* a failed read shows in the re-check
        \/ (Is("shutdown.unlock") \/ Is("lsn.close")) /\ Ev.h \in H /\ ShKickPC(Ev.h)  \* the deadline move, lock held
        \/ Is("shutdown.returned") /\ Ev.h \in H /\
              (ShWake(Ev.h) \/ (Ev.h \in ctxExp /\ Ev.h \notin plain /\ ShCtx(Ev.h)) \/ ShClosePC(Ev.h))
  \/ /\ DeadlinesMayFire                                  \* time: the deadline has come, the read reports it
     /\ \/ Is("conn.read") /\ Ev.res = "timeout" /\ Ev.c \in C /\ TFire(Ev.c)
        \/ Is("pc.read") /\ Ev.res = "timeout" /\ TFirePC
        \/ Loose /\ Is("s.isstarted") /\ Ev.p \in P /\ spc[Ev.p] = "read" /\ TFirePC

-----------------------------------------------------------------------------
TInit == Init /\ l = 1 /\ viol = {} /\ ctxExp = {} /\ fin = FALSE /\ early = {} /\ badCall = {} /\ plain = {} /\ HWInit /\ TLCSet(3, <<FALSE, {}>>)

Late == IF Is("handler.enter") /\ (IF Ev.c # 0 THEN Ev.c \in C /\ LateEnterC(Ev.c) ELSE Ev.k \in K /\ LateEnterK(Ev.k))
        THEN {"NoHandlerStartAfterShutdownReturned"} ELSE {}

TNext ==
  \/ /\ More /\ Is("reset")                       \* next run: a fresh server
     /\ ResetAll /\ ctxExp' = {} /\ early' = {} /\ badCall' = {} /\ plain' = {} /\ HW(l) /\ l' = l + 1 /\ UNCHANGED <<viol, fin>>
  \/ /\ More /\ Is("start.call")                  \* v = 1: a call that cannot succeed (ListenAndServe, unusable Net / address)
     /\ badCall' = IF Ev.v = 1 THEN badCall \cup {Ev.p} ELSE badCall
     /\ Same /\ HW(l) /\ l' = l + 1 /\ UNCHANGED <<viol, ctxExp, fin, early, plain>>
  \/ /\ More /\ Is("shutdown.call")             \* v = 1: Shutdown(), no context
     /\ plain' = IF Ev.v = 1 THEN plain \cup {Ev.h} ELSE plain
     /\ Same /\ HW(l) /\ l' = l + 1 /\ UNCHANGED <<viol, ctxExp, fin, early, badCall>>
  \/ /\ More /\ Is("time.elapse")               \* wall time passed; the server's state does not depend on it
     /\ Same /\ HW(l) /\ l' = l + 1 /\ UNCHANGED <<viol, ctxExp, fin, early, badCall, plain>>
  \/ /\ More /\ Is("ctx.expire") /\ Ev.h \notin plain
     /\ ctxExp' = ctxExp \cup {Ev.h} /\ Same /\ HW(l) /\ l' = l + 1 /\ UNCHANGED <<viol, fin, early, badCall, plain>>
  \/ /\ More /\ Is("quiescent")                   \* the harness saw every goroutine blocked
     /\ \A h \in H : shpc[h] # "select"            \* (all silent captures taken)
     /\ ~ENABLED ServerFair                        \* an explanation in which the server could still move is refuted
     /\ viol' = viol \cup (IF \E h \in H : shpc[h] = "wait" THEN {"ShutdownTerminates"} ELSE {})
     /\ Same /\ HW(l) /\ l' = l + 1 /\ UNCHANGED <<ctxExp, fin, early, badCall, plain>>
  \/ /\ More /\ EventStep
     /\ viol' = viol \cup Broken' \cup Late
     /\ HW(l) /\ l' = l + 1 /\ UNCHANGED <<ctxExp, fin, early, badCall, plain>>
  \/ /\ More /\ Silent
     /\ viol' = viol \cup Broken'
     /\ UNCHANGED <<l, ctxExp, fin, early, badCall, plain>>
  \/ /\ More /\ \E p \in P :                      \* the close whose effect is seen before its hook
          /\ spc[p] = "drained" /\ gen \notin closed
          /\ Is("shutdown.returned") \/ Is("pc.close") \/ Is("serve.returned") \/ Is("quiescent")
          /\ SCloseChan(p)
          /\ early' = early \cup {p}
     /\ viol' = viol \cup Broken'
     /\ UNCHANGED <<l, ctxExp, fin, badCall, plain>>
  \/ /\ More /\ Is("serve.chanclosed") /\ Ev.p \in early
     /\ early' = early \ {Ev.p}
     /\ Same /\ HW(l) /\ l' = l + 1 /\ UNCHANGED <<viol, ctxExp, fin, badCall, plain>>
  \/ /\ ~More /\ ~fin
     /\ TLCSet(3, <<TRUE, IF TLCGet(3)[1] THEN TLCGet(3)[2] \cap viol ELSE viol>>)
     /\ fin' = TRUE /\ Same /\ UNCHANGED <<l, viol, ctxExp, early, badCall, plain>>

Done == /\ PrintT("VP:inv=" \o ToJson(TLCGet(3)[2]))
        /\ Accepted
=============================================================================
