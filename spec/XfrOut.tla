------------------------------- MODULE XfrOut -------------------------------
(* The OUTGOING side of a zone transfer: Transfer.Out(w, q, ch) of xfr.go, as a *)
(* state machine with one action per envelope taken from the channel.           *)
(*                                                                              *)
(*   for x := range ch:  reply to q, AA set, Answer = x.RR, signed when the     *)
(*                       request carried a TSIG that verified; w.WriteMsg;      *)
(*                       an error ends Out at once with that error;             *)
(*   channel closed and drained: Out returns nil.                               *)
(*                                                                              *)
(* What is stated (xfr.go: the comment of Out and its use pattern -- "wg.Wait() *)
(* // wait until everything is written out" --; RFC 5936 2.2, 3, 4.1; RFC 8945  *)
(* 5.3.1):                                                                      *)
(*   O1  one message per envelope, in channel order; every message is a reply   *)
(*       to q: its ID, QR = 1, the opcode, (QUERY: RD and CD copied), AA = 1,   *)
(*       RCODE 0, q's first question, the envelope's records IN ORDER as the    *)
(*       answer section, nothing else; on a stream: two length octets first,    *)
(*       one Write per message                                                  *)
(*   O2  Out returns nil only after the channel is closed and every envelope    *)
(*       put on it was written                                                  *)
(*   O3  Out returns the first error (a message that does not fit a stream      *)
(*       frame, a transport that refuses the write) and nothing is written      *)
(*       after it; the envelope that failed is not on the wire                  *)
(*   O4  while the channel is open and empty Out waits: a producer that leaves  *)
(*       without closing leaves Out waiting (it never returns)                  *)
(*   O5  TSIG (RFC 8945 5.3.1): for a request whose TSIG verified every message *)
(*       is signed with the request's key / algorithm / fudge and original ID;  *)
(*       the first MAC covers the request MAC and the full variables, every     *)
(*       later one the previous MAC and the timers only; a request without      *)
(*       TSIG is answered without.                                              *)
(*       For a request whose TSIG did NOT verify, or was never checked (no      *)
(*       secret configured), nothing signed can be sent: a message then either  *)
(*       carries no TSIG record at all, or Out refuses (AMBIG: Out leaves the   *)
(*       BADSIG / BADKEY answer of RFC 8945 5.2 to its caller).                 *)
(*   AMBIG  Envelope.Error is documented for the receiving side only ("If       *)
(*       something went wrong, this contains the error"); on the sending side   *)
(*       Out may ignore it (sending the envelope's records) or end with an      *)
(*       error without sending.                                                 *)
(* The same operators serve MC_XfrOut (producer and faults nondeterministic),   *)
(* Gen_XfrOut (every script <= 3 envelopes x fault position) and Trace_XfrOut   *)
(* (events of a real Transfer.Out behind a real dns.Server).                    *)
EXTENDS Tsig

-----------------------------------------------------------------------------
(* The request, as far as Out uses it:                                          *)
(*  rq = [id, opcode, rd, cd, qd (0 | 1), qsec (the octets of its first         *)
(*        question, <<>> if none), sig ("none" | "good" | "bad" | "nokey"),     *)
(*        mac (the request's MAC), key, alg (label sequences), fudge]           *)
Signs(rq) == rq.sig = "good"

Flags1(rq) == 128 + rq.opcode * 8 + 4 + (IF rq.opcode = 0 /\ rq.rd THEN 1 ELSE 0)     \* QR Opcode AA tc RD
Flags2(rq) == IF rq.opcode = 0 /\ rq.cd THEN 16 ELSE 0                                 \* ra z ad CD RCODE = 0

\* O1: the message for an envelope whose records (each packed on its own, uncompressed) are rrs
Body(rq, rrs) ==
  U16(rq.id) \o << Flags1(rq), Flags2(rq) >> \o U16(rq.qd) \o U16(Len(rrs)) \o U16(0) \o U16(0)
    \o rq.qsec \o Concat(rrs)

MaxMsgSize == 65535
Framed(msg) == U16(Len(msg)) \o msg

-----------------------------------------------------------------------------
(* State of one Out call                                                        *)
(*  ch      "open" | "closed"                                                   *)
(*  st      "recv" (at the channel receive) | "returned"                        *)
(*  err     the error returned ("" = nil, "*" = some error)                     *)
(*  n       messages written                                                    *)
(*  sess    TSIG session [prev, timers] (Tsig!Session)                          *)
(*  pend    <<>> or << e >>: an envelope the producer is handing over           *)
(*  broken  the transport refused a write                                       *)
(*  failat  the transport refuses its failat-th write (0: never)                *)
(* An envelope: e = [rrs, err (Error is non-nil), big (the message exceeds      *)
(* 65535 octets)]                                                               *)
Start(rq, failat) ==
  [rq |-> rq, ch |-> "open", st |-> "recv", err |-> "", n |-> 0, sess |-> Session(rq.mac),
   pend |-> <<>>, broken |-> FALSE, failat |-> failat]

\* the producer starts handing e over (an unbuffered channel: it completes when Out takes it)
CanPut(o) == o.pend = <<>> /\ o.ch = "open"
Put(o, e) == [o EXCEPT !.pend = << e >>]

\* Out takes the pending envelope.  The outcomes:
\*   "sent"    the message is written (one frame)
\*   "refused" the transport refused the write: Out ends with an error
\*   "error"   Out ends with an error before anything reaches the transport
Outcomes(o) ==
  LET e == o.pend[1] IN
  IF e.big THEN {"error"}                                                          \* O3
  ELSE (IF o.failat = o.n + 1 THEN {"refused"} ELSE {"sent"})
       \cup (IF e.err THEN {"error"} ELSE {})                                      \* AMBIG Envelope.Error
       \cup (IF o.rq.sig \in {"bad", "nokey"} THEN {"error"} ELSE {})              \* AMBIG O5
CanTake(o) == o.st = "recv" /\ o.pend # <<>>

Fail(o) == [o EXCEPT !.pend = <<>>, !.st = "returned", !.err = "*"]
TakeEnv(o, outcome, mac) ==      \* mac: the MAC of the message just signed (<<>> when unsigned)
  CASE outcome = "sent"    -> [o EXCEPT !.pend = <<>>, !.n = @ + 1,
                                       !.sess = IF Signs(o.rq) THEN [prev |-> mac, timers |-> TRUE] ELSE @]
    [] outcome = "refused" -> [Fail(o) EXCEPT !.broken = TRUE]
    [] outcome = "error"   -> Fail(o)

\* the producer closes the channel; Out, finding it closed and empty, returns nil   (O2)
CanClose(o) == o.ch = "open" /\ o.pend = <<>>
Close(o) == [o EXCEPT !.ch = "closed"]
CanReturnNil(o) == o.st = "recv" /\ o.ch = "closed" /\ o.pend = <<>>
ReturnNil(o) == [o EXCEPT !.st = "returned"]

\* O4: Out waits
Waiting(o) == o.st = "recv" /\ o.ch = "open" /\ o.pend = <<>>
\* the producer's hand-over can never complete
Stuck(o) == o.st = "returned" /\ o.pend # <<>>

-----------------------------------------------------------------------------
(* The octets of the message for envelope e in state o: `wire' is one Write on  *)
(* the transport.  For a signed message the MAC is not computed here: the       *)
(* digest input is.                                                             *)
\* t: the TSIG variables of the message as read from the wire
TsigVarsOK(rq, t, now) ==
  /\ LowerName(t.key) = LowerName(rq.key) /\ LowerName(t.alg) = LowerName(rq.alg)
  /\ t.fudge = rq.fudge /\ t.origId = rq.id /\ t.error = 0 /\ t.other = <<>>
  /\ InWindow(now, t.time, t.fudge)

\* [ok, signed, digest, mac]
ReadFrame(o, e, wire, now) ==
  IF Len(wire) < 14 \/ Sub(wire, 1, 2) # U16(Len(wire) - 2) \/ Len(wire) - 2 > MaxMsgSize THEN [ok |-> FALSE]
  ELSE LET msg == Drop(wire, 2)
           p   == SplitTsig(msg) IN
       IF Signs(o.rq)
       THEN IF p.st # "ok" THEN [ok |-> FALSE]
            ELSE [ok |-> p.strict /\ p.body = Body(o.rq, e.rrs) /\ TsigVarsOK(o.rq, p.t, now),
                  signed |-> TRUE, mac |-> p.t.mac,
                  digest |-> DigestInput(o.sess.prev, p.body, p.t.origId, p.t, o.sess.timers)]
       ELSE [ok |-> msg = Body(o.rq, e.rrs), signed |-> FALSE, mac |-> <<>>, digest |-> <<>>]
=============================================================================
