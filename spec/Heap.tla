-------------------------------- MODULE Heap --------------------------------
(* Property C16: copies are deep; decoded messages alias no buffer; read-only  *)
(* operations do not mutate.                                                   *)
(*                                                                             *)
(* A heap of REGIONS: identities of mutable backing stores (slice backing      *)
(* arrays, maps, pointees).  Go strings are immutable: they are content, not   *)
(* regions.  mem[r] is the content of region r (an opaque token: a version     *)
(* number in the model, the digest of the real octets in a recorded trace).    *)
(* An OBJECT (a record, a message) is the sequence of regions reachable from   *)
(* it, in traversal order: slots[o].  Its abstract value is the sequence of    *)
(* the contents of its slots.  bk[o] is the documented bookkeeping that the    *)
(* read-only operations may write (RDLENGTH in RR headers, the extended-RCODE  *)
(* octet of an OPT header): it is not part of the value.                       *)
(*                                                                             *)
(* Every operation is given by three operators over an explicit state record S *)
(* and a parameter record p (ALL non-determinism -- fresh region names, new    *)
(* contents -- is in p):  <Op>Shape (well-formed), <Op>Disc (the REGION        *)
(* DISCIPLINE the implementation must follow), <Op>Post (the state after).     *)
(* MC_Heap / Gen_Heap choose p from finite sets; Trace_Heap takes p from the   *)
(* recorded event and compares <Op>Post with the observed heap.                *)
(*                                                                             *)
(* The CALLER may make two objects share memory (cp := *m -- a shallow struct  *)
(* copy shares every section and record of m; scratch.Answer = m.Answer shares *)
(* one section): operation Alias.  al is the set of pairs {a, b} so related;   *)
(* for them -- and only for them -- sharing is no defect, a write through one  *)
(* is expected to show in the other, and the bookkeeping a read-only operation *)
(* writes into a is seen in b.  CopyTo(x, t) copies x into such a USED target  *)
(* t (Msg.CopyTo): afterwards t is a copy like any other -- it shares nothing  *)
(* with x, whatever t shared before; x and every object the caller did not     *)
(* make share memory with t are left as they were.                             *)
EXTENDS Integers, Sequences, FiniteSets, TLC

CONSTANTS Obj,      \* object identities
          ROOps     \* names of the read-only operations

Range(f) == { f[x] : x \in DOMAIN f }

\* S = [slots : [Obj -> Seq(Region)], mem : [Region -> Content], bk : [Obj -> Bk],
\*      live : SUBSET Obj, buf : Region or 0 (no buffer), al : SUBSET (SUBSET Obj)]
Regions(S, o)  == Range(S.slots[o])
Value(S, o)    == [i \in 1..Len(S.slots[o]) |-> S.mem[S.slots[o][i]]]
Allocated(S)   == DOMAIN S.mem

Fresh(S, ns) == /\ \A i \in 1..Len(ns) : ns[i] \notin Allocated(S)
                /\ \A i, j \in 1..Len(ns) : i # j => ns[i] # ns[j]

-----------------------------------------------------------------------------
(* The discipline as a state predicate, and the property it buys.             *)

Aliased(S, a, b) == {a, b} \in S.al
\* the objects that share memory with one of xs by the caller's doing
Partners(S, xs)  == { o \in S.live : \E a \in xs : a # o /\ Aliased(S, a, o) }

\* regions of independently obtained objects are pairwise disjoint, and none
\* contains the buffer
Disjoint(S) ==
  /\ \A a, b \in S.live : a # b /\ ~Aliased(S, a, b) => Regions(S, a) \cap Regions(S, b) = {}
  /\ \A a \in S.live : S.buf \notin Regions(S, a)

\* non-interference: a step whose targets are tgt leaves value(y) alone for every
\* other object y that existed before
NonInterf(S, T, tgt) == \A y \in S.live \ tgt : y \in T.live /\ Value(T, y) = Value(S, y)

\* nothing but the bookkeeping of xs changed
OnlyBk(S, T, xs) ==
  /\ T.live = S.live /\ T.buf = S.buf
  /\ \A o \in S.live : T.slots[o] = S.slots[o]
  /\ \A r \in DOMAIN S.mem : r \in DOMAIN T.mem /\ T.mem[r] = S.mem[r]
  /\ \A o \in S.live \ xs : T.bk[o] = S.bk[o]

-----------------------------------------------------------------------------
(* Copy(x) -> y : p = [x, y, ns]   ns = the regions of the new object         *)
CopyShape(S, p) == /\ p.x \in S.live /\ p.y \in Obj \ S.live
                   /\ Len(p.ns) = Len(S.slots[p.x])
CopyDisc(S, p)  == Fresh(S, p.ns)
CopyPost(S, p)  ==
  LET src(r) == S.slots[p.x][CHOOSE i \in 1..Len(p.ns) : p.ns[i] = r]
      new    == [r \in Range(p.ns) |-> S.mem[src(r)]]
  IN [S EXCEPT !.slots[p.y] = p.ns,
               !.mem = S.mem @@ new,            \* @@ is left-biased: a region that already exists keeps its content
               !.bk[p.y] = S.bk[p.x],
               !.live = S.live \cup {p.y}]

(* Alias(x) -> y : the caller's shallow copy.  p = [x, y, ns]: slot i of y is x's own *)
(* region (ns[i] = slots[x][i]: shared) or a new one holding the same content.        *)
AliasShared(S, p) == { i \in 1..Len(p.ns) : p.ns[i] = S.slots[p.x][i] }
AliasShape(S, p) == /\ p.x \in S.live /\ p.y \in Obj \ S.live
                    /\ Len(p.ns) = Len(S.slots[p.x])
                    /\ AliasShared(S, p) # {}
AliasDisc(S, p)  == /\ \A i \in 1..Len(p.ns) : i \notin AliasShared(S, p) => p.ns[i] \notin Allocated(S)
                    /\ \A i, j \in 1..Len(p.ns) : i # j => p.ns[i] # p.ns[j]
AliasPost(S, p)  ==
  LET src(r) == S.slots[p.x][CHOOSE i \in 1..Len(p.ns) : p.ns[i] = r]
      new    == [r \in Range(p.ns) |-> S.mem[src(r)]]
      shr    == { p.ns[i] : i \in AliasShared(S, p) }
  IN [S EXCEPT !.slots[p.y] = p.ns,
               !.mem = S.mem @@ new,
               !.bk[p.y] = S.bk[p.x],
               !.live = S.live \cup {p.y},
               !.al = S.al \cup { {p.y, o} : o \in { q \in S.live : Regions(S, q) \cap shr # {} } }]

(* CopyTo(x, t) : x copied into the live object t.  p = [x, t, ns]  ns = the regions of t afterwards.  *)
(* Discipline: none of them is a region of the SOURCE, the buffer's, or a region of an object the caller *)
(* did not make share memory with the target.  AMBIG: storage the target held -- alone, or together with *)
(* third objects the caller aliased to it (a write to the target is expected to show in those) -- may be *)
(* used again: the statement speaks of what copy and original share and of the arguments of Copy, not of *)
(* where the copy is put.  CopyTo WRITES the regions it is given: a region that exists gets the source's *)
(* content.                                                                                              *)
CopyToShape(S, p) == /\ p.x \in S.live /\ p.t \in S.live /\ p.x # p.t
                     /\ Len(p.ns) = Len(S.slots[p.x])
CopyToDisc(S, p)  == /\ \A i, j \in 1..Len(p.ns) : i # j => p.ns[i] # p.ns[j]
                     /\ \A i \in 1..Len(p.ns) : /\ p.ns[i] # S.buf
                                                  /\ p.ns[i] \notin Regions(S, p.x)
                                                  /\ \A o \in S.live \ ({p.t} \cup Partners(S, {p.t})) : p.ns[i] \notin Regions(S, o)
\* the partners of the target that still share with it afterwards (their storage was used again)
CopyToKeeps(S, p) == { o \in Partners(S, {p.t}) \ {p.x} : Regions(S, o) \cap Range(p.ns) # {} }
CopyToPost(S, p)  ==
  LET src(r) == S.slots[p.x][CHOOSE i \in 1..Len(p.ns) : p.ns[i] = r]
  IN [S EXCEPT !.slots[p.t] = p.ns,
               !.mem = [r \in DOMAIN S.mem \cup Range(p.ns) |-> IF r \in Range(p.ns) THEN S.mem[src(r)] ELSE S.mem[r]],
               !.bk[p.t] = S.bk[p.x],
               !.al = { q \in S.al : p.t \notin q \/ q \subseteq {p.t} \cup CopyToKeeps(S, p) }]

(* Unpack(buf) -> y : p = [y, ns, cs, b]  cs = contents, b = bookkeeping      *)
UnpackShape(S, p) == /\ S.buf # 0 /\ p.y \in Obj \ S.live /\ Len(p.ns) = Len(p.cs)
UnpackDisc(S, p)  == Fresh(S, p.ns)             \* in particular buf \notin ns
UnpackPost(S, p)  ==
  LET new == [r \in Range(p.ns) |-> p.cs[CHOOSE i \in 1..Len(p.ns) : p.ns[i] = r]]
  IN [S EXCEPT !.slots[p.y] = p.ns, !.mem = S.mem @@ new, !.bk[p.y] = p.b, !.live = S.live \cup {p.y}]

(* Mutate(x, r, c, b) : write content c into region r of x; a writer may also  *)
(* write x's bookkeeping fields (b = bookkeeping of x afterwards)              *)
(* p.pb = bookkeeping afterwards of the objects the caller made share region r with x       *)
(* (their RDLENGTH fields live in the shared records)                                       *)
Sharers(S, x, r)  == { o \in Partners(S, {x}) : r \in Regions(S, o) }
MutateShape(S, p) == /\ p.x \in S.live /\ p.r \in Regions(S, p.x) /\ p.c # S.mem[p.r]
                     /\ DOMAIN p.pb = Sharers(S, p.x, p.r)
MutatePost(S, p)  == [S EXCEPT !.mem[p.r] = p.c,
                               !.bk = [o \in DOMAIN S.bk |-> IF o = p.x THEN p.b ELSE IF o \in DOMAIN p.pb THEN p.pb[o] ELSE S.bk[o]]]

(* Scribble(buf) : p = [c]                                                    *)
ScribbleShape(S, p) == S.buf # 0 /\ p.c # S.mem[S.buf]
ScribblePost(S, p)  == [S EXCEPT !.mem[S.buf] = p.c]

(* ReadOnly(op, xs) : p = [op, xs, nb]  nb = bookkeeping of the arguments after *)
(* AMBIG: the statement does not say which of the read-only operations may do   *)
(* the bookkeeping; any of them may, on its arguments only -- which includes    *)
(* the objects the caller made share records with an argument (ROArgs).         *)
ROArgs(S, xs) == xs \cup Partners(S, xs)
ROShape(S, p) == p.op \in ROOps /\ p.xs \subseteq S.live /\ DOMAIN p.nb = ROArgs(S, p.xs)
ROPost(S, p)  == [S EXCEPT !.bk = [o \in DOMAIN S.bk |-> IF o \in DOMAIN p.nb THEN p.nb[o] ELSE S.bk[o]]]

(* NewBuf : a buffer obtained by packing; p = [r, c]                          *)
NewBufShape(S, p) == TRUE
NewBufDisc(S, p)  == Fresh(S, <<p.r>>)
NewBufPost(S, p)  == [S EXCEPT !.buf = p.r, !.mem = S.mem @@ (p.r :> p.c)]

(* Targets of a step in state S: the objects whose value the step is entitled to change -- the  *)
(* object written to and those the caller made share the written region; the target of CopyTo.  *)
Targets(S, opname, p) ==
  CASE opname = "mutate" -> {p.x} \cup Sharers(S, p.x, p.r)
    [] opname = "copyto" -> {p.t} \cup CopyToKeeps(S, p)
    [] OTHER -> {}
=============================================================================
