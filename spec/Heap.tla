-------------------------------- MODULE Heap --------------------------------
(* Property C16: copies are deep; decoded messages alias no buffer; read-only  *)
(* operations do not mutate.                                                   *)
(*                                                                             *)
(* A heap of REGIONS: identities of mutable backing stores (slice backing      *)
(* arrays, maps, pointees).  Go strings are immutable: they are content, not   *)
(* regions.  mem[r] is the content of region r (an opaque token: a version     *)
(* number in the model, the digest of the real octets in a recorded trace).    *)
(* An OBJECT (a record, a message) is the sequence of regions reachable from   *)
(* it, in traversal order: slots[o].  Its abstract value is the sequence of    *)
(* the contents of its slots.  bk[o] is the documented bookkeeping that the    *)
(* read-only operations may write (RDLENGTH in RR headers, the extended-RCODE  *)
(* octet of an OPT header): it is not part of the value.                       *)
(*                                                                             *)
(* Every operation is given by three operators over an explicit state record S *)
(* and a parameter record p (ALL non-determinism -- fresh region names, new    *)
(* contents -- is in p):  <Op>Shape (well-formed), <Op>Disc (the REGION        *)
(* DISCIPLINE the implementation must follow), <Op>Post (the state after).     *)
(* MC_Heap / Gen_Heap choose p from finite sets; Trace_Heap takes p from the   *)
(* recorded event and compares <Op>Post with the observed heap.                *)
EXTENDS Integers, Sequences, FiniteSets, TLC

CONSTANTS Obj,      \* object identities
          ROOps     \* names of the read-only operations

Range(f) == { f[x] : x \in DOMAIN f }

\* S = [slots : [Obj -> Seq(Region)], mem : [Region -> Content], bk : [Obj -> Bk],
\*      live : SUBSET Obj, buf : Region or 0 (no buffer)]
Regions(S, o)  == Range(S.slots[o])
Value(S, o)    == [i \in 1..Len(S.slots[o]) |-> S.mem[S.slots[o][i]]]
Allocated(S)   == DOMAIN S.mem

Fresh(S, ns) == /\ \A i \in 1..Len(ns) : ns[i] \notin Allocated(S)
                /\ \A i, j \in 1..Len(ns) : i # j => ns[i] # ns[j]

-----------------------------------------------------------------------------
(* The discipline as a state predicate, and the property it buys.             *)

\* regions of independently obtained objects are pairwise disjoint, and none
\* contains the buffer
Disjoint(S) ==
  /\ \A a, b \in S.live : a # b => Regions(S, a) \cap Regions(S, b) = {}
  /\ \A a \in S.live : S.buf \notin Regions(S, a)

\* non-interference: a step whose targets are tgt leaves value(y) alone for every
\* other object y that existed before
NonInterf(S, T, tgt) == \A y \in S.live \ tgt : y \in T.live /\ Value(T, y) = Value(S, y)

\* nothing but the bookkeeping of xs changed
OnlyBk(S, T, xs) ==
  /\ T.live = S.live /\ T.buf = S.buf
  /\ \A o \in S.live : T.slots[o] = S.slots[o]
  /\ \A r \in DOMAIN S.mem : r \in DOMAIN T.mem /\ T.mem[r] = S.mem[r]
  /\ \A o \in S.live \ xs : T.bk[o] = S.bk[o]

-----------------------------------------------------------------------------
(* Copy(x) -> y : p = [x, y, ns]   ns = the regions of the new object         *)
CopyShape(S, p) == /\ p.x \in S.live /\ p.y \in Obj \ S.live
                   /\ Len(p.ns) = Len(S.slots[p.x])
CopyDisc(S, p)  == Fresh(S, p.ns)
CopyPost(S, p)  ==
  LET src(r) == S.slots[p.x][CHOOSE i \in 1..Len(p.ns) : p.ns[i] = r]
      new    == [r \in Range(p.ns) |-> S.mem[src(r)]]
  IN [S EXCEPT !.slots[p.y] = p.ns,
               !.mem = S.mem @@ new,            \* @@ is left-biased: a region that already exists keeps its content
               !.bk[p.y] = S.bk[p.x],
               !.live = S.live \cup {p.y}]

(* Unpack(buf) -> y : p = [y, ns, cs, b]  cs = contents, b = bookkeeping      *)
UnpackShape(S, p) == /\ S.buf # 0 /\ p.y \in Obj \ S.live /\ Len(p.ns) = Len(p.cs)
UnpackDisc(S, p)  == Fresh(S, p.ns)             \* in particular buf \notin ns
UnpackPost(S, p)  ==
  LET new == [r \in Range(p.ns) |-> p.cs[CHOOSE i \in 1..Len(p.ns) : p.ns[i] = r]]
  IN [S EXCEPT !.slots[p.y] = p.ns, !.mem = S.mem @@ new, !.bk[p.y] = p.b, !.live = S.live \cup {p.y}]

(* Mutate(x, r, c, b) : write content c into region r of x; a writer may also  *)
(* write x's bookkeeping fields (b = bookkeeping of x afterwards)              *)
MutateShape(S, p) == p.x \in S.live /\ p.r \in Regions(S, p.x) /\ p.c # S.mem[p.r]
MutatePost(S, p)  == [S EXCEPT !.mem[p.r] = p.c, !.bk[p.x] = p.b]

(* Scribble(buf) : p = [c]                                                    *)
ScribbleShape(S, p) == S.buf # 0 /\ p.c # S.mem[S.buf]
ScribblePost(S, p)  == [S EXCEPT !.mem[S.buf] = p.c]

(* ReadOnly(op, xs) : p = [op, xs, nb]  nb = bookkeeping of the arguments after *)
(* AMBIG: the statement does not say which of the read-only operations may do   *)
(* the bookkeeping; any of them may, on its arguments only.                     *)
ROShape(S, p) == p.op \in ROOps /\ p.xs \subseteq S.live /\ DOMAIN p.nb = p.xs
ROPost(S, p)  == [S EXCEPT !.bk = [o \in DOMAIN S.bk |-> IF o \in p.xs THEN p.nb[o] ELSE S.bk[o]]]

(* NewBuf : a buffer obtained by packing; p = [r, c]                          *)
NewBufShape(S, p) == TRUE
NewBufDisc(S, p)  == Fresh(S, <<p.r>>)
NewBufPost(S, p)  == [S EXCEPT !.buf = p.r, !.mem = S.mem @@ (p.r :> p.c)]

(* Targets of a step: the objects whose value the step is entitled to change. *)
Targets(opname, p) == IF opname = "mutate" THEN {p.x} ELSE {}
=============================================================================
