CONSTANTS
  MaxBody = 65535
INIT Init
NEXT Next
INVARIANT Out
