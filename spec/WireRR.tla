------------------------------- MODULE WireRR -------------------------------
(* The DNS wire format, stated once and independently of the code under test. *)
(*                                                                            *)
(*   Layout      for every RR type code: mnemonic + ordered list of RDATA     *)
(*               fields (name of the Go struct field, kind), written by hand  *)
(*               from the RFCs.  Only the *field names* come from the code.   *)
(*   Enc*        encoders: field, RDATA, RR, header, question, message         *)
(*               (uncompressed; RFC 1035 s.4.1, RFC 6891 s.6.1.3 RCODE split)  *)
(*   Len*        arithmetic lengths (no octet sequence is built)               *)
(*   Dec*        reference decoder: header + question + RR framing, and RDATA  *)
(*               for the regular kinds                                         *)
(*   WF*         well-formedness: the domain on which the encoders are meant   *)
(*                                                                            *)
(* Abstract values (this is also the JSON shape the Go harness speaks):        *)
(*   message  [hdr, q, an, ns, ar]                                             *)
(*   hdr      [id, qr, opcode, aa, tc, rd, ra, z, ad, cd, rcode]               *)
(*            id 0..65535, opcode 0..15, rcode 0..4095 (12 bits), rest BOOLEAN *)
(*   question [name, qtype, qclass]                                            *)
(*   RR       [name, type, class, ttl, nodata, f]                              *)
(*            ttl = 4 octets (TLC integers are 32-bit signed);                 *)
(*            nodata = TRUE: RDATA-less record of a dynamic update (RFC 2136   *)
(*            s.2.4, 2.5), RDLENGTH 0, f ignored;                              *)
(*            f = record: Go field name |-> value, by kind (see Kinds below)   *)
(* Properties C01, C08; the layout is reused by C02 C04 C05 C09 C10 C11 C16.   *)
EXTENDS Names

-----------------------------------------------------------------------------
(* Kinds.  Value representation in the abstract message:                       *)
(*  u8 u16            integer                                                  *)
(*  u32 u48 u64       4 / 6 / 8 octets, big-endian (never an integer)          *)
(*  a aaaa            4 / 16 octets                                            *)
(*  name cname        sequence of labels.  cname = a name of an RFC 1035 type, *)
(*                    which RFC 3597 s.4 allows a sender to compress; `name'   *)
(*                    must never be compressed on output.                      *)
(*  str               <character-string>: 0..255 octets, one length octet      *)
(*  strs              <character-string>s up to the end of RDATA (a list of    *)
(*                    none = empty RDATA)                                      *)
(*  ostr              an optional trailing <character-string>: <<>> or <<s>>   *)
(*  hex b64 raw octet opaque octets up to the end of RDATA (they differ only   *)
(*                    in how the Go API spells them: hex / base64 text, raw    *)
(*                    string, text with backslash escapes); with `sz': the     *)
(*                    length is given by the earlier integer field named sz    *)
(*  b32               like hex+sz, Go spells it in base32hex (NSEC3 next hash) *)
(*  bitmap            RFC 4034 s.4.1.2 window blocks; value = duplicate-free     *)
(*                    sequence of type codes in ANY order (it denotes a set)   *)
(*  bitmap0           RFC 2535 s.5.2 flat bitmap (NXT); types < 128            *)
(*  names             names up to the end of RDATA (HIP rendezvous servers)    *)
(*  apl               RFC 3123 items [fam, neg, prefix, addr]                  *)
(*  opts              EDNS0 options [code, f] (RFC 6891 s.6.1.2), OptLayout    *)
(*  svcb              SvcParams [key, f] (RFC 9460 s.2.2), SvcbLayout          *)
(*  gateway           RFC 4025 s.2.5 / RFC 8777 s.4.2.3 relay: selected by     *)
(*                    f[of] % mod: 0 nothing, 1 a, 2 aaaa, 3 uncompressed name *)
(* Kinds only used inside options / SvcParams:                                 *)
(*  bytes             opaque octets to the end of the option                   *)
(*  u32z              4 octets, omitted when all zero (UL KEY-LEASE)           *)
(*  u32e              <<>> (absent) or 4 octets (EXPIRE)                       *)
(*  u16opt            <<>> (absent) or <<v>> (TCP keepalive TIMEOUT)           *)
(*  prefixaddr        full-length address (any bits): it is MASKED to the prefix *)
(*                    f[sz] and only the first ceil(f[sz]/8) octets            *)
(*                    travel (RFC 7871 s.6)                                    *)
(*  u16list           duplicate-free sequence of u16 in ANY order, sent          *)
(*                    in increasing order (SVCB mandatory)                     *)
(*  lstrs             sequence of 1..255-octet strings, each length-prefixed   *)
(*  alist aaaalist    sequence of 4- / 16-octet addresses                      *)

F(n, k)           == [n |-> n, k |-> k]
FS(n, k, sz)      == [n |-> n, k |-> k, sz |-> sz]          \* sized by field sz
FG(n, of, mod, addr) == [n |-> n, k |-> "gateway", of |-> of, mod |-> mod, addr |-> addr]
T(name, fields)   == [name |-> name, fields |-> fields]

DSLike     == << F("KeyTag", "u16"), F("Algorithm", "u8"), F("DigestType", "u8"), F("Digest", "hex") >>
DNSKEYLike == << F("Flags", "u16"), F("Protocol", "u8"), F("Algorithm", "u8"), F("PublicKey", "b64") >>
RRSIGLike  == << F("TypeCovered", "u16"), F("Algorithm", "u8"), F("Labels", "u8"), F("OrigTtl", "u32"),
                 F("Expiration", "u32"), F("Inception", "u32"), F("KeyTag", "u16"),
                 F("SignerName", "name"), F("Signature", "b64") >>
TXTLike(n) == << F(n, "strs") >>
TLSALike   == << F("Usage", "u8"), F("Selector", "u8"), F("MatchingType", "u8"), F("Certificate", "hex") >>
SVCBLike   == << F("Priority", "u16"), F("Target", "name"), F("Value", "svcb") >>
One(n, k)  == << F(n, k) >>

Layout ==
     \* ---- RFC 1035
     (1  :> T("A",     One("A", "a")))
  @@ (2  :> T("NS",    One("Ns", "cname")))
  @@ (3  :> T("MD",    One("Md", "cname")))
  @@ (4  :> T("MF",    One("Mf", "cname")))
  @@ (5  :> T("CNAME", One("Target", "cname")))
  @@ (6  :> T("SOA",   << F("Ns", "cname"), F("Mbox", "cname"), F("Serial", "u32"), F("Refresh", "u32"),
                          F("Retry", "u32"), F("Expire", "u32"), F("Minttl", "u32") >>))
  @@ (7  :> T("MB",    One("Mb", "cname")))
  @@ (8  :> T("MG",    One("Mg", "cname")))
  @@ (9  :> T("MR",    One("Mr", "cname")))
  @@ (10 :> T("NULL",  One("Data", "raw")))
  @@ (12 :> T("PTR",   One("Ptr", "cname")))
  @@ (13 :> T("HINFO", << F("Cpu", "str"), F("Os", "str") >>))
  @@ (14 :> T("MINFO", << F("Rmail", "cname"), F("Email", "cname") >>))
  @@ (15 :> T("MX",    << F("Preference", "u16"), F("Mx", "cname") >>))
  @@ (16 :> T("TXT",   TXTLike("Txt")))
     \* ---- RFC 1183, 1706, 1712, 1876, 2163, 2230, 2672, 2782, 2915/3403, 3596
  @@ (17 :> T("RP",    << F("Mbox", "name"), F("Txt", "name") >>))
  @@ (18 :> T("AFSDB", << F("Subtype", "u16"), F("Hostname", "name") >>))
  @@ (19 :> T("X25",   One("PSDNAddress", "str")))
  @@ (20 :> T("ISDN",  << F("Address", "str"), F("SubAddress", "ostr") >>))      \* <sa> is optional
  @@ (21 :> T("RT",    << F("Preference", "u16"), F("Host", "name") >>))
  @@ (23 :> T("NSAP-PTR", One("Ptr", "name")))
  @@ (26 :> T("PX",    << F("Preference", "u16"), F("Map822", "name"), F("Mapx400", "name") >>))
  @@ (27 :> T("GPOS",  << F("Longitude", "str"), F("Latitude", "str"), F("Altitude", "str") >>))
  @@ (28 :> T("AAAA",  One("AAAA", "aaaa")))
  @@ (29 :> T("LOC",   << F("Version", "u8"), F("Size", "u8"), F("HorizPre", "u8"), F("VertPre", "u8"),
                          F("Latitude", "u32"), F("Longitude", "u32"), F("Altitude", "u32") >>))
  @@ (31 :> T("EID",   One("Endpoint", "hex")))
  @@ (32 :> T("NIMLOC", One("Locator", "hex")))
  @@ (33 :> T("SRV",   << F("Priority", "u16"), F("Weight", "u16"), F("Port", "u16"), F("Target", "name") >>))
  @@ (35 :> T("NAPTR", << F("Order", "u16"), F("Preference", "u16"), F("Flags", "str"), F("Service", "str"),
                          F("Regexp", "str"), F("Replacement", "name") >>))
  @@ (36 :> T("KX",    << F("Preference", "u16"), F("Exchanger", "name") >>))
  @@ (37 :> T("CERT",  << F("Type", "u16"), F("KeyTag", "u16"), F("Algorithm", "u8"), F("Certificate", "b64") >>))
  @@ (39 :> T("DNAME", One("Target", "name")))
     \* ---- DNSSEC: RFC 2535 (SIG KEY NXT), 4034, 5155, 7344, 4431, TA
  @@ (24 :> T("SIG",   RRSIGLike))
  @@ (25 :> T("KEY",   DNSKEYLike))
  @@ (30 :> T("NXT",   << F("NextDomain", "name"), F("TypeBitMap", "bitmap0") >>))
  @@ (43 :> T("DS",    DSLike))
  @@ (46 :> T("RRSIG", RRSIGLike))
  @@ (47 :> T("NSEC",  << F("NextDomain", "name"), F("TypeBitMap", "bitmap") >>))
  @@ (48 :> T("DNSKEY", DNSKEYLike))
  @@ (50 :> T("NSEC3", << F("Hash", "u8"), F("Flags", "u8"), F("Iterations", "u16"), F("SaltLength", "u8"),
                          FS("Salt", "hex", "SaltLength"), F("HashLength", "u8"),
                          FS("NextDomain", "b32", "HashLength"), F("TypeBitMap", "bitmap") >>))
  @@ (51 :> T("NSEC3PARAM", << F("Hash", "u8"), F("Flags", "u8"), F("Iterations", "u16"), F("SaltLength", "u8"),
                          FS("Salt", "hex", "SaltLength") >>))
  @@ (59 :> T("CDS",   DSLike))
  @@ (60 :> T("CDNSKEY", DNSKEYLike))
  @@ (32768 :> T("TA",  DSLike))
  @@ (32769 :> T("DLV", DSLike))
     \* ---- EDNS0 (RFC 6891), APL (3123), SSHFP (4255), IPSECKEY (4025), DHCID (4701), TLSA (6698), SMIMEA (8162)
  @@ (41 :> T("OPT",   One("Option", "opts")))
  @@ (42 :> T("APL",   One("Prefixes", "apl")))
  @@ (44 :> T("SSHFP", << F("Algorithm", "u8"), F("Type", "u8"), F("FingerPrint", "hex") >>))
  @@ (45 :> T("IPSECKEY", << F("Precedence", "u8"), F("GatewayType", "u8"), F("Algorithm", "u8"),
                          FG("GatewayHost", "GatewayType", 256, "GatewayAddr"), F("PublicKey", "b64") >>))
  @@ (49 :> T("DHCID", One("Digest", "b64")))
  @@ (52 :> T("TLSA",  TLSALike))
  @@ (53 :> T("SMIMEA", TLSALike))
     \* ---- HIP (8005), NINFO RKEY TALINK (drafts), OPENPGPKEY (7929), CSYNC (7477), ZONEMD (8976), SVCB/HTTPS (9460)
  @@ (55 :> T("HIP",   << F("HitLength", "u8"), F("PublicKeyAlgorithm", "u8"), F("PublicKeyLength", "u16"),
                          FS("Hit", "hex", "HitLength"), FS("PublicKey", "b64", "PublicKeyLength"),
                          F("RendezvousServers", "names") >>))
  @@ (56 :> T("NINFO", TXTLike("ZSData")))
  @@ (57 :> T("RKEY",  DNSKEYLike))
  @@ (58 :> T("TALINK", << F("PreviousName", "name"), F("NextName", "name") >>))
  @@ (61 :> T("OPENPGPKEY", One("PublicKey", "b64")))
  @@ (62 :> T("CSYNC", << F("Serial", "u32"), F("Flags", "u16"), F("TypeBitMap", "bitmap") >>))
  @@ (63 :> T("ZONEMD", << F("Serial", "u32"), F("Scheme", "u8"), F("Hash", "u8"), F("Digest", "hex") >>))
  @@ (64 :> T("SVCB",  SVCBLike))
  @@ (65 :> T("HTTPS", SVCBLike))
     \* ---- SPF (7208), UINFO UID GID (IANA-reserved), ILNP (6742), EUI (7043)
  @@ (99  :> T("SPF",   TXTLike("Txt")))
  @@ (100 :> T("UINFO", One("Uinfo", "str")))
  @@ (101 :> T("UID",   One("Uid", "u32")))
  @@ (102 :> T("GID",   One("Gid", "u32")))
  @@ (104 :> T("NID",   << F("Preference", "u16"), F("NodeID", "u64") >>))
  @@ (105 :> T("L32",   << F("Preference", "u16"), F("Locator32", "a") >>))
  @@ (106 :> T("L64",   << F("Preference", "u16"), F("Locator64", "u64") >>))
  @@ (107 :> T("LP",    << F("Preference", "u16"), F("Fqdn", "name") >>))
  @@ (108 :> T("EUI48", One("Address", "u48")))
  @@ (109 :> T("EUI64", One("Address", "u64")))
     \* ---- meta types: NXNAME (compact denial), TKEY (2930), TSIG (8945), ANY (* of RFC 1035; no RDATA of its own)
  @@ (128 :> T("NXNAME", << >>))
  @@ (249 :> T("TKEY",  << F("Algorithm", "name"), F("Inception", "u32"), F("Expiration", "u32"), F("Mode", "u16"),
                           F("Error", "u16"), F("KeySize", "u16"), FS("Key", "hex", "KeySize"),
                           F("OtherLen", "u16"), FS("OtherData", "hex", "OtherLen") >>))
  @@ (250 :> T("TSIG",  << F("Algorithm", "name"), F("TimeSigned", "u48"), F("Fudge", "u16"), F("MACSize", "u16"),
                           FS("MAC", "hex", "MACSize"), F("OrigId", "u16"), F("Error", "u16"),
                           F("OtherLen", "u16"), FS("OtherData", "hex", "OtherLen") >>))
  @@ (255 :> T("ANY",   << >>))
     \* ---- URI (7553), CAA (8659), AVC, AMTRELAY (8777), RESINFO (9606)
  @@ (256 :> T("URI",   << F("Priority", "u16"), F("Weight", "u16"), F("Target", "octet") >>))
  @@ (257 :> T("CAA",   << F("Flag", "u8"), F("Tag", "str"), F("Value", "octet") >>))
  @@ (258 :> T("AVC",   TXTLike("Txt")))
  @@ (260 :> T("AMTRELAY", << F("Precedence", "u8"), F("GatewayType", "u8"),      \* D bit = 128, type = low 7 bits
                           FG("GatewayHost", "GatewayType", 128, "GatewayAddr") >>))
  @@ (261 :> T("RESINFO", TXTLike("Txt")))

(* RFC 3597: a type without an entry is opaque RDATA.                          *)
UnknownLayout == T("TYPE", One("Rdata", "hex"))
TypeOPT == 41
LayoutOf(t) == IF t \in DOMAIN Layout THEN Layout[t] ELSE UnknownLayout
FieldsOf(t) == LayoutOf(t).fields

(* EDNS0 option payloads by option code.                                       *)
(*  1 LLQ (RFC 8764 s.3.2)  2 UL (RFC 9664 s.4: LEASE, optional KEY-LEASE)       *)
(*  3 NSID (5001)  4 ESU (draft-kaplan-enum-source-uri)  5 DAU 6 DHU 7 N3U (6975)*)
(*  8 client subnet (7871 s.6)  9 EXPIRE (7314: empty in queries)  10 COOKIE     *)
(*  11 tcp-keepalive (7828 s.3.1: TIMEOUT optional)  12 padding (7830)           *)
(*  15 EDE (8914)  18 report-channel (9567: agent domain, uncompressed name)     *)
(*  19 zoneversion (9660)                                                        *)
OptLayout ==
     (1  :> << F("Version", "u16"), F("Opcode", "u16"), F("Error", "u16"), F("Id", "u64"), F("LeaseLife", "u32") >>)
  @@ (2  :> << F("Lease", "u32"), F("KeyLease", "u32z") >>)
  @@ (3  :> One("Nsid", "hex"))
  @@ (4  :> One("Uri", "bytes"))
  @@ (5  :> One("AlgCode", "bytes"))
  @@ (6  :> One("AlgCode", "bytes"))
  @@ (7  :> One("AlgCode", "bytes"))
  @@ (8  :> << F("Family", "u16"), F("SourceNetmask", "u8"), F("SourceScope", "u8"),
               FS("Address", "prefixaddr", "SourceNetmask") >>)
  @@ (9  :> << [n |-> "Expire", k |-> "u32e", flag |-> "Empty"] >>)   \* Go spells absence with a separate BOOLEAN field
  @@ (10 :> One("Cookie", "hex"))
  @@ (11 :> One("Timeout", "u16opt"))
  @@ (12 :> One("Padding", "bytes"))
  @@ (15 :> << F("InfoCode", "u16"), F("ExtraText", "bytes") >>)
  @@ (18 :> One("AgentDomain", "name"))
  @@ (19 :> << F("LabelCount", "u8"), F("Type", "u8"), F("Version", "bytes") >>)
OptLayoutOf(c) == IF c \in DOMAIN OptLayout THEN OptLayout[c] ELSE One("Data", "bytes")

(* SvcParam values by key (RFC 9460 s.7, 8; RFC 9461 s.5; RFC 9540 s.4).        *)
SvcbLayout ==
     (0 :> One("Code", "u16list"))          \* mandatory: keys in increasing order
  @@ (1 :> One("Alpn", "lstrs"))
  @@ (2 :> << >>)                           \* no-default-alpn: empty value
  @@ (3 :> One("Port", "u16"))
  @@ (4 :> One("Hint", "alist"))
  @@ (5 :> One("ECH", "bytes"))
  @@ (6 :> One("Hint", "aaaalist"))
  @@ (7 :> One("Template", "bytes"))
  @@ (8 :> << >>)                           \* ohttp: empty value
SvcbLayoutOf(k) == IF k \in DOMAIN SvcbLayout THEN SvcbLayout[k] ELSE One("Data", "bytes")

-----------------------------------------------------------------------------
(* Small helpers *)

B2N(b) == IF b THEN 1 ELSE 0
IsOct(v, n) == Len(v) = n /\ IsOctets(v)

RECURSIVE SortedSeq(_)          \* ascending sequence of a finite set of integers
SortedSeq(S) == IF S = {} THEN <<>>
                ELSE LET m == CHOOSE x \in S : \A y \in S : x <= y IN <<m>> \o SortedSeq(S \ {m})

StrictlyIncreasing(s) == \A i \in 1..(Len(s) - 1) : s[i] < s[i + 1]
Distinct(s) == \A i, j \in 1..Len(s) : i # j => s[i] # s[j]

RECURSIVE StripTrailingZeros(_)
StripTrailingZeros(s) == IF s # <<>> /\ s[Len(s)] = 0 THEN StripTrailingZeros(Sub(s, 1, Len(s) - 1)) ELSE s

EncStr(s) == << Len(s) >> \o s

-----------------------------------------------------------------------------
(* Type bitmaps *)

\* one octet of a bitmap: bit 0 is the most significant (RFC 4034 s.4.1.2)
BitmapOctet(lows, j) ==
  SumSeq([b \in 1..8 |-> IF (j * 8 + b - 1) \in lows THEN Pow2(8 - b) ELSE 0])

EncWindow(ts, w) ==
  LET lows == { t % 256 : t \in { x \in ts : x \div 256 = w } }
      mx   == CHOOSE x \in lows : \A y \in lows : y <= x
      n    == (mx \div 8) + 1
  IN << w, n >> \o [j \in 1..n |-> BitmapOctet(lows, j - 1)]

\* blocks in increasing window order; windows without types are not sent
EncBitmap(v) ==
  LET ts == Range(v)  ws == SortedSeq({ t \div 256 : t \in ts })
  IN Concat([i \in 1..Len(ws) |-> EncWindow(ts, ws[i])])

LenBitmap(v) ==
  LET ts == Range(v)  ws == SortedSeq({ t \div 256 : t \in ts })
      wl(w) == LET lows == { t % 256 : t \in { x \in ts : x \div 256 = w } }
               IN 2 + ((CHOOSE x \in lows : \A y \in lows : y <= x) \div 8) + 1
  IN SumSeq([i \in 1..Len(ws) |-> wl(ws[i])])

\* RFC 2535 s.5.2: one bit per type 0..127, trailing zero octets omitted
EncBitmapFlat(v) ==
  LET ts == Range(v) IN
  IF ts = {} THEN <<>>
  ELSE LET mx == CHOOSE x \in ts : \A y \in ts : y <= x
           n  == (mx \div 8) + 1
       IN [j \in 1..n |-> BitmapOctet(ts, j - 1)]

-----------------------------------------------------------------------------
(* APL (RFC 3123 s.4): ADDRESSFAMILY(16) PREFIX(8) N(1)+AFDLENGTH(7) AFDPART;  *)
(* AFDPART = the address with trailing zero octets removed.                    *)
AplBits(it) == IF it.fam = 1 THEN 32 ELSE 128
\* addr with every bit beyond the first `bits' bits cleared
MaskTo(addr, bits) ==
  [i \in 1..Len(addr) |->
     IF (i - 1) * 8 >= bits THEN 0
     ELSE IF i * 8 <= bits THEN addr[i]
     ELSE addr[i] - (addr[i] % Pow2(i * 8 - bits))]

\* an item names the network addr/prefix: host bits beyond the prefix are not part of it and
\* are not sent (the address is masked, then trailing zero octets are cut)
AplAfd(it) == StripTrailingZeros(MaskTo(it.addr, it.prefix))
EncAplItem(it) ==
  LET afd == AplAfd(it)
  IN U16(it.fam) \o << it.prefix, B2N(it.neg) * 128 + Len(afd) >> \o afd
EncApl(v) == Concat([i \in 1..Len(v) |-> EncAplItem(v[i])])

\* the first `bits' bits of addr may be anything, the rest must be zero
ZeroBeyond(addr, bits) ==
  \A i \in 1..Len(addr) :
     IF (i - 1) * 8 >= bits THEN addr[i] = 0
     ELSE IF i * 8 <= bits THEN TRUE
     ELSE addr[i] % Pow2(i * 8 - bits) = 0

WFAplItem(it) ==
  /\ DOMAIN it = {"fam", "neg", "prefix", "addr"}
  /\ it.fam \in {1, 2} /\ it.neg \in BOOLEAN
  /\ IsOct(it.addr, AplBits(it) \div 8)
  /\ it.prefix \in 0..AplBits(it)

-----------------------------------------------------------------------------
(* Field encoders.  EncKind: kinds whose octets depend on the value alone.     *)

FixedWidth == [u32 |-> 4, u48 |-> 6, u64 |-> 8, a |-> 4, aaaa |-> 16]
OpaqueKinds == {"hex", "b64", "raw", "octet", "b32", "bytes"}

RECURSIVE EncSub(_, _), EncKind(_, _)

\* an option / SvcParam body: the fields of its sub-layout in order
EncSub(es, f) ==
  Concat([i \in 1..Len(es) |->
     IF es[i].k = "prefixaddr"      \* RFC 7871 s.6: truncated to SOURCE PREFIX-LENGTH bits, padded with 0 bits to the octet
     THEN Take(MaskTo(f[es[i].n], f[es[i].sz]), (f[es[i].sz] + 7) \div 8)
     ELSE EncKind(es[i].k, f[es[i].n])])

EncOption(o)  == LET d == EncSub(OptLayoutOf(o.code), o.f) IN U16(o.code) \o U16(Len(d)) \o d
EncSvcParam(p) == LET d == EncSub(SvcbLayoutOf(p.key), p.f) IN U16(p.key) \o U16(Len(d)) \o d

\* SvcParams travel in strictly increasing key order whatever order the value lists them in
SortParams(v) ==
  LET ks == SortedSeq({ v[i].key : i \in 1..Len(v) })
  IN [j \in 1..Len(ks) |-> v[CHOOSE i \in 1..Len(v) : v[i].key = ks[j]]]

EncKind(k, v) ==
  CASE k = "u8"      -> << v >>
    [] k = "u16"     -> U16(v)
    [] k \in DOMAIN FixedWidth -> v
    [] k \in OpaqueKinds -> v
    [] k \in {"name", "cname"} -> EncName(v)
    [] k = "str"     -> EncStr(v)
    [] k \in {"strs", "ostr", "lstrs"} -> Concat([i \in 1..Len(v) |-> EncStr(v[i])])
    [] k = "names"   -> Concat([i \in 1..Len(v) |-> EncName(v[i])])
    [] k = "bitmap"  -> EncBitmap(v)
    [] k = "bitmap0" -> EncBitmapFlat(v)
    [] k = "apl"     -> EncApl(v)
    [] k = "opts"    -> Concat([i \in 1..Len(v) |-> EncOption(v[i])])
    [] k = "svcb"    -> LET s == SortParams(v) IN Concat([i \in 1..Len(s) |-> EncSvcParam(s[i])])
    [] k = "u32z"    -> IF v = <<0, 0, 0, 0>> THEN <<>> ELSE v
    [] k = "u32e"    -> v
    [] k = "u16opt"  -> IF v = <<>> THEN <<>> ELSE U16(v[1])
    [] k = "u16list" -> LET s == SortedSeq(Range(v)) IN Concat([i \in 1..Len(s) |-> U16(s[i])])   \* increasing on the wire
    [] k \in {"alist", "aaaalist"} -> Concat(v)

GatewaySel(e, f) == f[e.of] % e.mod
EncGateway(sel, v) == IF sel \in {1, 2} THEN v ELSE IF sel = 3 THEN EncName(v) ELSE <<>>

EncField(e, f) == IF e.k = "gateway" THEN EncGateway(GatewaySel(e, f), f[e.n])
                  ELSE EncKind(e.k, f[e.n])

EncRdata(t, f) == LET es == FieldsOf(t) IN Concat([i \in 1..Len(es) |-> EncField(es[i], f)])

RdataOf(rr) == IF rr.nodata THEN <<>> ELSE EncRdata(rr.type, rr.f)

(* RFC 1035 s.3.2.1 / 4.1.3: NAME TYPE CLASS TTL RDLENGTH RDATA *)
EncRR(rr) == LET rd == RdataOf(rr) IN
  EncName(rr.name) \o U16(rr.type) \o U16(rr.class) \o rr.ttl \o U16(Len(rd)) \o rd

(* RFC 1035 s.4.1.2 *)
EncQuestion(q) == EncName(q.name) \o U16(q.qtype) \o U16(q.qclass)

(* RFC 1035 s.4.1.1 with the AD and CD bits of RFC 4035 s.3.1.6 / 3.2.2:        *)
(*  |QR| Opcode(4) |AA|TC|RD|   |RA| Z|AD|CD| RCODE(4) |                         *)
EncFlags(h) ==
  << B2N(h.qr) * 128 + h.opcode * 8 + B2N(h.aa) * 4 + B2N(h.tc) * 2 + B2N(h.rd),
     B2N(h.ra) * 128 + B2N(h.z) * 64 + B2N(h.ad) * 32 + B2N(h.cd) * 16 + (h.rcode % 16) >>
EncHeader(h, qd, an, ns, ar) == U16(h.id) \o EncFlags(h) \o U16(qd) \o U16(an) \o U16(ns) \o U16(ar)

(* RFC 6891 s.6.1.3: the OPT TTL is EXTENDED-RCODE(8) VERSION(8) DO(1) Z(15);   *)
(* the upper 8 bits of the 12-bit RCODE travel in EXTENDED-RCODE.               *)
IsOpt(rr)   == rr.type = TypeOPT
HasOpt(m)   == \E i \in 1..Len(m.ar) : IsOpt(m.ar[i])
WithExtRcode(rr, rcode) == IF IsOpt(rr) THEN [rr EXCEPT !.ttl = << rcode \div 16 >> \o Sub(rr.ttl, 2, 4)] ELSE rr

(* A message can be packed iff its RCODE fits: 12 bits, and more than 4 bits    *)
(* only when there is an OPT record to carry the upper 8.                       *)
Packable(m) == m.hdr.rcode \in 0..4095 /\ (m.hdr.rcode > 15 => HasOpt(m))

(* Sets that travel in one canonical order.  Three lists of the abstract message *)
(* (and of the Go API) denote SETS: the types of a type bitmap, the SvcParams of *)
(* a SVCB record, the keys of its `mandatory' parameter.  Whatever order the     *)
(* value lists them in, the wire carries them in increasing order (RFC 4034      *)
(* s.4.1.2, RFC 9460 s.2.2 and s.8), and that is the order a decoder recovers.   *)
NormSub(es, f) == [n \in DOMAIN f |->
                     IF \E i \in 1..Len(es) : es[i].n = n /\ es[i].k = "u16list" THEN SortedSeq(Range(f[n])) ELSE f[n]]
NormOptSub(es, f) == [n \in DOMAIN f |->
                        IF \E i \in 1..Len(es) : es[i].n = n /\ es[i].k = "prefixaddr"
                        THEN MaskTo(f[n], f[es[CHOOSE i \in 1..Len(es) : es[i].n = n].sz]) ELSE f[n]]
NormOpts(v)    == [i \in 1..Len(v) |-> [code |-> v[i].code, f |-> NormOptSub(OptLayoutOf(v[i].code), v[i].f)]]
NormApl(v)     == [i \in 1..Len(v) |-> [v[i] EXCEPT !.addr = MaskTo(@, v[i].prefix)]]
NormParams(v)  == LET s == SortParams(v) IN
                  [i \in 1..Len(s) |-> [key |-> s[i].key, f |-> NormSub(SvcbLayoutOf(s[i].key), s[i].f)]]

\* what a decoder recovers: OPT's EXTENDED-RCODE octet is determined by the RCODE,
\* SvcParams, mandatory keys and bitmap types come back in increasing order, prefix addresses masked
NormRR(rr) ==
  IF rr.nodata THEN rr
  ELSE LET es == FieldsOf(rr.type)
           kindOf(n) == IF \E i \in 1..Len(es) : es[i].n = n THEN es[CHOOSE i \in 1..Len(es) : es[i].n = n].k ELSE "?"
       IN [rr EXCEPT !.f = [n \in DOMAIN rr.f |->
            CASE kindOf(n) = "svcb"   -> NormParams(rr.f[n])
              [] kindOf(n) = "bitmap" -> SortedSeq(Range(rr.f[n]))
              [] kindOf(n) = "opts"   -> NormOpts(rr.f[n])          \* client-subnet address comes back masked
              [] kindOf(n) = "apl"    -> NormApl(rr.f[n])           \* so does an APL address
              [] OTHER -> rr.f[n]]]

(* AMBIG: a type bitmap listed out of order denotes the same set, so packing it  *)
(* must either give the one encoding of that set or be refused (the library      *)
(* documents "nsec bits out of order"); it must never give other octets.         *)
UnorderedBitmap(rr) ==
  ~rr.nodata /\ \E i \in 1..Len(FieldsOf(rr.type)) :
     LET e == FieldsOf(rr.type)[i] IN e.k = "bitmap" /\ e.n \in DOMAIN rr.f /\ ~StrictlyIncreasing(rr.f[e.n])
MayRefuse(m) == \/ \E i \in 1..Len(m.an) : UnorderedBitmap(m.an[i])
                \/ \E i \in 1..Len(m.ns) : UnorderedBitmap(m.ns[i])
                \/ \E i \in 1..Len(m.ar) : UnorderedBitmap(m.ar[i])
NormSec(s) == [i \in 1..Len(s) |-> NormRR(s[i])]
NormMsg(m) == [m EXCEPT !.an = NormSec(m.an), !.ns = NormSec(m.ns),
                        !.ar = [i \in 1..Len(m.ar) |-> WithExtRcode(NormRR(m.ar[i]), m.hdr.rcode)]]

EncSection(s) == Concat([i \in 1..Len(s) |-> EncRR(s[i])])
EncMsg(m) ==
  EncHeader(m.hdr, Len(m.q), Len(m.an), Len(m.ns), Len(m.ar))
  \o Concat([i \in 1..Len(m.q) |-> EncQuestion(m.q[i])])
  \o EncSection(m.an) \o EncSection(m.ns)
  \o EncSection([i \in 1..Len(m.ar) |-> WithExtRcode(m.ar[i], m.hdr.rcode)])

-----------------------------------------------------------------------------
(* Arithmetic lengths: what EncX would produce, without building it.           *)

RECURSIVE LenSub(_, _), LenKind(_, _)
LenSub(es, f) ==
  SumSeq([i \in 1..Len(es) |->
     IF es[i].k = "prefixaddr" THEN Min(Len(f[es[i].n]), (f[es[i].sz] + 7) \div 8)
     ELSE LenKind(es[i].k, f[es[i].n])])
LenKind(k, v) ==
  CASE k = "u8"      -> 1
    [] k = "u16"     -> 2
    [] k \in DOMAIN FixedWidth -> Len(v)
    [] k \in OpaqueKinds -> Len(v)
    [] k \in {"name", "cname"} -> WireLen(v)
    [] k = "str"     -> 1 + Len(v)
    [] k \in {"strs", "ostr", "lstrs"} -> SumSeq([i \in 1..Len(v) |-> 1 + Len(v[i])])
    [] k = "names"   -> SumSeq([i \in 1..Len(v) |-> WireLen(v[i])])
    [] k = "bitmap"  -> LenBitmap(v)
    [] k = "bitmap0" -> Len(EncBitmapFlat(v))
    [] k = "apl"     -> SumSeq([i \in 1..Len(v) |-> 4 + Len(AplAfd(v[i]))])
    [] k = "opts"    -> SumSeq([i \in 1..Len(v) |-> 4 + LenSub(OptLayoutOf(v[i].code), v[i].f)])
    [] k = "svcb"    -> SumSeq([i \in 1..Len(v) |-> 4 + LenSub(SvcbLayoutOf(v[i].key), v[i].f)])
    [] k = "u32z"    -> IF v = <<0, 0, 0, 0>> THEN 0 ELSE 4
    [] k = "u32e"    -> Len(v)
    [] k = "u16opt"  -> IF v = <<>> THEN 0 ELSE 2
    [] k = "u16list" -> 2 * Len(v)
    [] k \in {"alist", "aaaalist"} -> SumSeq([i \in 1..Len(v) |-> Len(v[i])])

LenField(e, f) ==
  IF e.k = "gateway"
  THEN LET sel == GatewaySel(e, f) IN
       IF sel \in {1, 2} THEN Len(f[e.n]) ELSE IF sel = 3 THEN WireLen(f[e.n]) ELSE 0
  ELSE LenKind(e.k, f[e.n])

LenRdata(rr) == IF rr.nodata THEN 0
                ELSE LET es == FieldsOf(rr.type) IN SumSeq([i \in 1..Len(es) |-> LenField(es[i], rr.f)])
LenRR(rr)  == WireLen(rr.name) + 10 + LenRdata(rr)
LenQuestion(q) == WireLen(q.name) + 4
LenSection(s) == SumSeq([i \in 1..Len(s) |-> LenRR(s[i])])
LenMsg(m)  == 12 + SumSeq([i \in 1..Len(m.q) |-> LenQuestion(m.q[i])])
                 + LenSection(m.an) + LenSection(m.ns) + LenSection(m.ar)

\* 0-based offsets at which the records of an, ns, ar start, followed by the message length
RROffsets(m) ==
  LET rrs   == m.an \o m.ns \o m.ar
      start == 12 + SumSeq([i \in 1..Len(m.q) |-> LenQuestion(m.q[i])])
  IN [i \in 1..(Len(rrs) + 1) |-> start + SumSeq([j \in 1..(i - 1) |-> LenRR(rrs[j])])]

-----------------------------------------------------------------------------
(* Well-formedness: the values the RFC layouts give a meaning to.              *)

WFName(n) == /\ \A i \in 1..Len(n) : IsOctets(n[i])
             /\ ValidName(n)
WFStr(s)  == IsOctets(s) /\ Len(s) <= 255
IsU8(v)   == v \in 0..255
IsU16(v)  == v \in 0..65535

RECURSIVE WFSub(_, _), WFKind(_, _)
WFSub(es, f) ==
  /\ DOMAIN f = { es[i].n : i \in 1..Len(es) }
  /\ \A i \in 1..Len(es) :
       IF es[i].k = "prefixaddr"
       THEN /\ f.Family \in {1, 2}                                  \* the families RFC 7871 defines
            /\ IsOct(f[es[i].n], IF f.Family = 1 THEN 4 ELSE 16)
            /\ f[es[i].sz] <= 8 * Len(f[es[i].n])
            /\ f.SourceScope <= 8 * Len(f[es[i].n])
       ELSE WFKind(es[i].k, f[es[i].n])
WFKind(k, v) ==
  CASE k = "u8"      -> IsU8(v)
    [] k = "u16"     -> IsU16(v)
    [] k \in DOMAIN FixedWidth -> IsOct(v, FixedWidth[k])
    [] k \in OpaqueKinds -> IsOctets(v)
    [] k \in {"name", "cname"} -> WFName(v)
    [] k = "str"     -> WFStr(v)
    [] k = "strs"    -> \A i \in 1..Len(v) : WFStr(v[i])     \* RFC 1035 s.3.3.14: one or more; the list of NO strings encodes to no
                                                            \* octets at all: it is the RDATA-less form (what a record unpacked
                                                            \* from RDLENGTH 0 holds), never a stray empty string
    [] k = "ostr"    -> Len(v) <= 1 /\ \A i \in 1..Len(v) : WFStr(v[i])
    [] k = "lstrs"   -> \A i \in 1..Len(v) : WFStr(v[i]) /\ Len(v[i]) >= 1
    [] k = "names"   -> \A i \in 1..Len(v) : WFName(v[i])
    [] k = "bitmap"  -> Distinct(v) /\ \A i \in 1..Len(v) : IsU16(v[i])                 \* a set, in any order
    [] k = "bitmap0" -> StrictlyIncreasing(v) /\ \A i \in 1..Len(v) : v[i] \in 1..127
    [] k = "apl"     -> \A i \in 1..Len(v) : WFAplItem(v[i])
    [] k = "opts"    -> \A i \in 1..Len(v) : /\ DOMAIN v[i] = {"code", "f"} /\ IsU16(v[i].code)
                                             /\ WFSub(OptLayoutOf(v[i].code), v[i].f)
    [] k = "svcb"    -> /\ \A i \in 1..Len(v) : /\ DOMAIN v[i] = {"key", "f"} /\ v[i].key \in 0..65534
                                                /\ WFSub(SvcbLayoutOf(v[i].key), v[i].f)
                        /\ \A i, j \in 1..Len(v) : i # j => v[i].key # v[j].key
    [] k = "u32z"    -> IsOct(v, 4)
    [] k = "u32e"    -> v = <<>> \/ IsOct(v, 4)
    [] k = "u16opt"  -> v = <<>> \/ (Len(v) = 1 /\ IsU16(v[1]))
    [] k = "u16list" -> Distinct(v) /\ \A i \in 1..Len(v) : IsU16(v[i])                 \* a set, in any order
    [] k = "alist"   -> Len(v) >= 1 /\ \A i \in 1..Len(v) : IsOct(v[i], 4)
    [] k = "aaaalist" -> Len(v) >= 1 /\ \A i \in 1..Len(v) : IsOct(v[i], 16)

WFField(e, f) ==
  /\ e.n \in DOMAIN f
  /\ IF e.k = "gateway"
     THEN LET sel == GatewaySel(e, f) IN
          CASE sel = 0 -> f[e.n] = <<>>
            [] sel = 1 -> IsOct(f[e.n], 4)
            [] sel = 2 -> IsOct(f[e.n], 16)
            [] sel = 3 -> WFName(f[e.n])
            [] OTHER   -> FALSE
     ELSE WFKind(e.k, f[e.n])
  /\ ("sz" \in DOMAIN e => e.sz \in DOMAIN f /\ f[e.sz] = Len(f[e.n]))       \* the length field tells the truth

WFRdata(t, f) ==
  LET es == FieldsOf(t) IN
  /\ DOMAIN f = { es[i].n : i \in 1..Len(es) }
  /\ \A i \in 1..Len(es) : WFField(es[i], f)

WFRR(rr) ==
  /\ DOMAIN rr = {"name", "type", "class", "ttl", "nodata", "f"}
  /\ WFName(rr.name) /\ IsU16(rr.type) /\ IsU16(rr.class) /\ IsOct(rr.ttl, 4) /\ rr.nodata \in BOOLEAN
  /\ (~rr.nodata => WFRdata(rr.type, rr.f) /\ LenRdata(rr) <= 65535)

WFHdr(h) ==
  /\ DOMAIN h = {"id", "qr", "opcode", "aa", "tc", "rd", "ra", "z", "ad", "cd", "rcode"}
  /\ IsU16(h.id) /\ h.opcode \in 0..15 /\ h.rcode \in 0..4095
  /\ \A b \in {"qr", "aa", "tc", "rd", "ra", "z", "ad", "cd"} : h[b] \in BOOLEAN

WFQuestion(q) == DOMAIN q = {"name", "qtype", "qclass"} /\ WFName(q.name) /\ IsU16(q.qtype) /\ IsU16(q.qclass)

(* RFC 6891 s.6.1.1: at most one OPT, in the additional section.               *)
WFMsg(m) ==
  /\ DOMAIN m = {"hdr", "q", "an", "ns", "ar"}
  /\ WFHdr(m.hdr)
  /\ \A i \in 1..Len(m.q) : WFQuestion(m.q[i])
  /\ \A i \in 1..Len(m.an) : WFRR(m.an[i]) /\ ~IsOpt(m.an[i])
  /\ \A i \in 1..Len(m.ns) : WFRR(m.ns[i]) /\ ~IsOpt(m.ns[i])
  /\ \A i \in 1..Len(m.ar) : WFRR(m.ar[i])
  /\ Cardinality({ i \in 1..Len(m.ar) : IsOpt(m.ar[i]) }) <= 1
  /\ Len(m.q) <= 65535 /\ Len(m.an) <= 65535 /\ Len(m.ns) <= 65535 /\ Len(m.ar) <= 65535

-----------------------------------------------------------------------------
(* Reference decoder.  Framing: strict RFC 1035 -- counts honoured, RDLENGTH   *)
(* exact, whole input consumed.  Names may use compression pointers (DecName). *)
(* A decoded record is [name, type, class, ttl, rdata].                        *)

DecHeader(b) ==
  LET f1 == b[3]  f2 == b[4] IN
  [id |-> b[1] * 256 + b[2],
   qr |-> f1 \div 128 = 1, opcode |-> (f1 \div 8) % 16, aa |-> (f1 \div 4) % 2 = 1,
   tc |-> (f1 \div 2) % 2 = 1, rd |-> f1 % 2 = 1,
   ra |-> f2 \div 128 = 1, z |-> (f2 \div 64) % 2 = 1, ad |-> (f2 \div 32) % 2 = 1,
   cd |-> (f2 \div 16) % 2 = 1, rcode |-> f2 % 16]

Fail(why) == [ok |-> FALSE, why |-> why]

DecQuestion(b, off) ==
  LET d == DecName(b, off) IN
  IF ~d.ok THEN Fail("qname")
  ELSE IF d.next + 4 > Len(b) THEN Fail("short")
  ELSE [ok |-> TRUE, next |-> d.next + 4,
        q |-> [name |-> d.name, qtype |-> b[d.next + 1] * 256 + b[d.next + 2],
               qclass |-> b[d.next + 3] * 256 + b[d.next + 4]]]

DecRRFrame(b, off) ==
  LET d == DecName(b, off) IN
  IF ~d.ok THEN Fail("owner")
  ELSE IF d.next + 10 > Len(b) THEN Fail("short")
  ELSE LET o == d.next
           rdlen == b[o + 9] * 256 + b[o + 10] IN
       IF o + 10 + rdlen > Len(b) THEN Fail("rdlength")
       ELSE [ok |-> TRUE, next |-> o + 10 + rdlen,
             rr |-> [name |-> d.name, type |-> b[o + 1] * 256 + b[o + 2], class |-> b[o + 3] * 256 + b[o + 4],
                     ttl |-> Sub(b, o + 5, o + 8), rdata |-> Sub(b, o + 11, o + 10 + rdlen)]]

RECURSIVE DecQuestions(_, _, _, _), DecRRs(_, _, _, _)
DecQuestions(b, off, n, acc) ==
  IF n = 0 THEN [ok |-> TRUE, next |-> off, items |-> acc]
  ELSE LET d == DecQuestion(b, off) IN
       IF ~d.ok THEN d ELSE DecQuestions(b, d.next, n - 1, Append(acc, d.q))
DecRRs(b, off, n, acc) ==
  IF n = 0 THEN [ok |-> TRUE, next |-> off, items |-> acc]
  ELSE LET d == DecRRFrame(b, off) IN
       IF ~d.ok THEN d ELSE DecRRs(b, d.next, n - 1, Append(acc, d.rr))

\* the 12-bit RCODE re-joined: upper 8 bits from the OPT record's TTL, if there is one
JoinRcode(h, ar) ==
  LET opts == { i \in 1..Len(ar) : ar[i].type = TypeOPT } IN
  IF opts = {} THEN h
  ELSE [h EXCEPT !.rcode = @ + 16 * ar[CHOOSE i \in opts : \A j \in opts : j <= i].ttl[1]]

DecMsg(b) ==
  IF Len(b) < 12 \/ ~IsOctets(b) THEN Fail("header")
  ELSE LET cnt(i) == b[2 * i + 3] * 256 + b[2 * i + 4]          \* i = 1..4: QD AN NS AR
           dq == DecQuestions(b, 12, cnt(1), <<>>) IN
    IF ~dq.ok THEN dq ELSE
    LET dan == DecRRs(b, dq.next, cnt(2), <<>>) IN
    IF ~dan.ok THEN dan ELSE
    LET dns == DecRRs(b, dan.next, cnt(3), <<>>) IN
    IF ~dns.ok THEN dns ELSE
    LET dar == DecRRs(b, dns.next, cnt(4), <<>>) IN
    IF ~dar.ok THEN dar
    ELSE IF dar.next # Len(b) THEN Fail("trailing")
    ELSE [ok |-> TRUE,
          msg |-> [hdr |-> JoinRcode(DecHeader(b), dar.items), q |-> dq.items,
                   an |-> dan.items, ns |-> dns.items, ar |-> dar.items]]

\* the framing view of an abstract message (what DecMsg must return for EncMsg(m))
FrameRR(rr)  == [name |-> rr.name, type |-> rr.type, class |-> rr.class, ttl |-> rr.ttl, rdata |-> RdataOf(rr)]
FrameSec(s)  == [i \in 1..Len(s) |-> FrameRR(s[i])]
FrameMsg(m)  == LET n == NormMsg(m) IN
                [hdr |-> n.hdr, q |-> n.q, an |-> FrameSec(n.an), ns |-> FrameSec(n.ns), ar |-> FrameSec(n.ar)]

(* RDATA decoder for the regular kinds; other kinds yield ok = FALSE with      *)
(* why = "nodecoder" (they are checked through the encoder only).              *)
DecodableKinds == {"u8", "u16", "u32", "u48", "u64", "a", "aaaa", "name", "cname", "str", "strs", "ostr",
                   "hex", "b64", "raw", "octet", "b32", "names"}

RECURSIVE DecStrs(_, _, _), DecNames(_, _, _)
DecStrs(b, off, acc) ==
  IF off = Len(b) THEN [ok |-> TRUE, v |-> acc]
  ELSE IF off + 1 + b[off + 1] > Len(b) THEN Fail("str")
  ELSE DecStrs(b, off + 1 + b[off + 1], Append(acc, Sub(b, off + 2, off + 1 + b[off + 1])))
DecNames(b, off, acc) ==
  IF off = Len(b) THEN [ok |-> TRUE, v |-> acc]
  ELSE LET d == DecName(b, off) IN
       IF ~d.ok \/ d.hops > 0 THEN Fail("name") ELSE DecNames(b, d.next, Append(acc, d.name))

RECURSIVE DecFields(_, _, _, _, _)
DecFields(es, i, b, off, f) ==
  IF i > Len(es) THEN (IF off = Len(b) THEN [ok |-> TRUE, f |-> f] ELSE Fail("rdlength"))
  ELSE LET e == es[i]  k == e.k
           fixed(w) == IF off + w > Len(b) THEN Fail("short")
                       ELSE DecFields(es, i + 1, b, off + w, (e.n :> Sub(b, off + 1, off + w)) @@ f)
       IN
    IF k \notin DecodableKinds THEN Fail("nodecoder")
    ELSE IF k = "u8" THEN
      (IF off + 1 > Len(b) THEN Fail("short") ELSE DecFields(es, i + 1, b, off + 1, (e.n :> b[off + 1]) @@ f))
    ELSE IF k = "u16" THEN
      (IF off + 2 > Len(b) THEN Fail("short")
       ELSE DecFields(es, i + 1, b, off + 2, (e.n :> b[off + 1] * 256 + b[off + 2]) @@ f))
    ELSE IF k \in DOMAIN FixedWidth THEN fixed(FixedWidth[k])
    ELSE IF k \in {"name", "cname"} THEN
      (LET d == DecName(b, off) IN
       IF ~d.ok \/ d.hops > 0 THEN Fail("name") ELSE DecFields(es, i + 1, b, d.next, (e.n :> d.name) @@ f))
    ELSE IF k = "str" THEN
      (IF off + 1 > Len(b) \/ off + 1 + b[off + 1] > Len(b) THEN Fail("str")
       ELSE DecFields(es, i + 1, b, off + 1 + b[off + 1], (e.n :> Sub(b, off + 2, off + 1 + b[off + 1])) @@ f))
    ELSE IF k \in {"strs", "ostr"} THEN
      (LET d == DecStrs(b, off, <<>>) IN
       IF ~d.ok THEN d ELSE DecFields(es, i + 1, b, Len(b), (e.n :> d.v) @@ f))
    ELSE IF k = "names" THEN
      (LET d == DecNames(b, off, <<>>) IN
       IF ~d.ok THEN d ELSE DecFields(es, i + 1, b, Len(b), (e.n :> d.v) @@ f))
    ELSE IF "sz" \in DOMAIN e THEN fixed(f[e.sz])                      \* sized opaque
    ELSE DecFields(es, i + 1, b, Len(b), (e.n :> Sub(b, off + 1, Len(b))) @@ f)   \* opaque to the end

DecRdata(t, rd) == DecFields(FieldsOf(t), 1, rd, 0, <<>>)
Decodable(t)    == \A i \in 1..Len(FieldsOf(t)) : FieldsOf(t)[i].k \in DecodableKinds

-----------------------------------------------------------------------------
(* C08's exactness clause speaks of messages made of the common types whose   *)
(* names and character-strings need no escape sequence in presentation form:  *)
(* in a name every octet is printable and not special (Names!PresOctet), in a *)
(* character-string every octet is printable and neither quote nor backslash. *)
CommonTypes == {1, 28, 2, 5, 6, 12, 15, 33, 16, 39, 14, 17, 18, 36, 35, 13}
    \* A AAAA NS CNAME SOA PTR MX SRV TXT DNAME MINFO RP AFSDB KX NAPTR HINFO

NameEscapeFree(n) == \A i \in 1..Len(n) : \A j \in 1..Len(n[i]) : Len(PresOctet(n[i][j])) = 1
StrEscapeFree(s)  == \A j \in 1..Len(s) : s[j] >= 32 /\ s[j] <= 126 /\ s[j] # 34 /\ s[j] # 92

PlainField(e, f) ==
  LET v == f[e.n] IN
  CASE e.k \in {"name", "cname"} -> NameEscapeFree(v)
    [] e.k = "str"  -> StrEscapeFree(v)
    [] e.k = "strs" -> \A i \in 1..Len(v) : StrEscapeFree(v[i])
    [] OTHER -> TRUE
PlainRR(rr) ==
  /\ ~rr.nodata /\ rr.type \in CommonTypes /\ NameEscapeFree(rr.name)
  /\ \A i \in 1..Len(FieldsOf(rr.type)) : PlainField(FieldsOf(rr.type)[i], rr.f)
PlainMsg(m) ==
  /\ \A i \in 1..Len(m.q) : NameEscapeFree(m.q[i].name)
  /\ \A i \in 1..Len(m.an) : PlainRR(m.an[i])
  /\ \A i \in 1..Len(m.ns) : PlainRR(m.ns[i])
  /\ \A i \in 1..Len(m.ar) : PlainRR(m.ar[i])

-----------------------------------------------------------------------------
(* The packing plan of a message: the names EncMsg emits, in order, each with  *)
(* the offset it starts at and whether RFC 3597 s.4 lets a sender compress it  *)
(* (owner names, question names and cname fields).  Used by Compress (C04/C08).*)

PlanRdata(rr, off0) ==     \* names inside RDATA with their offsets
  IF rr.nodata THEN <<>>
  ELSE LET es == FieldsOf(rr.type)
           offAt(i) == off0 + SumSeq([j \in 1..(i - 1) |-> LenField(es[j], rr.f)])
           item(i) ==
             LET e == es[i] IN
             IF e.k \in {"name", "cname"} THEN << [n |-> rr.f[e.n], c |-> e.k = "cname", off |-> offAt(i)] >>
             ELSE IF e.k = "gateway" /\ GatewaySel(e, rr.f) = 3 THEN << [n |-> rr.f[e.n], c |-> FALSE, off |-> offAt(i)] >>
             ELSE IF e.k = "names" THEN
               [j \in 1..Len(rr.f[e.n]) |->
                  [n |-> rr.f[e.n][j], c |-> FALSE,
                   off |-> offAt(i) + SumSeq([x \in 1..(j - 1) |-> WireLen(rr.f[e.n][x])])]]
             ELSE <<>>
       IN Concat([i \in 1..Len(es) |-> item(i)])

PlanMsg(m) ==
  LET rrs == m.an \o m.ns \o m.ar
      offs == RROffsets(m)
      qoff(i) == 12 + SumSeq([j \in 1..(i - 1) |-> LenQuestion(m.q[j])])
  IN Concat([i \in 1..Len(m.q) |-> << [n |-> m.q[i].name, c |-> TRUE, off |-> qoff(i)] >>])
     \o Concat([i \in 1..Len(rrs) |->
          << [n |-> rrs[i].name, c |-> TRUE, off |-> offs[i]] >>
          \o PlanRdata(rrs[i], offs[i] + WireLen(rrs[i].name) + 10)])
=============================================================================
