-------------------------------- MODULE Sig0 --------------------------------
(* Property C18: SIG(0) transaction signatures (RFC 2931) as sig0.go must      *)
(* produce and accept them.                                                    *)
(*                                                                             *)
(* The message octets are an opaque INPUT here (the wire codec is property     *)
(* C01): this module only walks enough of a message -- header counts, names    *)
(* through Names!DecName, the fixed part of each RR -- to find the last record  *)
(* and to patch ARCOUNT.  The signature primitive is uninterpreted (DESIGN     *)
(* 1.3): the module fixes the octet string that is signed, the harness applies *)
(* crypto/rsa, ecdsa, ed25519 to it.                                           *)
(*                                                                             *)
(* RFC 2931 section 4.1.8.1 / 3.1:                                              *)
(*    data = SIG RDATA without the signature field | full message before the    *)
(*           SIG RR was added (so with the ARCOUNT that does not count it)     *)
(*    the SIG RR: owner root, type SIG (24), class ANY (255), TTL 0,            *)
(*    type covered 0, labels 0, original TTL 0; it is the last record of the    *)
(*    additional section and ARCOUNT counts it.                                *)
EXTENDS Names

-----------------------------------------------------------------------------
(* header counts; k = 0 QD, 1 AN, 2 NS, 3 AR (octets 4+2k, 5+2k, 0-based)      *)
HeaderSize == 12
Count(msg, k) == msg[2*k + 5] * 256 + msg[2*k + 6]
QD(msg) == Count(msg, 0)
AN(msg) == Count(msg, 1)
NS(msg) == Count(msg, 2)
AR(msg) == Count(msg, 3)
PatchAR(msg, n) == [i \in 1..Len(msg) |-> IF i = 11 THEN (n \div 256) % 256 ELSE IF i = 12 THEN n % 256 ELSE msg[i]]

(* Skip n questions from 0-based offset off: name, type, class.  -1 = malformed *)
RECURSIVE SkipQs(_, _, _)
SkipQs(msg, off, n) ==
  IF n = 0 THEN off
  ELSE LET d == DecName(msg, off) IN
       IF ~d.ok THEN -1
       ELSE IF d.next + 4 > Len(msg) THEN -1
       ELSE SkipQs(msg, d.next + 4, n - 1)

(* Skip n resource records: name, type(2) class(2) ttl(4) rdlength(2) rdata.   *)
(* end = offset after the last one, last = offset where the last one starts.   *)
RECURSIVE SkipRRs(_, _, _, _)
SkipRRs(msg, off, n, last) ==
  IF n = 0 THEN [ok |-> TRUE, end |-> off, last |-> last]
  ELSE LET d == DecName(msg, off) IN
       IF ~d.ok THEN [ok |-> FALSE, end |-> off, last |-> last]
       ELSE IF d.next + 10 > Len(msg) THEN [ok |-> FALSE, end |-> off, last |-> last]
       ELSE LET rdlen == msg[d.next + 9] * 256 + msg[d.next + 10] IN
            IF d.next + 10 + rdlen > Len(msg) THEN [ok |-> FALSE, end |-> off, last |-> last]
            ELSE SkipRRs(msg, d.next + 10 + rdlen, n - 1, off)

(* The whole message: ok iff the counts describe exactly the octets present.   *)
Walk(msg) ==
  IF Len(msg) < HeaderSize THEN [ok |-> FALSE, end |-> 0, last |-> -1]
  ELSE LET q == SkipQs(msg, HeaderSize, QD(msg)) IN
       IF q < 0 THEN [ok |-> FALSE, end |-> 0, last |-> -1]
       ELSE LET r == SkipRRs(msg, q, AN(msg) + NS(msg) + AR(msg), -1) IN
            [ok |-> r.ok /\ r.end = Len(msg), end |-> r.end, last |-> r.last]

-----------------------------------------------------------------------------
(* The SIG RR.  f: [alg, exp, inc, keytag, signer] with exp / inc 4-octet      *)
(* strings (32-bit values do not fit TLC integers) and signer a label sequence.*)
TypeSIG  == 24
ClassANY == 255
Zero4 == <<0, 0, 0, 0>>
SigRdataSans(f) ==
  U16(0) \o <<f.alg, 0>> \o Zero4 \o f.exp \o f.inc \o U16(f.keytag) \o EncName(f.signer)
SigRRHeader == <<0>> \o U16(TypeSIG) \o U16(ClassANY) \o Zero4          \* owner root, type, class, TTL
SigRR(rs, sig) == SigRRHeader \o U16(Len(rs) + Len(sig)) \o rs \o sig

SignedOctets(msg, rs) == rs \o msg
Output(msg, rs, sig)  == PatchAR(msg, AR(msg) + 1) \o SigRR(rs, sig)

(* the hash applied before the signature primitive (RFC 3110, 5702, 6605, 8080) *)
SigHash(alg) == CASE alg = 5 -> "sha1" [] alg = 7 -> "sha1" [] alg = 8 -> "sha256" [] alg = 10 -> "sha512"
                  [] alg = 13 -> "sha256" [] alg = 14 -> "sha384" [] alg = 15 -> "none" [] OTHER -> "unsupported"

(* Judging a recorded Sign: msg = the message packed before signing, out = what *)
(* Sign returned.  "" = as specified, otherwise the clause that is violated.   *)
(* The result is a function of the message and of the five fields a caller     *)
(* sets (f: algorithm, expiration, inception, key tag, signer): whatever else  *)
(* the SIG value held before the call -- an owner name, class, TTL, type       *)
(* covered, labels, original TTL, an earlier signature -- has no part in it    *)
(* (the SIG RR is owned by the root ... see above).                            *)
(* AMBIG: the statement does not say whether the signer name keeps its case;   *)
(* both the given and the lower-cased spelling are admitted.                   *)
LayoutFault(msg, f, out) ==
  LET L   == Len(msg)
      rsA == SigRdataSans(f)
      rsB == SigRdataSans([f EXCEPT !.signer = LowerName(f.signer)])
      R   == Len(rsA)
      mask(m) == PatchAR(m, 0)
  IN IF Len(out) <= L + 11 + R THEN ":too-short"
     ELSE IF mask(Take(out, L)) # mask(msg) THEN ":message-octets"
     ELSE IF AR(out) # AR(msg) + 1 THEN ":arcount"
     ELSE IF Sub(out, L + 1, L + 9) # SigRRHeader THEN ":rr-header"
     ELSE IF out[L + 10] * 256 + out[L + 11] # Len(out) - L - 11 THEN ":rdlength"
     ELSE IF Sub(out, L + 12, L + 11 + R) \notin {rsA, rsB} THEN ":rdata"
     ELSE LET w == Walk(out) IN
          IF ~(w.ok /\ w.last = L) THEN ":not-last-record" ELSE ""

(* where things are in a correctly laid out result: 0-based [from, to] ranges   *)
(* and what a single altered bit there must lead to                            *)
Regions(msg, rs, siglen) ==
  LET L == Len(msg) IN
  << [from |-> 0,      to |-> L - 1,                       must |-> "reject",  what |-> "message"],
     [from |-> L,      to |-> L + 10,                      must |-> "nopanic", what |-> "sigrr-header"],   \* AMBIG: owner/type/class/TTL/RDLENGTH of the SIG RR are neither message nor RDATA
     [from |-> L + 11, to |-> L + 10 + Len(rs) + siglen,   must |-> "reject",  what |-> "sig-rdata"] >>

(* The fields of the SIG RDATA in front of the signature, by name: 0-based      *)
(* [from, to] ranges in a correctly laid out result.  "Any octet of the SIG     *)
(* RDATA altered" is any OTHER VALUE of the octet, not only the eight values a  *)
(* single bit away: the one-octet fields (algorithm, labels) range over all of  *)
(* 0..255 -- numbers of algorithms the library supports, knows by name only     *)
(* (RSAMD5 1, DSA 3, ECC-GOST 12, ED448 16, INDIRECT 252 ...), or not at all -- *)
(* and each must be refused with an error, not a panic.                         *)
RdataFields(msg, rs) ==
  LET b == Len(msg) + 11 IN
  << [from |-> b,      to |-> b + 1,            must |-> "reject", what |-> "type-covered"],
     [from |-> b + 2,  to |-> b + 2,            must |-> "reject", what |-> "algorithm"],
     [from |-> b + 3,  to |-> b + 3,            must |-> "reject", what |-> "labels"],
     [from |-> b + 4,  to |-> b + 7,            must |-> "reject", what |-> "original-ttl"],
     [from |-> b + 8,  to |-> b + 11,           must |-> "reject", what |-> "expiration"],
     [from |-> b + 12, to |-> b + 15,           must |-> "reject", what |-> "inception"],
     [from |-> b + 16, to |-> b + 17,           must |-> "reject", what |-> "key-tag"],
     [from |-> b + 18, to |-> b + Len(rs) - 1,  must |-> "reject", what |-> "signer"] >>

(* What Sign returns belongs to the caller: it is a VALUE.  Whatever the        *)
(* library does afterwards -- signing the next message, with the same or        *)
(* another SIG value -- the octets a caller holds are the ones he was given     *)
(* (atReturn: as they were when Sign returned; later: as they are after later   *)
(* calls into the library).  Trace_Sig0: field `stable' of a sign event.        *)
ResultStable(atReturn, later) == later = atReturn

-----------------------------------------------------------------------------
(* The verifier's view of received octets: the last record is the SIG RR.      *)
(* AMBIG: the statement does not say that a compressed signer name must be     *)
(* refused; DecName follows pointers like the library does.                    *)
View(buf) ==
  LET w == Walk(buf) IN
  IF ~w.ok \/ w.last < HeaderSize \/ AR(buf) = 0 THEN [ok |-> FALSE]
  ELSE LET o == DecName(buf, w.last) IN              \* owner of the last record
       IF ~o.ok \/ o.next + 10 + 18 > Len(buf) THEN [ok |-> FALSE]
       ELSE LET rd == o.next + 10                    \* 0-based start of RDATA
                s  == DecName(buf, rd + 18) IN
            IF ~s.ok THEN [ok |-> FALSE]
            ELSE [ok     |-> TRUE,
                  type   |-> buf[o.next + 1] * 256 + buf[o.next + 2],
                  alg    |-> buf[rd + 3],
                  exp    |-> Sub(buf, rd + 9, rd + 12),
                  inc    |-> Sub(buf, rd + 13, rd + 16),
                  keytag |-> buf[rd + 17] * 256 + buf[rd + 18],
                  signer |-> s.name,
                  signed |-> Sub(buf, rd + 1, s.next) \o PatchAR(Take(buf, w.last), AR(buf) - 1),
                  sig    |-> Drop(buf, s.next),
                  ar     |-> AR(buf)]

(* Verification is a FUNCTION of the received octets, the KEY and the time: it *)
(* has no effect on the octets (the caller's buffer is the same after the call, *)
(* whatever is returned), so a sequence of verifications of one buffer is       *)
(* judged call by call (Trace_Sig0: field `unchanged', "after-" events).        *)
LE4(a, b) == a = b \/ LexLess(a, b)                   \* unsigned 32-bit values as 4 octets
(* sigvalid: the primitive accepted view.sig over view.signed under the key    *)
(* Names are compared as domain names (RFC 4343): label by label, octet by     *)
(* octet, the 26 ASCII letter pairs alike and nothing else (Bytes!Lower).      *)
Accept0(v, keyowner, now, sigvalid) ==
  /\ v.ok
  /\ sigvalid
  /\ LowerName(v.signer) = LowerName(keyowner)
  /\ LE4(v.inc, now) /\ LE4(now, v.exp)

(* SIG.Verify is a method of a SIG value rr = [inc, exp, keytag, signer]: the    *)
(* record unpacked from buf, or -- as the library's own tests do -- the value   *)
(* the sender signed with, which may have signed other messages with other     *)
(* windows since.  "The inception-expiration window", the signer and the       *)
(* signature are those of the SIGNED octets: rr does not occur on the right.   *)
(* AMBIG: the algorithm (the hash to apply) is taken from rr by the library;   *)
(* the recorded values carry the algorithm of the message.                     *)
VerifyOn(rr, buf, keyowner, now, sigvalid) == Accept0(View(buf), keyowner, now, sigvalid)
=============================================================================
