CONSTANTS
  MaxLabel = 63
  MaxName = 255
  Scale = 1
INIT Init
NEXT Next
INVARIANTS WellFormed Lengths RoundTrip RcodeSplit Fields Plan
CHECK_DEADLOCK FALSE
