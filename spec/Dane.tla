-------------------------------- MODULE Dane --------------------------------
(* DANE helpers (dane.go, tlsa.go, smimea.go): the certificate association      *)
(* data of TLSA / SMIMEA records (RFC 6698 2.1, RFC 8162 2) and the owner names *)
(* (RFC 6698 3, RFC 8162 3).                                                    *)
(*                                                                              *)
(* The digests are UNINTERPRETED: the specification says which octets are       *)
(* hashed, with which function, how much of the result is kept and how it is    *)
(* rendered.  The binding supplies the function as a finite table               *)
(*      Table = set of [alg, pre, dig]    dig = alg(pre)                        *)
(* computed with crypto/sha256 and crypto/sha512 for a set of candidate         *)
(* pre-images (the right ones and decoys); the specification picks by pre-image.*)
(*                                                                              *)
(* A certificate is what RFC 6698 needs of it:  [raw, spki]                     *)
(*   raw   the DER encoding of the Certificate (RFC 5280)                       *)
(*   spki  the DER encoding of its SubjectPublicKeyInfo                         *)
(* Text is a sequence of character codes.                                       *)
EXTENDS Bytes

\* ---- rendering
HexDigitL(n) == IF n < 10 THEN 48 + n ELSE 87 + n            \* 0-9 a-f
HexL(s) == Concat([i \in 1..Len(s) |-> << HexDigitL(s[i] \div 16), HexDigitL(s[i] % 16) >>])

\* the value of a hexadecimal digit of either case, -1 if it is none  (RFC 4648 8: base16 is
\* case-insensitive; RFC 6698 2.2: "a string of hexadecimal characters")
HexVal(c) == IF c >= 48 /\ c <= 57 THEN c - 48
             ELSE IF c >= 97 /\ c <= 102 THEN c - 87
             ELSE IF c >= 65 /\ c <= 70 THEN c - 55
             ELSE -1
IsHex(t) == Len(t) % 2 = 0 /\ \A i \in 1..Len(t) : HexVal(t[i]) >= 0
UnHex(t) == [i \in 1..(Len(t) \div 2) |-> HexVal(t[2 * i - 1]) * 16 + HexVal(t[2 * i])]

RECURSIVE Dec(_)
Dec(n) == IF n < 10 THEN << 48 + n >> ELSE Dec(n \div 10) \o << 48 + (n % 10) >>

\* ---- the uninterpreted digests
HasDigest(Table, alg, x) == \E e \in Table : e.alg = alg /\ e.pre = x
Digest(Table, alg, x)    == (CHOOSE e \in Table : e.alg = alg /\ e.pre = x).dig

-----------------------------------------------------------------------------
(* RFC 6698 2.1.2 selector: 0 = full certificate, 1 = SubjectPublicKeyInfo;     *)
(* 2.1.3 matching type: 0 = exact match, 1 = SHA-256, 2 = SHA-512.              *)
Selectors == {0, 1}
Matchings == {0, 1, 2}
Supported(sel, mt) == sel \in Selectors /\ mt \in Matchings

Selected(sel, cert) == IF sel = 0 THEN cert.raw ELSE cert.spki
MatchAlg(mt) == IF mt = 1 THEN "sha256" ELSE "sha512"

\* the certificate association data, as octets
Association(Table, sel, mt, cert) ==
  IF mt = 0 THEN Selected(sel, cert) ELSE Digest(Table, MatchAlg(mt), Selected(sel, cert))

\* CertificateToDANE(selector, matchingType, cert): [ok, text]
CertificateToDANE(Table, sel, mt, cert) ==
  IF Supported(sel, mt) THEN [ok |-> TRUE, text |-> HexL(Association(Table, sel, mt, cert))]
  ELSE [ok |-> FALSE, text |-> <<>>]

\* TLSA.Sign / SMIMEA.Sign(usage, selector, matchingType int, cert) on a record whose header is hdr.
\* The arguments are Go ints; the fields are 8 bits wide (RFC 6698 2.1).
\*   selector / matching type outside the supported values: error -- also when the value
\*   only becomes a supported one by truncation to 8 bits (256 is not selector 0)
\*   AMBIG: a usage outside 0..255 -- the library does not interpret usages; either an error
\*   or the usage modulo 256 is admitted
InU8(n) == n >= 0 /\ n <= 255
Sign(Table, rrtype, usage, sel, mt, cert) ==
  IF ~Supported(sel, mt) THEN [ok |-> FALSE]
  ELSE [ok |-> TRUE, rrtype |-> rrtype, usage |-> usage % 256, selector |-> sel, matching |-> mt,
        text |-> HexL(Association(Table, sel, mt, cert))]
SignMayFail(usage, sel, mt) == ~Supported(sel, mt) \/ ~InU8(usage)
SignMaySucceed(usage, sel, mt) == Supported(sel, mt)

\* TLSA.Verify / SMIMEA.Verify(cert): nil iff the record's selector and matching type are
\* supported and its association data (hexadecimal text of EITHER case) is what the certificate gives
Verify(Table, sel, mt, text, cert) ==
  /\ Supported(sel, mt)
  /\ IsHex(text)
  /\ UnHex(text) = Association(Table, sel, mt, cert)

-----------------------------------------------------------------------------
(* Owner names.  RFC 6698 3: "_" port (decimal, no leading zeros) "." "_"        *)
(* protocol "." base domain name.                                               *)
Dot == 46
Underscore == 95
IsRootName(n) == n = << Dot >>
IsFqdnText(n) == n # <<>> /\ n[Len(n)] = Dot /\ (Len(n) = 1 \/ n[Len(n) - 1] # 92)
\* prefix labels in front of a fully qualified name (the root is written ".")
Prepend(labels, name) == Concat([i \in 1..Len(labels) |-> labels[i] \o << Dot >>]) \o (IF IsRootName(name) THEN <<>> ELSE name)

AllDigits(t) == t # <<>> /\ \A i \in 1..Len(t) : IsDigit(t[i])
RECURSIVE DecVal(_)
DecVal(t) == IF t = <<>> THEN 0 ELSE LET r == DecVal(SubSeq(t, 1, Len(t) - 1)) IN
             IF r > 65535 THEN r ELSE r * 10 + (t[Len(t)] - 48)          \* saturates above the port range

\* service names the checks use (IANA service name registry): name |-> port, per protocol.
\* Which further (name, protocol) pairs exist depends on the system's services database: for a
\* registered name with a protocol not listed here the specification says nothing (Unknown).
Services == { [svc |-> "https", net |-> "tcp", port |-> 443], [svc |-> "smtp", net |-> "tcp", port |-> 25],
              [svc |-> "domain", net |-> "udp", port |-> 53], [svc |-> "domain", net |-> "tcp", port |-> 53],
              [svc |-> "imaps", net |-> "tcp", port |-> 993] }

\* the port of a service: a decimal number <= 65535 or a registered name; -1 = none, Unknown
\* (svcname: the service as a TLA+ string when it is one of the registered names, else "")
Unknown == -2
PortOf(service, svcname, network) ==
  IF AllDigits(service) THEN (IF DecVal(service) <= 65535 THEN DecVal(service) ELSE -1)
  ELSE IF \E s \in Services : s.svc = svcname /\ s.net = network THEN (CHOOSE s \in Services : s.svc = svcname /\ s.net = network).port
  ELSE IF \E s \in Services : s.svc = svcname THEN Unknown
  ELSE -1
TLSANameDefined(service, svcname, network) == PortOf(service, svcname, network) # Unknown

\* TLSAName(name, service, network): [ok, text].  nettext = the network as text
TLSAName(name, service, svcname, network, nettext) ==
  LET p == PortOf(service, svcname, network) IN
  IF ~IsFqdnText(name) \/ p = -1 THEN [ok |-> FALSE, text |-> <<>>]
  ELSE [ok |-> TRUE, text |-> Prepend(<< << Underscore >> \o Dec(p), << Underscore >> \o nettext >>, name)]

\* RFC 8162 3: the local-part (octets) "is hashed using the SHA2-256 algorithm, with the hash
\* truncated to 28 octets and represented in its hexadecimal representation, to become the
\* left-most label"; "_smimecert" the second; then the domain.
SmimeLabel == << 95, 115, 109, 105, 109, 101, 99, 101, 114, 116 >>          \* "_smimecert"
SMIMEAName(Table, local, domain) ==
  [ok |-> TRUE, text |-> Prepend(<< HexL(Take(Digest(Table, "sha256", local), 28)), SmimeLabel >>, domain)]
\* AMBIG: a domain that is not fully qualified -- TLSAName refuses it, SMIMEAName's comment says
\* nothing; an error or the plain concatenation are admitted
SMIMEAMayFail(domain) == ~IsFqdnText(domain)
=============================================================================
