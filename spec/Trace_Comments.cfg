INIT Init
NEXT Next
POSTCONDITION Accepted
CHECK_DEADLOCK FALSE
