------------------------------- MODULE Bytes -------------------------------
(* Octet strings and big-endian integers: the vocabulary of every wire-format  *)
(* module.  An octet string is a sequence over 0..255.  Text (presentation     *)
(* format) is also a sequence of octets -- the character codes.                *)
EXTENDS Integers, Sequences, FiniteSets, TLC

Octet == 0..255

IsOctets(s) == \A i \in 1..Len(s) : s[i] \in Octet

Min(a, b) == IF a < b THEN a ELSE b
Max(a, b) == IF a > b THEN a ELSE b

RECURSIVE Pow2(_)
Pow2(n) == IF n = 0 THEN 1 ELSE 2 * Pow2(n - 1)

\* big-endian encoders
U8(v)  == << v % 256 >>
U16(v) == << (v \div 256) % 256, v % 256 >>
U32(v) == << (v \div 16777216) % 256, (v \div 65536) % 256, (v \div 256) % 256, v % 256 >>

\* big-endian decoder of a whole octet string
RECURSIVE BE(_)
BE(s) == IF s = <<>> THEN 0 ELSE BE(SubSeq(s, 1, Len(s) - 1)) * 256 + s[Len(s)]

\* s[a..b] with 1-based inclusive bounds, empty when b < a
Sub(s, a, b) == IF b < a THEN <<>> ELSE SubSeq(s, a, b)
Drop(s, n)   == Sub(s, n + 1, Len(s))
Take(s, n)   == Sub(s, 1, Min(n, Len(s)))

RECURSIVE Concat(_)
Concat(ss) == IF ss = <<>> THEN <<>> ELSE Head(ss) \o Concat(Tail(ss))

\* TLC integers are 32-bit signed: U32 is for v < 2^31 only.  Wider quantities
\* (TTLs >= 2^31, 48-bit times, 64-bit ids) are carried as octet strings or
\* as 16-bit limbs (most significant first) and encoded with Limbs.
Limbs(ls) == Concat([i \in 1..Len(ls) |-> U16(ls[i])])

RECURSIVE SumSeq(_)
SumSeq(s) == IF s = <<>> THEN 0 ELSE Head(s) + SumSeq(Tail(s))

\* ASCII case folding, the only folding DNS knows (RFC 4343)
LowerOctet(b) == IF b >= 65 /\ b <= 90 THEN b + 32 ELSE b
Lower(s) == [i \in 1..Len(s) |-> LowerOctet(s[i])]

\* octet strings as left-justified unsigned numbers (RFC 4034 section 6.3)
RECURSIVE LexLess(_, _)
LexLess(a, b) ==
  IF a = <<>> THEN b # <<>>
  ELSE IF b = <<>> THEN FALSE
  ELSE IF Head(a) # Head(b) THEN Head(a) < Head(b)
  ELSE LexLess(Tail(a), Tail(b))

IsPrefixOf(p, s) == Len(p) <= Len(s) /\ Sub(s, 1, Len(p)) = p
IsSuffixOf(p, s) == Len(p) <= Len(s) /\ Sub(s, Len(s) - Len(p) + 1, Len(s)) = p

IsDigit(c) == c >= 48 /\ c <= 57
Dec3(b) == << 48 + (b \div 100), 48 + ((b \div 10) % 10), 48 + (b % 10) >>

Range(f) == { f[x] : x \in DOMAIN f }
=============================================================================
