------------------------------ MODULE Gen_Xfr ------------------------------
(* Behaviour export for C15: the universe, the network and the receiver machine *)
(* are those of MC_Xfr (every behaviour = one initial state, run to its end).   *)
(* Gen_Xfr.cfg sets EmitBehaviours: Out writes each finished behaviour with the *)
(* expected observation (envelopes delivered, error, envelopes consumed) to     *)
(* vectors.ndjson; the MC invariants stay switched on, so every exported shard  *)
(* is model-checked as well.  Sharded with Shard / NShards, one worker each.    *)
EXTENDS MC_Xfr
=============================================================================
