CONSTANTS
  Mode = "tcp"
  NStart = 2
  NLsn = 2
  NShut = 1
  NConns = 1
  MaxReq = 1
  NPkts = 0
  CtxMayExpire = FALSE
  PlainShut = {}
  DeadlinesMayFire = FALSE
  ClientMayClose = FALSE
  HandlerMayClose = FALSE
  HandlerMayHijack = FALSE
  StartMayFail = FALSE
  SpareFields = FALSE
  SeqRestart = FALSE
  Bug = "none"
  TrackAct = FALSE
SPECIFICATION Spec
CHECK_DEADLOCK FALSE
PROPERTIES ShutdownTerminates ServeTerminates WorkersEnd LockReleased
