CONSTANTS
  Obj = {1, 2, 3}
  NSlots = 2
  ROOps = {"Pack", "Len", "String", "IsDuplicate", "Copy", "Sign", "Verify"}
INIT Init
NEXT Next
INVARIANTS Sound Out
CHECK_DEADLOCK FALSE
