CONSTANTS
  MaxLabel = 63
  MaxName = 255
  Oct = {0, 1, 97, 127, 128, 255}
  BlobLen = 5
INIT Init
NEXT Next
INVARIANTS CodeInv BlobInv StaticInv RecInv
CHECK_DEADLOCK FALSE
