---------------------------- MODULE Trace_Framing ----------------------------
(* Every decode the real code ACCEPTED (harness `hostile`), judged by the       *)
(* framing walk of the same octets.                                             *)
EXTENDS Framing, TraceBase
VARIABLE l
Ev == Trace[l]
Init == l = 1 /\ HWInit
Next == /\ l <= Len(Trace)
        /\ IF WellFormed(Ev.bytes, Ev) THEN TRUE ELSE MarkBad(l)
        /\ HW(l)
        /\ l' = l + 1
=============================================================================
