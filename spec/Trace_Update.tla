---------------------------- MODULE Trace_Update ----------------------------
(* Events of harness `update`: a message made by SetUpdate(zone) (+ the zone    *)
(* class the caller chose), a sequence of helper calls each on a list of        *)
(* records, and the octets the real Pack produced.  The records the helpers     *)
(* were given travel as stand-alone packed records (`origs').  Judged by        *)
(* walking the message octets with Framing and comparing every record with the  *)
(* RFC 2136 table of Update.tla.                                                *)
EXTENDS Update, TraceBase

VARIABLE l
Ev == Trace[l]

CallOK(c) == c.h \in Helpers /\ \A i \in 1..Len(c.origs) : FrameOfRR(c.origs[i]).ok

Judge(e) ==
  IF e.ev # "update" THEN FALSE
  ELSE
  LET z == Parse(e.zone) IN
  /\ z.st = "ok" /\ \A i \in 1..Len(e.calls) : CallOK(e.calls[i])            \* the recorder's inputs are sane
  /\ LET calls == [i \in 1..Len(e.calls) |->
                     [h |-> e.calls[i].h, rrs |-> [j \in 1..Len(e.calls[i].origs) |-> FrameOfRR(e.calls[i].origs[j]).f]]]
     IN /\ e.ok
        /\ IsUpdateMsg(e.wire, e.id, z.labels, e.zclass, Section("pr", calls, e.zclass), Section("up", calls, e.zclass))

Init == l = 1 /\ HWInit
Next == /\ l <= Len(Trace)
        /\ IF Judge(Ev) THEN TRUE ELSE MarkBad(l)
        /\ HW(l)
        /\ l' = l + 1
=============================================================================
