------------------------------- MODULE Bitmaps -------------------------------
(* Small sub-encodings shared by many records, as pure operators.  The SENDING  *)
(* side of the wire forms is WireRR's (EncBitmap, EncApl: not repeated here);    *)
(* this module adds the RECEIVING side with its strictness classes, and the     *)
(* text forms.                                                                  *)
(*                                                                              *)
(* 1. Type bitmaps (NSEC, NSEC3, CSYNC; RFC 4034 4.1.2): blocks                 *)
(*    window(1) length(1) bitmap(length), "in increasing numerical order";      *)
(*    "Blocks with no types present MUST NOT be included"; length 1..32;        *)
(*    "Trailing zero octets in the bitmap MUST be omitted".                     *)
(* 2. APL items (RFC 3123 4): family(2) prefix(1) N|afdlength(1) afdpart;       *)
(*    families 1 (IPv4, prefix <= 32, afdlength <= 4) and 2 (IPv6, <= 128,      *)
(*    <= 16); "trailing zero octets ... MUST NOT [be] include[d]" (4.1, 4.2);   *)
(*    text "[!]afi:address/prefix" (5).                                         *)
(* 3. LOC SIZE / HORIZ PRE / VERT PRE (RFC 1876 2): one octet, "the mantissa    *)
(*    in the most significant four bits, the exponent in the least significant  *)
(*    four bits", each 0..9, value = mantissa x 10^exponent centimetres; text   *)
(*    (3): metres with at most two decimals, optional "m", 0 .. 90000000.00.    *)
(* 4. EUI-48 / EUI-64 text (RFC 7043 3.2, 4.2): two-digit hexadecimal octets    *)
(*    separated by hyphens; ILNP NodeID / Locator64 text (RFC 6742 2.1.2,       *)
(*    2.3.2): four groups of exactly four hexadecimal digits separated by       *)
(*    colons.                                                                   *)
(* Classes of a received form:                                                  *)
(*    "ok"   what a conforming sender emits: must be accepted, to this value    *)
(*    "lax"  decodable, but a conforming sender would not emit it (AMBIG:       *)
(*           refused, or accepted to this value)                                *)
(*    "bad"  must be refused                                                    *)
EXTENDS WireRR

Rv == INSTANCE Reverse

RECURSIVE StripLeadingZeros(_)
StripLeadingZeros(s) == IF s # <<>> /\ s[1] = 48 THEN StripLeadingZeros(Tail(s)) ELSE s
HexDigitU(n, upper) == IF n < 10 THEN 48 + n ELSE IF upper THEN 55 + n ELSE 87 + n

-----------------------------------------------------------------------------
(* 1. Type bitmaps *)
BitsOf(w, octs) ==      \* the types of one block, increasing
  SelectSeq([k \in 1..(8 * Len(octs)) |-> w * 256 + (k - 1)],
            LAMBDA t : (octs[((t % 256) \div 8) + 1] \div Pow2(7 - (t % 8))) % 2 = 1)

RECURSIVE DecBlocks(_, _, _, _, _)
DecBlocks(b, off, lastw, lax, acc) ==
  IF off = Len(b) THEN [st |-> IF lax THEN "lax" ELSE "ok", types |-> acc]
  ELSE IF off + 2 > Len(b) THEN [st |-> "bad", types |-> <<>>]
  ELSE LET w == b[off + 1]  n == b[off + 2] IN
       IF w <= lastw \/ n = 0 \/ n > 32 \/ off + 2 + n > Len(b) THEN [st |-> "bad", types |-> <<>>]
       ELSE LET octs == Sub(b, off + 3, off + 2 + n) IN
            DecBlocks(b, off + 2 + n, w, lax \/ octs[n] = 0, acc \o BitsOf(w, octs))
DecBitmap(b) == DecBlocks(b, 0, -1, FALSE, <<>>)

\* Pack of a type list given in any order, possibly with repetitions: the list denotes a set.
\* AMBIG (WireRR, C01): a list that is not strictly increasing may be refused instead -- never
\* encoded as anything but its set.
PackBitmapAdm(v) == [wire |-> EncBitmap(v), mayrefuse |-> ~StrictlyIncreasing(v)]

-----------------------------------------------------------------------------
(* 2. APL *)
FamLen(f) == IF f = 1 THEN 4 ELSE 16
Pad(s, n) == s \o [i \in 1..(n - Len(s)) |-> 0]

\* one item at off: [st, item, next]
DecAplItem(b, off) ==
  IF off + 4 > Len(b) THEN [st |-> "bad"]
  ELSE LET fam == b[off + 1] * 256 + b[off + 2]
           prefix == b[off + 3]
           neg == b[off + 4] >= 128
           n == b[off + 4] % 128 IN
       IF off + 4 + n > Len(b) THEN [st |-> "bad"]
       ELSE IF fam \notin {1, 2} THEN [st |-> "lax", next |-> off + 4 + n, known |-> FALSE]      \* other families: opaque (RFC 3123 4); AMBIG
       ELSE IF prefix > 8 * FamLen(fam) \/ n > FamLen(fam) THEN [st |-> "bad"]
       ELSE LET afd == Sub(b, off + 5, off + 4 + n)
                addr == Pad(afd, FamLen(fam)) IN
            [st |-> IF (n > 0 /\ afd[n] = 0) \/ ~ZeroBeyond(addr, prefix) THEN "lax" ELSE "ok",
             next |-> off + 4 + n, known |-> TRUE,
             item |-> [fam |-> fam, neg |-> neg, prefix |-> prefix, addr |-> addr]]

RECURSIVE DecAplFrom(_, _, _, _)
DecAplFrom(b, off, lax, acc) ==
  IF off = Len(b) THEN [st |-> IF lax THEN "lax" ELSE "ok", items |-> acc]
  ELSE LET d == DecAplItem(b, off) IN
       IF d.st = "bad" THEN [st |-> "bad", items |-> <<>>]
       ELSE IF ~d.known THEN [st |-> "lax", items |-> <<>>, opaque |-> TRUE]
       ELSE DecAplFrom(b, d.next, lax \/ d.st = "lax", Append(acc, d.item))
DecApl(b) == DecAplFrom(b, 0, FALSE, <<>>)

\* text of an item (RFC 3123 5), as this specification writes it
DecN(n) == IF n < 10 THEN << 48 + n >> ELSE Rv!DecText(n \div 10) \o << 48 + (n % 10) >>
Dec255(n) == Rv!DecText(n)
AplText(it) ==
  (IF it.neg THEN <<33>> ELSE <<>>) \o << 48 + it.fam, 58 >>
    \o (IF it.fam = 1 THEN Rv!QuadText(it.addr) ELSE Rv!ShortText(it.addr)) \o <<47>> \o Dec255(it.prefix)
\* ... and as it reads one: [ok, item]
AplRead(t) ==
  LET neg == t # <<>> /\ t[1] = 33
      u == IF neg THEN Tail(t) ELSE t
      c == IF \E i \in 1..Len(u) : u[i] = 58 THEN CHOOSE i \in 1..Len(u) : u[i] = 58 /\ \A j \in 1..(i - 1) : u[j] # 58 ELSE 0
      s == IF \E i \in 1..Len(u) : u[i] = 47 THEN CHOOSE i \in 1..Len(u) : u[i] = 47 /\ \A j \in (i + 1)..Len(u) : u[j] # 47 ELSE 0 IN
  IF c # 2 \/ s <= c + 1 \/ s = Len(u) \/ u[1] \notin {49, 50} THEN [ok |-> FALSE]
  ELSE LET fam == u[1] - 48
           at == Sub(u, c + 1, s - 1)
           pt == Sub(u, s + 1, Len(u))
           a == IF fam = 1 THEN Rv!ParseV4(at) ELSE Rv!ParseV6(at) IN
       IF ~a.ok \/ Len(pt) > 3 \/ ~(\A i \in 1..Len(pt) : IsDigit(pt[i])) \/ (Len(pt) > 1 /\ pt[1] = 48) THEN [ok |-> FALSE]
       ELSE LET p == Rv!DecVal(pt) IN
            IF p > 8 * FamLen(fam) THEN [ok |-> FALSE]
            ELSE [ok |-> TRUE, item |-> [fam |-> fam, neg |-> neg, prefix |-> p, addr |-> a.v]]

-----------------------------------------------------------------------------
(* 3. LOC size octets.  Values are centimetres as << metres, centimetres >>     *)
(* (metres up to 90000000 fit TLC's integers; 9 x 10^9 cm does not).            *)
Mant(b) == b \div 16
Expo(b) == b % 16
ValidSize(b) == Mant(b) <= 9 /\ Expo(b) <= 9
Pow10(n) == IF n = 0 THEN 1 ELSE IF n = 1 THEN 10 ELSE IF n = 2 THEN 100 ELSE IF n = 3 THEN 1000 ELSE IF n = 4 THEN 10000
            ELSE IF n = 5 THEN 100000 ELSE IF n = 6 THEN 1000000 ELSE 10000000
\* the value of a valid size octet
SizeValue(b) == IF Expo(b) >= 2 THEN << Mant(b) * Pow10(Expo(b) - 2), 0 >> ELSE << 0, Mant(b) * Pow10(Expo(b)) >>

\* reading a size text: digits [ "." 1-2 digits ] [ "m" | "M" ], or "." digits; -> [ok, v]
SizeRead(t0) ==
  LET t == IF t0 # <<>> /\ t0[Len(t0)] \in {77, 109} THEN Sub(t0, 1, Len(t0) - 1) ELSE t0
      dot == IF \E i \in 1..Len(t) : t[i] = 46 THEN CHOOSE i \in 1..Len(t) : t[i] = 46 /\ \A j \in 1..(i - 1) : t[j] # 46 ELSE 0
      ms == IF dot = 0 THEN t ELSE Sub(t, 1, dot - 1)
      cs == IF dot = 0 THEN <<>> ELSE Sub(t, dot + 1, Len(t))
      digits(s) == \A i \in 1..Len(s) : IsDigit(s[i]) IN
  IF ~digits(ms) \/ ~digits(cs) \/ (dot # 0 /\ (cs = <<>> \/ Len(cs) > 2)) \/ (dot = 0 /\ ms = <<>>) \/ Len(StripLeadingZeros(ms)) > 8
  THEN [ok |-> FALSE]
  ELSE LET m == Rv!DecVal(ms)
           c == IF Len(cs) = 1 THEN 10 * Rv!DecVal(cs) ELSE Rv!DecVal(cs) IN
       IF m > 90000000 \/ (m = 90000000 /\ c > 0) THEN [ok |-> FALSE] ELSE [ok |-> TRUE, v |-> << m, c >>]

\* String(): the text of a valid size octet denotes its value
SizeTextOK(b, text) == LET r == SizeRead(text) IN r.ok /\ r.v = SizeValue(b)

\* parsing: the octets a text may become.  Exactly representable values: the octets with that value
\* (mantissa 0 has one value under every exponent).  Other values: RFC 1876 does not say how to
\* round to one significant digit -- AMBIG: the nearest representable value below or above.
LessEq(a, b) == a[1] < b[1] \/ (a[1] = b[1] /\ a[2] <= b[2])
ValidOctets == { b \in 0..255 : ValidSize(b) }
SizeOctetsFor(v) ==
  LET exact == { b \in ValidOctets : SizeValue(b) = v } IN
  IF exact # {} THEN exact
  ELSE LET below == { b \in ValidOctets : LessEq(SizeValue(b), v) }
           above == { b \in ValidOctets : LessEq(v, SizeValue(b)) }
           maxb == { b \in below : \A c \in below : LessEq(SizeValue(c), SizeValue(b)) }
           mina == { b \in above : \A c \in above : LessEq(SizeValue(b), SizeValue(c)) }
       IN maxb \cup mina

-----------------------------------------------------------------------------
(* 4. EUI and ILNP texts.  v = the octets (6 or 8), most significant first.     *)
HexPair(o, upper) == << HexDigitU(o \div 16, upper), HexDigitU(o % 16, upper) >>
GroupedHex(v, per, sep, upper) ==        \* `per' octets per group
  LET ng == Len(v) \div per IN
  Concat([g \in 1..ng |-> (IF g > 1 THEN <<sep>> ELSE <<>>) \o Concat([k \in 1..per |-> HexPair(v[(g - 1) * per + k], upper)])])
\* reading: exactly ng groups of 2*per hexadecimal digits (either case) separated by sep
GroupedRead(t, n, per, sep) ==
  LET glen == 2 * per
      ng == n \div per
      total == ng * glen + (ng - 1) IN
  IF Len(t) # total THEN [ok |-> FALSE]
  ELSE IF \E i \in 1..total : IF i % (glen + 1) = 0 THEN t[i] # sep ELSE Rv!HexVal(t[i]) = -1 THEN [ok |-> FALSE]
  ELSE LET digit(k) == LET g == (k - 1) \div glen IN t[k + g]          \* the k-th hexadecimal digit
       IN [ok |-> TRUE, v |-> [i \in 1..n |-> 16 * Rv!HexVal(digit(2 * i - 1)) + Rv!HexVal(digit(2 * i))]]
EuiText(v, upper) == GroupedHex(v, 1, 45, upper)
EuiRead(t, n) == GroupedRead(t, n, 1, 45)
IlnpText(v, upper) == GroupedHex(v, 2, 58, upper)
IlnpRead(t) == GroupedRead(t, 8, 2, 58)
=============================================================================
