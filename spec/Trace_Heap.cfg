CONSTANTS
  Obj = {1, 2, 3, 4, 5, 6}
  ROOps = {"Pack", "Len", "String", "IsDuplicate", "Copy", "Sign", "Verify"}
INIT Init
NEXT Next
POSTCONDITION Accepted
CHECK_DEADLOCK FALSE
