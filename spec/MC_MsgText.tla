----------------------------- MODULE MC_MsgText -----------------------------
(* MsgText.tla on itself: for every one of the 2^16 flag words the text built   *)
(* from the table is recognised, its flag letters can be read back, and one     *)
(* changed / missing / swapped letter is rejected.                              *)
EXTENDS MsgText

CONSTANTS Stride, Off      \* quick: every Stride-th word

VARIABLES w, phase

Init == w \in { x \in 0..65535 : x % Stride = Off } /\ phase = 0
Next == phase = 0 /\ phase' = 1 /\ UNCHANGED w

H == HdrOfWord(4660, w)
AnyOf(S) == CHOOSE x \in S : TRUE
OpN == IF H.opcode \in DOMAIN OpcodeNames THEN AnyOf(OpcodeNames[H.opcode]) ELSE <<88>>
RcN == IF H.rcode \in DOMAIN RcodeNames THEN AnyOf(RcodeNames[H.rcode]) ELSE <<>>
Text == TOpcode \o OpN \o TStatus \o RcN \o HdrTail(H)
C == << w % 3, (w \div 3) % 2, (w \div 7) % 2, (w \div 11) % 3 >>
Opt == C[4] > 0 /\ w % 2 = 0
MText == TOpcode \o OpN \o TStatus \o RcN \o HdrTail(H) \o <<32>> \o CountsText(H, C) \o <<Nl>>
         \o Concat([i \in 1..Len(Banners(C, H.opcode = 5, Opt)) |-> <<Nl>> \o Banners(C, H.opcode = 5, Opt)[i] \o <<Nl, 120, Nl>>])

Inv ==
  phase = 1 =>
    /\ HdrStringOK(Text, H)
    /\ MsgStringOK(MText, H, C, Opt)
    /\ Len(FlagsText(H)) = 3 * Cardinality({ i \in 1..8 : H[FlagLetters[i].f] }) - (IF H.z THEN 1 ELSE 0)
    /\ ~HdrStringOK(Text, [H EXCEPT !.aa = ~@]) /\ ~HdrStringOK(Text, [H EXCEPT !.z = ~@]) /\ ~HdrStringOK(Text, [H EXCEPT !.cd = ~@])
    /\ ~HdrStringOK(Text, [H EXCEPT !.id = 4661])
    /\ (H.opcode \in DOMAIN OpcodeNames => ~HdrStringOK(Text, [H EXCEPT !.opcode = (@ + 1) % 16]) \/ H.opcode + 1 \notin DOMAIN OpcodeNames)
    /\ (H.rcode \in DOMAIN RcodeNames /\ H.rcode + 1 \in DOMAIN RcodeNames => ~HdrStringOK(Text, [H EXCEPT !.rcode = @ + 1]))
    /\ ~MsgStringOK(MText, H, [C EXCEPT ![2] = @ + 1], Opt)
    /\ ~MsgStringOK(MText, [H EXCEPT !.opcode = IF @ = 5 THEN 0 ELSE 5], C, Opt)
    /\ (H.aa /\ H.tc => ~HdrStringOK(TOpcode \o OpN \o TStatus \o RcN \o TId \o DecN(H.id) \o <<Nl>> \o TFlags
                                     \o (IF H.qr THEN <<32, 113, 114>> ELSE <<>>) \o <<32, 116, 99, 32, 97, 97>>            \* " tc aa": wrong order
                                     \o Sub(FlagsText(H), (IF H.qr THEN 3 ELSE 0) + 7, Len(FlagsText(H))) \o <<59>>, H))
=============================================================================
