--------------------------- MODULE Trace_PrivateRR ---------------------------
(* Recorded sequences of PrivateHandle / PrivateHandleRemove on the real        *)
(* registry (harness `private record`): one event per action with everything    *)
(* observable afterwards.  The specification state follows the ACTIONS (they    *)
(* determine it); the observation is judged and a wrong one marked, so that the *)
(* rest of the sequence is still examined.  first = TRUE: the harness has reset *)
(* the registry before this action.                                             *)
EXTENDS PrivateRR, TraceBase

VARIABLES l, s
Ev == Trace[l]

ActOK(a) == /\ a.op \in {"handle", "remove"} /\ a.code \in CodeSet
            /\ (a.op = "handle" => a.sp \in DOMAIN UpperOf /\ a.mn = UpperOf[a.sp] /\ a.gen \in {"A", "B"})

Init == l = 1 /\ s = InitState /\ HWInit
Next == /\ l <= Len(Trace)
        /\ LET e == Ev
               s2 == IF e.ev = "step" /\ ActOK(e.act) THEN Make(Apply(IF e.first THEN InitState ELSE s, e.act), e.text) ELSE s IN
           /\ s' = s2
           /\ IF e.ev = "step" /\ ActOK(e.act) /\ ObsOK(s2, e.obs) THEN TRUE ELSE MarkBad(l)
        /\ HW(l)
        /\ l' = l + 1
=============================================================================
