----------------------------- MODULE Gen_Framing -----------------------------
(* Hostile inputs for C02, enumerated: every octet string of length <= N over   *)
(* an alphabet of label lengths, reserved label types and pointer octets,       *)
(* placed as (1) the question name, (2) the owner of an answer record, (3) a    *)
(* name inside RDATA (NS), so that all pointer graphs -- self, forward, mutual, *)
(* chains -- inside a short window occur.  The spec classifies each input.      *)
EXTENDS Framing, GenBase

CONSTANTS N, Shard, NShards, Mode     \* Mode: "region" | "chain" | "counts"

VARIABLE v

\* negative entries are pointer low octets relative to the start of the region: -1 = region start, -2 = start+1, ...
Alpha == <<0, 1, 2, 63, 64, 128, 192, 193, 97, -1, -2, -3, -5>>
RegionOf(q, off) == [i \in 1..Len(q) |-> IF Alpha[q[i]] < 0 THEN off - Alpha[q[i]] - 1 ELSE Alpha[q[i]]]
Idx(q) == SumSeq([i \in 1..Len(q) |-> i * i * q[i]])

Hdr12(qd, an) == <<0, 7, 1, 0, 0, qd, 0, an, 0, 0, 0, 0>>

\* (1) question name = region
MsgQ(reg) == Hdr12(1, 0) \o reg \o <<0, 1, 0, 1>>
\* (2) question "a." then an A record whose owner = region (starts at offset 12+1+1+1+4 = 19)
MsgOwner(reg) == Hdr12(1, 1) \o <<1, 97, 0, 0, 1, 0, 1>> \o reg \o <<0, 1, 0, 1, 0, 0, 0, 60, 0, 4, 192, 0, 2, 1>>
\* (3) NS record owner root, RDATA = region (RDLENGTH = Len(region))
MsgRdata(reg) == Hdr12(0, 1) \o <<0, 0, 2, 0, 1, 0, 0, 0, 60, 0, Len(reg)>> \o reg

\* pointer chain of k >= 1 hops ending in the root.  Offset 12: pointer to the last link; 14..17 QTYPE/QCLASS;
\* 18: root; link i (1 <= i < k) at 19 + 2(i-1) points to the previous link (link 1 points to the root at 18).
PtrTo(t) == <<192 + (t \div 256), t % 256>>
LinkOff(i) == IF i = 0 THEN 18 ELSE 19 + 2 * (i - 1)
ChainMsg(k) == Hdr12(1, 0) \o PtrTo(LinkOff(k - 1)) \o <<0, 1, 0, 1>> \o <<0>>
               \o Concat([i \in 1..(k - 1) |-> PtrTo(LinkOff(i - 1))])
Hops == {1, 2, 3, 125, 126, 127, 128, 255, 256, 1000, 8000}

\* long names around the 255-octet limit, written out or with the tail reached through a forward pointer.
\* v.region = <<form, x, viaPtr>>: form 1 = labels 63,63,63,x (x in 56..63: 250..257 octets);
\*                               form 2 = labels 63,63,63,31,x (x in 25..35: 252..262 octets)
Lab(n, o) == <<n>> \o [i \in 1..n |-> o]
LongLabels(form, x) == IF form = 1 THEN <<63, 63, 63, x>> ELSE <<63, 63, 63, 31, x>>
LongName(ls) == Concat([i \in 1..Len(ls) |-> Lab(ls[i], 96 + i)]) \o <<0>>
LongMsg(form, x, viaPtr) ==
  LET ls == LongLabels(form, x) IN
  IF form = 3 THEN Hdr12(1, 0) \o <<x>> \o [i \in 1..x |-> 97] \o <<0, 0, 1, 0, 1>>
  ELSE IF viaPtr = 0 THEN Hdr12(1, 0) \o LongName(ls) \o <<0, 1, 0, 1>>
  ELSE \* question name = first label + pointer to offset 12+64+2+4 where the rest of the name lives
       Hdr12(1, 0) \o Lab(63, 97) \o PtrTo(12 + 64 + 2 + 4) \o <<0, 1, 0, 1>> \o LongName(Tail(ls))

Init ==
  \/ /\ Mode = "region"
     /\ \E q \in UNION { [1..k -> 1..Len(Alpha)] : k \in 1..N }, place \in {"q", "owner", "rdata"} :
          /\ Idx(q) % NShards = Shard
          /\ v = [place |-> place, region |-> RegionOf(q, CASE place = "q" -> 12 [] place = "owner" -> 19 [] OTHER -> 23)]
  \/ /\ Mode = "chain"
     /\ \/ \E k \in Hops : v = [place |-> "chain", region |-> <<k>>]
        \/ \E x \in 56..63, p \in {0, 1} : v = [place |-> "long", region |-> <<1, x, p>>]
        \/ \E x \in 25..35, p \in {0, 1} : v = [place |-> "long", region |-> <<2, x, p>>]
        \/ \E x \in {64, 65, 100, 127, 128, 129, 191} : v = [place |-> "long", region |-> <<3, x, 0>>]   \* reserved label types with enough octets behind them to be (mis)read as a label
Next == UNCHANGED v

Vec ==
  LET reg == v.region
      b == CASE v.place = "q" -> MsgQ(reg) [] v.place = "owner" -> MsgOwner(reg) [] v.place = "chain" -> ChainMsg(reg[1])
               [] v.place = "long" -> LongMsg(reg[1], reg[2], reg[3]) [] OTHER -> MsgRdata(reg)
      off == CASE v.place = "q" -> 12 [] v.place = "owner" -> 19 [] v.place = "chain" -> 12 [] v.place = "long" -> 12 [] OTHER -> 23
      nv == NameVerdict(b, off)
  IN [place |-> v.place, bytes |-> b, off |-> off, verdict |-> nv.v, why |-> nv.why, hops |-> nv.hops,
      name |-> IF nv.v = "ok" THEN Present(nv.name) ELSE <<>>,
      allocmax |-> AllocBound(Len(b))]      \* memory of one decode call on this input, in octets
Out == Emit(Vec)
=============================================================================
