-------------------------- MODULE Gen_ClientTimeouts --------------------------
(* Vectors for X07: every case of the three tables over the symbolic durations  *)
(* 0 (unset) < default (2 s) < A (1 h) < B (3 h) < C (9 h), plus 1.5 s to cross  *)
(* the default.                                                                 *)
(*  Mode "xchg"  settings x transport -> the write and the read deadline that   *)
(*               ExchangeWithConnContext must have put on the connection before *)
(*               its first Write / first Read (relative to the call)            *)
(*  Mode "dial"  settings x network -> the admissible deadlines of DialContext  *)
(*  Mode "buf"   (OPT?, OPT size, Client.UDPSize, Conn.UDPSize) -> admissible   *)
(*               sizes of the buffer handed to the datagram Read                *)
(* grid: the durations the binding snaps its observation to (nearest, 10 %).    *)
EXTENDS ClientTimeouts, GenBase

CONSTANTS Mode

VARIABLES v

A == 3600000
B == 10800000
C == 32400000
S == 1500
D == {0, A, B, C}
Grid == << S, Default, A, B, C >>

Settings(t, d, r, w, dl, cx) == [timeout |-> t, dial |-> d, read |-> r, write |-> w, dialer |-> dl, ctx |-> cx]

Xchg == { [kind |-> "xchg", tr |-> tr, s |-> Settings(t, d, r, w, dl, cx)] :
            tr \in {"pc", "stream"}, t \in D \cup {S}, d \in {0, A}, r \in D \cup {S}, w \in D, dl \in D \cup {-1, S}, cx \in D \cup {S} }
\* without a Dialer of the caller's the effective dial time-out is only observable on a TLS dial
Dials == { [kind |-> "dial", net |-> n, s |-> Settings(t, d, C, B, dl, cx)] :
            n \in {"tcp-tls", "tcp", "udp", ""}, t \in D \cup {S}, d \in D \cup {S}, dl \in D \cup {-1, S}, cx \in D \cup {S} }
Sizes == {0, 511, 512, 513, 1232, 4096, 65535}
Bufs == { [kind |-> "buf", opt |-> o, optsize |-> os, client |-> cl, conn |-> co] :
            o \in BOOLEAN, os \in Sizes, cl \in Sizes, co \in Sizes \ {1232} }

Init == \/ Mode = "xchg" /\ v \in Xchg
        \/ Mode = "dial" /\ v \in { x \in Dials : x.net = "tcp-tls" \/ x.s.dialer # -1 }
        \/ Mode = "buf"  /\ v \in { x \in Bufs : x.opt \/ x.optsize = 0 }
Next == UNCHANGED v

SetToSeq(T) == LET RECURSIVE F(_)
                   F(X) == IF X = {} THEN <<>> ELSE LET m == CHOOSE m \in X : \A y \in X : m <= y IN <<m>> \o F(X \ {m})
               IN F(T)

Out ==
  CASE v.kind = "xchg" -> Emit([v EXCEPT !.kind = "xchg"] @@ [grid |-> Grid, wdl |-> WriteDeadline(v.s), rdl |-> ReadDeadline(v.s)])
    [] v.kind = "dial" -> Emit(v @@ [grid |-> Grid, dls |-> SetToSeq(DialDeadlines(v.s)), ambig |-> Cardinality(DialDeadlines(v.s)) > 1])
    [] v.kind = "buf"  -> Emit(v @@ [sizes |-> SetToSeq(BufSizes(v.opt, v.optsize, v.client, v.conn))])
=============================================================================
