------------------------------ MODULE Present ------------------------------
(* The master-file (presentation format) lexer of RFC 1035 section 5.1 as a    *)
(* character-level state machine, and the interpreters of the generic token   *)
(* kinds (TTL with unit suffixes, class and type mnemonics, decimal numbers,  *)
(* dotted quads).  Text is a sequence of character codes.                     *)
(*                                                                            *)
(* Properties C06 and C07 use it through Zone.tla; C05 (presentation format   *)
(* of every RR type) is meant to reuse Lex / Render / RenderVal and to extend *)
(* TypeTable.                                                                 *)
(*                                                                            *)
(* What RFC 1035 5.1 fixes:                                                   *)
(*   - entries are line oriented; ( ) group data that crosses a line: inside  *)
(*     parentheses a line termination is not recognised;                      *)
(*   - ; starts a comment, the remainder of the line is ignored;              *)
(*   - any combination of tabs and spaces separates the items of an entry;    *)
(*     an entry that BEGINS with a blank has its owner omitted;               *)
(*   - \X (X not a digit) quotes X, \DDD is the octet with decimal value DDD; *)
(*   - " ... " delimits a string in which blanks, ; ( ) and line breaks are   *)
(*     ordinary characters and only \ keeps its meaning.                      *)
(* What it leaves open is never asserted, only flagged:                       *)
(*   odd  the text uses an escape RFC 1035 does not define (\D, \DD, \DDD >   *)
(*        255, backslash-newline outside quotes, backslash at end of text);   *)
(*   amb  a parenthesis, a quote or a line break inside parentheses touches a *)
(*        token with no blank in between: the RFC names only tab and space as *)
(*        separators, so "(10\nmail)" may be one item or two.  \* AMBIG        *)
EXTENDS Bytes

-----------------------------------------------------------------------------
(* Characters *)
cTAB == 9   cLF == 10   cSP == 32   cQUOTE == 34   cDOLLAR == 36   cLPAR == 40
cRPAR == 41 cDOT == 46  cSEMI == 59 cAT == 64      cBSL == 92

IsBlankCh(c) == c = cSP \/ c = cTAB

UpperOctet(b) == IF b >= 97 /\ b <= 122 THEN b - 32 ELSE b
Upper(s) == [i \in 1..Len(s) |-> UpperOctet(s[i])]

-----------------------------------------------------------------------------
(* Tokens.  Homogeneous records so that sets of them are harmless in TLC:     *)
(*   k = "tok": raw = the characters as written (without surrounding quotes), *)
(*              v = the octets they denote (escapes decoded), q = quoted      *)
(*   k = "sp" : the entry began with a blank (owner omitted)                  *)
(*   k = "nl" : end of an entry (a line termination at depth 0)               *)
Tok(raw, v, q) == [k |-> "tok", raw |-> raw, v |-> v, q |-> q]
SP == [k |-> "sp", raw |-> <<>>, v |-> <<>>, q |-> FALSE]
NL == [k |-> "nl", raw |-> <<>>, v |-> <<>>, q |-> FALSE]

(* Lexer state.  mode: "blank" | "token" | "quoted" | "comment";               *)
(* esc: 0 none, 1 after a backslash, 2 / 3 after \D / \DD; dd: digits so far;  *)
(* depth: open parentheses; bol: nothing emitted on this entry yet;            *)
(* adj: a token was ended by a parenthesis / closing quote / line break inside *)
(* parentheses and no blank or comment has been seen since;                    *)
(* ill: "" | "close" (a ")" with nothing open) | "open" ("(" still open at the *)
(* end) | "quote" (unterminated string).  ill is sticky: lexing stops there.   *)
LexInit == [mode |-> "blank", esc |-> 0, dd |-> 0, depth |-> 0, raw |-> <<>>, val |-> <<>>,
            toks |-> <<>>, bol |-> TRUE, adj |-> FALSE, ill |-> "", odd |-> FALSE, amb |-> FALSE]

Flush(s) == IF s.mode = "token"
            THEN [s EXCEPT !.toks = Append(@, Tok(s.raw, s.val, FALSE)), !.raw = <<>>, !.val = <<>>,
                           !.mode = "blank", !.bol = FALSE]
            ELSE s

EndLine(s) == [s EXCEPT !.toks = Append(@, NL), !.bol = TRUE, !.adj = FALSE, !.mode = "blank"]

\* a character that is part of an item, seen outside quotes
TokChar(s, c, decoded) ==
  IF s.mode = "token" THEN [s EXCEPT !.raw = Append(@, c), !.val = @ \o decoded]
  ELSE [s EXCEPT !.mode = "token", !.raw = <<c>>, !.val = decoded, !.amb = @ \/ s.adj, !.adj = FALSE]

Plain(s, c) ==
  IF s.mode = "quoted" THEN
    IF c = cQUOTE THEN [s EXCEPT !.toks = Append(@, Tok(s.raw, s.val, TRUE)), !.raw = <<>>, !.val = <<>>,
                                 !.mode = "blank", !.adj = TRUE]
    ELSE IF c = cBSL THEN [s EXCEPT !.raw = Append(@, c), !.esc = 1]
    ELSE [s EXCEPT !.raw = Append(@, c), !.val = Append(@, c)]
  ELSE \* "blank" or "token"
    IF c = cBSL THEN [TokChar(s, c, <<>>) EXCEPT !.esc = 1]
    ELSE IF IsBlankCh(c) THEN
      LET f == Flush(s) IN
      IF f.bol THEN [f EXCEPT !.toks = Append(@, SP), !.bol = FALSE, !.adj = FALSE] ELSE [f EXCEPT !.adj = FALSE]
    ELSE IF c = cLF THEN
      LET f == Flush(s) IN
      IF f.depth = 0 THEN EndLine(f) ELSE [f EXCEPT !.adj = (s.mode = "token") \/ s.adj]
    ELSE IF c = cSEMI THEN [Flush(s) EXCEPT !.mode = "comment", !.adj = FALSE]
    ELSE IF c = cLPAR THEN [Flush(s) EXCEPT !.depth = @ + 1, !.adj = (s.mode = "token") \/ s.adj]
    ELSE IF c = cRPAR THEN
      IF s.depth = 0 THEN [Flush(s) EXCEPT !.ill = "close"]
      ELSE [Flush(s) EXCEPT !.depth = @ - 1, !.adj = (s.mode = "token") \/ s.adj]
    ELSE IF c = cQUOTE THEN
      [Flush(s) EXCEPT !.mode = "quoted", !.bol = FALSE, !.adj = FALSE, !.amb = @ \/ (s.mode = "token") \/ s.adj]
    ELSE TokChar(s, c, <<c>>)

LexStep(s, c) ==
  IF s.ill # "" THEN s
  ELSE IF s.mode = "comment" THEN
    IF c = cLF THEN (IF s.depth = 0 THEN EndLine(s) ELSE [s EXCEPT !.mode = "blank"]) ELSE s
  ELSE IF s.esc = 1 THEN
    IF IsDigit(c) THEN [s EXCEPT !.raw = Append(@, c), !.dd = c - 48, !.esc = 2]
    ELSE [s EXCEPT !.raw = Append(@, c), !.val = Append(@, c), !.esc = 0,
                   !.odd = @ \/ (c = cLF /\ s.mode # "quoted")]
  ELSE IF s.esc \in {2, 3} THEN
    IF IsDigit(c) THEN
      IF s.esc = 2 THEN [s EXCEPT !.raw = Append(@, c), !.dd = @ * 10 + (c - 48), !.esc = 3]
      ELSE LET v == s.dd * 10 + (c - 48) IN
           [s EXCEPT !.raw = Append(@, c), !.val = Append(@, v % 256), !.odd = @ \/ v > 255, !.esc = 0]
    ELSE Plain([s EXCEPT !.odd = TRUE, !.esc = 0], c)
  ELSE Plain(s, c)

LexEnd(s) ==
  IF s.ill # "" THEN s
  ELSE IF s.mode = "quoted" THEN [s EXCEPT !.ill = "quote"]
  ELSE LET f == Flush([s EXCEPT !.odd = @ \/ s.esc # 0, !.esc = 0]) IN
       IF f.depth > 0 THEN [f EXCEPT !.ill = "open"]
       ELSE IF ~f.bol THEN EndLine(f) ELSE [f EXCEPT !.mode = "blank"]

RECURSIVE LexFrom(_, _, _)
LexFrom(s, text, i) == IF i > Len(text) THEN s ELSE LexFrom(LexStep(s, text[i]), text, i + 1)

\* the state after reading `text' (not yet at its end): used to ask "where are we"
LexPrefix(text) == LexFrom(LexInit, text, 1)
\* the whole text
Lex(text) == LexEnd(LexPrefix(text))

IllFormed(text) == Lex(text).ill # ""

\* entries: the token stream cut at NL (the NLs removed)
RECURSIVE EntriesFrom(_, _, _)
EntriesFrom(toks, i, cur) ==
  IF i > Len(toks) THEN (IF cur = <<>> THEN <<>> ELSE <<cur>>)
  ELSE IF toks[i].k = "nl" THEN <<cur>> \o EntriesFrom(toks, i + 1, <<>>)
  ELSE EntriesFrom(toks, i + 1, Append(cur, toks[i]))
Entries(toks) == EntriesFrom(toks, 1, <<>>)

\* the items only (no sp, no nl): what parentheses and comments must not change
Items(toks) == SelectSeq(toks, LAMBDA t : t.k = "tok")

-----------------------------------------------------------------------------
(* Renderers *)

\* canonical text of a token stream: items separated by one space, entries by LF
RECURSIVE RenderFrom(_, _, _)
RenderFrom(toks, i, first) ==
  IF i > Len(toks) THEN <<>>
  ELSE LET t == toks[i] IN
    IF t.k = "nl" THEN <<cLF>> \o RenderFrom(toks, i + 1, TRUE)
    ELSE IF t.k = "sp" THEN <<cSP>> \o RenderFrom(toks, i + 1, TRUE)
    ELSE (IF first THEN <<>> ELSE <<cSP>>)
         \o (IF t.q THEN <<cQUOTE>> \o t.raw \o <<cQUOTE>> ELSE t.raw)
         \o RenderFrom(toks, i + 1, FALSE)
Render(toks) == RenderFrom(toks, 1, TRUE)

\* canonical spelling of an octet string as one item: printable characters as
\* themselves, the characters with a meaning to the lexer behind a backslash,
\* everything else as \DDD
EscOctet(b, q) ==
  IF b = cQUOTE \/ b = cBSL THEN <<cBSL, b>>
  ELSE IF b < 32 \/ b > 126 THEN <<cBSL>> \o Dec3(b)
  ELSE IF ~q /\ (b = cSP \/ b = cSEMI \/ b = cLPAR \/ b = cRPAR) THEN <<cBSL, b>>
  ELSE <<b>>
RenderVal(v, q) ==
  LET body == Concat([i \in 1..Len(v) |-> EscOctet(v[i], q)]) IN
  IF q THEN <<cQUOTE>> \o body \o <<cQUOTE>> ELSE body

-----------------------------------------------------------------------------
(* Token interpreters *)

MaxInt == 2147483647      \* TLC integers are 32-bit: larger values are reported as `big'

\* decimal number: digits only, non-empty
RECURSIVE DecFrom(_, _, _)
DecFrom(s, i, acc) ==
  IF i > Len(s) THEN [ok |-> TRUE, big |-> FALSE, v |-> acc]
  ELSE IF ~IsDigit(s[i]) THEN [ok |-> FALSE, big |-> FALSE, v |-> 0]
  ELSE IF acc > (MaxInt - (s[i] - 48)) \div 10 THEN [ok |-> TRUE, big |-> TRUE, v |-> 0]
  ELSE DecFrom(s, i + 1, acc * 10 + (s[i] - 48))
DecOf(s) == IF s = <<>> THEN [ok |-> FALSE, big |-> FALSE, v |-> 0] ELSE DecFrom(s, 1, 0)

U16Of(s) == LET d == DecOf(s) IN [ok |-> d.ok /\ ~d.big /\ d.v <= 65535, v |-> d.v]

\* TTL: a decimal number of seconds, or a sum of <number><unit> terms with units
\* s m h d w in either case, optionally ending in a bare number of seconds:
\* 3600, 1h, 1h30m, 1W2D, 1h30.  A unit must follow at least one digit.
UnitOf(c) == CASE c = 115 \/ c = 83 -> 1             \* s S
               [] c = 109 \/ c = 77 -> 60            \* m M
               [] c = 104 \/ c = 72 -> 3600          \* h H
               [] c = 100 \/ c = 68 -> 86400         \* d D
               [] c = 119 \/ c = 87 -> 604800        \* w W
               [] OTHER -> 0
RECURSIVE TTLFrom(_, _, _, _, _)
TTLFrom(s, i, total, cur, nd) ==      \* nd: digits in the pending number
  IF i > Len(s) THEN
    IF total > MaxInt - cur THEN [ok |-> TRUE, big |-> TRUE, v |-> 0]
    ELSE [ok |-> TRUE, big |-> FALSE, v |-> total + cur]
  ELSE LET c == s[i] IN
    IF IsDigit(c) THEN
      IF cur > (MaxInt - (c - 48)) \div 10 THEN [ok |-> TRUE, big |-> TRUE, v |-> 0]
      ELSE TTLFrom(s, i + 1, total, cur * 10 + (c - 48), nd + 1)
    ELSE IF UnitOf(c) # 0 /\ nd > 0 THEN
      IF cur > MaxInt \div UnitOf(c) THEN [ok |-> TRUE, big |-> TRUE, v |-> 0]
      ELSE IF total > MaxInt - cur * UnitOf(c) THEN [ok |-> TRUE, big |-> TRUE, v |-> 0]
      ELSE TTLFrom(s, i + 1, total + cur * UnitOf(c), 0, 0)
    ELSE [ok |-> FALSE, big |-> FALSE, v |-> 0]
TTLOf(s) == IF s = <<>> \/ ~IsDigit(s[1]) THEN [ok |-> FALSE, big |-> FALSE, v |-> 0] ELSE TTLFrom(s, 1, 0, 0, 0)

\* class mnemonics (RFC 1035 3.2.4, RFC 2136) and CLASSnnn (RFC 3597); -1 = not a class
kCLASS == <<67, 76, 65, 83, 83>>
kTYPE  == <<84, 89, 80, 69>>
ClassTable == << << <<73, 78>>, 1 >>, << <<67, 83>>, 2 >>, << <<67, 72>>, 3 >>, << <<72, 83>>, 4 >>,
                 << <<78, 79, 78, 69>>, 254 >>, << <<65, 78, 89>>, 255 >> >>
\* type mnemonics: the ones the zone-file property needs; C05 extends this table
TypeTable == << << <<65>>, 1 >>,                            \* A
                << <<78, 83>>, 2 >>,                        \* NS
                << <<67, 78, 65, 77, 69>>, 5 >>,            \* CNAME
                << <<83, 79, 65>>, 6 >>,                    \* SOA
                << <<80, 84, 82>>, 12 >>,                   \* PTR
                << <<77, 88>>, 15 >>,                       \* MX
                << <<84, 88, 84>>, 16 >>,                   \* TXT
                << <<65, 65, 65, 65>>, 28 >> >>             \* AAAA
LookUp(tab, u) == LET hit == { i \in 1..Len(tab) : tab[i][1] = u } IN
                  IF hit = {} THEN -1 ELSE tab[CHOOSE i \in hit : TRUE][2]
Numbered(prefix, u) ==      \* CLASSnnn / TYPEnnn
  IF IsPrefixOf(prefix, u) /\ Len(u) > Len(prefix)
  THEN LET d == U16Of(Drop(u, Len(prefix))) IN IF d.ok THEN d.v ELSE -1
  ELSE -1
ClassOf(s) == LET u == Upper(s)  m == LookUp(ClassTable, u) IN IF m # -1 THEN m ELSE Numbered(kCLASS, u)
TypeOf(s)  == LET u == Upper(s)  m == LookUp(TypeTable, u)  IN IF m # -1 THEN m ELSE Numbered(kTYPE, u)

\* split at unescaped dots is Names!Parse's job; this one splits plain text at a character
RECURSIVE SplitAt(_, _, _, _)
SplitAt(s, c, i, cur) ==
  IF i > Len(s) THEN <<cur>>
  ELSE IF s[i] = c THEN <<cur>> \o SplitAt(s, c, i + 1, <<>>)
  ELSE SplitAt(s, c, i + 1, Append(cur, s[i]))
Split(s, c) == SplitAt(s, c, 1, <<>>)

\* dotted quad
IP4Of(s) ==
  LET parts == Split(s, cDOT) IN
  IF Len(parts) # 4 THEN [ok |-> FALSE, v |-> <<>>]
  ELSE LET ds == [i \in 1..4 |-> DecOf(parts[i])] IN
       IF \A i \in 1..4 : ds[i].ok /\ ~ds[i].big /\ ds[i].v <= 255 /\ Len(parts[i]) <= 3
       THEN [ok |-> TRUE, v |-> [i \in 1..4 |-> ds[i].v]]
       ELSE [ok |-> FALSE, v |-> <<>>]
=============================================================================
