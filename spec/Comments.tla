------------------------------- MODULE Comments -------------------------------
(* X17 (extra): the COMMENT side of the zone-file reader (dns.ZoneParser).       *)
(*                                                                               *)
(* The documented contract (scan.go, type ZoneParser):                           *)
(*   "Comments specified after an RR (and on the same line!) are returned too    *)
(*    ... The text "; this is comment" is returned from Comment.  Comments       *)
(*    inside the RR are returned concatenated along with the RR.  Comments on a  *)
(*    line by themselves are discarded."                                         *)
(*   Comment(): "an optional text comment that occurred alongside the RR".       *)
(*                                                                               *)
(* Zone text is modelled abstractly:                                             *)
(*   line   [items, com, glue]   items: the tokens of one PHYSICAL line, verbatim*)
(*                               octet strings ("(" and ")" are items of their   *)
(*                               own); com: <<>> or <<text>> -- the octets behind*)
(*                               the ';' up to the line end; glue: the ';'       *)
(*                               stands directly behind the last item (no blank) *)
(*   entry  [kind, lines, names, sub]                                            *)
(*            "rr"     one record; several lines while parentheses are open      *)
(*            "dir"    $TTL / $ORIGIN line                 -- yields no record   *)
(*            "gen"    $GENERATE line: one record per element of names           *)
(*            "inc"    $INCLUDE line: the records of the zone `sub'              *)
(*            "blank"  "conly"  blank / comment-only line BETWEEN entries        *)
(*            "bad"    a line the reader refuses: reading stops there            *)
(*   zone   [entries, crlf, final]   line end LF or CR LF; final: the last line  *)
(*                               has a line end                                  *)
(* Render gives the octets; CommentOf / Admitted what Comment() returns for the  *)
(* record of an entry; Expect the sequence of (owner, admitted comments) a       *)
(* reader of the zone delivers; SM* the Next() / Comment() state machine.        *)
(* ScanZone reads the comments back from the OCTETS (quotes, escapes,            *)
(* parentheses) -- MC_Comments checks that both definitions agree.               *)
EXTENDS Bytes

SP == 32  TAB == 9  LF == 10  CR == 13  SEMI == 59  LPAR == 40  RPAR == 41  QUOTE == 34  BSL == 92

IsParen(it) == it = <<LPAR>> \/ it = <<RPAR>>
HasCom(ln) == ln.com # <<>>
HasToken(ln) == \E k \in 1..Len(ln.items) : ~IsParen(ln.items[k])

RECURSIVE JoinWith(_, _)
JoinWith(ss, sep) == IF ss = <<>> THEN <<>> ELSE IF Len(ss) = 1 THEN ss[1] ELSE ss[1] \o sep \o JoinWith(Tail(ss), sep)

(* ------------------------------- rendering ---------------------------------- *)
\* the first line of an entry starts in column 1 (owner / directive); every further line of a parenthesised
\* record starts with a blank.  A line without items whose comment is `glue' starts with the ';'.
RenderLine(ln, first) ==
  LET body == JoinWith(ln.items, <<SP>>)
      lead == IF first \/ (ln.items = <<>> /\ ln.glue) THEN <<>> ELSE <<SP>>
      sep  == IF ln.items = <<>> \/ ln.glue THEN <<>> ELSE <<SP>>
  IN lead \o body \o (IF HasCom(ln) THEN sep \o <<SEMI>> \o ln.com[1] ELSE <<>>)

EntryLines(e) == [i \in 1..Len(e.lines) |-> RenderLine(e.lines[i], i = 1 /\ e.kind \notin {"blank", "conly"})]
RECURSIVE AllLines(_)
AllLines(es) == IF es = <<>> THEN <<>> ELSE EntryLines(Head(es)) \o AllLines(Tail(es))

Eol(crlf) == IF crlf THEN <<CR, LF>> ELSE <<LF>>
RenderEntries(es, crlf, final) ==
  LET ls == AllLines(es) IN
  Concat([i \in 1..Len(ls) |-> ls[i] \o (IF i < Len(ls) \/ final THEN Eol(crlf) ELSE <<>>)])
Render(z) == RenderEntries(z.entries, z.crlf, z.final)

\* the file an $INCLUDE line of the zone names (at most one per zone in the universes; always with a final line end)
IncEntries(z) == LET I == { i \in 1..Len(z.entries) : z.entries[i].kind = "inc" } IN
                 IF I = {} THEN <<>> ELSE z.entries[CHOOSE i \in I : \A j \in I : i <= j].sub
IncText(z) == RenderEntries(IncEntries(z), z.crlf, TRUE)

(* ------------------------------ well-formedness ----------------------------- *)
RECURSIVE Depth(_, _)
Depth(items, d) == IF items = <<>> THEN d
                   ELSE Depth(Tail(items), IF Head(items) = <<LPAR>> THEN d + 1 ELSE IF Head(items) = <<RPAR>> THEN d - 1 ELSE d)
RECURSIVE DepthAfter(_, _)
DepthAfter(lines, k) == IF k = 0 THEN 0 ELSE Depth(lines[k].items, DepthAfter(lines, k - 1))

WellFormedEntry(e) ==
  /\ Len(e.lines) >= 1
  /\ \A i \in 1..Len(e.lines) : Len(e.lines[i].com) <= 1
  /\ CASE e.kind \in {"blank", "conly"} -> Len(e.lines) = 1 /\ e.lines[1].items = <<>> /\ (HasCom(e.lines[1]) <=> e.kind = "conly")
       [] e.kind \in {"dir", "gen", "inc"} -> Len(e.lines) = 1 /\ HasToken(e.lines[1]) /\ DepthAfter(e.lines, 1) = 0
       [] e.kind \in {"rr", "bad"} ->
            /\ HasToken(e.lines[1]) /\ Len(e.names) = 1 /\ e.lines[1].items[1] = e.names[1]
            /\ \A i \in 1..(Len(e.lines) - 1) : DepthAfter(e.lines, i) > 0    \* the record goes on while a parenthesis is open
            /\ DepthAfter(e.lines, Len(e.lines)) = 0
       [] OTHER -> FALSE

(* ------------------------------- the contract ------------------------------- *)
\* the comments of an entry, each with its ';', in line order.  A comment-only line INSIDE the parentheses of a record
\* is "inside the RR" (contributes); one BETWEEN entries is an entry of its own ("conly") and belongs to no record.
Own(e) == LET I == { i \in 1..Len(e.lines) : HasCom(e.lines[i]) }
              RECURSIVE Pick(_)
              Pick(i) == IF i > Len(e.lines) THEN <<>> ELSE (IF i \in I THEN << <<SEMI>> \o e.lines[i].com[1] >> ELSE <<>>) \o Pick(i + 1)
          IN Pick(1)

CommentOf(e) == JoinWith(Own(e), <<SP>>)          \* "" when the entry has none

IsBlankish(c) == c \in {SP, TAB, CR}
RECURSIVE TrimR(_)
TrimR(s) == IF s # <<>> /\ IsBlankish(s[Len(s)]) THEN TrimR(SubSeq(s, 1, Len(s) - 1)) ELSE s

\* AMBIG  the doc does not say whether blanks / tabs at the end of a comment belong to it, nor what becomes of the CR of a
\*        CR LF line end: kept or cut
Spellings(c, crlf) == {c, TrimR(c)} \cup (IF crlf THEN {c \o <<CR>>} ELSE {})
\* AMBIG  "concatenated": one blank between the comments; behind an EMPTY comment (";" alone) the blank may be missing
\*        (";; x" or "; ; x")
Seps(a) == IF TrimR(a) = <<SEMI>> THEN {<<SP>>, <<>>} ELSE {<<SP>>}
RECURSIVE Joins(_, _)
Joins(cs, crlf) == IF cs = <<>> THEN {<<>>}
                   ELSE IF Len(cs) = 1 THEN Spellings(cs[1], crlf)
                   ELSE UNION { { a \o s \o b : s \in Seps(a), b \in Joins(Tail(cs), crlf) } : a \in Spellings(cs[1], crlf) }

\* what Comment() may return for the record of entry e.  Never a comment of another entry, never "" when the entry has a
\* comment on one of its own lines, never a text when it has none.
Admitted(e, crlf) == Joins(Own(e), crlf)

\* diagnosis of a text that is NOT admitted (only names the finding; the verdict is `got \notin Admitted')
RECURSIVE SubSeqs(_)
SubSeqs(s) == IF s = <<>> THEN {<<>>} ELSE LET R == SubSeqs(Tail(s)) IN R \cup { <<Head(s)>> \o r : r \in R }
Partial(e, crlf) == UNION { Joins(s, crlf) : s \in SubSeqs(Own(e)) \ {Own(e), <<>>} }     \* some, not all, of its comments
Clause(got, e, crlf) == IF Own(e) = <<>> THEN "spurious"
                        ELSE IF got = <<>> THEN "lost-all"
                        ELSE IF got \in Partial(e, crlf) THEN "lost-some"
                        ELSE "wrong"
\* the class of the entry's layout (part of the finding key)
InnerSemi(e) == \E i \in 1..Len(e.lines) : HasCom(e.lines[i]) /\ \E k \in 1..Len(e.lines[i].com[1]) : e.lines[i].com[1][k] = SEMI
Layout(e) == IF e.kind = "gen" THEN "generate"
             ELSE IF Len(e.lines) = 1 THEN "single"
             ELSE IF \E i, j \in 1..Len(e.lines) : i < j /\ HasCom(e.lines[i]) /\ HasToken(e.lines[j]) THEN "multi-gap"     \* a comment, then more tokens
             ELSE IF \E i \in 1..(Len(e.lines) - 1) : HasCom(e.lines[i]) /\ e.lines[i].glue THEN "multi-abut"              \* no blank before an inner ';'
             ELSE "multi-dense"
Cls(e) == IF InnerSemi(e) THEN "inner-semicolon" ELSE Layout(e)

(* ------------------------- what a reader of the zone delivers ---------------- *)
\* sequence of [name, adm, e] in zone order; reading stops at a "bad" entry (err).  Comments of directive lines, blank
\* and comment-only lines belong to no record; the records of a $GENERATE line have none; the records of an included
\* file have their own.
Rec(name, adm, e) == [name |-> name, adm |-> adm, e |-> e]
NoComment(e) == [e EXCEPT !.lines = [i \in 1..Len(e.lines) |-> [e.lines[i] EXCEPT !.com = <<>>]]]
RECURSIVE Expect(_, _)
Expect(es, crlf) ==
  IF es = <<>> THEN [recs |-> <<>>, err |-> FALSE]
  ELSE LET e == Head(es) IN
       IF e.kind = "bad" THEN [recs |-> <<>>, err |-> TRUE]
       ELSE LET mine == CASE e.kind = "rr"  -> [recs |-> << Rec(e.names[1], Admitted(e, crlf), e) >>, err |-> FALSE]
                          [] e.kind = "gen" -> [recs |-> [k \in 1..Len(e.names) |-> Rec(e.names[k], {<<>>}, NoComment(e))], err |-> FALSE]
                          [] e.kind = "inc" -> Expect(e.sub, crlf)
                          [] OTHER -> [recs |-> <<>>, err |-> FALSE]
            IN IF mine.err THEN mine
               ELSE LET rest == Expect(Tail(es), crlf) IN [recs |-> mine.recs \o rest.recs, err |-> rest.err]
ExpectZone(z) == Expect(z.entries, z.crlf)

\* NewRR / ReadRR deliver the first record of the text and no comment: the comments must not make them fail.
\* inc: $INCLUDE is followed (ReadRR) or refused (NewRR).  st: "rr" (with the owner), "err", "none" (nothing to read)
RECURSIVE First(_, _)
First(es, inc) ==
  IF es = <<>> THEN [st |-> "none", name |-> <<>>]
  ELSE LET e == Head(es) IN
       CASE e.kind \in {"rr", "gen"} -> [st |-> "rr", name |-> e.names[1]]
         [] e.kind = "bad" -> [st |-> "err", name |-> <<>>]
         [] e.kind = "inc" -> IF inc THEN First(e.sub \o Tail(es), inc) ELSE [st |-> "err", name |-> <<>>]
         [] OTHER -> First(Tail(es), inc)

(* ------------------------ Next() / Comment() state machine ------------------- *)
\* sm = [recs, i, done, reg]: i = number of records returned; reg = what Comment() returns now: Unknown until the first
\* call after a Next() fixes it (any admitted spelling), the same text from then on, replaced by the next Next().
Unknown == <<-1>>
SMStart(recs) == [recs |-> recs, i |-> 0, done |-> FALSE, reg |-> Unknown]
SMHasNext(sm) == ~sm.done /\ sm.i < Len(sm.recs)
SMNext(sm) == IF SMHasNext(sm) THEN [sm EXCEPT !.i = @ + 1, !.reg = Unknown]
              ELSE [sm EXCEPT !.done = TRUE, !.reg = Unknown]                  \* (nil, false): end or error, for good
SMAllowed(sm) == IF sm.reg # Unknown THEN {sm.reg}
                 ELSE IF sm.done \/ sm.i = 0 THEN {<<>>}                       \* no record: no comment
                 ELSE sm.recs[sm.i].adm
SMComment(sm, c) == [sm EXCEPT !.reg = c]                                      \* for c \in SMAllowed(sm)

(* ------------------- reading the comments back from the octets --------------- *)
\* An independent definition at octet level: ';' opens a comment unless quoted or escaped; the comment runs to the line
\* end; a line end closes the entry when no parenthesis is open; '(' ')' count unless quoted / escaped / commented.
\* Result: per non-empty ENTRY (one that has a token) the list of its comments (without line ends); comments of lines
\* that hold no token and stand outside parentheses are dropped.
ScanStart == [d |-> 0, q |-> FALSE, esc |-> FALSE, inc |-> FALSE, cur |-> <<>>, acc |-> <<>>, tok |-> FALSE, out |-> <<>>]
CloseCom(s) == IF s.inc THEN [s EXCEPT !.inc = FALSE, !.cur = <<>>, !.acc = IF s.tok \/ s.d > 0 THEN Append(@, s.cur) ELSE @] ELSE s
CloseEntry(s) == [s EXCEPT !.out = IF s.tok THEN Append(@, s.acc) ELSE @, !.acc = <<>>, !.tok = FALSE]
ScanStep(s, c) ==
  IF s.inc THEN (IF c = LF THEN (LET t == CloseCom(s) IN IF t.d = 0 THEN CloseEntry(t) ELSE t) ELSE [s EXCEPT !.cur = Append(@, c)])
  ELSE IF s.esc THEN [s EXCEPT !.esc = FALSE, !.tok = TRUE]
  ELSE IF c = BSL THEN [s EXCEPT !.esc = TRUE, !.tok = TRUE]
  ELSE IF c = QUOTE THEN [s EXCEPT !.q = ~@, !.tok = TRUE]
  ELSE IF s.q THEN s
  ELSE IF c = SEMI THEN [s EXCEPT !.inc = TRUE, !.cur = <<SEMI>>]
  ELSE IF c = LPAR THEN [s EXCEPT !.d = @ + 1]
  ELSE IF c = RPAR THEN [s EXCEPT !.d = @ - 1]
  ELSE IF c = LF THEN (IF s.d = 0 THEN CloseEntry(s) ELSE s)
  ELSE IF c \in {SP, TAB, CR} THEN s
  ELSE [s EXCEPT !.tok = TRUE]
RECURSIVE ScanFrom(_, _, _)
ScanFrom(s, text, i) == IF i > Len(text) THEN CloseEntry(CloseCom(s)).out ELSE ScanFrom(ScanStep(s, text[i]), text, i + 1)
ScanZone(text) == ScanFrom(ScanStart, text, 1)
\* the same from the model: every entry that has a token, with its comments (CR of a CR LF line end included, as read)
OwnAsRead(e, crlf, lastNoEol) ==
  LET I == { i \in 1..Len(e.lines) : HasCom(e.lines[i]) }
      RECURSIVE Pick(_)
      Pick(i) == IF i > Len(e.lines) THEN <<>>
                 ELSE (IF i \in I THEN << <<SEMI>> \o e.lines[i].com[1] \o (IF crlf /\ ~(lastNoEol /\ i = Len(e.lines)) THEN <<CR>> ELSE <<>>) >> ELSE <<>>) \o Pick(i + 1)
  IN Pick(1)
ModelScan(z) == LET es == z.entries
                    T == { i \in 1..Len(es) : es[i].kind \notin {"blank", "conly"} }
                    RECURSIVE Pick(_)
                    Pick(i) == IF i > Len(es) THEN <<>> ELSE (IF i \in T THEN << OwnAsRead(es[i], z.crlf, ~z.final /\ i = Len(es)) >> ELSE <<>>) \o Pick(i + 1)
                IN Pick(1)
=============================================================================
