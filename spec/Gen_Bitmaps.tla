------------------------------ MODULE Gen_Bitmaps ------------------------------
(* Vectors for X16 (the universes of MC_Bitmaps and some more), each with what   *)
(* Bitmaps.tla / WireRR.tla say:                                                *)
(*  bmdec   a received type bitmap -> class ("ok" | "lax" | "bad") and types      *)
(*  bmenc   a type list in any order, with repetitions -> the octets (of its set) *)
(*  apldec  received APL RDATA -> class and items                                *)
(*  aplenc  APL items -> octets, and their text                                  *)
(*  apltext APL texts -> item or refusal                                         *)
(*  size    every LOC size octet -> validity and value; size texts -> octets     *)
(*  hex     EUI-48 / EUI-64 / ILNP values and texts                              *)
EXTENDS MC_Bitmaps, GenBase

CONSTANT Mode
VARIABLE v

TypeAlphabet == << 0, 1, 2, 7, 8, 15, 128, 250, 255, 256, 257, 65280, 65535 >>
Seqs(S, n) == UNION { [1..k -> S] : k \in 0..n }

SizeTexts == { <<49>>, <<49, 109>>, <<49, 77>>, <<49, 46, 53>>, <<49, 53>>, <<48, 46, 57, 57>>, <<46, 48, 49>>, <<46, 53>>, <<48>>, <<48, 46, 48>>, <<48, 46, 48, 48, 109>>,
               <<57, 48, 48, 48, 48, 48, 48, 48, 46, 48, 48, 109>>, <<57, 48, 48, 48, 48, 48, 48, 48, 46, 48, 49>>, <<49, 48, 48, 48, 48, 48, 48, 48, 48>>,
               <<49, 46, 50, 51, 52>>, <<49, 46>>, <<109>>, <<45, 49>>, <<43, 49>>, <<49, 101, 50>>, <<48, 49>>, <<48, 48, 48, 48, 48, 48, 48, 48, 48, 49>>,
               <<49, 46, 45, 49>>, <<49, 46, 43, 49>>, <<50, 53, 48, 48>>, <<57, 57, 57, 57, 57, 57, 57, 57>>, <<48, 46, 49>>, <<49, 48, 109>>, <<51, 48, 48, 48, 48, 48, 109>> }
RECURSIVE Dec8(_)
Dec8(n) == IF n < 10 THEN << 48 + n >> ELSE Dec8(n \div 10) \o << 48 + (n % 10) >>
SizeWrite(val) == Dec8(val[1]) \o <<46, 48 + (val[2] \div 10), 48 + (val[2] % 10), 109>>

HexVals == { <<0, 0, 0, 0, 0, 0>>, <<255, 255, 255, 255, 255, 255>>, <<1, 35, 69, 103, 137, 171>>, <<0, 0, 94, 0, 83, 42>>,
             <<0, 20, 79, 255, 255, 32, 238, 100>>, Rv!Zeros(8), <<255, 255, 255, 255, 255, 255, 255, 255>>, <<2, 0, 94, 16, 0, 0, 0, 42>> }
Damage(t) == { [t EXCEPT ![3] = 58], [t EXCEPT ![5] = 120], [t EXCEPT ![5] = 45], [t EXCEPT ![10] = 46], [t EXCEPT ![1] = 103], [t EXCEPT ![Len(t)] = 32],
               t \o <<48>>, t \o <<45, 48, 48>>, t \o <<58, 48, 48, 48, 48>>, Tail(t), Sub(t, 1, Len(t) - 1), <<>> }

HexTexts(hv) == UNION { {t0} \cup Damage(t0) : t0 \in (IF Len(hv) = 6 THEN { EuiText(hv, FALSE), EuiText(hv, TRUE) }
                                                        ELSE { EuiText(hv, FALSE), EuiText(hv, TRUE), IlnpText(hv, FALSE), IlnpText(hv, TRUE) }) }
AplTexts == { AplText(it) : it \in { i \in Items : ZeroBeyond(i.addr, i.prefix) } }
            \cup { <<51, 58, 49, 46, 50, 46, 51, 46, 52, 47, 56>>,                         \* 3:1.2.3.4/8
                   <<49, 58, 49, 48, 46, 49, 46, 48, 46, 48, 47, 56>>,                      \* 1:10.1.0.0/8  bits beyond the prefix
                   <<49, 58, 49, 48, 46, 48, 46, 48, 46, 48, 47, 51, 51>>,                  \* 1:10.0.0.0/33
                   <<49, 58, 49, 48, 46, 48, 46, 48, 46, 48>>,                              \* 1:10.0.0.0
                   <<49, 58, 49, 46, 50, 46, 51, 47, 56>>,                                  \* 1:1.2.3/8
                   <<50, 58, 49, 46, 50, 46, 51, 46, 52, 47, 56>>,                          \* 2:1.2.3.4/8   family / address mismatch
                   <<49, 58, 58, 58, 47, 48>>,                                              \* 1:::/0
                   <<50, 58, 58, 58, 47, 48>>,                                              \* 2:::/0
                   <<50, 58, 50, 48, 48, 49, 58, 100, 98, 56, 58, 58, 47, 51, 50>>,          \* 2:2001:db8::/32
                   <<33, 33, 49, 58, 49, 48, 46, 48, 46, 48, 46, 48, 47, 56>>,               \* !!1:10.0.0.0/8
                   <<49, 49, 48, 46, 48, 46, 48, 46, 48, 47, 56>>,                           \* no colon
                   <<49, 58, 49, 48, 46, 48, 46, 48, 46, 48, 47>>, <<49, 58, 47, 56>> }

Cases ==
  CASE Mode = "bmdec"  -> { [k |-> "bmdec", a |-> b, t |-> t] : b \in Blocks \cup { p \o q : p \in Blocks, q \in Blocks }
                                  \cup { <<0, n>> \o [i \in 1..m |-> IF i = m THEN l ELSE 0] : n \in {31, 32, 33}, m \in {31, 32, 33}, l \in {0, 1} }
                                  \cup { <<>>, <<0>>, <<255, 1, 1>>, <<255, 32>> \o [i \in 1..32 |-> 255], <<1, 1, 128, 0, 1, 64>>, <<0, 1, 64, 0, 1, 32>> },
                              t \in {47} }
                         \cup { [k |-> "bmdec", a |-> b, t |-> t] : b \in Blocks \cup { <<0, 1, 64, 1, 2, 0, 1>>, <<1, 1, 1, 0, 1, 1>> }, t \in {50, 62} }
    [] Mode = "bmenc"  -> { [k |-> "bmenc", a |-> [i \in 1..Len(q) |-> TypeAlphabet[q[i]]], t |-> 47] : q \in Seqs(1..Len(TypeAlphabet), 3) }
    [] Mode = "apldec" -> LET R == { <<0, f, p, nl>> \o o : f \in {0, 1, 2, 3}, p \in {0, 8, 32, 33, 128, 129}, nl \in {0, 1, 2, 4, 5, 16, 17, 129, 132},
                                     o \in { <<>>, <<10>>, <<10, 0>>, <<10, 1>>, <<1, 2, 3, 4>>, <<1, 2, 3, 0>>, <<1, 2, 3, 4, 5>>, [i \in 1..16 |-> i], [i \in 1..17 |-> i] } } IN
                          { [k |-> "apldec", a |-> b, t |-> 42] : b \in R \cup { <<>>, <<0>>, <<0, 1, 8>>, <<1, 1, 8, 1, 10>> }
                                \cup { p \o q : p \in { <<0, 1, 8, 1, 10>>, <<0, 2, 0, 0>> }, q \in { r \in R : r[2] = 1 /\ r[3] <= 32 /\ Len(r) < 10 } } }
    [] Mode = "aplenc" -> { [k |-> "aplenc", a |-> <<it>>, t |-> 42] : it \in Items } \cup { [k |-> "aplenc", a |-> <<i1, i2>>, t |-> 42] : i1 \in { i \in Items : i.prefix = 8 }, i2 \in { i \in Items : i.prefix \in {0, 24, 64} } }
                          \cup { [k |-> "aplenc", a |-> <<>>, t |-> 42] }
    [] Mode = "apltext" -> { [k |-> "apltext", a |-> y, t |-> 42] : y \in AplTexts }
    [] Mode = "size"   -> { [k |-> "size", a |-> b, t |-> 29] : b \in 0..255 } \cup { [k |-> "sizetext", a |-> y, t |-> 29] : y \in SizeTexts }
                          \cup { [k |-> "sizetext", a |-> SizeWrite(SizeValue(b)), t |-> 29] : b \in ValidOctets }
    [] Mode = "hex"    -> { [k |-> "hex", a |-> y, t |-> 0] : y \in HexVals }
                          \cup UNION { { [k |-> "hextext", a |-> y, t |-> Len(hv)] : y \in HexTexts(hv) } : hv \in HexVals }

GInit == v \in Cases /\ kd = "gen" /\ x = 0
GNext == UNCHANGED << v, kd, x >>

Norm(items) == [i \in 1..Len(items) |-> [items[i] EXCEPT !.addr = MaskTo(@, items[i].prefix)]]
JoinSp(ts) == Rv!JoinWith(ts, 32)
Vec ==
  CASE v.k = "bmdec"   -> LET d == DecBitmap(v.a) IN [kind |-> "bmdec", rtype |-> v.t, octets |-> v.a, st |-> d.st, types |-> d.types]
    [] v.k = "bmenc"   -> LET p == PackBitmapAdm(v.a) IN [kind |-> "bmenc", rtype |-> v.t, types |-> v.a, wire |-> p.wire, mayrefuse |-> p.mayrefuse]
    [] v.k = "apldec"  -> LET d == DecApl(v.a) IN [kind |-> "apldec", octets |-> v.a, st |-> d.st, items |-> d.items]
    [] v.k = "aplenc"  -> [kind |-> "aplenc", items |-> v.a, wire |-> EncApl(v.a),
                           text |-> JoinSp([i \in 1..Len(v.a) |-> AplText(Norm(v.a)[i])])]
    [] v.k = "apltext" -> LET r == AplRead(v.a) IN
                          [kind |-> "apltext", text |-> v.a, ok |-> r.ok,
                           lax |-> r.ok /\ ~ZeroBeyond(r.item.addr, r.item.prefix),                 \* bits beyond the prefix: AMBIG (refuse, or the masked network)
                           wire |-> IF r.ok THEN EncApl(<<r.item>>) ELSE <<>>]
    [] v.k = "size"    -> [kind |-> "size", b |-> v.a, valid |-> ValidSize(v.a), value |-> IF ValidSize(v.a) THEN SizeValue(v.a) ELSE <<0, 0>>]
    [] v.k = "sizetext" -> LET r == SizeRead(v.a) IN
                          [kind |-> "sizetext", text |-> v.a, ok |-> r.ok, octets |-> IF r.ok THEN SortedSeq(SizeOctetsFor(r.v)) ELSE <<>>]
    [] v.k = "hex"     -> [kind |-> "hex", value |-> v.a]
    [] v.k = "hextext" -> [kind |-> "hextext", text |-> v.a, n |-> v.t,
                           eui |-> LET r == EuiRead(v.a, v.t) IN IF r.ok THEN <<r.v>> ELSE <<>>,
                           ilnp |-> IF v.t = 8 THEN (LET r == IlnpRead(v.a) IN IF r.ok THEN <<r.v>> ELSE <<>>) ELSE <<>>]
GOut == Emit(Vec)
=============================================================================
