---------------------------- MODULE Trace_MsgText ----------------------------
(* Events of harness `msgtext record`:                                           *)
(*   hdr  MsgHdr.String() of the header the real Unpack made of <<id, w, 0...>>  *)
(*   msg  Msg.String() of a message with that header, `counts' records per       *)
(*        section (opt: one of the additional records is an OPT) and Rcode set   *)
(*        to `rcode' (12 bits when there is an OPT)                              *)
EXTENDS MsgText, TraceBase

VARIABLE l
Ev == Trace[l]

H(e) == [HdrOfWord(e.id, e.w) EXCEPT !.rcode = e.rcode]

Judge(e) ==
  CASE e.ev = "hdr" -> HdrStringOK(e.text, H(e))
    [] e.ev = "msg" -> Len(e.counts) = 4 /\ MsgStringOK(e.text, H(e), e.counts, e.opt)
    [] OTHER -> FALSE

Init == l = 1 /\ HWInit
Next == /\ l <= Len(Trace)
        /\ IF Judge(Ev) THEN TRUE ELSE MarkBad(l)
        /\ HW(l)
        /\ l' = l + 1
=============================================================================
