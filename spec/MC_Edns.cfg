CONSTANTS
  MaxLabel = 63
  MaxName = 255
  Scale = 1
INIT Init
NEXT Next
INVARIANTS TypeOK WordBijection BoolSetters ArgSetters Getters MsgLevel
CHECK_DEADLOCK FALSE
