---------------------------- MODULE MC_Admission ----------------------------
(* Bounded exhaustive check of Admission.tla on itself.                        *)
(*   kind = "hdr"   : every (QR, opcode 0..15, qd, an, ns, ar in 0..3) header  *)
(*                    x decodes/not x length {11, 12}: Policy total, Outcome a *)
(*                    function with exactly one disposition                    *)
(*   kind = "route" : every subset of 6 patterns x 8 names x {A, DS}           *)
(*   kind = "ctr"   : the exactly-once machine, up to MaxMsgs messages of the  *)
(*                    six disposition classes, all interleavings               *)
EXTENDS Admission

CONSTANTS MaxMsgs

VARIABLES kind, h, dec, len, PS, qn, qt, ctr
vars == <<kind, h, dec, len, PS, qn, qt, ctr>>

Hdr(qr, op, qd, an, ns, ar) ==
  [id |-> 4660, qr |-> qr, opcode |-> op, aa |-> 0, tc |-> 0, rd |-> 1, ra |-> 0, z |-> 0, ad |-> 0, cd |-> 0,
   rcode |-> 0, qd |-> qd, an |-> an, ns |-> ns, ar |-> ar]
Headers == { Hdr(qr, op, qd, an, ns, ar) : qr \in 0..1, op \in 0..15, qd \in 0..3, an \in 0..3, ns \in 0..3, ar \in 0..3 }
H0 == Hdr(0, 0, 1, 0, 0, 0)

\* labels
Lex   == <<101,120,97,109,112,108,101>>     \* example
LEX   == <<69,88,65,77,80,76,69>>           \* EXAMPLE
Lsub  == <<115,117,98>>                     \* sub
LSub  == <<83,117,66>>                      \* SuB
La    == <<97>>
Lx    == <<120>>
Lample == <<97,109,112,108,101>>            \* ample
Lorg  == <<111,114,103>>
Lnet  == <<110,101,116>>
Lxex  == <<120>> \o Lex                     \* xexample
Ladots == <<97,46,115,117,98>>              \* the single label "a.sub"

PatU  == { <<>>, <<Lex>>, <<Lsub, Lex>>, <<La, Lsub, Lex>>, <<Lample>>, <<Lorg>> }
NameU == { <<>>, <<LEX>>, <<LSub, Lex>>, <<La, Lsub, Lex>>, <<Lx, Lsub, Lex>>, <<Lxex>>, <<Ladots, Lex>>, <<Lnet>> }

\* one message per disposition class, for the counter machine
MsgU == { [len |-> 5,  h |-> H0, dec |-> FALSE],
          [len |-> 40, h |-> Hdr(1, 0, 1, 0, 0, 0), dec |-> TRUE],
          [len |-> 40, h |-> Hdr(0, 5, 1, 0, 0, 0), dec |-> TRUE],
          [len |-> 40, h |-> Hdr(0, 0, 2, 0, 0, 0), dec |-> TRUE],
          [len |-> 40, h |-> H0, dec |-> TRUE],
          [len |-> 40, h |-> H0, dec |-> FALSE] }

\* non-vacuity, evaluated once at start-up
ASSUME \A p \in Policies : \E x \in Headers : Policy(x) = p
ASSUME { ClassOf(m) : m \in MsgU } = {"handled", "dropped", "reported"}
ASSUME Cardinality(DSBelowReadings) = 2 => \E S \in SUBSET PatU, n \in NameU : Cardinality(RouteSet(S, n, TypeDS)) = 2
ASSUME \E S \in SUBSET PatU, n \in NameU : RouteSet(S, n, 1) = {Refused}

Init ==
  \/ /\ kind = "hdr" /\ h \in Headers /\ dec \in BOOLEAN /\ len \in {11, 12}
     /\ PS = {} /\ qn = <<>> /\ qt = 0 /\ ctr = CtrInit
  \/ /\ kind = "route" /\ PS \in SUBSET PatU /\ qn \in NameU /\ qt \in {1, TypeDS}
     /\ h = H0 /\ dec = TRUE /\ len = 12 /\ ctr = CtrInit
  \/ /\ kind = "ctr" /\ ctr = CtrInit
     /\ h = H0 /\ dec = TRUE /\ len = 12 /\ PS = {} /\ qn = <<>> /\ qt = 0

Next ==
  \/ kind # "ctr" /\ UNCHANGED vars
  \/ /\ kind = "ctr" /\ UNCHANGED <<kind, h, dec, len, PS, qn, qt>>
     /\ \/ \E m \in MsgU : ctr.received < MaxMsgs /\ ctr' = CtrReceive(ctr, m)
        \/ \E i \in 1..Len(ctr.inflight) :
             \/ CanHandle(ctr, i) /\ ctr' = CtrHandle(ctr, i)
             \/ CanDrop(ctr, i)   /\ ctr' = CtrDrop(ctr, i)
             \/ CanReport(ctr, i) /\ ctr' = CtrReport(ctr, i)
        \/ Settled(ctr) /\ ctr.received = MaxMsgs /\ UNCHANGED ctr

-----------------------------------------------------------------------------
PolicyTotal == kind = "hdr" => Policy(h) \in Policies

\* the clauses of the statement, one by one
PolicyClauses ==
  kind = "hdr" /\ len >= HeaderSize =>
    LET o == Outcome(len, h, dec) IN
    /\ (h.qr = 1 => o.reply = "none" /\ o.handled = 0)                       \* QR set: never answered
    /\ (h.qr = 0 /\ h.opcode \notin Supported => o.reply = "notimp")         \* unsupported opcode: NOTIMP
    /\ (h.qr = 0 /\ h.opcode \in Supported /\ (h.qd # 1 \/ h.an > 1 \/ h.ns > 1 \/ h.ar > 2) => o.reply = "formerr")
    /\ (o.handled = 1 => Policy(h) = "accept" /\ dec)
    /\ (Policy(h) = "accept" /\ dec => o.handled = 1)
    /\ (Policy(h) = "accept" /\ ~dec => o.invalid = 1 /\ o.reply = "formerr")

OutcomeFunction ==
  kind = "hdr" =>
    LET o == Outcome(len, h, dec) IN
    /\ o.class \in {"handled", "dropped", "reported"}
    /\ o.handled \in 0..1 /\ o.invalid \in 0..1
    /\ (o.class = "handled"  <=> o.handled = 1)
    /\ (o.class = "reported" <=> o.invalid = 1)
    /\ (o.class = "dropped"  <=> o.handled = 0 /\ o.invalid = 0)
    /\ (o.reply = "handler" <=> o.handled = 1)
    /\ (len < HeaderSize => o.class = "reported" /\ o.reply = "none")
    /\ (o.reply \in {"formerr", "notimp"} =>
          LET r == [h EXCEPT !.qr = 1, !.rcode = RcodeOf(o.reply), !.an = 0, !.ns = 0, !.ar = 0] IN
          /\ LibReply(h, r, o.reply)
          /\ ~LibReply(h, [r EXCEPT !.id = (h.id + 1) % 65536], o.reply)
          /\ ~LibReply(h, [r EXCEPT !.an = 1], o.reply))
    /\ EncHeader(h)[1] = h.id \div 256 /\ DecHeader(EncHeader(h)) = h

\* the lifecycle phase of the server is no exception to any clause (and the export below uses OutcomeAt)
PhaseIrrelevant ==
  kind = "hdr" => \A ph \in Phases : OutcomeAt(ph, len, h, dec) = Outcome(len, h, dec)

\* what was received before is no exception either, and no message ends the service (the export uses both)
HistoryIrrelevant ==
  kind = "hdr" => /\ \A pre \in {<<>>, <<[len |-> 0]>>, <<[len |-> 11], [len |-> len]>>} : OutcomeAfter(pre, len, h, dec) = Outcome(len, h, dec)
                  /\ ~EndsService(len, h)

RouteInv ==
  kind = "route" =>
    LET R == RouteSet(PS, qn, qt)
        M == Matching(PS, qn)
        pats == { r.pat : r \in { x \in R : x.kind = "handler" } } IN
    /\ R # {}
    /\ (Refused \in R <=> M = {}) /\ (Refused \in R => R = {Refused})
    /\ pats \subseteq M                                             \* a registered suffix of the name
    /\ (qt # TypeDS => Cardinality(R) = 1)
    /\ (qt # TypeDS /\ M # {} => \A p \in M : \A r \in pats : Len(p) <= Len(r))        \* the longest
    /\ (qt # TypeDS => (<<>> \in pats <=> M = {<<>>}))                                 \* root: last resort
    /\ Cardinality(R) <= 2
    /\ (qt = TypeDS /\ M # {} =>
          LET top == LongestOf(M)  A == ProperAnc(PS, top) IN
          /\ (A = {} => pats = {top})
          /\ (A # {} /\ Len(top) = Len(qn) => pats = {LongestOf(A)} /\ \A p \in A : Len(p) <= Len(LongestOf(A)))
          /\ (A # {} /\ Len(top) < Len(qn) => pats # {} /\ pats \subseteq {top, LongestOf(A)}))
    /\ RouteSet(PS, LowerName(qn), qt) = R                             \* case of the question name is irrelevant
    /\ PastNearest(PS, qn, qt) \cap pats = {}

CtrOK == kind = "ctr" => CtrInv(ctr) /\ (Settled(ctr) => ctr.received = ctr.handled + ctr.dropped + ctr.reported)
=============================================================================
