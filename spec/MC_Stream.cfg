CONSTANTS
  MaxBody = 2
  Sizes = {0, 1, 2, 3}
  MaxFrames = 3
  ReadFullSem = TRUE
INIT Init
NEXT Next
INVARIANTS StreamSound ClosedForm HdrClosedForm IdAgrees IdShape
CHECK_DEADLOCK FALSE
