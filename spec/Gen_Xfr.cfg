CONSTANTS
  EmitBehaviours = TRUE
  Consumer = FALSE
INIT Init
NEXT Next
INVARIANTS UniqueEnd MachineIsGrammar NoFaultNoError FaultIsReported RunAgrees Handoff Out
