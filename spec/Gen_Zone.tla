------------------------------ MODULE Gen_Zone ------------------------------
(* Vector generator for C06 / C07: every case is one TLC state; the invariant  *)
(* Out evaluates Zone.tla on it and appends the abstract lines together with   *)
(* everything they may denote to vectors.ndjson.                               *)
(*   Mode "seq"  : configuration x every sequence of <= N shapes (sharded)     *)
(*   Mode "idx"  : index sequences read from cases.ndjson  ({c, q})            *)
(*   Mode "file" : whole cases read from cases.ndjson  ({cfg, lines})          *)
(*   Mode "gen"  : the $GENERATE matrix: ranges x offset x width x base        *)
(*   Mode "tree" : include trees with directories and decoys: every top-level  *)
(*                 file location x every sequence of <= N tree shapes          *)
(*   Mode "ofile": cases read from cases.ndjson, each {c | cfg, q | lines       *)
(*                 [, otext]}: configuration (index or in full), lines (shape  *)
(*                 indices or in full) and, optionally, the INITIAL ORIGIN AS  *)
(*                 TEXT -- the origin string handed to the parser:             *)
(*                 Zone!OriginOfText says whether the parser starts in the     *)
(*                 error state (C07)                                           *)
EXTENDS ZoneShapes, GenBase

CONSTANTS Mode, N, Shard, NShards

VARIABLES v

RECURSIVE SetAsSeq(_)
SetAsSeq(S) == IF S = {} THEN <<>> ELSE LET x == CHOOSE y \in S : TRUE IN <<x>> \o SetAsSeq(S \ {x})

Cases == IF Mode \in {"idx", "file", "ofile"} THEN ndJsonDeserialize("cases.ndjson") ELSE <<>>

InShard(c, q) == (c + SumSeq([i \in 1..Len(q) |-> (2 * i + 1) * q[i]])) % NShards = Shard

\* ---- $GENERATE matrix
Ranges == << <<0, 0, 1>>, <<1, 3, 1>>, <<0, 10, 5>>, <<65530, 65535, 1>>, <<0, 65535, 1>>, <<0, 65536, 1>>,
             <<7, 6, 1>>, <<2, 65537, 1>>, <<0, 131070, 2>>, <<0, 131072, 2>> >>
Offs   == <<-1, 0, 7>>
Widths == <<0, 3>>
Bases  == <<100, 111, 120, 88>>      \* d o x X
ModText(o, w, b) == <<36, 123>> \o (IF o < 0 THEN <<45>> \o DecText(0 - o) ELSE DecText(o)) \o <<44>> \o DecText(w) \o <<44, b>> \o <<125>>
GenLineOf(q) ==
  LET r == Ranges[q[1]]  m == ModText(Offs[q[2]], Widths[q[3]], Bases[q[4]]) IN
  Generate(r[1], r[2], r[3], <<104>> \o m \o <<45, 36>>, 30, 0, "tc", tTXT, <<Item(<<118>> \o m, TRUE), Item(<<36>>, FALSE)>>)   \* h${..}-$ 30 TXT "v${..}" $
GenCfg == CfgOf(1)

Rec5(r) == [owner |-> r.owner, ttl |-> r.ttl, class |-> r.class, type |-> r.type, rdata |-> r.rdata]
GenVector(g) ==
  LET s0 == StartP(GenCfg, [io |-> FALSE, it |-> FALSE, go |-> FALSE, gt |-> FALSE])
      bad == ~GenRangeOK(g) \/ GenTooMany(g)
      n == IF bad THEN 0 ELSE GenCount(g)
      js == IF n <= 12 THEN 1..n ELSE {1, 2, 3, n \div 2, n - 2, n - 1, n}
      one(j) == LET gl == GenLine(g, g.lo + (j - 1) * g.step) IN
                IF gl.st = "ok" THEN RecordOf(s0, GenCfg, 1, gl.line) ELSE [st |-> IF gl.st = "amb" THEN "amb" ELSE "err", rec |-> <<>>]
      rs == [j \in js |-> one(j)]
      sts == { rs[j].st : j \in js }
  IN [kind |-> "gen", cfg |-> GenCfg, lines |-> <<g>>,
      undef |-> "amb" \in sts, err |-> bad \/ "err" \in sts, n |-> n,
      sample |-> IF bad \/ sts # {"ok"} THEN <<>>
                 ELSE LET sq == SetAsSeq(js) IN [i \in 1..Len(sq) |-> [j |-> sq[i], rec |-> Rec5(rs[sq[i]].rec)]]]

\* given / givenfs: a spelling of the file (and of the include files: <<[name, text]>>) supplied with the case
\* (Mode "file"), replayed in addition to the harness' own
ZoneVector(c, ls, given, givenfs) ==
  [kind |-> "zone", cfg |-> c, lines |-> ls, outs |-> SetAsSeq(Denotations(c, ls)),
   explicit |-> Explicit(c, ls), minimal |-> Minimal(c, ls), given |-> given, givenfs |-> givenfs]

\* the configuration of the vector carries the origin the specification reads from the text (none if it is not a name);
\* otext / ost travel with it: the harness hands otext to the parser as it is
OriginVector(c, ot, ls) ==
  LET o == OriginOfText(ot)  c2 == [c EXCEPT !.origin = o.origin] IN
  [kind |-> "zone", cfg |-> c2, lines |-> ls, outs |-> SetAsSeq(DenotationsO(c, ot, ls)),
   explicit |-> IF o.st = "ok" THEN Explicit(c2, ls) ELSE <<>>, minimal |-> IF o.st = "ok" THEN Minimal(c2, ls) ELSE <<>>,
   given |-> <<>>, givenfs |-> <<>>, otext |-> ot, ost |-> o.st]

Init ==
  /\ ZInit(CfgOf(0)) /\ pol = [io |-> FALSE, it |-> FALSE, go |-> FALSE, gt |-> FALSE]
  /\ \/ Mode = "seq" /\ \E c \in 0..(NCfg - 1), q \in UNION { [1..k -> 1..NShapes] : k \in 0..N } : v = <<c>> \o q /\ InShard(c, q)
     \/ Mode \in {"idx", "file", "ofile"} /\ v \in 1..Len(Cases)
     \/ Mode = "tree" /\ \E c \in 1..Len(TreeTop), q \in UNION { [1..k -> 1..Len(TreeShapes)] : k \in 1..N } : v = <<c>> \o q
     \/ Mode = "gen" /\ \E a \in 1..Len(Ranges), b \in 1..Len(Offs), c \in 1..Len(Widths), d \in 1..Len(Bases) :
                          v = <<a, b, c, d>> /\ ((a + b + c + d) % NShards = Shard)
Next == UNCHANGED <<v, zvars>>

Out ==
  CASE Mode = "seq"  -> Emit(ZoneVector(CfgOf(v[1]), [i \in 1..(Len(v) - 1) |-> Shapes[v[i + 1]]], <<>>, <<>>))
    [] Mode = "idx"  -> Emit(ZoneVector(CfgOf(Cases[v].c), [i \in 1..Len(Cases[v].q) |-> Shapes[Cases[v].q[i]]], <<>>, <<>>))
    [] Mode = "file" -> Emit(ZoneVector(Cases[v].cfg, Cases[v].lines, IF "text" \in DOMAIN Cases[v] THEN Cases[v].text ELSE <<>>,
                                        IF "fstext" \in DOMAIN Cases[v] THEN Cases[v].fstext ELSE <<>>))
    [] Mode = "ofile" -> LET cs == Cases[v]
                             c  == IF "cfg" \in DOMAIN cs THEN cs.cfg ELSE CfgOf(cs.c)
                             ls == IF "lines" \in DOMAIN cs THEN cs.lines ELSE [i \in 1..Len(cs.q) |-> Shapes[cs.q[i]]]
                         IN IF "otext" \in DOMAIN cs THEN Emit(OriginVector(c, cs.otext, ls)) ELSE Emit(ZoneVector(c, ls, <<>>, <<>>))
    [] Mode = "tree" -> Emit(ZoneVector(TreeCfg(v[1]), [i \in 1..(Len(v) - 1) |-> TreeShapes[v[i + 1]]], <<>>, <<>>))
    [] Mode = "gen"  -> Emit(GenVector(GenLineOf(v)))
=============================================================================
