CONSTANTS
  Mode = "tcp"
  NStart = 1
  NLsn = 1
  NShut = 2
  NConns = 2
  MaxReq = 1
  NPkts = 0
  CtxMayExpire = TRUE
  PlainShut = {1}
  DeadlinesMayFire = TRUE
  ClientMayClose = TRUE
  HandlerMayClose = FALSE
  HandlerMayHijack = FALSE
  StartMayFail = FALSE
  SpareFields = FALSE
  SeqRestart = FALSE
  Bug = "none"
  TrackAct = TRUE
INIT Init
NEXT Next
VIEW View
CHECK_DEADLOCK FALSE
INVARIANTS TypeOK PlainShutdownWaits GracefulReturn RepliesDelivered ServeReturnsNil OneLoopPerGeneration LockDiscipline NoCrash PromptUnblock NothingLeft
PROPERTIES NoHandlerStartAfterShutdownReturned StartTwiceErrors ShutdownNotStartedErrors FailedStartLeavesStopped
