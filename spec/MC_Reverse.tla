----------------------------- MODULE MC_Reverse -----------------------------
(* Reverse.tla on itself: the address parser inverts every spelling; the        *)
(* reverse names have the right shape; the calendar is continuous and hits the  *)
(* known anchors; AddOrigin / TrimDomainName are inverse on relative names.     *)
EXTENDS Reverse

VARIABLES kind, a, y, m, d

B == {0, 1, 9, 10, 99, 100, 255}
G == { <<0, 0>>, <<255, 255>>, <<13, 184>>, <<0, 10>> }
V6 == { g1 \o g2 \o g3 \o g4 \o g5 \o g6 \o g7 \o g8 :
          g1 \in {<<0, 0>>, <<32, 1>>}, g2 \in G, g3 \in {<<0, 0>>, <<0, 10>>}, g4 \in {<<0, 0>>}, g5 \in {<<0, 0>>, <<255, 255>>},
          g6 \in {<<0, 0>>, <<255, 255>>}, g7 \in G, g8 \in G }
Years == (1968..2110) \cup {1, 4, 100, 400, 1900, 2400, 9999}

Init == \/ kind = "v4" /\ a \in [1..4 -> B] /\ y = 1 /\ m = 1 /\ d = 1
        \/ kind = "v6" /\ a \in V6 /\ y = 1 /\ m = 1 /\ d = 1
        \/ kind = "date" /\ a = <<>> /\ y \in Years /\ m \in 1..12 /\ d \in 1..31
        \/ kind = "names" /\ a = <<>> /\ y = 1 /\ m = 1 /\ d = 1
Next == UNCHANGED <<kind, a, y, m, d>>

V4Inv ==
  kind = "v4" =>
    LET t == QuadText(a)  p == ParseAddr(t)  r == ReverseV4(a)  pr == Parse(r) IN
    /\ p.ok /\ p.v = a
    /\ ReverseOK(t, TRUE, r) /\ ReverseOK(t, TRUE, Upper(r)) /\ ~ReverseOK(t, FALSE, <<>>)
    /\ pr.st = "ok" /\ pr.fq /\ Len(pr.labels) = 6 /\ Accept(r)
    /\ \A i \in 1..4 : DecVal(pr.labels[i]) = a[5 - i]
    /\ ~ParseAddr(t \o <<46>>).ok /\ ~ParseAddr(<<46>> \o t).ok /\ ~ParseAddr(t \o <<46, 49>>).ok
    /\ ~ParseAddr(<<48>> \o t).ok                                         \* leading zero
    /\ ~ParseAddr(SubSeq(t, 1, Len(t) - 1) \o <<50, 53, 54>>).ok \/ a[4] >= 10   \* x256

V6Inv ==
  kind = "v6" =>
    LET r == ReverseV6(a)  pr == Parse(r) IN
    /\ ParseAddr(FullText(a)) = [ok |-> TRUE, v |-> a]
    /\ ParseAddr(Upper(FullText(a))) = [ok |-> TRUE, v |-> a]
    /\ ParseAddr(ShortText(a)) = [ok |-> TRUE, v |-> a]
    /\ ParseAddr(QuadTailText(a)) = [ok |-> TRUE, v |-> a]
    /\ \A i \in 1..8, j \in 1..8 : EllOK(a, i, j) => ParseAddr(EllText(a, i, j)) = [ok |-> TRUE, v |-> a]
    /\ ~ParseAddr(FullText(a) \o <<58, 58>>).ok                            \* 8 groups and an ellipsis
    /\ ~ParseAddr(FullText(a) \o <<58, 49>>).ok                            \* 9 groups
    /\ ~ParseAddr(SubSeq(FullText(a), 1, 34)).ok                           \* 7 groups
    /\ ~ParseAddr(FullText(a) \o <<37, 101>>).ok                           \* zone
    /\ ~ParseAddr(<<58>> \o FullText(a)).ok
    /\ (EllOK(a, 3, 4) /\ EllOK(a, 6, 6) => ~ParseAddr(JoinWith(<<HexShort(GroupVal(a, 1)), HexShort(GroupVal(a, 2))>>, 58) \o <<58, 58>>
                                            \o HexShort(GroupVal(a, 5)) \o <<58, 58>> \o JoinWith(<<HexShort(GroupVal(a, 7)), HexShort(GroupVal(a, 8))>>, 58)).ok)
    /\ pr.st = "ok" /\ pr.fq /\ Len(pr.labels) = 34 /\ Accept(r)
    /\ \A i \in 1..32 : Len(pr.labels[i]) = 1
    /\ \A i \in 1..16 : HexVal(pr.labels[2 * i - 1][1]) + 16 * HexVal(pr.labels[2 * i][1]) = a[17 - i]
    /\ (Mapped(a) => ReverseV4(SubSeq(a, 13, 16)) \in ReverseAdm(a)) /\ ReverseV6(a) \in ReverseAdm(a)

Real == d <= DaysInMonth(y, m)
NextDay == IF d < DaysInMonth(y, m) THEN <<y, m, d + 1>> ELSE IF m < 12 THEN <<y, m + 1, 1>> ELSE <<y + 1, 1, 1>>
Two(n) == << 48 + (n \div 10), 48 + (n % 10) >>
Stamp(yy, mo, dd, hh, mi, ss) == << 48 + (yy \div 1000), 48 + ((yy \div 100) % 10), 48 + ((yy \div 10) % 10), 48 + (yy % 10) >>
                                 \o Two(mo) \o Two(dd) \o Two(hh) \o Two(mi) \o Two(ss)
DateInv ==
  kind = "date" =>
    /\ (Real /\ y < 9999 => LET n == NextDay IN
          /\ Days0(n[1], n[2], n[3]) = Days0(y, m, d) + 1
          /\ Unix32(n[1], n[2], n[3], 0, 0, 0) = AddL(Unix32(y, m, d, 23, 59, 59), <<0, 1>>)
          /\ Unix32(n[1], n[2], n[3], 0, 0, 0) = AddL(Unix32(y, m, d, 0, 0, 0), <<1, 20864>>))       \* + 86400
    /\ IsStamp(Stamp(y, m, d, 23, 59, 59)) = Real
    /\ ~IsStamp(Stamp(y, m, d, 24, 0, 0)) /\ ~IsStamp(Stamp(y, m, d, 0, 60, 0)) /\ ~IsStamp(Stamp(y, m, d, 0, 0, 60))
    /\ (Real => StampValue(Stamp(y, m, d, 1, 2, 3)) = Unix32(y, m, d, 1, 2, 3))
    /\ (Real => TimeToStringOK(Unix32(y, m, d, 6, 28, 15), Stamp(y, m, d, 6, 28, 15)))
    /\ (Real /\ y + 136 <= 9999 /\ (m # 2 \/ d # 29) => ~TimeToStringOK(Unix32(y, m, d, 0, 0, 0), Stamp(y + 1, m, d, 0, 0, 0)))

Anchors ==
  /\ Days0(1970, 1, 1) = EpochDays0
  /\ Unix32(1970, 1, 1, 0, 0, 0) = <<0, 0>>
  /\ Unix32(1969, 12, 31, 23, 59, 59) = <<65535, 65535>>
  /\ Unix32(2038, 1, 19, 3, 14, 7) = <<32767, 65535>> /\ Unix32(2038, 1, 19, 3, 14, 8) = <<32768, 0>>
  /\ Unix32(2106, 2, 7, 6, 28, 15) = <<65535, 65535>> /\ Unix32(2106, 2, 7, 6, 28, 16) = <<0, 0>>
  /\ Unix32(2000, 3, 1, 0, 0, 0) = L32(951868800)
  /\ Unix32(2011, 4, 3, 15, 41, 50) = L32(1301845310)             \* "20110403154150", the example in the library's comment
  /\ Unix32(1901, 12, 13, 20, 45, 52) = <<32768, 0>>              \* -2^31
  /\ SubL(<<0, 0>>, <<0, 1>>) = <<65535, 65535>> /\ AddL(<<65535, 65535>>, <<0, 1>>) = <<0, 0>>
  /\ MulSmall(<<1, 1>>, 32767) = <<32767, 32767>> /\ Mul86400(L32(1)) = <<1, 20864>>

Foo == <<102, 111, 111>>  Org == <<111, 114, 105, 103, 105, 110>>  \* "foo" "origin"
NamesInv ==
  kind = "names" =>
    /\ AddOriginFull(Foo \o Dot, Org \o Dot) = Foo \o Dot
    /\ AddOriginFull(Foo, Org \o Dot) = Foo \o Dot \o Org \o Dot
    /\ AddOriginFull(Foo, Org) = Foo \o Dot \o Org
    /\ AddOriginFull(Foo, Dot) = Foo \o Dot /\ AddOriginFull(Foo \o Dot, Dot) = Foo \o Dot
    /\ AddOriginFull(At, Org \o Dot) = Org \o Dot /\ AddOriginFull(<<>>, Org \o Dot) = Org \o Dot
    /\ AddOriginFull(Foo, <<>>) = Foo
    /\ \A o \in { Org, Org \o Dot, Upper(Org) \o Dot, Foo \o Dot \o Org } :
         /\ TrimSpec(AddOriginFull(Foo, o), o) = Foo
         /\ TrimSpec(Foo \o Dot \o Foo \o Dot \o o, o) = Foo \o Dot \o Foo
         /\ TrimSpec(o, o) = At /\ TrimSpec(FqdnSpec(o), o) = At
         /\ TrimSpec(Foo, o) = Foo /\ TrimSpec(Foo \o Dot, o) = Foo \o Dot
         /\ TrimSpec(Foo \o o, o) = Foo \o o                        \* "fooorigin" is not below "origin"
    /\ TrimSpec(<<>>, Org) = At /\ TrimSpec(Foo \o Dot, Dot) = Foo /\ TrimSpec(Foo, Dot) = Foo /\ TrimSpec(Dot, Dot) = At
=============================================================================
