--------------------------- MODULE Trace_UdpSession ---------------------------
(* Events from harness `udpsession`:                                            *)
(*  pure      [oob, dst, src]   parseDstFromOOB(oob) and correctSource(oob)     *)
(*  exchange  [to, oob, from, peer, raddr]  one datagram to a real socket       *)
(*            through setUDPSocketOptions / ReadFromSessionUDP /                *)
(*            WriteToSessionUDP (oob = the session's context); the reply also   *)
(*            goes through correctSource, so (oob, src) is judged as well       *)
(*  server    [to, from]        the same through a real dns.Server              *)
EXTENDS UdpSession, TraceBase

VARIABLE l
Ev == Trace[l]

Judge(e) ==
  CASE e.ev = "pure"     -> DstOK(e.oob, e.dst) /\ SourceOK(e.oob, e.src)
    [] e.ev = "exchange" -> ExchangeOK(e.to, e.oob, e.from, e.peer, e.raddr) /\ Cmsgs(e.oob).ok
    [] e.ev = "server"   -> e.to # <<>> /\ SameAddr(e.from, e.to)
    [] OTHER -> FALSE

Init == l = 1 /\ HWInit
Next == /\ l <= Len(Trace)
        /\ IF Judge(Ev) THEN TRUE ELSE MarkBad(l)
        /\ HW(l)
        /\ l' = l + 1
=============================================================================
