----------------------------- MODULE MC_Dnssec -----------------------------
(* Dnssec.tla on itself, exhaustively over a small universe: RRsets of 1..3    *)
(* records (drawn with repetition from 3 records per type) of the types        *)
(* A, TXT, MX (RDATA name lower-cased), NSEC (RDATA name NOT lower-cased) and  *)
(* SOA, under owners a.Ex. / *.Ex. / b.a.Ex., with RRSIG fields whose Labels   *)
(* equals, or is one or two less than, the owner's label count.                *)
(*   Invariant:  SignedData is unchanged by permuting the records, repeating   *)
(*               one, changing their TTLs, flipping the letter case of the     *)
(*               owner and of RDATA names of the RFC 4034 s.6.2 types, and by  *)
(*               replacing the owner by another expansion of the same wildcard.*)
(*   Sensitive:  SignedData changes with every single-field alteration the     *)
(*               statement lists: RDATA, owner, type, class, signer, key tag,  *)
(*               labels, original TTL, expiration, inception; and with the     *)
(*               case of an NSEC next name or a TXT string.                    *)
(*   PreChecks:  each pre-check fails when its field alone is altered.         *)
EXTENDS Dnssec

VARIABLES rrset, sig, phase

L(s) == s
Ex  == << <<69, 120>> >>                             \* Ex.
Own == { << <<97>> >> \o Ex, << Star >> \o Ex, << <<98>>, <<97>> >> \o Ex }
Ttl == <<0, 0, 14, 16>>
RR(n, t, f) == [name |-> n, type |-> t, class |-> 1, ttl |-> Ttl, nodata |-> FALSE, f |-> f]

NmA == << <<109, 88>> >> \o Ex                       \* mX.Ex.
NmB == << <<109>> >> \o Ex                           \* m.Ex.
Recs(n, t) ==
  CASE t = 1  -> { RR(n, 1, [A |-> <<192, 0, 2, x>>]) : x \in {1, 2, 255} }
    [] t = 16 -> { RR(n, 16, [Txt |-> s]) : s \in { << <<97>> >>, << <<65>> >>, << <<97>>, <<>> >> } }
    [] t = 15 -> { RR(n, 15, [Preference |-> p, Mx |-> x]) : p \in {1, 256}, x \in {NmA, NmB} }
    [] t = 47 -> { RR(n, 47, [NextDomain |-> x, TypeBitMap |-> <<1, 47>>]) : x \in {NmA, NmB} }
    [] t = 6  -> { RR(n, 6, [Ns |-> NmA, Mbox |-> x, Serial |-> <<0, 0, 0, 1>>, Refresh |-> Ttl, Retry |-> Ttl, Expire |-> Ttl,
                             Minttl |-> Ttl]) : x \in {NmA, NmB} }
Types == {1, 16, 15, 47, 6}

Seqs(S) == { <<a>> : a \in S } \cup { <<a, b>> : a \in S, b \in S } \cup { <<a, b, c>> : a \in S, b \in S, c \in S }

SigOf(n, t, lab, ottl) ==
  [owner |-> n, class |-> 1,
   f |-> [TypeCovered |-> t, Algorithm |-> 13, Labels |-> lab, OrigTtl |-> ottl, Expiration |-> <<101, 0, 0, 0>>,
          Inception |-> <<100, 0, 0, 0>>, KeyTag |-> 4660, SignerName |-> Ex, Signature |-> <<1, 2, 3>>]]

Init == /\ phase = 0
        /\ \E n \in Own, t \in Types :
             /\ rrset \in Seqs(Recs(n, t))
             /\ \E d \in 0..2, ot \in {Ttl, <<0, 0, 0, 60>>} : Len(n) - d >= 1 /\ sig = SigOf(n, t, Len(n) - d, ot)
Next == phase = 0 /\ phase' = 1 /\ UNCHANGED <<rrset, sig>>

SD(rs) == SignedData(sig.f, rs)
Base == SD(rrset)

Flip(b) == IF b >= 65 /\ b <= 90 THEN b + 32 ELSE IF b >= 97 /\ b <= 122 THEN b - 32 ELSE b
FlipName(n) == [i \in 1..Len(n) |-> [j \in 1..Len(n[i]) |-> Flip(n[i][j])]]
NameFields(t) == { FieldsOf(t)[i].n : i \in { i \in 1..Len(FieldsOf(t)) : FieldsOf(t)[i].k \in {"name", "cname"} } }
FlipRdNames(rr) == [rr EXCEPT !.f = [n \in DOMAIN rr.f |-> IF n \in NameFields(rr.type) THEN FlipName(rr.f[n]) ELSE rr.f[n]]]

Reverse(s) == [i \in 1..Len(s) |-> s[Len(s) + 1 - i]]
Rotate(s)  == [i \in 1..Len(s) |-> s[1 + (i % Len(s))]]
MapRR(Op(_)) == [i \in 1..Len(rrset) |-> Op(rrset[i])]

Invariant ==
  phase = 1 =>
    /\ SD(Reverse(rrset)) = Base /\ SD(Rotate(rrset)) = Base                                   \* order
    /\ \A i \in 1..Len(rrset) : SD(Append(rrset, rrset[i])) = Base                             \* a record twice
    /\ SD([i \in 1..Len(rrset) |-> [rrset[i] EXCEPT !.ttl = <<0, 0, 0, i>>]]) = Base           \* current TTLs
    /\ SD(MapRR(LAMBDA r : [r EXCEPT !.name = FlipName(r.name)])) = Base                       \* owner case
    /\ SD(<< [rrset[1] EXCEPT !.name = FlipName(@)] >> \o Tail(rrset)) = Base                  \* ... of one record only
    /\ rrset[1].type \in CanonLowerTypes => SD(MapRR(FlipRdNames)) = Base                      \* RDATA names, s.6.2 types
    /\ SignedData([sig.f EXCEPT !.SignerName = FlipName(@)], rrset) = Base                     \* signer case
    \* wildcard: when Labels < owner labels, any owner with the same rightmost Labels labels gives the same data
    /\ sig.f.Labels < Len(rrset[1].name) =>
         LET tail == SubSeq(rrset[1].name, Len(rrset[1].name) - sig.f.Labels + 1, Len(rrset[1].name)) IN
         \A pre \in { << <<120>> >>, << <<121>>, <<120>> >>, << Star >> } :
            SD(MapRR(LAMBDA r : [r EXCEPT !.name = pre \o tail])) = Base

AltF(rr) ==      \* one RDATA field changed
  CASE rr.type = 1  -> [rr EXCEPT !.f.A[4] = (@ + 1) % 256]
    [] rr.type = 16 -> [rr EXCEPT !.f.Txt = Append(@, <<122>>)]
    [] rr.type = 15 -> [rr EXCEPT !.f.Preference = @ + 1]
    [] rr.type = 47 -> [rr EXCEPT !.f.TypeBitMap = <<1>>]
    [] rr.type = 6  -> [rr EXCEPT !.f.Serial = <<0, 0, 0, 2>>]
Sensitive ==
  phase = 1 =>
    /\ \A i \in 1..Len(rrset) :
         LET alt == [rrset EXCEPT ![i] = AltF(rrset[i])] IN
         (\A j \in 1..Len(rrset) : CanonRdata(alt[i]) # CanonRdata(rrset[j])) \/ Len(rrset) = 1 => SD(alt) # Base   \* RDATA
    /\ SD(Append(rrset, AltF(rrset[1]))) # Base \/ \E j \in 1..Len(rrset) : CanonRdata(AltF(rrset[1])) = CanonRdata(rrset[j])   \* a record added
    /\ Len(rrset[1].name) <= sig.f.Labels =>
         SD(MapRR(LAMBDA r : [r EXCEPT !.name = << <<122>> >> \o Tail(r.name)])) # Base          \* owner
    /\ SD(MapRR(LAMBDA r : [r EXCEPT !.type = 65280, !.f = [Rdata |-> CanonRdata(r)]])) # Base   \* type (same RDATA octets)
    /\ SD(MapRR(LAMBDA r : [r EXCEPT !.class = 3])) # Base                                      \* class
    /\ \A n \in {"TypeCovered", "Algorithm", "Labels", "KeyTag"} :
         SignedData([sig.f EXCEPT ![n] = @ + 1], rrset) # Base
    /\ \A n \in {"OrigTtl", "Expiration", "Inception"} :
         SignedData([sig.f EXCEPT ![n][4] = (@ + 1) % 256], rrset) # Base
    /\ SignedData([sig.f EXCEPT !.SignerName = << <<120>> >> \o @], rrset) # Base
    /\ rrset[1].type = 47 => SD(MapRR(FlipRdNames)) # Base                                       \* NSEC next name keeps its case
    /\ rrset[1].type = 16 /\ Len(rrset) = 1 =>
         SD(MapRR(LAMBDA r : [r EXCEPT !.f.Txt = [i \in 1..Len(@) |-> [j \in 1..Len(@[i]) |-> Flip(@[i][j])]]])) # Base

Key0 == [owner |-> FlipName(Ex), class |-> 1, f |-> [Flags |-> 257, Protocol |-> 3, Algorithm |-> 13, PublicKey |-> <<7, 7, 7, 9>>]]
Sig0 == [sig EXCEPT !.f.KeyTag = KeyTagOf(Key0.f)]
Pre ==
  phase = 1 =>
    /\ PreChecks(Sig0, Key0, rrset)
    /\ ~PreChecks([Sig0 EXCEPT !.f.KeyTag = (@ + 1) % 65536], Key0, rrset)
    /\ ~PreChecks([Sig0 EXCEPT !.f.Algorithm = 8], Key0, rrset)
    /\ ~PreChecks([Sig0 EXCEPT !.f.SignerName = << <<120>> >>], Key0, rrset)
    /\ ~PreChecks([Sig0 EXCEPT !.class = 3], Key0, rrset)
    /\ ~PreChecks([Sig0 EXCEPT !.f.TypeCovered = 2], Key0, rrset)
    /\ ~PreChecks([Sig0 EXCEPT !.owner = << <<120>> >> \o Ex], Key0, rrset)
    /\ ~PreChecks([Sig0 EXCEPT !.f.Labels = Len(rrset[1].name) + 1], Key0, rrset)
    /\ \A fl \in {0, 1, 128, 255} :     \* no ZONE bit; the tag follows the key so that only the flag is at fault
         LET k == [Key0 EXCEPT !.f.Flags = fl] IN ~PreChecks([Sig0 EXCEPT !.f.KeyTag = KeyTagOf(k.f)], k, rrset)
    /\ \A pr \in {0, 2, 4, 255} :
         LET k == [Key0 EXCEPT !.f.Protocol = pr] IN ~PreChecks([Sig0 EXCEPT !.f.KeyTag = KeyTagOf(k.f)], k, rrset)
    /\ ~PreChecks(Sig0, [Key0 EXCEPT !.class = 3], rrset)
    /\ Len(rrset) >= 2 => ~PreChecks(Sig0, Key0, [rrset EXCEPT ![2].class = 3])
    /\ Len(rrset) >= 2 => ~PreChecks(Sig0, Key0, [rrset EXCEPT ![2].name = << <<120>> >> \o Ex])
    \* what Sign fills in makes the pre-checks hold
    /\ LET s == SignFills([Sig0 EXCEPT !.f.Labels = 0, !.f.TypeCovered = 0, !.f.OrigTtl = Zero4], rrset) IN
       /\ PreChecks(s, Key0, rrset)
       /\ s.f.OrigTtl = rrset[1].ttl
       /\ s.f.Labels = Len(rrset[1].name) - (IF rrset[1].name[1] = Star THEN 1 ELSE 0)
       /\ CanonOwner(rrset[1].name, s.f.Labels) = LowerName(rrset[1].name)       \* no substitution for the signed owner itself
    \* ... whatever the RRSIG value held before (an earlier RRset's owner, class, type, Labels; the largest values): only a
    \* non-zero Original TTL of the caller's stays
    /\ \A lab \in {Len(rrset[1].name) + 2, 255}, tc \in {2}, ot \in {Zero4, <<0, 0, 0, 77>>} :
         LET fresh == SignFills([Sig0 EXCEPT !.f.Labels = 0, !.f.TypeCovered = 0, !.f.OrigTtl = ot], rrset)
             used  == SignFills([Sig0 EXCEPT !.owner = << <<120>>, <<121>> >> \o rrset[1].name, !.class = 3,
                                             !.f.Labels = lab, !.f.TypeCovered = tc, !.f.OrigTtl = ot], rrset)
         IN SameButSignature(used, fresh) /\ PreChecks(used, Key0, rrset)
            /\ used.f.OrigTtl = (IF ot = Zero4 THEN rrset[1].ttl ELSE ot)

\* Key tags (RFC 4034 appendix B: ONE fold of the carry), committed vectors:
\*  1 the DNSKEY of RFC 4034 s.5.4, "key id = 60485";
\*  2, 3 keys constructed so that the 32-bit sum S has (S mod 2^16) + (S div 2^16) >= 2^16: a second end-around carry (a loop
\*    instead of the single fold) would give a tag one higher.  Expected values computed with the C code of appendix B.
Rfc5p4Key == <<1, 3, 158, 138, 36, 116, 24, 227, 24, 144, 59, 33, 90, 132, 138, 207, 213, 243, 127, 2, 107, 212, 6, 45, 178, 108, 119, 76, 105, 9,
  104, 213, 213, 109, 248, 191, 218, 145, 230, 243, 109, 154, 39, 152, 136, 244, 19, 51, 53, 124, 94, 96, 41, 153, 13, 16, 253, 245, 102, 48, 98,
  165, 18, 118, 51, 38, 152, 10, 97, 93, 219, 241, 122, 5, 221, 252, 206, 126, 95, 179, 171, 204, 160, 90, 49, 176, 149, 116, 82, 212, 82, 30, 131,
  135, 7, 137, 6, 49, 21, 191, 151, 246, 195, 8, 204, 245, 124, 220, 156, 231, 254, 16, 246, 237, 27, 208, 204, 6, 96, 3, 140, 80, 220, 219, 15,
  235, 150, 60, 47, 23>>
\* the bisecting comparison of Dnssec.tla is Bytes!LexLess (all strings of up to 4 octets over {0, 1, 255})
Short == UNION { [1..n -> {0, 1, 255}] : n \in 0..4 }
ASSUME LexLessBIsLexLess == \A a \in Short, b \in Short : LexLessB(a, b) = LexLess(a, b)

KT(fl, pr, al, pk) == KeyTagOf([Flags |-> fl, Protocol |-> pr, Algorithm |-> al, PublicKey |-> pk])
ASSUME KeyTagVectors ==
  /\ KT(256, 3, 5, Rfc5p4Key) = 60485
  /\ KT(64480, 3, 15, [i \in 1..32 |-> i]) = 0                                   \* a looping fold: 1
  /\ KT(58733, 3, 15, [i \in 1..32 |-> (7 * (i - 1) + 200) % 256]) = 3          \* a looping fold: 4
  /\ KT(58731, 3, 15, [i \in 1..32 |-> (7 * (i - 1) + 200) % 256]) = 1
=============================================================================
