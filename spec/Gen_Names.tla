----------------------------- MODULE Gen_Names -----------------------------
(* Vector generators for C03 / C19 with the real limits (63 / 255).  Every     *)
(* vector is one TLC state; the invariant Out evaluates the specification on   *)
(* it and appends the case with its expected results to vectors.ndjson.        *)
EXTENDS Names, GenBase

CONSTANTS Mode,        \* "strings" | "shapes" | "octets" | "spell" | "spellshapes" | "escapes" | "crowd"   (C03)
                       \* "names" | "texts" | "etexts" | "pairs" | "octpairs" | "crowdhelpers" | "crowdpairs" | "rawtexts" | "rawpairs"  (C19)
          N,           \* size bound of the universe (meaning depends on Mode)
          Shard, NShards

VARIABLES v            \* the case: a sequence of small integers (symbol indices / lengths / octets)

-----------------------------------------------------------------------------
\* Mode "strings": all texts built from <= N symbols.  Symbols are chosen so that
\* escapes, dots, case and the dangling backslash all occur.
Sym == << <<97>>, <<65>>, <<48>>, <<46>>, <<92>>, <<32>>, <<92, 50, 48, 48>>, <<92, 46>> >>
TSym == << <<97>>, <<65>>, <<48>>, <<46>>, <<92>>, <<92, 46>>, <<92, 50, 48, 48>> >>   \* mode "texts" (C19)
TextOf(q) == Concat([i \in 1..Len(q) |-> TSym[q[i]]])
StrOf(q) == Concat([i \in 1..Len(q) |-> Sym[q[i]]])
InShard(q) == SumSeq([i \in 1..Len(q) |-> i * q[i]]) % NShards = Shard   \* position-weighted, so shards mix all lengths

\* Mode "shapes": label-length vectors over the boundary lengths whose wire length is 250..260,
\* each rendered with three fill patterns (plain letter, \c escaped special, \DDD).
BLen == {1, 2, 61, 62, 63, 64, 65}
RECURSIVE ShapesFrom(_, _)
ShapesFrom(total, k) ==      \* all sequences over BLen with at most k labels and 1+sum(len+1) <= 260
  {<<>>} \cup (IF k = 0 THEN {} ELSE
     UNION { { <<b>> \o r : r \in ShapesFrom(total + b + 1, k - 1) } : b \in { x \in BLen : total + x + 1 <= 260 } })
ShapesUpTo(k) == { sh \in ShapesFrom(1, k) : 1 + SumSeq(sh) + Len(sh) >= 250 }   \* parameterised: TLC evaluates constants eagerly
Fill(len, o) == [i \in 1..len |-> o]
NameOfShape(sh, o) == [i \in 1..Len(sh) |-> Fill(sh[i], o)]

\* Mode "octets": each octet value at first / middle / last position of a 3-octet label
\* v = <<octet, pos>>
OctetName(o, pos) == << [i \in 1..3 |-> IF i = pos THEN o ELSE 120], <<121>> >>

\* Mode "names": all names over the C19 octet alphabet with at most N octets+labels in total
\* Mode "octpairs" (C19): every octet c against the octet that differs from it in bit 0x20 only
Flip20(c) == IF (c \div 32) % 2 = 1 THEN c - 32 ELSE c + 32
NAlpha == {97, 65, 48, 46, 92, 0, 200}
LabelsOfSize(k) == [1..k -> NAlpha]
RECURSIVE NamesOfSize(_)
NamesOfSize(k) ==     \* names whose sum(len+1) = k
  IF k = 0 THEN {<<>>} ELSE
  UNION { { <<l>> \o r : l \in LabelsOfSize(m), r \in NamesOfSize(k - m - 1) } : m \in 1..(k-1) }
NamesUpTo(k) == UNION { NamesOfSize(j) : j \in 0..k }

\* Mode "spell" (C03): "the escaping is unambiguous for all 256 octet values in every position", read from the TEXT
\* side: every octet value at first / middle / last position of a label, in each of the three spellings a text can
\* use for it - the octet itself, \c, \DDD - whether or not the library would write it that way (UnpackDomainName
\* writes one spelling per octet: canonical text never holds \046, \092, \097 ...).  The expectation is whatever
\* Parse reads: a raw '.' separates, a raw '\' escapes its successor, \c with c a digit is that digit.
\* v = <<octet, pos, form>>
SpellOctet(o, form) == CASE form = 1 -> <<o>> [] form = 2 -> <<92, o>> [] OTHER -> <<92>> \o Dec3(o)
SpellText(o, pos, form) == Concat([i \in 1..3 |-> IF i = pos THEN SpellOctet(o, form) ELSE <<120>>]) \o <<46, 121, 46>>

\* Mode "spellshapes" (C03): the length limits met in each spelling - a label / a name just inside and just beyond the
\* limits (MaxLabel = 63, MaxName = 255 here) whose every octet is spelled the same way (f = 1..3) or in turn raw, \c,
\* \DDD (f = 4): an octet counts once however many characters spell it.  v = <<octet, form>> \o label lengths
SpellShapes == { <<63, 63, 63, k>> : k \in 57..64 } \cup { <<k, 63, 63, 63>> : k \in 57..64 }      \* 251..258 wire octets
               \cup { <<k>> : k \in 61..65 } \cup { <<k, 1>> : k \in 61..65 } \cup { <<1, k>> : k \in 61..65 }
SpellForms == { <<97, 1>>, <<97, 2>>, <<97, 3>>, <<97, 4>>, <<200, 1>>, <<200, 2>>, <<200, 3>>, <<200, 4>>,
                <<46, 2>>, <<46, 3>>, <<92, 2>>, <<92, 3>>, <<48, 1>>, <<48, 3>>, <<64, 1>>, <<64, 2>>, <<64, 3>>, <<64, 4>> }
SpellLabel(len, o, f) == Concat([j \in 1..len |-> SpellOctet(o, IF f = 4 THEN (j % 3) + 1 ELSE f)])
SpellShapeText(o, f, sh) == Concat([i \in 1..Len(sh) |-> SpellLabel(sh[i], o, f) \o <<46>>])

\* Mode "escapes" (C03): all texts of <= N symbols over the spellings that denote an octet which is ALSO a piece of
\* syntax ('.', '\', a digit) next to that syntax itself: \046 against \. and '.', \092 against \\ and '\', \048 against 0
ESym == << <<97>>, <<48>>, <<46>>, <<92>>, <<92, 48, 52, 54>>, <<92, 48, 57, 50>>, <<92, 48, 52, 56>>, <<92, 92>>, <<92, 46>> >>
EStrOf(q) == Concat([i \in 1..Len(q) |-> ESym[q[i]]])
\* Mode "etexts" (C19): the valid ones among these texts given to the label helpers, which must take \046 and \092 for
\* octets of a label (they are neither a separator nor the start of an escape)

\* Modes "crowd" (C03), "crowdhelpers", "crowdpairs" (C19): names at and around the maximal NUMBER of labels.  MaxName
\* octets hold (MaxName-1) \div 2 = 127 one-octet labels; the shapes universe above never has more than 6 labels, so the
\* label count and the octet count reach their limits together only here.  A case is L labels of one octet of which
\* t (at the front, at = 1, or at the back, at = 2) have two, filled with one octet o or (o = 0) with a cycle of
\* letters / digits / specials / non-printables; wire length MaxName-5 .. MaxName+5, L within N of the maximum.
MaxLabels == (MaxName - 1) \div 2
Cyc == <<97, 46, 92, 200, 65, 48>>
CrowdCases(k) == { c \in { <<o, L, t, at>> : o \in {0, 97, 46, 92, 200}, L \in (MaxLabels - k)..(MaxLabels + k), t \in 0..(2 * k), at \in 1..2 } :
                     /\ (c[3] = 0 => c[4] = 1)
                     /\ 1 + 2 * c[2] + c[3] >= MaxName - 5 /\ 1 + 2 * c[2] + c[3] <= MaxName + 5 }
CrowdName(c) ==
  LET o == c[1]  L == c[2]  t == c[3]  at == c[4]
      len(i) == IF (at = 1 /\ i <= t) \/ (at = 2 /\ i > L - t) THEN 2 ELSE 1
  IN [i \in 1..L |-> [j \in 1..len(i) |-> IF o = 0 THEN Cyc[((i + j) % 6) + 1] ELSE o]]
CrowdShard(c) == (c[1] + c[2] + c[3] + c[4]) % NShards = Shard
\* the second name of a pair, by its relation to the first (a valid crowded name)
FlipCase(n) == [i \in 1..Len(n) |-> [j \in 1..Len(n[i]) |-> IF (n[i][j] >= 65 /\ n[i][j] <= 90) \/ (n[i][j] >= 97 /\ n[i][j] <= 122) THEN Flip20(n[i][j]) ELSE n[i][j]]]
ReplaceLabel(n, k) == [i \in 1..Len(n) |-> IF i = k THEN <<122, 122, 122>> ELSE n[i]]
CrowdPair(a, r) == CASE r = 1 -> <<a, a>>
                     [] r = 2 -> <<a, Tail(a)>>
                     [] r = 3 -> <<Tail(a), a>>
                     [] r = 4 -> <<a, FlipCase(a)>>
                     [] r = 5 -> <<a, ReplaceLabel(Tail(a), 1)>>            \* siblings under a parent of Len(a)-2 labels
                     [] r = 6 -> <<a, ReplaceLabel(Tail(a), Len(a) - 1)>>   \* nothing in common
                     [] OTHER -> <<a, ReplaceLabel(Tail(a), Len(a) \div 2)>> \* the lower half in common


\* Modes "rawtexts", "rawpairs" (C19): texts whose octets outside ASCII stand for themselves (Names!RawPresent) - what a
\* zone file in UTF-8 or Latin-1 holds.  The helpers compare and fold OCTETS ("ASCII-case-insensitively", "lower-casing
\* ASCII letters"): to a reader of runes 0xC3 0x89 / 0xC3 0xA9 are one letter in two cases, 0xE2 0x84 0xAA (KELVIN SIGN)
\* folds to k, 0xC5 0xBF (LONG S) to s, and every octet that is not UTF-8 is the same U+FFFD.  Uni: such octet strings
\* next to the ASCII letters they would fold to.
Uni == << <<195, 137>>, <<195, 169>>, <<128>>, <<129>>, <<255>>, <<226, 132, 170>>, <<107>>, <<75>>, <<197, 191>>, <<115>>, <<83>>,
          <<196, 176>>, <<105>>, <<73>>, <<196, 177>>, <<206, 163>>, <<207, 131>>, <<207, 130>>, <<239, 191, 189>>, <<194, 128>> >>
\* a name holding u: alone, as the lower label of two, inside the lower label, as the upper label under another lower one
UniName(u, pos) == CASE pos = 1 -> << u >>
                     [] pos = 2 -> << u, <<122>> >>
                     [] pos = 3 -> << <<120>> \o u \o <<121>>, <<122>> >>
                     [] OTHER   -> << <<119>>, u >>
\* v = <<1, i, j, pos>>: Uni[i] against Uni[j] at the same place;  v = <<2, c, k, 0>>: the octet c against Flip20(c), its
\* successor, and the octet differing in bit 0x80, all written raw
RawOther(c, k) == CASE k = 1 -> Flip20(c) [] k = 2 -> (c + 1) % 256 [] OTHER -> (c + 128) % 256
RawPairOf(q) == IF q[1] = 1 THEN << UniName(Uni[q[2]], q[4]), UniName(Uni[q[3]], q[4]) >>
                ELSE << << <<120, q[2], 121>>, <<122>> >>, << <<120, RawOther(q[2], q[3]), 121>>, <<122>> >> >>
\* rawtexts: every valid text of <= N symbols over ASCII letters, the separator, escapes and raw octets of the kinds above
RSym == << <<97>>, <<75>>, <<46>>, <<92, 46>>, <<128>>, <<195, 137>>, <<226, 132, 170>>, <<92, 50, 48, 48>> >>
RTextOf(q) == Concat([i \in 1..Len(q) |-> RSym[q[i]]])

-----------------------------------------------------------------------------
Init ==
  \/ Mode = "strings" /\ v \in UNION { [1..k -> 1..Len(Sym)] : k \in 0..N } /\ InShard(v)
  \/ Mode = "shapes"  /\ \E sh \in ShapesUpTo(6), o \in {97, 46, 200, 92} : v = <<o>> \o sh /\ InShard(sh)
  \/ Mode = "octets"  /\ \E o \in 0..255, pos \in 1..3 : v = <<o, pos>> /\ (o % NShards = Shard)
  \/ Mode = "names"   /\ v \in NamesUpTo(N) /\ (Len(v) = 0 \/ InShard(v[1]))
  \/ Mode = "texts"   /\ v \in UNION { [1..k -> 1..Len(TSym)] : k \in 1..N } /\ InShard(v) /\ Parse(TextOf(v)).st = "ok"
  \/ Mode = "octpairs" /\ \E c \in 0..255 : v = << <<<<120, c, 121>>, <<122>>>>, <<<<120, Flip20(c), 121>>, <<122>>>> >> /\ (c % NShards = Shard)
  \/ Mode = "pairs"   /\ \E a \in NamesUpTo(N), b \in NamesUpTo(N) : v = <<a, b>> /\ (Len(a) = 0 \/ InShard(a[1]))
  \/ Mode = "spell"   /\ \E o \in 0..255, pos \in 1..3, f \in 1..3 : v = <<o, pos, f>> /\ (o % NShards = Shard)
  \/ Mode = "spellshapes" /\ \E of \in SpellForms, sh \in SpellShapes : v = of \o sh /\ InShard(v)
  \/ Mode = "escapes" /\ v \in UNION { [1..k -> 1..Len(ESym)] : k \in 0..N } /\ InShard(v)
  \/ Mode = "etexts"  /\ v \in UNION { [1..k -> 1..Len(ESym)] : k \in 1..N } /\ InShard(v) /\ Parse(EStrOf(v)).st = "ok"
  \/ Mode = "crowd"   /\ v \in CrowdCases(N) /\ CrowdShard(v)
  \/ Mode = "crowdhelpers" /\ v \in CrowdCases(N) /\ CrowdShard(v) /\ ValidName(CrowdName(v))
  \/ Mode = "crowdpairs"   /\ \E c \in CrowdCases(N), r \in 1..7 : v = c \o <<r>> /\ CrowdShard(c) /\ ValidName(CrowdName(c))
  \/ Mode = "rawtexts" /\ v \in UNION { [1..k -> 1..Len(RSym)] : k \in 1..N } /\ InShard(v) /\ Parse(RTextOf(v)).st = "ok"
  \/ Mode = "rawpairs" /\ (\E i \in 1..Len(Uni), j \in 1..Len(Uni), pos \in 1..4 : v = <<1, i, j, pos>> /\ ((i + j) % NShards = Shard))
  \/ Mode = "rawpairs" /\ (\E c \in 0..255, k \in 1..3 : v = <<2, c, k, 0>> /\ (c % NShards = Shard))
Next == UNCHANGED v

\* classification only (finding keys): how many leading labels of a refused name are themselves fine, i.e. may have been
\* written (and remembered for compression) before the packer met the reason to refuse; 0 when the total length decides
RECURSIVE LeadOK(_)
LeadOK(n) == IF n = <<>> \/ Len(Head(n)) < 1 \/ Len(Head(n)) > MaxLabel THEN 0 ELSE 1 + LeadOK(Tail(n))
Lead(n) == IF WireLen(n) > MaxName THEN 0 ELSE LeadOK(n)

StringVector(s) ==
  LET p == Parse(s) IN
  [kind |-> "string", s |-> s, st |-> p.st, fq |-> p.fq, isfqdn |-> IsFqdnSpec(s),
   accept |-> IF p.st = "ok" /\ p.fq THEN ValidName(p.labels) ELSE FALSE,
   labels |-> p.labels,
   wire |-> IF p.st = "ok" /\ ValidName(p.labels) THEN EncName(p.labels) ELSE <<>>,
   \* the parent name (context of the compressed-pack sequence: parent, name, name again over one compression map)
   ptext |-> IF p.st = "ok" /\ Len(p.labels) >= 1 THEN Present(Tail(p.labels)) ELSE <<>>,
   pvalid |-> IF p.st = "ok" /\ Len(p.labels) >= 1 THEN ValidName(Tail(p.labels)) ELSE FALSE,
   lead |-> Lead(p.labels), plead |-> IF p.st = "ok" /\ Len(p.labels) >= 1 THEN Lead(Tail(p.labels)) ELSE 0,
   \* the same name in the other letter case (context of the sequence flipped parent, name, flipped name, name again)
   ftext |-> IF p.st = "ok" /\ p.fq /\ ValidName(p.labels) THEN Present(OtherCaseName(p.labels)) ELSE <<>>,
   fwire |-> IF p.st = "ok" /\ p.fq /\ ValidName(p.labels) THEN EncName(OtherCaseName(p.labels)) ELSE <<>>,
   fptext |-> IF p.st = "ok" /\ p.fq /\ ValidName(p.labels) /\ Len(p.labels) >= 1 THEN Present(OtherCaseName(Tail(p.labels))) ELSE <<>>]

NameVector(n) ==   \* a name given abstractly: expected text, wire and validity
  [kind |-> "name", labels |-> n, valid |-> ValidName(n), text |-> Present(n), wire |-> EncName(n),
   wirelen |-> WireLen(n),
   ptext |-> IF Len(n) >= 1 THEN Present(Tail(n)) ELSE <<>>, pvalid |-> IF Len(n) >= 1 THEN ValidName(Tail(n)) ELSE FALSE,
   lead |-> Lead(n), plead |-> IF Len(n) >= 1 THEN Lead(Tail(n)) ELSE 0,
   ftext |-> IF ValidName(n) THEN Present(OtherCaseName(n)) ELSE <<>>,
   fwire |-> IF ValidName(n) THEN EncName(OtherCaseName(n)) ELSE <<>>,
   fptext |-> IF ValidName(n) /\ Len(n) >= 1 THEN Present(OtherCaseName(Tail(n))) ELSE <<>>]


\* Mode "texts" (C19): every valid text over the property's alphabet, in ANY escape spelling
\* (redundant escapes such as \A included), fully qualified or not
HelperVectorT(t) ==
  LET p == Parse(t)  n == p.labels IN
  [kind |-> "helpers", labels |-> n, text |-> t, isfq |-> p.fq, fqdn |-> FqdnSpec(t),
   count |-> Len(p.labels), split |-> p.starts, pieces |-> SplitDomainNameSpec(t),
   prev |-> [k \in 1..(Len(n) + 1) |-> LET r == PrevLabelFrom(p.starts, Len(t), k - 1) IN <<r.i, IF r.start THEN 1 ELSE 0>>],
   next |-> [k \in 1..Len(n) |-> LET r == NextLabelFrom(p.starts, Len(t), p.starts[k]) IN <<r.i, IF r.end THEN 1 ELSE 0>>],
   canon |-> CanonicalSpec(t), rel |-> <<>>, relfq |-> FALSE]

HelperVector(n) ==
  LET t == Present(n)  p == Parse(t) IN     \* count, split: CountLabelSpec(t), SplitSpec(t) by their definitions
  [kind |-> "helpers", labels |-> n, text |-> t, isfq |-> TRUE, fqdn |-> t,
   count |-> Len(p.labels), split |-> p.starts, pieces |-> SplitDomainNameSpec(t),
   prev |-> [k \in 1..(Len(n) + 1) |-> LET r == PrevLabelFrom(p.starts, Len(t), k - 1) IN <<r.i, IF r.start THEN 1 ELSE 0>>],
   next |-> [k \in 1..Len(n) |-> LET r == NextLabelFrom(p.starts, Len(t), p.starts[k]) IN <<r.i, IF r.end THEN 1 ELSE 0>>],
   canon |-> CanonicalSpec(t),
   rel |-> IF n = <<>> THEN <<>> ELSE Sub(t, 1, Len(t) - 1),
   relfq |-> IF n = <<>> THEN FALSE ELSE IsFqdnSpec(Sub(t, 1, Len(t) - 1))]

\* the pair in the raw spelling (rawpairs); the expectations are those of the label sequences, as above
PairVectorRaw(a, b) ==
  [kind |-> "pair", a |-> RawPresent(a), b |-> RawPresent(b), common |-> CommonSuffix(a, b),
   sub |-> CommonSuffix(a, b) = Len(a),
   joined |-> IF a = <<>> THEN <<>> ELSE RawPresent(a \o b)]

PairVector(a, b) ==
  LET ta == Present(a)  tb == Present(b) IN
  [kind |-> "pair", a |-> ta, b |-> tb, common |-> CommonSuffix(a, b),
   sub |-> CommonSuffix(a, b) = Len(a),
   \* AddOrigin(rel(a), b) and trimming it again; only for non-root a
   joined |-> IF a = <<>> THEN <<>> ELSE Present(a \o b)]

Out ==
  CASE Mode = "strings" -> Emit(StringVector(StrOf(v)))
    [] Mode = "shapes"  -> Emit(NameVector(NameOfShape(Tail(v), Head(v))))
    [] Mode = "octets"  -> Emit(NameVector(OctetName(v[1], v[2])))
    [] Mode = "spell"   -> Emit(StringVector(SpellText(v[1], v[2], v[3])))
    [] Mode = "spellshapes" -> Emit(StringVector(SpellShapeText(v[1], v[2], Sub(v, 3, Len(v)))))
    [] Mode = "escapes" -> Emit(StringVector(EStrOf(v)))
    [] Mode = "etexts"  -> Emit(HelperVectorT(EStrOf(v)))
    [] Mode = "crowd"   -> Emit(NameVector(CrowdName(v)))
    [] Mode = "crowdhelpers" -> Emit(HelperVector(CrowdName(v)))
    [] Mode = "crowdpairs"   -> LET pr == CrowdPair(CrowdName(v), v[5]) IN Emit(PairVector(pr[1], pr[2]))
    [] Mode = "names"   -> Emit(HelperVector(v))
    [] Mode = "texts"   -> Emit(HelperVectorT(TextOf(v)))
    [] Mode = "octpairs" -> Emit(PairVector(v[1], v[2]))
    [] Mode = "pairs"   -> Emit(PairVector(v[1], v[2]))
    [] Mode = "rawtexts" -> Emit(HelperVectorT(RTextOf(v)))
    [] Mode = "rawpairs" -> LET pr == RawPairOf(v) IN Emit(PairVectorRaw(pr[1], pr[2]))
=============================================================================
