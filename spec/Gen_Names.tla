----------------------------- MODULE Gen_Names -----------------------------
(* Vector generators for C03 / C19 with the real limits (63 / 255).  Every     *)
(* vector is one TLC state; the invariant Out evaluates the specification on   *)
(* it and appends the case with its expected results to vectors.ndjson.        *)
EXTENDS Names, GenBase

CONSTANTS Mode,        \* "strings" | "shapes" | "octets" | "names" | "texts" | "pairs" | "octpairs"
          N,           \* size bound of the universe (meaning depends on Mode)
          Shard, NShards

VARIABLES v            \* the case: a sequence of small integers (symbol indices / lengths / octets)

-----------------------------------------------------------------------------
\* Mode "strings": all texts built from <= N symbols.  Symbols are chosen so that
\* escapes, dots, case and the dangling backslash all occur.
Sym == << <<97>>, <<65>>, <<48>>, <<46>>, <<92>>, <<32>>, <<92, 50, 48, 48>>, <<92, 46>> >>
TSym == << <<97>>, <<65>>, <<48>>, <<46>>, <<92>>, <<92, 46>>, <<92, 50, 48, 48>> >>   \* mode "texts" (C19)
TextOf(q) == Concat([i \in 1..Len(q) |-> TSym[q[i]]])
StrOf(q) == Concat([i \in 1..Len(q) |-> Sym[q[i]]])
InShard(q) == SumSeq([i \in 1..Len(q) |-> i * q[i]]) % NShards = Shard   \* position-weighted, so shards mix all lengths

\* Mode "shapes": label-length vectors over the boundary lengths whose wire length is 250..260,
\* each rendered with three fill patterns (plain letter, \c escaped special, \DDD).
BLen == {1, 2, 61, 62, 63, 64, 65}
RECURSIVE ShapesFrom(_, _)
ShapesFrom(total, k) ==      \* all sequences over BLen with at most k labels and 1+sum(len+1) <= 260
  {<<>>} \cup (IF k = 0 THEN {} ELSE
     UNION { { <<b>> \o r : r \in ShapesFrom(total + b + 1, k - 1) } : b \in { x \in BLen : total + x + 1 <= 260 } })
ShapesUpTo(k) == { sh \in ShapesFrom(1, k) : 1 + SumSeq(sh) + Len(sh) >= 250 }   \* parameterised: TLC evaluates constants eagerly
Fill(len, o) == [i \in 1..len |-> o]
NameOfShape(sh, o) == [i \in 1..Len(sh) |-> Fill(sh[i], o)]

\* Mode "octets": each octet value at first / middle / last position of a 3-octet label
\* v = <<octet, pos>>
OctetName(o, pos) == << [i \in 1..3 |-> IF i = pos THEN o ELSE 120], <<121>> >>

\* Mode "names": all names over the C19 octet alphabet with at most N octets+labels in total
\* Mode "octpairs" (C19): every octet c against the octet that differs from it in bit 0x20 only
Flip20(c) == IF (c \div 32) % 2 = 1 THEN c - 32 ELSE c + 32
NAlpha == {97, 65, 48, 46, 92, 0, 200}
LabelsOfSize(k) == [1..k -> NAlpha]
RECURSIVE NamesOfSize(_)
NamesOfSize(k) ==     \* names whose sum(len+1) = k
  IF k = 0 THEN {<<>>} ELSE
  UNION { { <<l>> \o r : l \in LabelsOfSize(m), r \in NamesOfSize(k - m - 1) } : m \in 1..(k-1) }
NamesUpTo(k) == UNION { NamesOfSize(j) : j \in 0..k }

-----------------------------------------------------------------------------
Init ==
  \/ Mode = "strings" /\ v \in UNION { [1..k -> 1..Len(Sym)] : k \in 0..N } /\ InShard(v)
  \/ Mode = "shapes"  /\ \E sh \in ShapesUpTo(6), o \in {97, 46, 200, 92} : v = <<o>> \o sh /\ InShard(sh)
  \/ Mode = "octets"  /\ \E o \in 0..255, pos \in 1..3 : v = <<o, pos>> /\ (o % NShards = Shard)
  \/ Mode = "names"   /\ v \in NamesUpTo(N) /\ (Len(v) = 0 \/ InShard(v[1]))
  \/ Mode = "texts"   /\ v \in UNION { [1..k -> 1..Len(TSym)] : k \in 1..N } /\ InShard(v) /\ Parse(TextOf(v)).st = "ok"
  \/ Mode = "octpairs" /\ \E c \in 0..255 : v = << <<<<120, c, 121>>, <<122>>>>, <<<<120, Flip20(c), 121>>, <<122>>>> >> /\ (c % NShards = Shard)
  \/ Mode = "pairs"   /\ \E a \in NamesUpTo(N), b \in NamesUpTo(N) : v = <<a, b>> /\ (Len(a) = 0 \/ InShard(a[1]))
Next == UNCHANGED v

\* classification only (finding keys): how many leading labels of a refused name are themselves fine, i.e. may have been
\* written (and remembered for compression) before the packer met the reason to refuse; 0 when the total length decides
RECURSIVE LeadOK(_)
LeadOK(n) == IF n = <<>> \/ Len(Head(n)) < 1 \/ Len(Head(n)) > MaxLabel THEN 0 ELSE 1 + LeadOK(Tail(n))
Lead(n) == IF WireLen(n) > MaxName THEN 0 ELSE LeadOK(n)

StringVector(s) ==
  LET p == Parse(s) IN
  [kind |-> "string", s |-> s, st |-> p.st, fq |-> p.fq, isfqdn |-> IsFqdnSpec(s),
   accept |-> IF p.st = "ok" /\ p.fq THEN ValidName(p.labels) ELSE FALSE,
   labels |-> p.labels,
   wire |-> IF p.st = "ok" /\ ValidName(p.labels) THEN EncName(p.labels) ELSE <<>>,
   \* the parent name (context of the compressed-pack sequence: parent, name, name again over one compression map)
   ptext |-> IF p.st = "ok" /\ Len(p.labels) >= 1 THEN Present(Tail(p.labels)) ELSE <<>>,
   pvalid |-> IF p.st = "ok" /\ Len(p.labels) >= 1 THEN ValidName(Tail(p.labels)) ELSE FALSE,
   lead |-> Lead(p.labels), plead |-> IF p.st = "ok" /\ Len(p.labels) >= 1 THEN Lead(Tail(p.labels)) ELSE 0]

NameVector(n) ==   \* a name given abstractly: expected text, wire and validity
  [kind |-> "name", labels |-> n, valid |-> ValidName(n), text |-> Present(n), wire |-> EncName(n),
   wirelen |-> WireLen(n),
   ptext |-> IF Len(n) >= 1 THEN Present(Tail(n)) ELSE <<>>, pvalid |-> IF Len(n) >= 1 THEN ValidName(Tail(n)) ELSE FALSE,
   lead |-> Lead(n), plead |-> IF Len(n) >= 1 THEN Lead(Tail(n)) ELSE 0]


\* Mode "texts" (C19): every valid text over the property's alphabet, in ANY escape spelling
\* (redundant escapes such as \A included), fully qualified or not
HelperVectorT(t) ==
  LET p == Parse(t)  n == p.labels IN
  [kind |-> "helpers", labels |-> n, text |-> t, isfq |-> p.fq, fqdn |-> FqdnSpec(t),
   count |-> CountLabelSpec(t), split |-> SplitSpec(t), pieces |-> SplitDomainNameSpec(t),
   prev |-> [k \in 1..(Len(n) + 1) |-> LET r == PrevLabelSpec(t, k - 1) IN <<r.i, IF r.start THEN 1 ELSE 0>>],
   next |-> [k \in 1..Len(n) |-> LET r == NextLabelSpec(t, SplitSpec(t)[k]) IN <<r.i, IF r.end THEN 1 ELSE 0>>],
   canon |-> CanonicalSpec(t), rel |-> <<>>, relfq |-> FALSE]

HelperVector(n) ==
  LET t == Present(n) IN
  [kind |-> "helpers", labels |-> n, text |-> t, isfq |-> TRUE, fqdn |-> t,
   count |-> CountLabelSpec(t), split |-> SplitSpec(t), pieces |-> SplitDomainNameSpec(t),
   prev |-> [k \in 1..(Len(n) + 1) |-> LET r == PrevLabelSpec(t, k - 1) IN <<r.i, IF r.start THEN 1 ELSE 0>>],
   next |-> [k \in 1..Len(n) |-> LET r == NextLabelSpec(t, SplitSpec(t)[k]) IN <<r.i, IF r.end THEN 1 ELSE 0>>],
   canon |-> CanonicalSpec(t),
   rel |-> IF n = <<>> THEN <<>> ELSE Sub(t, 1, Len(t) - 1),
   relfq |-> IF n = <<>> THEN FALSE ELSE IsFqdnSpec(Sub(t, 1, Len(t) - 1))]

PairVector(a, b) ==
  LET ta == Present(a)  tb == Present(b) IN
  [kind |-> "pair", a |-> ta, b |-> tb, common |-> CommonSuffix(a, b),
   sub |-> CommonSuffix(a, b) = Len(a),
   \* AddOrigin(rel(a), b) and trimming it again; only for non-root a
   joined |-> IF a = <<>> THEN <<>> ELSE Present(a \o b)]

Out ==
  CASE Mode = "strings" -> Emit(StringVector(StrOf(v)))
    [] Mode = "shapes"  -> Emit(NameVector(NameOfShape(Tail(v), Head(v))))
    [] Mode = "octets"  -> Emit(NameVector(OctetName(v[1], v[2])))
    [] Mode = "names"   -> Emit(HelperVector(v))
    [] Mode = "texts"   -> Emit(HelperVectorT(TextOf(v)))
    [] Mode = "octpairs" -> Emit(PairVector(v[1], v[2]))
    [] Mode = "pairs"   -> Emit(PairVector(v[1], v[2]))
=============================================================================
