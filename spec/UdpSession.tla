----------------------------- MODULE UdpSession -----------------------------
(* udp.go: the out-of-band data of a UDP session.  A server socket bound to a   *)
(* wildcard address learns from the kernel's ancillary data (cmsg(3), RFC 3542  *)
(* 6.2 IPV6_PKTINFO, ip(7) IP_PKTINFO) to which of the host's addresses a       *)
(* datagram was sent, and answers FROM that address (RFC 2181 4: "the source    *)
(* address of the reply MUST be the address to which the query was sent").      *)
(*                                                                              *)
(*   ReadFromSessionUDP   -> SessionUDP [raddr, context = the ancillary data]   *)
(*   parseDstFromOOB(oob)  = the destination address found in it                *)
(*   correctSource(oob)    = ancillary data for the reply: a packet-info of the *)
(*                           family of that address asking for it as SOURCE     *)
(*   WriteToSessionUDP     sends to raddr with correctSource(context)           *)
(*   setUDPSocketOptions   asks the kernel for the packet-info of both families *)
(*                                                                              *)
(* Ancillary data is stated for the platform the checks run on (Linux, 64-bit,  *)
(* little-endian): a sequence of                                                *)
(*     cmsg_len (8 octets, header included) | cmsg_level (4) | cmsg_type (4) |  *)
(*     data | padding to a multiple of 8                                        *)
(*   IP_PKTINFO    level 0,  type 8:  ipi_ifindex (4) ipi_spec_dst (4) ipi_addr (4) *)
(*   IPV6_PKTINFO  level 41, type 50: ipi6_addr (16) ipi6_ifindex (4)           *)
(* On reception ipi_addr / ipi6_addr is the destination of the datagram; on     *)
(* transmission ipi_spec_dst / ipi6_addr is the source to use.                  *)
(* An address is 4 or 16 octets; ::ffff:a.b.c.d (RFC 4291 2.5.5.2) is what a    *)
(* dual-stack socket reports for an IPv4 datagram and is answered as IPv4.       *)
EXTENDS Bytes

LE32(v) == << v % 256, (v \div 256) % 256, (v \div 65536) % 256, (v \div 16777216) % 256 >>
LE64(v) == LE32(v) \o <<0, 0, 0, 0>>                       \* lengths here are small
RECURSIVE LEVal(_)
LEVal(b) == IF b = <<>> THEN 0 ELSE b[1] + 256 * LEVal(Tail(b))
Zeros(n) == [i \in 1..n |-> 0]
Align8(n) == ((n + 7) \div 8) * 8
HdrLen == 16

LvlIP == 0
LvlIPv6 == 41
TypPktinfo4 == 8
TypPktinfo6 == 50
TypTTL == 2
TypHopLimit == 52

Cmsg(level, type, data) == LE64(HdrLen + Len(data)) \o LE32(level) \o LE32(type) \o data \o Zeros(Align8(Len(data)) - Len(data))
Pktinfo4(ifindex, specdst, addr) == Cmsg(LvlIP, TypPktinfo4, LE32(ifindex) \o specdst \o addr)
Pktinfo6(addr, ifindex) == Cmsg(LvlIPv6, TypPktinfo6, addr \o LE32(ifindex))

\* the control messages of a buffer: [ok, ms: sequence of [level, type, data]]
\* well-formed = every header fits and announces a length between the header size and what is left;
\* fewer than HdrLen trailing octets are padding
RECURSIVE CmsgsFrom(_, _, _)
CmsgsFrom(b, off, acc) ==
  IF Len(b) - off < HdrLen THEN [ok |-> TRUE, ms |-> acc]
  ELSE LET l == LEVal(Sub(b, off + 1, off + 4))               \* (the upper half of cmsg_len must be zero)
           hi == LEVal(Sub(b, off + 5, off + 8)) IN
       IF hi # 0 \/ l < HdrLen \/ off + l > Len(b) THEN [ok |-> FALSE, ms |-> acc]
       ELSE CmsgsFrom(b, off + Align8(l),
                      Append(acc, [level |-> LEVal(Sub(b, off + 9, off + 12)), type |-> LEVal(Sub(b, off + 13, off + 16)),
                                   data |-> Sub(b, off + 17, off + l)]))
Cmsgs(b) == CmsgsFrom(b, 0, <<>>)

IsInfo6(m) == m.level = LvlIPv6 /\ m.type = TypPktinfo6 /\ Len(m.data) >= 20
IsInfo4(m) == m.level = LvlIP /\ m.type = TypPktinfo4 /\ Len(m.data) >= 12
Dst6(m) == Sub(m.data, 1, 16)
Dst4(m) == Sub(m.data, 9, 12)
IfIndexOf(m) == IF IsInfo6(m) THEN LEVal(Sub(m.data, 17, 20)) ELSE LEVal(Sub(m.data, 1, 4))

Mapped(a) == Len(a) = 16 /\ Sub(a, 1, 10) = Zeros(10) /\ a[11] = 255 /\ a[12] = 255
AsV4(a) == IF Len(a) = 4 THEN a ELSE Sub(a, 13, 16)
IsV4(a) == Len(a) = 4 \/ Mapped(a)
SameAddr(a, b) == IF IsV4(a) /\ IsV4(b) THEN AsV4(a) = AsV4(b) ELSE a = b

\* the destination addresses the ancillary data reports
Dsts(b) == LET c == Cmsgs(b) IN
           { Dst6(c.ms[i]) : i \in { j \in 1..Len(c.ms) : IsInfo6(c.ms[j]) } } \cup { Dst4(c.ms[i]) : i \in { j \in 1..Len(c.ms) : IsInfo4(c.ms[j]) } }

\* parseDstFromOOB: the destination, none (<<>>) when the data reports none.
\* AMBIG: malformed ancillary data (a kernel never produces it): none, or any address found in it;
\*        data reporting several different addresses: any of them.
DstAdm(b) == IF ~Cmsgs(b).ok THEN Dsts(b) \cup { <<>> }
             ELSE IF Dsts(b) = {} THEN { <<>> } ELSE Dsts(b)
DstOK(b, got) == \E d \in DstAdm(b) : (d = <<>> /\ got = <<>>) \/ (d # <<>> /\ got # <<>> /\ SameAddr(d, got))

\* correctSource: no destination known -> no ancillary data; otherwise exactly one control message, the
\* packet-info of the destination's family with the destination as the source to use.
\* AMBIG: the interface index of the reply (0 = let routing decide, or the one the request came in on);
\*        ipi_addr of an outgoing IP_PKTINFO is ignored by the kernel.
SourceOK(b, out) ==
  \E d \in DstAdm(b) :
     IF d = <<>> THEN out = <<>>
     ELSE LET c == Cmsgs(out) IN
          /\ c.ok /\ Len(c.ms) = 1
          /\ LET m == c.ms[1]
                 ifs == {0} \cup { IfIndexOf(Cmsgs(b).ms[i]) : i \in { j \in 1..Len(Cmsgs(b).ms) : IsInfo4(Cmsgs(b).ms[j]) \/ IsInfo6(Cmsgs(b).ms[j]) } } IN
             IF IsV4(d) THEN IsInfo4(m) /\ Len(m.data) = 12 /\ Sub(m.data, 5, 8) = AsV4(d) /\ IfIndexOf(m) \in ifs
                        ELSE IsInfo6(m) /\ Len(m.data) = 20 /\ Dst6(m) = d /\ IfIndexOf(m) \in ifs

\* One exchange on a real socket: the request was sent TO `to'; the session's context is oob; the
\* reply written with WriteToSessionUDP arrived FROM `from'; peer / raddr: the client's address and
\* what the session says it is
ExchangeOK(to, oob, from, peer, raddr) ==
  /\ DstOK(oob, to)                         \* setUDPSocketOptions + ReadFromSessionUDP: the kernel's report is in the session
  /\ to # <<>>
  /\ SameAddr(from, to)                     \* RFC 2181 4
  /\ SameAddr(raddr, peer)
=============================================================================
