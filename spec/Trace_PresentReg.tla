-------------------------- MODULE Trace_PresentReg --------------------------
(* What the library prints while the registry of type mnemonics changes         *)
(* (harness `present regreplay' / `present regrecord').  Events:                *)
(*   [ev |-> "reset"]                   the harness has emptied the registry    *)
(*   [ev |-> "act", act |-> [op, mn, code]]   PrivateHandle(mn, code, ..) /     *)
(*                                      PrivateHandleRemove(code) was called    *)
(*   [ev |-> "print", text, wire, hk]   the real String() of a record and the   *)
(*                                      real PackRR of the same record          *)
(* The specification's registry follows the actions (PresentReg!Apply; an       *)
(* action outside the universe is a harness bug: VP:ill).  A print event is     *)
(* judged as in Trace_PresentRR, by the reader UNDER THE REGISTRY OF THAT        *)
(* MOMENT: a live mnemonic denotes its code, a removed one denotes nothing.     *)
(* Print events never block: a wrong one is marked bad, its first violated      *)
(* clause goes to VP:stages.                                                    *)
EXTENDS PresentReg, TraceBase

VARIABLES l, reg

Ev == Trace[l]

Frame(e) == DecRRFrame(e.wire, 0)
FrameOK(e) == LET fr == Frame(e) IN fr.ok /\ fr.next = Len(e.wire)

Stage(r0, e) ==
  LET rr == Frame(e).rr
      L  == Lex(e.text) IN
  IF ~OnlyMasterSyntaxL(e.text, L) THEN "syntax"
  ELSE LET r == ReadRecordReg(r0, L, e.hk) IN
    IF ~r.ok THEN "read-" \o r.why
    ELSE IF r.name # rr.name THEN "owner"
    ELSE IF r.ttl # rr.ttl THEN "ttl"
    ELSE IF r.class # rr.class THEN "class"
    ELSE IF r.type # rr.type THEN "type"
    ELSE IF rr.rdata \notin r.alts THEN "rdata"
    ELSE IF r.amb /\ rr.type \notin {64, 65} THEN "adjacent"
    ELSE "ok"

ActShape(a) == /\ DOMAIN a = {"op", "mn", "code"} /\ a.op \in {"handle", "remove"}

Init == l = 1 /\ reg = RegInit /\ HWInit /\ TLCSet(3, <<>>) /\ TLCSet(4, <<>>) /\ TLCSet(5, <<>>) /\ TLCSet(6, <<>>)
Next == /\ l <= Len(Trace)
        /\ LET e == Ev IN
           IF e.ev = "reset" THEN reg' = RegInit
           ELSE IF e.ev = "act" THEN
                (IF ActShape(e.act) /\ ActOK(reg, e.act) THEN reg' = Apply(reg, e.act)
                 ELSE reg' = reg /\ TLCSet(3, Append(TLCGet(3), l)))
           ELSE IF e.ev = "print" /\ FrameOK(e) THEN
                (LET st == Stage(reg, e)  rr == Frame(e).rr  inside == InAlphabet(rr.type, rr.rdata) IN
                 /\ reg' = reg
                 /\ IF inside THEN TRUE ELSE TLCSet(6, Append(TLCGet(6), l))
                 /\ IF st = "ok" THEN TRUE
                    ELSE IF ~inside THEN TLCSet(5, Append(TLCGet(5), <<l, st>>))
                    ELSE MarkBad(l) /\ TLCSet(4, Append(TLCGet(4), <<l, st>>)))
           ELSE reg' = reg /\ TLCSet(3, Append(TLCGet(3), l))
        /\ HW(l)
        /\ l' = l + 1

Accepted5 == /\ PrintT("VP:ill=" \o ToJson(TLCGet(3)))
             /\ PrintT("VP:stages=" \o ToJson(TLCGet(4)))
             /\ PrintT("VP:ambig=" \o ToJson(TLCGet(5)))
             /\ PrintT("VP:outalpha=" \o ToJson(TLCGet(6)))
             /\ Accepted
=============================================================================
