-------------------------- MODULE Trace_PresentRR --------------------------
(* The independent reader applied to what the library really prints (harness   *)
(* `present replay' / `present record').  One event = one record:               *)
(*   text   the real RR.String() (origin "generic": the harness' own RFC 3597   *)
(*          rendering of the specification's octets)                            *)
(*   wire   the real PackRR of the same record: owner, type, class, TTL,        *)
(*          RDLENGTH, RDATA (trusted through C01)                               *)
(*   hk     the exotic items of the text decoded with the standard library      *)
(* The specification frames `wire' (WireRR!DecRRFrame), lexes `text'            *)
(* (Present!Lex), reads the record (PresentRR!ReadRecord) and demands:           *)
(*   syntax   only RFC 1035 master-file syntax                                   *)
(*   read     the text is a record the reader understands                        *)
(*   owner / ttl / class / type   the header the text states is the record's     *)
(*   rdata    the RDATA the items denote is the record's, octet for octet        *)
(*   adjacent no item touches a quote or a parenthesis (RFC 1035 names only      *)
(*            blanks as separators), except SvcParams key="value" (RFC 9460)      *)
(* Pure-function events: a wrong one is marked bad and the cursor moves on; the  *)
(* first clause it violates goes to VP:stages (register 4).  A record whose      *)
(* RDATA lies outside the alphabet its RFC defines and fails is AMBIG: listed in *)
(* VP:ambig (register 5), not bad; VP:outalpha (register 6) lists every event    *)
(* outside its alphabet, failed or not (the driver needs it to judge what the    *)
(* Go-side round trip of a random record saw).  An event whose `wire' is not one *)
(* well-framed record is a harness bug: VP:ill (register 3).                     *)
(* ZONE events (`zone' present): a SEQUENCE of records.  text = the real        *)
(* String() of each record, one per line; wires = the real PackRR of each, in   *)
(* order; hks = the decoded exotic items of each line.  The statement's "the     *)
(* text is accepted by the zone parser" read at the level of a zone: the lexer   *)
(* finds exactly as many entries as there are records (no text ends its entry    *)
(* early or runs into the next line), and entry i read by the reader is record   *)
(* i (adjacency is a question about one text, asked when it is read alone).      *)
(* Stage "zone-entries" / "zone-<stage of the first wrong record>"; the          *)
(* index of that record goes to VP:zoneidx (register 7).                         *)
EXTENDS PresentRR, TraceBase

VARIABLE l

Ev == Trace[l]

Frame(e) == DecRRFrame(e.wire, 0)
FrameOK(e) == LET fr == Frame(e) IN fr.ok /\ fr.next = Len(e.wire)

\* the record rr against the lexed text L of one entry
RecStage(rr, L, hk) ==
       LET r == ReadRecordL(L, hk) IN
    IF ~r.ok THEN "read-" \o r.why
    ELSE IF r.name # rr.name THEN "owner"
    ELSE IF r.ttl # rr.ttl THEN "ttl"
    ELSE IF r.class # rr.class THEN "class"
    ELSE IF r.type # rr.type THEN "type"
    ELSE IF rr.rdata \notin r.alts THEN "rdata"
    ELSE IF r.amb /\ rr.type \notin {64, 65} THEN "adjacent"
    ELSE "ok"

Stage(e) ==
  LET L == Lex(e.text) IN
  IF ~OnlyMasterSyntaxL(e.text, L) THEN "syntax" ELSE RecStage(Frame(e).rr, L, e.hk)

IsZone(e) == "zone" \in DOMAIN e
ZFrame(e, i) == DecRRFrame(e.wires[i], 0)
ZoneFramesOK(e) == /\ Len(e.wires) >= 1 /\ Len(e.hks) = Len(e.wires)
                   /\ \A i \in 1..Len(e.wires) : ZFrame(e, i).ok /\ ZFrame(e, i).next = Len(e.wires[i])
ZoneInside(e) == \A i \in 1..Len(e.wires) : InAlphabet(ZFrame(e, i).rr.type, ZFrame(e, i).rr.rdata)
\* << index of the first wrong record (0: none), stage >>
ZoneStage(e) ==
  LET L == Lex(e.text) IN
  IF ~OnlyMasterSyntaxL(e.text, L) THEN <<1, "zone-syntax">>
  ELSE LET es == Entries(L.toks) IN
    IF Len(es) # Len(e.wires) THEN <<1, "zone-entries">>
    ELSE LET st  == [i \in 1..Len(es) |-> RecStage(ZFrame(e, i).rr, [L EXCEPT !.toks = Append(es[i], NL), !.amb = FALSE], e.hks[i])]
             bad == { i \in 1..Len(es) : st[i] # "ok" }
         IN IF bad = {} THEN <<0, "ok">> ELSE LET i == CHOOSE j \in bad : \A k \in bad : j <= k IN <<i, "zone-" \o st[i]>>

(* Negative probes (`neg' present): the harness' RFC 3597 rendering with a stated length one too large / too  *)
(* small.  The reader refuses it (if not: harness bug); the library must have refused it too.                 *)
IsNeg(e) == "neg" \in DOMAIN e
NegStage(e) == IF ReadRecord(e.text, <<>>).ok THEN "ill" ELSE IF e.accepted THEN "generic-wrong-length-accepted" ELSE "ok"

Init == l = 1 /\ HWInit /\ TLCSet(3, <<>>) /\ TLCSet(4, <<>>) /\ TLCSet(5, <<>>) /\ TLCSet(6, <<>>) /\ TLCSet(7, <<>>)
Next == /\ l <= Len(Trace)
        /\ IF IsZone(Ev) THEN
             (IF ~ZoneFramesOK(Ev) THEN TLCSet(3, Append(TLCGet(3), l))
              ELSE LET zs == ZoneStage(Ev)  inside == ZoneInside(Ev) IN
                   /\ IF inside THEN TRUE ELSE TLCSet(6, Append(TLCGet(6), l))
                   /\ IF zs[1] = 0 THEN TRUE
                      ELSE /\ TLCSet(7, Append(TLCGet(7), <<l, zs[1]>>))
                           /\ IF ~inside THEN TLCSet(5, Append(TLCGet(5), <<l, zs[2]>>))
                              ELSE MarkBad(l) /\ TLCSet(4, Append(TLCGet(4), <<l, zs[2]>>)))
           ELSE IF ~FrameOK(Ev) THEN TLCSet(3, Append(TLCGet(3), l))
           ELSE IF IsNeg(Ev) THEN
                (LET st == NegStage(Ev) IN
                 IF st = "ok" THEN TRUE
                 ELSE IF st = "ill" THEN TLCSet(3, Append(TLCGet(3), l))
                 ELSE MarkBad(l) /\ TLCSet(4, Append(TLCGet(4), <<l, st>>)))
           ELSE LET st == Stage(Ev)  rr == Frame(Ev).rr  inside == InAlphabet(rr.type, rr.rdata) IN
                /\ IF inside THEN TRUE ELSE TLCSet(6, Append(TLCGet(6), l))
                /\ IF st = "ok" THEN TRUE
                   ELSE IF ~inside THEN TLCSet(5, Append(TLCGet(5), <<l, st>>))
                   ELSE MarkBad(l) /\ TLCSet(4, Append(TLCGet(4), <<l, st>>))
        /\ HW(l)
        /\ l' = l + 1

Accepted5 == /\ PrintT("VP:ill=" \o ToJson(TLCGet(3)))
             /\ PrintT("VP:stages=" \o ToJson(TLCGet(4)))
             /\ PrintT("VP:ambig=" \o ToJson(TLCGet(5)))
             /\ PrintT("VP:outalpha=" \o ToJson(TLCGet(6)))
             /\ PrintT("VP:zoneidx=" \o ToJson(TLCGet(7)))
             /\ Accepted
=============================================================================
