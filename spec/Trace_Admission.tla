--------------------------- MODULE Trace_Admission ---------------------------
(* Validates events recorded from real servers / a real ServeMux (harness      *)
(* `admission record pkt|mux`) against Admission.tla.                          *)
(*                                                                             *)
(*  pkt    one inbound message on one transport: its length, header, whether   *)
(*         the real Unpack decodes the same octets, and what was observed:     *)
(*         handler invocations, invalid-callback invocations, replies.         *)
(*         Judged by OutcomeAt (the lifecycle phase the recorder realised for  *)
(*         the message, field `phase') / LibReply; drives the exactly-once     *)
(*         machine.                                                            *)
(*  totals the harness' own global counters; must equal the machine's.         *)
(*  round  a fresh ServeMux with the listed patterns registered, followed by   *)
(*         n operation events of 8 concurrent goroutines                       *)
(*  handle / remove / serve   one operation with sequence numbers taken from   *)
(*         one atomic counter just before the call and just after the return.  *)
(*         A dispatch must be explained by a pattern set that can have been    *)
(*         the registered set at some instant between its start and its end.   *)
(* All events are judged without blocking: a wrong one is marked bad (with a   *)
(* class, register 3) and the cursor moves on.                                 *)
EXTENDS Admission, TraceBase

VARIABLES l, ctr, base

Ev == Trace[l]

MarkBadC(i, c) == MarkBad(i) /\ TLCSet(3, Append(TLCGet(3), <<i, c>>))

-----------------------------------------------------------------------------
PolClass(e) == IF e.len < HeaderSize THEN "short" ELSE Policy(e.hdr)

\* "" when the observation is what the specification says, else the violated clause
\* the lifecycle phase the recorder realised for the message (absent: "serving")
PhaseOf(e) == IF "phase" \in DOMAIN e THEN e.phase ELSE "serving"

PktVerdict(e) ==
  LET o == OutcomeAt(PhaseOf(e), e.len, e.hdr, e.decodes)
      n == Len(e.replies) IN
  IF PhaseOf(e) \notin Phases THEN "malformed-event"
  ELSE IF e.handled # o.handled THEN "handler-count:" \o PolClass(e)
  ELSE IF e.invalid # o.invalid THEN "invalid-callback-count:" \o PolClass(e)
  ELSE IF ~e.samereq THEN "handler-request-differs"
  ELSE IF o.reply = "none" THEN (IF n = 0 THEN "" ELSE "reply-unexpected:" \o PolClass(e))
  ELSE IF n # 1 THEN "reply-count:" \o o.reply
  ELSE IF o.reply = "handler" THEN (IF e.replies[1].fromhandler THEN "" ELSE "reply-not-the-handlers")
  ELSE IF e.replies[1].len < HeaderSize \/ e.replies[1].fromhandler THEN "reply-shape:" \o o.reply
  ELSE IF LibReply(e.hdr, e.replies[1], o.reply) THEN "" ELSE "reply-shape:" \o o.reply

MsgOf(e) == [len |-> e.len, h |-> e.hdr, dec |-> e.decodes]

Dispose(c) ==      \* the one message in flight gets the disposition the specification gives it
  LET i == Len(c.inflight) IN
  IF CanHandle(c, i) THEN CtrHandle(c, i)
  ELSE IF CanDrop(c, i) THEN CtrDrop(c, i)
  ELSE CtrReport(c, i)

TotalsOK(e) ==
  /\ CtrInv(ctr) /\ Settled(ctr)
  /\ e.received = ctr.received
  /\ e.handled = ctr.handled
  /\ e.invalid = ctr.reported

-----------------------------------------------------------------------------
\* the patterns of the recorder, case-folded, by index
Lex    == <<101,120,97,109,112,108,101>>
Lsub   == <<115,117,98>>
La     == <<97>>
Lample == <<97,109,112,108,101>>
Lorg   == <<111,114,103>>
PatL == << <<>>, <<Lex>>, <<Lsub, Lex>>, <<La, Lsub, Lex>>, <<Lample>>, <<Lorg>> >>
PatIdx == 1..Len(PatL)

InRound(i) == base > 0 /\ i > base /\ i <= base + Trace[base].n
RoundIdx == IF base = 0 THEN {} ELSE (base + 1)..Min(base + Trace[base].n, Len(Trace))
InitSet == IF base = 0 THEN {} ELSE Range(Trace[base].init)

Ops(p)       == { i \in RoundIdx : Trace[i].ev \in {"handle", "remove"} /\ Trace[i].pat = p }
Before(p, s) == { i \in Ops(p) : Trace[i].end < s.start }
Over(p, s)   == { i \in Ops(p) : ~(Trace[i].end < s.start) /\ ~(Trace[i].start > s.end) }
\* operations completed before s that can have been the last to take effect
LastCands(p, s) == { i \in Before(p, s) : ~\E j \in Before(p, s) : Trace[j].start > Trace[i].end }
Vals(p, s) ==
  (IF Before(p, s) = {} THEN { p \in InitSet } ELSE { Trace[i].ev = "handle" : i \in LastCands(p, s) })
  \cup { Trace[i].ev = "handle" : i \in Over(p, s) }
PossibleSets(s) == { X \in SUBSET PatIdx : \A p \in PatIdx : (p \in X) \in Vals(p, s) }
PSetOf(X) == { PatL[p] : p \in X }

ResOf(s) == IF s.res = 0 THEN Refused ELSE ToPat(PatL[s.res])
QLabels(s) == Parse(s.qname).labels

ServeVerdict(s) ==
  IF ~InRound(l) \/ s.res \notin 0..Len(PatL) THEN "malformed-event"
  ELSE IF s.calls # 1 THEN "dispatch-not-exactly-once"
  ELSE LET q == QLabels(s) IN
    IF \E X \in PossibleSets(s) : ResOf(s) \in RouteSet(PSetOf(X), q, s.qtype) THEN ""
    ELSE IF s.res # 0 /\ \E X \in PossibleSets(s) : PatL[s.res] \in PastNearest(PSetOf(X), q, s.qtype) THEN
      LET X == CHOOSE X \in PossibleSets(s) : PatL[s.res] \in PastNearest(PSetOf(X), q, s.qtype) IN
      RouteClass(PSetOf(X), q, s.qtype) \o "-routed-past-nearest-parent"
    ELSE "concurrent-dispatch-unexplained"

-----------------------------------------------------------------------------
Init == l = 1 /\ ctr = CtrInit /\ base = 0 /\ HWInit /\ TLCSet(3, <<>>)

Next ==
  /\ l <= Len(Trace)
  /\ HW(l)
  /\ l' = l + 1
  /\ CASE Ev.ev = "pkt" ->
            /\ LET c == PktVerdict(Ev) IN IF c = "" THEN TRUE ELSE MarkBadC(l, c)
            /\ ctr' = Dispose(CtrReceive(ctr, MsgOf(Ev)))
            /\ UNCHANGED base
       [] Ev.ev = "totals" ->
            /\ IF TotalsOK(Ev) THEN TRUE ELSE MarkBadC(l, "totals")
            /\ ctr' = CtrInit
            /\ UNCHANGED base
       [] Ev.ev = "round" -> base' = l /\ UNCHANGED ctr
       [] Ev.ev \in {"handle", "remove"} ->
            /\ IF InRound(l) /\ Ev.pat \in PatIdx /\ Ev.start < Ev.end THEN TRUE ELSE MarkBadC(l, "malformed-event")
            /\ UNCHANGED <<ctr, base>>
       [] Ev.ev = "serve" ->
            /\ LET c == ServeVerdict(Ev) IN IF c = "" THEN TRUE ELSE MarkBadC(l, c)
            /\ UNCHANGED <<ctr, base>>
       [] OTHER -> MarkBadC(l, "unknown-event") /\ UNCHANGED <<ctr, base>>

AcceptedC == PrintT("VP:cls=" \o ToJson(TLCGet(3))) /\ Accepted
=============================================================================
