CONSTANTS
  MaxLabel = 63
  MaxName = 255
  Scale = 0
  Mode = "any"
  MaxOff = 6
INIT Init
NEXT Next
INVARIANTS Refinement Transparent NeverLonger PointersValid JudgeAccepts JudgeRejects Chains
CHECK_DEADLOCK FALSE
