CONSTANTS
  MaxLabel = 63
  MaxName = 255
INIT Init
NEXT Next
INVARIANTS Receiver SectionRules Recognised
CHECK_DEADLOCK FALSE
