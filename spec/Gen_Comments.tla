---------------------------- MODULE Gen_Comments ----------------------------
(* Vectors for X17: every zone text of a bounded universe is one TLC state; the  *)
(* vector carries the text as octets, the text of the $INCLUDE'd file, and per   *)
(* expected record the owner, the ADMITTED set of Comment() texts, the set of    *)
(* partial texts (diagnosis only) and the layout class.                          *)
(*   Mode "fam"    one record of every RDATA family x every layout x a comment   *)
(*                 (or none) on every physical line, between two neighbours that *)
(*                 carry comments of their own (or none), or alone without a     *)
(*                 final line end                                                *)
(*        "text"   comment spellings (empty, no blank, trailing blanks, ';' and  *)
(*                 '"' '(' inside) x glue x line ends (LF / CR LF, final or not) *)
(*        "mix"    empty and non-empty comments mixed on the lines of one record *)
(*        "zone"   sequences of entries: records, blank / comment-only lines,    *)
(*                 $TTL $ORIGIN $GENERATE $INCLUDE with comments, a refused line *)
(*        "pieces" the entries themselves (abstract form) for the recorder       *)
EXTENDS Comments, GenBase

CONSTANTS Mode, Wide
VARIABLES v

Fams == <<
  [id |-> "A", esc |-> FALSE, toks |-> << <<65>>, <<49, 48, 46, 48, 46, 48, 46, 49>> >>],   \* A 10.0.0.1
  [id |-> "Aown", esc |-> TRUE, toks |-> << <<65>>, <<49, 48, 46, 48, 46, 48, 46, 49>> >>],   \* A 10.0.0.1
  [id |-> "MX", esc |-> FALSE, toks |-> << <<77, 88>>, <<49, 48>>, <<109, 92, 59, 120, 46>> >>],   \* MX 10 m\;x.
  [id |-> "TXTq", esc |-> FALSE, toks |-> << <<84, 88, 84>>, <<34, 116, 49, 34>>, <<34, 116, 59, 50, 34>> >>],   \* TXT "t1" "t;2"
  [id |-> "TXTu", esc |-> FALSE, toks |-> << <<84, 88, 84>>, <<116, 49>>, <<120, 92, 59, 121>> >>],   \* TXT t1 x\;y
  [id |-> "TXT1", esc |-> FALSE, toks |-> << <<84, 88, 84>>, <<34, 97, 59, 98, 32, 99, 34>> >>],   \* TXT "a;b c"
  [id |-> "RRSIG", esc |-> FALSE, toks |-> << <<82, 82, 83, 73, 71>>, <<65>>, <<56>>, <<50>>, <<51, 48, 48>>, <<50, 48, 51, 48, 48, 49, 48, 49, 48, 48, 48, 48, 48, 48>>, <<50, 48, 50, 48, 48, 49, 48, 49, 48, 48, 48, 48, 48, 48>>, <<49, 50, 51, 52>>, <<115, 46>>, <<65, 65, 65, 65>>, <<66, 66, 66, 66>> >>],   \* RRSIG A 8 2 300 20300101000000 20200101000000 1234 s. AAAA BBBB
  [id |-> "DNSKEY", esc |-> FALSE, toks |-> << <<68, 78, 83, 75, 69, 89>>, <<50, 53, 54>>, <<51>>, <<56>>, <<65, 119, 69, 65>>, <<65, 81, 61, 61>> >>],   \* DNSKEY 256 3 8 AwEA AQ==
  [id |-> "NSEC", esc |-> FALSE, toks |-> << <<78, 83, 69, 67>>, <<110, 46>>, <<65>>, <<77, 88>> >>],   \* NSEC n. A MX
  [id |-> "NSEC0", esc |-> FALSE, toks |-> << <<78, 83, 69, 67>>, <<110, 46>> >>],   \* NSEC n.
  [id |-> "U3597", esc |-> FALSE, toks |-> << <<84, 89, 80, 69, 54, 53, 50, 56, 48>>, <<92, 35>>, <<50>>, <<97, 98>>, <<99, 100>> >>],   \* TYPE65280 \# 2 ab cd
  [id |-> "A3597", esc |-> FALSE, toks |-> << <<65>>, <<92, 35>>, <<52>>, <<48, 97, 48, 48, 48, 48, 48, 49>> >>],   \* A \# 4 0a000001
  [id |-> "SVCB", esc |-> FALSE, toks |-> << <<83, 86, 67, 66>>, <<49>>, <<115, 46>>, <<97, 108, 112, 110, 61, 104, 50>>, <<112, 111, 114, 116, 61, 53, 51>> >>],   \* SVCB 1 s. alpn=h2 port=53
  [id |-> "HTTPS", esc |-> FALSE, toks |-> << <<72, 84, 84, 80, 83>>, <<48>>, <<104, 46>> >>],   \* HTTPS 0 h.
  [id |-> "LOC", esc |-> FALSE, toks |-> << <<76, 79, 67>>, <<53, 49>>, <<51, 48>>, <<49, 50, 46, 53>>, <<78>>, <<48>>, <<55>>, <<51>>, <<87>>, <<49, 48, 109>>, <<49, 109>>, <<50, 109>>, <<51, 109>> >>],   \* LOC 51 30 12.5 N 0 7 3 W 10m 1m 2m 3m
  [id |-> "LOCs", esc |-> FALSE, toks |-> << <<76, 79, 67>>, <<53, 49>>, <<51, 48>>, <<49, 50, 46, 53>>, <<78>>, <<48>>, <<55>>, <<51>>, <<87>>, <<49, 48, 109>> >>],   \* LOC 51 30 12.5 N 0 7 3 W 10m
  [id |-> "IPSECKEY", esc |-> FALSE, toks |-> << <<73, 80, 83, 69, 67, 75, 69, 89>>, <<49, 48>>, <<49>>, <<50>>, <<49, 57, 50, 46, 48, 46, 50, 46, 49>>, <<65, 81, 73, 68>> >>],   \* IPSECKEY 10 1 2 192.0.2.1 AQID
  [id |-> "IPSECKEY0", esc |-> FALSE, toks |-> << <<73, 80, 83, 69, 67, 75, 69, 89>>, <<49, 48>>, <<48>>, <<50>>, <<46>>, <<65, 81, 73, 68>> >>],   \* IPSECKEY 10 0 2 . AQID
  [id |-> "SOA", esc |-> FALSE, toks |-> << <<83, 79, 65>>, <<97, 46>>, <<98, 46>>, <<49>>, <<50>>, <<51>>, <<52>>, <<53>> >>],   \* SOA a. b. 1 2 3 4 5
  [id |-> "NS", esc |-> FALSE, toks |-> << <<78, 83>>, <<110, 46>> >>],   \* NS n.
  [id |-> "HINFO", esc |-> FALSE, toks |-> << <<72, 73, 78, 70, 79>>, <<34, 99, 112, 117, 34>>, <<34, 111, 115, 34>> >>],   \* HINFO "cpu" "os"
  [id |-> "CAA", esc |-> FALSE, toks |-> << <<67, 65, 65>>, <<48>>, <<105, 115, 115, 117, 101>>, <<34, 99, 97, 59, 120, 34>> >>],   \* CAA 0 issue "ca;x"
  [id |-> "DS", esc |-> FALSE, toks |-> << <<68, 83>>, <<49>>, <<56>>, <<50>>, <<65, 66, 67, 68>>, <<69, 70, 48, 49>> >>],   \* DS 1 8 2 ABCD EF01
  [id |-> "NSEC3", esc |-> FALSE, toks |-> << <<78, 83, 69, 67, 51>>, <<49>>, <<48>>, <<50>>, <<97, 98>>, <<50, 116, 55, 98, 52, 103, 52, 118, 115, 97, 53, 115, 109, 105, 52, 55, 107, 54, 49, 109, 118, 53, 98, 118, 49, 97, 50, 50, 98, 111, 106, 114>>, <<65>> >>],   \* NSEC3 1 0 2 ab 2t7b4g4vsa5smi47k61mv5bv1a22bojr A
  [id |-> "NSEC3P", esc |-> FALSE, toks |-> << <<78, 83, 69, 67, 51, 80, 65, 82, 65, 77>>, <<49>>, <<48>>, <<50>>, <<97, 98>> >>],   \* NSEC3PARAM 1 0 2 ab
  [id |-> "NAPTR", esc |-> FALSE, toks |-> << <<78, 65, 80, 84, 82>>, <<49>>, <<50>>, <<34, 117, 34>>, <<34, 115, 34>>, <<34, 114, 34>>, <<120, 46>> >>],   \* NAPTR 1 2 "u" "s" "r" x.
  [id |-> "APL", esc |-> FALSE, toks |-> << <<65, 80, 76>>, <<49, 58, 49, 48, 46, 48, 46, 48, 46, 48, 47, 56>>, <<33, 49, 58, 49, 48, 46, 49, 46, 48, 46, 48, 47, 49, 54>> >>],   \* APL 1:10.0.0.0/8 !1:10.1.0.0/16
  [id |-> "CSYNC", esc |-> FALSE, toks |-> << <<67, 83, 89, 78, 67>>, <<49>>, <<51>>, <<65>>, <<78, 83>> >>],   \* CSYNC 1 3 A NS
  [id |-> "HIP", esc |-> FALSE, toks |-> << <<72, 73, 80>>, <<50>>, <<50, 48, 48, 49, 48, 48, 49, 48, 55, 66, 49, 65, 55, 52, 68, 70, 51, 54, 53, 54, 51, 57, 67, 67, 51, 57, 70, 49, 68, 53, 55, 56>>, <<65, 119, 69, 65, 65, 98, 100, 120>>, <<114, 118, 115, 46>> >>],   \* HIP 2 200100107B1A74DF365639CC39F1D578 AwEAAbdx rvs.
  [id |-> "URI", esc |-> FALSE, toks |-> << <<85, 82, 73>>, <<49>>, <<50>>, <<34, 104, 116, 116, 112, 58, 47, 47, 120, 47, 59, 121, 34>> >>],   \* URI 1 2 "http://x/;y"
  [id |-> "TLSA", esc |-> FALSE, toks |-> << <<84, 76, 83, 65>>, <<49>>, <<49>>, <<49>>, <<97, 98, 99, 100>>, <<101, 102>> >>],   \* TLSA 1 1 1 abcd ef
  [id |-> "OPENPGPKEY", esc |-> FALSE, toks |-> << <<79, 80, 69, 78, 80, 71, 80, 75, 69, 89>>, <<65, 81, 73, 68>>, <<66, 65, 85, 71>> >>],   \* OPENPGPKEY AQID BAUG
  [id |-> "AMTRELAY", esc |-> FALSE, toks |-> << <<65, 77, 84, 82, 69, 76, 65, 89>>, <<49, 48>>, <<48>>, <<49>>, <<49, 57, 50, 46, 48, 46, 50, 46, 49>> >>],   \* AMTRELAY 10 0 1 192.0.2.1
  [id |-> "SRV", esc |-> FALSE, toks |-> << <<83, 82, 86>>, <<49>>, <<50>>, <<51>>, <<116, 46>> >>],   \* SRV 1 2 3 t.
  [id |-> "EUI48", esc |-> FALSE, toks |-> << <<69, 85, 73, 52, 56>>, <<48, 48, 45, 48, 48, 45, 53, 101, 45, 48, 48, 45, 53, 51, 45, 50, 97>> >>],   \* EUI48 00-00-5e-00-53-2a
  [id |-> "CERT", esc |-> FALSE, toks |-> << <<67, 69, 82, 84>>, <<80, 75, 73, 88>>, <<49>>, <<82, 83, 65, 83, 72, 65, 50, 53, 54>>, <<65, 81, 73, 68>>, <<66, 65, 85, 71>> >>],   \* CERT PKIX 1 RSASHA256 AQID BAUG
  [id |-> "AAAA", esc |-> FALSE, toks |-> << <<65, 65, 65, 65>>, <<58, 58, 49>> >>]   \* AAAA ::1
>>

NF == Len(Fams)
FamBy(id) == Fams[CHOOSE i \in 1..NF : Fams[i].id = id]

\* layouts: the physical lines of a record; H = owner and type, R = the RDATA tokens, R1 / R2 = their first / second half
Lay == <<
  << <<"H", "R">> >>,
  << <<"H", "(", "R", ")">> >>,
  << <<"H", "(">>, <<"R">>, <<")">> >>,
  << <<"H", "R1", "(">>, <<"R2", ")">> >>,
  << <<"H", "(">>, <<"R1">>, <<"R2">>, <<")">> >>,
  << <<"H", "(">>, <<>>, <<"R">>, <<")">> >>,
  << <<"H", "R", "(">>, <<")">> >>,
  << <<"H", "(", "R1">>, <<>>, <<"R2", ")">> >>,
  << <<"H", "(", "R">>, <<>>, <<")">> >>
>>
NL == Len(Lay)

Tag(k, i) == <<101, 48 + k, 108, 48 + i>>                                   \* e<k>l<i>: unique per entry and line
ComText(kind, tag) == CASE kind = "sp"    -> <<SP>> \o tag
                        [] kind = "nosp"  -> tag
                        [] kind = "empty" -> <<>>
                        [] kind = "trail" -> <<SP>> \o tag \o <<SP, SP, TAB>>
                        [] kind = "semi"  -> <<SP>> \o tag \o <<SEMI, 120>>
                        [] kind = "quote" -> <<SP>> \o tag \o <<SP, QUOTE, LPAR>>
ComOf(kind, tag) == IF kind = "none" THEN <<>> ELSE << ComText(kind, tag) >>

Owner(k, esc) == <<114, 48 + k>> \o (IF esc THEN <<BSL, SEMI, 120>> ELSE <<>>) \o <<46>>      \* r<k>.  r<k>\;x.
Half(rd) == (Len(rd) + 1) \div 2
Sym(s, hdr, rd) == CASE s = "H"  -> hdr
                     [] s = "R"  -> rd
                     [] s = "R1" -> SubSeq(rd, 1, Half(rd))
                     [] s = "R2" -> SubSeq(rd, Half(rd) + 1, Len(rd))
                     [] s = "("  -> << <<LPAR>> >>
                     [] s = ")"  -> << <<RPAR>> >>
LineItems(syms, hdr, rd) == Concat([j \in 1..Len(syms) |-> Sym(syms[j], hdr, rd)])

Ln(items, com, glue) == [items |-> items, com |-> com, glue |-> glue]
Ent(kind, lines, names, sub) == [kind |-> kind, lines |-> lines, names |-> names, sub |-> sub]

\* the record of family f in layout l at position k; cs[i] = the comment kind of line i
RR(k, f, l, cs, glue) ==
  LET own == Owner(k, f.esc) IN
  Ent("rr", [i \in 1..Len(Lay[l]) |-> Ln(LineItems(Lay[l][i], <<own, f.toks[1]>>, Tail(f.toks)), ComOf(cs[i], Tag(k, i)), glue)], <<own>>, <<>>)
Plain(k, kind) == RR(k, Fams[1], 1, <<kind>>, FALSE)

Dir(k, items, kind)  == Ent("dir", << Ln(items, ComOf(kind, Tag(k, 1)), FALSE) >>, <<>>, <<>>)
TTLDir(k, kind)    == Dir(k, << <<36, 84, 84, 76>>, <<51, 48, 48>> >>, kind)                                            \* $TTL 300
OriginDir(k, kind) == Dir(k, << <<36, 79, 82, 73, 71, 73, 78>>, <<101, 120, 46>> >>, kind)                              \* $ORIGIN ex.
GenDir(k, kind)    == Ent("gen", << Ln(<< <<36, 71, 69, 78, 69, 82, 65, 84, 69>>, <<49, 45, 50>>, <<103, 36, 46>>, <<65>>, <<49, 48, 46, 48, 46, 48, 46, 36>> >>,
                                      ComOf(kind, Tag(k, 1)), FALSE) >>, << <<103, 49, 46>>, <<103, 50, 46>> >>, <<>>)  \* $GENERATE 1-2 g$. A 10.0.0.$ -> g1. g2.
IncDir(k, kind, sub) == Ent("inc", << Ln(<< <<36, 73, 78, 67, 76, 85, 68, 69>>, <<105, 110, 99, 46, 122, 111, 110, 101>> >>, ComOf(kind, Tag(k, 1)), FALSE) >>, <<>>, sub)
Blank == Ent("blank", << Ln(<<>>, <<>>, FALSE) >>, <<>>, <<>>)
COnly(k, glue) == Ent("conly", << Ln(<<>>, ComOf("sp", Tag(k, 1)), glue) >>, <<>>, <<>>)
Bad(k, kind) == LET own == Owner(k, FALSE) IN
                Ent("bad", << Ln(<< own, <<65>>, <<49, 48, 46, 48, 46, 48, 46, 51, 48, 48>> >>, ComOf(kind, Tag(k, 1)), FALSE) >>, <<own>>, <<>>)   \* r<k>. A 10.0.0.300

\* the $INCLUDE'd file: positions 6..9
Sub1 == << RR(6, Fams[1], 1, <<"sp">>, FALSE), COnly(7, TRUE), RR(8, FamBy("TXTq"), 3, <<"sp", "none", "sp">>, FALSE), Plain(9, "none") >>
Sub2 == << Plain(6, "none"), Plain(7, "sp") >>

Zone(es, crlf, final) == [entries |-> es, crlf |-> crlf, final |-> final]

Kinds2 == {"none", "sp"}
SpecialKinds == {"empty", "nosp", "trail", "semi", "quote"}
TextFams == {"A", "TXTq", "RRSIG", "NSEC"} \cup (IF Wide THEN {"DNSKEY", "U3597", "SVCB", "LOC", "IPSECKEY", "SOA", "TXTu", "MX"} ELSE {})
MixFams == {"A", "TXTq"} \cup (IF Wide THEN {"RRSIG", "NSEC", "SOA", "U3597"} ELSE {})
Flags == {<<FALSE, TRUE>>, <<FALSE, FALSE>>, <<TRUE, TRUE>>, <<TRUE, FALSE>>}      \* <<crlf, final>>

\* catalog of the "zone" mode: entry number c at position k
NCat == 17
Cat(c, k) == CASE c = 1  -> Plain(k, "sp")
               [] c = 2  -> Plain(k, "none")
               [] c = 3  -> RR(k, FamBy("MX"), 3, <<"sp", "sp", "sp">>, FALSE)
               [] c = 4  -> RR(k, FamBy("NSEC"), 7, <<"sp", "sp">>, FALSE)
               [] c = 5  -> Blank
               [] c = 6  -> COnly(k, TRUE)
               [] c = 7  -> COnly(k, FALSE)
               [] c = 8  -> TTLDir(k, "sp")
               [] c = 9  -> OriginDir(k, "sp")
               [] c = 10 -> GenDir(k, "sp")
               [] c = 11 -> GenDir(k, "none")
               [] c = 12 -> IncDir(k, "sp", Sub1)
               [] c = 13 -> IncDir(k, "none", Sub2)
               [] c = 14 -> Bad(k, "sp")
               [] c = 15 -> RR(k, FamBy("RRSIG"), 1, <<"nosp">>, TRUE)
               [] c = 16 -> RR(k, FamBy("TXT1"), 1, <<"none">>, FALSE)
               [] c = 17 -> RR(k, FamBy("DNSKEY"), 2, <<"empty">>, FALSE)
IsInc(c) == c \in {12, 13}
MaxSeq == IF Wide THEN 4 ELSE 3

Universe ==
  CASE Mode = "fam" ->
         { [m |-> "fam", f |-> f, l |-> l, cs |-> cs, nb |-> nb] :
             f \in 1..NF, nb \in {"both", "none", "solo"}, <<l, cs>> \in UNION { {l} \X [1..Len(Lay[l]) -> Kinds2] : l \in 1..NL } }
    [] Mode = "text" ->
         { [m |-> "text", f |-> f, l |-> lc[1], cs |-> lc[2], glue |-> g, fl |-> fl] :
             f \in { i \in 1..NF : Fams[i].id \in TextFams }, g \in BOOLEAN, fl \in Flags,
             lc \in UNION { UNION { {l} \X ([1..Len(Lay[l]) -> {"none", k}] \ {[i \in 1..Len(Lay[l]) |-> "none"]}) : l \in 1..NL } : k \in SpecialKinds } }
    [] Mode = "mix" ->
         { [m |-> "mix", f |-> f, l |-> lc[1], cs |-> lc[2]] :
             f \in { i \in 1..NF : Fams[i].id \in MixFams },
             lc \in UNION { {l} \X [1..Len(Lay[l]) -> {"none", "sp", "empty"}] : l \in 1..NL } }
    [] Mode = "zone" ->
         { [m |-> "zone", q |-> q, fl |-> fl] :
             fl \in Flags,
             q \in { q \in UNION { [1..n -> 1..NCat] : n \in 1..MaxSeq } : Cardinality({ i \in DOMAIN q : IsInc(q[i]) }) <= 1 } }
    [] Mode = "pieces" ->
         { [m |-> "pieces", k |-> k, f |-> f, l |-> l] : k \in 1..4, f \in 1..NF, l \in 1..NL }
           \cup { [m |-> "pieces", k |-> k, f |-> 0, l |-> c] : k \in 1..4, c \in 5..14 }

\* "zone": the flags other than LF + final only for the short sequences (unless Wide)
Keep(x) == x.m # "zone" \/ Wide \/ x.fl = <<FALSE, TRUE>> \/ Len(x.q) <= 2

ZoneOf(x) ==
  CASE x.m = "fam" ->
         LET e == RR(2, Fams[x.f], x.l, x.cs, FALSE) IN
         IF x.nb = "solo" THEN Zone(<<e>>, FALSE, FALSE)
         ELSE LET kind == IF x.nb = "both" THEN "sp" ELSE "none" IN Zone(<< Plain(1, kind), e, Plain(3, kind) >>, FALSE, TRUE)
    [] x.m = "text" -> Zone(<< Plain(1, "sp"), RR(2, Fams[x.f], x.l, x.cs, x.glue) >>, x.fl[1], x.fl[2])
    [] x.m = "mix"  -> Zone(<< RR(1, Fams[x.f], x.l, x.cs, FALSE), Plain(2, "none") >>, FALSE, TRUE)
    [] x.m = "zone" -> Zone([i \in 1..Len(x.q) |-> Cat(x.q[i], i)], x.fl[1], x.fl[2])

Vec(x) ==
  LET z == ZoneOf(x)
      ex == ExpectZone(z)
  IN [mode |-> x.m, text |-> Render(z), inc |-> IncText(z), crlf |-> z.crlf, final |-> z.final, err |-> ex.err,
      recs |-> [i \in 1..Len(ex.recs) |-> [name |-> ex.recs[i].name, adm |-> ex.recs[i].adm, part |-> Partial(ex.recs[i].e, z.crlf),
                                           cls |-> Cls(ex.recs[i].e), kind |-> ex.recs[i].e.kind]],
      newrr |-> First(z.entries, FALSE), readrr |-> First(z.entries, TRUE),
      after |-> {<<>>}]                                    \* Comment() once Next() has returned (nil, false)

Piece(x) == [mode |-> "pieces", k |-> x.k, entry |-> IF x.f = 0 THEN Cat(x.l, x.k) ELSE RR(x.k, Fams[x.f], x.l, [i \in 1..Len(Lay[x.l]) |-> "sp"], FALSE)]

Init == v \in Universe /\ Keep(v)
Next == UNCHANGED v
Out == Emit(IF v.m = "pieces" THEN Piece(v) ELSE Vec(v))
=============================================================================
