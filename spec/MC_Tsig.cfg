CONSTANTS
  MaxLabel = 63
  MaxName = 255
  Mac <- MacModel
INIT Init
NEXT Next
INVARIANTS EndToEnd FirstReject SenderOK NoTsigNeverAccepted Layout Out
