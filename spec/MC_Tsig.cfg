CONSTANTS
  MaxLabel = 63
  MaxName = 255
  MaxLen = 4
  MaxFaults = 2
  EmitChains = FALSE
  Mac <- MacModel
INIT Init
NEXT Next
INVARIANTS EndToEnd FirstReject SenderOK NoTsigNeverAccepted Layout Out
