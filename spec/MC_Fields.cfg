CONSTANTS
  MaxLabel = 63
  MaxName = 255
INIT Init
NEXT Next
INVARIANTS TypeInv BlobInv NameInv StrsInv NamesInv IntInv V6Inv TypesInv
CHECK_DEADLOCK FALSE
