CONSTANTS
  Mode = "pc"
  NStart = 6
  NLsn = 6
  NShut = 10
  NConns = 0
  MaxReq = 4
  NPkts = 40
  CtxMayExpire = TRUE
  PlainShut = {}
  DeadlinesMayFire = FALSE
  ClientMayClose = TRUE
  HandlerMayClose = TRUE
  HandlerMayHijack = TRUE
  StartMayFail = TRUE
  SpareFields = TRUE
  SeqRestart = FALSE
  Bug = "none"
  TrackAct = FALSE
  Loose = TRUE
INIT TInit
NEXT TNext
POSTCONDITION Done
CHECK_DEADLOCK FALSE
