CONSTANTS
  MaxLabel = 63
  MaxName = 255
  Mac <- MacModel
  MaxEnv = 3
INIT Init
NEXT Next
INVARIANTS OneFramePerEnvelope ChainVerifies TimersFromSecond NilOnlyWhenDrained ErrorIsFirstAndLast WaitsWhileOpen Abandoned Broken
PROPERTIES NothingAfterReturn
CHECK_DEADLOCK FALSE
