CONSTANTS
  Obj = {1, 2, 3}
  NSlots = 2
INIT Init
NEXT Next
INVARIANTS WitnessThreeObjects
CHECK_DEADLOCK FALSE
