---------------------------- MODULE Trace_Bitmaps ----------------------------
(* Texts produced by the real String() methods (harness `bitmaps replay`), READ  *)
(* by Bitmaps.tla.                                                               *)
(*  text  [kind, b | value | items, text]                                        *)
(*    size:*   the size / horizontal / vertical precision item of a LOC whose    *)
(*             octet is b: for a valid octet the text denotes its value          *)
(*             (invalid nibbles: RFC 1876 gives them no meaning -- not judged)   *)
(*    eui48 eui64   the address of an EUI48 / EUI64 record                       *)
(*    nid l64       the NodeID / Locator64 of a NID / L64 record                 *)
(*    apl           the RDATA text of an APL record made from `items'            *)
EXTENDS Bitmaps, TraceBase

VARIABLE l
Ev == Trace[l]

Norm(items) == [i \in 1..Len(items) |-> [items[i] EXCEPT !.addr = MaskTo(@, items[i].prefix)]]
AplTextOK(items, text) ==
  IF items = <<>> THEN text = <<>>
  ELSE LET ts == Rv!Fields(text, 32) IN
       /\ Len(ts) = Len(items)
       /\ \A i \in 1..Len(ts) : LET r == AplRead(ts[i]) IN r.ok /\ r.item = Norm(items)[i]

Judge(e) ==
  CASE e.kind \in {"size:size", "size:horizpre", "size:vertpre"} -> ~ValidSize(e.b) \/ SizeTextOK(e.b, e.text)
    [] e.kind = "eui48" -> LET r == EuiRead(e.text, 6) IN r.ok /\ r.v = e.value
    [] e.kind = "eui64" -> LET r == EuiRead(e.text, 8) IN r.ok /\ r.v = e.value
    [] e.kind \in {"nid", "l64"} -> LET r == IlnpRead(e.text) IN r.ok /\ r.v = e.value
    [] e.kind = "apl"   -> AplTextOK(e.items, e.text)
    [] OTHER -> FALSE

Init == l = 1 /\ HWInit
Next == /\ l <= Len(Trace)
        /\ IF Judge(Ev) THEN TRUE ELSE MarkBad(l)
        /\ HW(l)
        /\ l' = l + 1
=============================================================================
