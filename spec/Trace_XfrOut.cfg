CONSTANTS
  MaxLabel = 63
  MaxName = 255
  Mac <- MacModel
INIT Init
NEXT Next
POSTCONDITION Accepted
CHECK_DEADLOCK FALSE
