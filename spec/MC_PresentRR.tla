---------------------------- MODULE MC_PresentRR ----------------------------
(* PresentRR.tla checked on itself.                                            *)
(*   code   every code point 0..65535: the type / class spellings (mnemonic or *)
(*          TYPEnnn / CLASSnnn, either case) denote it; decimal round trip     *)
(*   blob   every octet string of length <= BlobLen over Oct: hex, base64,     *)
(*          base32hex and decimal interpreters invert their encoders           *)
(*   static the mnemonic tables are bijective, PresKind covers exactly the     *)
(*          layout types with a presentation format and names exactly the      *)
(*          layout's fields (length fields are implicit in the text)           *)
(*   rec    a canonical WRITER, stated here independently field kind by field  *)
(*          kind, and the reader: ReadRecord(Write(rr)) denotes rr's header    *)
(*          and EncRdata(rr) -- typed form and RFC 3597 generic form; damaged  *)
(*          texts are refused or denote something else (non-vacuity)           *)
EXTENDS PresentRR

CONSTANTS Oct, BlobLen

VARIABLES kind, s

-----------------------------------------------------------------------------
(* Canonical writer *)

Dec(n)   == DecEnc(U16(n))                        \* a u8 / u16 as a decimal numeral
Quad(a)  == DecEnc(<<a[1]>>) \o <<cDOT>> \o DecEnc(<<a[2]>>) \o <<cDOT>> \o DecEnc(<<a[3]>>) \o <<cDOT>> \o DecEnc(<<a[4]>>)
RECURSIVE JoinWith(_, _)
JoinWith(ss, sep) == IF ss = <<>> THEN <<>> ELSE IF Len(ss) = 1 THEN ss[1] ELSE ss[1] \o sep \o JoinWith(Tail(ss), sep)
Grouped(hexs, w, sep) == JoinWith([g \in 1..(Len(hexs) \div w) |-> Sub(hexs, w * (g - 1) + 1, w * g)], <<sep>>)

\* the text items of one presentation item (a sequence of item texts); f = the record's fields
WriteItem(e, f, hkt) ==
  LET p == e.p
      v == IF e.n \in DOMAIN f THEN f[e.n] ELSE 0 IN
  CASE p \in {"u8", "u16", "certtype", "alg"} -> << Dec(v) >>
    [] p = "typ"   -> << TypeText(v) >>
    [] p \in {"u32"} -> << DecEnc(v) >>
    [] p = "time"  -> << IF hkt # <<>> THEN hkt ELSE DecEnc(v) >>
    [] p = "name"  -> << Present(v) >>
    [] p \in {"str", "lstr"} -> << RenderVal(v, TRUE) >>
    [] p \in {"strs", "ostr"} -> [i \in 1..Len(v) |-> RenderVal(v[i], i % 2 = 1 \/ v[i] = <<>>)]      \* quoted and unquoted spellings
    [] p = "hex"   -> IF v = <<>> THEN <<>> ELSE IF Len(v) > 2 THEN << HexEnc(Take(v, 1), TRUE), HexEnc(Drop(v, 1), FALSE) >> ELSE << HexEnc(v, TRUE) >>
    [] p = "hex1"  -> << HexEnc(v, FALSE) >>
    [] p = "salt"  -> << IF v = <<>> THEN <<45>> ELSE HexEnc(v, TRUE) >>
    [] p = "b64"   -> IF v = <<>> THEN <<>> ELSE LET t == B64Enc(v) IN IF Len(t) > 4 THEN << Take(t, 4), Drop(t, 4) >> ELSE << t >>
    [] p = "b641"  -> << B64Enc(v) >>
    [] p = "b32"   -> << B32Enc(v, FALSE) >>
    [] p = "types" -> [i \in 1..Len(v) |-> IF i % 2 = 0 THEN kTYPE \o Dec(v[i]) ELSE TypeText(v[i])]
    [] p = "names" -> [i \in 1..Len(v) |-> Present(v[i])]
    [] p = "a"     -> << Quad(v) >>
    [] p = "dbit"  -> << Dec(f.GatewayType \div 128) >>
    [] p = "eui48" -> << Grouped(HexEnc(v, FALSE), 2, 45) >>
    [] p = "eui64" -> << Grouped(HexEnc(v, FALSE), 2, 45) >>
    [] p = "ilnp64" -> << Grouped(HexEnc(v, FALSE), 4, 58) >>
    [] p = "gateway" ->
         LET sel == IF e.of = "GwType" THEN f.GatewayType % 128 ELSE f[e.of] IN
         << CASE sel = 0 -> <<cDOT>> [] sel = 1 -> Quad(v) [] sel = 2 -> hkt [] sel = 3 -> Present(v) >>
    [] p \in {"aaaa", "loc"} -> << hkt >>
    [] p \in {"apl", "svcb"} -> hkt                    \* a sequence of item texts

\* rr = [name, type, class, ttl, f, hkt (texts of the hk items in order), hkv (their values)]
RECURSIVE WriteItems(_, _, _, _)
WriteItems(ps, i, rr, h) ==
  IF i > Len(ps) THEN <<>>
  ELSE LET e == ps[i]
           isHk == e.p \in HkKinds \/ (e.p = "time" /\ h <= Len(rr.hkt)) \/
                   (e.p = "gateway" /\ (IF e.of = "GwType" THEN rr.f.GatewayType % 128 ELSE rr.f[e.of]) = 2)
           f == IF rr.type = 260 THEN rr.f @@ [GwType |-> rr.f.GatewayType % 128] ELSE rr.f
           many == e.p \in {"apl", "svcb"}
           hkt == IF ~isHk THEN <<>> ELSE IF many THEN Sub(rr.hkt, h, Len(rr.hkt)) ELSE rr.hkt[h]
       IN WriteItem(e, f, hkt) \o WriteItems(ps, i + 1, rr, IF ~isHk THEN h ELSE IF many THEN Len(rr.hkt) + 1 ELSE h + 1)

Header(rr, swap, generic) ==
  LET cls == IF generic THEN kCLASS \o Dec(rr.class) ELSE ClassText(rr.class)
      typ == IF generic THEN kTYPE \o Dec(rr.type) ELSE TypeText(rr.type) IN
  IF swap THEN << Present(rr.name), cls, DecEnc(rr.ttl), typ >> ELSE << Present(rr.name), DecEnc(rr.ttl), cls, typ >>

Write(rr, swap) == JoinWith(Header(rr, swap, FALSE) \o WriteItems(PresKind[rr.type], 1, rr, 1), <<cSP>>)
WriteGeneric(rr) ==
  LET rd == EncRdata(rr.type, rr.f) IN
  JoinWith(Header(rr, FALSE, TRUE) \o << <<cBSL, 35>>, Dec(Len(rd)) >> \o (IF rd = <<>> THEN <<>> ELSE << HexEnc(rd, FALSE) >>), <<cTAB>>)

HkOf(rr) == [i \in 1..Len(rr.hkt) |-> [t |-> rr.hkt[i], ok |-> TRUE, v |-> rr.hkv[i]]]

-----------------------------------------------------------------------------
(* Records *)

Rep(n, o) == [i \in 1..n |-> o]
R(n, t, c, ttl, f) == [name |-> n, type |-> t, class |-> c, ttl |-> ttl, f |-> f, hkt |-> <<>>, hkv |-> <<>>]
RH(n, t, c, ttl, f, hkt, hkv) == [name |-> n, type |-> t, class |-> c, ttl |-> ttl, f |-> f, hkt |-> hkt, hkv |-> hkv]
Ex   == << <<101, 120>>, <<99>> >>                         \* ex.c.
Odd  == << <<97, 46, 32, 34>>, <<0, 255, 92>> >>           \* a\.\ \".\000\255\\.
T1   == <<0, 0, 14, 16>>
TMax == <<255, 255, 255, 255>>
V6   == <<32, 1, 13, 184>> \o Rep(11, 0) \o <<1>>
tV6  == <<50, 48, 48, 49, 58, 100, 98, 56, 58, 58, 49>>     \* 2001:db8::1
tTime == <<50, 48, 51, 48, 48, 49, 48, 49, 48, 48, 48, 48, 48, 48>>
Nasty == << <<>>, <<34>>, <<92>>, <<59>>, <<40, 41>>, <<32>>, <<10>>, <<0, 127, 255>>, Rep(255, 34), <<97, 32, 98>> >>

Recs == <<
  R(Ex, 1, 1, T1, [A |-> <<192, 0, 2, 255>>]),
  R(<<>>, 2, 3, TMax, [Ns |-> Odd]),
  R(Odd, 6, 1, <<0, 0, 0, 0>>, [Ns |-> Ex, Mbox |-> <<>>, Serial |-> TMax, Refresh |-> <<128, 0, 0, 0>>, Retry |-> <<0, 0, 0, 1>>,
                               Expire |-> T1, Minttl |-> <<0, 0, 0, 0>>]),
  R(Ex, 13, 4, T1, [Cpu |-> Nasty[2], Os |-> Nasty[9]]),
  R(Ex, 15, 254, T1, [Preference |-> 65535, Mx |-> Ex]),
  R(Ex, 16, 255, T1, [Txt |-> Nasty]),
  R(Ex, 16, 256, T1, [Txt |-> << <<>> >>]),
  R(Ex, 19, 65535, T1, [PSDNAddress |-> <<51, 49, 49>>]),
  R(Ex, 20, 1, T1, [Address |-> <<49>>, SubAddress |-> <<>>]),
  R(Ex, 20, 1, T1, [Address |-> <<49>>, SubAddress |-> << <<50, 32>> >>]),
  R(Ex, 35, 1, T1, [Order |-> 1, Preference |-> 0, Flags |-> <<117>>, Service |-> Nasty[3], Regexp |-> Nasty[10], Replacement |-> <<>>]),
  R(Ex, 37, 1, T1, [Type |-> 4, KeyTag |-> 7, Algorithm |-> 8, Certificate |-> <<1, 2, 3, 4, 5>>]),
  R(Ex, 43, 1, T1, [KeyTag |-> 60485, Algorithm |-> 5, DigestType |-> 1, Digest |-> <<47, 176, 203>>]),
  R(Ex, 43, 1, T1, [KeyTag |-> 0, Algorithm |-> 0, DigestType |-> 0, Digest |-> <<>>]),
  RH(Ex, 46, 1, T1, [TypeCovered |-> 65534, Algorithm |-> 13, Labels |-> 2, OrigTtl |-> T1, Expiration |-> <<112, 219, 215, 128>>,
                     Inception |-> <<0, 0, 0, 9>>, KeyTag |-> 1, SignerName |-> Ex, Signature |-> <<250, 251, 252, 253>>],
     << tTime >>, << <<112, 219, 215, 128>> >>),
  R(Ex, 47, 1, T1, [NextDomain |-> Odd, TypeBitMap |-> <<1, 2, 46, 47, 1234, 65280>>]),
  R(Ex, 47, 1, T1, [NextDomain |-> <<>>, TypeBitMap |-> <<>>]),
  R(Ex, 30, 1, T1, [NextDomain |-> Ex, TypeBitMap |-> <<1, 15, 127>>]),
  R(Ex, 48, 1, T1, [Flags |-> 257, Protocol |-> 3, Algorithm |-> 15, PublicKey |-> <<0, 16, 131, 16, 81, 135, 32>>]),
  R(Ex, 50, 1, T1, [Hash |-> 1, Flags |-> 1, Iterations |-> 12, SaltLength |-> 2, Salt |-> <<170, 187>>, HashLength |-> 3,
                    NextDomain |-> <<1, 2, 255>>, TypeBitMap |-> <<1, 46>>]),
  R(Ex, 50, 1, T1, [Hash |-> 1, Flags |-> 0, Iterations |-> 0, SaltLength |-> 0, Salt |-> <<>>, HashLength |-> 20,
                    NextDomain |-> [i \in 1..20 |-> (13 * i) % 256], TypeBitMap |-> <<>>]),
  R(Ex, 51, 1, T1, [Hash |-> 1, Flags |-> 0, Iterations |-> 65535, SaltLength |-> 0, Salt |-> <<>>]),
  R(Ex, 55, 1, T1, [HitLength |-> 2, PublicKeyAlgorithm |-> 2, PublicKeyLength |-> 4, Hit |-> <<32, 1>>, PublicKey |-> <<3, 1, 0, 1>>,
                    RendezvousServers |-> << Ex, Odd >>]),
  R(Ex, 62, 1, T1, [Serial |-> TMax, Flags |-> 3, TypeBitMap |-> <<1, 2, 28>>]),
  R(Ex, 104, 1, T1, [Preference |-> 10, NodeID |-> <<0, 20, 79, 255, 255, 32, 238, 100>>]),
  R(Ex, 108, 1, T1, [Address |-> <<0, 0, 94, 0, 83, 42>>]),
  R(Ex, 109, 1, T1, [Address |-> <<0, 0, 94, 239, 16, 0, 0, 42>>]),
  R(Ex, 256, 1, T1, [Priority |-> 10, Weight |-> 1, Target |-> Rep(300, 47) \o Nasty[8]]),
  R(Ex, 257, 1, T1, [Flag |-> 128, Tag |-> <<105, 115, 115, 117, 101>>, Value |-> Nasty[10]]),
  R(Ex, 45, 1, T1, [Precedence |-> 10, GatewayType |-> 0, Algorithm |-> 2, GatewayHost |-> <<>>, PublicKey |-> <<1, 3>>]),
  R(Ex, 45, 1, T1, [Precedence |-> 10, GatewayType |-> 1, Algorithm |-> 2, GatewayHost |-> <<192, 0, 2, 38>>, PublicKey |-> <<>>]),
  R(Ex, 45, 1, T1, [Precedence |-> 10, GatewayType |-> 3, Algorithm |-> 2, GatewayHost |-> Odd, PublicKey |-> <<1, 3>>]),
  RH(Ex, 45, 1, T1, [Precedence |-> 10, GatewayType |-> 2, Algorithm |-> 2, GatewayHost |-> V6, PublicKey |-> <<1, 3>>], << tV6 >>, << V6 >>),
  R(Ex, 260, 1, T1, [Precedence |-> 10, GatewayType |-> 128, GatewayHost |-> <<>>]),
  R(Ex, 260, 1, T1, [Precedence |-> 10, GatewayType |-> 131, GatewayHost |-> Ex]),
  RH(Ex, 28, 1, T1, [AAAA |-> V6], << tV6 >>, << V6 >>),
  RH(Ex, 29, 1, T1, [Version |-> 0, Size |-> 18, HorizPre |-> 22, VertPre |-> 19, Latitude |-> <<128, 0, 0, 0>>,
                     Longitude |-> <<128, 0, 0, 0>>, Altitude |-> <<0, 152, 150, 128>>],
     << <<48, 32, 78, 32, 48, 32, 69, 32, 48, 109>> >>,
     << [Version |-> 0, Size |-> 18, HorizPre |-> 22, VertPre |-> 19, Latitude |-> <<128, 0, 0, 0>>,
         Longitude |-> <<128, 0, 0, 0>>, Altitude |-> <<0, 152, 150, 128>>] >>),
  RH(Ex, 42, 1, T1, [Prefixes |-> << [fam |-> 1, neg |-> TRUE, prefix |-> 8, addr |-> <<10, 0, 0, 0>>] >>],
     << <<33, 49, 58, 49, 48, 46, 48, 46, 48, 46, 48, 47, 56>> >>, << [fam |-> 1, neg |-> TRUE, prefix |-> 8, addr |-> <<10, 0, 0, 0>>] >>),
  RH(Ex, 64, 1, T1, [Priority |-> 1, Target |-> <<>>, Value |-> << [key |-> 3, f |-> [Port |-> 53]], [key |-> 1, f |-> [Alpn |-> << <<104, 50>> >>]],
                                                                  [key |-> 65280, f |-> [Data |-> <<97>>]] >>],
     << <<112, 111, 114, 116, 61, 34, 53, 51, 34>>, <<97, 108, 112, 110, 61, 104, 50>>, <<107, 101, 121, 54, 53, 50, 56, 48, 61, 34, 97, 34>> >>,
     << [key |-> 3, f |-> [Port |-> 53]], [key |-> 1, f |-> [Alpn |-> << <<104, 50>> >>]], [key |-> 65280, f |-> [Data |-> <<97>>]] >>),
  R(Ex, 65, 1, T1, [Priority |-> 0, Target |-> Ex, Value |-> <<>>])
>>

-----------------------------------------------------------------------------
Init == \/ kind = "code" /\ s \in 0..65535
        \/ kind = "blob" /\ s = <<>>
        \/ kind = "static" /\ s = 0
        \/ kind = "rec" /\ s \in 1..Len(Recs)
Next == kind = "blob" /\ Len(s) < BlobLen /\ \E c \in Oct : s' = Append(s, c) /\ UNCHANGED kind

LowerText(t) == Lower(t)

CodeInv ==
  kind = "code" =>
    /\ TypeOfRR(TypeText(s)) = s /\ TypeOfRR(LowerText(TypeText(s))) = s
    /\ TypeOfRR(kTYPE \o Dec(s)) = s
    /\ ClassOf(ClassText(s)) = s /\ ClassOf(LowerText(ClassText(s))) = s
    /\ ClassOf(kCLASS \o Dec(s)) = s
    /\ DecOctets(Dec(s), 2) = Good(U16(s))
    /\ (s > 255 => ~DecOctets(Dec(s), 1).ok)
    /\ ClassOf(TypeText(s)) = (IF s = 255 THEN 255 ELSE -1)           \* no type mnemonic is a class, except ANY
    /\ ~DecOctets(TypeText(s), 4).ok /\ ~DecOctets(ClassText(s), 4).ok     \* ... or a TTL

BlobInv ==
  kind = "blob" =>
    /\ HexDec(HexEnc(s, TRUE)) = Good(s) /\ HexDec(HexEnc(s, FALSE)) = Good(s)
    /\ B64Dec(B64Enc(s)) = Good(s)
    /\ B32Dec(B32Enc(s, TRUE)) = Good(s) /\ B32Dec(B32Enc(s, FALSE)) = Good(s)
    /\ (s # <<>> => DecOctets(DecEnc(s), Len(s)) = Good(s))
    /\ (s # <<>> /\ s[1] # 0 => ~DecOctets(DecEnc(s), Len(s) - 1).ok)                \* one octet narrower: out of range
    /\ (Len(s) = 4 => ReadTok("ilnp64", Tok(Grouped(HexEnc(s \o s, FALSE), 4, 58), <<>>, FALSE)) = Good(s \o s))
    /\ (Len(s) = 3 => ReadTok("eui48", Tok(Grouped(HexEnc(s \o s, TRUE), 2, 45), <<>>, FALSE)) = Good(s \o s))
    /\ (Len(s) = 4 => IP4Of(Quad(s)) = [ok |-> TRUE, v |-> s])
    /\ ~HexDec(HexEnc(s, TRUE) \o <<48>>).ok                                           \* odd number of digits
    /\ (Len(B64Enc(s)) > 0 => ~B64Dec(Tail(B64Enc(s))).ok)                              \* not a multiple of four

Injective(tab) == \A i, j \in 1..Len(tab) : i # j => tab[i][1] # tab[j][1] /\ tab[i][2] # tab[j][2]
UpperOnly(tab) == \A i \in 1..Len(tab) : Upper(tab[i][1]) = tab[i][1]
ImplicitFields(t) == { FieldsOf(t)[i].sz : i \in { j \in 1..Len(FieldsOf(t)) : "sz" \in DOMAIN FieldsOf(t)[j] } }
PresFields(t) == { PresKind[t][i].n : i \in 1..Len(PresKind[t]) }
LayoutFields(t) == { FieldsOf(t)[i].n : i \in 1..Len(FieldsOf(t)) }
StaticInv ==
  kind = "static" =>
    /\ Injective(TypeTableRR) /\ Injective(ClassTable) /\ Injective(CertTypeTable) /\ Injective(AlgTable) /\ Injective(SvcKeyTable)
    /\ UpperOnly(TypeTableRR) /\ UpperOnly(ClassTable) /\ UpperOnly(CertTypeTable) /\ UpperOnly(AlgTable)
    /\ DOMAIN PresKind = DOMAIN Layout \ NoPresentation
    /\ \A t \in DOMAIN Layout : MnemonicOf(TypeTableRR, t) # <<>>                      \* every layout type has a mnemonic
    /\ \A t \in DOMAIN PresKind \ {29, 260} : PresFields(t) = LayoutFields(t) \ ImplicitFields(t)
    /\ PresFields(260) = (LayoutFields(260) \ {"GatewayType"}) \cup {"D", "GwType"}
    /\ \A t \in DOMAIN PresKind : \A i \in 1..Len(PresKind[t]) :
         PresKind[t][i].p \in RestKinds => i = Len(PresKind[t])                          \* a (rest) item is the last one
    /\ SvcKeyOf(<<107, 101, 121, 54, 53, 53, 51, 52, 61, 97>>) = 65534 /\ SvcKeyOf(<<107, 101, 121, 48, 49>>) = -1
    /\ SvcKeyOf(<<97, 108, 112, 110>>) = 1 /\ SvcKeyOf(<<65, 76, 80, 78>>) = -1

\* the record the text must denote
Denotes(r, rr) == /\ r.ok /\ r.name = rr.name /\ r.type = rr.type /\ r.class = rr.class /\ r.ttl = rr.ttl
                  /\ EncRdata(rr.type, rr.f) \in r.alts
\* damage: drop the last character; replace the first space by nothing
ChopLast(t) == Take(t, Len(t) - 1)
RecInv ==
  kind = "rec" =>
    LET rr == Recs[s]
        t1 == Write(rr, FALSE)  t2 == Write(rr, TRUE)  tg == WriteGeneric(rr)
        r1 == ReadRecord(t1, HkOf(rr)) IN
    /\ WFRdata(rr.type, rr.f)
    /\ OnlyMasterSyntax(t1) /\ OnlyMasterSyntax(tg)
    /\ Denotes(r1, rr)
    /\ (rr.type \notin {64, 65} => ~r1.amb)                                             \* only key="value" touches a quote
    /\ Denotes(ReadRecord(t2, HkOf(rr)), rr)
    /\ Denotes(ReadRecord(tg, <<>>), rr)
    /\ Denotes(ReadRecord(t1 \o <<32, 40, 32, 59, 120, 10, 41, 10>>, HkOf(rr)), rr)     \* parentheses, comment
    /\ (rr.type = 30 \/ Cardinality(r1.alts) = 1)
    /\ LET c == ReadRecord(ChopLast(tg), <<>>) IN ~c.ok \/ EncRdata(rr.type, rr.f) \notin c.alts
    /\ (rr.hkt # <<>> => ~ReadRecord(t1, <<>>).ok /\ ~ReadRecord(t1, [i \in 1..Len(rr.hkt) |-> [HkOf(rr)[i] EXCEPT !.ok = FALSE]]).ok)
    /\ ~ReadRecord(Tail(t1), HkOf(rr)).ok \/ ReadRecord(Tail(t1), HkOf(rr)).name # rr.name \/ rr.name = <<>>
=============================================================================
