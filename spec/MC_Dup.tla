------------------------------- MODULE MC_Dup -------------------------------
(* Dup.tla on itself over a small universe of abstract records                 *)
(*   [t, c, o : owner label, ttl, n : a name in the RDATA, v : another field]  *)
(* rendered to the wire (ToWire) and to text (ToText):                         *)
(*   IsDup is an equivalence, ignores TTL and letter case of owner and         *)
(*   embedded names, separates everything else;                                *)
(*   Dedup is idempotent, order-preserving, has one record per group, the      *)
(*   minimum TTL, and never merges records that are not duplicates.            *)
(* Mode "ext": two more dimensions in which records differ --                  *)
(*   a LIST in the RDATA (texts, type bitmaps, prefixes, parameters, options,  *)
(*   names ...) whose elements are dropped / repeated: records whose lists     *)
(*   differ in LENGTH -- in particular one list a proper prefix of the other,  *)
(*   or empty -- are not duplicates, in either order;                          *)
(*   every single BIT of the fixed header: a difference in any one bit of the  *)
(*   16-bit type or class separates two records (no bit of the class is a      *)
(*   flag that equality ignores), a difference in any bit of the TTL does not. *)
EXTENDS Dup

CONSTANTS Mode,      \* "pairs" (full universe) | "triples" (reduced universe) | "lists" | "ext"
          MaxList

VARIABLES x

Owners == { <<97>>, <<65>>, <<98>> }           \* a A b
RNames == { <<120>>, <<88>>, <<121>> }         \* x X y
Recs == [t : {1, 2}, c : {1, 3}, o : Owners, ttl : {1, 2}, n : RNames, v : {0, 1}]
SmallRecs == [t : {1, 2}, c : {1}, o : Owners, ttl : {1}, n : RNames, v : {0, 1}]

EncLabel(l) == << Len(l) >> \o l \o << 0 >>
ToWire(r) == [t |-> r.t, c |-> r.c, ow |-> EncLabel(r.o), rd |-> << r.v >> \o EncLabel(r.n) \o << r.v >>,
              spans |-> << << 1, Len(r.n) + 2 >> >>]
ToText(r) == [o |-> Present(<< r.o >>), c |-> r.c, t |-> r.t, rd |-> << 48 + r.v, 32 >> \o r.n \o << 46 >>, ttl |-> << 0, r.ttl >>]
D(a, b) == IsDup(ToWire(a), ToWire(b))

\* the six list symbols of the Dedup experiment
Sym == << [t |-> 1, c |-> 1, o |-> <<97>>, ttl |-> 5, n |-> <<120>>, v |-> 0],    \* r
          [t |-> 1, c |-> 1, o |-> <<97>>, ttl |-> 2, n |-> <<120>>, v |-> 0],    \* r / TTL'
          [t |-> 1, c |-> 1, o |-> <<65>>, ttl |-> 4, n |-> <<120>>, v |-> 0],    \* r / OWNER case
          [t |-> 1, c |-> 1, o |-> <<97>>, ttl |-> 3, n |-> <<88>>,  v |-> 0],    \* r / rdata-name case
          [t |-> 1, c |-> 1, o |-> <<98>>, ttl |-> 1, n |-> <<120>>, v |-> 0],    \* r2
          [t |-> 1, c |-> 1, o |-> <<97>>, ttl |-> 6, n |-> <<120>>, v |-> 1] >>  \* r3
\* owner labels for the list experiment: << r's owner, the same in the other case, another owner >>;
\* octets that the presentation form escapes sit next to the letters whose case changes
Shapes == << << <<97>>,             <<65>>,             <<98>> >>,                \* a          A          b
             << <<97, 92, 66>>,     <<65, 92, 98>>,     <<97, 92, 99>> >>,        \* a\\B       A\\b       a\\c      (an escaped backslash, then a letter)
             << <<97, 46, 66>>,     <<65, 46, 98>>,     <<97, 46, 99>> >>,        \* a\.B       A\.b       a\.c      (a dot inside the label)
             << <<97, 7, 66>>,      <<65, 7, 98>>,      <<97, 7, 99>> >>,         \* a\007B     A\007b     a\007c
             << <<92, 92, 66>>,     <<92, 92, 98>>,     <<92, 92, 99>> >>,        \* \\\\B       \\\\b       \\\\c      (two backslashes in a row)
             << <<66, 92, 92, 92>>, <<98, 92, 92, 92>>, <<99, 92, 92, 92>> >>,    \* B\\\\\\     b\\\\\\
             << <<92, 66, 34, 90>>, <<92, 98, 34, 122>>, <<92, 99, 34, 90>> >> >>  \* \\B\"Z      \\b\"z
WithOwner(r, sh) == [r EXCEPT !.o = IF r.o = <<97>> THEN Shapes[sh][1] ELSE IF r.o = <<65>> THEN Shapes[sh][2] ELSE Shapes[sh][3]]
ListOfS(q, sh) == [i \in 1..Len(q) |-> ToText(WithOwner(Sym[q[i]], sh))]
ListOf(q) == ListOfS(q, 1)

-----------------------------------------------------------------------------
(* Mode "ext", lists.  A list variant is a sequence of element numbers of a    *)
(* base list <<1, .., n>>: every subsequence (elements dropped anywhere: at    *)
(* the end -- a proper prefix --, at the front, in the middle, all of them)    *)
(* and the base list with its last / its first element once more at the end.   *)
RECURSIVE SubSeqs(_)
SubSeqs(s) == IF s = <<>> THEN { <<>> }
              ELSE LET r == SubSeqs(Tail(s)) IN r \cup { <<Head(s)>> \o q : q \in r }
Iota(n) == [i \in 1..n |-> i]
LVars(n) == SubSeqs(Iota(n)) \cup { Iota(n) \o <<n>>, Iota(n) \o <<1>> }
IsProperPrefix(p, q) == Len(p) < Len(q) /\ \A i \in 1..Len(p) : p[i] = q[i]
\* each element a one-octet character string; the list follows a value octet and a name
ListWire(l) == Concat([i \in 1..Len(l) |-> << 1, 64 + l[i] >>])
ListRec(l) == [t |-> 1, c |-> 1, ow |-> EncLabel(<<97>>), rd |-> << 0 >> \o EncLabel(<<120>>) \o ListWire(l), spans |-> << << 1, 3 >> >>]
DL(la, lb) == IsDup(ListRec(la), ListRec(lb))

(* Mode "ext", header bits.  The TTL travels as two 16-bit limbs << hi, lo >>. *)
FlipBit(v, k) == IF (v \div Pow2(k)) % 2 = 1 THEN v - Pow2(k) ELSE v + Pow2(k)
FlipTtl(tt, k) == IF k < 16 THEN << tt[1], FlipBit(tt[2], k) >> ELSE << FlipBit(tt[1], k - 16), tt[2] >>
ClassBases == {0, 1, 3, 4, 254, 255, 32769, 65535}      \* reserved, IN, CH, HS, NONE, ANY, IN with the top bit set, all ones
TypeBases  == {1, 28, 255, 65280, 65535}
TtlBases   == { <<0, 0>>, <<0, 3600>>, <<32767, 65535>>, <<65535, 65535>> }
HdrRec(t, c, tt) == [t |-> t, c |-> c, ttl |-> tt, ow |-> EncLabel(<<97>>), rd |-> << 0 >> \o EncLabel(<<120>>), spans |-> << << 1, 3 >> >>]
HdrCases == { << "class", c, k >> : c \in ClassBases, k \in 0..15 } \cup { << "type", t, k >> : t \in TypeBases, k \in 0..15 }
            \cup { << "ttl", tt, k >> : tt \in TtlBases, k \in 0..31 }
HdrA(h) == CASE h[1] = "class" -> HdrRec(1, h[2], <<0, 3600>>) [] h[1] = "type" -> HdrRec(h[2], 1, <<0, 3600>>) [] OTHER -> HdrRec(1, 1, h[2])
HdrB(h) == CASE h[1] = "class" -> HdrRec(1, FlipBit(h[2], h[3]), <<0, 3600>>) [] h[1] = "type" -> HdrRec(FlipBit(h[2], h[3]), 1, <<0, 3600>>)
             [] OTHER -> HdrRec(1, 1, FlipTtl(h[2], h[3]))

Init == \/ Mode = "pairs"   /\ \E a \in Recs, b \in Recs : x = << a, b, a >>
        \/ Mode = "triples" /\ x \in SmallRecs \X SmallRecs \X SmallRecs
        \/ Mode = "lists"   /\ \E q \in UNION { [1..k -> 1..Len(Sym)] : k \in 0..MaxList }, sh \in 1..Len(Shapes) : x = << q, sh >>
        \/ Mode = "ext"     /\ \/ \E n \in 1..3 : \E la \in LVars(n), lb \in LVars(n), lc \in LVars(n) : x = << "lens", la, lb, lc >>
                                \/ \E h \in HdrCases : x = << "hdr", h >>
Next == UNCHANGED x

SameBut(a, b, flds) == \A f \in DOMAIN a : f \in flds \/ a[f] = b[f]

Equivalence ==
  Mode \in {"pairs", "triples"} =>
    LET a == x[1]  b == x[2]  c == x[3] IN
    /\ WFWire(ToWire(a))
    /\ D(a, a)
    /\ (D(a, b) <=> D(b, a))
    /\ (D(a, b) /\ D(b, c) => D(a, c))
    \* what it ignores and what it does not
    /\ (SameBut(a, b, {"ttl"}) => D(a, b))
    /\ (SameBut(a, b, {"o", "n", "ttl"}) /\ Lower(a.o) = Lower(b.o) /\ Lower(a.n) = Lower(b.n) => D(a, b))
    /\ (a.t # b.t \/ a.c # b.c \/ a.v # b.v \/ Lower(a.o) # Lower(b.o) \/ Lower(a.n) # Lower(b.n) => ~D(a, b))
    \* lower-casing touches names only: the value octet 65..90 would be changed by a careless Lower(rd)
    /\ LET w == [ToWire(a) EXCEPT !.rd = << 65 >> \o EncLabel(a.n) \o << 90 >>] IN Key(w)[4][1] = 65 /\ Key(w)[4][Len(w.rd)] = 90

ExtProps ==
  Mode = "ext" =>
    IF x[1] = "lens" THEN
      LET la == x[2]  lb == x[3]  lc == x[4] IN
      /\ WFWire(ListRec(la))
      /\ DL(la, la) /\ (DL(la, lb) <=> DL(lb, la)) /\ (DL(la, lb) /\ DL(lb, lc) => DL(la, lc))
      /\ (DL(la, lb) <=> la = lb)
      /\ (IsProperPrefix(la, lb) => ~DL(la, lb) /\ ~DL(lb, la))           \* the shorter list first, and the longer list first
      /\ (Len(la) # Len(lb) => ~DL(la, lb))
      \* the clauses on ALL records (Dup!LawOK, judged on records without a wire form): the relation of this module satisfies
      \* them; an asymmetric answer, a record that is no duplicate of itself or of its copy do not
      /\ LawOK(la, lb, DL(la, lb), DL(lb, la), DL(la, la), DL(la, la))
      /\ ~LawOK(la, lb, TRUE, FALSE, TRUE, TRUE) /\ ~LawOK(la, lb, DL(la, lb), DL(la, lb), FALSE, TRUE) /\ ~LawOK(la, lb, DL(la, lb), DL(la, lb), TRUE, FALSE)
      /\ (la = lb => ~LawOK(la, lb, FALSE, FALSE, TRUE, TRUE))
    ELSE
      LET h == x[2]  a == HdrA(h)  b == HdrB(h) IN
      /\ WFWire(a) /\ WFWire(b)
      /\ (h[1] \in {"class", "type"} => ~IsDup(a, b) /\ ~IsDup(b, a) /\ (a.c # b.c \/ a.t # b.t))   \* any one bit, the most significant included
      /\ (h[1] = "ttl" => IsDup(a, b) /\ IsDup(b, a) /\ a.ttl # b.ttl)
      /\ \A f \in {"t", "c"} : a[f] \in 0..65535 /\ b[f] \in 0..65535

IsSubseq(s, l) == \A k \in 1..(Len(s) - 1) : s[k].i < s[k + 1].i
DedupProps ==
  Mode = "lists" =>
    LET l == ListOfS(x[1], x[2])  d == DedupIdx(l)  r == Dedup(l) IN
    /\ \A i \in 1..Len(l) : OwnerOK(l[i])
    /\ Len(d) = Cardinality({ DKey(l[i]) : i \in 1..Len(l) })            \* one per group
    /\ IsSubseq(d, l)                                                      \* original order
    /\ \A k \in 1..Len(d) : IsFirst(l, d[k].i)                             \* the first of its group
    /\ \A k \in 1..Len(d) : \A j \in Group(l, d[k].i) : ~TtlLess(l[j].ttl, d[k].ttl)   \* smallest TTL
    /\ \A k \in 1..Len(d) : \E j \in Group(l, d[k].i) : l[j].ttl = d[k].ttl
    /\ Dedup(r) = r                                                        \* idempotent
    \* records merged by Dedup are duplicates (the converse does not hold: RDATA names differing in case stay apart)
    /\ \A i, j \in 1..Len(x[1]) : DKey(l[i]) = DKey(l[j]) => D(WithOwner(Sym[x[1][i]], x[2]), WithOwner(Sym[x[1][j]], x[2]))
    \* owner case is not a difference, whatever is escaped next to the letters; anything else is
    /\ DKey(ToText(WithOwner(Sym[1], x[2]))) = DKey(ToText(WithOwner(Sym[3], x[2])))
    /\ DKey(ToText(WithOwner(Sym[1], x[2]))) # DKey(ToText(WithOwner(Sym[5], x[2])))
=============================================================================
