------------------------------- MODULE MC_Dup -------------------------------
(* Dup.tla on itself over a small universe of abstract records                 *)
(*   [t, c, o : owner label, ttl, n : a name in the RDATA, v : another field]  *)
(* rendered to the wire (ToWire) and to text (ToText):                         *)
(*   IsDup is an equivalence, ignores TTL and letter case of owner and         *)
(*   embedded names, separates everything else;                                *)
(*   Dedup is idempotent, order-preserving, has one record per group, the      *)
(*   minimum TTL, and never merges records that are not duplicates.            *)
EXTENDS Dup

CONSTANTS Mode,      \* "pairs" (full universe) | "triples" (reduced universe) | "lists"
          MaxList

VARIABLES x

Owners == { <<97>>, <<65>>, <<98>> }           \* a A b
RNames == { <<120>>, <<88>>, <<121>> }         \* x X y
Recs == [t : {1, 2}, c : {1, 3}, o : Owners, ttl : {1, 2}, n : RNames, v : {0, 1}]
SmallRecs == [t : {1, 2}, c : {1}, o : Owners, ttl : {1}, n : RNames, v : {0, 1}]

EncLabel(l) == << Len(l) >> \o l \o << 0 >>
ToWire(r) == [t |-> r.t, c |-> r.c, ow |-> EncLabel(r.o), rd |-> << r.v >> \o EncLabel(r.n) \o << r.v >>,
              spans |-> << << 1, Len(r.n) + 2 >> >>]
ToText(r) == [o |-> Present(<< r.o >>), c |-> r.c, t |-> r.t, rd |-> << 48 + r.v, 32 >> \o r.n \o << 46 >>, ttl |-> << 0, r.ttl >>]
D(a, b) == IsDup(ToWire(a), ToWire(b))

\* the six list symbols of the Dedup experiment
Sym == << [t |-> 1, c |-> 1, o |-> <<97>>, ttl |-> 5, n |-> <<120>>, v |-> 0],    \* r
          [t |-> 1, c |-> 1, o |-> <<97>>, ttl |-> 2, n |-> <<120>>, v |-> 0],    \* r / TTL'
          [t |-> 1, c |-> 1, o |-> <<65>>, ttl |-> 4, n |-> <<120>>, v |-> 0],    \* r / OWNER case
          [t |-> 1, c |-> 1, o |-> <<97>>, ttl |-> 3, n |-> <<88>>,  v |-> 0],    \* r / rdata-name case
          [t |-> 1, c |-> 1, o |-> <<98>>, ttl |-> 1, n |-> <<120>>, v |-> 0],    \* r2
          [t |-> 1, c |-> 1, o |-> <<97>>, ttl |-> 6, n |-> <<120>>, v |-> 1] >>  \* r3
\* owner labels for the list experiment: << r's owner, the same in the other case, another owner >>;
\* octets that the presentation form escapes sit next to the letters whose case changes
Shapes == << << <<97>>,             <<65>>,             <<98>> >>,                \* a          A          b
             << <<97, 92, 66>>,     <<65, 92, 98>>,     <<97, 92, 99>> >>,        \* a\\B       A\\b       a\\c      (an escaped backslash, then a letter)
             << <<97, 46, 66>>,     <<65, 46, 98>>,     <<97, 46, 99>> >>,        \* a\.B       A\.b       a\.c      (a dot inside the label)
             << <<97, 7, 66>>,      <<65, 7, 98>>,      <<97, 7, 99>> >>,         \* a\007B     A\007b     a\007c
             << <<92, 92, 66>>,     <<92, 92, 98>>,     <<92, 92, 99>> >>,        \* \\\\B       \\\\b       \\\\c      (two backslashes in a row)
             << <<66, 92, 92, 92>>, <<98, 92, 92, 92>>, <<99, 92, 92, 92>> >>,    \* B\\\\\\     b\\\\\\
             << <<92, 66, 34, 90>>, <<92, 98, 34, 122>>, <<92, 99, 34, 90>> >> >>  \* \\B\"Z      \\b\"z
WithOwner(r, sh) == [r EXCEPT !.o = IF r.o = <<97>> THEN Shapes[sh][1] ELSE IF r.o = <<65>> THEN Shapes[sh][2] ELSE Shapes[sh][3]]
ListOfS(q, sh) == [i \in 1..Len(q) |-> ToText(WithOwner(Sym[q[i]], sh))]
ListOf(q) == ListOfS(q, 1)

Init == \/ Mode = "pairs"   /\ \E a \in Recs, b \in Recs : x = << a, b, a >>
        \/ Mode = "triples" /\ x \in SmallRecs \X SmallRecs \X SmallRecs
        \/ Mode = "lists"   /\ \E q \in UNION { [1..k -> 1..Len(Sym)] : k \in 0..MaxList }, sh \in 1..Len(Shapes) : x = << q, sh >>
Next == UNCHANGED x

SameBut(a, b, flds) == \A f \in DOMAIN a : f \in flds \/ a[f] = b[f]

Equivalence ==
  Mode \in {"pairs", "triples"} =>
    LET a == x[1]  b == x[2]  c == x[3] IN
    /\ WFWire(ToWire(a))
    /\ D(a, a)
    /\ (D(a, b) <=> D(b, a))
    /\ (D(a, b) /\ D(b, c) => D(a, c))
    \* what it ignores and what it does not
    /\ (SameBut(a, b, {"ttl"}) => D(a, b))
    /\ (SameBut(a, b, {"o", "n", "ttl"}) /\ Lower(a.o) = Lower(b.o) /\ Lower(a.n) = Lower(b.n) => D(a, b))
    /\ (a.t # b.t \/ a.c # b.c \/ a.v # b.v \/ Lower(a.o) # Lower(b.o) \/ Lower(a.n) # Lower(b.n) => ~D(a, b))
    \* lower-casing touches names only: the value octet 65..90 would be changed by a careless Lower(rd)
    /\ LET w == [ToWire(a) EXCEPT !.rd = << 65 >> \o EncLabel(a.n) \o << 90 >>] IN Key(w)[4][1] = 65 /\ Key(w)[4][Len(w.rd)] = 90

IsSubseq(s, l) == \A k \in 1..(Len(s) - 1) : s[k].i < s[k + 1].i
DedupProps ==
  Mode = "lists" =>
    LET l == ListOfS(x[1], x[2])  d == DedupIdx(l)  r == Dedup(l) IN
    /\ \A i \in 1..Len(l) : OwnerOK(l[i])
    /\ Len(d) = Cardinality({ DKey(l[i]) : i \in 1..Len(l) })            \* one per group
    /\ IsSubseq(d, l)                                                      \* original order
    /\ \A k \in 1..Len(d) : IsFirst(l, d[k].i)                             \* the first of its group
    /\ \A k \in 1..Len(d) : \A j \in Group(l, d[k].i) : ~TtlLess(l[j].ttl, d[k].ttl)   \* smallest TTL
    /\ \A k \in 1..Len(d) : \E j \in Group(l, d[k].i) : l[j].ttl = d[k].ttl
    /\ Dedup(r) = r                                                        \* idempotent
    \* records merged by Dedup are duplicates (the converse does not hold: RDATA names differing in case stay apart)
    /\ \A i, j \in 1..Len(x[1]) : DKey(l[i]) = DKey(l[j]) => D(WithOwner(Sym[x[1][i]], x[2]), WithOwner(Sym[x[1][j]], x[2]))
    \* owner case is not a difference, whatever is escaped next to the letters; anything else is
    /\ DKey(ToText(WithOwner(Sym[1], x[2]))) = DKey(ToText(WithOwner(Sym[3], x[2])))
    /\ DKey(ToText(WithOwner(Sym[1], x[2]))) # DKey(ToText(WithOwner(Sym[5], x[2])))
=============================================================================
