------------------------------- MODULE MC_Dup -------------------------------
(* Dup.tla on itself over a small universe of abstract records                 *)
(*   [t, c, o : owner label, ttl, n : a name in the RDATA, v : another field]  *)
(* rendered to the wire (ToWire) and to text (ToText):                         *)
(*   IsDup is an equivalence, ignores TTL and letter case of owner and         *)
(*   embedded names, separates everything else;                                *)
(*   Dedup is idempotent, order-preserving, has one record per group, the      *)
(*   minimum TTL, and never merges records that are not duplicates.            *)
EXTENDS Dup

CONSTANTS Mode,      \* "pairs" (full universe) | "triples" (reduced universe) | "lists"
          MaxList

VARIABLES x

Owners == { <<97>>, <<65>>, <<98>> }           \* a A b
RNames == { <<120>>, <<88>>, <<121>> }         \* x X y
Recs == [t : {1, 2}, c : {1, 3}, o : Owners, ttl : {1, 2}, n : RNames, v : {0, 1}]
SmallRecs == [t : {1, 2}, c : {1}, o : Owners, ttl : {1}, n : RNames, v : {0, 1}]

EncLabel(l) == << Len(l) >> \o l \o << 0 >>
ToWire(r) == [t |-> r.t, c |-> r.c, ow |-> EncLabel(r.o), rd |-> << r.v >> \o EncLabel(r.n) \o << r.v >>,
              spans |-> << << 1, Len(r.n) + 2 >> >>]
ToText(r) == [o |-> r.o \o << 46 >>, c |-> r.c, t |-> r.t, rd |-> << 48 + r.v, 32 >> \o r.n \o << 46 >>, ttl |-> << 0, r.ttl >>]
D(a, b) == IsDup(ToWire(a), ToWire(b))

\* the six list symbols of the Dedup experiment
Sym == << [t |-> 1, c |-> 1, o |-> <<97>>, ttl |-> 5, n |-> <<120>>, v |-> 0],    \* r
          [t |-> 1, c |-> 1, o |-> <<97>>, ttl |-> 2, n |-> <<120>>, v |-> 0],    \* r / TTL'
          [t |-> 1, c |-> 1, o |-> <<65>>, ttl |-> 4, n |-> <<120>>, v |-> 0],    \* r / OWNER case
          [t |-> 1, c |-> 1, o |-> <<97>>, ttl |-> 3, n |-> <<88>>,  v |-> 0],    \* r / rdata-name case
          [t |-> 1, c |-> 1, o |-> <<98>>, ttl |-> 1, n |-> <<120>>, v |-> 0],    \* r2
          [t |-> 1, c |-> 1, o |-> <<97>>, ttl |-> 6, n |-> <<120>>, v |-> 1] >>  \* r3
ListOf(q) == [i \in 1..Len(q) |-> ToText(Sym[q[i]])]

Init == \/ Mode = "pairs"   /\ \E a \in Recs, b \in Recs : x = << a, b, a >>
        \/ Mode = "triples" /\ x \in SmallRecs \X SmallRecs \X SmallRecs
        \/ Mode = "lists"   /\ x \in UNION { [1..k -> 1..Len(Sym)] : k \in 0..MaxList }
Next == UNCHANGED x

SameBut(a, b, flds) == \A f \in DOMAIN a : f \in flds \/ a[f] = b[f]

Equivalence ==
  Mode \in {"pairs", "triples"} =>
    LET a == x[1]  b == x[2]  c == x[3] IN
    /\ WFWire(ToWire(a))
    /\ D(a, a)
    /\ (D(a, b) <=> D(b, a))
    /\ (D(a, b) /\ D(b, c) => D(a, c))
    \* what it ignores and what it does not
    /\ (SameBut(a, b, {"ttl"}) => D(a, b))
    /\ (SameBut(a, b, {"o", "n", "ttl"}) /\ Lower(a.o) = Lower(b.o) /\ Lower(a.n) = Lower(b.n) => D(a, b))
    /\ (a.t # b.t \/ a.c # b.c \/ a.v # b.v \/ Lower(a.o) # Lower(b.o) \/ Lower(a.n) # Lower(b.n) => ~D(a, b))
    \* lower-casing touches names only: the value octet 65..90 would be changed by a careless Lower(rd)
    /\ LET w == [ToWire(a) EXCEPT !.rd = << 65 >> \o EncLabel(a.n) \o << 90 >>] IN Key(w)[4][1] = 65 /\ Key(w)[4][Len(w.rd)] = 90

IsSubseq(s, l) == \A k \in 1..(Len(s) - 1) : s[k].i < s[k + 1].i
DedupProps ==
  Mode = "lists" =>
    LET l == ListOf(x)  d == DedupIdx(l)  r == Dedup(l) IN
    /\ Len(d) = Cardinality({ DKey(l[i]) : i \in 1..Len(l) })            \* one per group
    /\ IsSubseq(d, l)                                                      \* original order
    /\ \A k \in 1..Len(d) : IsFirst(l, d[k].i)                             \* the first of its group
    /\ \A k \in 1..Len(d) : \A j \in Group(l, d[k].i) : ~TtlLess(l[j].ttl, d[k].ttl)   \* smallest TTL
    /\ \A k \in 1..Len(d) : \E j \in Group(l, d[k].i) : l[j].ttl = d[k].ttl
    /\ Dedup(r) = r                                                        \* idempotent
    \* records merged by Dedup are duplicates (the converse does not hold: RDATA names differing in case stay apart)
    /\ \A i, j \in 1..Len(x) : DKey(l[i]) = DKey(l[j]) => D(Sym[x[i]], Sym[x[j]])
=============================================================================
