CONSTANTS
  MaxLabel = 63
  MaxName = 255
  MaxMsgs = 3
INIT Init
NEXT Next
INVARIANTS PolicyTotal PolicyClauses OutcomeFunction PhaseIrrelevant HistoryIrrelevant RouteInv CtrOK
CHECK_DEADLOCK FALSE
