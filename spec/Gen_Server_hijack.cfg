CONSTANTS
  Mode = "tcp"
  NStart = 1
  NLsn = 1
  NShut = 1
  NConns = 2
  MaxReq = 1
  NPkts = 0
  CtxMayExpire = TRUE
  PlainShut = {}
  DeadlinesMayFire = FALSE
  ClientMayClose = FALSE
  HandlerMayClose = FALSE
  HandlerMayHijack = TRUE
  StartMayFail = FALSE
  SpareFields = FALSE
  SeqRestart = FALSE
  Bug = "none"
  TrackAct = TRUE
INIT Init
NEXT Next

CHECK_DEADLOCK FALSE
INVARIANT Export

