CONSTANTS
  MaxLabel = 63
  MaxName = 255
INIT GInit
NEXT GNext
INVARIANT GOut
CHECK_DEADLOCK FALSE
