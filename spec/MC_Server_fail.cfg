CONSTANTS
  Mode = "tcp"
  NStart = 2
  NLsn = 1
  NShut = 2
  NConns = 1
  MaxReq = 1
  NPkts = 0
  CtxMayExpire = FALSE
  PlainShut = {}
  DeadlinesMayFire = FALSE
  ClientMayClose = FALSE
  HandlerMayClose = FALSE
  HandlerMayHijack = FALSE
  StartMayFail = TRUE
  SpareFields = FALSE
  SeqRestart = TRUE
  Bug = "none"
  TrackAct = TRUE
INIT Init
NEXT Next
VIEW View
CHECK_DEADLOCK FALSE
INVARIANTS TypeOK GracefulReturn RepliesDelivered ServeReturnsNil OneLoopPerGeneration LockDiscipline NoCrash PromptUnblock NothingLeft
PROPERTIES NoHandlerStartAfterShutdownReturned StartTwiceErrors ShutdownNotStartedErrors FailedStartLeavesStopped
