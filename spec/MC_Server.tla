------------------------------ MODULE MC_Server ------------------------------
(* Bounded exhaustive checks of Server.tla on itself.  The .cfg files:        *)
(*   MC_Server_tcp       2 conns x 2 requests, one start, one shutdown, ctx    *)
(*                       expiry, client close, handler close: all safety props *)
(*   MC_Server_tcp3      3 conns x 1 request                                   *)
(*   MC_Server_tcp_live  liveness (no VIEW, no constraint)                     *)
(*   MC_Server_pc        PacketConn/UDP loop, 3 packets; MC_Server_pc_live     *)
(*   MC_Server_twice     two start calls, two shutdown calls on one listener   *)
(*                       (only StartTwiceErrors / ShutdownNotStartedErrors /   *)
(*                       lock discipline: a restart during shutdown is possible)*)
(*   MC_Server_reseq     restart only after every call returned (SeqRestart),  *)
(*                       optionally on a fresh listener: all properties hold   *)
(*   MC_Server_restart   second start while a shutdown is in progress:         *)
(*                       EXPECTED to violate GracefulReturn / NoCrash /        *)
(*                       ShutdownTerminates (suspected defect, DESIGN section 7)*)
(* Broken variants (CONSTANT Bug) must FAIL the property named next to them;   *)
(* the driver runs them as sanity checks (checks/c13.py BROKEN).               *)
EXTENDS Server

\* every interesting action label occurs (non-vacuity, used with -coverage as well)
Reached(tag) == act # <<>> /\ act[1] = tag
=============================================================================
