--------------------------- MODULE Trace_Compress ---------------------------
(* Judges events of harness `compress' (C04).  One event = one message packed  *)
(* by the real code with Compress = true (bytesC) and false (bytesU), plus the *)
(* part streams sc / su of both computed by the harness' walker, plus -- for   *)
(* generated vectors -- the abstract message.                                  *)
(*                                                                             *)
(*   verdict  Compress!JudgeStreamsH(bytesC, bytesU, sc, su): first violated   *)
(*            clause (transparency with case, never longer, every pointer      *)
(*            below MaxOff, backwards, at a name-suffix start, none in         *)
(*            uncompressible RDATA, none at all with Compress = false, no name *)
(*            read through more than MaxPtrHops pointers).                     *)
(*            The streams are re-checked against the octets (Tiles, NameOK):   *)
(*            a stream that does not lie on the octets is "ill:...".           *)
(*   small messages (<= Small octets) are also walked by TLC itself            *)
(*            (Compress!ValidCompressedStage): the verdicts must agree and the *)
(*            walker's streams must equal TLC's (else ill: walker bug).        *)
(*   vectors  the names TLC plans for the message (WireRR!PlanMsg) must be the *)
(*            names found in bytesU (else ill: not the message meant).         *)
(*   informational: len(bytesC) against CompressLen!PackImpl over the plan     *)
(*            read off su (register 5; a deviation is logged, not a verdict).  *)
(* Registers: 2 bad events, 3 ill events <<l, why>>, 4 <<l, stage, where, type>>,     *)
(*            5 PackImpl deviations <<l, observed, predicted>>.                *)
EXTENDS Compress, TraceBase

CONSTANT Small

VARIABLE l

Ev == Trace[l]

\* where a verdict points: the offending pointer, else the name at / before the first difference
StageWhere(e, stage) ==
  LET pc == PtrBad(e.sc, TRUE)  pu == PtrBad(e.su, FALSE) IN
  IF pu # 0 THEN WhereOf(e.su, pu)
  ELSE IF stage = "pointer-chain-too-deep" THEN WhereOf(e.sc, ChainBad(e.sc))
  ELSE IF stage = "not-transparent" THEN
    LET d  == IF Len(e.sc) # Len(e.su) THEN Min(Len(e.sc), Len(e.su)) ELSE FirstDiff(e.sc, e.su, e.bytesC, e.bytesU)
        ns == { x \in 1..Len(e.sc) : x <= d /\ e.sc[x].k = "n" }
    IN IF ns = {} THEN <<"-", 0>> ELSE WhereOf(e.sc, CHOOSE x \in ns : \A y \in ns : y <= x)
  ELSE WhereOf(e.sc, pc)

\* the packing plan read off the uncompressed stream (names with their flags, the octets between them)
RECURSIVE PlanFrom(_, _, _, _)
PlanFrom(s, x, gap, acc) ==
  IF x > Len(s) THEN Append(acc, SkipItem(gap))
  ELSE IF s[x].k = "n" THEN PlanFrom(s, x + 1, 0, acc \o << SkipItem(gap), NameItem(s[x].name, s[x].c) >>)
  ELSE PlanFrom(s, x + 1, gap + (s[x].z - s[x].a), acc)
CompressibleOctets(b) == LET h == Hdr(b) IN h.qd > 1 \/ h.an + h.ns + h.ar > 0

SamePlan(s, m) ==
  LET a == PlanView(s)  b == PlanMsg(m) IN
  Len(a) = Len(b) /\ \A i \in 1..Len(a) : a[i].n = b[i].n /\ a[i].c = b[i].c

Ill(e, stage) ==
  IF stage \in {"ill:uncompressed-stream", "ill:compressed-stream"} THEN stage
  ELSE IF e.hasmsg /\ ~SamePlan(e.su, e.msg) THEN "ill:bytesU-is-not-the-message-meant"
  ELSE IF Len(e.bytesU) <= Small THEN
    LET own == ValidCompressedStageH(e.bytesC, e.bytesU)
        wu  == StreamOf(e.bytesU)  wc == StreamOf(e.bytesC) IN
    IF own # stage THEN "ill:judges-disagree:" \o own
    ELSE IF wu.ok /\ WithHints(wu.parts) # e.su THEN "ill:walker-differs-on-bytesU"
    ELSE IF wc.ok /\ WithHints(wc.parts) # e.sc THEN "ill:walker-differs-on-bytesC"
    ELSE IF wc.ok /\ stage \in {"ok", "pointer-chain-too-deep"} /\
            \E x \in 1..Len(e.sc) : e.sc[x].k = "n" /\ Hops(e.sc, x) # DecName(e.bytesC, e.sc[x].a).hops
         THEN "ill:chain-measure-differs"
    ELSE "ok"
  ELSE "ok"

Init == l = 1 /\ HWInit /\ TLCSet(3, <<>>) /\ TLCSet(4, <<>>) /\ TLCSet(5, <<>>)
Next == /\ l <= Len(Trace)
        /\ LET e == Ev
               stage == JudgeStreamsH(e.bytesC, e.bytesU, e.sc, e.su, 12)
               ill == Ill(e, stage)
               \* informational, and costly on hundreds of 238-octet names: not computed beyond 60000 octets
               pred == IF Len(e.bytesU) > 60000 THEN Len(e.bytesC)
                       ELSE PackImpl(PlanFrom(e.su, 1, 0, <<>>), 12, CompressibleOctets(e.bytesU))
           IN /\ IF ill # "ok" THEN TLCSet(3, Append(TLCGet(3), <<l, ill>>))
                 ELSE IF stage # "ok" THEN MarkBad(l) /\ TLCSet(4, Append(TLCGet(4), <<l, stage, StageWhere(e, stage)[1], StageWhere(e, stage)[2]>>))
                 ELSE TRUE
              /\ IF pred # Len(e.bytesC) THEN TLCSet(5, Append(TLCGet(5), <<l, Len(e.bytesC), pred>>)) ELSE TRUE
        /\ HW(l)
        /\ l' = l + 1

Accepted3 == /\ PrintT("VP:ill=" \o ToJson(TLCGet(3)))
             /\ PrintT("VP:stages=" \o ToJson(TLCGet(4)))
             /\ PrintT("VP:impl=" \o ToJson(TLCGet(5)))
             /\ Accepted
=============================================================================
