------------------------------ MODULE Dnssec17 ------------------------------
(* Property C17: the closed-form definitions the DNSSEC helper functions of    *)
(* dnssec.go / nsecx.go must agree with.                                       *)
(*   KeyTag        RFC 4034 Appendix B (algorithm 1 excluded)                  *)
(*   DSInput       RFC 4034 section 5.1.4: digest = H(canonical owner | RDATA) *)
(*   IH / NSEC3Hash RFC 5155 section 5: iterated salted hash                    *)
(*   Match / Cover RFC 5155 sections 7.2.x / 8.3: order predicates on hashes   *)
(*   ValidAt       RFC 4034 section 3.1.5 with RFC 1982 serial arithmetic      *)
(* Hash functions are UNINTERPRETED (DESIGN 1.3): H(x) is the free term        *)
(* constructor below; the spec fixes the octet strings fed to it and the       *)
(* iteration structure, the harness applies crypto/sha1 etc.                   *)
(* (RRSIG canonical form = C10 lives in Dnssec.tla, not here.)                 *)
EXTENDS Names

-----------------------------------------------------------------------------
(* Key tag.  RFC 4034 Appendix B:                                              *)
(*    for (ac = 0, i = 0; i < keysize; ++i)                                    *)
(*        ac += (i & 1) ? key[i] : key[i] << 8;                                *)
(*    ac += (ac >> 16) & 0xFFFF;   return ac & 0xFFFF;                         *)
(* TLC integers are 32-bit signed: ac <= 32768*65280 + 32767*255 < 2^31 for    *)
(* every RDATA of at most 65535 octets, so the plain sum is exact.             *)
KTWord(rdata, i) == IF i % 2 = 1 THEN rdata[i] * 256 ELSE rdata[i]   \* i is 1-based: odd i = even C index
RECURSIVE KTAcc(_, _)
KTAcc(rdata, i) == IF i = 0 THEN 0 ELSE KTAcc(rdata, i - 1) + KTWord(rdata, i)
KeyTag(rdata) == LET ac == KTAcc(rdata, Len(rdata)) IN (ac + ((ac \div 65536) % 65536)) % 65536

DNSKEYRdata(flags, proto, alg, key) == U16(flags) \o <<proto, alg>> \o key

-----------------------------------------------------------------------------
(* DS.  The owner name is in canonical form: uncompressed, ASCII letters in   *)
(* lower case (RFC 4034 section 6.2); nothing else is folded.                  *)
DSInput(owner, rdata) == EncName(LowerName(owner)) \o rdata
\* digest types whose value the RFCs in the statement define
DSHash(dt) == CASE dt = 1 -> "sha1" [] dt = 2 -> "sha256" [] dt = 4 -> "sha384" [] OTHER -> "none"

-----------------------------------------------------------------------------
(* NSEC3 hash.  RFC 5155 section 5:                                            *)
(*    IH(salt, x, 0) = H(x || salt)                                            *)
(*    IH(salt, x, k) = H(IH(salt, x, k-1) || salt)   for k > 0                 *)
(*    hash = IH(salt, owner name in canonical wire form, iterations)           *)
(* H is uninterpreted: a term is a flat sequence in which HOpen .. HClose      *)
(* brackets the argument of one application (a serialised free term).          *)
HOpen  == -1
HClose == -2
H(x) == <<HOpen>> \o x \o <<HClose>>
RECURSIVE IH(_, _, _)
IH(salt, x, k) == IF k = 0 THEN H(x \o salt) ELSE H(IH(salt, x, k - 1) \o salt)
NSEC3Input(name) == EncName(LowerName(name))
NSEC3Hash(name, salt, k) == IH(salt, NSEC3Input(name), k)

(* The same thing as a plan that stays small for 65535 iterations: the octets *)
(* of the first application, the suffix of every later one, and the number of *)
(* later applications.  Run gives its meaning (MC: Run(IHPlan) = IH).         *)
IHPlan(salt, x, k) == [first |-> x \o salt, salt |-> salt, rounds |-> k]
RECURSIVE Run(_, _)
Run(p, j) == IF j = 0 THEN H(p.first) ELSE H(Run(p, j - 1) \o p.salt)
NSEC3Plan(name, salt, k) == IHPlan(salt, NSEC3Input(name), k)

(* Number of H applications in a term *)
Applications(term) == Cardinality({ i \in 1..Len(term) : term[i] = HOpen })

-----------------------------------------------------------------------------
(* base32hex without padding (RFC 4648 section 7), upper case: the form of an *)
(* NSEC3 owner label / next hashed owner name in presentation format.         *)
BitsOf(o) == Concat([i \in 1..Len(o) |-> [j \in 1..8 |-> (o[i] \div Pow2(8 - j)) % 2]])
B32Char(v) == IF v < 10 THEN 48 + v ELSE 55 + v
B32Hex(o) ==
  LET b == BitsOf(o)
      n == (Len(b) + 4) \div 5
      bit(k) == IF k <= Len(b) THEN b[k] ELSE 0
  IN [g \in 1..n |-> B32Char(16 * bit(5*g - 4) + 8 * bit(5*g - 3) + 4 * bit(5*g - 2) + 2 * bit(5*g - 1) + bit(5*g))]
B32Val(c) == IF c >= 48 /\ c <= 57 THEN c - 48
             ELSE IF c >= 65 /\ c <= 86 THEN c - 55
             ELSE IF c >= 97 /\ c <= 118 THEN c - 87     \* lower case is read, never written
             ELSE -1
IsB32(t) == \A i \in 1..Len(t) : B32Val(t[i]) >= 0
B32Dec(t) ==       \* for IsB32(t): the floor(5*Len(t)/8) whole octets
  LET b == Concat([i \in 1..Len(t) |-> [j \in 1..5 |-> (B32Val(t[i]) \div Pow2(5 - j)) % 2]])
      n == Len(b) \div 8
  IN [g \in 1..n |-> SumSeq([j \in 1..8 |-> b[8*(g-1) + j] * Pow2(8 - j)])]
Upper(s) == [i \in 1..Len(s) |-> IF s[i] >= 97 /\ s[i] <= 122 THEN s[i] - 32 ELSE s[i]]
UpperName(n) == [i \in 1..Len(n) |-> Upper(n[i])]

HexVal(c) == IF c >= 48 /\ c <= 57 THEN c - 48
             ELSE IF c >= 65 /\ c <= 70 THEN c - 55
             ELSE IF c >= 97 /\ c <= 102 THEN c - 87 ELSE -1
IsHex(t) == Len(t) % 2 = 0 /\ \A i \in 1..Len(t) : HexVal(t[i]) >= 0
HexDec(t) == [g \in 1..(Len(t) \div 2) |-> 16 * HexVal(t[2*g - 1]) + HexVal(t[2*g])]

-----------------------------------------------------------------------------
(* NSEC3 Match / Cover.  Hashes are octet strings of one length, ordered as   *)
(* left-justified unsigned numbers.  o = owner hash, nx = next hashed owner,   *)
(* h = hash of the name asked about; zone = the record's owner minus its first *)
(* label.  "Strictly between in circular order":                               *)
(*    o < nx  (normal)    o < h < nx                                           *)
(*    o > nx  (last)      h > o  or  h < nx                                    *)
(*    o = nx  (one-record chain) every h except o itself                       *)
InZone(zone, n) ==
  /\ Len(zone) <= Len(n)
  /\ LowerName(Sub(n, Len(n) - Len(zone) + 1, Len(n))) = LowerName(zone)
Between(o, nx, h) ==
  IF o = nx THEN h # o
  ELSE IF LexLess(o, nx) THEN LexLess(o, h) /\ LexLess(h, nx)
  ELSE LexLess(o, h) \/ LexLess(h, nx)
Match(zone, name, o, h)     == InZone(zone, name) /\ h = o
Cover(zone, name, o, nx, h) == InZone(zone, name) /\ Between(o, nx, h)

-----------------------------------------------------------------------------
(* Signature validity.  Inception and expiration are 32-bit fields compared   *)
(* in RFC 1982 serial arithmetic (RFC 4034 section 3.1.5).  A 32-bit quantity *)
(* is a pair <<hi, lo>> of 16-bit limbs (TLC integers stop at 2^31 - 1).      *)
(* For a time t within 68 years (2^31 s) of the instants I* and E* the fields  *)
(* denote:  I* <= t  <=>  (t - I) mod 2^32 < 2^31, and likewise t <= E*.       *)
(* Only t mod 2^32 matters.                                                    *)
IsW32(a) == a[1] \in 0..65535 /\ a[2] \in 0..65535
Sub32(a, b) ==      \* (a - b) mod 2^32
  LET lo == a[2] - b[2]
      br == IF lo < 0 THEN 1 ELSE 0
      hi == a[1] - b[1] - br
  IN << (hi + 65536) % 65536, (lo + 65536) % 65536 >>
Add32(a, b) ==      \* (a + b) mod 2^32
  LET lo == a[2] + b[2]
      hi == a[1] + b[1] + (lo \div 65536)
  IN << hi % 65536, lo % 65536 >>
Half == <<32768, 0>>                         \* 2^31
NonNeg32(d) == d[1] < 32768                   \* d < 2^31
ValidAt(I, E, t) == NonNeg32(Sub32(t, I)) /\ NonNeg32(Sub32(E, t))
\* serial comparison is undefined at a distance of exactly 2^31 (RFC 1982 section 3.2)
ValidDefined(I, E, t) == Sub32(t, I) # Half /\ Sub32(E, t) # Half

-----------------------------------------------------------------------------
(* Public keys in DNSKEY RDATA and the octets an RRSIG signs -- only as much   *)
(* as the key life cycle needs: a signature made with an imported / generated  *)
(* key is checked by the standard library over THESE octets.                   *)
(* e, n, x, y: big-endian integers without leading zero octets.                *)
RSAPublicKey(e, n) ==                                         \* RFC 3110 section 2
  (IF Len(e) <= 255 THEN <<Len(e)>> ELSE <<0>> \o U16(Len(e))) \o e \o n
PadTo(x, len) == [i \in 1..(len - Len(x)) |-> 0] \o x
ECPublicKey(x, y, len) == PadTo(x, len) \o PadTo(y, len)     \* RFC 6605 section 4: fixed-width X | Y
SigHashOf(alg) == CASE alg = 5 -> "sha1" [] alg = 7 -> "sha1" [] alg = 8 -> "sha256" [] alg = 10 -> "sha512"
                    [] alg = 13 -> "sha256" [] alg = 14 -> "sha384" [] alg = 15 -> "none" [] OTHER -> "unsupported"
(* RFC 4034 section 3.1.8.1 for an RRset whose RDATA holds no names, owner not *)
(* a wildcard expansion (labels = number of labels of the owner):              *)
(*   RRSIG RDATA without signature (signer in canonical form) | RR(1) | ...     *)
(*   RR(i) = owner (canonical) | type | class | original TTL | RDLENGTH | RDATA *)
(*   in canonical RDATA order (section 6.3), duplicates removed.               *)
(* f: [tc, alg, labels, origttl, exp, inc, keytag, signer]; 32-bit fields are  *)
(* 4-octet strings.  (The general canonical form is property C10.)             *)
RRSIGRdataSans(f) ==
  U16(f.tc) \o <<f.alg, f.labels>> \o f.origttl \o f.exp \o f.inc \o U16(f.keytag) \o EncName(LowerName(f.signer))
CanonRR(owner, type, class, ttl4, rdata) ==
  EncName(LowerName(owner)) \o U16(type) \o U16(class) \o ttl4 \o U16(Len(rdata)) \o rdata
RECURSIVE SortRdata(_)
SortRdata(S) == IF S = {} THEN <<>>
                ELSE LET m == CHOOSE x \in S : \A y \in S : x = y \/ LexLess(x, y) IN <<m>> \o SortRdata(S \ {m})
RRSIGInput(f, owner, class, rdatas) ==
  LET sorted == SortRdata({ rdatas[i] : i \in 1..Len(rdatas) }) IN
  RRSIGRdataSans(f) \o Concat([i \in 1..Len(sorted) |-> CanonRR(owner, f.tc, class, f.origttl, sorted[i])])
-----------------------------------------------------------------------------
(* A second legal spelling of a name (RFC 1035 section 5.1): every octet as    *)
(* \DDD.  Names!Parse reads it back to the same labels; a letter written that  *)
(* way is still a letter of the name.                                          *)
PresentDDD(n) == IF n = <<>> THEN <<46>>
                 ELSE Concat([i \in 1..Len(n) |-> Concat([j \in 1..Len(n[i]) |-> <<92>> \o Dec3(n[i][j])]) \o <<46>>])
\* does the text spell an upper-case ASCII letter as \DDD ?  (classification only)
RECURSIVE HasEscUpper(_, _)
HasEscUpper(s, i) ==
  IF i + 3 > Len(s) THEN FALSE
  ELSE IF s[i] = 92 THEN
         IF IsDigit(s[i+1]) /\ IsDigit(s[i+2]) /\ IsDigit(s[i+3]) THEN
           LET v == 100 * (s[i+1] - 48) + 10 * (s[i+2] - 48) + (s[i+3] - 48) IN
           (v >= 65 /\ v <= 90) \/ HasEscUpper(s, i + 4)
         ELSE HasEscUpper(s, i + 2)
       ELSE HasEscUpper(s, i + 1)
(* Spellings.  The operations of the statement take a NAME and are handed its   *)
(* TEXT; RFC 1035 section 5.1 gives a name many texts: an octet stands for      *)
(* itself (unless it is special), or is written \X (X not a digit), or \DDD.    *)
(* The value of KeyTag-free operations (ToDS, HashName, Match, Cover) is a      *)
(* function of the name: every text Names!Parse reads back to the same labels   *)
(* has the same value.  In particular the LENGTH OF THE TEXT is not a property  *)
(* of the name: the limits of a name are 63 octets per label and 255 octets on  *)
(* the wire (Names!ValidName), and a name within them has texts of up to        *)
(* 4 * 250 + 4 = 1004 characters; a name whose octets all need an escape (the   *)
(* library's own presentation form of binary labels) is longer than 255         *)
(* characters from 63 octets on.  No operation may bound the text by a limit of *)
(* the wire form, nor a buffer by the length of the text.                       *)
(*   "lib"  the library's own form (Names!Present)                              *)
(*   "ddd"  every octet as \DDD                                                  *)
(*   "esc"  every printable octet that is not a digit as \X, the others as \DDD  *)
(*          (a raw octet outside ASCII is not text)                              *)
(*   "mix"  the three in turn, octet by octet                                    *)
Spellings == {"lib", "ddd", "esc", "mix"}
SpellOctet(b, how) ==
  CASE how = "ddd" -> <<92>> \o Dec3(b)
    [] how = "esc" -> IF b > 32 /\ b < 127 /\ ~IsDigit(b) THEN <<92, b>> ELSE <<92>> \o Dec3(b)
    [] OTHER       -> PresOctet(b)
SpellLabel(lab, how) ==
  Concat([j \in 1..Len(lab) |-> SpellOctet(lab[j], IF how = "mix" THEN <<"ddd", "esc", "lib">>[(j % 3) + 1] ELSE how)])
Spell(n, how) == IF n = <<>> THEN <<46>> ELSE Concat([i \in 1..Len(n) |-> SpellLabel(n[i], how) \o <<46>>])

(* A family of names that puts the length of the text where one wants it: p     *)
(* octets spread over k labels as evenly as possible (wire length p + k + 1),   *)
(* the octets of a class:                                                        *)
(*   "ctl"    0..31          every octet is \DDD in every spelling: text 4p + k  *)
(*   "high"   128..255       likewise                                            *)
(*   "punct"  the special characters, hyphen, underscore and digits in turn      *)
(*   "lower"  lower-case letters (their \DDD spelling is a pure re-spelling)     *)
(*   "letters" upper- and lower-case letters in turn                             *)
SpreadClasses == {"ctl", "high", "punct", "lower", "letters"}
PunctCycle == <<46, 92, 64, 40, 41, 59, 34, 39, 32, 45, 95, 48, 57, 33, 126>>
SpreadOctet(cls, i) ==
  CASE cls = "ctl"     -> i % 32
    [] cls = "high"    -> 128 + ((i * 7) % 128)
    [] cls = "punct"   -> PunctCycle[(i % Len(PunctCycle)) + 1]
    [] cls = "lower"   -> 97 + (i % 26)
    [] OTHER           -> IF i % 2 = 0 THEN 65 + (i % 26) ELSE 97 + (i % 26)
SpreadLens(p, k) == [i \in 1..k |-> (p \div k) + (IF i <= p % k THEN 1 ELSE 0)]
SpreadOK(p, k, extra) ==        \* a valid name with `extra' more wire octets of other labels behind it
  k >= 1 /\ k <= p /\ (p + k - 1) \div k <= MaxLabel /\ p + k + 1 + extra <= MaxName
SpreadName(p, k, cls) ==
  LET lens == SpreadLens(p, k)
      before(i) == SumSeq(Sub(lens, 1, i - 1))
  IN [i \in 1..k |-> [j \in 1..lens[i] |-> SpreadOctet(cls, before(i) + j)]]

\* finding keys for digests: one class for the \DDD spelling of upper-case letters, one for texts longer than the
\* 255 octets a NAME may have, else by hash / plain
LongText(text) == Len(text) > MaxName
DSDigestKey(hn, text)  == IF HasEscUpper(text, 1) THEN "ds/digest:escaped-uppercase"
                          ELSE "ds/digest:" \o hn \o (IF LongText(text) THEN ":text-longer-than-255" ELSE "")
HashNameKey(text, variant) == IF HasEscUpper(text, 1) THEN "nsec3/hashname:escaped-uppercase"
                              ELSE IF LongText(text) THEN "nsec3/hashname:text-longer-than-255"
                              ELSE IF variant THEN "nsec3/hashname:case-variant" ELSE "nsec3/hashname"
-----------------------------------------------------------------------------
(* Classification of a case, used only to build finding keys (one key per     *)
(* defect class, so that an unrelated failure is still reported).             *)
Shape(o, nx) == IF o = nx THEN "empty" ELSE IF LexLess(o, nx) THEN "normal" ELSE "wrapping"
Pos(o, nx, h) == IF h = o THEN "equal-owner" ELSE IF h = nx THEN "equal-next"
                 ELSE IF Between(o, nx, h) THEN "inside" ELSE "outside"
CoverClass(zone, name, o, nx, h) ==
  IF zone = <<>> THEN ":rootzone"
  ELSE IF ~InZone(zone, name) THEN ":outzone:" \o Pos(o, nx, h)
  ELSE IF h = o THEN "-equal-owner" \o (IF Shape(o, nx) = "normal" THEN "" ELSE ":" \o Shape(o, nx))
  ELSE ":" \o Shape(o, nx) \o ":" \o Pos(o, nx, h)
\* the 2^32-epoch of t + d relative to that of t: -1, 0, +1 (d in two's complement, |d| < 2^31)
Carry32(t, d) == IF (t[2] + d[2]) \div 65536 + t[1] + d[1] >= 65536 THEN 1 ELSE 0
EpochShift(t, d) == Carry32(t, d) - (IF d[1] >= 32768 THEN 1 ELSE 0)
\* te: epoch of t itself (0 = 1970..2106); I, E, t 32-bit limbs
ValidityClass(I, E, t, te) ==
  LET ie == EpochShift(t, Sub32(I, t))  ee == EpochShift(t, Sub32(E, t)) IN
  IF te = 0 /\ ie = 0 /\ ee = 0 THEN "validity/plain"
  ELSE "validity/wraparound:t" \o ToString(te) \o "/i" \o ToString(ie) \o "/e" \o ToString(ee)
-----------------------------------------------------------------------------
(* Totality.  Every operation the statement names is a FUNCTION of its         *)
(* arguments over the whole quantifier ("every key, digest type, owner name,   *)
(* salt and iteration count", "+unsupported" digest types): it returns a       *)
(* value -- "no DS" for a digest type without a definition is a value, a       *)
(* run-time panic is not.  A recorded call that panicked is therefore judged   *)
(* wrong whatever its arguments; the class names the part of the domain.       *)
DSPanicClass(dt) == IF DSHash(dt) = "none" THEN "undefined-type" ELSE DSHash(dt)
DSPanicKey(dt)   == "ds/panics:" \o DSPanicClass(dt)

-----------------------------------------------------------------------------
(* BIND private-key text ("Private-key-format: v1.x", written by BIND's        *)
(* dnssec-keygen and by PrivateKeyString, read by BIND's dst_parse.c and by    *)
(* NewPrivateKey / ReadPrivateKey).  What such a text MEANS is its set of      *)
(* fields: the text is a sequence of lines separated by LF, a line             *)
(* "Name: value" is a field, names are case-insensitive, a line without octets *)
(* is skipped, and the last line needs no LF after it (the final newline of a  *)
(* text file is not content).  The key material is the algorithm NUMBER (the   *)
(* mnemonic in parentheses after it is a comment) and the algorithm's fields;  *)
(* the format version (v1.2 / v1.3) and the v1.3 timing fields say nothing     *)
(* about the key.  Two well-formed texts with the same key fields denote the   *)
(* same private key: KeyLife17!Relay.                                          *)
(* Not claimed (the statement says "BIND private-key text", and BIND writes    *)
(* none of these): CR LF line ends, trailing blanks, ';' comments.             *)
KFMin(S) == CHOOSE i \in S : \A k \in S : i <= k
KFLines(t) ==                                   \* the lines, as a set: their order is not content
  LET nl       == { i \in 1..Len(t) : t[i] = 10 }
      startsAt == {1} \cup { i + 1 : i \in nl }
      endOf(s) == LET after == { i \in nl : i >= s } IN IF after = {} THEN Len(t) ELSE KFMin(after) - 1
  IN { Sub(t, s, endOf(s)) : s \in startsAt }
KFUpTo(v, o) == LET ps == { i \in 1..Len(v) : v[i] = o } IN IF ps = {} THEN v ELSE Sub(v, 1, KFMin(ps) - 1)
KFField(line) ==                                \* <<name in lower case, value>>; <<>> for a line that is no field
  LET cs == { i \in 1..Len(line) : line[i] = 58 } IN
  IF cs = {} THEN <<>>
  ELSE << Lower(Sub(line, 1, KFMin(cs) - 1)), Sub(line, KFMin(cs) + 2, Len(line)) >>      \* ": " = colon, one space
KFFields(t) == { KFField(ln) : ln \in KFLines(t) } \ { <<>> }

KFnFormat    == <<112, 114, 105, 118, 97, 116, 101, 45, 107, 101, 121, 45, 102, 111, 114, 109, 97, 116>>   \* private-key-format
KFnAlgorithm == <<97, 108, 103, 111, 114, 105, 116, 104, 109>>                                             \* algorithm
KFnTiming    == << <<99, 114, 101, 97, 116, 101, 100>>, <<112, 117, 98, 108, 105, 115, 104>>, <<97, 99, 116, 105, 118, 97, 116, 101>> >>  \* created publish activate
KFVersion(s) == IF s = "v1.2" THEN <<118, 49, 46, 50>> ELSE <<118, 49, 46, 51>>
KFWellFormed(t) ==
  /\ \E f \in KFFields(t) : f[1] = KFnFormat /\ f[2] \in { KFVersion("v1.2"), KFVersion("v1.3") }
  /\ \A f, g \in KFFields(t) : f[1] = g[1] => f = g                    \* a name has one value
KFKeyFields(t) ==
  { IF f[1] = KFnAlgorithm THEN << f[1], KFUpTo(f[2], 32) >> ELSE f :
      f \in { g \in KFFields(t) : g[1] # KFnFormat /\ g[1] \notin Range(KFnTiming) } }
KFSameKey(a, b) == KFWellFormed(a) /\ KFWellFormed(b) /\ KFKeyFields(a) = KFKeyFields(b)

(* The layouts in which one key's text may come back from a store or another   *)
(* tool, as TEMPLATES: the octets of the text with KFVal (-1) where the value   *)
(* of the field named on that line stands (for Algorithm: the number) and      *)
(* KFMnem (-2) for the algorithm mnemonic.  kind: "rsa" (RFC 3110 keys: eight   *)
(* fields) | "ec" (ECDSA and Ed25519: the single field PrivateKey).            *)
(* lay = [fmt, timing, mnem, blank, finalnl]: format version line; the three   *)
(* v1.3 timing fields after the key fields (BIND 9.7+ always writes them);     *)
(* the mnemonic after the algorithm number; empty lines (lead / mid / trail:   *)
(* how many before the first, between any two, after the last line); the LF    *)
(* after the last line.                                                        *)
KFVal  == -1
KFMnem == -2
KFCapFormat    == <<80>> \o Tail(KFnFormat)
KFCapAlgorithm == <<65>> \o Tail(KFnAlgorithm)
KFCapTiming    == [i \in 1..3 |-> <<KFnTiming[i][1] - 32>> \o Tail(KFnTiming[i])]
KFStamp == <<50, 48, 50, 54, 48, 49, 48, 49, 48, 48, 48, 48, 48, 48>>                      \* 20260101000000
KFKeyNames(kind) ==
  IF kind = "rsa" THEN << <<77, 111, 100, 117, 108, 117, 115>>,                                          \* Modulus
                          <<80, 117, 98, 108, 105, 99, 69, 120, 112, 111, 110, 101, 110, 116>>,         \* PublicExponent
                          <<80, 114, 105, 118, 97, 116, 101, 69, 120, 112, 111, 110, 101, 110, 116>>,   \* PrivateExponent
                          <<80, 114, 105, 109, 101, 49>>, <<80, 114, 105, 109, 101, 50>>,               \* Prime1 Prime2
                          <<69, 120, 112, 111, 110, 101, 110, 116, 49>>, <<69, 120, 112, 111, 110, 101, 110, 116, 50>>,   \* Exponent1 Exponent2
                          <<67, 111, 101, 102, 102, 105, 99, 105, 101, 110, 116>> >>                    \* Coefficient
  ELSE << <<80, 114, 105, 118, 97, 116, 101, 75, 101, 121>> >>                                           \* PrivateKey
KFBlankKinds(rich) == IF rich THEN {"none", "lead", "mid", "trail", "all", "double"} ELSE {"none", "lead", "mid", "trail"}
KFBlanks(b) == CASE b = "none" -> <<0, 0, 0>> [] b = "lead" -> <<1, 0, 0>> [] b = "mid" -> <<0, 1, 0>> [] b = "trail" -> <<0, 0, 1>>
                 [] b = "all" -> <<1, 1, 1>> [] OTHER -> <<2, 2, 2>>
KFLayouts(rich) ==
  { lay \in [fmt : {"v1.2", "v1.3"}, timing : BOOLEAN, mnem : BOOLEAN, blank : KFBlankKinds(rich), finalnl : BOOLEAN] :
      lay.timing => lay.fmt = "v1.3" }
KFTemplate(kind, lay) ==
  LET names == KFKeyNames(kind)
      field(n) == n \o <<58, 32, KFVal>>
      lines == << KFCapFormat \o <<58, 32>> \o KFVersion(lay.fmt),
                  field(KFCapAlgorithm) \o (IF lay.mnem THEN <<32, 40, KFMnem, 41>> ELSE <<>>) >>
               \o [k \in 1..Len(names) |-> field(names[k])]
               \o (IF lay.timing THEN [i \in 1..3 |-> KFCapTiming[i] \o <<58, 32>> \o KFStamp] ELSE <<>>)
      b == KFBlanks(lay.blank)
      empty(n) == [i \in 1..n |-> <<>>]
      all == empty(b[1]) \o Concat([i \in 1..Len(lines) |-> <<lines[i]>> \o (IF i < Len(lines) THEN empty(b[2]) ELSE <<>>)]) \o empty(b[3])
  IN Concat([i \in 1..Len(all) |-> all[i] \o (IF i < Len(all) \/ lay.finalnl THEN <<10>> ELSE <<>>)])
\* what every template of a kind must mean
KFTemplateFields(kind) ==
  { << KFnAlgorithm, <<KFVal>> >> } \cup { << Lower(KFKeyNames(kind)[k]), <<KFVal>> >> : k \in 1..Len(KFKeyNames(kind)) }
=============================================================================
