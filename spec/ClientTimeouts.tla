--------------------------- MODULE ClientTimeouts ---------------------------
(* The decision tables of dns.Client (client.go), each a total function.        *)
(*                                                                               *)
(* Durations are integers (milliseconds); 0 = "not set" as in the Go structs.    *)
(* A client's settings:                                                          *)
(*   s = [timeout, dial, read, write,    Client.Timeout / DialTimeout / ...      *)
(*        dialer,   -1: Client.Dialer is nil, 0: set with Timeout 0, > 0: its    *)
(*                  Timeout                                                      *)
(*        ctx]      0: the context has no deadline, > 0: time left on it when    *)
(*                  the call is made                                             *)
(*                                                                               *)
(* What the field comments of Client say:                                        *)
(*   Timeout      "a cumulative timeout for dial, write and read, defaults to 0  *)
(*                (disabled) - overrides DialTimeout, ReadTimeout, WriteTimeout  *)
(*                when non-zero.  Can be overridden with net.Dialer.Timeout ...  *)
(*                or context.Context.Deadline"                                   *)
(*   DialTimeout  "defaults to 2 seconds, or net.Dialer.Timeout if expiring      *)
(*                earlier - overridden by Timeout when that value is non-zero"   *)
(*   ReadTimeout  "net.Conn.SetReadDeadline value for connections, defaults to   *)
(*                2 seconds - overridden by Timeout when that value is non-zero" *)
(*   WriteTimeout the same for SetWriteDeadline                                  *)
(*   getTimeoutForRequest: "net.Dialer.Timeout has priority if smaller than the  *)
(*                timeouts computed so far"                                      *)
(*   ExchangeContext: "If there is both a context deadline and a configured      *)
(*                timeout on the client, the earliest of the two takes effect."  *)
(*   UDPSize      "minimum receive buffer for UDP messages"; Exchange: "adding   *)
(*                an EDNS0 OPT RR that will advertise a larger buffer ...        *)
(*                Messages without an OPT RR will fallback to the historic limit *)
(*                of 512 bytes"; ExchangeWithConnContext: "If EDNS0 is used use  *)
(*                that for size.  Otherwise use the client's configured UDP      *)
(*                size."                                                         *)
EXTENDS Integers, FiniteSets, Sequences

Default    == 2000          \* dnsTimeout = 2 * time.Second
NoDeadline == -1            \* result: no deadline at all
Kinds      == {"dial", "read", "write"}

IsSettings(s) ==
  /\ DOMAIN s = {"timeout", "dial", "read", "write", "dialer", "ctx"}
  /\ s.timeout >= 0 /\ s.dial >= 0 /\ s.read >= 0 /\ s.write >= 0 /\ s.dialer >= -1 /\ s.ctx >= 0

Min(a, b) == IF a < b THEN a ELSE b

\* Client.dialTimeout() / readTimeout() / writeTimeout()
Base(s, k) == IF s.timeout # 0 THEN s.timeout ELSE IF s[k] # 0 THEN s[k] ELSE Default

\* Client.getTimeoutForRequest(Base): the Dialer's Timeout, when set and smaller, has priority
Request(s, k) == IF s.dialer > 0 THEN Min(s.dialer, Base(s, k)) ELSE Base(s, k)

\* the earlier of a time-out (NoDeadline = none) and the context's deadline (0 = none)
Earliest(t, ctx) == IF ctx = 0 THEN t ELSE IF t = NoDeadline THEN ctx ELSE Min(t, ctx)

\* ExchangeWithConnContext: both deadlines are counted from the same instant, before any I/O
WriteDeadline(s) == Earliest(Request(s, "write"), s.ctx)
ReadDeadline(s)  == Earliest(Request(s, "read"), s.ctx)

\* DialContext: the time the dial may take.
\* AMBIG: with Client.Dialer set the code dials with a copy of that Dialer as it is (its Timeout,
\* also 0 = none, and neither Timeout nor DialTimeout); DialTimeout's comment says "or
\* net.Dialer.Timeout if expiring earlier", Timeout's "can be overridden with net.Dialer.Timeout",
\* and the package's own DialTimeout(network, address, timeout) relies on the Dialer winning.
\* Both readings are admitted.
DialDeadlines(s) ==
  IF s.dialer = -1 THEN { Earliest(Request(s, "dial"), s.ctx) }
  ELSE { Earliest(Request(s, "dial"), s.ctx),
         Earliest(IF s.dialer = 0 THEN NoDeadline ELSE s.dialer, s.ctx) }

-----------------------------------------------------------------------------
(* The receive buffer of a datagram exchange (ExchangeWithConnContext + ReadMsgHeader) *)
(*   opt      the request carries an OPT record, optsize its UDP payload size              *)
(*   client   Client.UDPSize;  conn  Conn.UDPSize before the call                          *)
MinMsgSize == 512
AtLeastMin(n) == IF n > MinMsgSize THEN n ELSE MinMsgSize

\* AMBIG: an OPT advertising less than 512 (RFC 6891 6.2.3: "MUST be treated as equal to 512"),
\* or no OPT and no usable Client.UDPSize: the code keeps the connection's own UDPSize; 512 and
\* (OPT case) the client's size are the other defensible choices.
BufSizes(opt, optsize, client, conn) ==
  IF opt /\ optsize >= MinMsgSize THEN { optsize }                          \* "If EDNS0 is used use that for size"
  ELSE IF ~opt /\ client >= MinMsgSize THEN { client }                      \* "Otherwise use the client's configured UDP size"
  ELSE IF opt THEN { AtLeastMin(conn), AtLeastMin(client), MinMsgSize }
  ELSE { AtLeastMin(conn), MinMsgSize }
=============================================================================
