----------------------------- MODULE Trace_Heap -----------------------------
(* Validates heaps recorded from the real code (harness `heap record`) against *)
(* Heap.tla.  Every event carries the operation, its arguments and the         *)
(* OBSERVED heap after it: for each live object its regions (small integers    *)
(* the harness assigns per distinct backing store, by address interval) in     *)
(* traversal order and its bookkeeping digest, and for each region the digest  *)
(* of its content.  The parameters of the Heap operation are read off the      *)
(* event; the event is accepted iff the operation is well-formed, follows the  *)
(* region discipline, its specified post-state agrees with the observed heap   *)
(* and no other object's value moved.  A rejected event is marked bad and the  *)
(* observed heap is adopted, so that one defect does not hide the next.        *)
(* Who shares memory with whom by the CALLER's doing (al) is kept by the       *)
(* specification: "alias" events (a shallow struct copy, one section assigned) *)
(* add pairs, a "copyto" event (Msg.CopyTo into a live message) removes the    *)
(* target's.                                                                   *)
EXTENDS Heap, TraceBase

VARIABLES l, S

Ev == Trace[l]

ObsMem(e) == [r \in { e.mem[k][1] : k \in 1..Len(e.mem) } |-> e.mem[CHOOSE k \in 1..Len(e.mem) : e.mem[k][1] = r][2]]
ObjIdx(e, o) == CHOOSE k \in 1..Len(e.objs) : e.objs[k].o = o
ObsLive(e) == { e.objs[k].o : k \in 1..Len(e.objs) }
Obs(e) == [slots |-> [o \in Obj |-> IF o \in ObsLive(e) THEN e.objs[ObjIdx(e, o)].s ELSE <<>>],
           bk    |-> [o \in Obj |-> IF o \in ObsLive(e) THEN e.objs[ObjIdx(e, o)].b ELSE 0],
           live  |-> ObsLive(e),
           buf   |-> e.buf,
           mem   |-> ObsMem(e),
           al    |-> {}]

\* the recorder's own well-formedness: every region it mentions has a content
WellFormed(O) == /\ O.live \subseteq Obj
                 /\ O.buf \in DOMAIN O.mem
                 /\ \A o \in O.live : Range(O.slots[o]) \subseteq DOMAIN O.mem

\* the specified post-state P agrees with the observed heap O (O mentions only the
\* regions still reachable; P remembers every region ever allocated)
Agree(P, O) == /\ O.live = P.live /\ O.buf = P.buf
               /\ \A o \in O.live : O.slots[o] = P.slots[o] /\ O.bk[o] = P.bk[o]
               /\ \A r \in DOMAIN O.mem : r \in DOMAIN P.mem /\ P.mem[r] = O.mem[r]

\* al after the event, as the specification has it (an ill-formed alias / copyto leaves it as it was)
AliasP(e, O)  == [x |-> e.x, y |-> e.y, ns |-> O.slots[e.y]]
CopyToP(e, O) == [x |-> e.x, t |-> e.y, ns |-> O.slots[e.y]]
NextAl(e, O) == CASE e.ev = "reset" -> {}
                  [] e.ev = "alias"  /\ e.x \in S.live /\ Len(O.slots[e.y]) = Len(S.slots[e.x]) -> AliasPost(S, AliasP(e, O)).al
                  [] e.ev = "copyto" /\ e.x \in S.live /\ Len(O.slots[e.y]) = Len(S.slots[e.x]) -> CopyToPost(S, CopyToP(e, O)).al
                  [] OTHER -> S.al
Adopt(O) == [O EXCEPT !.mem = [r \in DOMAIN S.mem \cup DOMAIN O.mem |-> IF r \in DOMAIN O.mem THEN O.mem[r] ELSE S.mem[r]],
                      !.al = NextAl(Ev, O)]

Judge(e, O) ==
  CASE e.ev = "reset" -> Disjoint(O)
    [] e.ev = "copy" ->
         LET p == [x |-> e.x, y |-> e.y, ns |-> O.slots[e.y]] IN
         /\ CopyShape(S, p) /\ CopyDisc(S, p)
         /\ Agree(CopyPost(S, p), O) /\ NonInterf(S, O, {})
    [] e.ev = "unpack" ->
         LET ns == O.slots[e.y]
             p  == [y |-> e.y, ns |-> ns, cs |-> [i \in 1..Len(ns) |-> O.mem[ns[i]]], b |-> O.bk[e.y]] IN
         /\ UnpackShape(S, p) /\ UnpackDisc(S, p)
         /\ Agree(UnpackPost(S, p), O) /\ NonInterf(S, O, {})
    [] e.ev = "alias" ->
         LET p == AliasP(e, O) IN
         /\ AliasShape(S, p) /\ AliasDisc(S, p)
         /\ Agree(AliasPost(S, p), O) /\ NonInterf(S, O, {})
    [] e.ev = "copyto" ->
         LET p == CopyToP(e, O) IN
         /\ CopyToShape(S, p) /\ CopyToDisc(S, p)
         /\ Agree(CopyToPost(S, p), O) /\ NonInterf(S, O, {e.y})
    [] e.ev = "mutate" ->
         /\ e.r \in DOMAIN O.mem /\ e.x \in O.live /\ e.x \in S.live
         /\ LET p == [x |-> e.x, r |-> e.r, c |-> O.mem[e.r], b |-> O.bk[e.x], pb |-> [o \in Sharers(S, e.x, e.r) |-> O.bk[o]]] IN
            /\ MutateShape(S, p)
            /\ Agree(MutatePost(S, p), O) /\ NonInterf(S, O, Targets(S, "mutate", p))
    [] e.ev = "scribble" ->
         /\ S.buf # 0
         /\ LET p == [c |-> O.mem[S.buf]] IN
            /\ ScribbleShape(S, p)
            /\ Agree(ScribblePost(S, p), O) /\ NonInterf(S, O, {})
    [] e.ev = "ro" ->
         LET xs == { e.xs[k] : k \in 1..Len(e.xs) }
             p  == [op |-> e.op, xs |-> xs, nb |-> [o \in ROArgs(S, xs) |-> O.bk[o]]] IN
         /\ xs \subseteq O.live /\ xs \subseteq S.live
         /\ ROShape(S, p)
         /\ Agree(ROPost(S, p), O) /\ OnlyBk(S, Adopt(O), ROArgs(S, xs)) /\ NonInterf(S, O, {})
    [] e.ev = "newbuf" ->
         LET p == [r |-> O.buf, c |-> O.mem[O.buf]] IN
         /\ NewBufDisc(S, p) /\ Agree(NewBufPost(S, p), O) /\ NonInterf(S, O, {})
    [] OTHER -> FALSE

Empty == [slots |-> [o \in Obj |-> <<>>], bk |-> [o \in Obj |-> 0], live |-> {}, buf |-> 0, mem |-> <<>>, al |-> {}]

Init == l = 1 /\ S = Empty /\ HWInit
Next == /\ l <= Len(Trace)
        /\ LET O == Obs(Ev) IN
           /\ Assert(WellFormed(O), <<"malformed event", l>>)
           /\ IF Judge(Ev, O) THEN TRUE ELSE MarkBad(l)
           /\ S' = IF Ev.ev = "reset" THEN O ELSE Adopt(O)
        /\ HW(l)
        /\ l' = l + 1
=============================================================================
