----------------------------- MODULE Trace_Heap -----------------------------
(* Validates heaps recorded from the real code (harness `heap record`) against *)
(* Heap.tla.  Every event carries the operation, its arguments and the         *)
(* OBSERVED heap after it: for each live object its regions (small integers    *)
(* the harness assigns per distinct backing store, by address interval) in     *)
(* traversal order and its bookkeeping digest, and for each region the digest  *)
(* of its content.  The parameters of the Heap operation are read off the      *)
(* event; the event is accepted iff the operation is well-formed, follows the  *)
(* region discipline, its specified post-state agrees with the observed heap   *)
(* and no other object's value moved.  A rejected event is marked bad and the  *)
(* observed heap is adopted, so that one defect does not hide the next.        *)
EXTENDS Heap, TraceBase

VARIABLES l, S

Ev == Trace[l]

ObsMem(e) == [r \in { e.mem[k][1] : k \in 1..Len(e.mem) } |-> e.mem[CHOOSE k \in 1..Len(e.mem) : e.mem[k][1] = r][2]]
ObjIdx(e, o) == CHOOSE k \in 1..Len(e.objs) : e.objs[k].o = o
ObsLive(e) == { e.objs[k].o : k \in 1..Len(e.objs) }
Obs(e) == [slots |-> [o \in Obj |-> IF o \in ObsLive(e) THEN e.objs[ObjIdx(e, o)].s ELSE <<>>],
           bk    |-> [o \in Obj |-> IF o \in ObsLive(e) THEN e.objs[ObjIdx(e, o)].b ELSE 0],
           live  |-> ObsLive(e),
           buf   |-> e.buf,
           mem   |-> ObsMem(e)]

\* the recorder's own well-formedness: every region it mentions has a content
WellFormed(O) == /\ O.live \subseteq Obj
                 /\ O.buf \in DOMAIN O.mem
                 /\ \A o \in O.live : Range(O.slots[o]) \subseteq DOMAIN O.mem

\* the specified post-state P agrees with the observed heap O (O mentions only the
\* regions still reachable; P remembers every region ever allocated)
Agree(P, O) == /\ O.live = P.live /\ O.buf = P.buf
               /\ \A o \in O.live : O.slots[o] = P.slots[o] /\ O.bk[o] = P.bk[o]
               /\ \A r \in DOMAIN O.mem : r \in DOMAIN P.mem /\ P.mem[r] = O.mem[r]

Adopt(O) == [O EXCEPT !.mem = [r \in DOMAIN S.mem \cup DOMAIN O.mem |-> IF r \in DOMAIN O.mem THEN O.mem[r] ELSE S.mem[r]]]

Judge(e, O) ==
  CASE e.ev = "reset" -> Disjoint(O)
    [] e.ev = "copy" ->
         LET p == [x |-> e.x, y |-> e.y, ns |-> O.slots[e.y]] IN
         /\ CopyShape(S, p) /\ CopyDisc(S, p)
         /\ Agree(CopyPost(S, p), O) /\ NonInterf(S, O, {})
    [] e.ev = "unpack" ->
         LET ns == O.slots[e.y]
             p  == [y |-> e.y, ns |-> ns, cs |-> [i \in 1..Len(ns) |-> O.mem[ns[i]]], b |-> O.bk[e.y]] IN
         /\ UnpackShape(S, p) /\ UnpackDisc(S, p)
         /\ Agree(UnpackPost(S, p), O) /\ NonInterf(S, O, {})
    [] e.ev = "mutate" ->
         /\ e.r \in DOMAIN O.mem /\ e.x \in O.live
         /\ LET p == [x |-> e.x, r |-> e.r, c |-> O.mem[e.r], b |-> O.bk[e.x]] IN
            /\ MutateShape(S, p)
            /\ Agree(MutatePost(S, p), O) /\ NonInterf(S, O, {e.x})
    [] e.ev = "scribble" ->
         /\ S.buf # 0
         /\ LET p == [c |-> O.mem[S.buf]] IN
            /\ ScribbleShape(S, p)
            /\ Agree(ScribblePost(S, p), O) /\ NonInterf(S, O, {})
    [] e.ev = "ro" ->
         LET xs == { e.xs[k] : k \in 1..Len(e.xs) }
             p  == [op |-> e.op, xs |-> xs, nb |-> [o \in xs |-> O.bk[o]]] IN
         /\ xs \subseteq O.live
         /\ ROShape(S, p)
         /\ Agree(ROPost(S, p), O) /\ OnlyBk(S, Adopt(O), xs) /\ NonInterf(S, O, {})
    [] e.ev = "newbuf" ->
         LET p == [r |-> O.buf, c |-> O.mem[O.buf]] IN
         /\ NewBufDisc(S, p) /\ Agree(NewBufPost(S, p), O) /\ NonInterf(S, O, {})
    [] OTHER -> FALSE

Empty == [slots |-> [o \in Obj |-> <<>>], bk |-> [o \in Obj |-> 0], live |-> {}, buf |-> 0, mem |-> <<>>]

Init == l = 1 /\ S = Empty /\ HWInit
Next == /\ l <= Len(Trace)
        /\ LET O == Obs(Ev) IN
           /\ Assert(WellFormed(O), <<"malformed event", l>>)
           /\ IF Judge(Ev, O) THEN TRUE ELSE MarkBad(l)
           /\ S' = IF Ev.ev = "reset" THEN O ELSE Adopt(O)
        /\ HW(l)
        /\ l' = l + 1
=============================================================================
