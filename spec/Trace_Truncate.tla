--------------------------- MODULE Trace_Truncate ---------------------------
(* Judges the facts recorded from the real Truncate + real Pack with the       *)
(* relation of Truncate.tla.  Register 2 collects <<line, failed clauses>>.    *)
EXTENDS Truncate, TraceBase

VARIABLE l
Ev == Trace[l]

Init == l = 1 /\ HWInit
Next == /\ l <= Len(Trace)
        /\ LET bad == Failed(Ev) IN
           IF bad = {} THEN TRUE ELSE TLCSet(2, Append(TLCGet(2), <<l, bad>>))
        /\ HW(l)
        /\ l' = l + 1
=============================================================================
