CONSTANTS
  MinSize = 512
INIT Init
NEXT Next
POSTCONDITION Accepted
CHECK_DEADLOCK FALSE
