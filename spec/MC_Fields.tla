------------------------------ MODULE MC_Fields ------------------------------
(* Fields.tla on itself: the API field table against the layout for every type  *)
(* of the registry, and the readers against independent writers on boundary     *)
(* values (one case per state).                                                 *)
EXTENDS Fields

VARIABLES kd, x

Rep(n, o) == [i \in 1..n |-> o]
Esc(v) == Concat([i \in 1..Len(v) |-> IF v[i] \in {34, 92} THEN <<92, v[i]>>
                                       ELSE IF v[i] < 32 \/ v[i] > 126 THEN <<92>> \o Dec3(v[i]) ELSE <<v[i]>>])
Blobs == { <<>>, <<0>>, <<255>>, <<1, 2>>, <<1, 2, 3>>, <<92, 34, 92, 48, 54, 53, 59, 0, 255>>, <<32>>, <<32, 32>>, <<97, 32, 98>>,
           [i \in 1..40 |-> (i * 7 + 3) % 256], <<222, 173, 190, 239, 0>> }
NamesB == { <<>>, << <<97>> >>, << <<119, 119, 119>>, <<101, 120>> >>, << <<97, 46, 98>> >>, << <<92>> >>, << <<32, 34, 59>>, <<0, 255>> >>,
            << <<97, 32, 98>> >> }
V6s == { Rep(16, 0), Rep(15, 0) \o <<1>>, [i \in 1..16 |-> i], Rep(10, 0) \o <<255, 255, 1, 2, 3, 4>>, <<32, 1, 13, 184>> \o Rep(12, 0) }

Init == \/ kd = "type" /\ x \in DOMAIN Layout
        \/ kd = "blob" /\ x \in Blobs
        \/ kd = "name" /\ x \in NamesB
        \/ kd = "strs" /\ x \in { <<a, b>> : a \in Blobs, b \in Blobs } \cup { <<a>> : a \in Blobs } \cup { <<a, a, a>> : a \in {<<>>, <<32>>, <<97>>} }
        \/ kd = "names" /\ x \in { <<a, b>> : a \in NamesB, b \in NamesB } \cup { <<>> }
        \/ kd = "int" /\ x \in {0, 1, 9, 10, 255, 256, 65535}
        \/ kd = "v6" /\ x \in V6s
        \/ kd = "types" /\ x \in { <<>>, <<1>>, <<1, 2, 6, 15, 46, 47, 48>>, <<11, 22>>, <<0>>, <<65535, 1>>, <<255, 256, 1234>> }
Next == UNCHANGED << kd, x >>

Gateways(t) == Cardinality({ i \in 1..Len(FieldsOf(t)) : FieldsOf(t)[i].k = "gateway" })
TypeInv == kd = "type" =>
  /\ NumField(x) = Len(FieldsOf(x)) + Gateways(x)
  /\ \A i \in 1..NumField(x) : GoFields(x)[i].k # "gateway"
  /\ (x \in {128, 255} => NumField(x) = 0) /\ (x = 1 => NumField(x) = 1) /\ (x = 6 => NumField(x) = 7)
  /\ (x = 45 => NumField(x) = 6 /\ GoFields(x)[4].n = "GatewayAddr" /\ GoFields(x)[5].n = "GatewayHost" /\ GoFields(x)[6].n = "PublicKey")
  /\ (x = 260 => NumField(x) = 4)
  /\ FieldOK(x, 0, [n |-> ""], 0, 0, [panic |-> FALSE, text |-> <<>>])
  /\ ~FieldOK(x, 0, [n |-> ""], 0, 0, [panic |-> FALSE, text |-> <<48>>])
  /\ FieldOK(x, NumField(x) + 1, [n |-> ""], 0, 0, [panic |-> TRUE, text |-> <<>>])
  /\ ~FieldOK(x, NumField(x) + 1, [n |-> ""], 0, 0, [panic |-> FALSE, text |-> <<>>])
  /\ FieldOK(x, -1, [n |-> ""], 0, 0, [panic |-> TRUE, text |-> <<>>])

BlobInv == kd = "blob" =>
  /\ StrDenotes(Esc(x), x)
  /\ HexDenotes(HexEnc(x, FALSE), x) /\ HexDenotes(HexEnc(x, TRUE), x) /\ (x # <<>> => ~HexDenotes(Tail(HexEnc(x, FALSE)), x))
  /\ B64Denotes(B64Enc(x), x) /\ B32Denotes(B32Enc(x, TRUE), x) /\ B32Denotes(B32Enc(x, FALSE), x)
  /\ (x # <<>> => ~B64Denotes(B64Enc(Tail(x)), x))
  /\ FieldTextOK([k |-> "raw"], x, 0, x)
  /\ FieldTextOK([k |-> "ostr"], <<>>, 0, <<>>) /\ FieldTextOK([k |-> "ostr"], <<x>>, 0, Esc(x))
  /\ FieldTextOK([k |-> "apl"], <<>>, 0, <<>>) /\ ~FieldTextOK([k |-> "apl"], <<1>>, 0, <<>>)

NameInv == kd = "name" =>
  /\ NameDenotes(Present(x), x)
  /\ (x # <<>> => ~NameDenotes(SubSeq(Present(x), 1, Len(Present(x)) - 1), x))        \* not fully qualified
  /\ FieldTextOK([k |-> "gwhost"], x, 3, Present(x)) /\ FieldTextOK([k |-> "gwhost"], <<>>, 0, <<>>)

StrsInv == kd = "strs" =>
  LET t == JoinSp([i \in 1..Len(x) |-> Esc(x[i])]) IN
  /\ ListDenotes(t, x, "str")
  /\ ~ListDenotes(t \o <<32>>, x, "str") \/ (\E i \in 1..Len(x) : x[i] = <<>> \/ x[i][Len(x[i])] = 32 \/ x[i][1] = 32) \/ Len(x) = 1
  /\ (Len(x) = 2 /\ \A i \in 1..2 : \A j \in 1..Len(x[i]) : x[i][j] # 32 /\ x[i][j] # 44)
        => ~ListDenotes(Esc(x[1]) \o <<44>> \o Esc(x[2]), x, "str")                      \* joined by a comma

NamesInv == kd = "names" =>
  /\ ListDenotes(JoinSp([i \in 1..Len(x) |-> Present(x[i])]), x, "name")
  /\ (Len(x) = 2 => ~ListDenotes(Present(x[1]) \o Present(x[2]), x, "name") \/ x[2] = <<>> \/ x[1] = <<>>)

IntInv == kd = "int" => /\ FieldTextOK([k |-> "u16"], x, 0, DecOfInt(x))
                       /\ ~FieldTextOK([k |-> "u16"], x, 0, <<48>> \o DecOfInt(x))
                       /\ FieldTextOK([k |-> "u32"], U32(x), 0, DecOfInt(x))
                       /\ FieldTextOK([k |-> "u64"], <<0, 0, 0, 0>> \o U32(x), 0, DecOfInt(x))
                       /\ FieldTextOK([k |-> "u48"], Rep(6, 255), 0, <<50, 56, 49, 52, 55, 52, 57, 55, 54, 55, 49, 48, 54, 53, 53>>)   \* 2^48 - 1
                       /\ FieldTextOK([k |-> "a"], <<192, 0, 2, x % 256>>, 0, <<49, 57, 50, 46, 48, 46, 50, 46>> \o DecOfInt(x % 256))

V6Inv == kd = "v6" =>
  /\ V6Denotes(Rv!ShortText(x), x)
  /\ ~V6Denotes(Quad(SubSeq(x, 13, 16)), x)                          \* a dotted quad is no IPv6 text
  /\ FieldTextOK([k |-> "gwaddr"], x, 2, Rv!ShortText(x)) /\ FieldTextOK([k |-> "gwaddr"], <<>>, 0, <<>>)
  /\ ~FieldTextOK([k |-> "gwaddr"], x, 2, <<60, 117, 105, 110, 116, 56, 32, 86, 97, 108, 117, 101, 62>>)

A(s) == s
TypesInv == kd = "types" =>
  LET words == [i \in 1..Len(x) |-> IF MnemonicOf(TypeTableRR, x[i]) # <<>> THEN MnemonicOf(TypeTableRR, x[i]) ELSE kTYPEtext \o DecOfInt(x[i])] IN
  /\ TypesDenote(JoinSp(words), x)
  /\ TypesDenote(JoinSp([i \in 1..Len(x) |-> kTYPEtext \o DecOfInt(x[i])]), x)
  /\ (Len(x) >= 2 => ~TypesDenote(JoinSp(Tail(words)), x))
  /\ (x = <<1>> => ~TypesDenote(<<78, 83>>, x))
  /\ IsPlaceholder(<<60, 117, 105, 110, 116, 56, 32, 86, 97, 108, 117, 101, 62>>)
  /\ HasPlaceholder(<<60, 100, 32, 86, 97, 108, 117, 101, 62, 32, 60, 100, 32, 86, 97, 108, 117, 101, 62>>)
  /\ ~HasPlaceholder(<<49, 58, 49, 48, 46, 48, 46, 48, 46, 48, 47, 56>>)
=============================================================================
