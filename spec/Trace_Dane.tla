----------------------------- MODULE Trace_Dane -----------------------------
(* Events recorded from the real code (harness `dane record`), judged by        *)
(* Dane.tla.  Every event carries its certificate (raw, spki) and the digest    *)
(* table the binding computed for it.  Pure functions.                          *)
(*  dane      CertificateToDANE(sel, mt, cert) -> ok, text                      *)
(*  sign      TLSA|SMIMEA.Sign(usage, sel, mt, cert) -> ok, the record's fields *)
(*  verify    TLSA|SMIMEA.Verify(cert) on a record [sel, mt, text] -> ok        *)
(*  tlsaname  TLSAName(name, service, network) -> ok, text                      *)
(*  smimeaname SMIMEAName(local, domain) -> ok, text                            *)
EXTENDS Dane, TraceBase

VARIABLE l
Ev == Trace[l]

Tab(e) == { [alg |-> x.alg, pre |-> x.pre, dig |-> x.dig] : x \in Range(e.table) }
Needs(e, sel, mt, c) == mt = 0 \/ ~Supported(sel, mt) \/ HasDigest(Tab(e), MatchAlg(mt), Selected(sel, c))

DaneOK(e) ==
  /\ Needs(e, e.sel, e.mt, e.cert)
  /\ LET r == CertificateToDANE(Tab(e), e.sel, e.mt, e.cert) IN e.ok = r.ok /\ (r.ok => e.text = r.text)

SignOK(e) ==
  /\ Needs(e, e.sel, e.mt, e.cert)
  /\ IF e.ok THEN /\ SignMaySucceed(e.usage, e.sel, e.mt)
                  /\ LET s == Sign(Tab(e), e.rrtype, e.usage, e.sel, e.mt, e.cert) IN
                     /\ e.rec.rrtype = s.rrtype /\ e.rec.usage = s.usage /\ e.rec.selector = s.selector
                     /\ e.rec.matching = s.matching /\ e.rec.text = s.text
                  /\ e.hdrsame                      \* owner, class and TTL are the caller's
     ELSE SignMayFail(e.usage, e.sel, e.mt)

VerifyOK(e) ==
  /\ Needs(e, e.sel, e.mt, e.cert)
  /\ e.ok = Verify(Tab(e), e.sel, e.mt, e.text, e.cert)

TlsaNameOK(e) ==
  ~TLSANameDefined(e.service, e.svcname, e.netname) \/
  LET r == TLSAName(e.name, e.service, e.svcname, e.netname, e.network) IN
  e.ok = r.ok /\ (r.ok => e.text = r.text)

SmimeaNameOK(e) ==
  /\ HasDigest(Tab(e), "sha256", e.local)
  /\ LET r == SMIMEAName(Tab(e), e.local, e.domain) IN
     IF e.ok THEN e.text = r.text ELSE SMIMEAMayFail(e.domain)

Judge(e) == CASE e.ev = "dane"       -> DaneOK(e)
              [] e.ev = "sign"       -> SignOK(e)
              [] e.ev = "verify"     -> VerifyOK(e)
              [] e.ev = "tlsaname"   -> TlsaNameOK(e)
              [] e.ev = "smimeaname" -> SmimeaNameOK(e)
              [] OTHER -> FALSE

Init == l = 1 /\ HWInit
Next == /\ l <= Len(Trace)
        /\ IF Judge(Ev) THEN TRUE ELSE MarkBad(l)
        /\ HW(l)
        /\ l' = l + 1
=============================================================================
