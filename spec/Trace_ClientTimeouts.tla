------------------------- MODULE Trace_ClientTimeouts -------------------------
(* Events recorded from the real client with RANDOM numeric settings (harness   *)
(* `clienttimeouts record`), judged by ClientTimeouts.tla.  Pure functions.      *)
(*  xchg  [s, wdl, rdl]   ExchangeWithConnContext on an in-memory connection:   *)
(*        the deadlines in force at its first Write / first Read, as set        *)
(*        relative to the clock at the Set*Deadline call, snapped to the        *)
(*        nearest of the durations involved (-1 = none, -2 = nothing near)      *)
(*  dial  [s, dl]         DialContext: the deadline the dial ran under          *)
(*  buf   [opt, optsize, client, conn, size]   len(p) of the datagram Read      *)
EXTENDS ClientTimeouts, TraceBase

VARIABLE l
Ev == Trace[l]

Judge(e) ==
  CASE e.ev = "xchg" -> IsSettings(e.s) /\ e.wdl = WriteDeadline(e.s) /\ e.rdl = ReadDeadline(e.s)
    [] e.ev = "dial" -> IsSettings(e.s) /\ e.dl \in DialDeadlines(e.s)
    [] e.ev = "buf"  -> e.size \in BufSizes(e.opt, e.optsize, e.client, e.conn)
    [] OTHER -> FALSE

Init == l = 1 /\ HWInit
Next == /\ l <= Len(Trace)
        /\ IF Judge(Ev) THEN TRUE ELSE MarkBad(l)
        /\ HW(l)
        /\ l' = l + 1
=============================================================================
