CONSTANTS
  Mode = "tcp"
  NStart = 2
  NLsn = 1
  NShut = 2
  NConns = 1
  MaxReq = 1
  NPkts = 0
  CtxMayExpire = FALSE
  PlainShut = {}
  DeadlinesMayFire = FALSE
  ClientMayClose = FALSE
  HandlerMayClose = FALSE
  HandlerMayHijack = FALSE
  StartMayFail = FALSE
  SpareFields = FALSE
  SeqRestart = FALSE
  Bug = "none"
  TrackAct = TRUE
INIT Init
NEXT Next

CHECK_DEADLOCK FALSE
INVARIANT Export

