---------------------------- MODULE MC_KeyLife17 ----------------------------
(* All behaviours of KeyLife17 with at most MaxOps operations. The NonVacuous* *)
(* "invariants" are meant to FAIL when checked alone (they are checked through  *)
(* their negation being reachable: see Reach below).                           *)
EXTENDS KeyLife17

\* reachability witnesses, recorded in TLC registers by an always-true invariant
Witness ==
  /\ (\E n \in 1..Len(hist) : hist[n].op = "verify" /\ hist[n].ok /\ hs[ss[hist[n].s].by].origin = "imp") => TLCSet(11, TRUE)
  /\ (\E n \in 1..Len(hist) : hist[n].op = "verify" /\ ~hist[n].ok) => TLCSet(12, TRUE)
  /\ (\E i \in 1..Len(hs) : hs[i].origin = "imp" /\ ts[hs[i].text].from # 0 /\ hs[ts[hs[i].text].from].origin = "imp") => TLCSet(13, TRUE)
  /\ (\E n \in 1..Len(hist) : hist[n].op = "verify" /\ hist[n].ok /\ hist[n].key \in Provided) => TLCSet(14, TRUE)
  /\ (\E n \in 1..Len(hist) : hist[n].op = "verify" /\ ~hist[n].ok /\ hist[n].key \in Provided) => TLCSet(15, TRUE)
  \* a signature by a handle read from a RELAYED text verifies under its key, and fails under the other key
  /\ (\E n \in 1..Len(hist) : hist[n].op = "verify" /\ hist[n].ok /\ LET h == hs[ss[hist[n].s].by] IN h.origin = "imp" /\ ts[h.text].copy # 0) => TLCSet(16, TRUE)
  /\ (\E n \in 1..Len(hist) : hist[n].op = "verify" /\ ~hist[n].ok /\ LET h == hs[ss[hist[n].s].by] IN h.origin = "imp" /\ ts[h.text].copy # 0) => TLCSet(17, TRUE)
  /\ (\E j \in 1..Len(ts) : ts[j].copy # 0 /\ ts[ts[j].copy].copy # 0) => TLCSet(18, TRUE)                 \* a copy of a copy
\* (the registers are per worker: this model is checked with -workers 1)
MCInit == Init /\ TLCSet(11, FALSE) /\ TLCSet(12, FALSE) /\ TLCSet(13, FALSE) /\ TLCSet(14, FALSE) /\ TLCSet(15, FALSE)
          /\ TLCSet(16, FALSE) /\ TLCSet(17, FALSE) /\ TLCSet(18, FALSE)
NonVacuous == TLCGet(11) /\ TLCGet(12) /\ TLCGet(13) /\ TLCGet(14) /\ TLCGet(15) /\ TLCGet(16) /\ (MaxOps < 6 \/ TLCGet(17)) /\ TLCGet(18)     \* 17 needs six operations (thorough tier)
=============================================================================
