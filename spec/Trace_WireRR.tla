--------------------------- MODULE Trace_WireRR ---------------------------
(* Validates events recorded from the real packer / unpacker (harness `wire    *)
(* record`) against WireRR.  One event = one random abstract message `msg'     *)
(* with what the library made of it:                                           *)
(*   packed, bytes       Pack() succeeded / its octets                          *)
(*   unpacked, msg2      Unpack(bytes) succeeded / its projection               *)
(*   repacked, rebytes   Unpack(bytes).Pack()                                   *)
(*   inputfree           msg2 reads the same after the buffer it was decoded     *)
(*                       from was overwritten (rebytes is packed after that)     *)
(*   reusedsame          Unpack(bytes) into a Msg that decoded a rich message    *)
(*                       before projects to msg2 as well; heldsame: the message  *)
(*                       decoded at start-up and held since still reads the same *)
(*   pbufok, pbufsame    PackBuffer into a buffer pre-filled with 0xff gave the  *)
(*                       octets of Pack(); rrsame: so did PackRR record by record*)
(* The specification decides: bytes = EncMsg(msg), msg2 = NormMsg(msg),         *)
(* rebytes = bytes; a message that cannot be packed must have been refused.     *)
(* Pure-function events: a wrong one is marked bad and the cursor moves on;     *)
(* the first clause it violates is reported as VP:stages=[[index, clause],..]   *)
(* (register 4) and becomes part of the finding key.                            *)
(* An ill-formed msg is a harness bug: collected in register 3, reported as     *)
(* VP:ill=[...] and turned into an infrastructure error by the driver.          *)
EXTENDS WireRR, TraceBase

VARIABLE l

Ev == Trace[l]

Stage(e) ==        \* "ok" or the first clause the event violates
  LET m == e.msg IN
  IF ~Packable(m) THEN (IF e.packed THEN "accepts-unpackable" ELSE "ok")
  ELSE IF ~e.packed THEN (IF MayRefuse(m) THEN "ok" ELSE "pack-error")    \* AMBIG: an unordered type list may be refused
  ELSE IF e.bytes # EncMsg(m) THEN "pack-octets"
  ELSE IF ~e.pbufok THEN "packbuffer-error"             \* PackBuffer into a reused (0xff-filled) buffer: the same octets
  ELSE IF ~e.pbufsame THEN "packbuffer-octets"
  ELSE IF ~e.rrsame THEN "packrr-octets"                \* PackRR, record by record, at offset 7 of such a buffer
  ELSE IF ~e.unpacked THEN "unpack-error"
  ELSE IF e.msg2 # NormMsg(m) THEN "unpack-fields"
  ELSE IF ~e.inputfree THEN "unpack-aliases-input"       \* msg2 read again after the input buffer was overwritten
  ELSE IF ~e.reusedsame THEN "unpack-reused-fields"      \* a receiver that decoded another message before reads the same
  ELSE IF ~e.heldsame THEN "unpack-aliasing"             \* a message decoded earlier and still held did not change
  ELSE IF ~e.repacked THEN "repack-error"
  ELSE IF e.rebytes # e.bytes THEN "repack-octets"
  ELSE "ok"

Init == l = 1 /\ HWInit /\ TLCSet(3, <<>>) /\ TLCSet(4, <<>>)
Next == /\ l <= Len(Trace)
        /\ IF ~WFMsg(Ev.msg) THEN TLCSet(3, Append(TLCGet(3), l))
           ELSE LET st == Stage(Ev) IN
                IF st = "ok" THEN TRUE ELSE MarkBad(l) /\ TLCSet(4, Append(TLCGet(4), <<l, st>>))
        /\ HW(l)
        /\ l' = l + 1

Accepted3 == /\ PrintT("VP:ill=" \o ToJson(TLCGet(3)))
             /\ PrintT("VP:stages=" \o ToJson(TLCGet(4)))
             /\ Accepted
=============================================================================
