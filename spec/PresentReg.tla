------------------------------ MODULE PresentReg ------------------------------
(* Property C05 while the REGISTRY OF TYPE MNEMONICS CHANGES.                   *)
(*                                                                            *)
(* "Type ... may be written as mnemonic or TYPEnnn ... for every code point",  *)
(* and the text of every record is re-readable.  Which mnemonics exist is not  *)
(* fixed: PrivateHandle(mnemonic, code, generator) gives a private-use code    *)
(* (RFC 6895 s.3.1: 65280..65534) a mnemonic, PrivateHandleRemove(code) takes  *)
(* it away again.  The statement holds in every state such a sequence reaches:  *)
(*                                                                            *)
(*   state   reg : code -> mnemonic (upper case octets; <<>> = none)            *)
(*   Handle(reg, mn, c), Remove(reg, c)                                         *)
(*   reader  ReadRecordReg(reg, L, hk): the reader of PresentRR whose type      *)
(*           table is the IANA table + the LIVE registrations: at the places    *)
(*           where a record's text holds a type (its own type, RRSIG / SIG type *)
(*           covered, the type lists of NSEC / NSEC3 / CSYNC) a live mnemonic   *)
(*           denotes its code; TYPEnnn always does; a mnemonic that is not (or  *)
(*           no longer) registered denotes nothing                              *)
(*   writer  WriteReg(reg, rr, sp): canonical text of the records that hold     *)
(*           type codes in RDATA, in the spellings the statement allows         *)
(*                                                                            *)
(* What is demanded of the code in state reg (bound by Gen_ / Trace_PresentReg): *)
(*   - every spelling the statement allows in state reg is read by the zone     *)
(*     parser and gives the record (vectors: texts and octets from here)        *)
(*   - what String() prints in state reg is read by ReadRecordReg(reg, ..) as    *)
(*     the record it was printed from (trace validation), and by the zone       *)
(*     parser (round trip)                                                      *)
(* Not demanded: that a removed mnemonic is refused (the statement is about     *)
(* what is printed, not about what else is accepted).                           *)
(*                                                                            *)
(* The universe (guards of Handle; outside of it the statement is silent --     *)
(* \* AMBIG): the code is a private-use code; the mnemonic is a letter followed *)
(* by letters, digits and hyphens, is no mnemonic of the IANA type or class     *)
(* table, is not of the form TYPEnnn / CLASSnnn, and no two codes hold the same *)
(* mnemonic at the same time.                                                   *)
EXTENDS PresentRR

PrivLo == 65280
PrivHi == 65534
PrivCodes == PrivLo..PrivHi

RegInit == [c \in PrivCodes |-> <<>>]
IsLive(reg, c) == c \in DOMAIN reg /\ reg[c] # <<>>
HoldersOf(reg, u) == { c \in DOMAIN reg : reg[c] # <<>> /\ reg[c] = u }

IsLetter(ch) == (ch >= 65 /\ ch <= 90) \/ (ch >= 97 /\ ch <= 122)
MnemonicSyntax(u) == /\ u # <<>> /\ IsLetter(u[1])
                     /\ \A i \in 1..Len(u) : IsLetter(u[i]) \/ IsDigit(u[i]) \/ u[i] = 45
CanHandle(reg, mn, c) ==
  LET u == Upper(mn) IN
  /\ c \in PrivCodes
  /\ MnemonicSyntax(u)
  /\ LookUp(TypeTableRR, u) = -1 /\ LookUp(ClassTable, u) = -1
  /\ Numbered(kTYPE, u) = -1 /\ Numbered(kCLASS, u) = -1
  /\ HoldersOf(reg, u) \subseteq {c}
Handle(reg, mn, c) == [reg EXCEPT ![c] = Upper(mn)]
CanRemove(reg, c)  == c \in PrivCodes
Remove(reg, c)     == [reg EXCEPT ![c] = <<>>]

\* an action: [op |-> "handle" | "remove", mn |-> octets as given to PrivateHandle, code]
ActOK(reg, a) == IF a.op = "handle" THEN CanHandle(reg, a.mn, a.code) ELSE a.op = "remove" /\ CanRemove(reg, a.code)
Apply(reg, a) == IF a.op = "handle" THEN Handle(reg, a.mn, a.code) ELSE Remove(reg, a.code)

-----------------------------------------------------------------------------
(* Spelling and reading of a type code in state reg *)

TypeNum(c)          == kTYPE \o DecEnc(U16(c))
TypeTextReg(reg, c) == IF IsLive(reg, c) THEN reg[c] ELSE TypeText(c)        \* the mnemonic where one exists now
TypeOfReg(reg, s)   == LET h == HoldersOf(reg, Upper(s)) IN IF h # {} THEN CHOOSE c \in h : TRUE ELSE TypeOfRR(s)

\* the places of a record's RDATA tokens that hold a type: item kinds typ (one token) and types (the rest);
\* every item before them is one token wide (MC_PresentRR!StaticInv: a rest item is the last one)
TypePlaces(t, n) ==
  IF ~Typed(t) THEN {}
  ELSE LET ps == PresKind[t] IN
       { j \in 1..n : \E i \in 1..Len(ps) : (ps[i].p = "typ" /\ j = i) \/ (ps[i].p = "types" /\ j >= i) }
HoldsTypes(t) == Typed(t) /\ \E i \in 1..Len(PresKind[t]) : PresKind[t][i].p \in {"typ", "types"}

\* a live mnemonic at such a place is another spelling of TYPEnnn
Alias(reg, tok) ==
  IF tok.q THEN tok
  ELSE LET h == HoldersOf(reg, Upper(tok.raw)) IN
       IF h = {} THEN tok ELSE LET n == TypeNum(CHOOSE c \in h : TRUE) IN Tok(n, n, FALSE)
AliasToks(reg, t, toks) ==
  IF toks = <<>> \/ IsGenericMark(toks[1]) THEN toks
  ELSE LET at == TypePlaces(t, Len(toks)) IN [j \in 1..Len(toks) |-> IF j \in at THEN Alias(reg, toks[j]) ELSE toks[j]]

ReadRecordReg(reg, L, hk) == ReadRecordWith(L, hk, LAMBDA s : TypeOfReg(reg, s), LAMBDA t, toks : AliasToks(reg, t, toks))

\* the text denotes the record rr = [name, type, class, ttl, rdata]
DenotesReg(reg, text, hk, rr) ==
  LET r == ReadRecordReg(reg, Lex(text), hk) IN
  /\ r.ok /\ r.name = rr.name /\ r.type = rr.type /\ r.class = rr.class /\ r.ttl = rr.ttl /\ rr.rdata \in r.alts

-----------------------------------------------------------------------------
(* Canonical writer of the records that hold type codes: RRSIG / SIG (type      *)
(* covered), NSEC / NSEC3 / CSYNC (type lists), and of a record of any type in  *)
(* RFC 3597 form.  NXT is left out: its RFC 2535 bitmap has no private codes.   *)
(* sp: "pref" the mnemonic where one exists now, else TYPEnnn; "num" TYPEnnn;   *)
(*     "lower" the preferred spelling in lower case (RFC 1035 s.2.3.3 / 5.1:    *)
(*     mnemonics compare case-insensitively)                                    *)

Spell(reg, c, sp) == IF sp = "num" THEN TypeNum(c) ELSE IF sp = "lower" THEN Lower(TypeTextReg(reg, c)) ELSE TypeTextReg(reg, c)
Spellings == <<"pref", "num", "lower">>

RECURSIVE JoinSp(_)
JoinSp(ss) == IF ss = <<>> THEN <<>> ELSE IF Len(ss) = 1 THEN ss[1] ELSE ss[1] \o <<cSP>> \o JoinSp(Tail(ss))
DecN(n) == DecEnc(U16(n))

WriteItemReg(reg, e, f, sp) ==
  LET p == e.p  v == f[e.n] IN
  CASE p \in {"u8", "u16", "alg"} -> << DecN(v) >>
    [] p \in {"u32", "time"} -> << DecEnc(v) >>                 \* RFC 4034 s.3.2: a time may be written as decimal seconds
    [] p = "typ"   -> << Spell(reg, v, sp) >>
    [] p = "types" -> [i \in 1..Len(v) |-> Spell(reg, v[i], sp)]
    [] p = "name"  -> << Present(v) >>
    [] p = "b64"   -> IF v = <<>> THEN <<>> ELSE << B64Enc(v) >>
    [] p = "salt"  -> << IF v = <<>> THEN <<45>> ELSE HexEnc(v, FALSE) >>
    [] p = "b32"   -> << B32Enc(v, TRUE) >>

\* rr = [name, type, class, ttl, f]
HeaderReg(reg, rr, sp) == << Present(rr.name), DecEnc(rr.ttl), ClassText(rr.class), Spell(reg, rr.type, sp) >>
WriteReg(reg, rr, sp) ==
  LET ps == PresKind[rr.type] IN
  JoinSp(HeaderReg(reg, rr, sp) \o Concat([i \in 1..Len(ps) |-> WriteItemReg(reg, ps[i], rr.f, sp)]))
\* a record of a type without typed form here (a private code): RFC 3597 RDATA under each spelling of the type
WriteOwnReg(reg, rr, sp) ==
  LET rd == rr.f.Rdata IN
  JoinSp(HeaderReg(reg, rr, sp) \o << <<cBSL, 35>>, DecN(Len(rd)) >> \o (IF rd = <<>> THEN <<>> ELSE << HexEnc(rd, FALSE) >>))

IsOwn(rr) == ~Typed(rr.type)
TextOf(reg, rr, sp) == IF IsOwn(rr) THEN WriteOwnReg(reg, rr, sp) ELSE WriteReg(reg, rr, sp)
RdataOfReg(rr) == IF IsOwn(rr) THEN rr.f.Rdata ELSE EncRdata(rr.type, rr.f)
FrameOf(rr) == [name |-> rr.name, type |-> rr.type, class |-> rr.class, ttl |-> rr.ttl, rdata |-> RdataOfReg(rr)]
OctetsOf(rr) == LET rd == RdataOfReg(rr) IN EncName(rr.name) \o U16(rr.type) \o U16(rr.class) \o rr.ttl \o U16(Len(rd)) \o rd

-----------------------------------------------------------------------------
(* The records the bounded checks print and read in every state: one of each    *)
(* type that holds type codes, mentioning the given codes (a sorted sequence)   *)
(* together and one by one, and one record OF each code.                        *)
RegOwner == << <<111>>, <<120>> >>                    \* o.x.
RegTtl   == <<0, 0, 14, 16>>
RRc(t, f) == [name |-> RegOwner, type |-> t, class |-> 1, ttl |-> RegTtl, nodata |-> FALSE, f |-> f]
SigF(c)  == [TypeCovered |-> c, Algorithm |-> 13, Labels |-> 2, OrigTtl |-> RegTtl, Expiration |-> <<101, 83, 241, 0>>,
             Inception |-> <<0, 0, 0, 1>>, KeyTag |-> 4660, SignerName |-> << <<120>> >>, Signature |-> [i \in 1..16 |-> (i * 7 + 3) % 256]]
NsecF(l) == [NextDomain |-> << <<97>> >>, TypeBitMap |-> l]
Probes(codes) ==
  LET all == SortedSeq({1, 47} \cup Range(codes)) IN
  << RRc(47, NsecF(all)),
     RRc(50, [Hash |-> 1, Flags |-> 1, Iterations |-> 12, SaltLength |-> 2, Salt |-> <<170, 187>>, HashLength |-> 20,
              NextDomain |-> [i \in 1..20 |-> (13 * i) % 256], TypeBitMap |-> all]),
     RRc(62, [Serial |-> <<0, 0, 0, 66>>, Flags |-> 3, TypeBitMap |-> all]) >>
  \o [i \in 1..Len(codes) |-> RRc(47, NsecF(<< codes[i] >>))]
  \o [i \in 1..Len(codes) |-> RRc(46, SigF(codes[i]))]
  \o [i \in 1..Len(codes) |-> RRc(24, SigF(codes[i]))]
  \o [i \in 1..Len(codes) |-> RRc(codes[i], [Rdata |-> <<10, 11, 12>>])]
\* the codes of the universe a record mentions (its own type included)
Mentions(rr, codes) ==
  { c \in Range(codes) : \/ rr.type = c
                         \/ "TypeCovered" \in DOMAIN rr.f /\ rr.f.TypeCovered = c
                         \/ "TypeBitMap" \in DOMAIN rr.f /\ c \in Range(rr.f.TypeBitMap) }
=============================================================================
