CONSTANTS
  Keys = {1, 2}
  MaxOps = 5
INIT Init
NEXT Next
INVARIANT Out
CHECK_DEADLOCK FALSE
