CONSTANTS
  MaxLabel = 63
  MaxName = 255
  Stride = 16
  Off = 0
INIT Init
NEXT Next
INVARIANT Inv
CHECK_DEADLOCK FALSE
