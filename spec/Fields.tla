------------------------------- MODULE Fields -------------------------------
(* format.go: NumField(rr) and Field(rr, i) as a projection of WireRR!Layout.   *)
(*                                                                              *)
(* "NumField returns the number of rdata fields r has."                         *)
(* "Field returns the rdata field i as a string.  Fields are indexed starting   *)
(*  from 1.  RR types that holds slice data, for instance the NSEC type bitmap  *)
(*  will return a single string where the types are concatenated using a space. *)
(*  Accessing non existing fields will cause a panic."                          *)
(*                                                                              *)
(* The API fields of a type are the entries of its layout, in order, except     *)
(* that a gateway (IPSECKEY, AMTRELAY) is two API fields: the address form      *)
(* (net.IP) and then the name form.  Field(rr, 0) is "" (pinned by              *)
(* parse_test.go: `Field(x, 0) != ""' is an error): index 0 is where the        *)
(* header sits in the struct and it has no text.                                *)
(*                                                                              *)
(* What the text of a field must be is stated as a READER, by kind: the text    *)
(* must DENOTE the field's value under the text encoding of its kind.  That     *)
(* admits every spelling the encoding allows (hexadecimal case, escapes) and    *)
(* makes no use of how the library happens to hold the value:                   *)
(*   u8 u16 u32 u48 u64   the decimal numeral of the value                      *)
(*   a                    dotted quad                                           *)
(*   aaaa                 an RFC 4291 2.2 text form of the 16 octets            *)
(*   name cname           RFC 1035 5.1 text of the name, fully qualified        *)
(*   str                  the octets with RFC 1035 5.1 escapes (\X, \DDD)       *)
(*   octet                the same, or the octets themselves (AMBIG)            *)
(*   ostr                 "" when absent, else as str                           *)
(*   hex b64 b32          RFC 4648 base16 / base64 / base32hex (no padding)     *)
(*   raw                  the octets themselves                                 *)
(*   strs names           the elements (as str / name) joined by ONE space      *)
(*   bitmap bitmap0       the type mnemonics (or RFC 3597 TYPEnnn) in the       *)
(*                        order the record holds them, joined by one space      *)
(*   gateway address      the address text when the selector says address,      *)
(*                        "" otherwise;  gateway name: the name when the        *)
(*                        selector says name                                    *)
(*   apl opts svcb        "" when empty; otherwise the form of the text is not  *)
(*                        documented (AMBIG) -- only that it is a rendering of  *)
(*                        the data and not a reflect.Value placeholder "<T Value>" *)
EXTENDS PresentRR

Rv == INSTANCE Reverse

-----------------------------------------------------------------------------
(* The API fields of a type *)
GoEntry(e) ==
  IF e.k = "gateway"
  THEN << [n |-> e.addr, k |-> "gwaddr", of |-> e.of, mod |-> e.mod, host |-> e.n],
          [n |-> e.n,    k |-> "gwhost", of |-> e.of, mod |-> e.mod, host |-> e.n] >>
  ELSE << e >>
GoFields(t) == LET es == FieldsOf(t) IN Concat([i \in 1..Len(es) |-> GoEntry(es[i])])
NumField(t) == Len(GoFields(t))

-----------------------------------------------------------------------------
(* Readers *)
\* RFC 1035 5.1 escapes: \DDD (three digits, <= 255) and \X for X not a digit
RECURSIVE UnescFrom(_, _, _)
UnescFrom(s, i, acc) ==
  IF i > Len(s) THEN [ok |-> TRUE, v |-> acc]
  ELSE IF s[i] # 92 THEN UnescFrom(s, i + 1, Append(acc, s[i]))
  ELSE IF i + 3 <= Len(s) /\ IsDigit(s[i + 1]) /\ IsDigit(s[i + 2]) /\ IsDigit(s[i + 3])
       THEN LET d == (s[i + 1] - 48) * 100 + (s[i + 2] - 48) * 10 + (s[i + 3] - 48) IN
            IF d > 255 THEN [ok |-> FALSE, v |-> <<>>] ELSE UnescFrom(s, i + 4, Append(acc, d))
  ELSE IF i + 1 <= Len(s) /\ ~IsDigit(s[i + 1]) THEN UnescFrom(s, i + 2, Append(acc, s[i + 1]))
  ELSE [ok |-> FALSE, v |-> <<>>]
Unesc(s) == UnescFrom(s, 1, <<>>)

StrDenotes(text, v)  == LET u == Unesc(text) IN u.ok /\ u.v = v
NameDenotes(text, v) == LET p == Parse(text) IN p.st = "ok" /\ p.fq /\ p.labels = v
HexDenotes(text, v)  == LET d == HexDec(text) IN d.ok /\ d.v = v
B64Denotes(text, v)  == LET d == B64Dec(text) IN d.ok /\ d.v = v
B32Denotes(text, v)  == LET d == B32Dec(text) IN d.ok /\ d.v = v
V6Denotes(text, v)   == LET p == Rv!ParseV6(text) IN p.ok /\ p.v = v
Quad(v)              == Rv!QuadText(v)
DecOfInt(n)          == DecEnc(U32(n))

JoinSp(ps) == Rv!JoinWith(ps, 32)

\* the text is the elements joined by single spaces: some grouping of its space-separated pieces
\* gives, element by element, texts that denote the values (elements may contain spaces themselves)
RECURSIVE Grouped(_, _, _, _, _)
Grouped(ps, i, vs, j, kind) ==
  IF j > Len(vs) THEN i > Len(ps)
  ELSE \E e \in i..Len(ps) :
         /\ LET g == JoinSp(SubSeq(ps, i, e)) IN IF kind = "name" THEN NameDenotes(g, vs[j]) ELSE StrDenotes(g, vs[j])
         /\ Grouped(ps, e + 1, vs, j + 1, kind)
ListDenotes(text, vs, kind) == IF vs = <<>> THEN text = <<>> ELSE Grouped(Split(text, 32), 1, vs, 1, kind)

\* type mnemonics: the registered one or RFC 3597 5 "TYPE" decimal (which "may be used for any type").
\* AMBIG: 0 and 65535 are reserved codes without a mnemonic; any single word is admitted for them.
kTYPEtext == <<84, 89, 80, 69>>
TypeWords(c) == { kTYPEtext \o DecOfInt(c) } \cup (IF MnemonicOf(TypeTableRR, c) # <<>> THEN { MnemonicOf(TypeTableRR, c) } ELSE {})
TypeWordOK(w, c) == IF c \in {0, 65535} THEN w # <<>> ELSE w \in TypeWords(c)
TypesDenote(text, cs) ==
  IF cs = <<>> THEN text = <<>>
  ELSE LET ws == Split(text, 32) IN Len(ws) = Len(cs) /\ \A i \in 1..Len(cs) : TypeWordOK(ws[i], cs[i])

\* reflect.Value.String of a value that is no string: "<T Value>"
kValue == <<32, 86, 97, 108, 117, 101, 62>>           \* " Value>"
IsPlaceholder(text) == Len(text) >= 8 /\ text[1] = 60 /\ SubSeq(text, Len(text) - 6, Len(text)) = kValue
HasPlaceholder(text) == \E w \in Range(Split(text, 60)) : Len(w) >= 7 /\ \E i \in 1..(Len(w) - 6) : SubSeq(w, i, i + 6) = kValue

-----------------------------------------------------------------------------
(* Field(rr, i) for 1 <= i <= NumField: e = the API field, v = its value (for a  *)
(* gateway: the gateway value), sel = the gateway selector (f[of] % mod), order  *)
(* = the order in which the record holds a type list                             *)
FieldTextOK(e, v, sel, text) ==
  CASE e.k \in {"u8", "u16"}         -> text = DecOfInt(v)
    [] e.k \in {"u32", "u48", "u64"} -> text = DecEnc(v)
    [] e.k = "a"                     -> text = Quad(v)
    [] e.k = "aaaa"                  -> V6Denotes(text, v)
    [] e.k \in {"name", "cname"}     -> NameDenotes(text, v)
    [] e.k = "str"                   -> StrDenotes(text, v)
    \* AMBIG: URI target / CAA value: the library itself holds them raw after Unpack and escaped after
    \* parsing (C01 wire/unpack-fields:CAA:backslash); Field shows what is held
    [] e.k = "octet"                 -> StrDenotes(text, v) \/ text = v
    [] e.k = "ostr"                  -> IF v = <<>> THEN text = <<>> ELSE StrDenotes(text, v[1])
    [] e.k = "hex"                   -> HexDenotes(text, v)
    [] e.k = "b64"                   -> B64Denotes(text, v)
    [] e.k = "b32"                   -> B32Denotes(text, v)
    [] e.k = "raw"                   -> text = v
    [] e.k = "strs"                  -> ListDenotes(text, v, "str")
    [] e.k = "names"                 -> ListDenotes(text, v, "name")
    [] e.k \in {"bitmap", "bitmap0"} -> TypesDenote(text, v)
    [] e.k = "gwaddr"                -> IF sel = 1 THEN text = Quad(v) ELSE IF sel = 2 THEN V6Denotes(text, v) ELSE text = <<>>
    [] e.k = "gwhost"                -> IF sel = 3 THEN NameDenotes(text, v)
                                        ELSE text = <<>> \/ text = <<46>>     \* AMBIG: no name: "" or "." (RFC 4025 2.5 writes "." for no gateway)
    [] e.k \in {"apl", "opts", "svcb"} -> IF v = <<>> THEN text = <<>> ELSE text # <<>> /\ ~HasPlaceholder(text)
    [] OTHER -> FALSE

\* out = [panic, text]
FieldOK(t, i, e, v, sel, out) ==
  IF i < 0 \/ i > NumField(t) THEN out.panic                      \* "Accessing non existing fields will cause a panic"
  ELSE IF i = 0 THEN ~out.panic /\ out.text = <<>>
  ELSE /\ ~out.panic
       /\ e.n = GoFields(t)[i].n                                   \* the binding looked at the field the layout names
       /\ FieldTextOK(GoFields(t)[i], v, sel, out.text)
=============================================================================
