CONSTANTS
  Mode = "fam"
  Wide = FALSE
INIT Init
NEXT Next
INVARIANT Out
