CONSTANTS
  Clients = {1, 2, 3}
  Buffers = {1, 2}
  Cap = 3
  Swapped = FALSE
  KeepLen = FALSE
  MaxResend = 1
INIT Init
NEXT Next
VIEW View
INVARIANT Inv
CHECK_DEADLOCK FALSE
