CONSTANTS
  Clients = {1, 2, 3}
  Buffers = {1, 2}
  Cap = 3
  Swapped = FALSE
  KeepLen = FALSE
  SessShared = FALSE
  DoubleRelease = FALSE
  MaxJunk = 1
  Locals = {1, 2}
  MaxResend = 0
INIT Init
NEXT Next
VIEW View
INVARIANT Inv
CHECK_DEADLOCK FALSE
