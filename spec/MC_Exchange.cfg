CONSTANTS
  Clients = {1, 2, 3}
  Buffers = {1, 2}
  Swapped = FALSE
  MaxResend = 1
INIT Init
NEXT Next
VIEW View
INVARIANT Inv
CHECK_DEADLOCK FALSE
