------------------------------- MODULE NV_WireRR -------------------------------
(* Non-vacuity witnesses for MC_WireRR: each of these "invariants" must be VIOLATED    *)
(* (run by hand, one INVARIANT at a time or with -continue; last done with Scale = 0:   *)
(* all ten are violated).  Not part of the registered check.                           *)
EXTENDS MC_WireRR
Ph1 == phase = 1
NV_ExtRcodeWithOpt == Ph1 => ~(HasOpt(m) /\ m.hdr.rcode > 15)
NV_Unpackable      == Ph1 => Packable(m)
NV_Nodata          == Ph1 => \A i \in 1..Len(AllRRs) : ~AllRRs[i].nodata
NV_NormDiffers     == Ph1 => NormMsg(m) = m
NV_FieldDecoded    == Ph1 => \A i \in 1..Len(AllRRs) : AllRRs[i].nodata \/ ~Decodable(AllRRs[i].type)
NV_NotDecodable    == Ph1 => \A i \in 1..Len(AllRRs) : AllRRs[i].nodata \/ Decodable(AllRRs[i].type)
NV_PlanNames       == Ph1 => Len(PlanMsg(m)) < 4
NV_TwoRecords      == Ph1 => Len(AllRRs) < 2
NV_BitmapWindows   == Ph1 => \A i \in 1..Len(AllRRs) : AllRRs[i].nodata \/ AllRRs[i].type # 47 \/ Len(AllRRs[i].f.TypeBitMap) < 3
NV_OptNotLast      == Ph1 => ~(Len(m.ar) = 2 /\ IsOpt(m.ar[1]))
NV_Unordered       == Ph1 => ~MayRefuse(m)
=============================================================================
