CONSTANTS
  Obj = {1, 2, 3}
  NSlots = 2
INIT Init
NEXT Next
INVARIANTS InvDisjoint InvNI InvImpl InvCopyEq InvMutate InvRO InvCopyTo InvAl
CHECK_DEADLOCK FALSE
