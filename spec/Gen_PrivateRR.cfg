CONSTANTS
  N = 3
  Len4Shard = 0
  Len4Shards = 1
INIT Init
NEXT Next
INVARIANT Out
