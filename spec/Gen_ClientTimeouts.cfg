INIT Init
NEXT Next
INVARIANT Out
CHECK_DEADLOCK FALSE
