----------------------------- MODULE MC_WireRR -----------------------------
(* Bounded exhaustive check of WireRR on itself.  Every message of a small    *)
(* universe (a few types exercising names, strings, integers, opaque data,    *)
(* bitmaps, options, SvcParams, RDATA-less records; at most two records) is   *)
(* one state.  Checked: the reference decoder inverts the encoder at the      *)
(* framing level and, for the regular kinds, at the field level; arithmetic   *)
(* lengths equal encoded lengths; record offsets and the packing plan point   *)
(* at what they claim; the 12-bit RCODE is split and re-joined.               *)
EXTENDS WireRR

CONSTANT Scale        \* 0: a slice of the universe (quick tier), 1: all of it

VARIABLES m, phase     \* phase 0: just enumerated (TLC does that single-threaded); 1: to be judged (by all workers)

Big    == Scale >= 1
Owners == IF Big THEN { <<>>, << <<97, 0>>, <<255>> >> } ELSE { << <<97, 0>>, <<255>> >> }
Nm   == { <<>>, << <<97>> >>, << <<0, 255>> >>, << <<97>>, <<65>> >> }
Ttls == { <<0, 0, 0, 0>>, <<255, 255, 255, 254>> }

RR(n, t, c, ttl, f) == [name |-> n, type |-> t, class |-> c, ttl |-> ttl, nodata |-> FALSE, f |-> f]
ND(n, t, c)         == [name |-> n, type |-> t, class |-> c, ttl |-> <<0, 0, 0, 0>>, nodata |-> TRUE, f |-> <<>>]

Opt(c, f) == [code |-> c, f |-> f]
Par(k, f) == [key |-> k, f |-> f]

OptionLists ==
  { <<>>,
    << Opt(3, [Nsid |-> <<1, 2>>]) >>,
    << Opt(11, [Timeout |-> <<>>]), Opt(11, [Timeout |-> <<600>>]) >>,
    << Opt(8, [Family |-> 1, SourceNetmask |-> 9, SourceScope |-> 0, Address |-> <<10, 255, 1, 1>>]),       \* host bits set: masked on the wire
       Opt(65001, [Data |-> <<255>>]) >>,
    << Opt(2, [Lease |-> <<0, 0, 0, 1>>, KeyLease |-> <<0, 0, 0, 0>>]), Opt(9, [Expire |-> <<>>]),
       Opt(9, [Expire |-> <<0, 0, 0, 0>>]), Opt(18, [AgentDomain |-> << <<97>> >>]) >> }

ParamLists ==
  { <<>>,
    << Par(3, [Port |-> 443]), Par(1, [Alpn |-> << <<104, 50>>, <<104, 51>> >>]) >>,                 \* not in key order
    << Par(4, [Hint |-> << <<1, 2, 3, 4>> >>]), Par(0, [Code |-> <<4, 1>>]), Par(1, [Alpn |-> << <<104>> >>]) >>,   \* keys and mandatory list out of order
    << Par(0, [Code |-> <<1, 4>>]), Par(1, [Alpn |-> << <<104>> >>]), Par(2, <<>>),
       Par(4, [Hint |-> << <<1, 2, 3, 4>> >>]), Par(65280, [Data |-> <<>>]) >> }

Typed(n) ==
     { RR(n, 1, 1, t, [A |-> a]) : a \in { <<0, 0, 0, 0>>, <<255, 1, 2, 3>> }, t \in Ttls }
  \cup { RR(n, 15, 1, <<0, 0, 1, 0>>, [Preference |-> p, Mx |-> x]) : p \in {0, 256, 65535}, x \in Nm }
  \cup { RR(n, 16, c, <<0, 0, 0, 0>>, [Txt |-> s]) : c \in {1, 3},
            s \in { << <<>> >>, << <<97>> >>, << <<0>>, <<255, 34>> >> } }
  \cup { RR(n, 47, 1, <<0, 0, 0, 0>>, [NextDomain |-> x, TypeBitMap |-> bm]) :
            x \in { <<>>, << <<97>> >> }, bm \in { <<>>, <<1>>, <<1, 255, 256>>, <<65535>>, <<256, 1, 255>> } }
  \cup { RR(n, 65280, 1, <<0, 0, 0, 0>>, [Rdata |-> d]) : d \in { <<>>, <<0>>, <<1, 2>> } }
  \cup { ND(n, t, c) : t \in {1, 15, 255}, c \in {254, 255} }
  \cup (IF Big THEN
          { RR(n, 6, 1, <<0, 0, 0, 0>>, [Ns |-> x, Mbox |-> <<>>, Serial |-> <<128, 0, 0, 1>>, Refresh |-> <<0, 0, 0, 0>>,
                                        Retry |-> <<0, 0, 0, 0>>, Expire |-> <<0, 0, 0, 0>>, Minttl |-> <<255, 255, 255, 255>>]) : x \in Nm }
          \cup { RR(n, 64, 1, <<0, 0, 0, 0>>, [Priority |-> 1, Target |-> <<>>, Value |-> v]) : v \in ParamLists }
          \cup { RR(n, 51, 1, <<0, 0, 0, 0>>, [Hash |-> 1, Flags |-> 0, Iterations |-> 5, SaltLength |-> Len(s), Salt |-> s]) :
                    s \in { <<>>, <<171, 205>> } }
          \cup { RR(n, 20, 1, <<0, 0, 0, 0>>, [Address |-> <<49>>, SubAddress |-> sa]) : sa \in { <<>>, << <<>> >>, << <<50>> >> } }
        ELSE {})

Opts == { RR(<<>>, 41, sz, <<x, 0, 128, 0>>, [Option |-> o]) : sz \in {4096}, x \in {0, 7}, o \in OptionLists }

NonOpt == UNION { Typed(n) : n \in Owners }
AnyRR    == NonOpt \cup Opts

Questions == { <<>>, << [name |-> << <<97>> >>, qtype |-> 255, qclass |-> 1] >>,
               << [name |-> <<>>, qtype |-> 6, qclass |-> 255], [name |-> << <<0>> >>, qtype |-> 65535, qclass |-> 0] >> }

Hdr(id, w, rc) ==     \* w: bit i set <=> flag i of (qr aa tc rd ra z ad cd)
  [id |-> id, qr |-> w % 2 = 1, opcode |-> (w * 3) % 16, aa |-> (w \div 2) % 2 = 1, tc |-> (w \div 4) % 2 = 1,
   rd |-> (w \div 8) % 2 = 1, ra |-> (w \div 16) % 2 = 1, z |-> (w \div 32) % 2 = 1, ad |-> (w \div 64) % 2 = 1,
   cd |-> (w \div 128) % 2 = 1, rcode |-> rc]
Hdrs == { Hdr(id, w, rc) : id \in {0, 65535}, w \in {0, 85, 170, 255}, rc \in {0, 15, 16, 4095} }

OneOpt(s) == Cardinality({ i \in 1..Len(s) : IsOpt(s[i]) }) <= 1
Sections ==
     { << <<>>, <<>>, <<>> >> }
  \cup { << <<a>>, <<>>, <<>> >> : a \in NonOpt } \cup { << <<>>, <<a>>, <<>> >> : a \in NonOpt }
  \cup { << <<>>, <<>>, <<a>> >> : a \in AnyRR }
  \cup { << <<a, b>>, <<>>, <<>> >> : a \in NonOpt, b \in NonOpt }
  \cup { << <<a>>, <<b>>, <<>> >> : a \in NonOpt, b \in NonOpt }
  \cup { << <<a>>, <<>>, <<b>> >> : a \in NonOpt, b \in AnyRR }
  \cup { s \in { << <<>>, <<>>, <<a, b>> >> : a \in AnyRR, b \in AnyRR } : OneOpt(s[3]) }

SmallSections == { s \in Sections : Len(s[1]) + Len(s[2]) + Len(s[3]) <= 1 /\ \A i \in 1..3 : \A j \in 1..Len(s[i]) : s[i][j].type \in {1, 41} }

\* every header with few sections; every section shape with two extreme headers
Init == /\ phase = 0
        /\ \/ \E h \in Hdrs, q \in Questions, s \in SmallSections :
                m = [hdr |-> h, q |-> q, an |-> s[1], ns |-> s[2], ar |-> s[3]]
           \/ \E h \in { Hdr(0, 0, 0), Hdr(65535, 255, 4095) }, q \in { <<>>, << [name |-> << <<97>> >>, qtype |-> 255, qclass |-> 1] >> },
                 s \in Sections :
                m = [hdr |-> h, q |-> q, an |-> s[1], ns |-> s[2], ar |-> s[3]]
Next == phase = 0 /\ phase' = 1 /\ UNCHANGED m

-----------------------------------------------------------------------------
AllRRs == m.an \o m.ns \o m.ar

WellFormed == phase = 1 => WFMsg(m) /\ WFMsg(NormMsg(m)) /\ NormMsg(NormMsg(m)) = NormMsg(m)

Lengths == phase = 1 =>
  LET b == EncMsg(m)  offs == RROffsets(m)  n == NormMsg(m)  rrs == n.an \o n.ns \o n.ar IN
  /\ IsOctets(b)
  /\ LenMsg(m) = Len(b)
  /\ \A i \in 1..Len(rrs) : LenRR(rrs[i]) = Len(EncRR(rrs[i]))
  /\ Len(offs) = Len(rrs) + 1 /\ offs[Len(offs)] = Len(b)
  /\ \A i \in 1..Len(rrs) : Sub(b, offs[i] + 1, offs[i + 1]) = EncRR(rrs[i])

RoundTrip == phase = 1 /\ Packable(m) =>
  LET b == EncMsg(m)  d == DecMsg(b) IN
  /\ d.ok
  /\ d.msg = FrameMsg(m)
  /\ EncMsg(NormMsg(m)) = b

RcodeSplit == phase = 1 =>
  LET b == EncMsg(m) IN
  /\ Packable(m) <=> (m.hdr.rcode <= 15 \/ HasOpt(m))
  /\ b[4] % 16 = m.hdr.rcode % 16                                      \* low 4 bits in the header
  /\ (HasOpt(m) => /\ DecMsg(b).msg.hdr.rcode = m.hdr.rcode            \* re-joined
                   /\ \E i \in 1..Len(m.ar) : IsOpt(m.ar[i]) /\ DecMsg(b).msg.ar[i].ttl[1] = m.hdr.rcode \div 16
                                              /\ Sub(DecMsg(b).msg.ar[i].ttl, 2, 4) = Sub(m.ar[i].ttl, 2, 4))
  /\ (~HasOpt(m) => DecMsg(b).msg.hdr.rcode = m.hdr.rcode % 16)

Fields == phase = 1 =>
  \A i \in 1..Len(AllRRs) :
    LET rr == AllRRs[i] IN
    ~rr.nodata /\ Decodable(rr.type) =>
       LET d == DecRdata(rr.type, RdataOf(rr)) IN d.ok /\ d.f = rr.f

Plan == phase = 1 =>
  LET b == EncMsg(m)  p == PlanMsg(m) IN
  \A i \in 1..Len(p) : LET d == DecName(b, p[i].off) IN d.ok /\ d.name = p[i].n /\ d.hops = 0
=============================================================================
