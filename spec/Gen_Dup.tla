------------------------------- MODULE Gen_Dup -------------------------------
(* Vector export for C20.  The universe of MC_Dup -- abstract records          *)
(* [t, c, o, ttl, n, v] -- is exported with the verdict of Dup.tla; the        *)
(* harness instantiates each abstract record for every real record type and    *)
(* every field of it (o: owner a / A(case changed) / b; n: an embedded name    *)
(* field x / X(case changed) / y; v: any other field 0 / 1(changed); t: 1 this *)
(* type / 2 another; c: 1 IN / 3 CH; ttl) and compares dns.IsDuplicate.        *)
(*   Mode "pairs"   every ordered pair            -> [kind, a, b, dup]         *)
(*   Mode "triples" every triple of the reduced universe -> [a, b, c, ab, bc, ac] *)
(*   Mode "lists"   every list of at most N of the six symbols r, r/TTL',      *)
(*                  r/OWNER-case, r/rdata-name-case, r2, r3, for a type with   *)
(*                  (names = TRUE) and without an embedded name (then          *)
(*                  r/rdata-name-case is r itself) -> [q, names, keep, ttls]   *)
EXTENDS MC_Dup, GenBase

CONSTANTS N, Shard, NShards

Code(r) == << r.t, r.c, r.o[1], r.ttl, r.n[1], r.v >>
InShard(r) == (r.o[1] + r.n[1] + r.v + r.ttl + r.t) % NShards = Shard

\* a type without embedded names: the name case variant does not exist
SymNoName == [Sym EXCEPT ![4] = [Sym[1] EXCEPT !.ttl = 3]]
ListOfN(q, names) == [i \in 1..Len(q) |-> ToText(IF names THEN Sym[q[i]] ELSE SymNoName[q[i]])]

GInit == \/ Mode = "pairs"   /\ \E a \in Recs, b \in Recs : x = << a, b >> /\ InShard(a)
         \/ Mode = "triples" /\ x \in SmallRecs \X SmallRecs \X SmallRecs /\ InShard(x[1])
         \/ Mode = "lists"   /\ \E q \in UNION { [1..k -> 1..Len(Sym)] : k \in 0..N }, names \in BOOLEAN : x = << q, names >>
GNext == UNCHANGED x

Out ==
  CASE Mode = "pairs" -> Emit([kind |-> "pair", a |-> Code(x[1]), b |-> Code(x[2]), dup |-> D(x[1], x[2])])
    [] Mode = "triples" -> Emit([kind |-> "triple", a |-> Code(x[1]), b |-> Code(x[2]), c |-> Code(x[3]),
                                 ab |-> D(x[1], x[2]), bc |-> D(x[2], x[3]), ac |-> D(x[1], x[3])])
    [] Mode = "lists" ->
         LET d == DedupIdx(ListOfN(x[1], x[2])) IN
         Emit([kind |-> "list", q |-> x[1], names |-> x[2],
               keep |-> [k \in 1..Len(d) |-> d[k].i], ttls |-> [k \in 1..Len(d) |-> d[k].ttl[2]]])
=============================================================================
