------------------------------- MODULE Gen_Dup -------------------------------
(* Vector export for C20.  The universe of MC_Dup -- abstract records          *)
(* [t, c, o, ttl, n, v] -- is exported with the verdict of Dup.tla; the        *)
(* harness instantiates each abstract record for every real record type and    *)
(* every field of it (o: owner a / A(case changed) / b; n: an embedded name    *)
(* field x / X(case changed) / y; v: any other field 0 / 1(changed); t: 1 this *)
(* type / 2 another; c: 1 IN / 3 CH; ttl) and compares dns.IsDuplicate.        *)
(*   Mode "pairs"   every ordered pair            -> [kind, a, b, dup]         *)
(*   Mode "triples" every triple of the reduced universe -> [a, b, c, ab, bc, ac] *)
(*   Mode "lists"   every list of at most N of the six symbols r, r/TTL',      *)
(*                  r/OWNER-case, r/rdata-name-case, r2, r3, for a type with   *)
(*                  (names = TRUE) and without an embedded name (then          *)
(*                  r/rdata-name-case is r itself) -> [q, names, keep, ttls]   *)
(*   Mode "labels"  every pair of names (label sequences over a . \ , up to 3   *)
(*                  octets in 1 or 2 labels) as owner / as embedded name       *)
(*   Mode "seqs"    every pair of lists of at most N symbols, for two Dedup    *)
(*                  calls in a row (with nil, fresh or one re-used scratch     *)
(*                  map): each result as if the call were the only one         *)
(*   Mode "lens"    every ordered pair of list variants (MC_Dup!LVars: elements *)
(*                  dropped at the end / front / middle / all, last or first   *)
(*                  element repeated) of a base list of n = 1..3 elements; the  *)
(*                  harness applies the selection to EVERY slice of every type  *)
(*                  -> [n, la, lb, dup]                                         *)
(*   Mode "hdrbits" every single-bit difference in the 16-bit class (8 base     *)
(*                  values), the type and the TTL (two 16-bit limbs)            *)
(*                  -> [f, bit, va, vb, dup]                                    *)
(*   Mode "raw"     names holding RAW octets (the spelling a hand-built record or   *)
(*                  the zone parser gives an octet >= 0x80: itself, no \DDD): every *)
(*                  ordered pair of labels of 1..2 octets over the lead and          *)
(*                  continuation octets of UTF-8 sequences that Unicode case folding *)
(*                  relates to each other or to an ASCII letter, octets that are no  *)
(*                  UTF-8 at all, and the letters k s (N >= 1: K S too), plus the    *)
(*                  three-octet Kelvin sign: names are OCTET strings, only A-Z / a-z *)
(*                  are letters (RFC 4343); pairs of different length included       *)
(*                  -> [w, ta, tb (escaped), ra, rb (raw), wa, wb (wire), dup]       *)
(*   "octet" vectors carry the raw spelling (ra, rb) and the wire form as well.      *)
EXTENDS MC_Dup, GenBase

CONSTANTS N, Shard, NShards

Code(r) == << r.t, r.c, r.o[1], r.ttl, r.n[1], r.v >>
InShard(r) == (r.o[1] + r.n[1] + r.v + r.ttl + r.t) % NShards = Shard

\* a type without embedded names: the name case variant does not exist
SymNoName == [Sym EXCEPT ![4] = [Sym[1] EXCEPT !.ttl = 3]]
ListOfN(q, names, sh) == [i \in 1..Len(q) |-> ToText(WithOwner(IF names THEN Sym[q[i]] ELSE SymNoName[q[i]], sh))]

\* Mode "labels": names as LABEL SEQUENCES over the octets a . \ : a dot inside a label is not a label
\* boundary ( <<"a.b">> is not <<"a", "b">> ), a backslash octet is an octet like any other
LAlpha == {97, 46, 92}
LLabels(k) == UNION { [1..m -> LAlpha] : m \in 1..k }
LNames == { << l >> : l \in LLabels(3) }
          \cup { << l1, l2 >> : l1 \in LLabels(2), l2 \in LLabels(1) } \cup { << l1, l2 >> : l1 \in LLabels(1), l2 \in LLabels(2) }
LFull(n) == n \o << <<110, 108>> >>                                  \* under nl.
LRec(n, w) == [t |-> 1, c |-> 1, ow |-> IF w = 1 THEN EncName(LFull(n)) ELSE EncName(<< <<97>> >>),
               rd |-> IF w = 2 THEN EncName(LFull(n)) ELSE EncName(<< <<120>> >>),
               spans |-> << << 0, IF w = 2 THEN WireLen(LFull(n)) ELSE 3 >> >>]

\* the RAW spelling of a name: every octet stands for itself; only the dot and the backslash need their backslash
RawLabel(l) == Concat([i \in 1..Len(l) |-> IF l[i] \in {46, 92} THEN << 92, l[i] >> ELSE << l[i] >>])
RawName(n) == Concat([i \in 1..Len(n) |-> RawLabel(n[i]) \o << 46 >>])
\* Mode "raw": C3 89 / C3 A9 = U+00C9 / U+00E9, C5 BF = U+017F (folds to s), E2 84 AA = U+212A (folds to k), FF FE = no UTF-8
RAlpha(k) == {107, 115, 195, 137, 169, 197, 191, 255, 254} \cup (IF k >= 1 THEN {75, 83, 128, 226} ELSE {})
RLabels(k) == UNION { [1..m -> RAlpha(k)] : m \in 1..2 } \cup { << 226, 132, 170 >> }
\* the raw spelling is a spelling of the same name (the one reader of presentation text, Names!Parse)
RawOK(n) == Parse(RawName(n)).st = "ok" /\ Parse(RawName(n)).labels = n
RRec(l, w) == [t |-> 1, c |-> 1, ow |-> IF w = 1 THEN EncName(LFull(<< l >>)) ELSE EncName(<< <<97>> >>),
               rd |-> IF w = 2 THEN EncName(LFull(<< l >>)) ELSE EncName(<< <<120>> >>),
               spans |-> << << 0, IF w = 2 THEN WireLen(LFull(<< l >>)) ELSE 3 >> >>]

\* Mode "octets": names that differ in one octet c / c XOR 0x20, in the owner (w = 1) or in an embedded name (w = 2)
Partner(c) == IF (c \div 32) % 2 = 0 THEN c + 32 ELSE c - 32
OctRec(c, w) == [t |-> 1, c |-> 1, o |-> IF w = 1 THEN <<120, c, 121>> ELSE <<97>>, ttl |-> 1,
                 n |-> IF w = 2 THEN <<120, c, 121>> ELSE <<120>>, v |-> 0]

GInit == \/ Mode = "pairs"   /\ \E a \in Recs, b \in Recs : x = << a, b >> /\ InShard(a)
         \/ Mode = "triples" /\ x \in SmallRecs \X SmallRecs \X SmallRecs /\ InShard(x[1])
         \/ Mode = "lists"   /\ \E q \in UNION { [1..k -> 1..Len(Sym)] : k \in 0..N }, names \in BOOLEAN, sh \in 1..Len(Shapes) :
                                   x = << q, names, sh >> /\ (sh = 1 \/ Len(q) >= 2)
         \/ Mode = "octets"  /\ \E c \in 0..255, w \in 1..2 : x = << c, w >>
         \/ Mode = "labels"  /\ \E a \in LNames, b \in LNames, w \in 1..2 : x = << a, b, w >>
         \/ Mode = "raw"     /\ \E a \in RLabels(N), b \in RLabels(N), w \in 1..2 : x = << a, b, w >>
         \/ Mode = "seqs"    /\ \E q1 \in UNION { [1..k -> 1..Len(Sym)] : k \in 0..N }, q2 \in UNION { [1..k -> 1..Len(Sym)] : k \in 0..N },
                                   names \in BOOLEAN : x = << q1, q2, names >>
         \/ Mode = "lens"    /\ \E n \in 1..3 : \E la \in LVars(n), lb \in LVars(n) : x = << n, la, lb >>
         \/ Mode = "hdrbits" /\ \E h \in HdrCases : x = h
GNext == UNCHANGED x

Out ==
  CASE Mode = "pairs" -> Emit([kind |-> "pair", a |-> Code(x[1]), b |-> Code(x[2]), dup |-> D(x[1], x[2])])
    [] Mode = "triples" -> Emit([kind |-> "triple", a |-> Code(x[1]), b |-> Code(x[2]), c |-> Code(x[3]),
                                 ab |-> D(x[1], x[2]), bc |-> D(x[2], x[3]), ac |-> D(x[1], x[3])])
    [] Mode = "lists" ->
         LET d == DedupIdx(ListOfN(x[1], x[2], x[3])) IN
         Emit([kind |-> "list", q |-> x[1], names |-> x[2], shape |-> x[3],
               owners |-> [k \in 1..3 |-> Present(<< Shapes[x[3]][k] >>)],
               keep |-> [k \in 1..Len(d) |-> d[k].i], ttls |-> [k \in 1..Len(d) |-> d[k].ttl[2]]])
    [] Mode = "labels" ->
         Emit([kind |-> "name2", w |-> x[3], ta |-> Present(LFull(x[1])), tb |-> Present(LFull(x[2])),
               dup |-> IsDup(LRec(x[1], x[3]), LRec(x[2], x[3]))])
    [] Mode = "raw" ->
         /\ RawOK(LFull(<< x[1] >>)) /\ RawOK(LFull(<< x[2] >>))
         /\ Emit([kind |-> "rawname", w |-> x[3], ta |-> Present(LFull(<< x[1] >>)), tb |-> Present(LFull(<< x[2] >>)),
               ra |-> RawName(LFull(<< x[1] >>)), rb |-> RawName(LFull(<< x[2] >>)),
               wa |-> EncName(LFull(<< x[1] >>)), wb |-> EncName(LFull(<< x[2] >>)),
               dup |-> IsDup(RRec(x[1], x[3]), RRec(x[2], x[3]))])
         \* names are octet strings: two labels are the same name exactly when they are equal after A-Z -> a-z
         /\ (IsDup(RRec(x[1], x[3]), RRec(x[2], x[3])) <=> Lower(x[1]) = Lower(x[2]))
    [] Mode = "seqs" ->    \* two calls in a row: the result of each depends on its own argument only
         LET d1 == DedupIdx(ListOfN(x[1], x[3], 1))  d2 == DedupIdx(ListOfN(x[2], x[3], 1)) IN
         Emit([kind |-> "seq", q |-> x[1], q2 |-> x[2], names |-> x[3],
               keep  |-> [k \in 1..Len(d1) |-> d1[k].i], ttls  |-> [k \in 1..Len(d1) |-> d1[k].ttl[2]],
               keep2 |-> [k \in 1..Len(d2) |-> d2[k].i], ttls2 |-> [k \in 1..Len(d2) |-> d2[k].ttl[2]]])
    [] Mode = "lens" ->
         Emit([kind |-> "lens", n |-> x[1], la |-> x[2], lb |-> x[3], dup |-> DL(x[2], x[3])])
    [] Mode = "hdrbits" ->
         LET a == HdrA(x)  b == HdrB(x)
             val(r) == CASE x[1] = "class" -> << r.c >> [] x[1] = "type" -> << r.t >> [] OTHER -> r.ttl IN
         Emit([kind |-> "hdrbit", f |-> x[1], bit |-> x[3], va |-> val(a), vb |-> val(b), dup |-> IsDup(a, b)])
    [] Mode = "octets" ->
         LET a == OctRec(x[1], x[2])  b == OctRec(Partner(x[1]), x[2]) IN
         RawOK(<< <<120, x[1], 121>> >>) /\ RawOK(<< <<120, Partner(x[1]), 121>> >>) /\
         Emit([kind |-> "octet", oct |-> x[1], w |-> x[2],
               ta |-> Present(<< <<120, x[1], 121>> >>), tb |-> Present(<< <<120, Partner(x[1]), 121>> >>),
               ra |-> RawName(<< <<120, x[1], 121>> >>), rb |-> RawName(<< <<120, Partner(x[1]), 121>> >>),
               wa |-> EncName(<< <<120, x[1], 121>> >>), wb |-> EncName(<< <<120, Partner(x[1]), 121>> >>),
               dup |-> D(a, b)])
=============================================================================
