----------------------------- MODULE Gen_Update -----------------------------
(* Vectors for X02: helper x zone class x one or two records given by their     *)
(* header (type code of a record of the harness zoo, class, TTL); expected =    *)
(* section and the header each resulting record carries, and whether it keeps   *)
(* the RDATA.  The RDATA itself is the zoo's: the octet-level judgement of the  *)
(* packed message is Trace_Update's.                                            *)
EXTENDS Update, GenBase

CONSTANTS Shard, NShards

VARIABLES v

Types   == <<1, 28, 15, 2, 5, 6, 16, 33, 12, 47, 48, 46, 257, 65>>      \* A AAAA MX NS CNAME SOA TXT SRV PTR NSEC DNSKEY RRSIG CAA HTTPS
Classes == {1, 3, 255}
Ttls    == { Zero4, <<0, 0, 14, 16>>, <<128, 0, 0, 1>> }

\* the abstract record for a header: RDATA stands for "the zoo record's RDATA" (non-empty marker)
Rec(t, c, ttl) == Frame(<<>>, t, c, ttl, <<1>>)

Cases ==
  { [h |-> h, zclass |-> zc, recs |-> << <<Types[i], c, ttl>> >>] :
       h \in Helpers, zc \in {1, 3}, i \in 1..Len(Types), c \in Classes, ttl \in Ttls }
  \cup
  { [h |-> h, zclass |-> zc, recs |-> << <<Types[i], 1, ttl>>, <<Types[(i % Len(Types)) + 1], c, <<0, 0, 0, 60>> >> >>] :
       h \in Helpers, zc \in {1, 3}, i \in 1..Len(Types), c \in Classes, ttl \in Ttls }

Init == v \in Cases /\ (Len(v.recs) * 7 + v.recs[1][1] + v.zclass) % NShards = Shard
Next == UNCHANGED v

Vector(c) ==
  [kind |-> "update", h |-> c.h, zclass |-> c.zclass, recs |-> c.recs,
   sec |-> IF Table[c.h].sec = "pr" THEN "an" ELSE "ns",
   exp |-> [i \in 1..Len(c.recs) |->
              LET f == Result(c.h, c.zclass, Rec(c.recs[i][1], c.recs[i][2], c.recs[i][3])) IN
              [type |-> f.type, class |-> f.class, ttl |-> f.ttl, rdata |-> f.rdata # <<>>]]]

Out == Emit(Vector(v))
=============================================================================
