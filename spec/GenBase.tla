------------------------------ MODULE GenBase ------------------------------
(* Vector export: every Gen_* specification makes each case one TLC state and *)
(* appends one JSON line per state to vectors.ndjson from an invariant.       *)
EXTENDS TLC, Json, CSV, Sequences, Integers
Emit(rec) == CSVWrite("%1$s", <<ToJson(rec)>>, "vectors.ndjson")
=============================================================================
