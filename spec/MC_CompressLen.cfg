CONSTANTS
  MaxLabel = 63
  MaxName = 255
  Scale = 0
  MaxOff = 6
INIT Init
NEXT Next
INVARIANTS NeverUnder Exact NoLonger NoMapExact
CHECK_DEADLOCK FALSE
