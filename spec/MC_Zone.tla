------------------------------ MODULE MC_Zone ------------------------------
(* Zone.tla checked on itself: every sequence of at most MaxLines lines over   *)
(* ZoneShapes!Shapes under every configuration (exhaustive), longer ones by    *)
(* -simulate.  The history variable keeps behaviours with different lines      *)
(* apart, so that "what a file denotes is a function of its abstract lines"    *)
(* can be stated.                                                              *)
EXTENDS ZoneShapes

CONSTANTS MaxLines,
          ShapeSet,    \* the shapes used (indices into Shapes)
          PolSet       \* the AMBIG policies explored, as bit codes io + 2 it + 4 go + 8 gt (a subset keeps the run short)

VARIABLES hist        \* the lines so far (indices into Shapes)
vars == <<zvars, hist>>

Lines(h) == [i \in 1..Len(h) |-> Shapes[h[i]]]

PolOf(k) == [io |-> k % 2 = 1, it |-> (k \div 2) % 2 = 1, go |-> (k \div 4) % 2 = 1, gt |-> (k \div 8) % 2 = 1]
Init == hist = <<>> /\ pol \in { PolOf(k) : k \in PolSet } /\ \E i \in 0..(NCfg - 1) : ZInit(CfgOf(i))
Next == /\ Len(hist) < MaxLines
        /\ \E i \in ShapeSet : LineAction(Shapes[i]) /\ hist' = Append(hist, i)
Spec == Init /\ [][Next]_vars

LastLine == Shapes[hist'[Len(hist')]]
NoCarry == [io |-> FALSE, it |-> FALSE, go |-> FALSE, gt |-> FALSE]

\* ---- the machine and the fold agree: the states reachable by a line sequence are exactly RunLines of it
Functional == Cur \in RunLines({StartP(cfg, pol)}, cfg, Lines(hist), 1, 0)
\* ---- given the policy, more than one outcome only where the include depth is left open; and without
\*      $INCLUDE / $GENERATE the policy does not matter
Deterministic ==
  /\ (\A i \in 1..Len(hist) : Shapes[hist[i]].k # "include" \/ Shapes[hist[i]].file # F_self) =>
        Cardinality(RunLines({StartP(cfg, pol)}, cfg, Lines(hist), 1, 0)) = 1
  /\ (\A i \in 1..Len(hist) : Shapes[hist[i]].k \notin {"include", "generate"}) =>
        (pol = NoCarry => Cardinality(Denotations(cfg, Lines(hist))) = 1)
PolicyReduction == pol = NoCarry => DenotationsAllPolicies(cfg, Lines(hist)) = Denotations(cfg, Lines(hist))
\* ---- abstract-level spellings: order of TTL and class, everything explicit, everything omitted
Flip(l) == IF l.k \in {"rr", "generate"} THEN [l EXCEPT !.order = IF @ = "tc" THEN "ct" ELSE "tc"] ELSE l
SpellingInvariant ==
  pol = NoCarry =>       \* (quantifies over all policies itself: evaluated for one representative)
  LET ls == Lines(hist)  m == Meaning(cfg, ls) IN
  /\ Meaning(cfg, [i \in 1..Len(ls) |-> Flip(ls[i])]) = m
  /\ Meaning(cfg, Explicit(cfg, ls)) = m
  /\ Meaning(cfg, Minimal(cfg, ls)) = m
  /\ LET b == Meaning(cfg, ls \o <<Blank>>) IN b = m
\* ---- the canonical text of every line reads back as that line
ReadBack ==
  hist = <<>> =>        \* (does not depend on the state: evaluated once per configuration)
  \A i \in 1..NShapes :
    LET r == LinesOfText(RenderLine(Shapes[i])) IN r.st = "ok" /\ ~r.amb /\ ~r.odd /\ r.lines = <<Shapes[i]>>
ReadBackFile == LET ls == Lines(hist)  r == LinesOfText(RenderFile(ls)) IN r.st = "ok" /\ r.lines = ls
\* ---- path resolution on the decoy tree: a relative $INCLUDE is looked up from the directory of the including file
IPsOf(c, ls) == { [i \in 1..Len(o.recs) |-> o.recs[i].rdata[4]] : o \in Denotations(c, ls) }
TreeResolution ==
  hist = <<>> =>
    /\ IPsOf(TreeCfg(1), <<TreeShapes[1]>>) = { <<21, 31, 41, 51, 61>> }      \* zones/db.example.org: inc/a.db -> zones/inc/{a,b,sub/d}.db, /abs/c.db -> abs/{c,e}.db
    /\ IPsOf(TreeCfg(3), <<TreeShapes[1]>>) = { <<21, 31, 41, 51, 61>> }      \* /zones/db.example.org: the same
    /\ IPsOf(TreeCfg(2), <<TreeShapes[1]>>) = { <<22, 32>> }                  \* db.example.org in the root: inc/a.db, inc/b.db
    /\ IPsOf(TreeCfg(1), <<TreeShapes[2], TreeShapes[6]>>) = { <<71, 33>> }   \* top.db, b.db next to the zone file
    /\ IPsOf(TreeCfg(4), <<TreeShapes[2]>>) = { <<73>> }
    /\ \A o \in Denotations(TreeCfg(1), <<TreeShapes[7]>>) : o.undef          \* "../b.db": not decided
\* ---- the initial origin given as text (C07 "any origin"): which texts are names; a refused one leaves nothing to denote
Rep(c, n) == [i \in 1..n |-> c]
InitialOrigin ==
  hist = <<>> =>
    /\ OriginOfText(<<>>) = [st |-> "ok", origin |-> NoName]
    /\ OriginOfText(<<101, 120, 97, 109, 112, 108, 101, 46>>) = [st |-> "ok", origin |-> Name(Example)]
    /\ OriginOfText(<<101, 120, 97, 109, 112, 108, 101>>) = [st |-> "ok", origin |-> Name(Example)]          \* relative: completed with the root
    /\ OriginOfText(<<46>>) = [st |-> "ok", origin |-> Name(<<>>)]
    /\ OriginOfText(<<98, 97, 100, 46, 46, 111, 114, 105, 103, 105, 110, 46>>).st = "err"                                     \* empty label
    /\ OriginOfText(<<46, 97, 46>>).st = "err" /\ OriginOfText(<<46, 46>>).st = "err"
    /\ OriginOfText(Rep(97, MaxLabel) \o <<46>>).st = "ok" /\ OriginOfText(Rep(97, MaxLabel + 1) \o <<46>>).st = "err"
    /\ OriginOfText(Rep(97, MaxLabel + 1)).st = "err"
    /\ OriginOfText(<<92, 51, 48, 48, 46>>).st = "amb" /\ OriginOfText(<<97, 92>>).st = "amb"
    /\ \A i \in 0..(NCfg - 1), q \in {<<>>, <<1>>, <<12, 22>>, <<25, 1>>} :
         DenotationsO(CfgOf(i), <<98, 97, 100, 46, 46, 111, 114, 105, 103, 105, 110, 46>>, Lines(q)) = {[undef |-> FALSE, err |-> TRUE, errln |-> 0, recs |-> <<>>, nopen |-> 0]}
    /\ DenotationsO(CfgOf(3), <<101, 120, 97, 109, 112, 108, 101>>, Lines(<<1, 22>>)) = Denotations(CfgOf(1), Lines(<<1, 22>>))
\* ---- safety side
Bounded == /\ depth = 0
           /\ Len(opens) <= MaxLines * (MaxDepth + 1)
           /\ (err \/ undef => TRUE)
NoRecordWithoutTTL == \A i \in 1..Len(out) : out[i].ttl >= 0 /\ out[i].class \in {cIN, cCH} /\ ValidName(out[i].owner)

\* ---- action properties
IncludeKeepsOrigin == [][LastLine.k # "origin" => origin' = origin]_vars
GenerateCount == [][(LastLine.k = "generate" /\ ~err' /\ ~undef') =>
                       Len(out') - Len(out) = (LastLine.hi - LastLine.lo) \div LastLine.step + 1]_vars
OneRecordPerRR == [][(LastLine.k = "rr" /\ ~err' /\ ~undef') => Len(out') = Len(out) + 1]_vars
OnlyAppends == [][Len(out') >= Len(out) /\ SubSeq(out', 1, Len(out)) = out]_vars
Sticky == [][(err => err' /\ out' = out /\ opens' = opens) /\ (undef => undef')]_vars
SelfIncludeStops ==      \* a file that includes itself ends in an error after at most MaxDepth Opens
  [][(LastLine.k = "include" /\ LastLine.file = F_self /\ cfg.incAllowed /\ ~err /\ ~undef) =>
        (undef' \/ (err' /\ Len(opens') - Len(opens) <= MaxDepth /\ Len(opens') - Len(opens) >= SureDepth))]_vars
=============================================================================
