CONSTANTS
  MaxLabel = 63
  MaxName = 255
  SureDepth = 3
  MaxDepth = 5
  MaxGen = 65536
  MaxLines = 3
  ShapeSet = {1,2,3,4,5,6,7,8,9,10,11,12,13,14,15,16,17,18,19,20,21,22,23,24,25,26,27,28,29,30,31,32,33,34,35,36,37,38,39,40,41,42}
  PolSet = {0, 15, 9}
SPECIFICATION Spec
INVARIANTS InitialOrigin TreeResolution PolicyReduction Functional Deterministic SpellingInvariant ReadBack ReadBackFile Bounded NoRecordWithoutTTL OpenOnlyIfAllowed
PROPERTIES IncludeKeepsOrigin GenerateCount OneRecordPerRR OnlyAppends Sticky SelfIncludeStops
CHECK_DEADLOCK FALSE
