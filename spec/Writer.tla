------------------------------- MODULE Writer -------------------------------
(* The life cycle of a dns.ResponseWriter (server.go, type response) and of the  *)
(* connection worker around it, as one state machine per TCP connection / per    *)
(* packet conn.                                                                  *)
(*                                                                               *)
(* Transports:  "tcp"  a stream connection accepted from Server.Listener          *)
(*              "tls"  the same, the net.Conn also offers ConnectionState()       *)
(*              "pc"   a generic net.PacketConn (Server.PacketConn); every        *)
(*                     datagram gets a fresh ResponseWriter                       *)
(*                                                                               *)
(* What is stated (documented by the interface comments, the Server field         *)
(* comments, the comments in serveTCPConn, or pinned by server_test.go):          *)
(*   W1  WriteMsg / Write after Close fail with "dns: WriteMsg|Write called after *)
(*       Close" and put no octets on the wire  (TestResponseAfterClose)           *)
(*   W2  the second Close fails with "dns: connection already closed"; the        *)
(*       net.Conn is closed exactly once       (TestResponseDoubleClose)          *)
(*   W3  on a stream every message is ONE Write on the net.Conn: two octets       *)
(*       big-endian length, then the message   (TestResponseWriteSinglePacket,    *)
(*       RFC 1035 4.2.2); more than 65535 octets is an error and nothing is sent  *)
(*   W4  on a packet conn the message goes, unframed, to the source address of    *)
(*       the request it answers; Close does not close the shared packet conn      *)
(*   W5  "Hijack lets the caller take over the connection.  After a call to       *)
(*       Hijack(), the DNS package will not do anything with the connection":     *)
(*       the worker stops reading and does NOT close; the writer keeps working    *)
(*   W6  otherwise the server closes the connection when the worker ends          *)
(*   W7  a handler that returns (with or without writing, without Close/Hijack)   *)
(*       leaves the connection usable: the next query is read and served          *)
(*   W8  MaxTCPQueries: "Maximum number of TCP queries before we close the        *)
(*       socket.  Default is maxTCPQueries [128] (unlimited if -1)"               *)
(*   W9  "The first read uses the read timeout, the rest use the idle timeout";   *)
(*       ReadTimeout "defaults to 2 * time.Second", IdleTimeout "if nil, defaults *)
(*       to 8 * time.Second (RFC 5966)"; one deadline per message; the packet     *)
(*       loop uses the read timeout for every read                                *)
(*   W10 TsigStatus is the status of the CURRENT request's TSIG (nil if unsigned) *)
(*   W11 Write is an io.Writer (type Writer interface{ io.Writer }): on success   *)
(*       n = len(p)                                                               *)
(*   W12 LocalAddr = the transport's local address; RemoteAddr = the peer of the  *)
(*       stream / the source of the datagram; ConnectionState non-nil iff TLS     *)
(*                                                                               *)
(* The transitions are operators on a connection record so that the same text is  *)
(* (a) the Next relation checked by MC_Writer, (b) folded over scripts by         *)
(* Gen_Writer, (c) the judge of recorded events in Trace_Writer.                  *)
EXTENDS Integers, Sequences, FiniteSets, TLC

Transports == {"tcp", "tls", "pc"}
Stream(tr) == tr \in {"tcp", "tls"}

-----------------------------------------------------------------------------
(* Server configuration: cfg = [maxq, rt, idle]                                  *)
(*   maxq  Server.MaxTCPQueries: 0 = unset, -1 = unlimited, n > 0                *)
(*   rt    Server.ReadTimeout:   "" = unset (0), else the NAME of a duration     *)
(*   idle  Server.IdleTimeout:   "" = nil func, else the name of what it returns *)
(* Durations are names; the binding maps observed SetReadDeadline arguments      *)
(* (relative to the clock at call time) to the nearest name.                     *)
DefaultMaxQ   == 128
DefaultReadTO == "2s"
DefaultIdleTO == "8s"

Limit(cfg)  == IF cfg.maxq = 0 THEN DefaultMaxQ ELSE cfg.maxq
Unlimited(cfg) == Limit(cfg) = -1
ReadTO(cfg) == IF cfg.rt = "" THEN DefaultReadTO ELSE cfg.rt
IdleTO(cfg) == IF cfg.idle = "" THEN DefaultIdleTO ELSE cfg.idle

\* may the worker read another message after `q' were read on this connection?
MayRead(cfg, q) == Unlimited(cfg) \/ q < Limit(cfg)

-----------------------------------------------------------------------------
(* Connection record                                                            *)
(*   tr, cfg                                                                    *)
(*   closed, hijacked   the ResponseWriter's flags                              *)
(*   open      the net.Conn is open on the server side (pc: the packet conn)    *)
(*   ncloses   Close calls that reached the net.Conn                            *)
(*   q         messages read from this connection (stream)                      *)
(*   nh        handlers entered                                                 *)
(*   at        "loop"     worker at the top of its loop                         *)
(*             "reading"  deadline set, blocked in the read                     *)
(*             "handling" inside Handler.ServeDNS                               *)
(*             "finish"   loop left, connection not yet disposed of             *)
(*             "gone"     worker ended (conn unregistered)                      *)
(*   dls       the read deadlines set so far (names)                            *)
(*   nw        frames put on the wire                                           *)
(*   src, tsig the current request's source address / TSIG status               *)
AnyErr == "*"            \* some non-nil error whose text is not pinned
NoErr  == ""

\* how a request is signed: "" unsigned, "good" TSIG by a key the server knows, "bad" TSIG that
\* does not verify.  W10 (RFC 8945 5.2; the verification proper is C11's)
Signings == {"", "good", "bad"}
TsigStatusOf(sig) == IF sig = "bad" THEN AnyErr ELSE NoErr

NewConn(tr, cfg) ==
  [tr |-> tr, cfg |-> cfg, closed |-> FALSE, hijacked |-> FALSE, open |-> TRUE, ncloses |-> 0,
   q |-> 0, nh |-> 0, at |-> "loop", dls |-> <<>>, nw |-> 0, src |-> "", tsig |-> NoErr]

-----------------------------------------------------------------------------
(* Handler operations.  op = [op, len, ok]                                      *)
(*   WriteMsg  len = octets of the packed message, ok = the message packs       *)
(*   Write     len = len(p)                                                     *)
(* result = [err, n, writes, closes, val]                                       *)
(*   err     NoErr | exact text | AnyErr                                        *)
(*   n       Write's first result (0 for every other operation)                 *)
(*   writes  the Write / WriteTo calls that reached the transport during the    *)
(*           call: [pre, len, to]  = `pre' then the len message octets, to `to' *)
(*   closes  Close calls that reached the transport during the call             *)
(*   val     LocalAddr/RemoteAddr: "local" | "peer" | the datagram's source;    *)
(*           ConnectionState: "state" | "nil"; TsigStatus: as err               *)
OpNames == {"WriteMsg", "Write", "Close", "Hijack", "TsigStatus", "LocalAddr", "RemoteAddr", "ConnectionState"}

MaxMsgSize == 65535

Res(err, n, writes, closes, val) == [err |-> err, n |-> n, writes |-> writes, closes |-> closes, val |-> val]
Quiet(err) == Res(err, 0, <<>>, 0, "")

Frame(c, len) == [pre |-> IF Stream(c.tr) THEN << len \div 256, len % 256 >> ELSE <<>>,
                  len |-> len,
                  to  |-> IF Stream(c.tr) THEN "" ELSE c.src]                       \* W3, W4

Sent(c, len, n) == [c |-> [c EXCEPT !.nw = @ + 1], r |-> Res(NoErr, n, << Frame(c, len) >>, 0, "")]
Same(c, r)      == [c |-> c, r |-> r]

DoOp(c, op) ==
  CASE op.op = "WriteMsg" ->
         IF c.closed THEN Same(c, Quiet("dns: WriteMsg called after Close"))           \* W1
         ELSE IF ~op.ok THEN Same(c, Quiet(AnyErr))                                   \* Pack fails: nothing sent
         ELSE IF Stream(c.tr) /\ op.len > MaxMsgSize THEN Same(c, Quiet(AnyErr))      \* W3
         ELSE Sent(c, op.len, 0)
    [] op.op = "Write" ->
         IF c.closed THEN Same(c, Quiet("dns: Write called after Close"))              \* W1
         ELSE IF Stream(c.tr) /\ op.len > MaxMsgSize THEN Same(c, Quiet(AnyErr))      \* W3
         ELSE Sent(c, op.len, op.len)                                                 \* W11
    [] op.op = "Close" ->
         IF c.closed THEN Same(c, Quiet("dns: connection already closed"))             \* W2
         ELSE IF Stream(c.tr)
              THEN [c |-> [c EXCEPT !.closed = TRUE, !.open = FALSE, !.ncloses = @ + 1],
                    r |-> Res(NoErr, 0, <<>>, 1, "")]
              ELSE [c |-> [c EXCEPT !.closed = TRUE], r |-> Quiet(NoErr)]              \* W4: "that is actually the listener"
    [] op.op = "Hijack"          -> [c |-> [c EXCEPT !.hijacked = TRUE], r |-> Quiet(NoErr)]
    [] op.op = "TsigStatus"      -> Same(c, Res(c.tsig, 0, <<>>, 0, ""))              \* W10
    [] op.op = "LocalAddr"       -> Same(c, Res(NoErr, 0, <<>>, 0, "local"))          \* W12
    [] op.op = "RemoteAddr"      -> Same(c, Res(NoErr, 0, <<>>, 0, IF Stream(c.tr) THEN "peer" ELSE c.src))
    [] op.op = "ConnectionState" -> Same(c, Res(NoErr, 0, <<>>, 0, IF c.tr = "tls" THEN "state" ELSE "nil"))

\* an observed result satisfies the expected one
ErrMatches(exp, obs) == IF exp = AnyErr THEN obs # NoErr ELSE obs = exp
ResMatches(exp, obs) ==
  /\ ErrMatches(exp.err, obs.err) /\ exp.n = obs.n /\ exp.writes = obs.writes
  /\ exp.closes = obs.closes /\ exp.val = obs.val

-----------------------------------------------------------------------------
(* The connection worker (serveTCPConn) / the packet loop (serveUDP +            *)
(* serveUDPPacket), as far as the writer's life cycle is concerned.               *)

\* top of the loop: either set the deadline and block in the read, or leave
CanRead(c)  == c.at = "loop" /\ (Stream(c.tr) => MayRead(c.cfg, c.q))
NextDL(c)   == IF Stream(c.tr) /\ c.q > 0 THEN IdleTO(c.cfg) ELSE ReadTO(c.cfg)       \* W9
SrvRead(c)  == [c EXCEPT !.at = "reading", !.dls = Append(@, NextDL(c))]
SrvLeave(c) == [c EXCEPT !.at = "finish"]                                             \* W8: limit reached

\* a whole message arrives.  kind "query": accepted, handed to the handler;
\* kind "ign": dropped by the admission check (MsgIgnore) -- no handler, no reply.
\* AMBIG: whether a dropped message counts as a "TCP query" for MaxTCPQueries is
\* not said; IgnCounts selects the reading (the drivers only use cases on which
\* both readings agree).
Deliver(c, kind, src, sig, IgnCounts) ==
  LET counted == kind = "query" \/ IgnCounts IN
  IF kind = "query"
  THEN [c EXCEPT !.at = "handling", !.q = @ + (IF Stream(c.tr) THEN 1 ELSE 0), !.nh = @ + 1, !.src = src, !.tsig = TsigStatusOf(sig),
                 \* a packet gets a fresh writer; a stream keeps the one of its connection
                 !.closed = IF Stream(c.tr) THEN @ ELSE FALSE, !.hijacked = IF Stream(c.tr) THEN @ ELSE FALSE]
  ELSE [c EXCEPT !.at = "loop", !.q = @ + (IF Stream(c.tr) /\ counted THEN 1 ELSE 0)]

\* the peer closes (or the read fails otherwise): the worker leaves its loop
ReadFails(c) == [c EXCEPT !.at = IF Stream(c.tr) THEN "finish" ELSE "gone"]

\* the handler returns
Return(c) ==
  IF Stream(c.tr)
  THEN [c EXCEPT !.at = IF c.closed \/ c.hijacked THEN "finish" ELSE "loop"]          \* W7
  ELSE [c EXCEPT !.at = "reading", !.dls = Append(@, ReadTO(c.cfg))]
       \* the packet loop went back to its read (one deadline per read) when it handed the datagram
       \* to its worker -- in no particular order with the handler, so it is accounted for here;
       \* nothing is disposed of

\* the worker disposes of the connection: closes it unless hijacked (W5, W6); never twice (W2)
Finish(c) ==
  IF c.hijacked \/ c.closed
  THEN [c EXCEPT !.at = "gone"]
  ELSE [c EXCEPT !.at = "gone", !.closed = TRUE, !.open = FALSE, !.ncloses = @ + 1]
FinishCloses(c) == IF c.hijacked \/ c.closed THEN 0 ELSE 1

\* after the worker has gone the (hijacking) handler may go on using the writer: DoOp
CanPost(c) == c.at = "gone" \/ (~Stream(c.tr) /\ c.at = "reading")
=============================================================================
