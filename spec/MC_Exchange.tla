----------------------------- MODULE MC_Exchange -----------------------------
(* Exchange.tla on itself: every interleaving of N clients (each sending once, *)
(* optionally once more) against a server with B receive buffers.  The view    *)
(* hides the history variable `saw' (the invariant over it is checked when the *)
(* entry is appended: an entry never changes afterwards).                      *)
(* With Swapped = TRUE, and with KeepLen = TRUE (a recycled buffer keeps the    *)
(* length of the datagram before), and with SessShared = TRUE (the session    *)
(* data is overwritten by the next datagram) and with DoubleRelease = TRUE (the *)
(* path of unhandled datagrams releases the buffer twice) the run must FAIL     *)
(* (the driver requires it).                                                   *)
EXTENDS Exchange

CONSTANTS MaxResend,
          MaxJunk,       \* datagrams that never reach a handler
          Locals        \* the server's local addresses

VARIABLES x, resent, junked

Init == x = XInit /\ resent = 0 /\ junked = 0

Next ==
  \/ \E c \in Clients : \E a \in (IF c = 1 THEN {1} ELSE Locals) : CanSend(x, c) /\ x' = Send(x, c, c, a) /\ UNCHANGED <<resent, junked>>     \* client c's request has c octets; w.l.o.g. client 1 talks to address 1
  \/ \E c \in Clients : CanResend(x, c) /\ resent < MaxResend /\ x' = Resend(x, c) /\ resent' = resent + 1 /\ UNCHANGED junked
  \/ junked < MaxJunk /\ x' = SendJunk(x) /\ junked' = junked + 1 /\ UNCHANGED resent
  \/ \E b \in Buffers : CanRecvJunk(x, b) /\ x' = RecvJunk(x, b) /\ UNCHANGED <<resent, junked>>
  \/ \E t \in 1..Len(x.tasks) : CanJunkRelease(x, t) /\ x' = JunkRelease(x, t) /\ UNCHANGED <<resent, junked>>
  \/ \E b \in Buffers, c \in Clients : CanRecv(x, b, c) /\ x' = Recv(x, b, c) /\ UNCHANGED <<resent, junked>>
  \/ \E t \in 1..Len(x.tasks) :
       /\ UNCHANGED <<resent, junked>>
       /\ \/ CanDecode(x, t)  /\ x' = Decode(x, t)
          \/ CanRelease(x, t) /\ x' = Release(x, t)
          \/ CanHandle(x, t)  /\ x' = Handle(x, t)
          \/ CanReply(x, t)   /\ x' = Reply(x, t)
  \/ \E c \in Clients : \E r \in x.rnet : CanClientRecv(x, c, r) /\ x' = ClientRecv(x, c, r) /\ UNCHANGED <<resent, junked>>

\* finished tasks are forgotten by the view, and so is the order in which handlers ran
View == << [x EXCEPT !.saw = <<>>, !.tasks = SelectSeq(x.tasks, LAMBDA t : t.stage # "done")], resent, junked >>

Inv == NoMixing(x) /\ PoolOnce(x) /\ (~Swapped => BufferOwned(x))
=============================================================================
