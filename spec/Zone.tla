-------------------------------- MODULE Zone --------------------------------
(* What a zone file DENOTES (RFC 1035 section 5, RFC 2308 section 4 for $TTL,  *)
(* the BIND $GENERATE directive), as a state machine over ABSTRACT lines, and  *)
(* the reading of master-file text as abstract lines (ParseEntry).             *)
(* Properties C06 (denotation) and C07 (safety side: sticky error, Open only   *)
(* when includes are allowed, bounded include depth, no nested $GENERATE,      *)
(* at most MaxGen records per $GENERATE).                                      *)
(*                                                                            *)
(* The rules are the property statement's:                                    *)
(*   - relative names are completed with the current origin, @ is the origin; *)
(*   - an omitted owner repeats the previous owner;                           *)
(*   - an omitted TTL takes the $TTL value, else the most recently stated     *)
(*     TTL, else the configured default;                                      *)
(*   - an omitted class is IN;                                                *)
(*   - $INCLUDE (when allowed) splices in the file's records under the stated *)
(*     origin and does not change the includer's origin; a relative file name *)
(*     is looked up from the directory of the INCLUDING file, an absolute one *)
(*     from the root of the include file system (NewZoneParser: "file is used *)
(*     ... to resolve relative $INCLUDE directives");                         *)
(*   - $GENERATE yields one record per step of its range, every $ and         *)
(*     ${offset,width,base} replaced by the iterator value.                   *)
(* Where the statement is silent the machine is left unconstrained (AMBIG):   *)
(* either the reading is a parameter of the run (`pol': whether owner / TTL   *)
(* state survives the end of an included file or of a $GENERATE -- every      *)
(* combination is admitted), or both outcomes are successors (include depth), *)
(* or the state becomes `undef' (nothing is asserted about the rest of the    *)
(* file).                                                                     *)
EXTENDS Names, Present

CONSTANTS SureDepth,   \* include nesting that has to work (assumption: the property names "include trees up to the depth limit")
          MaxDepth,    \* include nesting that has to be refused (the check is: at most 64 Opens on a self-including file)
          MaxGen       \* 65536: most records one $GENERATE may yield

-----------------------------------------------------------------------------
(* Abstract syntax *)

\* references to names as written: omitted, @, relative, absolute
Omit   == [k |-> "omit", n |-> <<>>]
At     == [k |-> "at",   n |-> <<>>]
Rel(n) == [k |-> "rel",  n |-> n]
Abs(n) == [k |-> "abs",  n |-> n]

\* RDATA of the record types the zone-file property uses (the RDATA codec is C01/C05's business)
tA == 1  tNS == 2  tCNAME == 5  tMX == 15  tTXT == 16
cIN == 1 cCH == 3
RD(ip, pref, nm, txt) == [ip |-> ip, pref |-> pref, nm |-> nm, txt |-> txt]
RdA(ip)        == RD(ip, 0, Omit, <<>>)
RdName(nm)     == RD(<<>>, 0, nm, <<>>)
RdMX(pref, nm) == RD(<<>>, pref, nm, <<>>)
RdTXT(txt)     == RD(<<>>, 0, Omit, txt)

\* lines.  ttl = -1: omitted; class = 0: omitted; order: "tc" (TTL before class) | "ct"
Blank == [k |-> "blank"]                                          \* also: a line holding only a comment
RR(owner, ttl, class, order, type, rd) ==
  [k |-> "rr", owner |-> owner, ttl |-> ttl, class |-> class, order |-> order, type |-> type, rd |-> rd]
Origin(name)          == [k |-> "origin", name |-> name]
TTL(v)                == [k |-> "ttl", v |-> v]
Include(file, origin) == [k |-> "include", file |-> file, origin |-> origin]     \* origin = Omit: none given
\* lhs: owner template (text); rhs: RDATA item templates, each [raw, q]
Generate(lo, hi, step, lhs, ttl, class, order, type, rhs) ==
  [k |-> "generate", lo |-> lo, hi |-> hi, step |-> step, lhs |-> lhs, ttl |-> ttl, class |-> class,
   order |-> order, type |-> type, rhs |-> rhs]
Item(raw, q) == [raw |-> raw, q |-> q]

-----------------------------------------------------------------------------
(* Names and RDATA *)

NoName == [set |-> FALSE, n |-> <<>>]
Name(n) == [set |-> TRUE, n |-> n]
NoTTL == [set |-> FALSE, v |-> 0]
SomeTTL(v) == [set |-> TRUE, v |-> v]

\* st: "ok" | "err" | "amb".   amb: no origin to complete with -- error, or the root?  \* AMBIG
Complete(ref, origin) ==
  LET r == CASE ref.k = "abs" -> [st |-> "ok", n |-> ref.n]
             [] ref.k = "rel" -> IF origin.set THEN [st |-> "ok", n |-> ref.n \o origin.n] ELSE [st |-> "amb", n |-> <<>>]
             [] ref.k = "at"  -> IF origin.set THEN [st |-> "ok", n |-> origin.n] ELSE [st |-> "amb", n |-> <<>>]
             [] OTHER -> [st |-> "err", n |-> <<>>]
  IN IF r.st = "ok" /\ ~ValidName(r.n) THEN [st |-> "err", n |-> <<>>] ELSE r

\* the reference a piece of text denotes
RefOfText(raw) ==
  IF raw = <<cAT>> THEN [st |-> "ok", ref |-> At]
  ELSE LET p == Parse(raw) IN
       IF p.st = "ok" THEN [st |-> "ok", ref |-> IF p.fq THEN Abs(p.labels) ELSE Rel(p.labels)]
       ELSE IF p.st = "undef" THEN [st |-> "amb", ref |-> Omit]
       ELSE [st |-> "err", ref |-> Omit]

\* RDATA octets (RFC 1035 3.3, 3.4.1), names completed with the current origin, uncompressed
RdataWire(type, rd, origin) ==
  \* pref = -1 marks RDATA given as octets (rd.ip), for any type: the "follow" family puts a record of every RR type the
  \* library knows into a zone; what its text denotes as RDATA is C01 / C05's business, not the zone grammar's
  CASE rd.pref = -1 -> [st |-> "ok", w |-> rd.ip]
    [] type = tA -> IF Len(rd.ip) = 4 THEN [st |-> "ok", w |-> rd.ip] ELSE [st |-> "err", w |-> <<>>]
    [] type \in {tNS, tCNAME} -> LET c == Complete(rd.nm, origin) IN [st |-> c.st, w |-> IF c.st = "ok" THEN EncName(c.n) ELSE <<>>]
    [] type = tMX -> LET c == Complete(rd.nm, origin) IN
                     IF rd.pref < 0 \/ rd.pref > 65535 THEN [st |-> "err", w |-> <<>>]
                     ELSE [st |-> c.st, w |-> IF c.st = "ok" THEN U16(rd.pref) \o EncName(c.n) ELSE <<>>]
    [] type = tTXT -> IF rd.txt # <<>> /\ \A i \in 1..Len(rd.txt) : Len(rd.txt[i]) <= 255
                      THEN [st |-> "ok", w |-> Concat([i \in 1..Len(rd.txt) |-> <<Len(rd.txt[i])>> \o rd.txt[i]])]
                      ELSE [st |-> "err", w |-> <<>>]
    [] OTHER -> [st |-> "err", w |-> <<>>]

-----------------------------------------------------------------------------
(* Reading text: the items of one entry -> an abstract line                   *)

kORIGIN   == <<36, 79, 82, 73, 71, 73, 78>>
kTTL      == <<36, 84, 84, 76>>
kINCLUDE  == <<36, 73, 78, 67, 76, 85, 68, 69>>
kGENERATE == <<36, 71, 69, 78, 69, 82, 65, 84, 69>>
Bad == [st |-> "bad", line |-> Blank]
Good(line) == [st |-> "ok", line |-> line]

\* the octets an item's text denotes (escapes decoded)
Decode(raw) == LET L == Lex(<<cQUOTE>> \o raw \o <<cQUOTE>>) IN
               IF L.ill = "" /\ Len(Items(L.toks)) = 1 THEN [ok |-> ~L.odd, v |-> Items(L.toks)[1].v] ELSE [ok |-> FALSE, v |-> <<>>]

\* RDATA items (each [raw, q]) -> RD
RDOfItems(type, its) ==
  CASE type = tA -> IF Len(its) = 1 /\ ~its[1].q /\ IP4Of(its[1].raw).ok
                    THEN [st |-> "ok", rd |-> RdA(IP4Of(its[1].raw).v)] ELSE [st |-> "err", rd |-> RdA(<<>>)]
    [] type \in {tNS, tCNAME} ->
         IF Len(its) = 1 /\ ~its[1].q THEN LET r == RefOfText(its[1].raw) IN [st |-> r.st, rd |-> RdName(r.ref)]
         ELSE [st |-> "err", rd |-> RdA(<<>>)]
    [] type = tMX ->
         IF Len(its) = 2 /\ ~its[1].q /\ ~its[2].q /\ U16Of(its[1].raw).ok
         THEN LET r == RefOfText(its[2].raw) IN [st |-> r.st, rd |-> RdMX(U16Of(its[1].raw).v, r.ref)]
         ELSE [st |-> "err", rd |-> RdA(<<>>)]
    [] type = tTXT ->
         IF its # <<>> /\ \A i \in 1..Len(its) : Decode(its[i].raw).ok
         THEN [st |-> "ok", rd |-> RdTXT([i \in 1..Len(its) |-> Decode(its[i].raw).v])]
         ELSE [st |-> "err", rd |-> RdA(<<>>)]
    [] OTHER -> [st |-> "err", rd |-> RdA(<<>>)]

\* [<TTL>] [<class>] in either order, then <type>: returns the header and the index of the first RDATA item
Header(ts) ==
  LET isTTL(i) == i <= Len(ts) /\ ~ts[i].q /\ TTLOf(ts[i].raw).ok /\ ~TTLOf(ts[i].raw).big
      isCls(i) == i <= Len(ts) /\ ~ts[i].q /\ ClassOf(ts[i].raw) \in {cIN, cCH}
      ttlAt(i) == TTLOf(ts[i].raw).v
      clsAt(i) == ClassOf(ts[i].raw)
      h == IF isTTL(1) THEN (IF isCls(2) THEN <<ttlAt(1), clsAt(2), "tc", 3>> ELSE <<ttlAt(1), 0, "tc", 2>>)
           ELSE IF isCls(1) THEN (IF isTTL(2) THEN <<ttlAt(2), clsAt(1), "ct", 3>> ELSE <<-1, clsAt(1), "tc", 2>>)
           ELSE <<-1, 0, "tc", 1>>
      ti == h[4]
  IN IF ti <= Len(ts) /\ ~ts[ti].q /\ TypeOf(ts[ti].raw) \in {tA, tNS, tCNAME, tMX, tTXT}
     THEN [ok |-> TRUE, ttl |-> h[1], class |-> h[2], order |-> h[3], type |-> TypeOf(ts[ti].raw), rest |-> ti + 1]
     ELSE [ok |-> FALSE, ttl |-> 0, class |-> 0, order |-> "tc", type |-> 0, rest |-> 0]

\* lo-hi[/step]
RangeOf(raw) ==
  LET sl == Split(raw, 47)  da == Split(sl[1], 45)  \* "/"  "-"
      lo == DecOf(da[1])
      hi == IF Len(da) = 2 THEN DecOf(da[2]) ELSE [ok |-> FALSE, big |-> FALSE, v |-> 0]
      st == IF Len(sl) = 2 THEN DecOf(sl[2]) ELSE [ok |-> Len(sl) = 1, big |-> FALSE, v |-> 1]
  IN IF Len(da) = 2 /\ lo.ok /\ hi.ok /\ st.ok /\ ~lo.big /\ ~hi.big /\ ~st.big
     THEN [ok |-> TRUE, lo |-> lo.v, hi |-> hi.v, step |-> st.v] ELSE [ok |-> FALSE, lo |-> 0, hi |-> 0, step |-> 0]

ItemsOf(ts, from) == [i \in 1..(Len(ts) - from + 1) |-> Item(ts[from + i - 1].raw, ts[from + i - 1].q)]

ParseEntry(e) ==        \* e: the tokens of one entry (sp / tok), without the nl
  LET lead == e # <<>> /\ e[1].k = "sp"
      ts == IF lead THEN Tail(e) ELSE e
  IN
  IF ts = <<>> THEN Good(Blank)
  ELSE LET dir == IF lead \/ ts[1].q THEN <<>> ELSE Upper(ts[1].raw) IN
    IF dir = kORIGIN THEN
      IF Len(ts) = 2 /\ ~ts[2].q /\ RefOfText(ts[2].raw).st = "ok" THEN Good(Origin(RefOfText(ts[2].raw).ref)) ELSE Bad
    ELSE IF dir = kTTL THEN
      IF Len(ts) = 2 /\ ~ts[2].q /\ TTLOf(ts[2].raw).ok /\ ~TTLOf(ts[2].raw).big THEN Good(TTL(TTLOf(ts[2].raw).v)) ELSE Bad
    ELSE IF dir = kINCLUDE THEN
      IF Len(ts) = 2 THEN Good(Include(ts[2].v, Omit))
      ELSE IF Len(ts) = 3 /\ ~ts[3].q /\ RefOfText(ts[3].raw).st = "ok" THEN Good(Include(ts[2].v, RefOfText(ts[3].raw).ref))
      ELSE Bad
    ELSE IF dir = kGENERATE THEN
      IF Len(ts) >= 5 /\ ~ts[2].q /\ ~ts[3].q /\ RangeOf(ts[2].raw).ok THEN
        LET r == RangeOf(ts[2].raw)  h == Header(Drop(ts, 3)) IN
        IF h.ok /\ h.rest + 3 <= Len(ts)
        THEN Good(Generate(r.lo, r.hi, r.step, ts[3].raw, h.ttl, h.class, h.order, h.type, ItemsOf(ts, h.rest + 3)))
        ELSE Bad
      ELSE Bad
    ELSE
      LET own == IF lead THEN [st |-> "ok", ref |-> Omit] ELSE IF ts[1].q THEN [st |-> "err", ref |-> Omit] ELSE RefOfText(ts[1].raw)
          rest == IF lead THEN ts ELSE Tail(ts)
          h == Header(rest)
      IN IF own.st = "ok" /\ h.ok THEN
           LET rd == RDOfItems(h.type, ItemsOf(rest, h.rest)) IN
           IF rd.st = "ok" THEN Good(RR(own.ref, h.ttl, h.class, h.order, h.type, rd.rd)) ELSE Bad
         ELSE Bad

\* a whole text -> the abstract lines it spells (st = "bad" if the text is lexically ill-formed or an entry is not an entry)
LinesOfText(text) ==
  LET L == Lex(text)
      es == Entries(L.toks)
      ps == [i \in 1..Len(es) |-> ParseEntry(es[i])]
  IN [st |-> IF L.ill # "" THEN "ill" ELSE IF \E i \in 1..Len(ps) : ps[i].st # "ok" THEN "bad" ELSE "ok",
      amb |-> L.amb, odd |-> L.odd,
      lines |-> [i \in 1..Len(ps) |-> ps[i].line]]

-----------------------------------------------------------------------------
(* $GENERATE substitution *)

DigitCh(d, up) == IF d < 10 THEN 48 + d ELSE (IF up THEN 55 ELSE 87) + d
RECURSIVE DigitsOf(_, _, _)
DigitsOf(v, b, up) == IF v < b THEN <<DigitCh(v, up)>> ELSE DigitsOf(v \div b, b, up) \o <<DigitCh(v % b, up)>>
ZeroPad(s, w) == IF Len(s) >= w THEN s ELSE [i \in 1..(w - Len(s)) |-> 48] \o s
\* base: d o x X as character codes
Fmt(v, width, base) ==
  ZeroPad(DigitsOf(v, CASE base = 100 -> 10 [] base = 111 -> 8 [] OTHER -> 16, base = 88), width)

\* signed decimal
SignedOf(s) == IF s # <<>> /\ s[1] = 45 THEN LET d == DecOf(Tail(s)) IN [ok |-> d.ok /\ ~d.big, v |-> 0 - d.v]
               ELSE LET d == DecOf(s) IN [ok |-> d.ok /\ ~d.big, v |-> d.v]

\* {offset[,width[,base]]}
ModOf(inner) ==
  LET ps == Split(inner, 44)
      off == SignedOf(ps[1])
      wid == IF Len(ps) >= 2 THEN DecOf(ps[2]) ELSE [ok |-> TRUE, big |-> FALSE, v |-> 0]
      bas == IF Len(ps) >= 3 THEN ps[3] ELSE <<100>>
  IN IF Len(ps) <= 3 /\ off.ok /\ wid.ok /\ ~wid.big /\ wid.v <= 255 /\ Len(bas) = 1 /\ bas[1] \in {100, 111, 120, 88}
     THEN [ok |-> TRUE, off |-> off.v, width |-> wid.v, base |-> bas[1]]
     ELSE [ok |-> FALSE, off |-> 0, width |-> 0, base |-> 100]

IndexFrom(t, c, p) == LET hit == { i \in p..Len(t) : t[i] = c } IN
                      IF hit = {} THEN 0 ELSE CHOOSE i \in hit : \A j \in hit : i <= j

\* every $ and ${offset,width,base} replaced by the iterator value; $$ and \$ are a literal $;
\* every other character -- other backslash escapes included -- is copied.
\* st: "ok" | "err" (malformed modifier) | "amb" (iterator + offset negative: the statement does not say)
RECURSIVE SubstFrom(_, _, _)
SubstFrom(t, p, i) ==
  IF p > Len(t) THEN [st |-> "ok", s |-> <<>>]
  ELSE LET c == t[p]
           cont(s, q) == LET r == SubstFrom(t, q, i) IN [st |-> r.st, s |-> s \o r.s]
  IN
    IF c = cBSL THEN
      IF p = Len(t) THEN cont(<<cBSL>>, p + 1)
      ELSE IF t[p + 1] = cDOLLAR THEN cont(<<cDOLLAR>>, p + 2)
      ELSE cont(<<cBSL, t[p + 1]>>, p + 2)
    ELSE IF c = cDOLLAR THEN
      IF p < Len(t) /\ t[p + 1] = cDOLLAR THEN cont(<<cDOLLAR>>, p + 2)
      ELSE IF p < Len(t) /\ t[p + 1] = 123 THEN
        LET e == IndexFrom(t, 125, p + 2) IN
        IF e = 0 THEN [st |-> "err", s |-> <<>>]
        ELSE LET m == ModOf(Sub(t, p + 2, e - 1)) IN
             IF ~m.ok THEN [st |-> "err", s |-> <<>>]
             ELSE IF i + m.off < 0 THEN [st |-> "amb", s |-> <<>>]                  \* AMBIG
             ELSE cont(Fmt(i + m.off, m.width, m.base), e + 1)
      ELSE cont(Fmt(i, 0, 100), p + 1)
    ELSE cont(<<c>>, p + 1)
Subst(t, i) == SubstFrom(t, 1, i)

\* the RR line the i-th step of a $GENERATE denotes.  st: "ok" | "err" | "amb" | "nested"
GenLine(g, i) ==
  LET o == Subst(g.lhs, i)
      rs == [j \in 1..Len(g.rhs) |-> Subst(g.rhs[j].raw, i)]
      sts == {o.st} \cup { rs[j].st : j \in 1..Len(rs) }
  IN IF "amb" \in sts THEN [st |-> "amb", line |-> Blank]
     ELSE IF "err" \in sts THEN [st |-> "err", line |-> Blank]
     ELSE IF Upper(o.s) = kGENERATE THEN [st |-> "nested", line |-> Blank]          \* a $GENERATE inside a $GENERATE is rejected
     ELSE IF o.s # <<>> /\ o.s[1] = cDOLLAR THEN [st |-> "amb", line |-> Blank]     \* expands to some other directive: not stated
     ELSE LET own == RefOfText(o.s)
              rd == RDOfItems(g.type, [j \in 1..Len(rs) |-> Item(rs[j].s, g.rhs[j].q)])
          IN IF "amb" \in {own.st, rd.st} THEN [st |-> "amb", line |-> Blank]
             ELSE IF "err" \in {own.st, rd.st} THEN [st |-> "err", line |-> Blank]
             ELSE [st |-> "ok", line |-> RR(own.ref, g.ttl, g.class, g.order, g.type, rd.rd)]

GenCount(g) == (g.hi - g.lo) \div g.step + 1
GenRangeOK(g) == g.lo >= 0 /\ g.hi >= g.lo /\ g.step >= 1
GenTooMany(g) == (g.hi - g.lo) \div g.step >= MaxGen        \* (stated without computing the count: 32-bit integers)

-----------------------------------------------------------------------------
(* The denotation.  A parser state is a record; Step gives the SET of states   *)
(* one abstract line may lead to (more than one only where marked AMBIG).      *)
(*   cfg  = [defTTL (-1: none), origin, incAllowed, file (the path given for    *)
(*           the zone file itself), files: <<[name (full path), lines]>>]       *)
(*   s    = [origin, lastOwner, dirTTL ($TTL value), lastTTL (most recently    *)
(*           stated), out, err, undef, opens, depth, dir (the directory of the  *)
(*           file being read, as path components), pol]                        *)
(* Each record remembers the top-level line it came from (ln), where its TTL   *)
(* came from (src): "stated" | "$TTL" | "last" | "default", and whether it was *)
(* written as an RR line or expanded from a $GENERATE (via).                   *)

\* ---- paths.  A path is text with "/" between components; a leading "/" makes it absolute.
cSLASH == 47
JoinPath(cs) == Concat([i \in 1..Len(cs) |-> IF i = 1 THEN cs[i] ELSE <<cSLASH>> \o cs[i]])
PlainComponent(c) == c # <<>> /\ c # <<cDOT>> /\ c # <<cDOT, cDOT>>
\* st: "ok" | "err" (no name) | "amb" (".", "..", "//": path cleaning is not part of the statement)  \* AMBIG
ResolvePath(dir, name) ==
  IF name = <<>> THEN [st |-> "err", cs |-> <<>>]
  ELSE LET parts == Split(name, cSLASH)
           abs == parts[1] = <<>>
           rel == IF abs THEN Tail(parts) ELSE parts
           cs == IF abs THEN rel ELSE dir \o rel
       IN IF rel # <<>> /\ \A i \in 1..Len(rel) : PlainComponent(rel[i]) THEN [st |-> "ok", cs |-> cs] ELSE [st |-> "amb", cs |-> <<>>]
\* the directory of the zone file itself ("" and "db" live in the root)
DirOfFile(name) ==
  IF name = <<>> THEN <<>>
  ELSE LET parts == Split(name, cSLASH)
           cs == SelectSeq(parts, LAMBDA c : c # <<>>)
       IN IF cs = <<>> THEN <<>> ELSE SubSeq(cs, 1, Len(cs) - 1)

\* pol: the reading of the AMBIG carry-out questions, fixed for a run:
\*   io / it : owner / TTL state survives the end of an included file
\*   go / gt : owner / TTL state survives a $GENERATE
Policies == [io : BOOLEAN, it : BOOLEAN, go : BOOLEAN, gt : BOOLEAN]
StartP(cfg, pol) == [origin |-> cfg.origin, lastOwner |-> NoName, dirTTL |-> NoTTL, lastTTL |-> NoTTL,
                     out |-> <<>>, err |-> FALSE, errln |-> 0, undef |-> FALSE, opens |-> <<>>, depth |-> 0,
                     dir |-> DirOfFile(cfg.file), pol |-> pol]
Starts(cfg) == { StartP(cfg, pol) : pol \in Policies }
\* the policies that can make a difference for a given file (the others give the same outcomes; MC_Zone checks that)
HasKind(lines, k) == \E i \in 1..Len(lines) : lines[i].k = k
StartsFor(cfg, lines) ==
  LET inc == HasKind(lines, "include")
      gen == HasKind(lines, "generate") \/ (inc /\ \E f \in 1..Len(cfg.files) : HasKind(cfg.files[f].lines, "generate"))
  IN { StartP(cfg, p) : p \in { q \in Policies : (inc \/ (~q.io /\ ~q.it)) /\ (gen \/ (~q.go /\ ~q.gt)) } }

ErrAt(s, ln) == [s EXCEPT !.err = TRUE, !.errln = ln]        \* errln: the top-level line the error belongs to
Undef(s) == [s EXCEPT !.undef = TRUE]

EffTTL(s, cfg, ttl) ==
  IF ttl # -1 THEN [st |-> "ok", v |-> ttl, src |-> "stated"]
  ELSE IF s.dirTTL.set THEN [st |-> "ok", v |-> s.dirTTL.v, src |-> "$TTL"]
  ELSE IF s.lastTTL.set THEN [st |-> "ok", v |-> s.lastTTL.v, src |-> "last"]
  ELSE IF cfg.defTTL # -1 THEN [st |-> "ok", v |-> cfg.defTTL, src |-> "default"]
  ELSE [st |-> "amb", v |-> 0, src |-> "none"]            \* AMBIG: no TTL ever stated and none configured

\* the record an RR line denotes in state s
RecordOfVia(s, cfg, ln, line, via) ==     \* via: "rr" | "generate" -- the kind of line the record was written as
  LET o == IF line.owner.k = "omit"
           THEN (IF s.lastOwner.set THEN [st |-> "ok", n |-> s.lastOwner.n]
                 ELSE [st |-> "amb", n |-> <<>>])                                   \* AMBIG: omitted owner on the very first record
           ELSE Complete(line.owner, s.origin)
      t == EffTTL(s, cfg, line.ttl)
      w == RdataWire(line.type, line.rd, s.origin)
      sts == {o.st, t.st, w.st}
  IN [st |-> IF "amb" \in sts THEN "amb" ELSE IF "err" \in sts THEN "err" ELSE "ok",
      rec |-> [owner |-> o.n, ttl |-> t.v, class |-> IF line.class = 0 THEN cIN ELSE line.class,
               type |-> line.type, rdata |-> w.w, ln |-> ln, src |-> t.src, via |-> via]]
RecordOf(s, cfg, ln, line) == RecordOfVia(s, cfg, ln, line, "rr")

FileIndex(cfg, name) == LET hit == { i \in 1..Len(cfg.files) : cfg.files[i].name = name } IN
                        IF hit = {} THEN 0 ELSE CHOOSE i \in hit : TRUE

RECURSIVE Step(_, _, _, _), RunLines(_, _, _, _, _)

\* state carried OUT of an included file or a $GENERATE back into the includer: owner and TTL state
\* either survive or do not, as the run's policy says  \* AMBIG
CarryOut(s, sub, keepOwner, keepTTL) ==
  LET tt == IF keepTTL THEN sub ELSE s IN
  [sub EXCEPT !.origin = s.origin, !.depth = s.depth, !.dir = s.dir, !.lastOwner = IF keepOwner THEN sub.lastOwner ELSE s.lastOwner,
              !.dirTTL = tt.dirTTL, !.lastTTL = tt.lastTTL]

Step(s, cfg, line, ln) ==
  IF s.err \/ s.undef THEN {s}                                  \* the error is sticky: no further records
  ELSE CASE line.k = "blank" -> {s}
    [] line.k = "rr" ->
         LET r == RecordOf(s, cfg, ln, line) IN
         IF r.st = "amb" THEN {Undef(s)}
         ELSE IF r.st = "err" THEN {ErrAt(s, ln)}
         ELSE {[s EXCEPT !.out = Append(@, r.rec), !.lastOwner = Name(r.rec.owner),
                         !.lastTTL = IF line.ttl # -1 THEN SomeTTL(line.ttl) ELSE @]}
    [] line.k = "origin" ->
         LET c == Complete(line.name, s.origin) IN
         IF c.st = "amb" THEN {Undef(s)} ELSE IF c.st = "err" THEN {ErrAt(s, ln)} ELSE {[s EXCEPT !.origin = Name(c.n)]}
    [] line.k = "ttl" -> {[s EXCEPT !.dirTTL = SomeTTL(line.v)]}
    [] line.k = "include" ->
         IF ~cfg.incAllowed THEN {ErrAt(s, ln)}                       \* and no Open
         ELSE IF s.depth >= MaxDepth THEN {ErrAt(s, ln)}
         ELSE LET c == IF line.origin.k = "omit" THEN [st |-> "ok", n |-> s.origin.n] ELSE Complete(line.origin, s.origin)
                  no == IF line.origin.k = "omit" THEN s.origin ELSE Name(c.n)
                  rp == ResolvePath(s.dir, line.file)
                  path == JoinPath(rp.cs)
                  fi == FileIndex(cfg, path)
                  opened == [s EXCEPT !.opens = Append(@, path)]
              IN IF c.st = "amb" \/ rp.st = "amb" THEN {Undef(s)}
                 ELSE IF c.st = "err" \/ rp.st = "err" THEN {ErrAt(s, ln)}
                 ELSE (IF s.depth >= SureDepth THEN {ErrAt(s, ln)} ELSE {})         \* AMBIG: the property fixes no depth
                      \cup (IF fi = 0 THEN {ErrAt(opened, ln)}                       \* no such file
                            ELSE      { IF sub.err \/ sub.undef
                                         THEN CarryOut(s, sub, FALSE, FALSE)
                                         ELSE CarryOut(s, sub, s.pol.io, s.pol.it) :
                                         sub \in RunLines({[opened EXCEPT !.origin = no, !.lastOwner = NoName, !.depth = @ + 1,
                                                                   !.dir = SubSeq(rp.cs, 1, Len(rp.cs) - 1)]},
                                                          cfg, cfg.files[fi].lines, 1, ln) })
    [] line.k = "generate" ->
         IF ~GenRangeOK(line) THEN {ErrAt(s, ln)}
         ELSE IF GenTooMany(line) THEN {ErrAt(s, ln)}
         ELSE LET n == GenCount(line)
                  gl == [j \in 1..n |-> GenLine(line, line.lo + (j - 1) * line.step)]
                  rs == [j \in 1..n |-> IF gl[j].st = "ok" THEN RecordOfVia(s, cfg, ln, gl[j].line, "generate")
                                        ELSE [st |-> IF gl[j].st = "amb" THEN "amb" ELSE "err", rec |-> <<>>]]
                  bad == { j \in 1..n : rs[j].st # "ok" }
              IN IF \E j \in bad : rs[j].st = "amb" THEN {Undef(s)}
                 ELSE IF bad # {} THEN
                   LET jb == CHOOSE j \in bad : \A k \in bad : j <= k IN
                   {ErrAt([s EXCEPT !.out = @ \o [j \in 1..(jb - 1) |-> rs[j].rec]], ln)}
                 ELSE {CarryOut(s, [s EXCEPT !.out = @ \o [j \in 1..n |-> rs[j].rec],
                                             !.lastOwner = Name(rs[n].rec.owner),
                                             !.lastTTL = IF line.ttl # -1 THEN SomeTTL(line.ttl) ELSE @],
                                s.pol.go, s.pol.gt)}
    [] OTHER -> {ErrAt(s, ln)}

\* fl = 0: top level, records are attributed to the index of their line; otherwise to line fl
RunLines(S, cfg, lines, i, fl) ==
  IF i > Len(lines) THEN S
  ELSE RunLines(UNION { Step(s, cfg, lines[i], IF fl = 0 THEN i ELSE fl) : s \in S }, cfg, lines, i + 1, fl)

Outcome(s) == [undef |-> s.undef, err |-> s.err, errln |-> s.errln, recs |-> IF s.undef THEN <<>> ELSE s.out, nopen |-> Len(s.opens)]
\* everything a file may denote under a configuration
Denotations(cfg, lines) == { Outcome(s) : s \in RunLines(StartsFor(cfg, lines), cfg, lines, 1, 0) }
DenotationsAllPolicies(cfg, lines) == { Outcome(s) : s \in RunLines(Starts(cfg), cfg, lines, 1, 0) }

-----------------------------------------------------------------------------
(* The initial origin as the caller states it: TEXT (the quantifier of C07 is  *)
(* "any origin").  "" = none.  Otherwise the text is made fully qualified (a   *)
(* relative one can only be completed with the root) and read as a name.  A    *)
(* text that is not a domain name -- empty label, label > 63, name > 255 -- is *)
(* the parser's first problem: it is in the error state before the first line  *)
(* is read, so it returns no record and opens no file, whatever the zone says. *)
(* st: "ok" | "err" | "amb" (\DDD > 255, a dangling backslash: not stated)     *)
OriginOfText(t) ==
  IF t = <<>> THEN [st |-> "ok", origin |-> NoName]
  ELSE LET p == Parse(FqdnSpec(t)) IN
       IF p.st = "undef" THEN [st |-> "amb", origin |-> NoName]                      \* AMBIG
       ELSE IF p.st # "ok" \/ ~ValidName(p.labels) THEN [st |-> "err", origin |-> NoName]
       ELSE IF ~p.fq THEN [st |-> "amb", origin |-> NoName]                           \* AMBIG
       ELSE [st |-> "ok", origin |-> Name(p.labels)]

\* a parser state that is in error before any line (errln = 0: the error belongs to no line)
FailedStart(cfg, pol) == ErrAt(StartP(cfg, pol), 0)
\* everything a file may denote under a configuration whose initial origin is given as text
DenotationsO(cfg, otext, lines) ==
  LET o == OriginOfText(otext) IN
  IF o.st = "err" THEN { Outcome(s) : s \in RunLines({ FailedStart(cfg, pol) : pol \in Policies }, cfg, lines, 1, 0) }
  ELSE IF o.st = "amb" THEN { Outcome(Undef(StartP(cfg, pol))) : pol \in Policies }
  ELSE Denotations([cfg EXCEPT !.origin = o.origin], lines)

-----------------------------------------------------------------------------
(* A canonical spelling of every abstract line, and two rewritings of a file   *)
(* that must not change what it denotes (they drive the "equivalent spellings" *)
(* of the binding: everything explicit / everything that can be omitted).      *)

DecText(v) == DigitsOf(v, 10, FALSE)
Mnemonic(tab, code) == tab[CHOOSE i \in 1..Len(tab) : tab[i][2] = code][1]
RenderRef(r) == CASE r.k = "at"  -> <<cAT>>
                  [] r.k = "abs" -> Present(r.n)
                  [] r.k = "rel" -> LET t == Present(r.n) IN Sub(t, 1, Len(t) - 1)
                  [] OTHER -> <<>>
JoinSp(parts) == LET ne == SelectSeq(parts, LAMBDA x : x # <<>>) IN
                 Concat([i \in 1..Len(ne) |-> IF i = 1 THEN ne[i] ELSE <<cSP>> \o ne[i]])
RenderHeader(ttl, class, order, type) ==
  LET t == IF ttl = -1 THEN <<>> ELSE DecText(ttl)
      c == IF class = 0 THEN <<>> ELSE Mnemonic(ClassTable, class)
  IN JoinSp(IF order = "tc" THEN <<t, c, Mnemonic(TypeTable, type)>> ELSE <<c, t, Mnemonic(TypeTable, type)>>)
RenderRD(type, rd) ==
  CASE type = tA -> Concat([i \in 1..4 |-> (IF i = 1 THEN <<>> ELSE <<cDOT>>) \o DecText(rd.ip[i])])
    [] type \in {tNS, tCNAME} -> RenderRef(rd.nm)
    [] type = tMX -> DecText(rd.pref) \o <<cSP>> \o RenderRef(rd.nm)
    [] type = tTXT -> JoinSp([i \in 1..Len(rd.txt) |-> RenderVal(rd.txt[i], TRUE)])
    [] OTHER -> <<>>
RenderLine(line) ==
  (CASE line.k = "blank" -> <<>>
     [] line.k = "rr" -> (IF line.owner.k = "omit" THEN <<>> ELSE RenderRef(line.owner)) \o <<cSP>>
                         \o RenderHeader(line.ttl, line.class, line.order, line.type) \o <<cSP>> \o RenderRD(line.type, line.rd)
     [] line.k = "origin" -> kORIGIN \o <<cSP>> \o RenderRef(line.name)
     [] line.k = "ttl" -> kTTL \o <<cSP>> \o DecText(line.v)
     [] line.k = "include" -> JoinSp(<<kINCLUDE, RenderVal(line.file, FALSE), RenderRef(line.origin)>>)
     [] line.k = "generate" ->
          JoinSp(<<kGENERATE,
                   DecText(line.lo) \o <<45>> \o DecText(line.hi) \o (IF line.step = 1 THEN <<>> ELSE <<47>> \o DecText(line.step)),
                   line.lhs, RenderHeader(line.ttl, line.class, line.order, line.type)>>
                 \o [j \in 1..Len(line.rhs) |-> IF line.rhs[j].q THEN <<cQUOTE>> \o line.rhs[j].raw \o <<cQUOTE>> ELSE line.rhs[j].raw]))
  \o <<cLF>>
RenderFile(lines) == Concat([i \in 1..Len(lines) |-> RenderLine(lines[i])])

\* a name as a reference relative to an origin, where that is possible
Relativise(n, o) ==
  IF ~o.set THEN Abs(n)
  ELSE IF n = o.n THEN At
  ELSE IF Len(n) > Len(o.n) /\ Sub(n, Len(n) - Len(o.n) + 1, Len(n)) = o.n THEN Rel(Sub(n, 1, Len(n) - Len(o.n)))
  ELSE Abs(n)
AbsoluteRD(type, rd, o) ==
  IF type \in {tNS, tCNAME, tMX} THEN LET c == Complete(rd.nm, o) IN IF c.st = "ok" THEN [rd EXCEPT !.nm = Abs(c.n)] ELSE rd ELSE rd
RelativeRD(type, rd, o) ==
  IF type \in {tNS, tCNAME, tMX} THEN LET c == Complete(rd.nm, o) IN IF c.st = "ok" THEN [rd EXCEPT !.nm = Relativise(c.n, o)] ELSE rd ELSE rd

Same(S, f(_)) == \A a \in S, b \in S : f(a) = f(b)
Live(S) == S # {} /\ \A s \in S : ~s.err /\ ~s.undef

\* every RR line with owner, TTL and class written out and every name absolute
ExplicitLine(S, c, line) ==
  IF ~Live(S) THEN line
  ELSE IF line.k = "rr" THEN
    LET R(s) == LET r == RecordOf(s, c, 0, line) IN <<r.st, r.rec.owner, r.rec.ttl, r.rec.class>>
        s0 == CHOOSE s \in S : TRUE
        r0 == RecordOf(s0, c, 0, line)
    IN IF Same(S, R) /\ r0.st = "ok" /\ Same(S, LAMBDA s : s.origin)
       THEN RR(Abs(r0.rec.owner), r0.rec.ttl, r0.rec.class, line.order, line.type, AbsoluteRD(line.type, line.rd, s0.origin))
       ELSE line
  ELSE IF line.k = "generate" THEN
    LET T(s) == EffTTL(s, c, line.ttl)  s0 == CHOOSE s \in S : TRUE IN
    IF Same(S, T) /\ T(s0).st = "ok"
    THEN [line EXCEPT !.ttl = T(s0).v, !.class = IF line.class = 0 THEN cIN ELSE line.class]
    ELSE line
  ELSE line

\* every RR line with whatever can be left out left out, and names relative where possible
MinimalLine(S, c, line) ==
  IF ~Live(S) \/ line.k # "rr" THEN line
  ELSE LET s0 == CHOOSE s \in S : TRUE
           own == Complete(line.owner, s0.origin)
           oneOrigin == Same(S, LAMBDA s : s.origin)
           omitOwner == /\ line.owner.k # "omit" /\ oneOrigin /\ own.st = "ok"
                        /\ \A s \in S : s.lastOwner = Name(own.n)
           omitTTL == /\ line.ttl # -1
                      /\ \A s \in S : EffTTL(s, c, -1).st = "ok" /\ EffTTL(s, c, -1).v = line.ttl /\ s.lastTTL = SomeTTL(line.ttl)
       IN [line EXCEPT !.owner = IF omitOwner THEN Omit
                                  ELSE IF oneOrigin /\ own.st = "ok" /\ line.owner.k # "omit" THEN Relativise(own.n, s0.origin) ELSE @,
                       !.ttl = IF omitTTL THEN -1 ELSE @,
                       !.class = IF @ = cIN THEN 0 ELSE @,
                       !.order = IF omitTTL \/ line.ttl = -1 \/ line.class \in {0, cIN} THEN "tc" ELSE @,   \* order is only meaningful when both are written
                       !.rd = IF oneOrigin THEN RelativeRD(line.type, @, s0.origin) ELSE @]

RECURSIVE RewriteFrom(_, _, _, _, _)
RewriteFrom(S, c, lines, i, how) ==
  IF i > Len(lines) THEN <<>>
  ELSE <<IF how = "explicit" THEN ExplicitLine(S, c, lines[i]) ELSE MinimalLine(S, c, lines[i])>>
       \o RewriteFrom(UNION { Step(s, c, lines[i], i) : s \in S }, c, lines, i + 1, how)
Explicit(c, lines) == RewriteFrom(StartsFor(c, lines), c, lines, 1, "explicit")
Minimal(c, lines)  == RewriteFrom(StartsFor(c, lines), c, lines, 1, "minimal")

\* outcomes without the bookkeeping fields (line attribution, TTL source)
Plain3(o) == [undef |-> o.undef, err |-> o.err, errln |-> o.errln,
              recs |-> [i \in 1..Len(o.recs) |-> [owner |-> o.recs[i].owner, ttl |-> o.recs[i].ttl, class |-> o.recs[i].class,
                                                  type |-> o.recs[i].type, rdata |-> o.recs[i].rdata]]]
Meaning(c, lines) == LET D == Denotations(c, lines) IN
                     IF \E o \in D : o.undef THEN {} ELSE { Plain3(o) : o \in D }      \* {} = unconstrained

-----------------------------------------------------------------------------
(* The same thing as a TLA+ state machine: one action per abstract line.       *)

VARIABLES cfg, pol, origin, lastOwner, dirTTL, lastTTL, out, err, errln, undef, opens, depth, dir, nline
zvars == <<cfg, pol, origin, lastOwner, dirTTL, lastTTL, out, err, errln, undef, opens, depth, dir, nline>>

Cur == [origin |-> origin, lastOwner |-> lastOwner, dirTTL |-> dirTTL, lastTTL |-> lastTTL,
        out |-> out, err |-> err, errln |-> errln, undef |-> undef, opens |-> opens, depth |-> depth, dir |-> dir, pol |-> pol]
Becomes(s) == /\ origin' = s.origin /\ lastOwner' = s.lastOwner /\ dirTTL' = s.dirTTL /\ lastTTL' = s.lastTTL
              /\ out' = s.out /\ err' = s.err /\ errln' = s.errln /\ undef' = s.undef /\ opens' = s.opens /\ depth' = s.depth /\ dir' = s.dir

ZInit(c) == /\ cfg = c /\ nline = 0 /\ pol \in Policies
            /\ origin = c.origin /\ lastOwner = NoName /\ dirTTL = NoTTL /\ lastTTL = NoTTL
            /\ out = <<>> /\ err = FALSE /\ errln = 0 /\ undef = FALSE /\ opens = <<>> /\ depth = 0 /\ dir = DirOfFile(c.file)

\* the machine started from an initial origin given as text (see OriginOfText): a bad one starts it in the error state
ZInitO(c, otext) ==
  LET o == OriginOfText(otext) IN
  /\ cfg = [c EXCEPT !.origin = o.origin] /\ nline = 0 /\ pol \in Policies
  /\ origin = o.origin /\ lastOwner = NoName /\ dirTTL = NoTTL /\ lastTTL = NoTTL
  /\ out = <<>> /\ err = (o.st = "err") /\ errln = 0 /\ undef = (o.st = "amb") /\ opens = <<>> /\ depth = 0 /\ dir = DirOfFile(c.file)

Do(line) == /\ nline' = nline + 1 /\ UNCHANGED <<cfg, pol>>
            /\ \E s \in Step(Cur, cfg, line, nline + 1) : Becomes(s)

BlankLine                                    == Do(Blank)
RRLine(owner, ttl, class, order, type, rd)   == Do(RR(owner, ttl, class, order, type, rd))
OriginDir(name)                              == Do(Origin(name))
TTLDir(v)                                    == Do(TTL(v))
IncludeDir(file, originOpt)                  == Do(Include(file, originOpt))
GenerateDir(lo, hi, step, lhs, ttl, class, order, type, rhs) ==
                                                Do(Generate(lo, hi, step, lhs, ttl, class, order, type, rhs))

\* dispatch on a line value (the trace and model-checking specs feed lines as data)
LineAction(line) ==
  CASE line.k = "blank"    -> BlankLine
    [] line.k = "rr"       -> RRLine(line.owner, line.ttl, line.class, line.order, line.type, line.rd)
    [] line.k = "origin"   -> OriginDir(line.name)
    [] line.k = "ttl"      -> TTLDir(line.v)
    [] line.k = "include"  -> IncludeDir(line.file, line.origin)
    [] line.k = "generate" -> GenerateDir(line.lo, line.hi, line.step, line.lhs, line.ttl, line.class, line.order, line.type, line.rhs)

(* Safety side (C07) *)
StickyError   == [][err => err' /\ out' = out /\ opens' = opens]_zvars
OpenOnlyIfAllowed == ~cfg.incAllowed => opens = <<>>
=============================================================================
