------------------------------ MODULE Compress ------------------------------
(* C04: name compression (RFC 1035 s.4.1.4, RFC 3597 s.4) -- what the property *)
(* ALLOWS, stated twice:                                                       *)
(*                                                                             *)
(*  encoder side   PackAny: while the names of a message are emitted in order  *)
(*                 (the packing plan of WireRR!PlanMsg / CompressLen!PlanOf),  *)
(*                 each name may be cut after any number of literal labels and *)
(*                 continued by a pointer to t, provided compression is on,    *)
(*                 the position is compressible (owner, question, `cname'      *)
(*                 field), t < MaxOff, t lies before the name, t is the start  *)
(*                 of a label sequence emitted as (part of) a name, and what   *)
(*                 Names!DecName reads at t is octet for octet (case included) *)
(*                 the rest of the name.  Nothing is said about WHICH allowed  *)
(*                 choice is taken: maximal compression is not required.       *)
(*                 CompressLen!PackImpl (the model of packDomainName) is one   *)
(*                 strategy; MC_Compress shows every step of it is allowed.    *)
(*                                                                             *)
(*  decoder side   ValidCompressed(bytesC, bytesU): the octets packed with     *)
(*                 Compress = true against the octets packed with Compress =   *)
(*                 false, both walked by an independent reader (Framing!RRAt,  *)
(*                 Names!DecName, per-type RDATA name positions from           *)
(*                 WireRR!Layout).  The walk yields a PART STREAM that tiles   *)
(*                 the octets: opaque ranges, RDLENGTH fields and name parts   *)
(*                 (offset, literal labels, pointer target, full name, may it  *)
(*                 be compressed).  Judge == the first violated clause, "ok"   *)
(*                 if none.  The same judge accepts a part stream computed by  *)
(*                 the harness' walker for messages too large to walk in TLC   *)
(*                 (it re-checks that the stream tiles the octets).            *)
(*                                                                             *)
(* Both sides meet in MC_Compress: the part stream of every PackAny behaviour  *)
(* is judged "ok", and one choice outside PackAny is judged with its clause.   *)
EXTENDS CompressLen, Framing

PtrOctets(t) == << 192 + (t \div 256), t % 256 >>
EncLits(ls)  == Concat([j \in 1..Len(ls) |-> <<Len(ls[j])>> \o ls[j]])

-----------------------------------------------------------------------------
(* Encoder side.  A state of the packer: out = octets so far, starts = offsets *)
(* at which a suffix of an emitted name starts: every literal label, and the   *)
(* octet after the last one -- the root octet (the empty suffix) or, AMBIG, a  *)
(* pointer (RFC 1035 s.4.1.4 lets a pointer lead to a pointer; the suffix      *)
(* starts there in compressed form).  A choice for name n: labels 1..i-1       *)
(* literally, then the root octet (t = -1) or a pointer to t.                  *)

EncCut(n, i, t) == EncLits(SubSeq(n, 1, i - 1)) \o (IF t = -1 THEN <<0>> ELSE PtrOctets(t))

\* offset of label j of a name written at off (j = Len + 1: its root octet / pointer)
LabelOff(n, off, j) == off + WirePrefix(n, j)

Allowed(out, starts, n, c, valid, i, t) ==
  /\ i \in 1..(Len(n) + 1)
  /\ IF t = -1 THEN i = Len(n) + 1                          \* written out in full
     ELSE /\ valid                                          \* Compress is on
          /\ c                                              \* owner / question / RFC 1035 RDATA name
          /\ t >= 0 /\ t < MaxOff                           \* a 14-bit pointer reaches it
          /\ t < Len(out)                                   \* earlier than the name itself
          /\ t \in starts                                   \* a name suffix of this message starts there
          /\ LET d == DecName(out, t) IN d.ok /\ d.name = Suffix(n, i)     \* case preserved
          \* AMBIG: i = Len(n) + 1 (a pointer to a root octet) is a valid, if useless, compression: admitted

Emit1(st, n, i, t) ==
  LET off == Len(st.out) IN
  [out    |-> st.out \o EncCut(n, i, t),
   starts |-> st.starts \cup { LabelOff(n, off, j) : j \in 1..i }]

EmitSkip(st, len, fill) == [st EXCEPT !.out = @ \o [x \in 1..len |-> fill]]

(* PackImpl as a sequence of choices: PNC mirrors CompressLen!PN and also says *)
(* where the name was cut.  (MC_Compress checks PNC against PN.)               *)
RECURSIVE PNC(_, _, _, _, _)
PNC(n, i, off, cm, comp) ==
  IF i > Len(n) THEN [i |-> i, t |-> -1, off |-> off + 1, cm |-> cm]
  ELSE LET key == Suffix(n, i) IN
    IF key \in DOMAIN cm THEN
      IF comp THEN [i |-> i, t |-> cm[key], off |-> off + 2, cm |-> cm]
      ELSE PNC(n, i + 1, off + 1 + Len(n[i]), cm, comp)
    ELSE PNC(n, i + 1, off + 1 + Len(n[i]), IF off < MaxOff THEN (key :> off) @@ cm ELSE cm, comp)

ImplChoice(n, off, cm, comp, valid) ==
  IF valid THEN PNC(n, 1, off, cm, comp)
  ELSE [i |-> Len(n) + 1, t |-> -1, off |-> off + WireLen(n), cm |-> cm]

-----------------------------------------------------------------------------
(* Part streams.  A part covers the octets [a, z) of its message (0-based):    *)
(*   [k |-> "o", a, z]                         octets that are not a name      *)
(*   [k |-> "l", a, z, v, n]                   an RDLENGTH field with value v; *)
(*                                             the next n parts are the RDATA  *)
(*   [k |-> "n", a, z, lits, ptr, c, name, tk, tj, t]                          *)
(*        a name: literal labels, then a pointer to ptr (or -1: root octet);   *)
(*        c: position may be compressed; name: all labels after following the  *)
(*        pointers; (tk, tj): the pointer's target is label tj of part tk      *)
(*        (tj = Len(lits)+1: its root octet / pointer) -- a hint, verified;    *)
(*        t: RR type the name belongs to, 0 in the question section            *)

OPart(a, z) == [k |-> "o", a |-> a, z |-> z]
LPart(a, v, n) == [k |-> "l", a |-> a, z |-> a + 2, v |-> v, n |-> n]
NPart(a, lits, ptr, c, name, t) ==
  [k |-> "n", a |-> a, z |-> a + SumSeq([j \in 1..Len(lits) |-> 1 + Len(lits[j])]) + (IF ptr = -1 THEN 1 ELSE 2),
   lits |-> lits, ptr |-> ptr, c |-> c, name |-> name, tk |-> 0, tj |-> 0, t |-> t]

PartEnc(p) == EncLits(p.lits) \o (IF p.ptr = -1 THEN <<0>> ELSE PtrOctets(p.ptr))

\* the stream lies on the octets: contiguous from `from' to the end, names and RDLENGTHs are what the octets say
Tiles(s, b, from) ==
  /\ Len(s) = 0 => from = Len(b)
  /\ Len(s) > 0 => s[1].a = from /\ s[Len(s)].z = Len(b)
  /\ \A x \in 1..Len(s) :
       /\ s[x].a <= s[x].z /\ s[x].z <= Len(b)
       /\ x > 1 => s[x].a = s[x - 1].z
       /\ s[x].k = "n" => Sub(b, s[x].a + 1, s[x].z) = PartEnc(s[x])
       /\ s[x].k = "l" => /\ s[x].z = s[x].a + 2
                          /\ U16At(b, s[x].a) = s[x].v
                          /\ x + s[x].n <= Len(s)
                          /\ s[x].v = SumSeq([y \in 1..s[x].n |-> s[x + y].z - s[x + y].a])

\* the pointer of name part x is explained by the parts before it (PackAny's guard on streams)
HintOK(s, x) ==
  LET p == s[x] IN
  /\ p.tk \in 1..(x - 1)
  /\ s[p.tk].k = "n"
  /\ LET q == s[p.tk] IN
     /\ p.tj \in 1..(Len(q.lits) + 1)
     /\ LabelOff(q.lits, q.a, p.tj) = p.ptr
NameOK(s, x) ==
  LET p == s[x] IN
  IF p.ptr = -1 THEN p.name = p.lits
  ELSE HintOK(s, x) /\ p.name = p.lits \o Suffix(s[p.tk].name, p.tj)

\* first violated clause of the pointer rules, "ok" if none
PtrStage(s, valid) ==
  LET ns  == { x \in 1..Len(s) : s[x].k = "n" }
      ps  == { x \in ns : s[x].ptr # -1 }
  IN IF \E x \in ps : ~valid THEN "pointer-when-compress-off"
     ELSE IF \E x \in ps : ~s[x].c THEN "pointer-in-uncompressible-rdata"
     ELSE IF \E x \in ps : s[x].ptr >= MaxOff THEN "pointer-target-beyond-limit"
     ELSE IF \E x \in ps : s[x].ptr >= s[x].a THEN "pointer-not-backwards"
     ELSE IF \E x \in ps : ~HintOK(s, x) THEN "pointer-not-to-a-name-suffix"
     ELSE IF \E x \in ns : ~NameOK(s, x) THEN "name-not-explained"          \* the stream lies about a name
     ELSE IF \E x \in ns : ~WFName(s[x].name) THEN "name-invalid"
     ELSE "ok"
PtrBad(s, valid) ==          \* index of the first part the stage is about (0: none)
  LET ps == { x \in 1..Len(s) : s[x].k = "n" /\ s[x].ptr # -1 /\
                (~valid \/ ~s[x].c \/ s[x].ptr >= MaxOff \/ s[x].ptr >= s[x].a \/ ~HintOK(s, x)) }
  IN IF ps = {} THEN 0 ELSE CHOOSE x \in ps : \A y \in ps : x <= y
\* where a name part sits, for finding keys: <<"question" | "owner" | "rdata", RR type>>
WhereOf(s, x) ==
  IF x = 0 THEN <<"-", 0>>
  ELSE IF s[x].t = 0 THEN <<"question", 0>>
  ELSE IF x + 2 <= Len(s) /\ s[x + 1].k = "o" /\ s[x + 2].k = "l" THEN <<"owner", s[x].t>>
  ELSE <<"rdata", s[x].t>>

\* both streams denote the same message: same parts in the same order, names equal with case,
\* other octets equal; RDLENGTH is implied by the RDATA parts and checked by Tiles on each side
SamePart(p, q, bc, bu) ==
  /\ p.k = q.k
  /\ p.k = "n" => p.name = q.name /\ p.c = q.c /\ p.t = q.t
  /\ p.k = "o" => Sub(bc, p.a + 1, p.z) = Sub(bu, q.a + 1, q.z)
  /\ p.k = "l" => p.n = q.n
FirstDiff(sc, su, bc, bu) ==
  LET m  == Min(Len(sc), Len(su))
      ds == { x \in 1..m : ~SamePart(sc[x], su[x], bc, bu) }
  IN IF ds = {} THEN 0 ELSE CHOOSE x \in ds : \A y \in ds : x <= y

(* The judge.  from = 12 for messages (the header is compared separately).     *)
JudgeStreams(bc, bu, sc, su, from) ==
  IF ~Tiles(su, bu, from) THEN "ill:uncompressed-stream"
  ELSE IF ~Tiles(sc, bc, from) THEN "ill:compressed-stream"
  ELSE IF PtrStage(su, FALSE) # "ok" THEN PtrStage(su, FALSE)                \* no pointer at all with Compress = false
  ELSE IF Sub(bc, 1, from) # Sub(bu, 1, from) THEN "header-differs"
  ELSE IF Len(sc) # Len(su) \/ FirstDiff(sc, su, bc, bu) # 0 THEN "not-transparent"
  ELSE IF Len(bc) > Len(bu) THEN "longer"
  ELSE PtrStage(sc, TRUE)

-----------------------------------------------------------------------------
(* The independent reader: octets -> part stream.                              *)

RECURSIVE LitsAt(_, _, _)
LitsAt(b, off, acc) ==
  IF off >= Len(b) THEN [ok |-> FALSE]
  ELSE LET c == b[off + 1] IN
    IF c = 0 THEN [ok |-> TRUE, lits |-> acc, ptr |-> -1, next |-> off + 1]
    ELSE IF c < 64 THEN
      IF off + 1 + c > Len(b) THEN [ok |-> FALSE]
      ELSE LitsAt(b, off + 1 + c, Append(acc, Sub(b, off + 2, off + 1 + c)))
    ELSE IF c >= 192 THEN
      IF off + 1 >= Len(b) THEN [ok |-> FALSE]
      ELSE [ok |-> TRUE, lits |-> acc, ptr |-> (c - 192) * 256 + b[off + 2], next |-> off + 2]
    ELSE [ok |-> FALSE]

NameAt(b, off, c, t) ==
  LET l == LitsAt(b, off, <<>>)  d == DecName(b, off) IN
  IF ~l.ok \/ ~d.ok THEN [ok |-> FALSE]
  ELSE [ok |-> TRUE, next |-> l.next, p |-> NPart(off, l.lits, l.ptr, c, d.name, t)]

WFail(why) == [ok |-> FALSE, why |-> why]

(* RDATA of type t in [off, end): fields in Layout order; integer fields are   *)
(* remembered (f) because they size later fields / select the gateway form.    *)
(* Kinds that run to the end of RDATA are not looked into.                     *)
RECURSIVE RdNames(_, _, _, _, _), RdWalk(_, _, _, _, _, _, _, _)
RdNames(b, off, end, t, acc) ==
  IF off = end THEN [ok |-> TRUE, parts |-> acc]
  ELSE IF off > end THEN WFail("rdata-overrun")
  ELSE LET x == NameAt(b, off, FALSE, t) IN
       IF ~x.ok THEN WFail("rdata-name") ELSE RdNames(b, x.next, end, t, Append(acc, x.p))
RdWalk(es, i, b, off, end, f, t, acc) ==
  IF off > end THEN WFail("rdata-overrun")
  ELSE IF i > Len(es) THEN (IF off = end THEN [ok |-> TRUE, parts |-> acc] ELSE WFail("rdata-trailing"))
  ELSE LET e == es[i]  k == e.k
           fixed(w) == RdWalk(es, i + 1, b, off + w, end, f, t, Append(acc, OPart(off, off + w)))
           name(c)  == LET x == NameAt(b, off, c, t) IN
                       IF ~x.ok THEN WFail("rdata-name") ELSE RdWalk(es, i + 1, b, x.next, end, f, t, Append(acc, x.p))
       IN
    IF k = "u8" THEN
      (IF off + 1 > end THEN WFail("rdata-short")
       ELSE RdWalk(es, i + 1, b, off + 1, end, (e.n :> b[off + 1]) @@ f, t, Append(acc, OPart(off, off + 1))))
    ELSE IF k = "u16" THEN
      (IF off + 2 > end THEN WFail("rdata-short")
       ELSE RdWalk(es, i + 1, b, off + 2, end, (e.n :> U16At(b, off)) @@ f, t, Append(acc, OPart(off, off + 2))))
    ELSE IF k \in DOMAIN FixedWidth THEN fixed(FixedWidth[k])
    ELSE IF k \in {"name", "cname"} THEN name(k = "cname")
    ELSE IF k = "str" THEN (IF off + 1 > end THEN WFail("rdata-short") ELSE fixed(1 + b[off + 1]))
    ELSE IF k = "gateway" THEN
      (LET sel == f[e.of] % e.mod IN
       IF sel = 0 THEN RdWalk(es, i + 1, b, off, end, f, t, acc)
       ELSE IF sel = 1 THEN fixed(4) ELSE IF sel = 2 THEN fixed(16)
       ELSE IF sel = 3 THEN name(FALSE) ELSE WFail("gateway-type"))
    ELSE IF k = "names" THEN
      (LET r == RdNames(b, off, end, t, acc) IN
       IF ~r.ok THEN r ELSE RdWalk(es, i + 1, b, end, end, f, t, r.parts))
    ELSE IF "sz" \in DOMAIN e THEN fixed(f[e.sz])
    ELSE IF off = end THEN RdWalk(es, i + 1, b, end, end, f, t, acc)          \* nothing left for a run-to-the-end field
    ELSE fixed(end - off)

RECURSIVE WalkQs(_, _, _, _), WalkRRs(_, _, _, _)
WalkQs(b, off, k, acc) ==
  IF k = 0 THEN [ok |-> TRUE, next |-> off, parts |-> acc]
  ELSE LET x == NameAt(b, off, TRUE, 0) IN
       IF ~x.ok THEN WFail("qname")
       ELSE IF x.next + 4 > Len(b) THEN WFail("question-short")
       ELSE WalkQs(b, x.next + 4, k - 1, acc \o << x.p, OPart(x.next, x.next + 4) >>)
WalkRRs(b, off, k, acc) ==
  IF k = 0 THEN [ok |-> TRUE, next |-> off, parts |-> acc]
  ELSE LET r == RRAt(b, off) IN
       IF ~r.ok THEN WFail("rr-frame")
       ELSE LET x  == NameAt(b, off, TRUE, r.type)
                rd == IF r.rdlen = 0 THEN [ok |-> TRUE, parts |-> <<>>]           \* RDATA-less (RFC 2136) or empty
                      ELSE RdWalk(FieldsOf(r.type), 1, b, r.rdstart, r.next, <<>>, r.type, <<>>)
            IN IF ~x.ok THEN WFail("owner")
               ELSE IF ~rd.ok THEN rd
               ELSE WalkRRs(b, r.next, k - 1,
                            acc \o << x.p, OPart(x.next, x.next + 8), LPart(x.next + 8, r.rdlen, Len(rd.parts)) >> \o rd.parts)

\* strict: the counts are honoured and the whole input is consumed
StreamOf(b) ==
  IF ~HeaderOK(b) \/ ~IsOctets(b) THEN WFail("header")
  ELSE LET h == Hdr(b)
           q == WalkQs(b, 12, h.qd, <<>>) IN
       IF ~q.ok THEN q
       ELSE LET r == WalkRRs(b, q.next, h.an + h.ns + h.ar, q.parts) IN
            IF ~r.ok THEN r
            ELSE IF r.next # Len(b) THEN WFail("trailing")
            ELSE r

\* the search hints of a stream computed from the stream itself (small messages only: quadratic)
WithHints(s) ==
  [x \in 1..Len(s) |->
     IF s[x].k # "n" \/ s[x].ptr = -1 THEN s[x]
     ELSE LET cands == { kj \in UNION { { <<y, j>> : j \in 1..(Len(s[y].lits) + 1) } :
                                         y \in { y \in 1..(x - 1) : s[y].k = "n" } } :
                           LabelOff(s[kj[1]].lits, s[kj[1]].a, kj[2]) = s[x].ptr }
          IN IF cands = {} THEN s[x]
             ELSE LET kj == CHOOSE kj \in cands : TRUE IN [s[x] EXCEPT !.tk = kj[1], !.tj = kj[2]]]

(* The decoder-side statement of C04 on octets alone.                          *)
ValidCompressedStage(bc, bu) ==
  LET wu == StreamOf(bu)  wc == StreamOf(bc) IN
  IF ~wu.ok THEN "uncompressed-unreadable:" \o wu.why
  ELSE IF ~wc.ok THEN "compressed-unreadable:" \o wc.why
  ELSE JudgeStreams(bc, bu, WithHints(wc.parts), WithHints(wu.parts), 12)
ValidCompressed(bc, bu) == ValidCompressedStage(bc, bu) = "ok"

-----------------------------------------------------------------------------
(* From abstract messages: what the stream of EncMsg(m) must be, and octets    *)
(* with hand-made pointers (compressed names must be ACCEPTED in the RDATA of  *)
(* every type).                                                                *)

\* the names of a message as the reader must find them in EncMsg(m): (offset, labels, compressible)
PlanView(s) == LET ns == SelectSeq(s, LAMBDA p : p.k = "n") IN
               [x \in 1..Len(ns) |-> [n |-> ns[x].name, c |-> ns[x].c, off |-> ns[x].a]]

\* RDATA of type t with every name that starts with the labels of `tail' replaced by its
\* remaining leading labels and a pointer to ptr
CutName(n, tail, ptr) ==
  IF Len(n) >= Len(tail) /\ Suffix(n, Len(n) - Len(tail) + 1) = tail /\ tail # <<>>
  THEN EncLits(SubSeq(n, 1, Len(n) - Len(tail))) \o PtrOctets(ptr)
  ELSE EncName(n)
EncFieldP(e, f, tail, ptr) ==
  IF e.k \in {"name", "cname"} THEN CutName(f[e.n], tail, ptr)
  ELSE IF e.k = "names" THEN Concat([i \in 1..Len(f[e.n]) |-> CutName(f[e.n][i], tail, ptr)])
  ELSE IF e.k = "gateway" /\ GatewaySel(e, f) = 3 THEN CutName(f[e.n], tail, ptr)
  ELSE EncField(e, f)
EncRdataP(t, f, tail, ptr) == LET es == FieldsOf(t) IN Concat([i \in 1..Len(es) |-> EncFieldP(es[i], f, tail, ptr)])
EncRRP(rr, tail, ptr) ==
  LET rd == IF rr.nodata THEN <<>> ELSE EncRdataP(rr.type, rr.f, tail, ptr) IN
  EncName(rr.name) \o U16(rr.type) \o U16(rr.class) \o rr.ttl \o U16(Len(rd)) \o rd
\* the message with the RDATA names of every record pointing at the first question name (offset 12)
HandCompressed(m) ==
  LET tail == m.q[1].name
      sec(s) == Concat([i \in 1..Len(s) |-> EncRRP(s[i], tail, 12)])
  IN EncHeader(m.hdr, Len(m.q), Len(m.an), Len(m.ns), Len(m.ar))
     \o Concat([i \in 1..Len(m.q) |-> EncQuestion(m.q[i])])
     \o sec(m.an) \o sec(m.ns) \o sec([i \in 1..Len(m.ar) |-> WithExtRcode(m.ar[i], m.hdr.rcode)])

\* has the type a name anywhere in its RDATA layout?
HasNameField(t) == \E i \in 1..Len(FieldsOf(t)) : FieldsOf(t)[i].k \in {"name", "cname", "names", "gateway"}

-----------------------------------------------------------------------------
(* Pointer chains.  "Decode to exactly the same message" is said of decoders,  *)
(* and a decoder follows a bounded number of pointers per name.  The bound a   *)
(* decoder can take from RFC 1035 itself: a name has at most MaxName \div 2    *)
(* labels (127), and a pointer of a compressor that points at names (first     *)
(* occurrences of label sequences, as PackImpl does -- MC_Compress: Chains)    *)
(* is followed by at least one label, so no name needs more hops than it has   *)
(* labels.  The admission of a pointer that leads to a pointer (AMBIG above)   *)
(* stands for every single target; the CHAIN read for one name is bounded:     *)
(* more than MaxPtrHops pointers for one name is "pointer-chain-too-deep".     *)
(* (spec/Framing.tla takes the same 127 as what a legitimate encoding needs;   *)
(* the library's own reader stops after 126, which the check observes apart:   *)
(* checks/c04.py OWN.)  Hops is read off the hints of a part stream, which     *)
(* PtrStage verified; for names TLC decodes itself it is DecName(...).hops.    *)
MaxPtrHops == MaxName \div 2

RECURSIVE Hops(_, _)
Hops(s, x) ==
  IF s[x].k # "n" \/ s[x].ptr = -1 THEN 0
  ELSE IF s[x].tk \in 1..(x - 1) THEN 1 + Hops(s, s[x].tk) ELSE 1

DeepPartsN(s, lim) == { x \in 1..Len(s) : s[x].k = "n" /\ s[x].ptr # -1 /\ Hops(s, x) > lim }
ChainStageN(s, lim) == IF DeepPartsN(s, lim) = {} THEN "ok" ELSE "pointer-chain-too-deep"
ChainBad(s) == LET d == DeepPartsN(s, MaxPtrHops) IN IF d = {} THEN 0 ELSE CHOOSE x \in d : \A y \in d : x <= y

\* does the chain read for name part x pass through a pointer that is the target of a pointer (no label in between)?
RECURSIVE ChainDegenerate(_, _)
ChainDegenerate(s, x) ==
  IF s[x].k # "n" \/ s[x].ptr = -1 \/ ~(s[x].tk \in 1..(x - 1)) THEN FALSE
  ELSE LET q == s[s[x].tk] IN
       (s[x].tj = Len(q.lits) + 1 /\ q.ptr # -1) \/ ChainDegenerate(s, s[x].tk)

(* The judge with the chain clause (JudgeStreams is kept as it was).           *)
JudgeStreamsH(bc, bu, sc, su, from) ==
  LET j == JudgeStreams(bc, bu, sc, su, from) IN
  IF j # "ok" THEN j ELSE ChainStageN(sc, MaxPtrHops)

ValidCompressedStageH(bc, bu) ==
  LET wu == StreamOf(bu)  wc == StreamOf(bc) IN
  IF ~wu.ok THEN "uncompressed-unreadable:" \o wu.why
  ELSE IF ~wc.ok THEN "compressed-unreadable:" \o wc.why
  ELSE JudgeStreamsH(bc, bu, WithHints(wc.parts), WithHints(wu.parts), 12)

-----------------------------------------------------------------------------
(* Foreign encoders.  PackAny leaves open WHICH allowed choice an encoder      *)
(* takes; the library's packer (PackImpl) points at first occurrences and so   *)
(* never emits most of the forms the property obliges its reader to accept     *)
(* ("compressed names are still accepted on input for every type").            *)
(* Recompress(bu, fs) re-encodes the uncompressed octets bu of a message name  *)
(* by name with Emit1 under another strategy fs:                               *)
(*   pick   "latest" | "first": among the earlier starts at which the wanted   *)
(*          suffix is read, the last / first one -- the last one is, for a     *)
(*          repeated name, the previous POINTER (an RRset whose owners each    *)
(*          point at the previous owner field: a pointer that lands on a       *)
(*          pointer before any label was read; RFC 1035 s.4.1.4 allows it,     *)
(*          AMBIG above)                                                       *)
(*   rd     names in the RDATA of every type are compressed too (RFC 3597 s.4: *)
(*          never sent, accepted on input)                                     *)
(*   whole  only whole names are replaced (no labels in front of a pointer)    *)
(*   root   a pointer may also replace a root octet                            *)
(* RDLENGTH fields are recomputed.  Gen_Compress checks every form it emits    *)
(* with the judge above (ValidCompressedStageH).                               *)
FStrategy(pick, rd, whole, root) == [pick |-> pick, rd |-> rd, whole |-> whole, root |-> root]

SetMax(S) == CHOOSE x \in S : \A y \in S : y <= x
SetMin(S) == CHOOSE x \in S : \A y \in S : x <= y

ForeignChoice(out, starts, n, c, fs) ==
  IF ~(c \/ fs.rd) THEN << Len(n) + 1, -1 >>
  ELSE LET S    == { t \in starts : t < MaxOff /\ t < Len(out) }
           decs == [t \in S |-> DecName(out, t)]
           tg(i) == { t \in S : decs[t].ok /\ decs[t].name = Suffix(n, i) }
           is   == { i \in 1..(Len(n) + 1) : /\ (fs.whole => i = 1)
                                              /\ (i = Len(n) + 1 => fs.root)
                                              /\ tg(i) # {} }
       IN IF is = {} THEN << Len(n) + 1, -1 >>
          ELSE LET i == SetMin(is) IN << i, IF fs.pick = "latest" THEN SetMax(tg(i)) ELSE SetMin(tg(i)) >>

\* st = [out, starts, slot, left]: slot = offset of the RDLENGTH field still to be filled in (-1: none), left = RDATA parts to go
RECURSIVE Recomp(_, _, _, _, _)
Recomp(s, x, bu, st, fs) ==
  IF x > Len(s) THEN st.out
  ELSE LET p == s[x]
           e == IF p.k = "n"
                THEN LET ch == ForeignChoice(st.out, st.starts, p.name, p.c, fs)
                     IN Emit1([out |-> st.out, starts |-> st.starts], p.name, ch[1], ch[2])
                ELSE [out |-> st.out \o (IF p.k = "o" THEN Sub(bu, p.a + 1, p.z) ELSE <<0, 0>>), starts |-> st.starts]
           opened  == p.k = "l" /\ p.n > 0
           slot    == IF opened THEN Len(st.out) ELSE st.slot
           left    == IF opened THEN p.n ELSE IF st.slot >= 0 THEN st.left - 1 ELSE 0
           closing == ~opened /\ st.slot >= 0 /\ left = 0
           out2    == IF closing THEN LET v == Len(e.out) - (slot + 2) IN
                                      [e.out EXCEPT ![slot + 1] = v \div 256, ![slot + 2] = v % 256]
                      ELSE e.out
       IN Recomp(s, x + 1, bu, [out |-> out2, starts |-> e.starts, slot |-> IF closing THEN -1 ELSE slot, left |-> left], fs)

Recompress(bu, fs) ==
  LET w == StreamOf(bu) IN
  IF ~w.ok THEN <<>> ELSE Recomp(w.parts, 1, bu, [out |-> Sub(bu, 1, 12), starts |-> {}, slot |-> -1, left |-> 0], fs)

\* does some name of a stream consist of a pointer that lands directly on another pointer (no label read yet)?
PtrOnPtr(s) == \E x \in 1..Len(s) : s[x].k = "n" /\ s[x].ptr # -1 /\ Len(s[x].lits) = 0 /\ s[x].tk \in 1..(x - 1) /\
                  LET q == s[s[x].tk] IN s[x].tj = Len(q.lits) + 1 /\ q.ptr # -1
=============================================================================
