----------------------------- MODULE MC_Builders -----------------------------
(* Builders.tla on itself, for every request flag word (quick: every Stride-th)  *)
(* and 0..2 questions: the reply is a response to that request whatever AMBIG    *)
(* policy, survives encode / reference decode, builders are idempotent and       *)
(* touch only their fields, TSIG stays last.                                     *)
EXTENDS Builders

CONSTANTS Stride, Off

VARIABLES w, qc, phase

Ex == << <<101, 120>> >>
Qs == << Qn(Ex, 1), Qn(<<>>, 28) >>
Req == [hdr |-> HdrOfWord(4660, w), q |-> SubSeq(Qs, 1, qc), an |-> <<>>, ns |-> <<>>, ar |-> <<>>]
Used == [hdr |-> [id |-> 48879, qr |-> FALSE, opcode |-> 2, aa |-> TRUE, tc |-> TRUE, rd |-> TRUE, ra |-> TRUE,
                  z |-> TRUE, ad |-> TRUE, cd |-> TRUE, rcode |-> 5],
         q |-> << Qn(<<>>, 16) >>, an |-> <<>>, ns |-> <<>>, ar |-> <<>>]

Init == w \in { x \in 0..65535 : x % Stride = Off } /\ qc \in 0..2 /\ phase = 0
Next == phase = 0 /\ phase' = 1 /\ UNCHANGED <<w, qc>>

Others(a, b) == \A f \in {"aa", "tc", "ra", "z", "ad"} : a.hdr[f] = b.hdr[f]

Inv ==
  phase = 1 =>
    /\ FlagWord(Req.hdr) = w                                                  \* the word <-> fields reading is a bijection
    /\ \A m \in {Fresh, Used}, pol \in Pols :
         LET r == SetReply(m, Req, pol)  d == DecMsg(EncMsg(r)) IN
         /\ r.hdr.id = Req.hdr.id /\ r.hdr.qr /\ r.hdr.opcode = Req.hdr.opcode /\ r.hdr.rcode = 0
         /\ (Req.hdr.opcode = 0 => r.hdr.rd = Req.hdr.rd /\ r.hdr.cd = Req.hdr.cd)
         /\ Others(r, m) /\ r.an = m.an /\ r.ns = m.ns /\ r.ar = m.ar
         /\ (qc > 0 => r.q # <<>> /\ r.q[1] = Req.q[1] /\ Len(r.q) \in {1, qc}) /\ (qc = 0 => r.q = m.q)
         /\ FlagWord(r.hdr) \div 32768 = 1 /\ (FlagWord(r.hdr) \div 2048) % 16 = (w \div 2048) % 16 /\ FlagWord(r.hdr) % 16 = 0
         /\ Packable(r) /\ d.ok /\ d.msg.hdr = r.hdr /\ d.msg.q = r.q
         /\ SetReply(r, Req, pol) = r                                         \* idempotent
         /\ SetRcode(m, Req, 3, pol).hdr = [r.hdr EXCEPT !.rcode = 3]
         /\ ~Packable(SetRcode(m, Req, 16, pol))                              \* an extended RCODE needs an OPT record
         /\ r \in SetReplyAdm(m, Req)
    /\ LET f == SetRcodeFormatError(Used, Req) IN
         /\ f.hdr.id = Req.hdr.id /\ f.hdr.qr /\ ~f.hdr.aa /\ f.hdr.opcode = 0 /\ f.hdr.rcode = 1 /\ f.q = Used.q
         /\ f.hdr.rd = Used.hdr.rd
    /\ LET t == SetTsig(SetReply(Fresh, Req, [nq |-> TRUE, allq |-> TRUE]), Ex, Ex, 300, <<0, 0, 0, 0, 0, 1>>)
           types == [i \in 1..Len(t.ar) |-> t.ar[i].type] IN
         /\ IsTsigAt(types) = Len(t.ar) /\ t.ar[Len(t.ar)].f.OrigId = Req.hdr.id
         /\ WFMsg(t) /\ DecMsg(EncMsg(t)).ok
         /\ LET a == [name |-> Ex, type |-> 1, class |-> 1, ttl |-> Zero4, nodata |-> FALSE, f |-> [A |-> <<192, 0, 2, 1>>]]
                t2 == SetTsig([Fresh EXCEPT !.ar = <<a, a>>], Ex, Ex, 300, <<0, 0, 0, 0, 0, 1>>) IN
            Len(t2.ar) = 3 /\ IsTsigAt([i \in 1..3 |-> t2.ar[i].type]) = 3 /\ t2.ar[1] = a
         /\ IsEdns0Adm(types) = {0} /\ IsEdns0Adm(<<41>> \o types) = {1} /\ IsTsigAt(types \o <<41>>) = 0
    /\ SetUpdate(Used, Ex).hdr.opcode = 5 /\ ~SetUpdate(Used, Ex).hdr.qr /\ SetNotify(Fresh, Ex).hdr.aa
    /\ SetIxfr(Fresh, Ex, Zero4, Ex, Ex).ns[1].type = 6 /\ WFMsg(SetIxfr(Fresh, Ex, Zero4, Ex, Ex))
=============================================================================
