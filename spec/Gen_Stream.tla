------------------------------ MODULE Gen_Stream ------------------------------
(* Vector generators for C12 (stream framing and the reply-ID rule).  The     *)
(* behaviours MC_Stream explores with body sizes 0..3 -- every chunking, the   *)
(* stream cut at every offset, a write failing at every offset, a message too *)
(* large -- are laid over the real sizes: the cut points are the offsets that *)
(* mean something in a frame of n octets (inside the length prefix, between   *)
(* prefix and body, first / middle / last body octet, the frame boundary).    *)
(* The expected results come from the closed forms ReaderResult / IdResult,   *)
(* which MC_Stream has compared with the machines on every small behaviour.   *)
EXTENDS Stream, GenBase

CONSTANTS Mode, Shard, NShards,
          Extra        \* further body sizes (the driver derives some from the seed)

VARIABLES v

RealSizes == {12, 13, 255, 256, 257, 512, 4096, 65535} \cup Extra
TooBig == 65536

Total(sz) == SumTo(sz, Len(sz))
Start(sz, i) == SumTo(sz, i - 1)
FramePts(F, n) == {F + 1, F + 2, F + 3, F + 2 + (n \div 2), F + n + 1, F + n + 2}
Pts(sz) == UNION { FramePts(Start(sz, i), sz[i]) : i \in 1..Len(sz) }
Interior(sz) == Pts(sz) \ {Total(sz)}

RECURSIVE Sorted(_)
Sorted(S) == IF S = {} THEN <<>> ELSE LET m == CHOOSE x \in S : \A y \in S : x <= y IN <<m>> \o Sorted(S \ {m})

\* chunk sizes for the cut points C of a stream of `upto' octets
Chunks(C, upto) ==
  LET c == Sorted({ x \in C : x < upto }) \o <<upto>> IN
  SelectSeq([i \in 1..Len(c) |-> IF i = 1 THEN c[1] ELSE c[i] - c[i - 1]], LAMBDA k : k > 0)

Seq1 == { <<a>> : a \in RealSizes }
Seq2 == { <<a, b>> : a \in RealSizes, b \in RealSizes }

Hash(r) == (Total(r.sz) + 7 * Cardinality(r.cuts) + 13 * SumSeq(Sorted(r.cuts)) + r.e) % NShards

Scen(sz, cuts, e, sw, unit) == [sz |-> sz, cuts |-> cuts, e |-> e, sw |-> sw, unit |-> unit]

F1 == UNION { { Scen(sz, C, Total(sz), <<>>, FALSE) : C \in SUBSET Interior(sz) } : sz \in Seq1 }
       \cup { Scen(sz, {}, Total(sz), <<>>, TRUE) : sz \in { <<a>> : a \in {12, 13, 255, 256, 257} } }
F2 == UNION { { Scen(sz, C, Total(sz), <<>>, FALSE) : C \in { D \in SUBSET Interior(sz) : Cardinality(D) <= 2 \/ D = Interior(sz) } } : sz \in Seq2 }
       \cup { Scen(sz, {}, Total(sz), <<>>, TRUE) : sz \in { <<a, b>> : a \in {12, 13, 257}, b \in {12, 256} } }
\* the stream ends after e octets: every meaningful offset, three chunkings each
EO == UNION { UNION { { Scen(sz, {}, e, <<>>, FALSE), Scen(sz, Interior(sz), e, <<>>, FALSE) } : e \in Pts(sz) \cup {0} } : sz \in Seq1 \cup Seq2 }
       \cup UNION { { Scen(sz, {}, e, <<>>, TRUE) : e \in Pts(sz) \cup {0} } : sz \in { <<12>>, <<13>>, <<257>>, <<12, 13>>, <<256, 12>> } }
\* the write of frame i stops after j octets
SW == UNION { UNION { { Scen(sz, {}, Start(sz, i) + j, <<i, j>>, FALSE) : j \in {0, 1, 2, 3, 2 + (sz[i] \div 2), sz[i] + 1} } : i \in 1..Len(sz) } : sz \in Seq1 \cup Seq2 }
\* a message of 65536 octets
RF == { Scen(sz, {}, 0, <<>>, FALSE) : sz \in { <<TooBig>>, <<12, TooBig>>, <<TooBig, 12>>, <<65535, TooBig>>, <<TooBig, TooBig>>, <<TooBig, 65535>> } }

\* runt frames (bodies shorter than a DNS header) before, between and behind real messages: framing does not depend on what
\* a body holds, so the messages around a runt are delivered like any others
RuntSizes == {0, 1, 2, 11}
GoodSizes == {12, 13, 256, 4096, 65535}
RS == { <<a, b>> : a \in RuntSizes, b \in GoodSizes } \cup { <<b, a>> : a \in RuntSizes, b \in GoodSizes }
        \cup { <<a, c, b>> : a \in RuntSizes, c \in RuntSizes, b \in {12, 4096} }
        \cup { <<a, b, c>> : a \in RuntSizes, b \in {12, 4096}, c \in {13, 256} }
        \cup { <<b, a, c>> : a \in RuntSizes, b \in {12, 4096}, c \in {13, 256} }
        \cup { <<a>> : a \in RuntSizes }
RU == UNION { { Scen(sz, {}, Total(sz), <<>>, FALSE), Scen(sz, { x \in Interior(sz) : x < Total(sz) }, Total(sz), <<>>, FALSE) }
               \cup (IF Total(sz) < 600 THEN { Scen(sz, {}, Total(sz), <<>>, TRUE) } ELSE {})
               \cup { Scen(sz, {}, e, <<>>, FALSE) : e \in { x \in Pts(sz) : x < Total(sz) } } : sz \in RS }

IdU == {"mine", "other", "other2"}
Inboxes == UNION { [1..n -> IdU] : n \in 0..4 }
IDS == { [tr |-> tr, inbox |-> ib, dl |-> d] : tr \in {"stream", "dgram"}, ib \in Inboxes, d \in 0..4 }
\* many stale / foreign replies before the genuine one, or nothing but stale ones until the deadline: the rule has no
\* bound on how many are skipped
Stale(n) == [i \in 1..n |-> IF i % 2 = 1 THEN "other" ELSE "other2"]
ManyN == {0, 1, 2, 8, 9, 10, 16, 33, 64}
IDL == UNION { { [tr |-> tr, inbox |-> Stale(n) \o <<"mine">>, dl |-> n + 1],      \* the genuine reply comes last, in time
                 [tr |-> tr, inbox |-> Stale(n) \o <<"mine">>, dl |-> n],          \* ... too late
                 [tr |-> tr, inbox |-> Stale(n), dl |-> n],                        \* only stale ones until the deadline
                 [tr |-> tr, inbox |-> Stale(n) \o <<"mine">> \o Stale(n), dl |-> 2 * n + 1] }
               : tr \in {"stream", "dgram"}, n \in ManyN }

\* The rule looks at the ID: how the question is spelled plays no role.  "escaped": the query name is written with a
\* redundant escape, the server echoes the same octets (the decoded reply prints another text); "lowered": the server echoes
\* the name in lower case -- the same name.  A reader may ALSO want the question to be the same question (the letter of the
\* statement does not ask for it; RFC 5452 9.1 does): replies to another question / without question are therefore not
\* generated here                                                                                              \* AMBIG
IDQ == { [tr |-> tr, inbox |-> ib, dl |-> Len(ib), q |-> q] :
           tr \in {"stream", "dgram"}, ib \in { x \in Inboxes : Len(x) <= 2 } \cup { Stale(9) \o <<"mine">> }, q \in {"escaped", "lowered"} }

Init ==
  \/ Mode = "frames1" /\ v \in F1
  \/ Mode = "frames2" /\ v \in { r \in F2 : r.unit \/ Hash(r) = Shard }
  \/ Mode = "eof"     /\ v \in { r \in EO : Len(r.sz) = 1 \/ r.unit \/ Hash(r) = Shard }
  \/ Mode = "shortw"  /\ v \in { r \in SW : Len(r.sz) = 1 \/ Hash(r) = Shard }
  \/ Mode = "refuse"  /\ v \in RF
  \/ Mode = "runt"    /\ v \in { r \in RU : Hash(r) = Shard }
  \/ Mode = "id"      /\ v \in { r \in IDS : r.dl <= Len(r.inbox) } \cup IDL \cup IDQ
  \/ Mode = "repoint" /\ v \in { [first |-> a, second |-> b, inbox |-> ib] : a \in Kinds, b \in Kinds, ib \in { <<"other", "mine">>, <<"mine">> } }
Next == UNCHANGED v

StreamVector(r) ==
  LET sz == r.sz
      ok == SelectSeq(sz, LAMBDA n : n <= MaxBody)                         \* what the writer puts on the wire
      upto == IF r.sw # <<>> THEN r.e ELSE IF ok = sz THEN r.e ELSE Total(ok)
      res == ReaderResult(ok, upto) IN
  [kind |-> "stream", sizes |-> sz, total |-> Total(ok), eof |-> upto,
   chunks |-> IF r.unit THEN [i \in 1..upto |-> 1] ELSE Chunks(r.cuts, upto),
   shortw |-> r.sw,
   writes |-> [i \in 1..Len(sz) |->
                 IF sz[i] > MaxBody THEN "refused"
                 ELSE IF r.sw # <<>> /\ r.sw[1] = i THEN "short"
                 ELSE IF r.sw # <<>> /\ r.sw[1] < i THEN "notattempted" ELSE "ok"],
   delivered |-> res.delivered, final |-> res.final,
   hdr |-> HdrReader(ok, upto, 12)]      \* indices 1.. into the frames on the wire

\* real transport kinds this case applies to, each with the results admitted for it (one, or two for an ambiguous kind)
SetToSeq(S) == LET RECURSIVE F(_) F(T) == IF T = {} THEN <<>> ELSE LET e == CHOOSE e \in T : TRUE IN <<e>> \o F(T \ {e}) IN F(S)
IdVector(r) ==
  LET x == IdResult(r.tr, r.inbox, r.dl, "mine")
      ks == { k \in Kinds : r.tr \in KindRules[k] /\ (Cardinality(KindRules[k]) = 1 \/ r.tr = "dgram") } IN
  [kind |-> "id", transport |-> r.tr, inbox |-> r.inbox, dl |-> r.dl, res |-> x.res, idx |-> x.idx,
   q |-> IF "q" \in DOMAIN r THEN r.q ELSE "plain",
   extend |-> MaxDeadlineExtensions,       \* how often the read deadline may be moved later once the request is written
   kinds |-> SetToSeq({ [k |-> k, admitted |-> SetToSeq({ IdResult(t, r.inbox, r.dl, "mine") : t \in KindRules[k] })] : k \in ks })]

RepointVector(r) ==
  [kind |-> "repoint", first |-> r.first, second |-> r.second, inbox |-> r.inbox, dl |-> Len(r.inbox),
   rule |-> IF Cardinality(KindRules[r.second]) = 1 THEN CHOOSE t \in KindRules[r.second] : TRUE ELSE "either",
   admitted |-> SetToSeq(RepointResults(r.first, r.second, r.inbox, Len(r.inbox), "mine"))]

Out == CASE Mode = "id" -> Emit(IdVector(v))
         [] Mode = "repoint" -> Emit(RepointVector(v))
         [] OTHER -> Emit(StreamVector(v))
=============================================================================
