------------------------------- MODULE Claims -------------------------------
(* Lying inner lengths (property C02).  The statement bounds the work and the  *)
(* memory of a decode by a fixed multiple of the INPUT length "regardless of   *)
(* the section counts, RDLENGTHs and compression pointers the input claims".   *)
(* Section counts, RDLENGTH and pointers are the claims of the framing; RDATA   *)
(* has claims of its own, and this module enumerates them from the layout of   *)
(* WireRR (written from the RFCs), not from the code:                           *)
(*                                                                            *)
(*   sized    a field whose length is given by an earlier integer field        *)
(*            (FS(.., sz): TSIG MAC SIZE / OTHER LEN, TKEY KEY SIZE / OTHER     *)
(*            SIZE, HIP HIT / PK LENGTH, NSEC3(PARAM) SALT / HASH LENGTH)       *)
(*   str      the length octet of a <character-string> (str strs ostr)          *)
(*   window   the length octet of a type-bitmap window block                    *)
(*   apl      AFDLENGTH of an APL item                                          *)
(*   opt      OPTION-LENGTH of an EDNS0 option (every code of OptLayout + an    *)
(*            unassigned one)                                                    *)
(*   svcb     the value length of a SvcParam (every key of SvcbLayout + an      *)
(*            unassigned one, SVCB and HTTPS)                                    *)
(*   alpn     the length octet of an alpn-id inside an honest SvcParam value    *)
(*   rdlen    RDLENGTH itself, for every type of the layout                      *)
(*                                                                            *)
(* A case is one record at offset 12 of a message without question: the fields  *)
(* before the claim carry minimal values, the claim says `claim' octets follow, *)
(* `tail' octets do follow (0 = the RDATA ends right behind the length field),  *)
(* and `behind' = 1 puts a further record behind the lying one, so that a claim *)
(* can lie beyond the RDATA and still inside the message.                       *)
(*                                                                            *)
(* What the specification says about a case:                                    *)
(*   verdict  "reject" when the claim reaches beyond the RDATA that holds it    *)
(*            and at least one octet follows the length field: the record       *)
(*            would not lie inside its RDATA / the input.  With nothing behind  *)
(*            the length field the record is a truncated one, which RFC 2136    *)
(*            readers admit (AMBIG: "any"); an honest claim is "any" as well    *)
(*            (later fields are missing).                                       *)
(*   allocmax Framing!AllocBound of the input length: whatever the verdict, the *)
(*            memory of the decode follows the input, not the claim.            *)
EXTENDS WireRR, Framing

MinOf(e) == CASE e.k \in {"u8", "u16"} -> 0
              [] e.k \in DOMAIN FixedWidth -> [j \in 1..FixedWidth[e.k] |-> 0]
              [] OTHER -> <<>>              \* root name, empty string / list / opaque field, gateway type 0 = no gateway

EntryNamed(es, n) == es[CHOOSE j \in 1..Len(es) : es[j].n = n]
MinRec(es) == [n \in { es[j].n : j \in 1..Len(es) } |-> MinOf(EntryNamed(es, n))]

\* the octets of the fields before field i
FieldPrefix(es, i, f) == Concat([j \in 1..(i - 1) |-> EncField(es[j], f)])

Filler(n) == [j \in 1..n |-> 170]

IsSized(e) == "sz" \in DOMAIN e
SizedAt(t)  == { i \in 1..Len(FieldsOf(t)) : IsSized(FieldsOf(t)[i]) }
StrAt(t)    == { i \in 1..Len(FieldsOf(t)) : FieldsOf(t)[i].k \in {"str", "strs", "ostr"} }
WindowAt(t) == { i \in 1..Len(FieldsOf(t)) : FieldsOf(t)[i].k = "bitmap" }
AplAt(t)    == { i \in 1..Len(FieldsOf(t)) : FieldsOf(t)[i].k = "apl" }

\* the width of the claim in bits
ClaimBits(c) ==
  CASE c.kind = "sized" -> (LET es == FieldsOf(c.t) IN IF EntryNamed(es, es[c.i].sz).k = "u8" THEN 8 ELSE 16)
    [] c.kind \in {"str", "window", "alpn"} -> 8
    [] c.kind = "apl" -> 7
    [] OTHER -> 16

ClaimRdata(c) ==
  LET es == FieldsOf(c.t)
      f0 == MinRec(es)
  IN CASE c.kind = "sized"  -> FieldPrefix(es, c.i, [f0 EXCEPT ![es[c.i].sz] = c.claim]) \o Filler(c.tail)
       [] c.kind = "str"    -> FieldPrefix(es, c.i, f0) \o << c.claim >> \o Filler(c.tail)
       [] c.kind = "window" -> FieldPrefix(es, c.i, f0) \o << 0, c.claim >> \o Filler(c.tail)
       [] c.kind = "apl"    -> FieldPrefix(es, c.i, f0) \o << 0, 1, 0, c.claim >> \o Filler(c.tail)     \* family 1, prefix 0
       [] c.kind = "opt"    -> U16(c.i) \o U16(c.claim) \o Filler(c.tail)                                 \* i = option code
       [] c.kind = "svcb"   -> << 0, 1, 0 >> \o U16(c.i) \o U16(c.claim) \o Filler(c.tail)                \* priority 1, target root; i = key
       [] c.kind = "alpn"   -> << 0, 1, 0 >> \o U16(1) \o U16(1 + c.tail) \o << c.claim >> \o Filler(c.tail)
       [] c.kind = "rdlen"  -> Filler(c.tail)

ClassOf(t) == IF t \in {249, 250} THEN 255 ELSE IF t = TypeOPT THEN 1232 ELSE 1
BehindRR == << 0, 0, 1, 0, 1, 0, 0, 0, 60, 0, 4, 192, 0, 2, 1 >>           \* . 60 IN A 192.0.2.1

ClaimRdlen(c) == IF c.kind = "rdlen" THEN c.claim ELSE Len(ClaimRdata(c))
ClaimMsg(c) ==
  << 0, 7, 0, 0, 0, 0, 0, 0, 0, 0, 0, 1 + c.behind >>
  \o << 0 >> \o U16(c.t) \o U16(ClassOf(c.t)) \o << 0, 0, 0, 0 >> \o U16(ClaimRdlen(c)) \o ClaimRdata(c)
  \o (IF c.behind = 1 THEN BehindRR ELSE <<>>)
ClaimOff == 12

ClaimVerdict(c) ==
  IF c.kind = "rdlen"
  THEN (IF ClaimOff + 11 + c.claim > Len(ClaimMsg(c)) THEN "reject" ELSE "any")
  ELSE (IF c.claim > c.tail /\ c.tail > 0 THEN "reject" ELSE "any")

FieldName(c) ==
  CASE c.kind \in {"sized", "str", "window", "apl"} -> FieldsOf(c.t)[c.i].n
    [] c.kind = "opt"  -> (IF c.i \in DOMAIN OptLayout THEN "code" ELSE "unassigned")
    [] c.kind = "svcb" -> (IF c.i \in DOMAIN SvcbLayout THEN "key" ELSE "unassigned")
    [] OTHER -> c.kind
\* how the Go API spells the octets the claim covers (hex / b64 / b32 text, bytes, ...): the element size of an
\* allocation that follows the claim differs between them
FieldKind(c) ==
  CASE c.kind = "sized" -> FieldsOf(c.t)[c.i].k
    [] c.kind = "opt"   -> (LET es == OptLayoutOf(c.i) IN IF es = <<>> THEN "empty" ELSE es[Len(es)].k)
    [] c.kind = "svcb"  -> (LET es == SvcbLayoutOf(c.i) IN IF es = <<>> THEN "empty" ELSE es[Len(es)].k)
    [] OTHER -> c.kind

-----------------------------------------------------------------------------
(* The universe.  Claims: the honest one, one and five octets too many (five    *)
(* reaches into the record behind), and the boundary values of the field width. *)
ClaimsFor(bits, tail, wide) ==
  LET top == Pow2(bits) - 1
      base == { tail, tail + 1, tail + 5, top }
      more == IF bits = 16 THEN { 255, 256, 32767, 32768 } ELSE IF bits = 8 THEN { 32, 33, 127, 128 } ELSE { 16, 17 }
      most == IF wide /\ bits = 16 THEN { 127, 128, 1024, 4095, 4096, 16383, 16384, 65534 } ELSE {}
  IN { x \in base \cup more \cup most : x >= tail /\ x <= top }

Tails(wide) == IF wide THEN {0, 1, 2, 3, 4, 8, 17, 31, 32, 64, 300} ELSE {0, 1, 2, 17}

OptCodes == DOMAIN OptLayout \cup {13, 65001}
SvcKeys  == DOMAIN SvcbLayout \cup {9, 65280}

Shapes ==
       { [kind |-> "sized",  t |-> t, i |-> i] : t \in DOMAIN Layout, i \in 1..12 }
  \cup { [kind |-> "str",    t |-> t, i |-> i] : t \in DOMAIN Layout, i \in 1..12 }
  \cup { [kind |-> "window", t |-> t, i |-> i] : t \in DOMAIN Layout, i \in 1..12 }
  \cup { [kind |-> "apl",    t |-> t, i |-> i] : t \in DOMAIN Layout, i \in 1..12 }
  \cup { [kind |-> "opt",    t |-> TypeOPT, i |-> code] : code \in OptCodes }
  \cup { [kind |-> "svcb",   t |-> t, i |-> k] : t \in {64, 65}, k \in SvcKeys }
  \cup { [kind |-> "alpn",   t |-> t, i |-> 1] : t \in {64, 65} }
  \cup { [kind |-> "rdlen",  t |-> t, i |-> 0] : t \in DOMAIN Layout \cup {65300} }

ShapeOK(s) ==
  CASE s.kind = "sized"  -> s.i \in SizedAt(s.t)
    [] s.kind = "str"    -> s.i \in StrAt(s.t)
    [] s.kind = "window" -> s.i \in WindowAt(s.t)
    [] s.kind = "apl"    -> s.i \in AplAt(s.t)
    [] OTHER -> TRUE

CasesOf(s, wide) ==
  UNION { { [kind |-> s.kind, t |-> s.t, i |-> s.i, claim |-> cl, tail |-> tl, behind |-> bh] :
              bh \in {0, 1}, cl \in ClaimsFor(ClaimBits(s), tl, wide) } : tl \in Tails(wide) }

ClaimVec(c) ==
  LET b == ClaimMsg(c) IN
  [place |-> "claim", bytes |-> b, off |-> ClaimOff, verdict |-> ClaimVerdict(c),
   why |-> c.kind \o ":" \o LayoutOf(c.t).name \o ":" \o FieldName(c), fk |-> FieldKind(c),
   claim |-> c.claim, tail |-> c.tail, behind |-> c.behind, hops |-> 0, name |-> <<>>,
   allocmax |-> AllocBound(Len(b))]
=============================================================================
