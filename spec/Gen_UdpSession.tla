---------------------------- MODULE Gen_UdpSession ----------------------------
(* Inputs for X15: ancillary-data octet strings (every combination of <= 2 of   *)
(* the control messages of MC_UdpSession, whole and cut, + damaged length       *)
(* fields).  The binding calls parseDstFromOOB / correctSource on each and      *)
(* Trace_UdpSession judges what came back.                                      *)
EXTENDS MC_UdpSession, GenBase

Damaged(b) == IF Len(b) < 8 THEN {} ELSE
  { [i \in 1..Len(b) |-> IF i = 1 THEN v ELSE b[i]] : v \in {0, 8, 15, 17, 200} } \cup { [i \in 1..Len(b) |-> IF i = 6 THEN 1 ELSE b[i]] }
VARIABLE v
GInit == /\ parts \in UNION { [1..n -> Msgs] : n \in 0..2 }
         /\ cut \in {-1, 0, 1, 8, 15, 16, 17, 24, 27, 28, 31, 33, 39, 41}
         /\ v \in {0} \cup (IF cut = -1 THEN 1..6 ELSE {})
GNext == UNCHANGED << parts, cut, v >>
Case == IF v = 0 THEN Buf
        ELSE LET D == Damaged(Whole) IN
             IF Cardinality(D) < v THEN Whole
             ELSE LET RECURSIVE Nth(_, _)
                      Nth(S, k) == LET m == CHOOSE m \in S : \A o \in S : m = o \/ LexLess(m, o) IN IF k = 1 THEN m ELSE Nth(S \ {m}, k - 1)
                  IN Nth(D, v)
GOut == Emit([oob |-> Case, wf |-> Cmsgs(Case).ok])
=============================================================================
