----------------------------- MODULE CompressLen -----------------------------
(* C08: what msg.go *predicts* a message's length to be (Msg.Len) against what *)
(* its packer *emits*, as two implementation-shaped machines over the packing  *)
(* plan of a message (WireRR!PlanMsg: the names in emission order, each with   *)
(* the RFC 3597 s.4 "may be compressed" flag, separated by runs of other       *)
(* octets):                                                                    *)
(*                                                                             *)
(*   PackImpl  packDomainName (msg.go:206): a map keyed by the presentation    *)
(*             text of a name suffix (case- and escape-sensitive); first       *)
(*             occurrence wins; a suffix is entered only at wire offsets       *)
(*             < MaxOff; a pointer is emitted only for compressible names; the *)
(*             root is never compressed.                                       *)
(*   LenImpl   msgLenWithCompressionMap / domainNameLen / compressionLenSearch *)
(*             / escapedNameLen (msg.go:982-1064): a second map of suffix      *)
(*             texts, entered while  predicted offset + *text* offset < MaxOff *)
(*             (text offsets run ahead of wire offsets when labels need        *)
(*             escapes), early return at the first hit.                        *)
(*                                                                             *)
(* Theorem checked by MC_CompressLen on a small universe with MaxOff lowered:  *)
(*   LenImpl >= PackImpl always, LenImpl = PackImpl when no label needs an     *)
(*   escape, PackImpl <= uncompressed length.                                  *)
(* Trace_CompressLen binds both machines to the real code: for messages of the *)
(* common types with escape-free strings the observed Len() and len(Pack())    *)
(* must EQUAL LenImpl and PackImpl.                                            *)
(* Names are spelled canonically (Names!PresOctet), so the map key of a suffix *)
(* is the label sequence itself.                                               *)
EXTENDS WireRR

CONSTANT MaxOff        \* 16384 in the real world: offsets a 14-bit pointer can reach

\* plan items
NameItem(n, c) == [k |-> "name", n |-> n, c |-> c]
SkipItem(len)  == [k |-> "skip", len |-> len]

Suffix(n, i) == SubSeq(n, i, Len(n))
\* wire octets of labels 1..i-1 (each with its length octet)
WirePrefix(n, i) == SumSeq([j \in 1..(i - 1) |-> 1 + Len(n[j])])
\* characters of the presentation text before label i (each label with its dot)
SpellLen(lab) == SumSeq([j \in 1..Len(lab) |-> Len(PresOctet(lab[j]))])
TextPrefix(n, i) == SumSeq([j \in 1..(i - 1) |-> SpellLen(n[j]) + 1])

-----------------------------------------------------------------------------
(* PackImpl.  cm: function  suffix |-> offset of its first occurrence.          *)
(* valid = FALSE: the message is packed without a compression map at all        *)
(* (Compress = FALSE, or a message with nothing to compress).                   *)

RECURSIVE PN(_, _, _, _, _)
PN(n, i, off, cm, comp) ==          \* labels i.. of name n, to be written at offset off
  IF i > Len(n) THEN [off |-> off + 1, cm |-> cm, ptr |-> -1]                    \* the root octet
  ELSE LET key == Suffix(n, i) IN
    IF key \in DOMAIN cm THEN
      IF comp THEN [off |-> off + 2, cm |-> cm, ptr |-> cm[key]]                  \* pointer to the first occurrence
      ELSE PN(n, i + 1, off + 1 + Len(n[i]), cm, comp)                            \* known, but this field must not be compressed
    ELSE PN(n, i + 1, off + 1 + Len(n[i]), IF off < MaxOff THEN (key :> off) @@ cm ELSE cm, comp)

RECURSIVE PackRun(_, _, _, _, _)
PackRun(plan, i, off, cm, valid) ==
  IF i > Len(plan) THEN [off |-> off, cm |-> cm]
  ELSE LET it == plan[i] IN
    IF it.k = "skip" THEN PackRun(plan, i + 1, off + it.len, cm, valid)
    ELSE IF ~valid THEN PackRun(plan, i + 1, off + WireLen(it.n), cm, valid)
    ELSE LET r == PN(it.n, 1, off, cm, it.c) IN PackRun(plan, i + 1, r.off, r.cm, valid)

PackImpl(plan, start, valid) == PackRun(plan, 1, start, <<>>, valid).off

-----------------------------------------------------------------------------
(* LenImpl.  c: set of suffixes; NoMap: Len() runs without a map.               *)

RECURSIVE Search(_, _, _, _)
Search(n, i, msgOff, c) ==          \* compressionLenSearch: first suffix already in c; misses are entered
  IF i > Len(n) THEN [hit |-> FALSE, i |-> 0, c |-> c]
  ELSE IF Suffix(n, i) \in c THEN [hit |-> TRUE, i |-> i, c |-> c]
  ELSE Search(n, i + 1, msgOff, IF msgOff + TextPrefix(n, i) < MaxOff THEN c \cup {Suffix(n, i)} ELSE c)

LN(n, off, c, valid, comp) ==       \* domainNameLen
  IF n = <<>> THEN [len |-> 1, c |-> c]
  ELSE IF valid /\ (comp \/ off < MaxOff) THEN
    LET r == Search(n, 1, off, c) IN
    IF r.hit /\ comp THEN [len |-> WirePrefix(n, r.i) + 2, c |-> r.c]
    ELSE [len |-> WireLen(n), c |-> r.c]
  ELSE [len |-> WireLen(n), c |-> c]

RECURSIVE LenRun(_, _, _, _, _)
LenRun(plan, i, off, c, valid) ==
  IF i > Len(plan) THEN off
  ELSE LET it == plan[i] IN
    IF it.k = "skip" THEN LenRun(plan, i + 1, off + it.len, c, valid)
    ELSE LET r == LN(it.n, off, c, valid, it.c) IN LenRun(plan, i + 1, off + r.len, r.c, valid)

LenImpl(plan, start, valid) == LenRun(plan, 1, start, {}, valid)

-----------------------------------------------------------------------------
(* From messages to plans.                                                     *)

\* Msg.isCompressible: one question alone offers nothing to compress
Compressible(m) == Len(m.q) > 1 \/ Len(m.an) > 0 \/ Len(m.ns) > 0 \/ Len(m.ar) > 0
MapValid(m, compress) == compress /\ Compressible(m)

\* WireRR!PlanMsg lists the names with their uncompressed offsets: turn the gaps into skips
PlanOf(m) ==
  LET p == PlanMsg(m)
      endOf(i) == IF i = 0 THEN 12 ELSE p[i].off + WireLen(p[i].n)
      total == LenMsg(m)
  IN Concat([i \in 1..Len(p) |-> << SkipItem(p[i].off - endOf(i - 1)), NameItem(p[i].n, p[i].c) >>])
     \o << SkipItem(total - endOf(Len(p))) >>

PackImplMsg(m, compress) == PackImpl(PlanOf(m), 12, MapValid(m, compress))
LenImplMsg(m, compress)  == LenImpl(PlanOf(m), 12, MapValid(m, compress))

(* The part of a message outside names is predicted exactly by the per-type    *)
(* len() methods when it consists of integers, addresses and escape-free       *)
(* character-strings of the common types: then Len() = LenImpl, and            *)
(* len(Pack()) = PackImpl.  (Names may need escapes.)                          *)
ExactOutsideNames(m) ==
  LET okRR(rr) == /\ ~rr.nodata /\ rr.type \in CommonTypes
                  /\ \A i \in 1..Len(FieldsOf(rr.type)) :
                        LET e == FieldsOf(rr.type)[i] IN e.k \in {"name", "cname"} \/ PlainField(e, rr.f)
  IN /\ \A i \in 1..Len(m.an) : okRR(m.an[i])
     /\ \A i \in 1..Len(m.ns) : okRR(m.ns[i])
     /\ \A i \in 1..Len(m.ar) : okRR(m.ar[i])
=============================================================================
