-------------------------------- MODULE Tsig --------------------------------
(* Transaction signatures (RFC 8945).  Property C11; the session part is also *)
(* what C15 runs per envelope.                                                *)
(*                                                                            *)
(* The HMAC is uninterpreted (DESIGN 1.3): this module produces the exact     *)
(* octet string that goes into it -- DigestInput -- and the exact octets of   *)
(* a signed message around a given MAC; the harness applies Go's crypto/hmac  *)
(* to DigestInput and compares.  Messages are opaque octet strings produced   *)
(* by the real Pack (the codec is property C01); the only structure read here *)
(* is what RFC 8945 itself needs: the header counts, a record walker (owner   *)
(* name, type, class, TTL, RDLENGTH) to find the last additional record, and  *)
(* the TSIG RDATA.                                                            *)
(*                                                                            *)
(* Offsets are the 0-based ones of the wire; sequences are 1-based.           *)
(* 48-bit times are three 16-bit limbs, most significant first (TLC integers  *)
(* are 32-bit).                                                               *)
EXTENDS Names

CONSTANT Mac(_, _, _)     \* Mac(secret, algorithm name, octets) = the HMAC; never evaluated by Gen_/Trace_ specs

TypeTSIG == 250
ClassANY == 255

-----------------------------------------------------------------------------
(* 48-bit unsigned times *)

IsT48(t) == Len(t) = 3 /\ \A i \in 1..3 : t[i] \in 0..65535

T48Less(a, b) == \/ a[1] < b[1]
                 \/ a[1] = b[1] /\ a[2] < b[2]
                 \/ a[1] = b[1] /\ a[2] = b[2] /\ a[3] < b[3]

\* a - b for a >= b
T48Sub(a, b) ==
  LET lo == a[3] - b[3]
      mi == a[2] - b[2] - (IF lo < 0 THEN 1 ELSE 0)
      hi == a[1] - b[1] - (IF mi < 0 THEN 1 ELSE 0)
  IN << hi, IF mi < 0 THEN mi + 65536 ELSE mi, IF lo < 0 THEN lo + 65536 ELSE lo >>

T48AbsDiff(a, b) == IF T48Less(a, b) THEN T48Sub(b, a) ELSE T48Sub(a, b)

\* t + k for an integer k (either sign); the caller keeps the result inside 0 .. 2^48-1
T48Add(t, k) ==
  LET lo == t[3] + k
      mi == t[2] + (lo \div 65536)
      hi == t[1] + (mi \div 65536)
  IN << hi, mi % 65536, lo % 65536 >>

\* RFC 8945 5.2.3: the signing time must lie within fudge seconds of the local clock, either way
InWindow(now, time, fudge) ==
  LET d == T48AbsDiff(now, time) IN d[1] = 0 /\ d[2] = 0 /\ d[3] <= fudge

\* the time signed is not older than `slack' seconds before the clock value `handed' (when the signer got the message)
SignedNotBefore(t, handed, slack) == ~T48Less(T48Add(t.time, slack), handed)

-----------------------------------------------------------------------------
(* Reading the little of a message that TSIG needs *)

U16At(msg, off) == msg[off + 1] * 256 + msg[off + 2]            \* needs off + 2 <= Len(msg)
SetU16(msg, off, v) == [i \in 1..Len(msg) |-> IF i = off + 1 THEN (v \div 256) % 256
                                               ELSE IF i = off + 2 THEN v % 256 ELSE msg[i]]

MsgId(msg)   == U16At(msg, 0)
QdCount(msg) == U16At(msg, 4)
AnCount(msg) == U16At(msg, 6)
NsCount(msg) == U16At(msg, 8)
ArCount(msg) == U16At(msg, 10)

\* offset after one question (name, type, class), -1 if it does not fit
SkipQ(msg, off) ==
  IF off < 0 THEN -1
  ELSE LET d == DecName(msg, off) IN
       IF ~d.ok THEN -1 ELSE IF d.next + 4 > Len(msg) THEN -1 ELSE d.next + 4

RECURSIVE SkipQs(_, _, _)
SkipQs(msg, off, k) == IF k = 0 \/ off < 0 THEN off ELSE SkipQs(msg, SkipQ(msg, off), k - 1)

\* the resource record at off: owner, type, class, ttl (4 octets), rdata position
RRAt(msg, off) ==
  IF off < 0 THEN [ok |-> FALSE]
  ELSE LET d == DecName(msg, off) IN
    IF ~d.ok THEN [ok |-> FALSE]
    ELSE IF d.next + 10 > Len(msg) THEN [ok |-> FALSE]
    ELSE LET rdlen == U16At(msg, d.next + 8) IN
      IF d.next + 10 + rdlen > Len(msg) THEN [ok |-> FALSE]
      ELSE [ok |-> TRUE, off |-> off, name |-> d.name, type |-> U16At(msg, d.next),
            class |-> U16At(msg, d.next + 2), ttl |-> Sub(msg, d.next + 5, d.next + 8),
            rdoff |-> d.next + 10, rdlen |-> rdlen, next |-> d.next + 10 + rdlen]

\* walk k records from off; `last' is the offset of the last one walked
RECURSIVE WalkRRs(_, _, _, _)
WalkRRs(msg, off, k, last) ==
  IF k = 0 THEN [ok |-> TRUE, last |-> last, end |-> off]
  ELSE LET r == RRAt(msg, off) IN
       IF ~r.ok THEN [ok |-> FALSE] ELSE WalkRRs(msg, r.next, k - 1, off)

\* TSIG RDATA (RFC 8945 4.2): algorithm name, time (48), fudge, MAC size, MAC, original id,
\* error, other len, other data -- filling RDLENGTH exactly.
\* AMBIG (full = FALSE): RDATA that stops right after the original id, right after the error field,
\* or right after an other-len that announces data which is not there.  RFC 8945 has no such form (5.2: a TSIG that cannot be interpreted is a FORMERR); the
\* library's codec reads every record type's missing trailing fields as zero, and the property
\* statement takes decoding for granted (codec: C01/C02) -- both verdicts are admitted there.
TsigRdata(msg, r) ==
  LET a == DecName(msg, r.rdoff) IN
  IF ~a.ok THEN [ok |-> FALSE]
  ELSE LET o1 == a.next IN
    IF o1 < r.rdoff \/ o1 + 10 > r.next THEN [ok |-> FALSE]
    ELSE LET ms == U16At(msg, o1 + 8)
             o2 == o1 + 10 + ms
             T(err, oth, full) ==
               [ok |-> TRUE, full |-> full, key |-> r.name, class |-> r.class, ttl |-> r.ttl, alg |-> a.name,
                time |-> << U16At(msg, o1), U16At(msg, o1 + 2), U16At(msg, o1 + 4) >>,
                fudge |-> U16At(msg, o1 + 6), mac |-> Sub(msg, o1 + 11, o2),
                origId |-> U16At(msg, o2), error |-> err, other |-> oth] IN
      IF o2 + 2 > r.next THEN [ok |-> FALSE]
      ELSE IF o2 + 2 = r.next THEN T(0, <<>>, FALSE)
      ELSE IF o2 + 4 = r.next THEN T(U16At(msg, o2 + 2), <<>>, FALSE)
      ELSE IF o2 + 6 > r.next THEN [ok |-> FALSE]
      ELSE LET ol == U16At(msg, o2 + 4) IN
        IF o2 + 6 = r.next /\ ol # 0 THEN T(U16At(msg, o2 + 2), <<>>, FALSE)
        ELSE IF o2 + 6 + ol # r.next THEN [ok |-> FALSE]
        ELSE T(U16At(msg, o2 + 2), Sub(msg, o2 + 7, o2 + 6 + ol), TRUE)

(* SplitTsig: a received message -> its TSIG and the octets the MAC covers.   *)
(*  st = "malformed"  the walker cannot reach the end of the message           *)
(*     = "nosig"      no additional record, or the last one is not a TSIG     *)
(*     = "badtsig"    last additional record has type TSIG but broken RDATA   *)
(*     = "ok"         t = the TSIG variables, body = the message without the  *)
(*                    TSIG record and with ARCOUNT decremented                *)
(* wf     = the TSIG RDATA is complete and the record ends the message.       *)
(*          AMBIG otherwise (see TsigRdata; octets after the TSIG): no        *)
(*          verdict is asserted.                                              *)
(* strict = wf, class ANY, TTL 0: what RFC 8945 4.2 lets a signer send.       *)
(* CLASS and TTL of the TSIG record are TSIG variables (4.3.3): the digest    *)
(* covers the values of the record AS RECEIVED, so a message whose TSIG class *)
(* or TTL was altered after signing does not verify.  A non-strict message    *)
(* whose MAC does cover its odd class / TTL may be accepted or refused        *)
(* (AMBIG: 5.2 lets a receiver treat it as FORMERR).                          *)
SplitTsig(msg) ==
  IF Len(msg) < 12 THEN [st |-> "malformed"]
  ELSE IF ArCount(msg) = 0 THEN [st |-> "nosig"]
  ELSE LET qend == SkipQs(msg, 12, QdCount(msg)) IN
    IF qend < 0 THEN [st |-> "malformed"]
    ELSE LET w == WalkRRs(msg, qend, AnCount(msg) + NsCount(msg) + ArCount(msg), -1) IN
      IF ~w.ok THEN [st |-> "malformed"]
      ELSE LET r == RRAt(msg, w.last) IN
        IF r.type # TypeTSIG THEN [st |-> "nosig"]
        ELSE LET t == TsigRdata(msg, r) IN
          IF ~t.ok THEN [st |-> "badtsig"]
          ELSE [st |-> "ok", t |-> t,
                body |-> SetU16(Take(msg, w.last), 10, ArCount(msg) - 1),
                wf |-> t.full /\ w.end = Len(msg),
                strict |-> t.full /\ w.end = Len(msg) /\ r.class = ClassANY /\ r.ttl = <<0, 0, 0, 0>>]

-----------------------------------------------------------------------------
(* RFC 8945 4.3: what the MAC is computed over.                               *)
(* t: [key, alg (names as label sequences), class, ttl (4 octets) -- of the   *)
(* TSIG record as sent / as received --, time (T48), fudge, error, other]     *)

TTL0 == <<0, 0, 0, 0>>

TsigVars(t) ==
  EncName(LowerName(t.key)) \o U16(t.class) \o t.ttl \o EncName(LowerName(t.alg))
    \o Limbs(t.time) \o U16(t.fudge) \o U16(t.error) \o U16(Len(t.other)) \o t.other

TimerVars(t) == Limbs(t.time) \o U16(t.fudge)

(* body: the message as packed WITHOUT the TSIG record (ARCOUNT not counting  *)
(* it); its ID is replaced by the TSIG's original ID (4.3.2).                 *)
DigestInput(reqMAC, body, origId, t, timersOnly) ==
  (IF reqMAC # <<>> THEN U16(Len(reqMAC)) \o reqMAC ELSE <<>>)
    \o SetU16(body, 0, origId)
    \o (IF timersOnly THEN TimerVars(t) ELSE TsigVars(t))

(* The signed message: body, ARCOUNT + 1, followed by the TSIG record.        *)
TsigRD(t, mac) ==
  EncName(t.alg) \o Limbs(t.time) \o U16(t.fudge) \o U16(Len(mac)) \o mac
    \o U16(t.origId) \o U16(t.error) \o U16(Len(t.other)) \o t.other

TsigRR(t, mac) ==
  LET rd == TsigRD(t, mac) IN
  EncName(t.key) \o U16(TypeTSIG) \o U16(ClassANY) \o U32(0) \o U16(Len(rd)) \o rd

Signed(body, t, mac) == SetU16(body, 10, ArCount(body) + 1) \o TsigRR(t, mac)

\* the octets before and after the MAC of a signed message whose MAC has n octets
SignedPre(body, t, n)  == LET s == Signed(body, t, [i \in 1..n |-> 0])
                              k == Len(s) - n - 6 - Len(t.other) IN Take(s, k)
SignedPost(t)          == U16(t.origId) \o U16(t.error) \o U16(Len(t.other)) \o t.other

-----------------------------------------------------------------------------
(* Acceptance (TsigAccept: Names.tla owns the name Accept).                   *)
(* SecretOf: lower-cased key name -> secret (a non-empty octet                *)
(* string), or <<>> when the receiver does not know the key.                  *)

TsigAccept(msg, reqMAC, timersOnly, now, SecretOf(_)) ==
  LET p == SplitTsig(msg) IN
  /\ p.st = "ok"
  /\ SecretOf(LowerName(p.t.key)) # <<>>
  /\ p.t.mac = Mac(SecretOf(LowerName(p.t.key)), LowerName(p.t.alg),
                   DigestInput(reqMAC, p.body, p.t.origId, p.t, timersOnly))
  /\ InWindow(now, p.t.time, p.t.fudge)

-----------------------------------------------------------------------------
(* Sessions: multi-envelope exchanges (RFC 8945 5.3.1).  The first MAC covers *)
(* the request MAC and the full variables; every later one covers the MAC of  *)
(* the previous envelope and the timers only.  State: [prev, timers].         *)
(* (RFC 8945 lets a TCP sender sign only every n-th envelope; the library     *)
(* signs and demands a TSIG on every envelope, which C15 states, so that is   *)
(* the session modelled.)                                                     *)

(* TSIG error responses (RFC 8945 5.2.3, 5.3.2): a server that finds the time   *)
(* signed outside the window (BADTIME) or the MAC too short for its policy      *)
(* (BADTRUNC) answers with a SIGNED error -- an ordinary first response: the    *)
(* session starts on the MAC of the request AS RECEIVED although that request   *)
(* did not verify, and the variables digested include the error code and the    *)
(* other data (the server's clock for BADTIME).  For BADSIG / BADKEY the        *)
(* response carries a TSIG without MAC ("unsigned"): nothing to verify; what    *)
(* the library sends there is recorded, not judged.                             *)
Session(reqMAC) == [prev |-> reqMAC, timers |-> FALSE]

\* sender: sign `body' with variables t under `secret'; result: next state and the octets sent
SignEnv(s, body, t, secret) ==
  LET mac == Mac(secret, LowerName(t.alg), DigestInput(s.prev, body, t.origId, t, s.timers)) IN
  [s |-> [prev |-> mac, timers |-> TRUE], env |-> Signed(body, t, mac), mac |-> mac]

\* receiver: what must be MACed for this envelope in this state (used by the trace specs, which
\* get the HMAC from the harness), and the next state
EnvDigest(s, msg) ==
  LET p == SplitTsig(msg) IN
  IF p.st # "ok" THEN [st |-> p.st]
  ELSE [st |-> "ok", wf |-> p.wf, strict |-> p.strict, t |-> p.t, body |-> p.body,
        digest |-> DigestInput(s.prev, p.body, p.t.origId, p.t, s.timers),
        next |-> [prev |-> p.t.mac, timers |-> TRUE]]

VerifyEnv(s, msg, now, SecretOf(_)) ==
  IF TsigAccept(msg, s.prev, s.timers, now, SecretOf)
  THEN [ok |-> TRUE, s |-> EnvDigest(s, msg).next]
  ELSE [ok |-> FALSE, s |-> s]

-----------------------------------------------------------------------------
(* Client connections (dns.Conn; RFC 8945 5.3, 5.3.2).  A transaction is a      *)
(* request written and everything read until the next request is written.      *)
(* Every signed message read within the transaction is judged as a first        *)
(* response: against the MAC of the request AS WRITTEN and the full variables   *)
(* -- however many messages were read before it in the same transaction (stray  *)
(* datagrams, late answers to earlier requests, the request reflected back):    *)
(* reading does not move the state, only the next signed request does.          *)
(* AMBIG: an unsigned request written after a signed one (the statement says    *)
(* nothing about the request MAC then); the state is left as it was and the     *)
(* recorders do not produce that order.                                         *)
(* A request itself is signed without request MAC (RFC 8945 5.1: message and    *)
(* variables): ConnRequestDigest is what its MAC has to cover.  Which request   *)
(* MAC a Conn gives a LATER request written on the same connection object is    *)
(* outside the property statement (it speaks of generation and verification     *)
(* "under the same request MAC"); recorded, not judged.                         *)
ConnOpen == Session(<<>>)
ConnWrite(c, msg) == LET p == SplitTsig(msg) IN IF p.st = "ok" THEN Session(p.t.mac) ELSE c
ConnReadDigest(c, msg) == EnvDigest(Session(c.prev), msg)
ConnRequestDigest(msg) == EnvDigest(Session(<<>>), msg)
ConnAccept(c, msg, now, SecretOf(_)) == TsigAccept(msg, c.prev, FALSE, now, SecretOf)

(* Faults between sender and receiver, on the sequence of octet strings sent. *)
FlipBit(msg, bit) ==       \* bit 0 = most significant bit of the first octet
  LET i == (bit \div 8) + 1
      w == Pow2(7 - (bit % 8)) IN
  [j \in 1..Len(msg) |-> IF j # i THEN msg[j]
                          ELSE IF (msg[j] \div w) % 2 = 1 THEN msg[j] - w ELSE msg[j] + w]

\* remove the TSIG record the way a middlebox would: cut it off, ARCOUNT - 1
Unsign(msg) == LET p == SplitTsig(msg) IN IF p.st = "ok" THEN p.body ELSE msg

DropAt(q, i)  == Sub(q, 1, i - 1) \o Sub(q, i + 1, Len(q))
DupAt(q, i)   == Sub(q, 1, i) \o Sub(q, i, Len(q))
SwapAt(q, i)  == IF i + 1 > Len(q) THEN q
                 ELSE Sub(q, 1, i - 1) \o <<q[i + 1], q[i]>> \o Sub(q, i + 2, Len(q))

\* an injective stand-in for the HMAC (model checking only): the arguments themselves
MacModel(secret, alg, octets) == <<Len(secret)>> \o secret \o EncName(alg) \o octets
=============================================================================
