---------------------------- MODULE Trace_Reverse ----------------------------
(* Events of harness `reverse record`, judged by Reverse.tla:                    *)
(*   reverse  ReverseAddr(text) -> (arpa, error)                                 *)
(*   t2s      TimeToString(t) -> text          (t = <<hi, lo>> 16-bit limbs)     *)
(*   s2t      StringToTime(text) -> (t, error)                                   *)
(*   add      dnsutil.AddOrigin(s, origin)     trim  dnsutil.TrimDomainName      *)
EXTENDS Reverse, TraceBase

VARIABLE l
Ev == Trace[l]

NameOK(s) == s = <<>> \/ s = At \/ Parse(FqdnSpec(s)).st = "ok"

Judge(e) ==
  CASE e.ev = "reverse" -> ReverseOK(e.text, e.ok, e.arpa)
    [] e.ev = "t2s"     -> Len(e.t) = 2 /\ TimeToStringOK(e.t, e.s)
    [] e.ev = "s2t"     -> StringToTimeOK(e.text, e.ok, e.t)
    [] e.ev = "add"     -> e.r = AddOriginFull(e.s, e.origin)
    [] e.ev = "trim"    -> NameOK(e.s) /\ NameOK(e.origin) /\ ~e.panic /\ e.r \in TrimAdm(e.s, e.origin)
    [] OTHER -> FALSE

Init == l = 1 /\ HWInit
Next == /\ l <= Len(Trace)
        /\ IF Judge(Ev) THEN TRUE ELSE MarkBad(l)
        /\ HW(l)
        /\ l' = l + 1
=============================================================================
