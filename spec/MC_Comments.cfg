CONSTANTS
  Variant = "spec"
  Wide = FALSE
INIT Init
NEXT Next
INVARIANTS Static RegOK Twice
CHECK_DEADLOCK FALSE
