------------------------------ MODULE MC_Edns ------------------------------
(* Edns.tla on itself.  The fields are independent, so "for ALL values" is     *)
(* covered by three slices, each exhaustive in one dimension:                  *)
(*   "fl"   every flag half-word 0..65535   x corner (rc, ver, udp)             *)
(*   "rv"   every (rc, ver) pair            x corner fl                         *)
(*   "arg"  every 16-bit argument           x corner headers                    *)
(*   "msg"  RCODE split / join through WireRR's encoder and reference decoder   *)
(* Each case is one state.                                                      *)
EXTENDS Edns

CONSTANT Scale       \* 0: quick slice (every 1st..), 1: everything

VARIABLES kind, o, a, phase     \* phase 0: enumerated (TLC does that single-threaded), 1: judged (by all workers)

H(rc, ver, fl, udp) == [rc |-> rc, ver |-> ver, fl |-> fl, udp |-> udp]
CornerFl  == {0, 1, 8191, 8192, 16383, 16384, 32767, 32768, 49151, 49152, 65535, 42405}
CornerHdr == { H(0, 0, 0, 0), H(255, 255, 65535, 65535), H(165, 90, 50115, 1232), H(1, 0, 32768, 4096),
               H(0, 255, 16384, 512), H(128, 1, 16383, 65535) }
BoolArgs  == { <<>>, <<TRUE>>, <<FALSE>>, <<FALSE, FALSE>>, <<TRUE, FALSE>> }

Big == Scale >= 1
Hdrs == IF Big THEN CornerHdr ELSE { H(165, 90, 50115, 1232), H(255, 255, 65535, 65535) }
Cases ==
  \/ kind = "fl"  /\ a = 0 /\ \E fl \in 0..65535, c \in (IF Big THEN {<<0, 0, 0>>, <<255, 255, 65535>>, <<165, 90, 1232>>} ELSE {<<165, 90, 1232>>}) :
                                 o = H(c[1], c[2], fl, c[3])
  \/ kind = "rv"  /\ a = 0 /\ \E rc \in 0..255, ver \in 0..255, fl \in (IF Big THEN CornerFl ELSE {42405}) :
                                 o = H(rc, ver, fl, 1232)
  \/ kind = "arg" /\ a \in 0..65535 /\ o \in Hdrs
  \/ kind = "msg" /\ a \in 0..4095 /\ o \in Hdrs
Init == phase = 0 /\ Cases
Next == phase = 0 /\ phase' = 1 /\ UNCHANGED <<kind, o, a>>
J == phase = 1

Same(x, y, fields) == \A f \in fields : x[f] = y[f]
All == {"rc", "ver", "fl", "udp"}

TypeOK == IsOptHdr(o)

\* (every invariant below is guarded by J: judged in phase 1)

\* the TTL word is a bijective image of (rc, ver, fl)
WordBijection == J =>
  /\ IsOct(Word(o), 4)
  /\ OfWord(Word(o), o.udp) = o
  /\ Word(o)[3] \div 128 = (IF Do(o) THEN 1 ELSE 0)                \* RFC 3225: first bit of the third octet
  /\ (Word(o)[3] \div 64) % 2 = (IF Co(o) THEN 1 ELSE 0)
  /\ o.fl = (IF Do(o) THEN DOBit ELSE 0) + (IF Co(o) THEN COBit ELSE 0) + Z(o)   \* DO | CO | Z partition the half-word

\* each setter: result well-formed, own getter reads the argument back, nothing else moves
BoolSetters == J =>
  \A bs \in BoolArgs :
    LET d == SetDo(o, bs)  c == SetCo(o, bs) IN
    /\ IsOptHdr(d) /\ Do(d) = Variadic(bs) /\ Co(d) = Co(o) /\ Z(d) = Z(o) /\ Same(d, o, All \ {"fl"})
    /\ IsOptHdr(c) /\ Co(c) = Variadic(bs) /\ Do(c) = Do(o) /\ Z(c) = Z(o) /\ Same(c, o, All \ {"fl"})
    /\ SetDo(d, bs) = d /\ SetCo(c, bs) = c                          \* idempotent
    /\ SetDo(SetCo(o, bs), bs) = SetCo(SetDo(o, bs), bs)             \* setters of different fields commute

ArgSetters ==
  J /\ kind = "arg" =>
    LET z == SetZ(o, a)  u == SetUDPSize(o, a)  x == SetExtendedRcode(o, a)  v == SetVersion(o, a % 256) IN
    /\ IsOptHdr(z) /\ Z(z) = a % 16384 /\ Do(z) = Do(o) /\ Co(z) = Co(o) /\ Same(z, o, All \ {"fl"})
    /\ IsOptHdr(u) /\ UDPSize(u) = a /\ Same(u, o, All \ {"udp"})
    /\ IsOptHdr(v) /\ Version(v) = a % 256 /\ Same(v, o, All \ {"ver"})
    /\ Same(x, o, All \ {"rc"})
    /\ (a <= 4095 => IsOptHdr(x) /\ ExtendedRcode(x) = a - (a % 16) /\ Joined(a % 16, x) = a)
    /\ (a <= 15 => x.rc = 0)                                         \* "not an extended RCODE ... reset to 0"
    /\ (a > 4095 => ExtendedRcode(x) = Free)
    /\ SetZ(SetVersion(o, a % 256), a) = SetVersion(SetZ(o, a), a % 256)
    /\ ApplyAll(o, << [op |-> "SetZ", v |-> a, bs |-> <<>>], [op |-> "SetUDPSize", v |-> a, bs |-> <<>>] >>) = SetUDPSize(z, a)

Getters == J =>
  /\ Version(o) = o.ver /\ UDPSize(o) = o.udp /\ ExtendedRcode(o) = 16 * o.rc
  /\ ExtendedRcode(o) % 16 = 0 /\ ExtendedRcode(o) \in 0..4080
  /\ Z(o) \in 0..16383
  /\ SetZ(o, Z(o)) = o /\ SetVersion(o, Version(o)) = o /\ SetUDPSize(o, UDPSize(o)) = o
  /\ SetDo(o, <<Do(o)>>) = o /\ SetCo(o, <<Co(o)>>) = o
  /\ SetExtendedRcode(o, ExtendedRcode(o)) = o
  /\ LET w == View(o) IN ViewMatches(w, w)

\* RCODE split / join, through WireRR: a = the 12-bit RCODE, o = the caller's OPT header
ARec == [name |-> << <<97>> >>, type |-> 1, class |-> 1, ttl |-> <<0, 0, 14, 16>>, nodata |-> FALSE, f |-> [A |-> <<192, 0, 2, 1>>]]
MHdr(rcode) == [id |-> 4660, qr |-> TRUE, opcode |-> 0, aa |-> FALSE, tc |-> FALSE, rd |-> TRUE, ra |-> TRUE,
                z |-> FALSE, ad |-> FALSE, cd |-> FALSE, rcode |-> rcode]
M(rcode, ar) == [hdr |-> MHdr(rcode), q |-> <<>>, an |-> <<>>, ns |-> <<>>, ar |-> ar]

MsgLevel ==
  J /\ kind = "msg" =>
    LET m0 == M(a, <<ARec>>)                       \* no OPT
        m1 == M(a, <<ARec, OptRR(o)>>)
        m2 == SetEdns0(m0, o.udp, Do(o))
        d1 == DecMsg(EncMsg(m1))
        p1 == AfterPack(m1)
    IN /\ WFMsg(m1) /\ WFMsg(m2)
       /\ IsEdns0(m0) = 0 /\ IsEdns0(m1) = 2 /\ IsEdns0(m2) = 2 /\ IsEdns0(M(a, <<OptRR(o), ARec>>)) = 1
       /\ (Packable(m0) <=> a <= 15) /\ Packable(m1) /\ Packable(m2)
       /\ HdrOfRR(m2.ar[2]) = H(0, 0, IF Do(o) THEN 32768 ELSE 0, o.udp)
       /\ d1.ok /\ d1.msg.hdr.rcode = a                                         \* join inverts split
       /\ HdrOfRR(p1.ar[2]) = SetExtendedRcode(o, a)                            \* the split IS SetExtendedRcode
       /\ HdrOfRR(d1.msg.ar[2]) = SetExtendedRcode(o, a)
       /\ d1.msg.hdr.rcode = Joined(DecHeader(EncMsg(m1)).rcode, HdrOfRR(d1.msg.ar[2]))
       /\ EncMsg(p1) = EncMsg(m1)                                               \* packing twice gives the same octets
=============================================================================
