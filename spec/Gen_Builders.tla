----------------------------- MODULE Gen_Builders -----------------------------
(* Vectors for X12.  Messages travel as octets (WireRR!EncMsg): the harness      *)
(* turns them into *dns.Msg with the real Unpack, applies the real builder and   *)
(* compares the struct (header fields, question entries, section sizes) and the  *)
(* octets of the real Pack with the admissible results.                          *)
(*  "reply"  every flag word (sharded) x 0..2 questions: SetReply on a fresh     *)
(*           message; every 16th word also on a used message, SetRcode and       *)
(*           SetRcodeFormatError                                                 *)
(*  "chain"  every sequence of <= 3 builders of an alphabet of 11, from a fresh  *)
(*           and from a used message, result after every step                    *)
(*  "pos"    additional sections of <= 3 records over {A, OPT, TSIG}             *)
(*  "rrset"  lists of <= 3 (owner, type, class)                                  *)
(*  "text"   IsFqdn / Fqdn / CanonicalName on every text of <= 5 symbols         *)
(*  "ismsg"  IsMsg on 0..14 octets                                               *)
EXTENDS Builders, GenBase

CONSTANTS Mode, Shard, NShards

VARIABLES v

RECURSIVE SetToSeq(_)
SetToSeq(S) == IF S = {} THEN <<>> ELSE LET e == CHOOSE x \in S : TRUE IN <<e>> \o SetToSeq(S \ {e})

Ex   == << <<101, 120, 97, 109, 112, 108, 101>>, <<111, 114, 103>> >>            \* example.org.
AEx  == << <<97>> >> \o Ex                                                      \* a.example.org.
BUp  == << <<66>>, <<69, 120>> >>                                               \* B.Ex.
Old  == << <<111, 108, 100>> >>                                                 \* old.
Alg  == << <<104, 109, 97, 99, 45, 115, 104, 97, 50, 53, 54>> >>                \* hmac-sha256.
ARec(n) == [name |-> n, type |-> 1, class |-> 1, ttl |-> <<0, 0, 0, 60>>, nodata |-> FALSE, f |-> [A |-> <<192, 0, 2, 1>>]]

Used == [hdr |-> [id |-> 48879, qr |-> TRUE, opcode |-> 2, aa |-> TRUE, tc |-> TRUE, rd |-> TRUE, ra |-> TRUE,
                  z |-> TRUE, ad |-> TRUE, cd |-> TRUE, rcode |-> 5],
         q |-> << Qn(Old, 16) >>, an |-> << ARec(Old) >>, ns |-> << ARec(Ex) >>, ar |-> << ARec(AEx) >>]

Questions == << Qn(AEx, 1), Qn(BUp, 28) >>
ReqOf(w, qc) == [hdr |-> HdrOfWord(4660 + qc, w), q |-> SubSeq(Questions, 1, qc), an |-> <<>>, ns |-> <<>>, ar |-> <<>>]

\* what the harness compares: the struct view and the octets (or: Pack must refuse)
View(m) == [hdr |-> m.hdr, q |-> [i \in 1..Len(m.q) |-> << Present(m.q[i].name), m.q[i].qtype, m.q[i].qclass >>],
            counts |-> << Len(m.an), Len(m.ns), Len(m.ar) >>,
            packable |-> Packable(m), wire |-> IF Packable(m) THEN EncMsg(m) ELSE <<>>]
Views(S) == SetToSeq({ View(m) : m \in S })

ReplyVector(c) ==     \* c = [w, qc, op, used, rcode]
  LET req == ReqOf(c.w, c.qc)
      m   == IF c.used THEN Used ELSE Fresh
      adm == CASE c.op = "SetReply" -> SetReplyAdm(m, req)
               [] c.op = "SetRcode" -> SetRcodeAdm(m, req, c.rcode)
               [] c.op = "SetRcodeFormatError" -> { SetRcodeFormatError(m, req) }
  IN [kind |-> "reply", op |-> c.op, w |-> c.w, qc |-> c.qc, rcode |-> c.rcode,
      reqwire |-> EncMsg(req), mwire |-> IF c.used THEN EncMsg(m) ELSE <<>>, idfree |-> FALSE, exp |-> Views(adm)]

ReplyCases(dummy) ==     \* parameterised: TLC evaluates zero-arity constants eagerly, in every mode
  LET W == { w \in 0..65535 : w % NShards = Shard } IN
     { [w |-> w, qc |-> qc, op |-> "SetReply", used |-> FALSE, rcode |-> 0] : w \in W, qc \in 0..2 }
  \cup { [w |-> w, qc |-> qc, op |-> op, used |-> u, rcode |-> rc] :
           w \in { x \in W : (x \div NShards) % 16 = 5 }, qc \in 0..2, op \in {"SetReply", "SetRcode", "SetRcodeFormatError"},
           u \in BOOLEAN, rc \in {3, 16} }

-----------------------------------------------------------------------------
\* builder alphabet of mode "chain"; requests there are plain queries so that no AMBIG applies
ReqQ == [hdr |-> [FreshHdr EXCEPT !.id = 4242, !.rd = TRUE, !.cd = TRUE], q |-> << Qn(AEx, 1) >>, an |-> <<>>, ns |-> <<>>, ar |-> <<>>]
NoPol == [nq |-> FALSE, allq |-> FALSE]
Ops == << [op |-> "SetQuestion", z |-> Ex, t |-> 1], [op |-> "SetQuestion", z |-> <<>>, t |-> 65535],
          [op |-> "SetNotify", z |-> Ex, t |-> 0], [op |-> "SetUpdate", z |-> BUp, t |-> 0], [op |-> "SetAxfr", z |-> Ex, t |-> 0],
          [op |-> "SetIxfr", z |-> Ex, t |-> 1], [op |-> "SetIxfr", z |-> BUp, t |-> 2],
          [op |-> "SetTsig", z |-> Old, t |-> 1], [op |-> "SetTsig", z |-> AEx, t |-> 2],
          [op |-> "SetReply", z |-> <<>>, t |-> 0], [op |-> "SetRcode", z |-> <<>>, t |-> 3], [op |-> "SetRcodeFormatError", z |-> <<>>, t |-> 0] >>
Serials == << <<0, 0, 0, 0>>, <<255, 255, 255, 255>> >>
Fudges  == << 300, 65535 >>
Times   == << <<0, 0, 104, 211, 158, 0>>, <<255, 255, 255, 255, 255, 255>> >>
Args(o) == IF o.op = "SetIxfr" THEN [serial |-> Serials[o.t], ns |-> AEx, mbox |-> BUp, algo |-> <<>>, fudge |-> 0, time |-> <<>>]
           ELSE IF o.op = "SetTsig" THEN [serial |-> <<>>, ns |-> <<>>, mbox |-> <<>>, algo |-> Alg, fudge |-> Fudges[o.t], time |-> Times[o.t]]
           ELSE [serial |-> <<>>, ns |-> <<>>, mbox |-> <<>>, algo |-> <<>>, fudge |-> 0, time |-> <<>>]
ApplyOp(m, o) ==
  LET a == Args(o) IN
  CASE o.op = "SetQuestion" -> SetQuestion(m, o.z, o.t)
    [] o.op = "SetNotify"   -> SetNotify(m, o.z)
    [] o.op = "SetUpdate"   -> SetUpdate(m, o.z)
    [] o.op = "SetAxfr"     -> SetAxfr(m, o.z)
    [] o.op = "SetIxfr"     -> SetIxfr(m, o.z, a.serial, a.ns, a.mbox)
    [] o.op = "SetTsig"     -> SetTsig(m, o.z, a.algo, a.fudge, a.time)
    [] o.op = "SetReply"    -> SetReply(m, ReqQ, NoPol)
    [] o.op = "SetRcode"    -> SetRcode(m, ReqQ, o.t, NoPol)
    [] o.op = "SetRcodeFormatError" -> SetRcodeFormatError(m, ReqQ)
IdFree(o) == o.op \in {"SetQuestion", "SetNotify", "SetUpdate", "SetAxfr", "SetIxfr"}

RECURSIVE Chain(_, _)
Chain(m, q) ==
  IF q = <<>> THEN <<>>
  ELSE LET o == Ops[Head(q)]  a == Args(o)  m2 == ApplyOp(m, o) IN
       << [op |-> o.op, z |-> Present(o.z), t |-> o.t, serial |-> a.serial, ns |-> Present(a.ns), mbox |-> Present(a.mbox),
           algo |-> Present(a.algo), fudge |-> a.fudge, time |-> a.time, idfree |-> IdFree(o), exp |-> << View(m2) >>] >>
       \o Chain(m2, Tail(q))
ChainVector(c) == [kind |-> "chain", mwire |-> IF c.used THEN EncMsg(Used) ELSE <<>>, reqwire |-> EncMsg(ReqQ),
                   steps |-> Chain(IF c.used THEN Used ELSE Fresh, c.q)]

-----------------------------------------------------------------------------
PosVector(ts) == [kind |-> "pos", types |-> ts, tsig |-> IsTsigAt(ts), opt |-> SetToSeq(IsEdns0Adm(ts))]

OwnerTexts == { Present(Ex), Present(BUp), <<69, 88, 65, 77, 80, 76, 69, 46, 111, 114, 103, 46>>,           \* EXAMPLE.org.
                <<101, 120, 97, 109, 112, 108, 101, 46, 111, 114, 103>> }                                  \* example.org (no final dot)
Triples == { <<o, t, c>> : o \in OwnerTexts, t \in {1, 28}, c \in {1, 3} }
RRsetVector(rs) == [kind |-> "rrset", rrs |-> rs, same |-> SetToSeq(IsRRsetAdm(rs))]

TSym == << <<97>>, <<65>>, <<46>>, <<92>>, <<200>>, <<195, 169>>, <<90>> >>    \* a A . \ raw-0xC8 e-acute(UTF-8) Z
TextOf(q) == Concat([i \in 1..Len(q) |-> TSym[q[i]]])
TextVector(t) == [kind |-> "text", text |-> t, isfqdn |-> IsFqdnSpec(t), fqdn |-> FqdnSpec(t), canon |-> CanonicalSpec(t)]

Init ==
  \/ Mode = "reply" /\ v \in ReplyCases(0)
  \/ Mode = "chain" /\ \E q \in UNION { [1..k -> 1..Len(Ops)] : k \in 1..3 }, u \in BOOLEAN : v = [q |-> q, used |-> u]
  \/ Mode = "pos"   /\ v \in UNION { [1..k -> {1, 41, 250}] : k \in 0..3 }
  \/ Mode = "rrset" /\ v \in UNION { [1..k -> Triples] : k \in 1..3 } /\ (Len(v) < 3 \/ v[1][2] = 1)
  \/ Mode = "text"  /\ v \in UNION { [1..k -> 1..Len(TSym)] : k \in 0..5 }
  \/ Mode = "ismsg" /\ v \in 0..14
Next == UNCHANGED v

Out == CASE Mode = "reply" -> Emit(ReplyVector(v))
         [] Mode = "chain" -> Emit(ChainVector(v))
         [] Mode = "pos"   -> Emit(PosVector(v))
         [] Mode = "rrset" -> Emit(RRsetVector(v))
         [] Mode = "text"  -> Emit(TextVector(TextOf(v)))
         [] Mode = "ismsg" -> Emit([kind |-> "ismsg", n |-> v, ok |-> IsMsgOK(v)])
=============================================================================
