------------------------------ MODULE MC_Sig0 ------------------------------
(* Sig0 on itself: messages of every small section shape (with and without a  *)
(* compression pointer) and two with 255 / 256 additional records are built    *)
(* here, signed with a toy signature, and taken apart again.                   *)
EXTENDS Sig0

VARIABLES kind, c

UpperN(n) == [i \in 1..Len(n) |-> [j \in 1..Len(n[i]) |-> IF n[i][j] >= 97 /\ n[i][j] <= 122 THEN n[i][j] - 32 ELSE n[i][j]]]
NameQ == << <<97, 98>>, <<99>> >>                       \* ab.c.
Hdr(qd, an, ns, ar) == <<18, 52, 129, 128>> \o U16(qd) \o U16(an) \o U16(ns) \o U16(ar)
Qn == EncName(NameQ) \o U16(1) \o U16(1)
RRw(owner, rdata) == owner \o U16(16) \o U16(1) \o U32(300) \o U16(Len(rdata)) \o rdata
Rep(n, x) == Concat([i \in 1..n |-> x])
\* c = <<qd, an, ns, ar, ptr>>: owners are a pointer to offset 12 when ptr = 1 (needs a question), else spelled out
Msg(s) ==
  LET owner == IF s[5] = 1 /\ s[1] > 0 THEN <<192, 12>> ELSE EncName(NameQ) IN
  Hdr(s[1], s[2], s[3], s[4]) \o Rep(s[1], Qn) \o Rep(s[2], RRw(owner, <<1, 65>>)) \o Rep(s[3], RRw(owner, <<>>)) \o Rep(s[4], RRw(<<0>>, <<2, 66, 67>>))

F == [alg |-> 13, exp |-> <<101, 0, 0, 9>>, inc |-> <<100, 255, 255, 255>>, keytag |-> 4660, signer |-> << <<75, 101, 89>>, <<122>> >>]   \* KeY.z.
ToySig == <<7, 8, 9, 10>>
Now0 == <<100, 255, 255, 255>>     \* = inception
Now1 == <<101, 0, 0, 9>>           \* = expiration
Early == <<100, 255, 255, 254>>
Late  == <<101, 0, 0, 10>>

MsgOK ==
  kind = "msg" =>
    LET m == Msg(c)  rs == SigRdataSans(F)  out == Output(m, rs, ToySig)  v == View(out)  rg == Regions(m, rs, Len(ToySig)) IN
    /\ Walk(m).ok
    /\ Len(out) = Len(m) + 11 + Len(rs) + Len(ToySig)
    /\ LayoutFault(m, F, out) = ""
    /\ LayoutFault(m, F, Output(m, SigRdataSans([F EXCEPT !.signer = LowerName(F.signer)]), ToySig)) = ""    \* AMBIG reading admitted
    /\ LayoutFault(m, F, Output(m, SigRdataSans([F EXCEPT !.signer = UpperN(F.signer)]), ToySig)) = ":rdata"
    /\ v.ok /\ v.type = TypeSIG /\ v.alg = F.alg /\ v.exp = F.exp /\ v.inc = F.inc /\ v.signer = F.signer /\ v.keytag = F.keytag
    /\ v.signed = SignedOctets(m, rs) /\ v.sig = ToySig /\ v.ar = AR(m) + 1
    /\ Accept0(v, F.signer, Now0, TRUE) /\ Accept0(v, UpperN(F.signer), Now1, TRUE)
    /\ ~Accept0(v, F.signer, Now0, FALSE)
    /\ ~Accept0(v, F.signer, Early, TRUE) /\ ~Accept0(v, F.signer, Late, TRUE)
    /\ LET vi == [v EXCEPT !.inc = F.exp, !.exp = F.inc] IN      \* inverted window: no instant is inside
         ~Accept0(vi, F.signer, Now0, TRUE) /\ ~Accept0(vi, F.signer, Now1, TRUE) /\ ~Accept0(vi, F.signer, Early, TRUE)
         /\ ~Accept0(vi, F.signer, Late, TRUE) /\ ~Accept0(vi, F.signer, <<100, 255, 255, 255 - 0>>, TRUE)
    /\ ~Accept0(v, Tail(F.signer), Now0, TRUE) /\ ~Accept0(v, << <<75, 101, 90>>, <<122>> >>, Now0, TRUE)
    \* names are compared as domain names: U+212A KELVIN SIGN (e2 84 aa) is not a K, "{" is not "[" (0x20 apart, no letters)
    /\ ~Accept0(v, << <<226, 132, 170, 101, 89>>, <<122>> >>, Now0, TRUE)
    /\ ~Accept0([v EXCEPT !.signer = << <<91, 101>> >>], << <<123, 101>> >>, Now0, TRUE) /\ Accept0([v EXCEPT !.signer = << <<91, 101>> >>], << <<91, 69>> >>, Now0, TRUE)
    \* the SIG value Verify is called on does not enter: a template that carries another window (or none) changes nothing
    /\ \A rr \in { [inc |-> F.inc, exp |-> F.exp, keytag |-> F.keytag, signer |-> F.signer],
                   [inc |-> Late, exp |-> Late, keytag |-> 1, signer |-> <<>>], [inc |-> Early, exp |-> Early, keytag |-> F.keytag, signer |-> F.signer] } :
         /\ VerifyOn(rr, out, F.signer, Now0, TRUE) /\ VerifyOn(rr, out, F.signer, Now1, TRUE)
         /\ ~VerifyOn(rr, out, F.signer, Early, TRUE) /\ ~VerifyOn(rr, out, F.signer, Late, TRUE) /\ ~VerifyOn(rr, out, F.signer, Now0, FALSE)
    /\ rg[1].from = 0 /\ rg[1].to + 1 = rg[2].from /\ rg[2].to + 1 = rg[3].from /\ rg[3].to = Len(out) - 1
    /\ rg[2].from = Len(m) /\ Sub(out, rg[3].from + 1, rg[3].to + 1) = rs \o ToySig
FaultsOK ==     \* each way of getting the layout wrong is named
  kind = "msg" =>
    LET m == Msg(c)  rs == SigRdataSans(F)  out == Output(m, rs, ToySig)  L == Len(m) IN
    /\ LayoutFault(m, F, PatchAR(out, AR(m))) = ":arcount"
    /\ LayoutFault(m, F, [out EXCEPT ![L + 11] = (@ + 1) % 256]) = ":rdlength"
    /\ LayoutFault(m, F, [out EXCEPT ![L + 3] = 25]) = ":rr-header"
    /\ LayoutFault(m, F, [out EXCEPT ![L + 14] = 14]) = ":rdata"                    \* algorithm octet
    /\ LayoutFault(m, F, [out EXCEPT ![1] = 19]) = ":message-octets"
    /\ LayoutFault(m, F, Take(out, L + 11 + Len(rs))) = ":too-short"
    /\ LayoutFault(m, F, SigRdataSans(F) \o m) # ""
TruncOK ==      \* no proper prefix of at least header size is a message whose last record is this SIG
  kind = "msg" /\ c[4] < 200 =>
    LET m == Msg(c)  out == Output(m, SigRdataSans(F), ToySig) IN
    \A n \in HeaderSize..(Len(out) - 1) : ~Accept0(View(Take(out, n)), F.signer, Now0, TRUE)

Shapes == { s \in (0..2) \X (0..2) \X (0..1) \X (0..2) \X {0, 1} : s[5] = 1 => s[1] > 0 }
Init == \/ kind = "msg" /\ c \in Shapes
        \/ kind = "msg" /\ c \in { <<1, 1, 0, 255, 1>>, <<0, 0, 0, 256, 0>> }
Next == UNCHANGED <<kind, c>>
=============================================================================
