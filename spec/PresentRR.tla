------------------------------ MODULE PresentRR ------------------------------
(* The independent READER of the presentation format of resource records      *)
(* (property C05).  It reads one record from text -- lexed by the RFC 1035     *)
(* s.5.1 lexer of Present.tla -- and says which wire octets the text denotes:  *)
(*                                                                            *)
(*   text --Lex--> tokens --header--> owner (Names!Parse), TTL, class, type    *)
(*                        --RDATA---> field values, by PRESENTATION KIND        *)
(*                                    (PresKind: per type, the items of the    *)
(*                                    text in the order the RFC of the type    *)
(*                                    gives them)                               *)
(*                        --WireRR!EncRdata--> RDATA octets                      *)
(*                                                                            *)
(* Everything is written from the RFCs (1035 s.5.1, 3597 s.5, and the RFC of   *)
(* each type), never from the library's String() / parse() pairs: a String()   *)
(* bug that its parse() mirrors shows as a difference with this reader.        *)
(*                                                                            *)
(* Interpreted here: decimal integers of every width (carried as octets: TLC   *)
(* integers are 32-bit), domain names, character-strings, TXT-like lists, hex  *)
(* / base64 / base32hex blobs (split over several items or not), `-' salts,    *)
(* type mnemonic lists (bitmaps), dotted quads, EUI-48/64, ILNP 64-bit values, *)
(* certificate-type / algorithm mnemonics, gateway selectors, RFC 3597 generic *)
(* RDATA `\# len hex'.                                                          *)
(* Pre-decoded by the harness with the Go standard library (DESIGN s.1.3) and  *)
(* passed in `hk' (in text order), the reader checking only that the harness   *)
(* decoded the item that stands at that place: IPv6 addresses (net/netip),     *)
(* RRSIG times YYYYMMDDHHmmSS (time), LOC (RFC 1876 text), APL items           *)
(* (net/netip), SvcParam values (RFC 9460 value-list syntax).  An hk entry is  *)
(* [t |-> the item text the harness decoded, ok |-> it could, v |-> the         *)
(* abstract value (the shape WireRR's encoders take)].                          *)
EXTENDS WireRR, Present, PresentRRTables

Bad(why) == [ok |-> FALSE, why |-> why]
Good(v)  == [ok |-> TRUE, v |-> v]

-----------------------------------------------------------------------------
(* Decimal integers of any width: octets, big-endian.                          *)

RECURSIVE MulAdd(_, _, _)
MulAdd(b, i, carry) ==       \* positions 1..i of b * 10 + carry, carry entering at position i
  IF i = 0 THEN [s |-> <<>>, c |-> carry]
  ELSE LET x == b[i] * 10 + carry
           r == MulAdd(b, i - 1, x \div 256)
       IN [s |-> Append(r.s, x % 256), c |-> r.c]

RECURSIVE DecOctFrom(_, _, _)
DecOctFrom(s, i, b) ==
  IF i > Len(s) THEN Good(b)
  ELSE IF ~IsDigit(s[i]) THEN Bad("not-decimal")
  ELSE LET r == MulAdd(b, Len(b), s[i] - 48) IN
       IF r.c > 0 THEN Bad("out-of-range") ELSE DecOctFrom(s, i + 1, r.s)

\* the w-octet big-endian value of the decimal numeral s (digits only, at least one)
DecOctets(s, w) == IF s = <<>> THEN Bad("not-decimal") ELSE DecOctFrom(s, 1, [i \in 1..w |-> 0])

\* the encoder it inverts (model checking only)
RECURSIVE DivTen(_, _, _)
DivTen(b, i, rem) ==
  IF i > Len(b) THEN [q |-> <<>>, r |-> rem]
  ELSE LET x == rem * 256 + b[i]
           rest == DivTen(b, i + 1, x % 10)
       IN [q |-> <<x \div 10>> \o rest.q, r |-> rest.r]
AllZero(b) == \A i \in 1..Len(b) : b[i] = 0
RECURSIVE DecEncR(_)
DecEncR(b) == IF AllZero(b) THEN <<>> ELSE LET d == DivTen(b, 1, 0) IN Append(DecEncR(d.q), 48 + d.r)
DecEnc(b) == IF AllZero(b) THEN <<48>> ELSE DecEncR(b)

-----------------------------------------------------------------------------
(* Hexadecimal (RFC 4648 s.8, either case), base64 (s.4, padded), base32hex    *)
(* without padding (s.7; RFC 5155 s.3.3), either case.                          *)

HexVal(c) == IF c >= 48 /\ c <= 57 THEN c - 48
             ELSE IF c >= 65 /\ c <= 70 THEN c - 55
             ELSE IF c >= 97 /\ c <= 102 THEN c - 87 ELSE -1
HexDec(s) ==
  IF Len(s) % 2 # 0 \/ \E i \in 1..Len(s) : HexVal(s[i]) = -1 THEN Bad("not-hex")
  ELSE Good([i \in 1..(Len(s) \div 2) |-> 16 * HexVal(s[2 * i - 1]) + HexVal(s[2 * i])])
HexDigit(n, upper) == IF n < 10 THEN 48 + n ELSE IF upper THEN 55 + n ELSE 87 + n
HexEnc(b, upper) == Concat([i \in 1..Len(b) |-> << HexDigit(b[i] \div 16, upper), HexDigit(b[i] % 16, upper) >>])

B64Val(c) == IF c >= 65 /\ c <= 90 THEN c - 65
             ELSE IF c >= 97 /\ c <= 122 THEN c - 71
             ELSE IF c >= 48 /\ c <= 57 THEN c + 4
             ELSE IF c = 43 THEN 62 ELSE IF c = 47 THEN 63 ELSE -1
B64Dec(s) ==
  LET n    == Len(s)
      pad  == IF n >= 2 /\ s[n] = 61 /\ s[n - 1] = 61 THEN 2 ELSE IF n >= 1 /\ s[n] = 61 THEN 1 ELSE 0
      body == Take(s, n - pad)
  IN IF n % 4 # 0 \/ \E i \in 1..Len(body) : B64Val(body[i]) = -1 THEN Bad("not-base64")
     ELSE LET q(i)   == B64Val(body[i])
              full   == Len(body) \div 4
              grp(g) == LET o == 4 * (g - 1) IN
                        << q(o + 1) * 4 + (q(o + 2) \div 16), (q(o + 2) % 16) * 16 + (q(o + 3) \div 4), (q(o + 3) % 4) * 64 + q(o + 4) >>
              z      == 4 * full
              tail   == IF pad = 1 THEN << q(z + 1) * 4 + (q(z + 2) \div 16), (q(z + 2) % 16) * 16 + (q(z + 3) \div 4) >>
                        ELSE IF pad = 2 THEN << q(z + 1) * 4 + (q(z + 2) \div 16) >> ELSE <<>>
          IN Good(Concat([g \in 1..full |-> grp(g)]) \o tail)
B64Char(v) == IF v < 26 THEN 65 + v ELSE IF v < 52 THEN 71 + v ELSE IF v < 62 THEN v - 4 ELSE IF v = 62 THEN 43 ELSE 47
B64Enc(b) ==
  LET full   == Len(b) \div 3
      rest   == Len(b) % 3
      grp(g) == LET o == 3 * (g - 1) IN
                << B64Char(b[o + 1] \div 4), B64Char((b[o + 1] % 4) * 16 + (b[o + 2] \div 16)),
                   B64Char((b[o + 2] % 16) * 4 + (b[o + 3] \div 64)), B64Char(b[o + 3] % 64) >>
      z      == 3 * full
      tail   == IF rest = 1 THEN << B64Char(b[z + 1] \div 4), B64Char((b[z + 1] % 4) * 16), 61, 61 >>
                ELSE IF rest = 2 THEN << B64Char(b[z + 1] \div 4), B64Char((b[z + 1] % 4) * 16 + (b[z + 2] \div 16)),
                                         B64Char((b[z + 2] % 16) * 4), 61 >>
                ELSE <<>>
  IN Concat([g \in 1..full |-> grp(g)]) \o tail

B32Val(c) == IF c >= 48 /\ c <= 57 THEN c - 48
             ELSE IF c >= 65 /\ c <= 86 THEN c - 55
             ELSE IF c >= 97 /\ c <= 118 THEN c - 87 ELSE -1
B32Dec(s) ==
  LET n    == Len(s)
      full == n \div 8
      rest == n % 8
      q(i) == IF i <= n THEN B32Val(s[i]) ELSE 0
      five(o) == << q(o + 1) * 8 + (q(o + 2) \div 4),
                    (q(o + 2) % 4) * 64 + q(o + 3) * 2 + (q(o + 4) \div 16),
                    (q(o + 4) % 16) * 16 + (q(o + 5) \div 2),
                    (q(o + 5) % 2) * 128 + q(o + 6) * 4 + (q(o + 7) \div 8),
                    (q(o + 7) % 8) * 32 + q(o + 8) >>
      keep == CASE rest = 0 -> 0 [] rest = 2 -> 1 [] rest = 4 -> 2 [] rest = 5 -> 3 [] rest = 7 -> 4 [] OTHER -> -1
  IN IF keep = -1 \/ \E i \in 1..n : B32Val(s[i]) = -1 THEN Bad("not-base32hex")
     ELSE Good(Concat([g \in 1..full |-> five(8 * (g - 1))]) \o Take(five(8 * full), keep))
B32Char(v, upper) == IF v < 10 THEN 48 + v ELSE IF upper THEN 55 + v ELSE 87 + v
B32Enc(b, upper) ==
  LET n      == Len(b)
      o(i)   == IF i <= n THEN b[i] ELSE 0
      grp(g) == LET z == 5 * (g - 1) IN
                << o(z + 1) \div 8, (o(z + 1) % 8) * 4 + (o(z + 2) \div 64), (o(z + 2) \div 2) % 32,
                   (o(z + 2) % 2) * 16 + (o(z + 3) \div 16), (o(z + 3) % 16) * 2 + (o(z + 4) \div 128),
                   (o(z + 4) \div 4) % 32, (o(z + 4) % 4) * 8 + (o(z + 5) \div 32), o(z + 5) % 32 >>
      all    == Concat([g \in 1..((n + 4) \div 5) |-> grp(g)])
      chars  == (n * 8 + 4) \div 5
  IN [i \in 1..chars |-> B32Char(all[i], upper)]

-----------------------------------------------------------------------------
(* Mnemonics.  Type: the table (IANA) or TYPEnnn; class: Present!ClassOf.      *)

TypeOfRR(s) == LET u == Upper(s)  m == LookUp(TypeTableRR, u) IN IF m # -1 THEN m ELSE Numbered(kTYPE, u)
MnemonicOf(tab, code) == LET hit == { i \in 1..Len(tab) : tab[i][2] = code } IN
                         IF hit = {} THEN <<>> ELSE tab[CHOOSE i \in hit : TRUE][1]
TypeText(t)  == LET m == MnemonicOf(TypeTableRR, t) IN IF m # <<>> THEN m ELSE kTYPE \o DecEnc(U16(t))
ClassText(c) == LET m == MnemonicOf(ClassTable, c) IN IF m # <<>> THEN m ELSE kCLASS \o DecEnc(U16(c))

\* a mnemonic of the table, or the decimal value (w octets wide)
MnemOrDec(tab, s, w) ==
  LET m == LookUp(tab, Upper(s)) IN
  IF m # -1 THEN Good(m) ELSE LET d == DecOctets(s, w) IN IF d.ok THEN Good(BE(d.v)) ELSE d

-----------------------------------------------------------------------------
(* Presentation kinds.  One entry per ITEM of the text, in text order:         *)
(*   [n |-> the abstract field it gives, p |-> how it is written]               *)
(* one item = one token, except the kinds marked (rest), which take every      *)
(* remaining token.                                                            *)
(*   u8 u16 u32   decimal                                                       *)
(*   name         domain name, fully qualified in a self-contained record       *)
(*   str          <character-string>, quoted or not, at most 255 octets         *)
(*   lstr         the same without the length limit (URI target, CAA value)     *)
(*   strs (rest)  one or more <character-string>s;  ostr (rest): none or one    *)
(*   hex b64 (rest)  blob, the tokens concatenated; hex1 b641: one token        *)
(*   salt         hex in one token, `-' for the empty salt (RFC 5155 s.3.3)     *)
(*   b32          base32hex, one token (NSEC3 next hashed owner)                *)
(*   types (rest) type mnemonics / TYPEnnn (RFC 4034 s.4.2)                      *)
(*   names (rest) domain names (HIP rendezvous servers)                         *)
(*   a            dotted quad                                                   *)
(*   typ          one type mnemonic (RRSIG type covered)                        *)
(*   certtype alg mnemonic or decimal (RFC 4398 s.2.2, RFC 4034 s.2.2 / 3.2)     *)
(*   time         YYYYMMDDHHmmSS (hk) or decimal seconds (RFC 4034 s.3.2)        *)
(*   eui48 eui64  xx-xx-..  (RFC 7043 s.3.2, 4.2)                                *)
(*   ilnp64       xxxx:xxxx:xxxx:xxxx  (RFC 6742 s.2.4.1, 2.4.3)                 *)
(*   dbit         0 or 1 (RFC 8777 s.4.3.1)                                      *)
(*   gateway      selected by the integer item `of': 0 `.', 1 dotted quad,      *)
(*                2 IPv6 (hk), 3 domain name (RFC 4025 s.3.1, RFC 8777 s.4.3.1) *)
(*   aaaa         IPv6 address (hk)                                             *)
(*   loc (rest)   RFC 1876 s.3 (hk: the seven fields)                            *)
(*   apl (rest)   RFC 3123 s.5 items (hk: one [fam, neg, prefix, addr] each)    *)
(*   svcb (rest)  RFC 9460 s.2.1 SvcParams (hk: one [key, f] each)               *)
I(n, p)      == [n |-> n, p |-> p]
IG(n, of)    == [n |-> n, p |-> "gateway", of |-> of]
PName(n)     == << I(n, "name") >>
PPrefName(a, b) == << I(a, "u16"), I(b, "name") >>
PDS      == << I("KeyTag", "u16"), I("Algorithm", "alg"), I("DigestType", "u8"), I("Digest", "hex") >>
PDNSKEY  == << I("Flags", "u16"), I("Protocol", "u8"), I("Algorithm", "alg"), I("PublicKey", "b64") >>
PRRSIG   == << I("TypeCovered", "typ"), I("Algorithm", "alg"), I("Labels", "u8"), I("OrigTtl", "u32"),
               I("Expiration", "time"), I("Inception", "time"), I("KeyTag", "u16"), I("SignerName", "name"),
               I("Signature", "b64") >>
PTLSA    == << I("Usage", "u8"), I("Selector", "u8"), I("MatchingType", "u8"), I("Certificate", "hex") >>
PSVCB    == << I("Priority", "u16"), I("Target", "name"), I("Value", "svcb") >>
PTXT(n)  == << I(n, "strs") >>

PresKind ==
     (1  :> << I("A", "a") >>)
  @@ (2  :> PName("Ns")) @@ (3 :> PName("Md")) @@ (4 :> PName("Mf")) @@ (5 :> PName("Target"))
  @@ (6  :> << I("Ns", "name"), I("Mbox", "name"), I("Serial", "u32"), I("Refresh", "u32"), I("Retry", "u32"),
               I("Expire", "u32"), I("Minttl", "u32") >>)
  @@ (7  :> PName("Mb")) @@ (8 :> PName("Mg")) @@ (9 :> PName("Mr")) @@ (12 :> PName("Ptr"))
  @@ (13 :> << I("Cpu", "str"), I("Os", "str") >>)
  @@ (14 :> << I("Rmail", "name"), I("Email", "name") >>)
  @@ (15 :> PPrefName("Preference", "Mx"))
  @@ (16 :> PTXT("Txt"))
  @@ (17 :> << I("Mbox", "name"), I("Txt", "name") >>)
  @@ (18 :> PPrefName("Subtype", "Hostname"))
  @@ (19 :> << I("PSDNAddress", "str") >>)
  @@ (20 :> << I("Address", "str"), I("SubAddress", "ostr") >>)
  @@ (21 :> PPrefName("Preference", "Host"))
  @@ (23 :> PName("Ptr"))
  @@ (24 :> PRRSIG) @@ (46 :> PRRSIG)
  @@ (25 :> PDNSKEY) @@ (48 :> PDNSKEY) @@ (60 :> PDNSKEY) @@ (57 :> PDNSKEY)
  @@ (26 :> << I("Preference", "u16"), I("Map822", "name"), I("Mapx400", "name") >>)
  @@ (27 :> << I("Longitude", "str"), I("Latitude", "str"), I("Altitude", "str") >>)
  @@ (28 :> << I("AAAA", "aaaa") >>)
  @@ (29 :> << I("LOC", "loc") >>)
  @@ (30 :> << I("NextDomain", "name"), I("TypeBitMap", "types") >>)
  @@ (31 :> << I("Endpoint", "hex") >>) @@ (32 :> << I("Locator", "hex") >>)
  @@ (33 :> << I("Priority", "u16"), I("Weight", "u16"), I("Port", "u16"), I("Target", "name") >>)
  @@ (35 :> << I("Order", "u16"), I("Preference", "u16"), I("Flags", "str"), I("Service", "str"), I("Regexp", "str"),
               I("Replacement", "name") >>)
  @@ (36 :> PPrefName("Preference", "Exchanger"))
  @@ (37 :> << I("Type", "certtype"), I("KeyTag", "u16"), I("Algorithm", "alg"), I("Certificate", "b64") >>)
  @@ (39 :> PName("Target"))
  @@ (42 :> << I("Prefixes", "apl") >>)
  @@ (43 :> PDS) @@ (59 :> PDS) @@ (32768 :> PDS) @@ (32769 :> PDS)
  @@ (44 :> << I("Algorithm", "u8"), I("Type", "u8"), I("FingerPrint", "hex") >>)
  @@ (45 :> << I("Precedence", "u8"), I("GatewayType", "u8"), I("Algorithm", "u8"), IG("GatewayHost", "GatewayType"),
               I("PublicKey", "b64") >>)
  @@ (47 :> << I("NextDomain", "name"), I("TypeBitMap", "types") >>)
  @@ (49 :> << I("Digest", "b64") >>)
  @@ (50 :> << I("Hash", "u8"), I("Flags", "u8"), I("Iterations", "u16"), I("Salt", "salt"), I("NextDomain", "b32"),
               I("TypeBitMap", "types") >>)
  @@ (51 :> << I("Hash", "u8"), I("Flags", "u8"), I("Iterations", "u16"), I("Salt", "salt") >>)
  @@ (52 :> PTLSA) @@ (53 :> PTLSA)
  @@ (55 :> << I("PublicKeyAlgorithm", "u8"), I("Hit", "hex1"), I("PublicKey", "b641"), I("RendezvousServers", "names") >>)
  @@ (56 :> PTXT("ZSData"))
  @@ (58 :> << I("PreviousName", "name"), I("NextName", "name") >>)
  @@ (61 :> << I("PublicKey", "b64") >>)
  @@ (62 :> << I("Serial", "u32"), I("Flags", "u16"), I("TypeBitMap", "types") >>)
  @@ (63 :> << I("Serial", "u32"), I("Scheme", "u8"), I("Hash", "u8"), I("Digest", "hex") >>)
  @@ (64 :> PSVCB) @@ (65 :> PSVCB)
  @@ (99 :> PTXT("Txt"))
  @@ (100 :> << I("Uinfo", "str") >>)
  @@ (101 :> << I("Uid", "u32") >>) @@ (102 :> << I("Gid", "u32") >>)
  @@ (104 :> << I("Preference", "u16"), I("NodeID", "ilnp64") >>)
  @@ (105 :> << I("Preference", "u16"), I("Locator32", "a") >>)
  @@ (106 :> << I("Preference", "u16"), I("Locator64", "ilnp64") >>)
  @@ (107 :> PPrefName("Preference", "Fqdn"))
  @@ (108 :> << I("Address", "eui48") >>) @@ (109 :> << I("Address", "eui64") >>)
  @@ (256 :> << I("Priority", "u16"), I("Weight", "u16"), I("Target", "lstr") >>)
  @@ (257 :> << I("Flag", "u8"), I("Tag", "str"), I("Value", "lstr") >>)
  @@ (258 :> PTXT("Txt"))
  @@ (260 :> << I("Precedence", "u8"), I("D", "dbit"), I("GwType", "u8"), IG("GatewayHost", "GwType") >>)
  @@ (261 :> PTXT("Txt"))

(* Types of the layout WITHOUT a presentation format of their own: NULL (RFC   *)
(* 1035 s.3.3.10 defines none), OPT, TKEY, TSIG (never in master files), ANY   *)
(* and NXNAME (no RDATA, never stored).  Every other code point has one: the   *)
(* typed form above, or RFC 3597 s.5 generic RDATA.                             *)
NoPresentation == {10, 41, 128, 249, 250, 255}
HasPresentation(t) == t \notin NoPresentation
Typed(t) == t \in DOMAIN PresKind

RestKinds == {"strs", "ostr", "hex", "b64", "types", "names", "loc", "apl", "svcb"}
HkKinds   == {"aaaa", "loc", "apl", "svcb"}       \* + time (14 digits) and gateway (selector 2)

-----------------------------------------------------------------------------
(* One token -> one value *)

Unq(tok) == ~tok.q
Joined(toks) == Concat([i \in 1..Len(toks) |-> toks[i].raw])
JoinedSp(toks) == Concat([i \in 1..Len(toks) |-> IF i = 1 THEN toks[i].raw ELSE <<cSP>> \o toks[i].raw])

NameOf(tok) ==
  IF tok.q THEN Bad("name-quoted")
  ELSE LET p == Parse(tok.raw) IN
       IF p.st # "ok" THEN Bad("name-syntax")
       ELSE IF ~p.fq THEN Bad("name-relative")            \* its meaning would depend on an $ORIGIN
       ELSE IF ~ValidName(p.labels) THEN Bad("name-length")
       ELSE Good(p.labels)

IntOf(tok, w) == IF tok.q THEN Bad("number-quoted")
                 ELSE LET d == DecOctets(tok.raw, w) IN IF d.ok THEN Good(BE(d.v)) ELSE d

\* xx-xx-xx...: n groups of two hex digits
SepHex(s, sep, groups, width) ==
  LET parts == Split(s, sep) IN
  IF Len(parts) # groups \/ \E i \in 1..Len(parts) : Len(parts[i]) # width THEN Bad("bad-groups")
  ELSE HexDec(Concat(parts))

ReadTok(p, tok) ==
  CASE p = "u8"   -> IntOf(tok, 1)
    [] p = "u16"  -> IntOf(tok, 2)
    [] p = "u32"  -> IF tok.q THEN Bad("number-quoted") ELSE DecOctets(tok.raw, 4)
    [] p = "name" -> NameOf(tok)
    [] p = "str"  -> IF Len(tok.v) > 255 THEN Bad("string-too-long") ELSE Good(tok.v)
    [] p = "lstr" -> Good(tok.v)
    [] p = "hex1" -> IF tok.q THEN Bad("blob-quoted") ELSE HexDec(tok.raw)
    [] p = "salt" -> IF tok.q THEN Bad("blob-quoted") ELSE IF tok.raw = <<45>> THEN Good(<<>>)
                     ELSE IF tok.raw = <<>> THEN Bad("not-hex") ELSE HexDec(tok.raw)
    [] p = "b641" -> IF tok.q THEN Bad("blob-quoted") ELSE B64Dec(tok.raw)
    [] p = "b32"  -> IF tok.q THEN Bad("blob-quoted") ELSE B32Dec(tok.raw)
    [] p = "a"    -> IF tok.q THEN Bad("address-quoted") ELSE LET r == IP4Of(tok.raw) IN IF r.ok THEN Good(r.v) ELSE Bad("not-ipv4")
    [] p = "typ"  -> IF tok.q \/ TypeOfRR(tok.raw) = -1 THEN Bad("unknown-type-mnemonic") ELSE Good(TypeOfRR(tok.raw))
    [] p = "certtype" -> IF tok.q THEN Bad("number-quoted") ELSE
                         LET r == MnemOrDec(CertTypeTable, tok.raw, 2) IN IF r.ok THEN r ELSE Bad("unknown-certtype-mnemonic")
    [] p = "alg"  -> IF tok.q THEN Bad("number-quoted") ELSE
                     LET r == MnemOrDec(AlgTable, tok.raw, 1) IN IF r.ok THEN r ELSE Bad("unknown-algorithm-mnemonic")
    [] p = "dbit" -> IF tok.q \/ tok.raw \notin {<<48>>, <<49>>} THEN Bad("dbit") ELSE Good(tok.raw[1] - 48)
    [] p = "eui48"  -> IF tok.q THEN Bad("blob-quoted") ELSE SepHex(tok.raw, 45, 6, 2)
    [] p = "eui64"  -> IF tok.q THEN Bad("blob-quoted") ELSE SepHex(tok.raw, 45, 8, 2)
    [] p = "ilnp64" -> IF tok.q THEN Bad("blob-quoted") ELSE SepHex(tok.raw, 58, 4, 4)

SingleKinds == {"u8", "u16", "u32", "name", "str", "lstr", "hex1", "salt", "b641", "b32", "a", "typ", "certtype", "alg",
                "dbit", "eui48", "eui64", "ilnp64"}

\* an item the harness decoded: it must be the item standing here, unquoted, and decodable
HkAt(hk, h, text) ==
  IF h > Len(hk) THEN Bad("hk-missing")
  ELSE IF hk[h].t # text THEN Bad("hk-misplaced")
  ELSE IF ~hk[h].ok THEN Bad("hk-undecodable")
  ELSE Good(hk[h].v)

-----------------------------------------------------------------------------
(* Rest kinds: every remaining token *)

RECURSIVE MapToks(_, _, _, _)
MapToks(p, toks, i, acc) ==        \* ReadTok on each; first failure wins
  IF i > Len(toks) THEN Good(acc)
  ELSE LET r == ReadTok(p, toks[i]) IN IF ~r.ok THEN r ELSE MapToks(p, toks, i + 1, Append(acc, r.v))

\* SvcParams: an item is `key', `key=value' or `key="value"' (RFC 9460 s.2.1: the value is a
\* <character-string>, so it may be quoted; then the lexer yields two adjacent tokens)
RECURSIVE SvcItems(_, _)
SvcItems(toks, i) ==
  IF i > Len(toks) THEN <<>>
  ELSE IF ~toks[i].q /\ toks[i].raw # <<>> /\ toks[i].raw[Len(toks[i].raw)] = 61 /\ i < Len(toks) /\ toks[i + 1].q
       THEN << toks[i].raw \o <<cQUOTE>> \o toks[i + 1].raw \o <<cQUOTE>> >> \o SvcItems(toks, i + 2)
  ELSE << IF toks[i].q THEN <<cQUOTE>> \o toks[i].raw \o <<cQUOTE>> ELSE toks[i].raw >> \o SvcItems(toks, i + 1)

kKEY == <<107, 101, 121>>
SvcKeyOf(item) ==          \* the key an item names, -1 if none
  LET k == Split(item, 61)[1]
      m == LookUp(SvcKeyTable, k) IN
  IF m # -1 THEN m
  ELSE IF IsPrefixOf(kKEY, k) /\ Len(k) > 3 /\ (k[4] # 48 \/ Len(k) = 4)
       THEN LET d == U16Of(Drop(k, 3)) IN IF d.ok THEN d.v ELSE -1
  ELSE -1

RECURSIVE HkSeq(_, _, _, _)
HkSeq(hk, h, items, acc) ==        \* one hk entry per item
  IF items = <<>> THEN [ok |-> TRUE, v |-> acc, h |-> h]
  ELSE LET r == HkAt(hk, h, Head(items)) IN
       IF ~r.ok THEN r ELSE HkSeq(hk, h + 1, Tail(items), Append(acc, r.v))

\* -> [ok, v, h (next hk index)]
ReadRest(p, toks, hk, h) ==
  LET with(r) == IF r.ok THEN [ok |-> TRUE, v |-> r.v, h |-> h] ELSE r IN
  CASE p = "strs"  -> IF toks = <<>> THEN Bad("no-string") ELSE with(MapToks("str", toks, 1, <<>>))
    [] p = "ostr"  -> IF Len(toks) > 1 THEN Bad("trailing-tokens") ELSE with(MapToks("str", toks, 1, <<>>))
    [] p = "hex"   -> IF \E i \in 1..Len(toks) : toks[i].q THEN Bad("blob-quoted") ELSE with(HexDec(Joined(toks)))
    [] p = "b64"   -> IF \E i \in 1..Len(toks) : toks[i].q THEN Bad("blob-quoted") ELSE with(B64Dec(Joined(toks)))
    [] p = "types" -> with(MapToks("typ", toks, 1, <<>>))
    [] p = "names" -> with(MapToks("name", toks, 1, <<>>))
    [] p = "loc"   -> IF \E i \in 1..Len(toks) : toks[i].q THEN Bad("loc-quoted")
                      ELSE LET r == HkAt(hk, h, JoinedSp(toks)) IN IF r.ok THEN [ok |-> TRUE, v |-> r.v, h |-> h + 1] ELSE r
    [] p = "apl"   -> IF \E i \in 1..Len(toks) : toks[i].q THEN Bad("apl-quoted")
                      ELSE HkSeq(hk, h, [i \in 1..Len(toks) |-> toks[i].raw], <<>>)
    [] p = "svcb"  -> LET items == SvcItems(toks, 1)
                          r == HkSeq(hk, h, items, <<>>) IN
                      IF ~r.ok THEN r
                      ELSE IF \E i \in 1..Len(items) : SvcKeyOf(items[i]) = -1 \/ SvcKeyOf(items[i]) # r.v[i].key
                           THEN Bad("svcb-key")
                      ELSE r

-----------------------------------------------------------------------------
(* The items of a type, in order.  st = [h |-> next hk entry, f |-> fields]      *)

RECURSIVE ReadItems(_, _, _, _, _, _)
ReadItems(ps, i, toks, j, hk, st) ==
  IF i > Len(ps) THEN
    IF j <= Len(toks) THEN Bad("trailing-tokens")
    ELSE IF st.h <= Len(hk) THEN Bad("hk-unused")
    ELSE [ok |-> TRUE, f |-> st.f]
  ELSE
    LET e == ps[i]  p == e.p
        put(v, h) == ReadItems(ps, i + 1, toks, j + 1, hk, [h |-> h, f |-> (e.n :> v) @@ st.f])
    IN
    IF p \in RestKinds THEN
      LET r == ReadRest(p, Sub(toks, j, Len(toks)), hk, st.h) IN
      IF ~r.ok THEN r
      ELSE ReadItems(ps, i + 1, toks, Len(toks) + 1, hk,
                     [h |-> r.h, f |-> IF p = "loc" THEN r.v @@ st.f ELSE (e.n :> r.v) @@ st.f])
    ELSE IF j > Len(toks) THEN Bad("missing-item")
    ELSE LET tok == toks[j] IN
      IF p \in SingleKinds THEN
        LET r == ReadTok(p, tok) IN IF r.ok THEN put(r.v, st.h) ELSE r
      ELSE IF p = "aaaa" THEN
        (IF tok.q THEN Bad("address-quoted")
         ELSE LET r == HkAt(hk, st.h, tok.raw) IN IF r.ok THEN put(r.v, st.h + 1) ELSE r)
      ELSE IF p = "time" THEN
        (IF tok.q THEN Bad("number-quoted")
         ELSE IF Len(tok.raw) = 14 THEN LET r == HkAt(hk, st.h, tok.raw) IN IF r.ok THEN put(r.v, st.h + 1) ELSE r
         ELSE LET r == DecOctets(tok.raw, 4) IN IF r.ok THEN put(r.v, st.h) ELSE r)
      ELSE IF p = "gateway" THEN
        (LET sel == st.f[e.of] IN
         IF tok.q THEN Bad("gateway-quoted")
         ELSE IF sel = 0 THEN (IF tok.raw = <<cDOT>> THEN put(<<>>, st.h) ELSE Bad("gateway-none"))
         ELSE IF sel = 1 THEN (LET r == ReadTok("a", tok) IN IF r.ok THEN put(r.v, st.h) ELSE r)
         ELSE IF sel = 2 THEN (LET r == HkAt(hk, st.h, tok.raw) IN IF r.ok THEN put(r.v, st.h + 1) ELSE r)
         ELSE IF sel = 3 THEN (LET r == NameOf(tok) IN IF r.ok THEN put(r.v, st.h) ELSE r)
         ELSE Bad("gateway-type"))
      ELSE Bad("unknown-kind")

\* what the text leaves implicit: the length fields; AMTRELAY's D bit and type share an octet
Complete(t, f0) ==
  LET es  == FieldsOf(t)
      f1  == IF t = 260
             THEN [n \in (DOMAIN f0 \ {"D", "GwType"}) \cup {"GatewayType"} |->
                     IF n = "GatewayType" THEN f0["D"] * 128 + f0["GwType"] ELSE f0[n]]
             ELSE f0
      szi == { i \in 1..Len(es) : "sz" \in DOMAIN es[i] }
      szs == { es[i].sz : i \in szi }
  IN [n \in DOMAIN f1 \cup szs |->
        IF n \in szs THEN Len(f1[es[CHOOSE i \in szi : es[i].sz = n].n]) ELSE f1[n]]

\* RFC 3597 s.5: \# <length> <hex...>
ReadGeneric(toks) ==
  IF Len(toks) < 2 \/ \E i \in 1..Len(toks) : toks[i].q THEN Bad("generic-form")
  ELSE LET n == DecOf(toks[2].raw)
           d == HexDec(Joined(Sub(toks, 3, Len(toks)))) IN
       IF ~n.ok \/ n.big THEN Bad("generic-length")
       ELSE IF ~d.ok THEN Bad("generic-hex")
       ELSE IF Len(d.v) # n.v THEN Bad("generic-length")
       ELSE Good(d.v)

IsGenericMark(tok) == ~tok.q /\ tok.raw = <<cBSL, 35>>

(* AMBIG (C01 known finding wire/..:NXT:flat-bitmap): RFC 2535 s.5.2 gives NXT  *)
(* a flat bitmap, the library packs the RFC 4034 window blocks.  C05 is about   *)
(* the text: both encodings of the type list the text denotes are admitted.     *)
RdataAlts(t, f) ==
  {EncRdata(t, f)} \cup (IF t = 30 THEN {EncName(f.NextDomain) \o EncBitmap(f.TypeBitMap)} ELSE {})

\* RDATA tokens of a record of type t -> the set of RDATA octet strings they may denote
ReadRdata(t, toks, hk) ==
  IF toks # <<>> /\ IsGenericMark(toks[1]) THEN
    (IF hk # <<>> THEN Bad("hk-unused")
     ELSE LET r == ReadGeneric(toks) IN IF r.ok THEN [ok |-> TRUE, alts |-> {r.v}] ELSE r)
  ELSE IF ~Typed(t) THEN Bad("typed-form-of-unknown-type")
  ELSE LET r == ReadItems(PresKind[t], 1, toks, 1, hk, [h |-> 1, f |-> <<>>]) IN
       IF ~r.ok THEN r
       ELSE LET f == Complete(t, r.f) IN
            IF ~WFRdata(t, f) THEN Bad("value-out-of-range")
            ELSE [ok |-> TRUE, alts |-> RdataAlts(t, f)]

-----------------------------------------------------------------------------
(* The whole record.  A self-contained record states owner, TTL, class and     *)
(* type (RFC 1035 s.5.1: <domain-name> [<TTL>] [<class>] <type> <RDATA>, TTL    *)
(* and class in either order); what is omitted would depend on the context.    *)

TokensOf(text) == Lex(text).toks

(* The text uses only RFC 1035 master-file syntax: printable ASCII, tab and     *)
(* line breaks; no raw control or non-ASCII octet; quotes and parentheses       *)
(* balanced; backslash only as \X (X not a digit) or \DDD with DDD <= 255.       *)
OnlyMasterSyntaxL(text, L) ==          \* L = Lex(text), computed once by the caller
  /\ \A i \in 1..Len(text) : text[i] = cTAB \/ text[i] = cLF \/ (text[i] >= 32 /\ text[i] <= 126)
  /\ L.ill = "" /\ ~L.odd
OnlyMasterSyntax(text) == OnlyMasterSyntaxL(text, Lex(text))

TTLOctets(tok) == IF tok.q THEN Bad("ttl-quoted") ELSE DecOctets(tok.raw, 4)

(* TypeIs(_): what a type token denotes (-1: nothing); FixToks(_, _): the RDATA tokens of a record of   *)
(* the given type as the reader takes them.  The reader of this module knows the IANA table and TYPEnnn *)
(* (TypeOfRR) and takes the tokens as they stand; PresentReg.tla reads under a registry of private       *)
(* mnemonics with the same operator.                                                                     *)
ReadRecordWith(L, hk, TypeIs(_), FixToks(_, _)) ==      \* L = Lex(text)
  IF L.ill # "" THEN Bad("ill-formed-" \o L.ill)
  ELSE LET es == Entries(L.toks) IN
    IF Len(es) # 1 THEN Bad("not-one-entry")
    ELSE LET it == es[1] IN
      IF it[1].k = "sp" THEN Bad("owner-omitted")
      ELSE IF Len(it) < 4 THEN Bad("header-incomplete")
      ELSE
        LET own   == NameOf(it[1])
            c2    == IF it[2].q THEN -1 ELSE ClassOf(it[2].raw)
            c3    == IF it[3].q THEN -1 ELSE ClassOf(it[3].raw)
            ttl   == IF c2 # -1 THEN TTLOctets(it[3]) ELSE TTLOctets(it[2])
            class == IF c2 # -1 THEN c2 ELSE c3
            type  == IF it[4].q THEN -1 ELSE TypeIs(it[4].raw)
        IN
        IF ~own.ok THEN Bad("owner-" \o own.why)
        ELSE IF class = -1 THEN Bad("class")
        ELSE IF ~ttl.ok THEN Bad("ttl")
        ELSE IF type = -1 THEN Bad("unknown-type-mnemonic")
        ELSE LET rd == ReadRdata(type, FixToks(type, Sub(it, 5, Len(it))), hk) IN
             IF ~rd.ok THEN Bad("rdata-" \o rd.why)
             ELSE [ok |-> TRUE, name |-> own.v, type |-> type, class |-> class, ttl |-> ttl.v, alts |-> rd.alts,
                   amb |-> L.amb]
ReadRecordL(L, hk) == ReadRecordWith(L, hk, TypeOfRR, LAMBDA t, toks : toks)
ReadRecord(text, hk) == ReadRecordL(Lex(text), hk)

-----------------------------------------------------------------------------
(* AMBIG: fields whose RFC restricts the alphabet or the range.  The property   *)
(* quantifies over "all field values"; for a value outside what the RFC of the  *)
(* type gives a meaning to, the text form is not defined either, so a failure   *)
(* on such a record is counted but not reported.  Stated on RDATA octets.       *)
AllIn(s, ok(_)) == \A i \in 1..Len(s) : ok(s[i])
IsAlnum(c) == IsDigit(c) \/ (c >= 65 /\ c <= 90) \/ (c >= 97 /\ c <= 122)
Digits1(s) == s # <<>> /\ AllIn(s, IsDigit)
\* RFC 1712: [+-] digits [. digits]
FloatText(s) ==
  LET body  == IF s # <<>> /\ s[1] \in {43, 45} THEN Tail(s) ELSE s
      parts == Split(body, cDOT) IN
  /\ Len(parts) \in {1, 2}
  /\ \A i \in 1..Len(parts) : Digits1(parts[i])
LeOct(a, b) == a = b \/ LexLess(a, b)
(* RFC 1876 s.2: version 0; size / precision: base and exponent 0..9 each; latitude within 90, longitude   *)
(* within 180 degrees.  A zero base with a non-zero exponent is a second spelling of 0 cm: the text "0m"  *)
(* cannot say which one was meant (\* AMBIG: the RFC does not forbid it, no text form distinguishes it).   *)
LocOK(rd) ==
  /\ Len(rd) = 16 /\ rd[1] = 0
  /\ \A i \in 2..4 : rd[i] \div 16 <= 9 /\ rd[i] % 16 <= 9 /\ (rd[i] \div 16 = 0 => rd[i] = 0)
  /\ LeOct(<<108, 176, 39, 0>>, Sub(rd, 5, 8)) /\ LeOct(Sub(rd, 5, 8), <<147, 79, 217, 0>>)
  /\ LeOct(<<89, 96, 78, 0>>, Sub(rd, 9, 12)) /\ LeOct(Sub(rd, 9, 12), <<166, 159, 178, 0>>)

\* RFC 9460 s.8: the value of "mandatory" lists one or more keys
RECURSIVE SvcParamsOK(_, _)
SvcParamsOK(rd, off) ==
  IF off + 4 > Len(rd) THEN TRUE
  ELSE LET k == rd[off + 1] * 256 + rd[off + 2]  n == rd[off + 3] * 256 + rd[off + 4] IN
       (k = 0 => n >= 2) /\ SvcParamsOK(rd, off + 4 + n)

InAlphabet(t, rd) ==
  CASE t = 19  -> LET d == DecRdata(19, rd) IN d.ok /\ Digits1(d.f.PSDNAddress)                 \* RFC 1183 s.3.1: numeric string
    [] t = 27  -> LET d == DecRdata(27, rd) IN d.ok /\ FloatText(d.f.Longitude) /\ FloatText(d.f.Latitude) /\ FloatText(d.f.Altitude)
    [] t = 257 -> LET d == DecRdata(257, rd) IN d.ok /\ d.f.Tag # <<>> /\ AllIn(d.f.Tag, IsAlnum)  \* RFC 8659 s.4.1
    [] t = 29  -> LocOK(rd)
    [] t = 50  -> Len(rd) >= 5 /\ Len(rd) >= 6 + rd[5] /\ rd[6 + rd[5]] >= 1                     \* RFC 5155 s.3.2: hash length 1..255
    [] t = 55  -> Len(rd) >= 4 /\ rd[1] >= 1 /\ rd[3] * 256 + rd[4] >= 1                        \* RFC 8005 s.5: a HIT and a key
    [] t \in {16, 56, 99, 258, 261} -> rd # <<>>                                                  \* RFC 1035 s.3.3.14: one or more <character-string>s
    [] t \in {64, 65} -> LET d == DecName(rd, 2) IN d.ok /\ SvcParamsOK(rd, d.next)
    [] OTHER   -> TRUE
=============================================================================
