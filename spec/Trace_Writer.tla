---------------------------- MODULE Trace_Writer ----------------------------
(* Events recorded from a real dns.Server (harness `writer record`), judged by  *)
(* Writer.tla.  A trace is a concatenation of connections; every connection     *)
(* starts with a `conn' event.                                                  *)
(*                                                                              *)
(*  conn   [tr, maxq, rt, idle]  a fresh server with that configuration gets a  *)
(*         stream connection / a packet conn                                    *)
(*  dl     [d]      (stream) the worker set a read deadline; d = the NAME of    *)
(*                  the duration nearest to (argument - clock at the call)      *)
(*  msg    [kind, src, tsig]  the client sent a whole message (kind "query" is  *)
(*                  accepted, "ign" dropped by the admission check); the        *)
(*                  harness sends it only once the worker blocks in its read    *)
(*  op     [op, len, ok, r]  one call on the ResponseWriter inside the handler, *)
(*                  with everything that came back and reached the transport    *)
(*  ret             the handler returned                                        *)
(*  eof             the client closed its end                                   *)
(*  fin    [closes, open]  the worker ended: Close calls it made on the         *)
(*                  net.Conn on its way out, and whether the conn is open now   *)
(*  post   like op, after the worker has gone                                   *)
(*  pcdls  [ds]     (packet conn) every read deadline the loop set              *)
(*                                                                              *)
(* The state is the SET of connection records compatible with the events so     *)
(* far (the AMBIG reading in Writer!Deliver forks it).  An event no candidate   *)
(* admits is marked bad and the rest of that connection is skipped.             *)
EXTENDS Writer, TraceBase

VARIABLES l, C, skip
Ev == Trace[l]

OpOf(e) == [op |-> e.op, len |-> e.len, ok |-> e.ok]
IsRes(r) == DOMAIN r = {"err", "n", "writes", "closes", "val"}
WellFormed(e) ==
  CASE e.ev = "conn"  -> e.tr \in Transports
    [] e.ev = "dl"    -> Has(e, "d")
    [] e.ev = "msg"   -> e.kind \in {"query", "ign"} /\ e.tsig \in Signings
    [] e.ev \in {"op", "post"} -> e.op \in OpNames /\ IsRes(e.r)
    [] e.ev \in {"ret", "eof"} -> TRUE
    [] e.ev = "fin"   -> Has(e, "closes") /\ Has(e, "open")
    [] e.ev = "pcdls" -> Has(e, "ds")
    [] OTHER -> FALSE

Settled(c) == IF ~Stream(c.tr) /\ c.at = "loop" THEN SrvRead(c) ELSE c       \* the packet loop reads without being seen

\* strict: ResMatches; otherwise everything but Write's count (a wrong count is reported, the
\* connection's state is not in doubt and the rest of the connection is still judged)
Step(c, e, strict) ==
  LET Match(exp, obs) == IF strict THEN ResMatches(exp, obs) ELSE ResMatches([exp EXCEPT !.n = obs.n], obs) IN
  CASE e.ev = "dl" ->
         IF Stream(c.tr) /\ CanRead(c) /\ e.d = NextDL(c) THEN { SrvRead(c) } ELSE {}
    [] e.ev = "msg" ->
         LET c0 == Settled(c) IN
         IF c0.at # "reading" THEN {}
         ELSE { Deliver(c0, e.kind, e.src, e.tsig, ic) : ic \in BOOLEAN }
    [] e.ev = "op" ->
         IF c.at # "handling" THEN {}
         ELSE LET d == DoOp(c, OpOf(e)) IN IF Match(d.r, e.r) THEN { d.c } ELSE {}
    [] e.ev = "post" ->
         IF ~(CanPost(c) /\ c.nh > 0) THEN {}
         ELSE LET d == DoOp(c, OpOf(e)) IN IF Match(d.r, e.r) THEN { d.c } ELSE {}
    [] e.ev = "ret" -> IF c.at = "handling" THEN { Return(c) } ELSE {}
    [] e.ev = "eof" -> IF Stream(c.tr) /\ c.at = "reading" THEN { ReadFails(c) } ELSE {}
    [] e.ev = "fin" ->
         LET c0 == IF c.at = "loop" /\ ~CanRead(c) THEN SrvLeave(c) ELSE c IN
         IF c0.at = "finish" /\ e.closes = FinishCloses(c0) /\ e.open = Finish(c0).open THEN { Finish(c0) } ELSE {}
    [] e.ev = "pcdls" ->
         LET c0 == Settled(c) IN
         IF ~Stream(c.tr) /\ c0.at = "reading" /\ e.ds = c0.dls THEN { c0 } ELSE {}

Init == l = 1 /\ C = {} /\ skip = TRUE /\ HWInit

Next ==
  /\ l <= Len(Trace)
  /\ HW(l)
  /\ l' = l + 1
  /\ IF ~WellFormed(Ev) THEN MarkBad(l) /\ skip' = TRUE /\ C' = {}
     ELSE IF Ev.ev = "conn"
          THEN C' = { NewConn(Ev.tr, [maxq |-> Ev.maxq, rt |-> Ev.rt, idle |-> Ev.idle]) } /\ skip' = FALSE
     ELSE IF skip THEN UNCHANGED << C, skip >>
     ELSE LET C2 == UNION { Step(c, Ev, TRUE) : c \in C }
              C3 == UNION { Step(c, Ev, FALSE) : c \in C }
          IN IF C2 # {} THEN C' = C2 /\ skip' = FALSE
             ELSE IF C3 # {} THEN MarkBad(l) /\ C' = C3 /\ skip' = FALSE
             ELSE MarkBad(l) /\ skip' = TRUE /\ C' = {}
=============================================================================
