------------------------------ MODULE Exchange ------------------------------
(* Property C12, second half: N clients and one server running concurrently.  *)
(* The server receives each datagram into a buffer taken from a pool of B     *)
(* buffers, decodes it, returns the buffer to the pool and only then calls    *)
(* the handler; the handler's reply goes to the address the datagram came     *)
(* from.  No mixing: each handler sees exactly the request its client sent    *)
(* and each client receives exactly the reply its handler wrote.              *)
(*                                                                            *)
(* The module has no variables; a state is a record and every action an       *)
(* operator from state to state with its guard:                               *)
(*   cst    client -> "idle" | "wait" | "done"                                *)
(*   net    client -> number of copies of its request in the network          *)
(*   size   client -> number of octets of its request (set when it sends)     *)
(*   via    client -> the server address it sent the request to (a server on  *)
(*          a wildcard socket has several); the reply must come from there    *)
(*   oob    the place the receive path keeps the session data (which local    *)
(*          address the last datagram arrived on) while reading               *)
(*   pool   buffer -> how many times it lies in the pool (0 or 1; a buffer    *)
(*          that got there twice will be handed to two readers at once)       *)
(*   blen   buffer -> how many octets a read into it can take: the length of  *)
(*          the slice that was put into the pool (Cap unless KeepLen)         *)
(*   buf    buffer -> the request octets it holds: [who, n] = the first n     *)
(*          octets of client who's request (who = 0: nothing)                 *)
(*   tasks  sequence of server tasks [from, b, stage, req]:                   *)
(*            from  the source address of the datagram (= the client)         *)
(*            b     the buffer it was received into                           *)
(*            stage "recv" -> "decoded" -> "released" -> "handled" -> "done"  *)
(*                  (Swapped: "recv" -> "freed" -> "released": the buffer     *)
(*                  goes back to the pool before it has been decoded)         *)
(*            req   the decoded request [who, n] (who = 0 before decoding)     *)
(*            local the session: the local address the datagram arrived on,  *)
(*                  copied out of oob when it was received                    *)
(*   rnet   set of replies in the network [to, body, src]                     *)
(*   got    client -> the reply it received (0 = none)                        *)
(*   saw    sequence of [from, req]: what each handler invocation saw         *)
(* A request is identified with its client (distinct names, IDs, payloads)    *)
(* and how much of it there is; requests differ in size; ReplyFor is          *)
(* injective.                                                                 *)
EXTENDS Integers, Sequences, FiniteSets

CONSTANTS Clients,      \* e.g. 1..3
          Buffers,      \* e.g. 1..2
          Cap,          \* size of a receive buffer (Server.UDPSize); no request is larger
          Swapped,      \* FALSE: decode, then release (as server.go does); TRUE: release, then decode
          KeepLen,      \* FALSE: the whole buffer goes back to the pool; TRUE: the slice cut to the last datagram's length
          SessShared,   \* FALSE: every task owns a copy of its session data; TRUE: the session points into the receive
                        \* path's scratch space, which the next datagram overwrites
          DoubleRelease \* FALSE: every path releases the buffer once; TRUE: the path for datagrams that are not handled
                        \* (undecodable, refused by the policy, too short) releases it twice

Nothing == [who |-> 0, n |-> 0]
Whole(x, c) == [who |-> c, n |-> x.size[c]]          \* the request of client c, all of it
ReplyFor(req) == <<100 + req.who, req.n>>
NoAddr == 0

XInit == [cst |-> [c \in Clients |-> "idle"], net |-> [c \in Clients |-> 0], size |-> [c \in Clients |-> 0],
          via |-> [c \in Clients |-> NoAddr], oob |-> NoAddr, junk |-> 0, pool |-> [b \in Buffers |-> 1], blen |-> [b \in Buffers |-> Cap],
          buf |-> [b \in Buffers |-> Nothing], tasks |-> <<>>, rnet |-> {}, got |-> [c \in Clients |-> <<>>], saw |-> <<>>]

CanSend(x, c) == x.cst[c] = "idle"
Send(x, c, n, a) == [x EXCEPT !.cst[c] = "wait", !.net[c] = @ + 1, !.size[c] = n, !.via[c] = a]

\* a client that has not been answered sends again (datagram transports: the request or the reply was lost)
CanResend(x, c) == x.cst[c] = "wait"
Resend(x, c)    == [x EXCEPT !.net[c] = @ + 1]

\* a read takes as many octets as the slice it is given has room for
Taken(x, b, c) == IF x.size[c] < x.blen[b] THEN x.size[c] ELSE x.blen[b]
InPool(x, b) == x.pool[b] > 0
Free(x) == { b \in Buffers : InPool(x, b) }
CanRecv(x, b, c) == InPool(x, b) /\ x.net[c] > 0
Recv(x, b, c) ==
  [x EXCEPT !.pool[b] = @ - 1, !.buf[b] = [who |-> c, n |-> Taken(x, b, c)], !.net[c] = @ - 1, !.oob = x.via[c],
            !.tasks = Append(@, [from |-> c, b |-> b, stage |-> "recv", req |-> Nothing, local |-> x.via[c]])]

\* Datagrams that never reach a handler -- undecodable, refused or ignored by the accept policy, shorter than a
\* header -- come from anybody (sender 0) and take a buffer like every other; their path releases it too.
Junk == 0
SendJunk(x) == [x EXCEPT !.junk = @ + 1]
CanRecvJunk(x, b) == InPool(x, b) /\ x.junk > 0
RecvJunk(x, b) ==
  [x EXCEPT !.pool[b] = @ - 1, !.buf[b] = Nothing, !.junk = @ - 1,
            !.tasks = Append(@, [from |-> Junk, b |-> b, stage |-> "recv", req |-> Nothing, local |-> NoAddr])]
CanJunkRelease(x, t) == t \in 1..Len(x.tasks) /\ x.tasks[t].stage = "recv" /\ x.tasks[t].from = Junk
JunkRelease(x, t) ==
  [x EXCEPT !.pool[x.tasks[t].b] = @ + (IF DoubleRelease THEN 2 ELSE 1), !.blen[x.tasks[t].b] = Cap, !.tasks[t].stage = "done"]

StageIs(x, t, st) == t \in 1..Len(x.tasks) /\ x.tasks[t].stage = st

CanDecode(x, t) == StageIs(x, t, IF Swapped THEN "freed" ELSE "recv") /\ x.tasks[t].from # Junk
Decode(x, t) ==
  [x EXCEPT !.tasks[t].req = x.buf[x.tasks[t].b],
            !.tasks[t].stage = IF Swapped THEN "released" ELSE "decoded"]

CanRelease(x, t) == StageIs(x, t, IF Swapped THEN "recv" ELSE "decoded") /\ x.tasks[t].from # Junk
Release(x, t) ==
  [x EXCEPT !.pool[x.tasks[t].b] = @ + 1,
            !.blen[x.tasks[t].b] = IF KeepLen THEN x.buf[x.tasks[t].b].n ELSE Cap,
            !.tasks[t].stage = IF Swapped THEN "freed" ELSE "released"]

CanHandle(x, t) == StageIs(x, t, "released")
Handle(x, t) ==
  [x EXCEPT !.saw = Append(@, [from |-> x.tasks[t].from, req |-> x.tasks[t].req]), !.tasks[t].stage = "handled"]

CanReply(x, t) == StageIs(x, t, "handled")
\* the reply leaves from the local address the session names
SessionOf(x, t) == IF SessShared THEN x.oob ELSE x.tasks[t].local
Reply(x, t) ==
  [x EXCEPT !.rnet = @ \cup {[to |-> x.tasks[t].from, body |-> ReplyFor(x.tasks[t].req), src |-> SessionOf(x, t)]},
            !.tasks[t].stage = "done"]

CanClientRecv(x, c, r) == r \in x.rnet /\ r.to = c /\ x.cst[c] = "wait"
ClientRecv(x, c, r) == [x EXCEPT !.got[c] = <<r.body, r.src>>, !.cst[c] = "done"]

-----------------------------------------------------------------------------
\* each handler sees exactly the request its client sent; each client gets exactly the reply its handler wrote
HandlerSeesOwn(x) == \A i \in 1..Len(x.saw) : x.saw[i].req = Whole(x, x.saw[i].from)       \* every octet of it
\* ... and it reaches the client from the address the client talked to (the reply path is not mixed either)
ClientGetsOwn(x)  == \A c \in Clients : x.cst[c] = "done" => x.got[c] = <<ReplyFor(Whole(x, c)), x.via[c]>>
NoMixing(x) == HandlerSeesOwn(x) /\ ClientGetsOwn(x)

\* a buffer is never in the pool while a task still has to read it (what makes NoMixing hold)
BufferOwned(x) == \A t \in 1..Len(x.tasks) : x.tasks[t].stage = "recv" => ~InPool(x, x.tasks[t].b)
\* whatever path released it: a buffer lies in the pool at most once
PoolOnce(x) == \A b \in Buffers : x.pool[b] <= 1
=============================================================================
