----------------------------- MODULE MC_Compress -----------------------------
(* Bounded exhaustive check of Compress on itself, with the pointer limit     *)
(* lowered (MaxOff = 4, 6, 9 in three runs) so that it is crossed inside tiny *)
(* plans.  Labels are single octets over {a, A, 0xC8 (spelled \200), '.'      *)
(* (spelled \.)}; plans have 3 or 4 names of at most 3 labels separated by    *)
(* 0, 1 or 3 other octets.                                                    *)
(*                                                                            *)
(* The state machine emits a plan name by name.  For each name EVERY choice   *)
(* (cut i, target t) is tried:                                                *)
(*   - a choice PackAny allows is taken and the run goes on;                  *)
(*   - in Mode "dev" a choice PackAny forbids is taken once and the run ends. *)
(* `impl' says whether the run so far made exactly the choices of PackImpl    *)
(* (CompressLen's model of packDomainName, mirrored by Compress!PNC).         *)
(*                                                                            *)
(* Checked:                                                                   *)
(*   Refinement    wherever the run followed PackImpl, PackImpl's next choice *)
(*                 is allowed by PackAny; at the end the length is            *)
(*                 CompressLen!PackImpl's.                                    *)
(*   Transparent   at the end of an allowed run every name decodes            *)
(*                 (Names!DecName) to the plan's name, case preserved.        *)
(*   NeverLonger   allowed run <= uncompressed unless a pointer replaces a    *)
(*                 root octet (AMBIG, see Compress!Allowed); PackImpl never   *)
(*                 does that.  The judge has the clause "longer" for it.      *)
(*   PointersValid every pointer < MaxOff, before its name, at a suffix start.*)
(*   JudgeAccepts  the decoder-side judge says "ok" to the part stream of     *)
(*                 every allowed run against the uncompressed emission.       *)
(*   JudgeRejects  a run with a forbidden choice that still decodes is not    *)
(*                 "ok" for the judge (encoder and decoder side agree).       *)
(*   Chains        the pointer-chain measure of a part stream is the number   *)
(*                 of pointers Names!DecName follows; PackImpl never needs    *)
(*                 more hops than the name has labels and never points at a   *)
(*                 pointer (the chain clause of JudgeStreamsH, MaxHops).      *)
EXTENDS Compress

CONSTANTS Scale,       \* 0: 3-name plans over 9 names; 1: 3-name plans over 13 names and 4-name plans over 7
          Mode         \* "any": allowed choices only; "dev": also one forbidden choice (smaller plans)

VARIABLES plan, valid, k, st, sc, cm, impl, dev

vars == <<plan, valid, k, st, sc, cm, impl, dev>>

N(ls) == [j \in 1..Len(ls) |-> <<ls[j]>>]       \* name from a string of single-octet labels
NamesQ == { <<>>, N(<<97>>), N(<<65>>), N(<<200>>), N(<<97, 97>>), N(<<65, 97>>), N(<<200, 97>>), N(<<97, 200>>),
            N(<<97, 200, 97>>) }
NamesT == NamesQ \cup { N(<<46>>), N(<<46, 200>>), N(<<97, 97, 97>>), N(<<200, 46, 97>>) }
NamesS == { <<>>, N(<<97>>), N(<<200>>), N(<<97, 97>>), N(<<200, 97>>), N(<<65, 97>>), N(<<97, 200, 97>>) }
NamesD == { <<>>, N(<<97>>), N(<<97, 97>>), N(<<65, 97>>), N(<<200, 97, 97>>) }
Skips == {0, 1, 3}

P3(S, S2) == { << NameItem(n1, TRUE), SkipItem(s1), NameItem(n2, c2), SkipItem(s2), NameItem(n3, c3) >> :
                 n1 \in S, n2 \in S, n3 \in S, c2 \in BOOLEAN, c3 \in BOOLEAN, s1 \in Skips, s2 \in S2 }
P4(S) == { << NameItem(n1, TRUE), SkipItem(s1), NameItem(n2, c2), SkipItem(0), NameItem(n3, TRUE), SkipItem(s3), NameItem(n4, c4) >> :
             n1 \in S, n2 \in S, n3 \in S, n4 \in S, c2 \in BOOLEAN, c4 \in BOOLEAN, s1 \in Skips, s3 \in {0, 3} }

Plans == IF Mode = "dev" THEN P3(NamesD, IF Scale >= 1 THEN {0, 1} ELSE {0})
         ELSE IF Scale >= 1 THEN P3(NamesT, {0, 3}) \cup P4(NamesS)
         ELSE P3(NamesQ, {0})

St0 == [out |-> <<>>, starts |-> {}]
Fill == 201      \* octets between names: read as a label they would be a pointer high octet (never a valid target)

Init == /\ plan \in Plans
        /\ valid \in (IF Scale >= 1 \/ Mode = "dev" THEN BOOLEAN ELSE {TRUE})
        /\ k = 1 /\ st = St0 /\ sc = <<>> /\ cm = <<>> /\ impl = TRUE /\ dev = "none"

It == plan[k]
ImplNext == ImplChoice(It.n, Len(st.out), cm, It.c, valid)

Part(n, c, i, t, name) == NPart(Len(st.out), SubSeq(n, 1, i - 1), t, c, name, 1)

SkipStep ==
  /\ k <= Len(plan) /\ It.k = "skip" /\ dev = "none"
  /\ st' = EmitSkip(st, It.len, Fill)
  /\ sc' = IF It.len = 0 THEN sc ELSE Append(sc, OPart(Len(st.out), Len(st.out) + It.len))
  /\ k' = k + 1
  /\ UNCHANGED <<plan, valid, cm, impl, dev>>

NameStep ==
  /\ k <= Len(plan) /\ It.k = "name" /\ dev = "none"
  /\ \E i \in 1..(Len(It.n) + 1), t \in -1..(Len(st.out) + 2) :
       /\ i = Len(It.n) + 1 \/ t # -1               \* a name is ended by a root octet or a pointer
       /\ LET ok == Allowed(st.out, st.starts, It.n, It.c, valid, i, t)
              nx == ImplNext IN
          /\ ok \/ Mode = "dev"
          /\ st' = Emit1(st, It.n, i, t)
          /\ dev' = IF ok THEN "none" ELSE "forbidden"
          /\ sc' = Append(sc, Part(It.n, It.c, i, t, It.n))
          /\ impl' = (impl /\ nx.i = i /\ nx.t = t)
          /\ cm' = IF impl /\ nx.i = i /\ nx.t = t THEN nx.cm ELSE cm
          /\ k' = IF ok THEN k + 1 ELSE Len(plan) + 1
  /\ UNCHANGED <<plan, valid>>

Next == SkipStep \/ NameStep

Done == k > Len(plan)

-----------------------------------------------------------------------------
\* the uncompressed emission of the plan items before index k, as octets and stream
RECURSIVE UncRun(_, _, _)
UncRun(i, out, s) ==
  IF i > Len(plan) THEN [out |-> out, s |-> s]
  ELSE IF plan[i].k = "skip" THEN
         UncRun(i + 1, out \o [x \in 1..plan[i].len |-> Fill],
                IF plan[i].len = 0 THEN s ELSE Append(s, OPart(Len(out), Len(out) + plan[i].len)))
  ELSE UncRun(i + 1, out \o EncName(plan[i].n),
              Append(s, NPart(Len(out), plan[i].n, -1, plan[i].c, plan[i].n, 1)))
Unc == UncRun(1, <<>>, <<>>)

NameParts == { x \in 1..Len(sc) : sc[x].k = "n" }

Refinement ==
  /\ impl /\ dev = "none" /\ k <= Len(plan) /\ It.k = "name" =>
        Allowed(st.out, st.starts, It.n, It.c, valid, ImplNext.i, ImplNext.t)
  /\ impl /\ Done /\ dev = "none" => Len(st.out) = PackImpl(plan, 0, valid)
  \* the mirror PNC is CompressLen!PN with the cut added
  /\ k <= Len(plan) /\ It.k = "name" /\ valid =>
        LET a == PNC(It.n, 1, Len(st.out), cm, It.c)  b == PN(It.n, 1, Len(st.out), cm, It.c) IN
        a.off = b.off /\ a.cm = b.cm /\ a.t = b.ptr

Transparent ==
  dev = "none" => \A x \in NameParts :
     LET d == DecName(st.out, sc[x].a) IN d.ok /\ d.name = sc[x].name /\ d.next = sc[x].z

\* a pointer that replaces a root octet (AMBIG, admitted by PackAny) costs one octet; every other pointer saves >= 1
PointsAtRoot == \E x \in NameParts : sc[x].ptr # -1 /\ sc[x].name = sc[x].lits
NeverLonger == /\ Done /\ dev = "none" /\ ~PointsAtRoot => Len(st.out) <= Len(Unc.out)
               /\ Done /\ dev = "none" /\ impl => Len(st.out) <= Len(Unc.out) /\ ~PointsAtRoot

PointersValid ==
  dev = "none" => \A x \in NameParts : sc[x].ptr # -1 =>
     /\ valid /\ sc[x].c
     /\ sc[x].ptr < MaxOff /\ sc[x].ptr < sc[x].a
     /\ \E y \in NameParts : y < x /\ \E j \in 1..(Len(sc[y].lits) + 1) :
           LabelOff(sc[y].lits, sc[y].a, j) = sc[x].ptr

JudgeAccepts ==
  Done /\ dev = "none" => JudgeStreams(st.out, Unc.out, WithHints(sc), Unc.s, 0) = (IF Len(st.out) > Len(Unc.out) THEN "longer" ELSE "ok")

\* Pointer chains (Compress!Hops): the measure read off a part stream is the decoder's (Names!DecName follows that many
\* pointers); a run that followed PackImpl points at first occurrences only -- every pointer lands on a literal label, no
\* pointer leads straight to a pointer, and no name is read through more pointers than it has labels behind its literal
\* ones (so PackImpl stays within Compress!MaxHops whatever the message: a name has at most MaxName \div 2 labels).
Chains ==
  dev = "none" =>
    LET s == WithHints(sc) IN
    \A x \in NameParts :
      /\ Hops(s, x) = DecName(st.out, sc[x].a).hops
      /\ impl => /\ Hops(s, x) <= Len(s[x].name) - Len(s[x].lits)
                 /\ ~ChainDegenerate(s, x)
                 /\ s[x].ptr # -1 => s[x].tj <= Len(s[s[x].tk].lits)

\* what an honest reader makes of the run with the forbidden choice: the last name part as DecName reads it
Honest == LET d == DecName(st.out, sc[Len(sc)].a) IN
          IF d.ok THEN [ok |-> TRUE, s |-> [sc EXCEPT ![Len(sc)].name = d.name]] ELSE [ok |-> FALSE]
\* the uncompressed emission cut to as many parts as the run has
UncCut == LET u == Unc  n == Len(sc) IN
          [out |-> Sub(u.out, 1, u.s[n].z), s |-> SubSeq(u.s, 1, n)]
JudgeRejects ==
  dev # "none" /\ Honest.ok =>
     IF valid THEN JudgeStreams(st.out, UncCut.out, WithHints(Honest.s), UncCut.s, 0) # "ok"
     ELSE PtrStage(WithHints(Honest.s), FALSE) # "ok"          \* the run IS the Compress = false emission

\* non-vacuity witnesses: each must be VIOLATED somewhere (run by hand / by the driver with must_pass = FALSE)
NoPointerEver   == \A x \in NameParts : sc[x].ptr = -1
NoLimitCrossed  == Done /\ dev = "none" => Len(st.out) <= MaxOff
AlwaysImpl      == Done /\ dev = "none" => impl
NoChain         == dev = "none" => ChainStageN(WithHints(sc), 1) = "ok"
NoDegenerate    == dev = "none" => \A x \in NameParts : ~ChainDegenerate(WithHints(sc), x)
NoDeviationDecodes == dev # "none" => ~Honest.ok
=============================================================================
