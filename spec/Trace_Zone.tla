----------------------------- MODULE Trace_Zone -----------------------------
(* Validates what the harness recorded from the real ZoneParser against        *)
(* Zone.tla (and Present.tla).  Three vocabularies share one trace file:       *)
(*                                                                            *)
(* C06  start{cfg}  line{line, recs, err} ...                                  *)
(*      one zone per `start'; every abstract line comes with the records the   *)
(*      real parser returned while it was reading that line (or the error).    *)
(*      The candidate parser states (one per AMBIG policy) are carried as the  *)
(*      set S; a line no candidate explains is marked bad and validation goes  *)
(*      on from the specification's own successors.                            *)
(* TV   spell{text, lines}                                                     *)
(*      a rendering produced by the harness: the text, read by Present!Lex and *)
(*      Zone!ParseEntry, must spell exactly the abstract lines it was made     *)
(*      from (pure-function event; a failure is a harness bug).                *)
(*      illtext{text, ill}: the text is lexically ill-formed in the given way  *)
(*      (or, ill = "nested", a $GENERATE that expands to a $GENERATE; or, ill  *)
(*      = "bad", lexically well-formed with an entry that is not an entry).    *)
(* C07  parser{allowed, chain[, origin]}  next{res: rr | err | eof, id}         *)
(*      open{path}  poll{res: err | nil, id}  (Err() asked between two Next)   *)
(*      readfail (a reader handed the parser an I/O error)                     *)
(*      the safety side of Zone's machine with the line content abstracted     *)
(*      away: these events drive Zone's own variables err / out / opens.  A    *)
(*      history is accepted only if no record and no Open follows an error,    *)
(*      the error stays the same error, Open happens only when includes are    *)
(*      allowed, and a chain of nested includes stops after MaxDepth Opens.    *)
(*      An error exists as soon as Err() says so -- not only once Next has     *)
(*      returned (nil, false): a `poll' that shows an error puts the machine   *)
(*      in the error state, and a parser made with an initial origin that      *)
(*      Zone!OriginOfText refuses owes an error from the start (only next ->   *)
(*      err is admitted, as after readfail).                                   *)
(*      These events block: the first one the machine cannot take is the       *)
(*      high-water mark.                                                       *)
EXTENDS Zone, TraceBase

VARIABLES l, S, tcfg, perr, chain, rfail
tvars == <<l, S, tcfg, perr, chain, rfail>>

Ev == Trace[l]

Rec5(r) == [owner |-> r.owner, ttl |-> r.ttl, class |-> r.class, type |-> r.type, rdata |-> r.rdata]
NewRecs(s, t) == [i \in 1..(Len(t.out) - Len(s.out)) |-> Rec5(t.out[Len(s.out) + i])]

\* ---- C06
Explains(s, t, e) == t.undef \/ (t.err = e.err /\ NewRecs(s, t) = e.recs)
StartEv == /\ Ev.ev = "start"
           /\ S' = Starts(Ev.cfg) /\ tcfg' = Ev.cfg
           /\ UNCHANGED <<perr, chain, rfail, zvars>>
LineEv ==
  /\ Ev.ev = "line"
  /\ LET pairs == UNION { { <<s, t>> : t \in Step(s, tcfg, Ev.line, Ev.ln) } : s \in S }
         good == { p \in pairs : Explains(p[1], p[2], Ev) }
     IN IF good # {} THEN S' = { p[2] : p \in good }
        ELSE MarkBad(l) /\ S' = { p[2] : p \in pairs }
  /\ UNCHANGED <<tcfg, perr, chain, rfail, zvars>>

\* ---- TV of renderings
SpellEv ==
  /\ Ev.ev = "spell"
  /\ LET r == LinesOfText(Ev.text) IN
     IF r.st = "ok" /\ ~r.amb /\ ~r.odd /\ r.lines = Ev.lines THEN TRUE ELSE MarkBad(l)
  /\ UNCHANGED <<S, tcfg, perr, chain, rfail, zvars>>

\* a text the harness built to be lexically ill-formed in a given way
\* ill = "nested": the text is a $GENERATE whose owner template expands to $GENERATE (whatever follows)
NestedGenerate(text) ==
  LET L == Lex(text)  its == Items(L.toks) IN
  /\ L.ill = "" /\ Len(its) >= 3 /\ L.toks[1].k = "tok"
  /\ Upper(its[1].raw) = kGENERATE /\ RangeOf(its[2].raw).ok
  /\ LET s == Subst(its[3].raw, RangeOf(its[2].raw).lo) IN s.st = "ok" /\ Upper(s.s) = kGENERATE
IllEv ==
  /\ Ev.ev = "illtext"
  /\ (IF (CASE Ev.ill = "nested" -> NestedGenerate(Ev.text)
            [] Ev.ill = "bad"    -> LinesOfText(Ev.text).st = "bad"      \* lexically fine, but some entry is not an entry
            [] OTHER             -> Lex(Ev.text).ill = Ev.ill) THEN TRUE ELSE MarkBad(l))
  /\ UNCHANGED <<S, tcfg, perr, chain, rfail, zvars>>

\* ---- C07: Zone's variables driven by what was observed at the parser's surface
Rest == <<pol, origin, lastOwner, dirTTL, lastTTL, errln, undef, depth, dir, nline>>
\* the initial origin, where the history states it (text): one that is not a domain name is a problem the parser has
\* from the start -- like a failed reader, it has to be reported: the only result admitted is next -> err
BadStart == "origin" \in DOMAIN Ev /\ OriginOfText(Ev.origin).st = "err"
ParserEv == /\ Ev.ev = "parser"
            /\ cfg' = [cfg EXCEPT !.incAllowed = Ev.allowed]
            /\ err' = FALSE /\ out' = <<>> /\ opens' = <<>> /\ perr' = 0 /\ chain' = Ev.chain /\ rfail' = BadStart
            /\ UNCHANGED <<S, tcfg, Rest>>
NextRR  == /\ Ev.ev = "next" /\ Ev.res = "rr"
           /\ ~err                                               \* no record once an error has occurred
           /\ ~rfail                                             \* ... nor once a reader has failed
           /\ out' = Append(out, 0)
           /\ UNCHANGED <<S, tcfg, perr, chain, rfail, cfg, err, opens, Rest>>
NextErr == /\ Ev.ev = "next" /\ Ev.res = "err"
           /\ IF err THEN Ev.id = perr /\ UNCHANGED perr         \* Err() stays the same error
                     ELSE perr' = Ev.id
           /\ err' = TRUE
           /\ UNCHANGED <<S, tcfg, chain, rfail, cfg, out, opens, Rest>>
NextEOF == /\ Ev.ev = "next" /\ Ev.res = "eof"
           /\ ~err                                               \* an error does not turn into a clean end
           /\ ~rfail                                             \* a read error is not a clean end either
           /\ UNCHANGED <<S, tcfg, perr, chain, rfail, zvars>>
OpenEv  == /\ Ev.ev = "open"
           /\ cfg.incAllowed                                     \* no file is opened unless includes were enabled
           /\ ~err
           /\ opens' = Append(opens, Ev.path)
           /\ (chain => Len(opens') <= MaxDepth)                 \* nesting stops at a fixed depth
           /\ UNCHANGED <<S, tcfg, perr, chain, rfail, cfg, err, out, Rest>>
\* the zone's reader, or the reader of an included file, returned an I/O error to the parser (seen from outside,
\* by the wrapper that injects it): the problem has to be reported -- the next results can only be `err'
\* Err() asked between two calls of Next.  A non-nil answer IS "an error has occurred": from then on no record, no
\* Open, no clean end, and every later answer is this same error; a nil answer after an error is an error that vanished.
PollEv  == /\ Ev.ev = "poll"
           /\ IF Ev.res = "err"
              THEN /\ (IF err THEN Ev.id = perr /\ UNCHANGED perr ELSE perr' = Ev.id)
                   /\ err' = TRUE
              ELSE ~err /\ UNCHANGED <<perr, err>>
           /\ UNCHANGED <<S, tcfg, chain, rfail, cfg, out, opens, Rest>>
ReadFail == /\ Ev.ev = "readfail"
            /\ rfail' = TRUE
            /\ UNCHANGED <<S, tcfg, perr, chain, zvars>>

NoCfg == [defTTL |-> -1, origin |-> NoName, incAllowed |-> FALSE, file |-> <<>>, files |-> <<>>]
Init == /\ l = 1 /\ HWInit /\ S = {} /\ tcfg = NoCfg /\ perr = 0 /\ chain = FALSE /\ rfail = FALSE
        /\ ZInit(NoCfg) /\ pol = [io |-> FALSE, it |-> FALSE, go |-> FALSE, gt |-> FALSE]
Next == /\ l <= Len(Trace)
        /\ StartEv \/ LineEv \/ SpellEv \/ IllEv \/ ParserEv \/ NextRR \/ NextErr \/ NextEOF \/ OpenEv \/ PollEv \/ ReadFail
        /\ HW(l)
        /\ l' = l + 1
=============================================================================
