--------------------------- MODULE Gen_PresentRR ---------------------------
(* Vector generator for C05.  Same record shape as Gen_WireRR (it EXTENDS it,  *)
(* so the C01 universe is reused as is), plus                                  *)
(*   canon   per record: the abstract value is one that text or the wire can     *)
(*           produce (origin "built from the abstract value" stands for "parsed   *)
(*           from text"); an APL address with host bits beyond its prefix is not *)
(*   alpha   per record of the message (answer, authority, additional order):  *)
(*           the RDATA stays inside the alphabets / ranges the RFC of the type *)
(*           defines (PresentRR!InAlphabet) -- a failure outside is AMBIG      *)
(* PMode:                                                                      *)
(*   "pres"   exports PresKind, NoPresentation and the mnemonic tables (the    *)
(*            harness needs the position of the pre-decoded items; the tables  *)
(*            are compared with the library's registry, never used as oracle)  *)
(*   "c01"    the cases of Gen_WireRR's Mode (types cross rrhdr svcb gateway    *)
(*            unknown ...), unchanged                                          *)
(*   "nasty"  every string-like field of every type with a presentation       *)
(*            format x the values the property names: quote, backslash,        *)
(*            semicolon, parentheses, space, tab, newline, CR, NUL, DEL, 0xff,  *)
(*            255 octets, empty, text that looks like an escape ... ; names    *)
(*            get them as labels; SvcParams as alpn ids / opaque values;       *)
(*            restricted fields also get values INSIDE their alphabet          *)
(*   "blobs"  maximal blobs: for every blob-valued field (hex / base64 to the end *)
(*            of RDATA, HIP's sized key, opaque RDATA of an unknown type and of  *)
(*            NULL, TXT made of 255-octet strings) a record whose RDATA is        *)
(*            32767 / 32768 / 32769 / 49152 / 65535 octets, plus NSEC3 with a    *)
(*            255-octet salt and a 255-octet hash.  Hex and base64 text is       *)
(*            longer than the octets it spells: one item of 2 x 65535 chars.     *)
(*   "lengths" LENGTHS of the blob-valued field: for every type of the "blobs"    *)
(*            family (but TXT) a record whose hex / base64 / opaque field is      *)
(*            1..6, 254..257, 511..513, 767..769, 1023..1025, 1535..1537,         *)
(*            2047..2049, 3072, 4095..4097, 8192 octets: around every multiple of *)
(*            the word sizes a writer may cut long text into (256, 512, 1024 ...  *)
(*            octets; 3-octet base64 groups).  A writer that loses, repeats or    *)
(*            misplaces a word at an exact multiple is seen here.                 *)
(*   "zone"   SEQUENCES of records: the text of a record is read in a zone, where *)
(*            other records follow and precede it.  For every type with a         *)
(*            presentation format the baseline record, and the record with each   *)
(*            list / blob / string field EMPTY (a text that ENDS EARLY: nothing   *)
(*            after the last fixed item), in the arrangement X F X X F' (X        *)
(*            followed by a record of another type and owner, by itself, X last   *)
(*            but one).  The vector states the octets of every record IN ORDER;   *)
(*            the harness joins the real String()s with line breaks and reads     *)
(*            them with the zone parser.                                          *)
(*   "codes"  type and class code points: TYPEnnn / CLASSnnn, the mnemonic     *)
(*            where one exists, RFC 3597 generic RDATA (valid RDATA of the     *)
(*            type for layout types), and the octets the record must pack to   *)
EXTENDS Gen_WireRR, PresentRR

CONSTANTS PMode

-----------------------------------------------------------------------------
(* Maximal blobs *)
BlobSizes == <<32767, 32768, 32769, 49152, 65535>>
BlobKinds == {"hex", "b64", "raw"}
\* unknown type, NULL, TXT; hex: EID NIMLOC DS CDS TA DLV SSHFP TLSA SMIMEA ZONEMD; base64: DNSKEY KEY CDNSKEY RKEY CERT DHCID OPENPGPKEY
\* IPSECKEY RRSIG SIG; HIP (sized key in one item).  Both tiers: the family is small (121 vectors, seconds).
BlobTypes == <<65281, 10, 16, 31, 32, 43, 59, 32768, 32769, 44, 52, 53, 63, 48, 25, 60, 57, 37, 49, 61, 45, 46, 24, 55>>
\* the blob field of a type: its last field of an opaque kind
BlobIdx(t) == LET es == FieldsOf(t) IN CHOOSE i \in 1..Len(es) : es[i].k \in BlobKinds /\ \A j \in (i + 1)..Len(es) : es[j].k \notin BlobKinds
\* TXT: 255-octet strings (256 octets of RDATA each) and one shorter string for the rest
TxtOfSize(n) ==
  LET full == n \div 256  rest == n % 256 IN
  [i \in 1..(full + (IF rest > 0 THEN 1 ELSE 0)) |-> IF i <= full THEN [j \in 1..255 |-> (i + j * 7) % 256] ELSE [j \in 1..(rest - 1) |-> 33 + (j % 90)]]
BlobMsg(t, k) ==
  LET n == BlobSizes[k] IN
  IF t = 16 THEN One1(16, [Txt |-> TxtOfSize(n)])
  ELSE LET es == FieldsOf(t)  i == BlobIdx(t)
           fixed == Len(EncRdata(t, With(es, i, <<>>))) IN
       One1(t, With(es, i, Ramp(n - fixed)))
MaxNsec3Msg == One1(50, [Hash |-> 1, Flags |-> 1, Iterations |-> 65535, SaltLength |-> 255, Salt |-> Ramp(255), HashLength |-> 255,
                         NextDomain |-> [i \in 1..255 |-> (i * 11) % 256], TypeBitMap |-> [i \in 1..300 |-> i * 218]])

\* lengths of the blob field around the multiples of the sizes text is cut into words at
LenSizes == <<1, 2, 3, 4, 5, 6, 254, 255, 256, 257, 511, 512, 513, 767, 768, 769, 1023, 1024, 1025, 1535, 1536, 1537, 2047, 2048, 2049,
              3072, 4095, 4096, 4097, 8192>>
BlobLenMsg(t, k) == LET es == FieldsOf(t) IN One1(t, With(es, BlobIdx(t), Ramp(LenSizes[k])))

\* sequences of records (a zone)
EmptyKinds == ListKinds \cup BlobKinds \cup {"str", "octet"}
Follower(j) == RR(NameWww, 1, 1, Ttl1h, [A |-> <<192, 0, 2, j>>])
Follower2   == RR(<< <<109, 120>>, <<120>> >>, 15, 1, Ttl1h, [Preference |-> 10, Mx |-> NameWww])        \* mx.x. MX: an owner that spells a type
ZoneRR(t, i) == LET es == FieldsOf(t) IN RR(Owner, t, 1, Ttl1h, IF i = 0 THEN Fix(es, BaseF(es)) ELSE With(es, i, <<>>))
ZoneMsg(t, i) == LET x == ZoneRR(t, i) IN Msg(H0, <<>>, << x, Follower(1), x, x, Follower2 >>, <<>>, <<>>)

-----------------------------------------------------------------------------
TableCodes(tab) == { tab[i][2] : i \in 1..Len(tab) }

NastyStr == <<
  <<>>, <<34>>, <<92>>, <<59>>, <<40>>, <<41>>, <<32>>, <<10>>, <<0>>, <<127>>, <<255>>, <<9>>, <<13>>,
  <<97, 32, 98>>, <<97, 59, 98>>, <<40, 97, 41>>, <<97, 34, 98>>, <<97, 92, 98>>, <<92, 34>>, <<34, 113, 34>>,
  <<64>>, <<36>>, <<46>>, <<39>>, <<92, 48, 54, 53>>, <<92, 48, 54>>, <<97, 92>>, <<32, 97>>, <<97, 32>>, <<92, 35>>, <<45>>,
  <<97, 10, 98>>, <<228, 246, 252>>, <<226, 130, 172>>,
  Rep(255, 34), Rep(255, 255), Rep(255, 32), Rep(255, 92), [i \in 1..255 |-> i - 1], [i \in 1..255 |-> 256 - i] >>

Short(n) == Len(n) >= 1 /\ Len(n) <= 63
NastyLabels == SelectSeq(NastyStr, Short) \o << Rep(63, 255), Rep(63, 46), Rep(63, 92) >>

\* values inside the restricted alphabets
Digits == << <<48>>, <<51, 49, 49, 48, 54, 49, 55, 48, 48, 57, 53, 54>>, Rep(255, 57) >>
Floats == << <<48>>, <<45, 51, 50, 46, 54, 56, 56, 50>>, <<43, 49, 49, 54, 46, 56, 54, 53, 50>>, <<49, 48, 46, 48>>, Rep(255, 49) >>
\* ... among them tags that spell a type or class mnemonic (in, ch, hs, cs, any, none, a, mx, ns, md, mf, mb, aaaa, caa, IN)
MnemonicTags == << <<105, 110>>, <<99, 104>>, <<104, 115>>, <<99, 115>>, <<97, 110, 121>>, <<110, 111, 110, 101>>, <<97>>, <<109, 120>>, <<110, 115>>,
                   <<109, 100>>, <<109, 102>>, <<109, 98>>, <<97, 97, 97, 97>>, <<99, 97, 97>>, <<73, 78>>, <<116, 121, 112, 101, 49>>, <<99, 108, 97, 115, 115, 49>> >>
Tags   == MnemonicTags \o << <<105, 115, 115, 117, 101>>, <<105, 115, 115, 117, 101, 119, 105, 108, 100>>, <<105, 111, 100, 101, 102>>, <<65, 48>>, Rep(255, 122) >>
AlphaStr(t, n) == CASE t = 19 -> Digits [] t = 27 -> Floats [] t = 257 /\ n = "Tag" -> Tags [] OTHER -> <<>>

NastyFor(t, e) ==
  CASE e.k = "str"   -> NastyStr \o AlphaStr(t, e.n)
    [] e.k = "octet" -> NastyStr \o << Rep(300, 34), Rep(300, 255), [i \in 1..600 |-> (i * 7) % 256] >>
    [] e.k = "strs"  -> [i \in 1..Len(NastyStr) |-> << NastyStr[i] >>]
                        \o << << <<>>, <<>>, <<>> >>, << <<34>>, <<92>>, <<59>>, <<40>>, <<41>>, <<32>>, <<10>> >>,
                              << Rep(255, 34), Rep(255, 255) >>, << <<97>>, <<>>, <<98, 32, 99>> >> >>
    [] e.k = "ostr"  -> [i \in 1..Len(NastyStr) |-> << NastyStr[i] >>]
    [] e.k \in {"name", "cname"} -> [i \in 1..Len(NastyLabels) |-> << NastyLabels[i], <<120>> >>]
                                    \o << << <<97>>, <<34, 59, 40>>, <<32>>, <<0, 255>> >>, << Rep(63, 255), Rep(63, 0), Rep(63, 34), Rep(61, 92) >> >>
    [] e.k = "names" -> [i \in 1..Len(NastyLabels) |-> << << NastyLabels[i] >>, Owner >>]
    [] e.k = "svcb"  -> [i \in 1..Len(NastyLabels) |-> << Par(1, [Alpn |-> << NastyLabels[i], <<104, 50>> >>]) >>]
                        \o [i \in 1..Len(NastyStr) |-> << Par(65280, [Data |-> NastyStr[i]]) >>]
                        \o [i \in 1..Len(NastyStr) |-> << Par(7, [Template |-> NastyStr[i]]), Par(3, [Port |-> 443]) >>]
                        \o << << Par(1, [Alpn |-> << <<44>>, <<92>>, <<44, 92, 44>>, <<34>> >>]) >>,
                              << Par(5, [ECH |-> <<>>]) >>, << Par(5, [ECH |-> Ramp(200)]) >>,
                              << Par(0, [Code |-> <<1, 3, 65280>>]), Par(1, [Alpn |-> << <<104, 51>> >>]), Par(3, [Port |-> 0]), Par(65280, [Data |-> <<>>]) >>,
                              << Par(4, [Hint |-> << <<0, 0, 0, 0>>, <<255, 255, 255, 255>> >>]), Par(6, [Hint |-> << Rep(16, 0), Rep(10, 0) \o <<255, 255, 1, 2, 3, 4>> >>]) >> >>
    [] e.k = "bitmap" -> << <<0>>, <<65535>>, <<0, 1, 65535>>, <<255, 256, 65534>>, <<10, 41, 249, 250, 251, 252, 253, 254, 255>>, <<34, 103, 128>> >>
    [] OTHER -> <<>>

PresTypes == SortedSeq(DOMAIN PresKind)

\* gateway names (IPSECKEY / AMTRELAY type 3)
GwNasty(t, j) ==
  IF t = 45 THEN One1(45, [Precedence |-> 1, GatewayType |-> 3, Algorithm |-> 2, GatewayHost |-> << NastyLabels[j], <<120>> >>, PublicKey |-> <<1, 3>>])
  ELSE One1(260, [Precedence |-> 1, GatewayType |-> 3, GatewayHost |-> << NastyLabels[j], <<120>> >>])

NastyMsg(t, i, j) ==
  LET es == FieldsOf(t) IN
  IF i = 0 THEN GwNasty(t, j)
  ELSE IF t \in {64, 65} THEN Msg(H0, <<>>, << SvcbRR(t, 1, IF es[i].k = "svcb" THEN NameA ELSE NastyFor(t, es[i])[j], IF es[i].k = "svcb" THEN NastyFor(t, es[i])[j] ELSE <<>>) >>, <<>>, <<>>)
  ELSE One1(t, With(es, i, NastyFor(t, es[i])[j]))

\* NSEC3 as it occurs in practice: SHA-1, 20-octet next hashed owner; salts empty / 1 / 8 / 255 octets; bitmaps
Hash20(j) == [i \in 1..20 |-> (j * 37 + i * 11) % 256]
N3Salts == << <<>>, <<171>>, Ramp(8), Ramp(255) >>
N3Maps  == << <<>>, <<1>>, <<1, 2, 6, 15, 46, 48, 51>>, <<1, 46, 1234, 65280>>, <<0>>, <<65535>> >>
Nsec3Msg(j) ==
  LET salt == N3Salts[1 + (j % Len(N3Salts))]  map == N3Maps[1 + ((j \div Len(N3Salts)) % Len(N3Maps))] IN
  One1(50, [Hash |-> 1, Flags |-> j % 2, Iterations |-> (j * 13) % 65536, SaltLength |-> Len(salt), Salt |-> salt,
            HashLength |-> 20, NextDomain |-> Hash20(j), TypeBitMap |-> map])

\* CERT: every certificate type and algorithm that has a mnemonic (RFC 4398 s.2.1, IANA), and their neighbours
CertCodes == SortedSeq(TableCodes(CertTypeTable) \cup {0, 9, 252, 255, 65280})
AlgCodes  == SortedSeq(TableCodes(AlgTable) \cup {0, 4, 9, 11, 17, 251, 255})
CertMsg(j) ==
  LET ty  == IF j <= Len(CertCodes) THEN CertCodes[j] ELSE 1
      alg == IF j <= Len(CertCodes) THEN 8 ELSE AlgCodes[j - Len(CertCodes)] IN
  One1(37, [Type |-> ty, KeyTag |-> 12345, Algorithm |-> alg, Certificate |-> <<1, 2, 3, 4, 5, 6, 7, 8>>])

\* LOC inside RFC 1876's ranges: equator / poles / date line, whole and fractional seconds, sizes 0 .. 9e9 cm
LocCases == <<
  [Version |-> 0, Size |-> 18, HorizPre |-> 22, VertPre |-> 19, Latitude |-> <<128, 0, 0, 0>>, Longitude |-> <<128, 0, 0, 0>>, Altitude |-> <<0, 152, 150, 128>>],
  [Version |-> 0, Size |-> 0, HorizPre |-> 0, VertPre |-> 0, Latitude |-> <<147, 79, 217, 0>>, Longitude |-> <<166, 159, 178, 0>>, Altitude |-> <<0, 0, 0, 0>>],
  [Version |-> 0, Size |-> 153, HorizPre |-> 144, VertPre |-> 17, Latitude |-> <<108, 176, 39, 0>>, Longitude |-> <<89, 96, 78, 0>>, Altitude |-> <<255, 255, 255, 255>>],
  [Version |-> 0, Size |-> 18, HorizPre |-> 22, VertPre |-> 19, Latitude |-> <<137, 192, 195, 248>>, Longitude |-> <<116, 211, 145, 119>>, Altitude |-> <<24, 251, 27, 64>>],
  [Version |-> 0, Size |-> 1 * 16 + 2, HorizPre |-> 2 * 16, VertPre |-> 9 * 16 + 9, Latitude |-> <<128, 0, 0, 1>>, Longitude |-> <<127, 255, 255, 255>>, Altitude |-> <<0, 152, 150, 129>>],
  [Version |-> 0, Size |-> 5 * 16 + 3, HorizPre |-> 16 + 1, VertPre |-> 16, Latitude |-> <<128, 0, 3, 232>>, Longitude |-> <<128, 0, 234, 96>>, Altitude |-> <<0, 152, 150, 28>>] >>
LocMsg(j) == One1(29, LocCases[j])

(* Boundary VALUES of the kinds the harness pre-decodes or whose text is not a plain number (family "exotic", part of   *)
(* mode "nasty"): LOC altitude around the -100000.00 m origin (sign boundary), 0 and 2^32-1; angles at the equator /    *)
(* prime meridian +-0.001", at 59.999", one minute, +-90 / +-180 degrees; every size / precision base 1..9 x exponent   *)
(* 0..9 and 0; RRSIG times 0, 1, 2^31-1, 2^31, 2^31+1, 2^32-1; IPv6 ::, ::1, all-ones, IPv4-mapped, in AAAA, gateways   *)
(* and hints; IPv4 0.0.0.0 / 255.255.255.255; APL prefix 0 and maximal; EUI-48/64 and ILNP values all-zero / all-ones.  *)
LocWith(lat, lon, alt, sz) == [Version |-> 0, Size |-> sz, HorizPre |-> sz, VertPre |-> sz, Latitude |-> lat, Longitude |-> lon, Altitude |-> alt]
LocAlt(j)  == IF j <= 203 THEN U32(9999898 + j)                       \* -1.01 m .. +1.01 m
              ELSE << Z4, Rep(4, 255), U32(1), U32(99), U32(100), U32(9999000), U32(19999999), U32(20000000), <<127, 255, 255, 255>>, <<128, 0, 0, 0>> >>[j - 203]
NLocAlt    == 213
LocLats    == << <<128, 0, 0, 0>>, <<128, 0, 0, 1>>, <<127, 255, 255, 255>>, <<147, 79, 217, 0>>, <<108, 176, 39, 0>>, <<147, 79, 216, 255>>,
                 <<108, 176, 39, 1>>, <<128, 0, 234, 95>>, <<128, 0, 234, 96>>, <<128, 54, 238, 127>>, <<127, 201, 17, 129>> >>
LocLons    == << <<128, 0, 0, 0>>, <<128, 0, 0, 1>>, <<127, 255, 255, 255>>, <<166, 159, 178, 0>>, <<89, 96, 78, 0>>, <<166, 159, 177, 255>>,
                 <<89, 96, 78, 1>>, <<128, 0, 234, 95>>, <<128, 0, 234, 96>>, <<128, 54, 238, 127>>, <<127, 201, 17, 129>> >>
LocSizes   == <<0>> \o [x \in 1..90 |-> (1 + ((x - 1) \div 10)) * 16 + ((x - 1) % 10)]
TimeBnd    == << Z4, <<0, 0, 0, 1>>, <<127, 255, 255, 255>>, <<128, 0, 0, 0>>, <<128, 0, 0, 1>>, Rep(4, 255), <<101, 83, 241, 0>> >>
V6Bnd      == << Rep(16, 0), Rep(15, 0) \o <<1>>, Rep(16, 255), Rep(10, 0) \o <<255, 255, 192, 0, 2, 1>>, Rep(10, 0) \o <<255, 255, 0, 0, 0, 0>>,
                 <<32, 1, 13, 184>> \o Rep(12, 0), <<254, 128>> \o Rep(13, 0) \o <<1>>, Rep(12, 0) \o <<192, 0, 2, 1>> >>
V4Bnd      == << Z4, Rep(4, 255), <<127, 0, 0, 1>>, <<1, 0, 0, 0>> >>
RrsigWith(e, i) == [TypeCovered |-> 1, Algorithm |-> 13, Labels |-> 2, OrigTtl |-> Ttl1h, Expiration |-> e, Inception |-> i, KeyTag |-> 4660,
                    SignerName |-> NameA, Signature |-> Ramp(64)]
ExoticCases ==      \* everything but LOC: << type, fields >>
     [j \in 1..Len(TimeBnd) |-> << 46, RrsigWith(TimeBnd[j], TimeBnd[1 + (j % Len(TimeBnd))]) >>]
  \o [j \in 1..Len(TimeBnd) |-> << 24, RrsigWith(TimeBnd[1 + ((j + 2) % Len(TimeBnd))], TimeBnd[j]) >>]
  \o [j \in 1..Len(V6Bnd) |-> << 28, [AAAA |-> V6Bnd[j]] >>]
  \o [j \in 1..Len(V6Bnd) |-> << 45, [Precedence |-> 1, GatewayType |-> 2, Algorithm |-> 2, GatewayHost |-> V6Bnd[j], PublicKey |-> <<1, 3>>] >>]
  \o [j \in 1..Len(V6Bnd) |-> << 260, [Precedence |-> 1, GatewayType |-> 2 + 128 * (j % 2), GatewayHost |-> V6Bnd[j]] >>]
  \o [j \in 1..Len(V4Bnd) |-> << 1, [A |-> V4Bnd[j]] >>]
  \o [j \in 1..Len(V4Bnd) |-> << 105, [Preference |-> 65535, Locator32 |-> V4Bnd[j]] >>]
  \o [j \in 1..Len(V4Bnd) |-> << 45, [Precedence |-> 1, GatewayType |-> 1, Algorithm |-> 2, GatewayHost |-> V4Bnd[j], PublicKey |-> <<>>] >>]
  \o [j \in 1..Len(V4Bnd) |-> << 260, [Precedence |-> 255, GatewayType |-> 1 + 128 * (j % 2), GatewayHost |-> V4Bnd[j]] >>]
  \o << << 64, [Priority |-> 1, Target |-> <<>>, Value |-> << Par(6, [Hint |-> << Rep(16, 0), Rep(15, 0) \o <<1>>, Rep(16, 255), Rep(12, 0) \o <<192, 0, 2, 1>> >>]),
                                                              Par(4, [Hint |-> V4Bnd]) >>] >>,
        << 42, [Prefixes |-> << Apl(1, FALSE, 0, Z4), Apl(1, TRUE, 32, Rep(4, 255)), Apl(1, FALSE, 32, Z4), Apl(1, TRUE, 31, <<255, 255, 255, 254>>),
                                Apl(2, FALSE, 0, Rep(16, 0)), Apl(2, TRUE, 128, Rep(16, 255)), Apl(2, FALSE, 128, Rep(16, 0)), Apl(2, FALSE, 127, Rep(15, 255) \o <<254>>),
                                Apl(2, TRUE, 96, Rep(10, 0) \o <<255, 255, 0, 0, 0, 0>>), Apl(1, FALSE, 1, <<128, 0, 0, 0>>) >>] >>,
        << 108, [Address |-> Rep(6, 0)] >>, << 108, [Address |-> Rep(6, 255)] >>, << 108, [Address |-> <<0, 0, 94, 0, 83, 42>>] >>,
        << 109, [Address |-> Rep(8, 0)] >>, << 109, [Address |-> Rep(8, 255)] >>, << 109, [Address |-> <<0, 0, 94, 239, 16, 0, 0, 42>>] >>,
        << 104, [Preference |-> 0, NodeID |-> Rep(8, 0)] >>, << 104, [Preference |-> 65535, NodeID |-> Rep(8, 255)] >>,
        << 104, [Preference |-> 10, NodeID |-> <<0, 20, 79, 255, 255, 32, 238, 100>>] >>,
        << 106, [Preference |-> 0, Locator64 |-> Rep(8, 0)] >>, << 106, [Preference |-> 65535, Locator64 |-> Rep(8, 255)] >>,
        << 106, [Preference |-> 10, Locator64 |-> <<32, 1, 13, 184, 17, 64, 16, 0>>] >> >>
NExotic  == 2 * Len(TimeBnd) + 3 * Len(V6Bnd) + 4 * Len(V4Bnd) + 14
LocBndMsg(j) ==
  LET eq == <<128, 0, 0, 0>>  a0 == <<0, 152, 150, 128>> IN
  IF j <= NLocAlt THEN One1(29, LocWith(<<137, 192, 195, 248>>, <<116, 211, 145, 119>>, LocAlt(j), 18))
  ELSE IF j <= NLocAlt + Len(LocLats) THEN One1(29, LocWith(LocLats[j - NLocAlt], eq, a0, 19))
  ELSE IF j <= NLocAlt + Len(LocLats) + Len(LocLons) THEN One1(29, LocWith(eq, LocLons[j - NLocAlt - Len(LocLats)], a0, 22))
  ELSE One1(29, LocWith(eq, eq, a0, LocSizes[j - NLocAlt - Len(LocLats) - Len(LocLons)]))
NLocBnd == NLocAlt + Len(LocLats) + Len(LocLons) + Len(LocSizes)
ExoticMsg(j) == One1(ExoticCases[j][1], ExoticCases[j][2])

\* RFC 3597 RDATA whose hex text spells type / class mnemonics: aaaa, a, caa (upper and lower case are the harness' business)
MnemonicRdata == << <<170, 170>>, <<170, 170, 170, 170>>, <<10>>, <<202, 170>>, <<170, 170, 170, 202, 160>>, <<12, 170>>, <<160>>, <<170>>, <<173, 170, 170>> >>
MnemonicTypes == <<65280, 11, 1234, 65534>>
MnemonicMsg(j) == LET t == MnemonicTypes[1 + ((j - 1) \div Len(MnemonicRdata))]  rd == MnemonicRdata[1 + ((j - 1) % Len(MnemonicRdata))] IN
                  Msg(H0, <<>>, << RR(Owner, t, 1 + (j % 4), Ttl1h, [Rdata |-> rd]) >>, <<>>, <<>>)

\* nasty owners, each with a TXT record
OwnerMsg(j) == Msg(H0, <<>>, << RR(<< NastyLabels[j], <<120>> >>, 16, 1, Ttl1h, [Txt |-> << <<104, 105>> >>]) >>, <<>>, <<>>)

-----------------------------------------------------------------------------
QuickCodes == (0..300) \cup TableCodes(TypeTableRR) \cup {32767, 32770, 65279, 65280, 65281, 65534, 65535}
              \cup { c \in 0..65535 : c % 257 = 3 }
CodeSet == IF Tier = 0 THEN QuickCodes ELSE 0..65535

\* NXT: an empty type list (the two bitmap encodings -- C01 known finding -- agree on it)
CodeRdata(t) == IF t = 30 THEN EncName(NameA)
                ELSE IF t \in DOMAIN Layout THEN EncRdata(t, Fix(FieldsOf(t), BaseF(FieldsOf(t)))) ELSE <<1, 2, 3>>
CodeVector(k, c) ==
  LET t   == IF k = 1 THEN c ELSE 1
      cl  == IF k = 1 THEN 1 ELSE c
      rd  == IF k = 1 THEN CodeRdata(c) ELSE <<192, 0, 2, 1>>
      tab == IF k = 1 THEN TypeTableRR ELSE ClassTable
  IN [g |-> "codes", v |-> v, k |-> IF k = 1 THEN "type" ELSE "class", code |-> c,
      num |-> (IF k = 1 THEN kTYPE ELSE kCLASS) \o DecEnc(U16(c)),
      mn |-> MnemonicOf(tab, c),
      owner |-> Present(Owner), ttl |-> DecEnc(Ttl1h),
      ctext |-> ClassText(cl), ttext |-> TypeText(t),      \* how the spec spells the other header field
      known |-> t \in DOMAIN Layout,
      rdata |-> rd,
      wire |-> EncName(Owner) \o U16(t) \o U16(cl) \o Ttl1h \o U16(Len(rd)) \o rd]

-----------------------------------------------------------------------------
PInit ==
  \/ PMode = "pres" /\ v = <<0>>
  \/ PMode = "c01" /\ Init
  \/ PMode = "nasty" /\ \E x \in 1..Len(PresTypes) :
        LET t == PresTypes[x]  es == FieldsOf(t) IN
        /\ InShard(x)
        /\ \/ \E i \in 1..Len(es) : \E j \in 1..Len(NastyFor(t, es[i])) : v = <<t, i, j>>
           \/ t \in {45, 260} /\ \E j \in 1..Len(NastyLabels) : v = <<t, 0, j>>
           \/ t = 16 /\ \E j \in 1..Len(NastyLabels) : v = <<0, 0, j>>
           \/ t = 50 /\ \E j \in 1..(Len(N3Salts) * Len(N3Maps)) : v = <<-1, 0, j>>
           \/ t = 37 /\ \E j \in 1..(Len(CertCodes) + Len(AlgCodes)) : v = <<-2, 0, j>>
           \/ t = 29 /\ \E j \in 1..Len(LocCases) : v = <<-3, 0, j>>
           \/ t = 29 /\ \E j \in 1..NLocBnd : v = <<-4, 0, j>>
           \/ t = 28 /\ \E j \in 1..NExotic : v = <<-5, 0, j>>
           \/ t = 28 /\ \E j \in 1..(Len(MnemonicTypes) * Len(MnemonicRdata)) : v = <<-6, 0, j>>
  \/ PMode = "blobs" /\ \/ \E x \in 1..Len(BlobTypes), k \in 1..Len(BlobSizes) : InShard(BlobTypes[x] + k) /\ v = <<BlobTypes[x], k>>
                        \/ InShard(0) /\ v = <<50, 0>>
  \/ PMode = "lengths" /\ \E x \in 1..Len(BlobTypes), k \in 1..Len(LenSizes) : BlobTypes[x] # 16 /\ InShard(x + k) /\ v = <<BlobTypes[x], k>>
  \/ PMode = "zone" /\ \E x \in 1..Len(PresTypes) :
        LET t == PresTypes[x]  es == FieldsOf(t) IN
        /\ InShard(x)
        /\ \/ v = <<t, 0>>
           \/ \E i \in 1..Len(es) : es[i].k \in EmptyKinds /\ ~Driven(es, i) /\ WFRR(ZoneRR(t, i)) /\ v = <<t, i>>
  \/ PMode = "codes" /\ \E k \in 1..2 : \E c \in CodeSet : InShard(c) /\ v = <<k, c>>
PNext == UNCHANGED v

PCase == IF PMode = "c01" THEN Case
         ELSE IF PMode = "blobs" THEN (IF v[2] = 0 THEN MaxNsec3Msg ELSE BlobMsg(v[1], v[2]))
         ELSE IF PMode = "lengths" THEN BlobLenMsg(v[1], v[2])
         ELSE IF PMode = "zone" THEN ZoneMsg(v[1], v[2])
         ELSE IF v[1] = 0 THEN OwnerMsg(v[3])
         ELSE IF v[1] = -1 THEN Nsec3Msg(v[3])
         ELSE IF v[1] = -2 THEN CertMsg(v[3])
         ELSE IF v[1] = -3 THEN LocMsg(v[3])
         ELSE IF v[1] = -4 THEN LocBndMsg(v[3])
         ELSE IF v[1] = -5 THEN ExoticMsg(v[3])
         ELSE IF v[1] = -6 THEN MnemonicMsg(v[3])
         ELSE NastyMsg(v[1], v[2], v[3])

\* a value that text or the wire can produce: an APL item names a network, its address has no bits beyond the prefix
\* (WireRR!MaskTo; a hand-built net.IPNet may carry host bits, the packer masks them, the statement does not speak of it)
Canonical(rr) == rr.nodata \/ rr.type # 42 \/ \A i \in 1..Len(rr.f.Prefixes) : MaskTo(rr.f.Prefixes[i].addr, rr.f.Prefixes[i].prefix) = rr.f.Prefixes[i].addr
PVector(m) ==
  LET rrs == m.an \o m.ns \o m.ar IN
  [canon |-> [i \in 1..Len(rrs) |-> Canonical(rrs[i])],
   alpha |-> [i \in 1..Len(rrs) |-> rrs[i].nodata \/ InAlphabet(rrs[i].type, RdataOf(rrs[i]))],
   g |-> IF PMode = "c01" THEN Mode ELSE PMode] @@ Vector(m)

PItem(e) == IF "of" \in DOMAIN e THEN [n |-> e.n, p |-> e.p, of |-> e.of] ELSE [n |-> e.n, p |-> e.p]
Pairs(tab) == [i \in 1..Len(tab) |-> [m |-> tab[i][1], c |-> tab[i][2]]]
PresExport ==
  [pres |-> [x \in 1..Len(PresTypes) |-> [t |-> PresTypes[x], items |-> [i \in 1..Len(PresKind[PresTypes[x]]) |-> PItem(PresKind[PresTypes[x]][i])]]],
   nopres |-> SortedSeq(NoPresentation),
   restkinds |-> <<"strs", "ostr", "hex", "b64", "types", "names", "loc", "apl", "svcb">>,
   types |-> Pairs(TypeTableRR), classes |-> Pairs(ClassTable), certtypes |-> Pairs(CertTypeTable), algs |-> Pairs(AlgTable),
   svckeys |-> Pairs(SvcKeyTable)]

POut ==
  IF PMode = "pres" THEN Emit(PresExport)
  ELSE IF PMode = "codes" THEN Emit(CodeVector(v[1], v[2]))
  ELSE LET m == PCase IN
       /\ Assert(MayBeIllFormed \/ WFMsg(m), <<"ill-formed vector", PMode, Mode, v>>)
       /\ Emit(PVector(m))
=============================================================================
