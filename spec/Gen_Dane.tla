------------------------------ MODULE Gen_Dane ------------------------------
(* Vectors for X08.  The inputs come from the binding (harness `dane inputs`):  *)
(* dane_in.ndjson holds certificates generated at run time                      *)
(*      [kind |-> "cert", id, raw, spki]                                        *)
(* local-parts          [kind |-> "local", text]                                *)
(* and the digest table [kind |-> "dig", alg, pre, dig]  (right pre-images and  *)
(* decoys).  The specification selects; see Dane.tla.                           *)
(*  Mode "dane"   certificate x usage x selector x matching type (in and out of *)
(*                range): CertificateToDANE, TLSA.Sign, SMIMEA.Sign, and Verify *)
(*                of the resulting / upper-cased / truncated / foreign texts    *)
(*  Mode "names"  TLSAName: names x services x networks; SMIMEAName             *)
EXTENDS Dane, GenBase

CONSTANT Mode
VARIABLE v

In    == ndJsonDeserialize("dane_in.ndjson")
Of(kind) == { In[i] : i \in { j \in 1..Len(In) : In[j].kind = kind } }
Certs  == Of("cert")
Locals == Of("local")
T      == { [alg |-> e.alg, pre |-> e.pre, dig |-> e.dig] : e \in Of("dig") }
NCerts == Cardinality(Certs)
CertNo(i) == CHOOSE c \in Certs : c.id = i
C(c) == [raw |-> c.raw, spki |-> c.spki]

Upper(t) == [i \in 1..Len(t) |-> IF t[i] >= 97 /\ t[i] <= 122 THEN t[i] - 32 ELSE t[i]]
Odd  == {-1, 2, 3, 255, 256, 257}

DaneCases == { [cert |-> c.id, usage |-> u, sel |-> s, mt |-> m] :
                 c \in Certs, u \in {0, 3, 255, 256, -1}, s \in {0, 1} \cup Odd, m \in {0, 1, 2} \cup Odd \cup {258} }

VCase(text, cert, sel, mt, via) == [text |-> text, cert |-> cert, sel |-> sel, mt |-> mt, via |-> via,
                                    ok |-> Verify(T, sel, mt, text, C(CertNo(cert)))]
DaneVector(x) ==
  LET c   == C(CertNo(x.cert))
      fit == InU8(x.sel) /\ InU8(x.mt)
      d   == CertificateToDANE(T, x.sel, x.mt, c)
      sg  == Sign(T, 0, x.usage, x.sel, x.mt, c)
      other == 1 + (x.cert % NCerts)
      t   == d.text
  IN [kind |-> "dane", cert |-> x.cert, usage |-> x.usage, sel |-> x.sel, mt |-> x.mt,
      dane |-> [app |-> fit, ok |-> d.ok, text |-> d.text],
      sign |-> [mayfail |-> SignMayFail(x.usage, x.sel, x.mt), maysucceed |-> SignMaySucceed(x.usage, x.sel, x.mt),
                usage |-> x.usage % 256, selector |-> x.sel, matching |-> x.mt, text |-> d.text],
      verify |-> IF ~fit THEN <<>>
                 ELSE IF ~d.ok THEN << VCase(<<>>, x.cert, x.sel, x.mt, "struct"), VCase(<<48, 48>>, x.cert, x.sel, x.mt, "parse") >>
                 ELSE << VCase(t, x.cert, x.sel, x.mt, "struct"), VCase(t, x.cert, x.sel, x.mt, "parse"),
                         VCase(Upper(t), x.cert, x.sel, x.mt, "struct"), VCase(Upper(t), x.cert, x.sel, x.mt, "parse"),
                         VCase(t, other, x.sel, x.mt, "struct"),
                         VCase(SubSeq(t, 1, Len(t) - 2), x.cert, x.sel, x.mt, "struct"),
                         VCase(t, x.cert, 1 - x.sel, x.mt, "struct"),
                         VCase(t, x.cert, x.sel, (x.mt + 1) % 3, "struct"),
                         VCase(t \o <<48>>, x.cert, x.sel, x.mt, "struct"),
                         VCase(<<>>, x.cert, x.sel, x.mt, "struct") >>]

-----------------------------------------------------------------------------
Txt(s) == s    \* (texts are given as character codes below)
Names == << <<101, 120, 97, 109, 112, 108, 101, 46, 99, 111, 109, 46>>,                 \* example.com.
            <<46>>,                                                                     \* .
            <<101, 120, 97, 109, 112, 108, 101, 46, 99, 111, 109>>,                     \* example.com
            <<97, 46, 98, 46, 99, 46, 100, 46, 101, 120, 97, 109, 112, 108, 101, 46>>,  \* a.b.c.d.example.
            <<>> >>
Svc(text, name) == [text |-> text, name |-> name]
Svcs == << Svc(<<52, 52, 51>>, ""), Svc(<<50, 53>>, ""), Svc(<<48>>, ""), Svc(<<49>>, ""), Svc(<<54, 53, 53, 51, 53>>, ""),
           Svc(<<54, 53, 53, 51, 54>>, ""), Svc(<<57, 57, 57, 57, 57, 57, 57>>, ""), Svc(<<48, 52, 52, 51>>, ""),
           Svc(<<104, 116, 116, 112, 115>>, "https"), Svc(<<115, 109, 116, 112>>, "smtp"),
           Svc(<<100, 111, 109, 97, 105, 110>>, "domain"), Svc(<<105, 109, 97, 112, 115>>, "imaps"),
           Svc(<<110, 111, 115, 117, 99, 104, 45, 120, 48, 55>>, ""),                    \* nosuch-x07
           Svc(<<52, 97>>, "") >>                                                        \* 4a
Net(text, name) == [text |-> text, name |-> name]
Nets == << Net(<<116, 99, 112>>, "tcp"), Net(<<117, 100, 112>>, "udp"), Net(<<115, 99, 116, 112>>, "sctp") >>

NameCases == { x \in { [k |-> "tlsa", n |-> n, s |-> s, w |-> w] : n \in 1..Len(Names), s \in 1..Len(Svcs), w \in 1..Len(Nets) } :
                 TLSANameDefined(Svcs[x.s].text, Svcs[x.s].name, Nets[x.w].name) }
       \cup  { [k |-> "smimea", n |-> n, s |-> l.id, w |-> 0] : n \in 1..Len(Names), l \in Locals }
LocalNo(i) == CHOOSE l \in Locals : l.id = i
NameVector(x) ==
  IF x.k = "tlsa"
  THEN LET r == TLSAName(Names[x.n], Svcs[x.s].text, Svcs[x.s].name, Nets[x.w].name, Nets[x.w].text) IN
       [kind |-> "tlsaname", name |-> Names[x.n], service |-> Svcs[x.s].text, network |-> Nets[x.w].text,
        root |-> IsRootName(Names[x.n]), ok |-> r.ok, text |-> r.text]
  ELSE LET r == SMIMEAName(T, LocalNo(x.s).text, Names[x.n]) IN
       [kind |-> "smimeaname", local |-> LocalNo(x.s).text, domain |-> Names[x.n], root |-> IsRootName(Names[x.n]),
        mayfail |-> SMIMEAMayFail(Names[x.n]), ok |-> r.ok, text |-> r.text]

Init == \/ Mode = "dane"  /\ v \in DaneCases
        \/ Mode = "names" /\ v \in NameCases
Next == UNCHANGED v
Out == IF Mode = "dane" THEN Emit(DaneVector(v)) ELSE Emit(NameVector(v))
=============================================================================
