CONSTANTS
  Keys = {1, 2}
  MaxOps = 6
  Layouts <- GenLayouts
  Rich = FALSE
  Shapes = {"given", "round"}
INIT Init
NEXT ShapedNext
INVARIANT Out
CHECK_DEADLOCK FALSE
