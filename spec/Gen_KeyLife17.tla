---------------------------- MODULE Gen_KeyLife17 ----------------------------
(* Behaviour export for the key life cycle: every reachable state of KeyLife17 *)
(* whose last operation is a verification is one vector, namely its history    *)
(* (operations with the expected verification results).  The history variable  *)
(* makes states = behaviours.                                                  *)
EXTENDS KeyLife17, GenBase

Out == IF Len(hist) > 0 /\ hist[Len(hist)].op = "verify"
       THEN Emit([kind |-> "keylife", ops |-> hist]) ELSE TRUE
=============================================================================
