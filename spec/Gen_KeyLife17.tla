---------------------------- MODULE Gen_KeyLife17 ----------------------------
(* Behaviour export for the key life cycle: every reachable state of KeyLife17 *)
(* whose last operation is a verification is one vector, namely its history    *)
(* (operations with the expected verification results).  The history variable  *)
(* makes states = behaviours.                                                  *)
(* Two runs:                                                                   *)
(*   Gen_KeyLife17.cfg      every behaviour of at most MaxOps operations, no   *)
(*                          relays (Layouts = {})                              *)
(*   Gen_KeyLife17_lay.cfg  the round trips through a store, x EVERY layout of *)
(*                          Dnssec17!KFLayouts x both import functions: the     *)
(*                          behaviours of the shapes below (NEXT ShapedNext),  *)
(*                          and every way of KeyLife17!Apis a text reaches the *)
(*                          library (the three extra reader kinds: x the       *)
(*                          layouts without empty lines; Rich: x all).         *)
(*                          A relay operation is exported with the TEMPLATES   *)
(*                          of its layout (Dnssec17!KFTemplate), so the text    *)
(*                          the real code reads is the specification's.        *)
EXTENDS KeyLife17, GenBase

CONSTANTS Rich,      \* FALSE: the 48 layouts of the quick tier; TRUE: + several empty lines at once
          Shapes     \* which of the shapes below

D == INSTANCE Dnssec17 WITH MaxLabel <- 63, MaxName <- 255
GenLayouts == D!KFLayouts(Rich)

Shape(s) == CASE s = "given" -> <<"provide", "relay", "import", "sign", "verify">>                    \* a key from elsewhere, stored, read
              [] s = "round" -> <<"gen", "export", "relay", "import", "sign", "verify">>              \* our own key, exported, stored, read
              [] s = "other" -> <<"provide", "provide", "relay", "import", "sign", "verify">>         \* ... and the other key must not verify
              [] s = "twice" -> <<"provide", "relay", "relay", "import", "sign", "verify">>           \* a copy of a copy
\* the text read is the copy, the signing handle is the one read from it, a second relay copies the first copy
\* (which is in the plainest layout without a final newline: the product of two layouts is not needed)
FirstOfTwo == [fmt |-> "v1.3", timing |-> FALSE, mnem |-> TRUE, blank |-> "none", finalnl |-> FALSE]
Shaped ==
  /\ \E s \in Shapes : Len(hist) <= Len(Shape(s)) /\ \A n \in 1..Len(hist) : hist[n].op = Shape(s)[n]
  /\ \A n \in 1..Len(hist) :
       /\ hist[n].op = "import" => /\ hist[n].t = Len(ts)
                                   /\ (hist[n].api \notin {"new", "read"} /\ ~Rich) => hist[n - 1].lay.blank = "none"
       /\ hist[n].op = "sign"   => hist[n].h = Len(hs)
       /\ (hist[n].op = "relay" /\ n > 1 /\ hist[n - 1].op = "relay") => hist[n].t = Len(ts) - 1 /\ hist[n - 1].lay = FirstOfTwo
ShapedNext == /\ \/ Next
                 \/ Len(hist) < MaxOps /\ \E j \in 1..Len(ts), api \in Apis : Import(j, api)
              /\ Shaped'

OpOut(o) == IF o.op = "relay"
            THEN [op |-> "relay", t |-> o.t, lay |-> o.lay, rsa |-> D!KFTemplate("rsa", o.lay), ec |-> D!KFTemplate("ec", o.lay)]
            ELSE o
Out == IF Len(hist) > 0 /\ hist[Len(hist)].op = "verify"
       THEN Emit([kind |-> "keylife", ops |-> [n \in 1..Len(hist) |-> OpOut(hist[n])]]) ELSE TRUE
=============================================================================
