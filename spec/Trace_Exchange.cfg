\* Clients (the exchange instances c*8+round of the trace) and Buffers (0 and the buffer numbers of the
\* trace) are appended by the driver: a substitution "Clients <- TraceClients" works but is re-evaluated
\* at every use (quadratic).
CONSTANTS
  Cap = 512
  Swapped = FALSE
  KeepLen = FALSE
  SessShared = FALSE
  DoubleRelease = FALSE
INIT Init
NEXT Next
INVARIANT ModelSane
POSTCONDITION AcceptedC
CHECK_DEADLOCK FALSE
