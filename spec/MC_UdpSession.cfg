INIT Init
NEXT Next
INVARIANTS RoundTrip Strict Cuts
CHECK_DEADLOCK FALSE
