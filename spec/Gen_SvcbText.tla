---------------------------- MODULE Gen_SvcbText ----------------------------
(* Vectors for X10: every text of SvcbTextCases with what the reader says:      *)
(* [text, ok, why, wire, ambig, loose]  (see SvcbText!ReadSvcb).                                                *)
EXTENDS SvcbText, SvcbTextCases, GenBase

VARIABLE n
Init == n \in 1..Len(Cases)
Next == UNCHANGED n
Out == LET r == ReadSvcb(Cases[n].text) IN
       Emit([id |-> n, text |-> Cases[n].text, ok |-> r.ok, why |-> r.why, wire |-> r.wire, ambig |-> r.ambig, loose |-> r.loose])
=============================================================================
