------------------------------ MODULE Gen_XfrOut ------------------------------
(* Scripts for X14: every sequence of <= N envelopes over 7 kinds x how the     *)
(* request is signed x the producer closing or leaving x the position at which  *)
(* the transport refuses a write, with the admissible outcomes                  *)
(*    [frames (messages on the wire), ret ("nil" | "err" | "never"),            *)
(*     undelivered (envelopes the producer could not hand over)]                *)
(* (more than one where XfrOut marks AMBIG).  The binding runs each script on a *)
(* real Transfer.Out behind a real dns.Server and checks the outcome; the       *)
(* octets go to Trace_XfrOut.                                                   *)
(* kinds: r1 r2 r3 (1 / 2 / 3 records; r3 = SOA, A, SOA), empty (no records),   *)
(*        err (Error set, no records), errr (Error set, one record), big (does  *)
(*        not fit a 65535-octet message)                                        *)
EXTENDS XfrOut, GenBase

CONSTANTS Mode, N, Shard, NShards
VARIABLE v

Kinds == << "r1", "r2", "r3", "empty", "err", "errr", "big" >>
EnvOf(k) == [rrs |-> <<>>, err |-> k \in {"err", "errr"}, big |-> k = "big"]      \* (the records do not matter for the outcome)
Rq0(sig) == [id |-> 1, opcode |-> 0, rd |-> FALSE, cd |-> FALSE, qd |-> 1, qsec |-> <<>>, sig |-> sig, mac |-> <<>>,
             key |-> <<>>, alg |-> <<>>, fudge |-> 300]

Skel(o, total, end) ==
  [frames |-> o.n, ret |-> IF o.st = "returned" THEN (IF o.err = "" THEN "nil" ELSE "err") ELSE "never", undelivered |-> total - o.n - (IF o.err # "" THEN 1 ELSE 0)]

RECURSIVE Runs(_, _, _, _)
Runs(o, ks, i, end) ==
  IF i > Len(ks)
  THEN { Skel(IF end = "close" THEN ReturnNil(Close(o)) ELSE o, Len(ks), end) }
  ELSE LET p == Put(o, EnvOf(ks[i])) IN
       UNION { IF oc = "sent" THEN Runs(TakeEnv(p, oc, <<>>), ks, i + 1, end)
               ELSE { Skel(TakeEnv(p, oc, <<>>), Len(ks), end) } : oc \in Outcomes(p) }

SetToSeq(S) == LET RECURSIVE F(_)
                   F(X) == IF X = {} THEN <<>> ELSE LET m == CHOOSE m \in X : TRUE IN <<m>> \o F(X \ {m})
               IN F(S)

RECURSIVE SumSeqG(_)
SumSeqG(s) == IF s = <<>> THEN 0 ELSE Head(s) + SumSeqG(Tail(s))
Hash(q) == SumSeqG([i \in 1..Len(q) |-> i * q[i]])

Scripts ==
  { [sig |-> sig, ks |-> q, end |-> end, failat |-> f] :
      sig \in (IF Mode = "all" THEN {"none", "good", "bad", "nokey"} ELSE {"good"}),
      q \in UNION { [1..n -> 1..Len(Kinds)] : n \in 0..N },
      end \in {"close", "leave"},
      f \in 0..N }

Init == v \in { s \in Scripts : s.failat <= Len(s.ks) /\ Hash(s.ks) % NShards = Shard }
Next == UNCHANGED v

Out == LET ks == [i \in 1..Len(v.ks) |-> Kinds[v.ks[i]]]
           h  == Hash(v.ks) + v.failat IN
       Emit([sig |-> v.sig, kinds |-> ks, end |-> v.end, failat |-> v.failat,
             opcode |-> IF h % 5 = 4 THEN 4 ELSE 0, rd |-> h % 2 = 1, cd |-> (h \div 2) % 2 = 1,
             outs |-> SetToSeq(Runs(Start(Rq0(v.sig), v.failat), ks, 1, v.end))])
=============================================================================
