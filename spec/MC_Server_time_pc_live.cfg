CONSTANTS
  Mode = "pc"
  NStart = 1
  NLsn = 1
  NShut = 1
  NConns = 0
  MaxReq = 0
  NPkts = 2
  CtxMayExpire = TRUE
  PlainShut = {1}
  DeadlinesMayFire = TRUE
  ClientMayClose = FALSE
  HandlerMayClose = FALSE
  HandlerMayHijack = FALSE
  StartMayFail = FALSE
  SpareFields = FALSE
  SeqRestart = FALSE
  Bug = "none"
  TrackAct = FALSE
SPECIFICATION Spec
CHECK_DEADLOCK FALSE
PROPERTIES ShutdownTerminates ServeTerminates WorkersEnd LockReleased
