CONSTANTS
  MaxLabel = 63
  MaxName = 255
  Mode = "region"
INIT Init
NEXT Next
INVARIANT Out
