---------------------------- MODULE Gen_WireRR ----------------------------
(* Vector generator for C01 / C08.  Every case of a bounded universe is one    *)
(* TLC state `v' (a short tuple of small integers); the invariant Out builds   *)
(* the abstract message of the case from WireRR's layout tables, evaluates the *)
(* specification on it and appends one JSON line                               *)
(*    [g, v, msg, ok, bytes, rroff, lenmsg, plain, refuse (, norm)]            *)
(* to vectors.ndjson: the message, whether it can be packed, the octets        *)
(* EncMsg prescribes, the record offsets, the arithmetic length and -- when    *)
(* it differs from msg -- what a decoder must recover (NormMsg).               *)
(* Mode "layout" exports the layout tables themselves (the Go harness builds   *)
(* values by field name from them; the layout is stated only in WireRR.tla).   *)
EXTENDS WireRR, GenBase

CONSTANTS Mode,        \* "layout" | "types" | "cross" | "rrhdr" | "opts" | "svcb" | "gateway" | "nodata" | "unknown"
                       \* | "hdr" | "rcode" | "sections" | "big" | "compress" | "orders" | "empty"
          Tier,        \* 0 quick (boundary subsets), 1 thorough (all flag words, all RCODEs)
          Shard, NShards

VARIABLE v

-----------------------------------------------------------------------------
(* Building blocks *)

Rep(n, o) == [i \in 1..n |-> o]
Ramp(n)   == [i \in 1..n |-> (i * 7 + 3) % 256]

Z4 == <<0, 0, 0, 0>>
NameA    == << <<97>> >>                                                \* a.
NameWww  == << <<119, 119, 119>>, <<101, 120, 97, 109, 112, 108, 101>>, <<99, 111, 109>> >>
Name255  == << Rep(63, 97), Rep(63, 98), Rep(63, 99), Rep(61, 100) >>    \* 255 wire octets
Owner    == << <<111>>, <<120>> >>                                       \* o.x.

NameBnd == << <<>>, NameA, << Rep(63, 122) >>, Name255, NameWww,
              << <<97, 46, 98>> >>,                    \* a dot inside a label
              << <<92>> >>, << <<92, 48, 54, 53>> >>,  \* backslash; backslash followed by digits
              << <<0>>, <<255>>, <<32, 34, 59>> >>,    \* NUL, 0xff, space quote semicolon
              << <<40, 41, 64, 39, 36, 127, 9>> >>,    \* ( ) @ ' $ DEL TAB
              << <<65, 97>>, <<90>> >> >>              \* case is preserved

StrBnd  == << <<>>, <<97>>, Rep(255, 120), <<34>>, <<92>>, <<59, 32, 59>>, <<0>>, <<255, 127, 31>>,
              <<92, 48, 54, 53>>, <<97, 34, 98, 92, 92, 99>>, Ramp(255) >>
StrsBnd == << << <<>> >>, << <<97>>, <<98>> >>, << Rep(255, 120) >>, << <<>>, <<>> >>,
              << <<34, 92>>, <<0, 255>>, <<59, 32>> >>, << Rep(255, 1), Rep(255, 2), <<>> >> >>
OstrBnd == << <<>>, << <<>> >>, << <<49, 50>> >> >>

BlobBnd(max) == << <<>>, <<0>>, <<255>>, <<1, 2>>, <<1, 2, 3>>, <<92, 34, 92, 48, 54, 53, 59, 0, 255>>, Ramp(Min(max, 300)), Ramp(max),
                  [i \in 1..max |-> 97 + (i % 26)] >>                     \* long and printable

NoBackslash(b) == [i \in 1..Len(b) |-> IF b[i] = 92 THEN 93 ELSE b[i]]

BitmapBnd  == << <<>>, <<1>>, <<0>>, <<65535>>, <<1, 2, 6, 15, 46, 47, 48>>, <<7, 8>>, <<255, 256>>,
                 <<1, 257, 513, 65281>>, [i \in 1..256 |-> i - 1], <<1234, 4660, 22136>> >>
Bitmap0Bnd == << <<>>, <<1>>, <<127>>, <<1, 2, 15, 30>>, <<7, 8>> >>

Apl(fam, neg, prefix, addr) == [fam |-> fam, neg |-> neg, prefix |-> prefix, addr |-> addr]
AplBnd == << <<>>,
             << Apl(1, FALSE, 24, <<192, 168, 1, 0>>) >>,
             << Apl(1, FALSE, 0, Z4) >>,
             << Apl(1, TRUE, 32, <<255, 255, 255, 255>>) >>,
             << Apl(1, FALSE, 24, <<10, 0, 0, 0>>) >>,                 \* trailing zero octets inside the prefix are cut
             << Apl(1, TRUE, 9, <<10, 128, 0, 0>>) >>,
             << Apl(2, FALSE, 128, [i \in 1..16 |-> i]) >>,
             << Apl(2, TRUE, 8, <<255>> \o Rep(15, 0)) >>,
             << Apl(2, FALSE, 0, Rep(16, 0)) >>,
             << Apl(1, FALSE, 20, <<10, 1, 255, 255>>) >>,             \* host bits beyond the prefix are not sent
             << Apl(1, TRUE, 1, Rep(4, 255)), Apl(1, FALSE, 31, Rep(4, 255)), Apl(1, FALSE, 0, <<1, 2, 3, 4>>) >>,
             << Apl(2, FALSE, 57, Rep(16, 255)), Apl(2, TRUE, 121, Rep(16, 255)), Apl(2, FALSE, 9, <<255, 255>> \o Rep(14, 1)) >>,
             << Apl(1, FALSE, 8, <<127, 0, 0, 0>>), Apl(2, TRUE, 64, <<32, 1, 13, 184>> \o Rep(12, 0)), Apl(1, TRUE, 0, Z4) >> >>

Opt(c, f) == [code |-> c, f |-> f]
Par(k, f) == [key |-> k, f |-> f]

-----------------------------------------------------------------------------
(* Baselines (distinct per field position so that swapped fields show) and     *)
(* boundary values per kind.                                                   *)

Baseline(k, i) ==
  CASE k = "u8"   -> 16 + i
    [] k = "u16"  -> 256 * i + 128 + i
    [] k = "u32"  -> <<i, 2, 3, 4>>
    [] k = "u48"  -> <<i, 2, 3, 4, 5, 6>>
    [] k = "u64"  -> <<i, 2, 3, 4, 5, 6, 7, 8>>
    [] k = "a"    -> <<192, 0, 2, i>>
    [] k = "aaaa" -> <<32, 1, 13, 184>> \o Rep(11, 0) \o <<i>>
    [] k \in {"name", "cname"} -> << <<96 + i>>, <<120, 121>> >>
    [] k = "str"  -> <<48 + i, 98>>
    [] k = "strs" -> << <<48 + i, 98>> >>
    [] k = "ostr" -> << <<48 + i>> >>
    [] k \in OpaqueKinds -> <<222, 173, i>>
    [] k = "bitmap"  -> <<1, 15, 46>>
    [] k = "bitmap0" -> <<1, 15>>
    [] k = "names"   -> << << <<114>>, <<120>> >> >>
    [] k = "apl"     -> AplBnd[2]
    [] k = "opts"    -> <<>>
    [] k = "svcb"    -> <<>>
    [] k = "gateway" -> <<>>
    [] k = "u32z"    -> <<0, 0, i, 0>>
    [] k = "u32e"    -> <<0, 0, 14, 16>>
    [] k = "u16opt"  -> <<300>>
    [] k = "u16list" -> <<1, 4>>
    [] k = "lstrs"   -> << <<104, 50>> >>
    [] k = "alist"   -> << <<192, 0, 2, 1>> >>
    [] k = "aaaalist" -> << <<32, 1, 13, 184>> \o Rep(12, 0) >>
    [] k = "prefixaddr" -> <<192, 0, 2, 0>>

Bnd(k, max) ==
  CASE k = "u8"   -> <<0, 1, 127, 128, 255>>
    [] k = "u16"  -> <<0, 1, 255, 256, 32767, 32768, 65535>>
    [] k = "u32"  -> << Z4, <<0, 0, 0, 1>>, <<0, 0, 0, 255>>, <<0, 0, 1, 0>>, <<127, 255, 255, 255>>, <<128, 0, 0, 0>>,
                        <<255, 255, 255, 255>>, <<18, 52, 86, 120>> >>
    [] k = "u48"  -> << Rep(6, 0), Rep(6, 255), <<0, 0, 0, 0, 0, 1>>, <<128, 0, 0, 0, 0, 0>>, <<1, 35, 69, 103, 137, 171>> >>
    [] k = "u64"  -> << Rep(8, 0), Rep(8, 255), <<0, 0, 0, 0, 0, 0, 0, 1>>, <<128, 0, 0, 0, 0, 0, 0, 0>>,
                        <<1, 35, 69, 103, 137, 171, 205, 239>>, <<0, 0, 255, 255, 255, 255, 255, 255>> >>
    [] k = "a"    -> << Z4, Rep(4, 255), <<127, 0, 0, 1>>, <<1, 2, 3, 4>> >>
    [] k = "aaaa" -> << Rep(16, 0), Rep(16, 255), [i \in 1..16 |-> i], Rep(10, 0) \o <<255, 255, 1, 2, 3, 4>>,
                        Rep(15, 0) \o <<1>> >>
    [] k \in {"name", "cname"} -> NameBnd
    [] k = "str"  -> StrBnd
    [] k = "strs" -> StrsBnd
    [] k = "ostr" -> OstrBnd
    [] k = "octet" -> SubSeq(BlobBnd(max), 1, 7) \o << NoBackslash(Ramp(max)), BlobBnd(max)[9] >>   \* long values: without backslash
    [] k \in OpaqueKinds -> BlobBnd(max)
    [] k = "bitmap"  -> BitmapBnd
    [] k = "bitmap0" -> Bitmap0Bnd
    [] k = "names"   -> << <<>>, << NameA >>, << NameWww, <<>>, << <<92, 46>> >> >> >>
    [] k = "apl"     -> AplBnd
    [] k = "opts"    -> << <<>>, << Opt(3, [Nsid |-> <<171>>]), Opt(12, [Padding |-> Rep(3, 0)]) >> >>
    [] k = "svcb"    -> << <<>>, << Par(1, [Alpn |-> << <<104, 50>> >>]), Par(3, [Port |-> 443]) >> >>
    [] k = "u32z"    -> << Z4, <<0, 0, 0, 1>>, Rep(4, 255) >>
    [] k = "u32e"    -> << <<>>, Z4, <<0, 0, 14, 16>>, Rep(4, 255) >>
    [] k = "u16opt"  -> << <<>>, <<0>>, <<1>>, <<65535>> >>
    [] k = "u16list" -> << <<>>, <<1>>, <<1, 4>>, <<1, 3, 65280>> >>
    [] k = "lstrs"   -> << << <<104, 50>> >>, << <<104, 50>>, <<104, 51>> >>, << Rep(255, 97) >>,
                           << <<97, 44, 98, 92, 99>>, <<0, 255>> >> >>
    [] k = "alist"   -> << << <<1, 2, 3, 4>> >>, << <<1, 2, 3, 4>>, Z4, Rep(4, 255) >> >>
    [] k = "aaaalist" -> << << [i \in 1..16 |-> i] >>, << Rep(16, 255), <<32, 1>> \o Rep(14, 0) >> >>
    [] OTHER -> <<>>

\* entries whose value is dictated by another field (length of a sized blob, gateway selector)
Driven(es, i) == \E j \in 1..Len(es) : ("sz" \in DOMAIN es[j] /\ es[j].sz = es[i].n) \/ ("of" \in DOMAIN es[j] /\ es[j].of = es[i].n)
KindOfField(es, n) == es[CHOOSE j \in 1..Len(es) : es[j].n = n].k
\* a sized blob can be as long as its length field can say
MaxBlob(es, i) == IF "sz" \in DOMAIN es[i] /\ KindOfField(es, es[i].sz) = "u8" THEN 255 ELSE 2000

BaseF(es) == [n \in { es[i].n : i \in 1..Len(es) } |->
                LET i == CHOOSE j \in 1..Len(es) : es[j].n = n IN
                IF es[i].k = "gateway" \/ Driven(es, i) THEN 0 ELSE Baseline(es[i].k, i)]
\* make the driven fields tell the truth
Fix(es, f) == [n \in DOMAIN f |->
                IF \E j \in 1..Len(es) : "sz" \in DOMAIN es[j] /\ es[j].sz = n
                THEN Len(f[es[CHOOSE j \in 1..Len(es) : "sz" \in DOMAIN es[j] /\ es[j].sz = n].n])
                ELSE IF \E j \in 1..Len(es) : es[j].n = n /\ es[j].k = "gateway" THEN <<>>
                ELSE f[n]]
With(es, i, val) == Fix(es, [BaseF(es) EXCEPT ![es[i].n] = val])

Choices(es, i) == IF es[i].k = "gateway" \/ Driven(es, i) THEN <<>> ELSE Bnd(es[i].k, MaxBlob(es, i))

-----------------------------------------------------------------------------
(* Messages *)

H0 == [id |-> 4660, qr |-> FALSE, opcode |-> 0, aa |-> FALSE, tc |-> FALSE, rd |-> TRUE, ra |-> FALSE,
       z |-> FALSE, ad |-> FALSE, cd |-> FALSE, rcode |-> 0]
HdrOfWord(w) ==      \* the 16 flag bits of RFC 1035 s.4.1.1, most significant first: QR Opcode(4) AA TC RD RA Z AD CD RCODE(4)
  [id |-> (w * 257) % 65536,
   qr |-> (w \div 32768) % 2 = 1, opcode |-> (w \div 2048) % 16, aa |-> (w \div 1024) % 2 = 1,
   tc |-> (w \div 512) % 2 = 1, rd |-> (w \div 256) % 2 = 1, ra |-> (w \div 128) % 2 = 1,
   z |-> (w \div 64) % 2 = 1, ad |-> (w \div 32) % 2 = 1, cd |-> (w \div 16) % 2 = 1, rcode |-> w % 16]

RR(n, t, c, ttl, f) == [name |-> n, type |-> t, class |-> c, ttl |-> ttl, nodata |-> FALSE, f |-> f]
ND(n, t, c)         == [name |-> n, type |-> t, class |-> c, ttl |-> Z4, nodata |-> TRUE, f |-> <<>>]
Ttl1h == <<0, 0, 14, 16>>
Q1 == [name |-> NameA, qtype |-> 1, qclass |-> 1]

Msg(h, q, an, ns, ar) == [hdr |-> h, q |-> q, an |-> an, ns |-> ns, ar |-> ar]
\* one record: OPT lives in the additional section under the root name, everything else is an answer
OptRR(x, opts) == RR(<<>>, 41, 1232, <<x, 0, 128, 0>>, [Option |-> opts])
One1(t, f) == IF t = 41 THEN Msg(H0, <<>>, <<>>, <<>>, << RR(<<>>, 41, 1232, <<0, 0, 128, 0>>, f) >>)
              ELSE Msg(H0, <<>>, << RR(Owner, t, 1, Ttl1h, f) >>, <<>>, <<>>)

TypeCodes == SortedSeq(DOMAIN Layout)
UnknownCodes == <<0, 11, 22, 34, 38, 40, 65280, 65281, 65534, 65535>>     \* 65280 is registered as a private type by the harness

-----------------------------------------------------------------------------
(* Mode-specific cases *)

TypesMsg(t, i, j) == LET es == FieldsOf(t) IN
  IF i = 0 THEN One1(t, Fix(es, BaseF(es))) ELSE One1(t, With(es, i, Choices(es, i)[j]))

\* all pairs of boundary values for types with exactly two free fields
FreeIdx(es) == SortedSeq({ i \in 1..Len(es) : Len(Choices(es, i)) > 0 })
CrossMsg(t, j1, j2) == LET es == FieldsOf(t)  fi == FreeIdx(es) IN
  One1(t, Fix(es, [BaseF(es) EXCEPT ![es[fi[1]].n] = Choices(es, fi[1])[j1], ![es[fi[2]].n] = Choices(es, fi[2])[j2]]))

ClassBnd == <<0, 1, 3, 4, 254, 255, 256, 65535>>
TtlBnd   == Bnd("u32", 0)
RRHdrMsg(which, j) ==
  LET f == [A |-> <<192, 0, 2, 1>>] IN
  CASE which = 1 -> Msg(H0, <<>>, << RR(NameBnd[j], 1, 1, Ttl1h, f) >>, <<>>, <<>>)
    [] which = 2 -> Msg(H0, <<>>, << RR(Owner, 1, ClassBnd[j], Ttl1h, f) >>, <<>>, <<>>)
    [] which = 3 -> Msg(H0, <<>>, << RR(Owner, 1, 1, TtlBnd[j], f) >>, <<>>, <<>>)
    [] which = 4 -> Msg(H0, << [name |-> NameBnd[j], qtype |-> ClassBnd[1 + (j % 8)] , qclass |-> ClassBnd[1 + ((j * 3) % 8)]] >>, <<>>, <<>>, <<>>)

\* EDNS0: every assigned code, an unassigned one (13), the local range and its neighbours
OptCodes == <<1, 2, 3, 4, 5, 6, 7, 8, 9, 10, 11, 12, 15, 18, 19, 13, 65000, 65001, 65534, 65535>>
Subnet(fam, mask, scope, addr) == [Family |-> fam, SourceNetmask |-> mask, SourceScope |-> scope, Address |-> addr]
SubnetCases == << Subnet(1, 0, 0, Z4), Subnet(1, 1, 0, <<128, 0, 0, 0>>), Subnet(1, 8, 0, <<10, 0, 0, 0>>),
                  Subnet(1, 9, 8, <<10, 128, 0, 0>>), Subnet(1, 24, 32, <<192, 0, 2, 0>>), Subnet(1, 32, 0, <<192, 0, 2, 255>>),
                  Subnet(2, 0, 0, Rep(16, 0)), Subnet(2, 56, 48, <<32, 1, 13, 184, 0, 1, 2>> \o Rep(9, 0)),
                  Subnet(2, 128, 128, [i \in 1..16 |-> 16 * i - 1]),
                  \* prefixes that end inside an octet, addresses with bits set beyond the prefix: only the prefix travels
                  Subnet(1, 1, 0, Rep(4, 255)), Subnet(1, 7, 0, Rep(4, 255)), Subnet(1, 9, 0, <<10, 255, 255, 255>>),
                  Subnet(1, 20, 0, <<172, 31, 255, 254>>), Subnet(1, 31, 24, <<192, 0, 2, 255>>), Subnet(1, 24, 0, <<192, 0, 2, 77>>),
                  Subnet(1, 0, 0, <<1, 2, 3, 4>>), Subnet(1, 8, 0, <<10, 1, 2, 3>>),
                  Subnet(2, 57, 0, Rep(16, 255)), Subnet(2, 63, 0, <<32, 1, 13, 184>> \o Rep(12, 255)),
                  Subnet(2, 121, 64, Rep(16, 255)), Subnet(2, 1, 0, Rep(16, 255)), Subnet(2, 64, 0, [i \in 1..16 |-> 255 - i]) >>
OptsMsg(c, i, j) ==
  LET es == OptLayoutOf(c) IN
  IF c = 8 THEN Msg(H0, <<Q1>>, <<>>, <<>>, << OptRR(0, << Opt(8, SubnetCases[j]) >>) >>)
  ELSE IF i = 0 THEN Msg(H0, <<Q1>>, <<>>, <<>>, << OptRR(0, << Opt(c, Fix(es, BaseF(es))) >>) >>)
  ELSE Msg(H0, <<Q1>>, <<>>, <<>>, << OptRR(0, << Opt(c, With(es, i, Choices(es, i)[j])) >>) >>)
AllOptions == [x \in 1..Len(OptCodes) |->
                 IF OptCodes[x] = 8 THEN Opt(8, SubnetCases[4]) ELSE Opt(OptCodes[x], Fix(OptLayoutOf(OptCodes[x]), BaseF(OptLayoutOf(OptCodes[x]))))]

\* SVCB: every defined key, an unassigned one (9), the private range (65280) and the last usable key
SvcbKeys == <<0, 1, 2, 3, 4, 5, 6, 7, 8, 9, 65280, 65534>>
SvcbRR(t, prio, target, ps) == RR(Owner, t, 1, Ttl1h, [Priority |-> prio, Target |-> target, Value |-> ps])
BasePar(k) == Par(k, Fix(SvcbLayoutOf(k), BaseF(SvcbLayoutOf(k))))
SvcbMsg(k, i, j) ==
  LET es == SvcbLayoutOf(k) IN
  IF i = 0 THEN Msg(H0, <<>>, << SvcbRR(64, 1, <<>>, << BasePar(k) >>) >>, <<>>, <<>>)
  ELSE Msg(H0, <<>>, << SvcbRR(65, 1, NameA, << Par(k, With(es, i, Choices(es, i)[j])) >>) >>, <<>>, <<>>)
AllParams == [x \in 1..Len(SvcbKeys) |-> BasePar(SvcbKeys[x])]
Reverse(s) == [i \in 1..Len(s) |-> s[Len(s) + 1 - i]]

\* IPSECKEY / AMTRELAY: every gateway type, each with the discovery bit for AMTRELAY
GwNames == << << <<103, 119>>, <<120>> >>, <<>>, << <<97, 46, 98>>, <<92>> >> >>
GwValue(g, x) == CASE g = 0 -> <<>> [] g = 1 -> <<192, 0, 2, 33>> [] g = 2 -> [i \in 1..16 |-> 16 + i] [] g = 3 -> GwNames[x]
GatewayMsg(t, g, d, x) ==
  IF t = 45
  THEN One1(45, [Precedence |-> 10, GatewayType |-> g, Algorithm |-> 2, GatewayHost |-> GwValue(g, x),
                 PublicKey |-> IF d = 1 THEN <<>> ELSE <<1, 3, 81, 83>>])
  ELSE One1(260, [Precedence |-> 10, GatewayType |-> d * 128 + g, GatewayHost |-> GwValue(g, x)])

\* RFC 2136 s.2.4 / 2.5: RDATA-less records in the prerequisite and update sections
UpdateHdr == [H0 EXCEPT !.opcode = 5, !.rd = FALSE]
Zone == [name |-> << <<120>> >>, qtype |-> 6, qclass |-> 1]
NodataMsg(t, c) == Msg(UpdateHdr, <<Zone>>, << ND(Owner, t, c) >>, << ND(NameA \o << <<120>> >>, t, c) >>, <<>>)

UnknownMsg(t, j) ==
  IF j < 100 THEN Msg(H0, <<>>, << RR(Owner, t, 1, Ttl1h, [Rdata |-> BlobBnd(300)[j]]) >>, <<>>, <<>>)
  ELSE \* j = 100 + n: n records of the same opaque type with DIFFERENT RDATA in one message (answer and additional sections);
       \* the last one has empty RDATA: each record must keep its own data
       LET datas == << <<1, 2>>, <<255>>, <<7, 7, 7, 7>>, <<>> >>
           n == j - 100
       IN Msg(H0, <<Q1>>, [i \in 1..(n - 1) |-> RR(<< <<96 + i>> >> \o Owner, t, 1, Ttl1h, [Rdata |-> datas[i]])], <<>>,
              << RR(Owner, t, 1, Ttl1h, [Rdata |-> datas[IF n = 4 THEN 4 ELSE n]]), RR(NameA, t, 1, Ttl1h, [Rdata |-> <<>>]) >>)

HdrWordsQuick == { 0, 65535, 33152, 256, 43690, 21845 } \cup { Pow2(i) : i \in 0..15 } \cup { 65535 - Pow2(i) : i \in 0..15 }
HdrMsg(w, shape) == Msg(HdrOfWord(w), IF shape = 0 THEN <<>> ELSE <<Q1>>, <<>>, <<>>, <<>>)

RcodesQuick == { 0, 1, 15, 16, 17, 255, 256, 2748, 4080, 4094, 4095, 4096 }
RcodeMsg(rc, shape) ==
  LET h == [H0 EXCEPT !.rcode = rc, !.qr = TRUE] IN
  CASE shape = 0 -> Msg(h, <<Q1>>, <<>>, <<>>, <<>>)
    [] shape = 1 -> Msg(h, <<Q1>>, <<>>, <<>>, << OptRR(90, <<>>) >>)         \* a stale EXTENDED-RCODE octet must be overwritten
    [] shape = 2 -> Msg(h, <<Q1>>, << RR(NameA, 1, 1, Ttl1h, [A |-> <<192, 0, 2, 1>>]) >>, <<>>,
                        << OptRR(255, << Opt(15, [InfoCode |-> 18, ExtraText |-> <<98, 108, 111, 99, 107>>]),
                                         Opt(10, [Cookie |-> Ramp(8)]) >>),
                           RR(NameA, 28, 1, Ttl1h, [AAAA |-> Rep(15, 0) \o <<1>>]) >>)   \* OPT need not be last

Pool == << RR(NameA, 1, 1, Ttl1h, [A |-> <<192, 0, 2, 1>>]),
           RR(NameWww, 15, 1, Ttl1h, [Preference |-> 10, Mx |-> NameA]),
           RR(NameA, 16, 3, Z4, [Txt |-> << <<104, 105>>, <<>> >>]),
           RR(<<>>, 2, 1, <<0, 7, 233, 0>>, [Ns |-> NameWww]),
           RR(NameA, 28, 1, Ttl1h, [AAAA |-> Rep(15, 0) \o <<1>>]),
           RR(NameWww, 6, 1, Ttl1h, [Ns |-> NameA, Mbox |-> NameWww, Serial |-> <<120, 0, 0, 1>>, Refresh |-> <<0, 0, 28, 32>>,
                                     Retry |-> <<0, 0, 14, 16>>, Expire |-> <<0, 9, 58, 128>>, Minttl |-> <<0, 0, 1, 44>>]) >>
PoolSeq(n, start) == [i \in 1..n |-> Pool[1 + ((start + i) % Len(Pool))]]
Qs == << Q1, [name |-> NameWww, qtype |-> 255, qclass |-> 255], [name |-> <<>>, qtype |-> 6, qclass |-> 1] >>
SectionsMsg(nq, nan, nns, nar) ==
  Msg([H0 EXCEPT !.qr = TRUE, !.aa = TRUE], SubSeq(Qs, 1, nq), PoolSeq(nan, 0), PoolSeq(nns, 2),
      IF nar = 3 THEN PoolSeq(2, 4) \o << OptRR(0, <<>>) >> ELSE PoolSeq(nar, 4))

BigMsg(x) ==
  CASE x = 1 -> One1(10, [Data |-> Ramp(65535)])                                                   \* the largest RDATA
    [] x = 2 -> One1(16, [Txt |-> [i \in 1..256 |-> IF i <= 255 THEN Rep(255, i % 256) ELSE Rep(254, 33)]])   \* 255*256 + 255 = 65535
    [] x = 3 -> One1(65281, [Rdata |-> Ramp(65535)])
    [] x = 4 -> One1(10, [Data |-> Ramp(65536)])                                                   \* one octet too many: cannot be packed
    [] x = 5 -> Msg(H0, <<Q1>>, [i \in 1..3 |-> RR(NameWww, 10, 1, Ttl1h, [Data |-> Ramp(6000 + i)])], <<>>, <<>>)   \* beyond 16384 octets
    [] x = 6 -> Msg(H0, <<Q1>>, [i \in 1..40 |-> RR(NameWww, 16, 1, Ttl1h, [Txt |-> << Rep(255, 65), Rep(200, 48 + (i % 10)) >>])], <<>>, <<>>)

\* Messages whose names repeat and share suffixes (C08 with Compress = TRUE; C01 packs them uncompressed).
Ex      == << <<101, 120, 97, 109, 112, 108, 101>>, <<99, 111, 109>> >>               \* example.com.
ExUp    == << <<69, 88, 65, 77, 80, 76, 69>>, <<99, 111, 109>> >>                    \* EXAMPLE.com.
Www     == << <<119, 119, 119>> >> \o Ex
Mail    == << <<109, 97, 105, 108>> >> \o Ex
Ns1     == << <<110, 115, 49>> >> \o Ex
Esc     == << <<97, 46, 98>>, <<200, 32>> >> \o Ex                                    \* a\.b.\200\ .example.com.
ARec(n, x) == RR(n, 1, 1, Ttl1h, [A |-> <<192, 0, 2, x>>])
CompressCases == <<
  \* 1: the classic reply: owner repeated, CNAME chain, NS and glue
  Msg(H0, << [name |-> Www, qtype |-> 1, qclass |-> 1] >>,
      << RR(Www, 5, 1, Ttl1h, [Target |-> Mail]), ARec(Mail, 1), ARec(Mail, 2) >>,
      << RR(Ex, 2, 1, Ttl1h, [Ns |-> Ns1]) >>, << ARec(Ns1, 3) >>),
  \* 2: case differs: same name for DNS, different text for the library's map
  Msg(H0, << [name |-> Www, qtype |-> 15, qclass |-> 1] >>,
      << RR(Www, 15, 1, Ttl1h, [Preference |-> 10, Mx |-> << <<109, 120>> >> \o ExUp]), RR(<< <<87, 87, 87>> >> \o Ex, 15, 1, Ttl1h, [Preference |-> 20, Mx |-> Mail]) >>,
      <<>>, << ARec(<< <<109, 120>> >> \o Ex, 9) >>),
  \* 3: labels that need escapes, repeated
  Msg(H0, << [name |-> Esc, qtype |-> 255, qclass |-> 1] >>,
      << ARec(Esc, 1), RR(Esc, 2, 1, Ttl1h, [Ns |-> << <<110, 115>> >> \o Esc]), RR(<< <<200>> >> \o Esc, 16, 1, Ttl1h, [Txt |-> << <<104, 105>> >>]) >>,
      <<>>, <<>>),
  \* 4: names in fields that must not be compressed (SRV, RP, RRSIG signer, NSEC next) next to compressible ones
  Msg(H0, << [name |-> Ex, qtype |-> 33, qclass |-> 1] >>,
      << RR(Ex, 33, 1, Ttl1h, [Priority |-> 1, Weight |-> 2, Port |-> 443, Target |-> Www]),
         RR(Ex, 17, 1, Ttl1h, [Mbox |-> Mail, Txt |-> Www]),
         RR(Ex, 47, 1, Ttl1h, [NextDomain |-> Www, TypeBitMap |-> <<1, 2, 46>>]),
         RR(Www, 5, 1, Ttl1h, [Target |-> Ex]) >>,
      << RR(Ex, 46, 1, Ttl1h, [TypeCovered |-> 33, Algorithm |-> 13, Labels |-> 2, OrigTtl |-> Ttl1h, Expiration |-> <<101, 0, 0, 0>>,
                               Inception |-> <<100, 0, 0, 0>>, KeyTag |-> 4660, SignerName |-> Ex, Signature |-> Ramp(64)]) >>, <<>>),
  \* 5: SOA with the root and sibling names
  Msg(H0, << [name |-> <<>>, qtype |-> 6, qclass |-> 1] >>,
      << RR(<<>>, 6, 1, Ttl1h, [Ns |-> << <<97>> >>, Mbox |-> << <<110>>, <<97>> >>, Serial |-> <<120, 0, 0, 1>>, Refresh |-> Z4, Retry |-> Z4, Expire |-> Z4, Minttl |-> Z4]),
         RR(Ex, 6, 1, Ttl1h, [Ns |-> Ns1, Mbox |-> << <<104>> >> \o Ns1, Serial |-> <<0, 0, 0, 1>>, Refresh |-> Z4, Retry |-> Z4, Expire |-> Z4, Minttl |-> Z4]) >>,
      <<>>, <<>>),
  \* 6: two questions only (compressible) / one question only (not)
  Msg(H0, << [name |-> Www, qtype |-> 1, qclass |-> 1], [name |-> Www, qtype |-> 28, qclass |-> 1] >>, <<>>, <<>>, <<>>),
  Msg(H0, << [name |-> Www, qtype |-> 1, qclass |-> 1] >>, <<>>, <<>>, <<>>),
  \* 8: HIP rendezvous servers, MINFO, NAPTR replacement, DNAME, KX, AFSDB, with OPT
  Msg(H0, << [name |-> Ex, qtype |-> 255, qclass |-> 1] >>,
      << RR(Ex, 55, 1, Ttl1h, [HitLength |-> 2, PublicKeyAlgorithm |-> 2, PublicKeyLength |-> 3, Hit |-> <<1, 2>>, PublicKey |-> <<3, 4, 5>>, RendezvousServers |-> << Www, Ex >>]),
         RR(Ex, 14, 1, Ttl1h, [Rmail |-> Mail, Email |-> Mail]),
         RR(Ex, 35, 1, Ttl1h, [Order |-> 1, Preference |-> 2, Flags |-> <<117>>, Service |-> <<69, 50, 85>>, Regexp |-> <<>>, Replacement |-> Www]),
         RR(Www, 39, 1, Ttl1h, [Target |-> Ex]), RR(Ex, 36, 1, Ttl1h, [Preference |-> 1, Exchanger |-> Mail]),
         RR(Ex, 18, 1, Ttl1h, [Subtype |-> 1, Hostname |-> Mail]) >>,
      <<>>, << OptRR(0, << Opt(12, [Padding |-> Rep(7, 0)]) >>) >>) >>

\* a long opaque record pushes the following names across offset 16384, where pointers stop reaching
PadMsg(pad) ==
  Msg(H0, <<Q1>>,
      << RR(Www, 10, 1, Ttl1h, [Data |-> Rep(pad, 170)]),
         RR(Mail, 15, 1, Ttl1h, [Preference |-> 10, Mx |-> Www]),
         RR(Mail, 15, 1, Ttl1h, [Preference |-> 20, Mx |-> << <<109, 120>> >> \o Mail]),
         RR(<< <<109, 120>> >> \o Mail, 1, 1, Ttl1h, [A |-> <<192, 0, 2, 1>>]) >>, <<>>, <<>>)

(* The empty-list boundary: for every type and every field that holds a LIST (strings, names, *)
(* types, options, SvcParams, APL items, optional string) the record with that list empty and *)
(* every other field at its baseline.  A record whose only field is such a list has empty     *)
(* RDATA: the same octets as the RDATA-less form.  v = <<type, field index>>.                 *)
ListKinds == {"strs", "names", "bitmap", "bitmap0", "opts", "svcb", "apl", "ostr"}
EmptyMsg(t, i) == LET es == FieldsOf(t) IN One1(t, With(es, i, <<>>))

(* Sets that travel in canonical order (type bitmaps, SvcParams, mandatory keys): the *)
(* same set is handed to the packer in several orders -- increasing, decreasing, and   *)
(* increasing with one adjacent pair exchanged (every position, first and last pair    *)
(* included) -- for sets of 2, 3 and 4 elements.  WireRR gives them all one encoding.  *)
SwapAt(s, i) == [j \in 1..Len(s) |-> IF j = i THEN s[i + 1] ELSE IF j = i + 1 THEN s[i] ELSE s[j]]
InOrder(s, o) == IF o = 0 THEN s ELSE IF o = -1 THEN Reverse(s) ELSE SwapAt(s, o)      \* s is increasing
OrdersOf(s)   == {0, -1} \cup 1..(Len(s) - 1)
MandSets   == << <<1, 4>>, <<1, 3>>, <<3, 65280>>, <<1, 3, 4>>, <<1, 4, 6>>, <<1, 3, 4, 6>>, <<1, 4, 7, 65280>> >>
ParamSets  == << <<1, 3>>, <<1, 4>>, <<0, 1>>, <<1, 3, 4>>, <<2, 7, 65280>>, <<1, 3, 4, 6>>, <<2, 7, 65280, 65534>> >>
TypeSets   == << <<1, 2>>, <<1, 15>>, <<1, 257>>, <<1, 2, 5>>, <<1, 15, 46>>, <<1, 257, 513>>, <<15, 16, 17>>,
                 <<1, 2, 15, 46>>, <<1, 15, 257, 513>>, <<6, 255, 256, 65535>>, <<7, 8, 9, 10>> >>
OrderSets(kind) == IF kind = 1 THEN MandSets ELSE IF kind = 2 THEN ParamSets ELSE TypeSets
OrdersMsg(kind, x, o) ==
  LET set == OrderSets(kind)[x] IN
  CASE kind = 1 ->     \* the mandatory list out of order, the parameters it names in order
         Msg(H0, <<>>, << SvcbRR(64, 1, NameA, << Par(0, [Code |-> InOrder(set, o)]) >> \o [i \in 1..Len(set) |-> BasePar(set[i])]) >>, <<>>, <<>>)
    [] kind = 2 ->     \* the parameters out of order
         Msg(H0, <<>>, << SvcbRR(65, 1, NameA, InOrder([i \in 1..Len(set) |-> BasePar(set[i])], o)) >>, <<>>, <<>>)
    [] OTHER ->        \* 3 NSEC, 4 NSEC3, 5 CSYNC: the type list out of order
         LET t == IF kind = 3 THEN 47 ELSE IF kind = 4 THEN 50 ELSE 62
             es == FieldsOf(t) IN
         One1(t, With(es, CHOOSE i \in 1..Len(es) : es[i].k = "bitmap", InOrder(set, o)))

-----------------------------------------------------------------------------
InShard(x) == x % NShards = Shard

Init ==
  \/ Mode = "layout" /\ v = <<0>>
  \/ Mode = "types" /\ \E x \in 1..Len(TypeCodes) :
        LET t == TypeCodes[x]  es == FieldsOf(t) IN
        /\ InShard(x)
        /\ \/ v = <<t, 0, 0>>
           \/ \E i \in 1..Len(es) : \E j \in 1..Len(Choices(es, i)) : v = <<t, i, j>>
  \/ Mode = "cross" /\ \E x \in 1..Len(TypeCodes) :
        LET t == TypeCodes[x]  es == FieldsOf(t)  fi == FreeIdx(es) IN
        /\ InShard(x) /\ Len(fi) = 2
        /\ \E j1 \in 1..Len(Choices(es, fi[1])), j2 \in 1..Len(Choices(es, fi[2])) : v = <<t, j1, j2>>
  \/ Mode = "rrhdr" /\ \/ \E j \in 1..Len(NameBnd) : v = <<1, j>> \/ v = <<4, j>>
                       \/ \E j \in 1..Len(ClassBnd) : v = <<2, j>>
                       \/ \E j \in 1..Len(TtlBnd) : v = <<3, j>>
  \/ Mode = "opts" /\ \/ \E x \in 1..Len(OptCodes) :
                           LET c == OptCodes[x]  es == OptLayoutOf(c) IN
                           IF c = 8 THEN \E j \in 1..Len(SubnetCases) : v = <<8, 0, j>>
                           ELSE \/ v = <<c, 0, 0>>
                                \/ \E i \in 1..Len(es) : \E j \in 1..Len(Choices(es, i)) : v = <<c, i, j>>
                      \/ v = <<-1, 0, 0>>                              \* every option in one OPT record
  \/ Mode = "svcb" /\ \/ \E x \in 1..Len(SvcbKeys) :
                           LET k == SvcbKeys[x]  es == SvcbLayoutOf(k) IN
                           \/ v = <<k, 0, 0>>
                           \/ \E i \in 1..Len(es) : \E j \in 1..Len(Choices(es, i)) : v = <<k, i, j>>
                      \/ v = <<-1, 0, 0>> \/ v = <<-2, 0, 0>>          \* all keys in key order / in reverse order
  \/ Mode = "gateway" /\ \E t \in {45, 260}, g \in 0..3, d \in 0..1 : \E x \in 1..(IF g = 3 THEN Len(GwNames) ELSE 1) : v = <<t, g, d, x>>
  \/ Mode = "nodata" /\ \E t \in (DOMAIN Layout \ {41}) \cup Range(UnknownCodes), c \in {254, 255} : InShard(t) /\ v = <<t, c>>
  \/ Mode = "unknown" /\ \/ \E x \in 1..Len(UnknownCodes), j \in 1..Len(BlobBnd(300)) : v = <<UnknownCodes[x], j>>
                         \/ \E t \in {11, 65280, 65281}, n \in 2..4 : v = <<t, 100 + n>>
  \/ Mode = "hdr" /\ \E w \in (IF Tier = 0 THEN HdrWordsQuick ELSE 0..65535), s \in 0..1 : InShard(w) /\ v = <<w, s>>
  \/ Mode = "rcode" /\ \E rc \in (IF Tier = 0 THEN RcodesQuick ELSE 0..4096), s \in 0..2 : InShard(rc) /\ v = <<rc, s>>
  \/ Mode = "sections" /\ \E a \in 0..3, b \in 0..3, c \in 0..3, d \in 0..3 : InShard(a + b + c + d) /\ v = <<a, b, c, d>>
  \/ Mode = "big" /\ \E x \in 1..6 : InShard(x) /\ v = <<x>>
  \/ Mode = "compress" /\ \/ \E x \in 1..Len(CompressCases) : InShard(x) /\ v = <<1, x>>
                          \/ \E pad \in (IF Tier = 0 THEN {16320, 16334, 16337, 16338, 16339, 16345, 16350, 16355, 16370}
                                                        ELSE 16300..16400) : InShard(pad) /\ v = <<2, pad>>
  \/ Mode = "empty" /\ \E x \in 1..Len(TypeCodes) : \E i \in 1..Len(FieldsOf(TypeCodes[x])) :
                         FieldsOf(TypeCodes[x])[i].k \in ListKinds /\ v = <<TypeCodes[x], i>>
  \/ Mode = "orders" /\ \E kind \in 1..5 : \E x \in 1..Len(OrderSets(kind)) : \E o \in OrdersOf(OrderSets(kind)[x]) :
                          InShard(x) /\ v = <<kind, x, o>>
Next == UNCHANGED v

Case ==
  CASE Mode = "types"    -> TypesMsg(v[1], v[2], v[3])
    [] Mode = "cross"    -> CrossMsg(v[1], v[2], v[3])
    [] Mode = "rrhdr"    -> RRHdrMsg(v[1], v[2])
    [] Mode = "opts"     -> IF v[1] = -1 THEN Msg(H0, <<Q1>>, <<>>, <<>>, << OptRR(0, AllOptions) >>) ELSE OptsMsg(v[1], v[2], v[3])
    [] Mode = "svcb"     -> IF v[1] = -1 THEN Msg(H0, <<>>, << SvcbRR(64, 16, NameWww, AllParams) >>, <<>>, <<>>)
                            ELSE IF v[1] = -2 THEN Msg(H0, <<>>, << SvcbRR(65, 16, NameWww, Reverse(AllParams)) >>, <<>>, <<>>)
                            ELSE SvcbMsg(v[1], v[2], v[3])
    [] Mode = "gateway"  -> GatewayMsg(v[1], v[2], v[3], v[4])
    [] Mode = "nodata"   -> NodataMsg(v[1], v[2])
    [] Mode = "unknown"  -> UnknownMsg(v[1], v[2])
    [] Mode = "hdr"      -> HdrMsg(v[1], v[2])
    [] Mode = "rcode"    -> RcodeMsg(v[1], v[2])
    [] Mode = "sections" -> SectionsMsg(v[1], v[2], v[3], v[4])
    [] Mode = "big"      -> BigMsg(v[1])
    [] Mode = "compress" -> IF v[1] = 1 THEN CompressCases[v[2]] ELSE PadMsg(v[2])
    [] Mode = "orders"   -> OrdersMsg(v[1], v[2], v[3])
    [] Mode = "empty"    -> EmptyMsg(v[1], v[2])

\* the only deliberately ill-formed cases: RCODE 4096, RDATA of 65536 octets
MayBeIllFormed == (Mode = "rcode" /\ v[1] > 4095) \/ (Mode = "big" /\ v[1] = 4)

Vector(m) ==
  LET wf   == WFMsg(m)
      ok   == wf /\ Packable(m)
      base == [g |-> Mode, v |-> v, msg |-> m, ok |-> ok,
               bytes |-> IF ok THEN EncMsg(m) ELSE <<>>,
               rroff |-> IF ok THEN RROffsets(m) ELSE <<>>,
               lenmsg |-> IF wf THEN LenMsg(m) ELSE 0,
               plain |-> wf /\ PlainMsg(m),
               refuse |-> wf /\ MayRefuse(m)]        \* AMBIG: Pack() may refuse this value instead of packing it
  IN IF ok /\ NormMsg(m) # m THEN base @@ [norm |-> NormMsg(m)] ELSE base

Fld(e) == IF "sz" \in DOMAIN e THEN [n |-> e.n, k |-> e.k, sz |-> e.sz]
          ELSE IF e.k = "gateway" THEN [n |-> e.n, k |-> e.k, of |-> e.of, mod |-> e.mod, addr |-> e.addr]
          ELSE IF "flag" \in DOMAIN e THEN [n |-> e.n, k |-> e.k, flag |-> e.flag]
          ELSE [n |-> e.n, k |-> e.k]
Flds(es) == [i \in 1..Len(es) |-> Fld(es[i])]
OptCodesSorted == SortedSeq(DOMAIN OptLayout)
SvcbKeysSorted == SortedSeq(DOMAIN SvcbLayout)
LayoutExport ==
  [types   |-> [x \in 1..Len(TypeCodes) |-> [t |-> TypeCodes[x], name |-> Layout[TypeCodes[x]].name, fields |-> Flds(Layout[TypeCodes[x]].fields)]],
   unknown |-> Flds(UnknownLayout.fields),
   opts    |-> [x \in 1..Len(OptCodesSorted) |-> [t |-> OptCodesSorted[x], fields |-> Flds(OptLayout[OptCodesSorted[x]])]],
   optdefault |-> Flds(OptLayoutOf(-1)),
   svcb    |-> [x \in 1..Len(SvcbKeysSorted) |-> [t |-> SvcbKeysSorted[x], fields |-> Flds(SvcbLayout[SvcbKeysSorted[x]])]],
   svcbdefault |-> Flds(SvcbLayoutOf(-1))]

Out ==
  IF Mode = "layout" THEN Emit(LayoutExport)
  ELSE LET m == Case IN
       /\ Assert(MayBeIllFormed \/ WFMsg(m), <<"ill-formed vector", Mode, v>>)
       /\ Emit(Vector(m))
=============================================================================
