CONSTANTS
  MaxLabel = 63
  MaxName = 255
INIT PInit
NEXT PNext
INVARIANT POut
