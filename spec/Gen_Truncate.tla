---------------------------- MODULE Gen_Truncate ----------------------------
(* The universe of (reply shape, size selector) cases for C09.  The harness    *)
(* builds each reply from the record shapes, resolves the selector to a number *)
(* with the real Pack (exact packed length of a prefix -1/0/+1 ...), runs the  *)
(* real Truncate and records the facts that Trace_Truncate judges.             *)
EXTENDS GenBase, FiniteSets

CONSTANTS MaxAn, MaxNs, MaxAr, Shard, NShards

VARIABLE v

Shapes == 1..6      \* 1: A a.example.org.  2: NS example.org. -> ns1.example.org.  3: TXT 200 octets
                    \* 4: TXT 250 octets, unrelated owner  5: MX with a long unshared exchange name
                    \* 6: TXT of 3 x 200 octets under the question's zone: alone it exceeds 512, and its owner compresses
Sec(mx) == UNION { [1..k -> Shapes] : k \in 0..mx }
Sel(n) == { [kind |-> "abs", v |-> x, d |-> 0] : x \in {0, 511, 512, 513, 65535} }
          \cup { [kind |-> "prefix", v |-> k, d |-> d] : k \in 0..n, d \in {-1, 0, 1} }    \* compressed length of the first k records + OPT
          \cup { [kind |-> "ulen", v |-> 0, d |-> d] : d \in {-1, 0, 1} }                  \* uncompressed length of the whole reply

\* a unique index per case (mixed radix), so that shards are uniform samples
Num(q) == IF Len(q) = 0 THEN 0 ELSE IF Len(q) = 1 THEN q[1] ELSE 7 + q[1] + 7 * (q[2] - 1)
SelIdx(x) == CASE x.kind = "abs" -> (CASE x.v = 0 -> 0 [] x.v = 511 -> 1 [] x.v = 512 -> 2 [] x.v = 513 -> 3 [] OTHER -> 4)
               [] x.kind = "prefix" -> 5 + 3 * x.v + (x.d + 1)
               [] OTHER -> 40 + (x.d + 1)
B2N(b) == IF b THEN 1 ELSE 0
Hash(c) == (Num(c.an) + 57 * (Num(c.ns) + 57 * (Num(c.ar) + 57 * (c.opt + 3 * (c.optpos + 3 * (B2N(c.tc) + 2 * (B2N(c.compress) + 2 * SelIdx(c.sel)))))))) % NShards

Init == \E an \in Sec(MaxAn), ns \in Sec(MaxNs), ar \in Sec(MaxAr), opt \in 0..2, tc \in BOOLEAN, comp \in BOOLEAN :
          \E optpos \in 0..(IF opt = 0 THEN 0 ELSE Len(ar)), sel \in Sel(Len(an) + Len(ns) + Len(ar)) :
            /\ v = [an |-> an, ns |-> ns, ar |-> ar, opt |-> opt, optpos |-> optpos, tc |-> tc, compress |-> comp, sel |-> sel]
            /\ Hash(v) = Shard
Next == UNCHANGED v
Out == Emit(v)
=============================================================================
