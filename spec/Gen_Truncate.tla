---------------------------- MODULE Gen_Truncate ----------------------------
(* The universe of (reply shape, size selector) cases for C09.  The harness    *)
(* builds each reply from the record shapes, resolves the selector to a number *)
(* with the real Pack (exact packed length of a prefix -1/0/+1 ...), runs the  *)
(* real Truncate and records the facts that Trace_Truncate judges.             *)
EXTENDS GenBase, FiniteSets

CONSTANTS MaxAn, MaxNs, MaxAr, Shard, NShards,
          Mode        \* "base": the OPT is one of four fixed ones; "opts": the OPT is drawn from the option universe below

VARIABLE v

Shapes == 1..7      \* 1: A a.example.org.  2: NS example.org. -> ns1.example.org.  3: TXT 200 octets
                    \* 4: TXT 250 octets, unrelated owner  5: MX with a long unshared exchange name
                    \* 6: TXT of 3 x 200 octets under the question's zone: alone it exceeds 512, and its owner compresses
                    \* 7: RRSIG of about 300 octets whose signer name (not compressible) is a suffix of names seen before
Sec(mx) == UNION { [1..k -> Shapes] : k \in 0..mx }
Sel(n) == { [kind |-> "abs", v |-> x, d |-> 0] : x \in {0, 511, 512, 513, 65535} }
          \cup { [kind |-> "prefix", v |-> k, d |-> d] : k \in 0..n, d \in {-1, 0, 1} }    \* compressed length of the first k records + OPT
          \cup { [kind |-> "ulen", v |-> 0, d |-> d] : d \in {-1, 0, 1} }                  \* uncompressed length of the whole reply

\* a unique index per case (mixed radix), so that shards are uniform samples
Num(q) == IF Len(q) = 0 THEN 0 ELSE IF Len(q) = 1 THEN q[1] ELSE 8 + q[1] + 8 * (q[2] - 1)
SelIdx(x) == CASE x.kind = "abs" -> (CASE x.v = 0 -> 0 [] x.v = 511 -> 1 [] x.v = 512 -> 2 [] x.v = 513 -> 3 [] OTHER -> 4)
               [] x.kind = "prefix" -> 5 + 3 * x.v + (x.d + 1)
               [] OTHER -> 40 + (x.d + 1)
B2N(b) == IF b THEN 1 ELSE 0
\* Two-level sharding, so that TLC prunes early instead of enumerating the whole universe for every shard:
\* the (answer, authority) pair selects on Shard % K1, the rest on (Shard \div K1) % K2, NShards = K1 * K2.
K1 == 43
K2 == NShards \div K1
Outer(an, ns) == (Num(an) + 73 * Num(ns)) % K1
Inner(c) == (Num(c.ar) + 73 * (c.opt + 4 * (c.optpos + 3 * (B2N(c.tc) + 2 * (B2N(c.compress) + 2 * (c.q + 5 * SelIdx(c.sel))))))) % K2

\* q: question section 0 = one ordinary question, 1 = none, 2 = two questions, 3 = one question of 181 octets, 4 = one of 211 octets
\* opt: 0 none, 1 bare, 2 with two options, 3 with a 300-octet padding option (with q = 3 header+question+OPT reach 512),
\*      4 (mode "opts") with the options listed in field oo
InitBase == \E an \in Sec(MaxAn), ns \in Sec(MaxNs) :
          /\ Outer(an, ns) = (Shard % K1)
          /\ \E ar \in Sec(MaxAr), opt \in 0..3, tc \in BOOLEAN, comp \in BOOLEAN, q \in 0..4 :
               \E optpos \in 0..(IF opt = 0 THEN 0 ELSE Len(ar)), sel \in Sel(Len(an) + Len(ns) + Len(ar)) :
                 /\ v = [an |-> an, ns |-> ns, ar |-> ar, opt |-> opt, optpos |-> optpos, tc |-> tc, compress |-> comp, q |-> q, sel |-> sel]
                 /\ Inner(v) = ((Shard \div K1) % K2)

-----------------------------------------------------------------------------
(* Mode "opts": the OPT record is drawn from the universe of EDNS0 options the  *)
(* library knows, with boundary parameters.  What matters for C09 is that the  *)
(* wire length of several of them is NOT a fixed function of the lengths of    *)
(* the Go struct's fields (a client subnet packs ceil(netmask/8) address       *)
(* octets of its 4/16, an empty EXPIRE and a zero TCP keep-alive pack nothing, *)
(* UL drops a zero key lease, NSID/COOKIE are hex text of twice the length,    *)
(* the reporting agent is a domain name ...), while Truncate reserves room for *)
(* the OPT with Len().  An option is [k, a, b]; the harness gives the meaning: *)
(*   subnet  a = family (0, 1, 2), b = source netmask                          *)
(*   nsid / cookie / padding / esu   a = octets of data                        *)
(*   ul      a = lease, b = key lease (0: not on the wire)                     *)
(*   llq     a = opcode, b = lease life (always 18 octets)                     *)
(*   dau / dhu / n3u   a = number of algorithm codes                           *)
(*   expire  a = value, b = 1: the empty form                                  *)
(*   keepalive  a = timeout (0: no octets)                                     *)
(*   ede     a = info code, b = octets of extra text                           *)
(*   local   a = option code, b = octets of data                               *)
(*   reporting  a = 0: agent ".", 1: "agent.example.org.", 2: the same without the final dot *)
(*   zoneversion  a = label count, b = octets of version                       *)
O(k, a, b) == [k |-> k, a |-> a, b |-> b]
Subnets == { O("subnet", 1, mk) : mk \in {0, 1, 7, 8, 9, 15, 16, 17, 20, 24, 25, 31, 32} }
           \cup { O("subnet", 2, mk) : mk \in {0, 1, 8, 48, 56, 63, 64, 65, 120, 127, 128} }
           \cup { O("subnet", 0, 0) }
Others == { O("nsid", n, 0) : n \in {0, 1, 5, 64} } \cup { O("cookie", n, 0) : n \in {8, 16, 24, 40} }
          \cup { O("ul", 3600, kl) : kl \in {0, 1, 7200} } \cup { O("llq", 1, 0), O("llq", 2, 3600) }
          \cup { O(k, n, 0) : k \in {"dau", "dhu", "n3u"}, n \in {0, 1, 3} }
          \cup { O("expire", 0, 0), O("expire", 86400, 0), O("expire", 0, 1), O("expire", 86400, 1) }
          \cup { O("keepalive", t, 0) : t \in {0, 1, 600, 65535} }
          \cup { O("padding", n, 0) : n \in {0, 1, 17, 128} }
          \cup { O("ede", c, n) : c \in {0, 18}, n \in {0, 1, 30} }
          \cup { O("esu", n, 0) : n \in {0, 20} }
          \cup { O("local", c, n) : c \in {65001, 65534}, n \in {0, 7} }
          \cup { O("reporting", a, 0) : a \in {0, 1, 2} }
          \cup { O("zoneversion", 2, n) : n \in {0, 4} }
Options == Subnets \cup Others
\* the option lists: every option alone, every option before and after a fixed neighbour (the 4 octets of code + length
\* are per option), a client subnet between two others
OptLists == { <<o>> : o \in Options }
            \cup { <<o, O("cookie", 8, 0)>> : o \in Options } \cup { <<O("ede", 18, 1), o>> : o \in Options }
            \cup { <<O("nsid", 5, 0), s, O("keepalive", 0, 0)>> : s \in Subnets }

\* the size selectors of this mode: the absolute sizes 0 / 511 / 513 / 65535 say nothing new about the options
SelO(n) == { x \in Sel(n) : x.kind = "abs" => x.v = 512 }

\* sharding in this mode: the option list and the size selector are NOT sharded - every shard holds every option list
\* x every selector on its share of (sections, OPT position, flags, question section)
Pair(an, ns) == Num(an) + 64 * Num(ns)
QIdx(q) == CASE q = 0 -> 0 [] q = 1 -> 1 [] OTHER -> 2
InnerO(c) == Num(c.ar) + 64 * (c.optpos + 3 * (B2N(c.tc) + 2 * (B2N(c.compress) + 2 * QIdx(c.q))))
InitOpts == \E an \in Sec(MaxAn), ns \in Sec(MaxNs) :
              /\ (Pair(an, ns) % K1) = (Shard % K1)
              /\ \E ar \in Sec(MaxAr), tc \in BOOLEAN, comp \in BOOLEAN, q \in {0, 1, 3} :
                   \E optpos \in 0..Len(ar) :
                     LET c == [an |-> an, ns |-> ns, ar |-> ar, optpos |-> optpos, tc |-> tc, compress |-> comp, q |-> q] IN
                     /\ ((InnerO(c) + 37 * (Pair(an, ns) \div K1)) % K2) = ((Shard \div K1) % K2)
                     /\ \E oo \in OptLists, sel \in SelO(Len(an) + Len(ns) + Len(ar)) :
                          v = [an |-> an, ns |-> ns, ar |-> ar, opt |-> 4, oo |-> oo, optpos |-> optpos, tc |-> tc,
                               compress |-> comp, q |-> q, sel |-> sel]

Init == IF Mode = "opts" THEN InitOpts ELSE InitBase
Next == UNCHANGED v
Out == Emit(v)
=============================================================================
