---------------------------- MODULE Gen_Truncate ----------------------------
(* The universe of (reply shape, size selector) cases for C09.  The harness    *)
(* builds each reply from the record shapes, resolves the selector to a number *)
(* with the real Pack (exact packed length of a prefix -1/0/+1 ...), runs the  *)
(* real Truncate and records the facts that Trace_Truncate judges.             *)
EXTENDS GenBase, FiniteSets

CONSTANTS MaxAn, MaxNs, MaxAr, Shard, NShards

VARIABLE v

Shapes == 1..7      \* 1: A a.example.org.  2: NS example.org. -> ns1.example.org.  3: TXT 200 octets
                    \* 4: TXT 250 octets, unrelated owner  5: MX with a long unshared exchange name
                    \* 6: TXT of 3 x 200 octets under the question's zone: alone it exceeds 512, and its owner compresses
                    \* 7: RRSIG of about 300 octets whose signer name (not compressible) is a suffix of names seen before
Sec(mx) == UNION { [1..k -> Shapes] : k \in 0..mx }
Sel(n) == { [kind |-> "abs", v |-> x, d |-> 0] : x \in {0, 511, 512, 513, 65535} }
          \cup { [kind |-> "prefix", v |-> k, d |-> d] : k \in 0..n, d \in {-1, 0, 1} }    \* compressed length of the first k records + OPT
          \cup { [kind |-> "ulen", v |-> 0, d |-> d] : d \in {-1, 0, 1} }                  \* uncompressed length of the whole reply

\* a unique index per case (mixed radix), so that shards are uniform samples
Num(q) == IF Len(q) = 0 THEN 0 ELSE IF Len(q) = 1 THEN q[1] ELSE 8 + q[1] + 8 * (q[2] - 1)
SelIdx(x) == CASE x.kind = "abs" -> (CASE x.v = 0 -> 0 [] x.v = 511 -> 1 [] x.v = 512 -> 2 [] x.v = 513 -> 3 [] OTHER -> 4)
               [] x.kind = "prefix" -> 5 + 3 * x.v + (x.d + 1)
               [] OTHER -> 40 + (x.d + 1)
B2N(b) == IF b THEN 1 ELSE 0
\* Two-level sharding, so that TLC prunes early instead of enumerating the whole universe for every shard:
\* the (answer, authority) pair selects on Shard % K1, the rest on (Shard \div K1) % K2, NShards = K1 * K2.
K1 == 43
K2 == NShards \div K1
Outer(an, ns) == (Num(an) + 73 * Num(ns)) % K1
Inner(c) == (Num(c.ar) + 73 * (c.opt + 4 * (c.optpos + 3 * (B2N(c.tc) + 2 * (B2N(c.compress) + 2 * (c.q + 5 * SelIdx(c.sel))))))) % K2

\* q: question section 0 = one ordinary question, 1 = none, 2 = two questions, 3 = one question of 181 octets, 4 = one of 211 octets
\* opt: 0 none, 1 bare, 2 with two options, 3 with a 300-octet padding option (with q = 3 header+question+OPT reach 512)
Init == \E an \in Sec(MaxAn), ns \in Sec(MaxNs) :
          /\ Outer(an, ns) = (Shard % K1)
          /\ \E ar \in Sec(MaxAr), opt \in 0..3, tc \in BOOLEAN, comp \in BOOLEAN, q \in 0..4 :
               \E optpos \in 0..(IF opt = 0 THEN 0 ELSE Len(ar)), sel \in Sel(Len(an) + Len(ns) + Len(ar)) :
                 /\ v = [an |-> an, ns |-> ns, ar |-> ar, opt |-> opt, optpos |-> optpos, tc |-> tc, compress |-> comp, q |-> q, sel |-> sel]
                 /\ Inner(v) = ((Shard \div K1) % K2)
Next == UNCHANGED v
Out == Emit(v)
=============================================================================
