---------------------------- MODULE Trace_Fields ----------------------------
(* Events recorded by harness `fields record` over the vector sets of           *)
(* Gen_WireRR, judged by Fields.tla.                                            *)
(*  numfield [t, n]                        NumField of a record of type t       *)
(*  field    [t, i, name, val, sel, panic, text]                                *)
(*           Field(rr, i): name = the Go name of the struct field at i (""      *)
(*           outside), val = the abstract value the record was made from for    *)
(*           that field (WireRR's shape; for a gateway field the gateway's      *)
(*           value and sel = selector % modulus), what came back                *)
EXTENDS Fields, TraceBase

VARIABLE l
Ev == Trace[l]

Judge(e) ==
  CASE e.ev = "numfield" -> e.n = NumField(e.t)
    [] e.ev = "field"    -> FieldOK(e.t, e.i, [n |-> e.name], e.val, e.sel, [panic |-> e.panic, text |-> e.text])
    [] OTHER -> FALSE

Init == l = 1 /\ HWInit
Next == /\ l <= Len(Trace)
        /\ IF Judge(Ev) THEN TRUE ELSE MarkBad(l)
        /\ HW(l)
        /\ l' = l + 1
=============================================================================
