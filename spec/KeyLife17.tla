----------------------------- MODULE KeyLife17 -----------------------------
(* Property C17, key life cycle: Generate -> Export (PrivateKeyString) ->      *)
(* Import (NewPrivateKey / ReadPrivateKey) -> Sign / Verify over ABSTRACT key  *)
(* identities.  A private-key handle is either fresh from Generate(k) or read  *)
(* back from a text; a text was either exported from a handle (and remembers   *)
(* it) or PROVIDED: written elsewhere (BIND, another implementation) for a key *)
(* pair k whose DNSKEY is known.  The identity of a handle is found by following that provenance back  *)
(* to the Generate: a signature verifies under the DNSKEY of k exactly when    *)
(* the signing handle descends from Generate(k), however many export/import    *)
(* cycles lie in between.                                                      *)
(* Relay: a text is kept in a file, a secret store, another tool, and comes    *)
(* back in another LAYOUT (Dnssec17!KFLayouts: format version line, timing     *)
(* fields, empty lines, the newline after the last line ...) with the same     *)
(* fields.  The copy denotes the key the original denotes: the layout of a     *)
(* text never decides which key an import yields.                              *)
EXTENDS Integers, Sequences, FiniteSets, TLC

CONSTANTS Keys,      \* key identities, 1..n
          MaxOps,    \* bound on the length of a behaviour (MC / Gen only)
          Layouts    \* the layouts a relayed text may come back in (opaque here)

VARIABLES hs,        \* private-key handles: [origin |-> "gen", key |-> k] | [origin |-> "imp", text |-> j]
          ts,        \* private-key texts:   [from |-> handle index, key |-> 0] exported | [from |-> 0, key |-> k] provided;
                     \*                       copy |-> 0, or the text this one is a relayed copy of
          ss,        \* signatures:          [by |-> handle index]
          hist       \* the operations so far, with the results of the verifications

vars == <<hs, ts, ss, hist>>

RECURSIVE KeyOfH(_, _, _)
KeyOfH(H, T, i) == IF H[i].origin = "gen" THEN H[i].key
                   ELSE IF T[H[i].text].from = 0 THEN T[H[i].text].key
                   ELSE KeyOfH(H, T, T[H[i].text].from)
KeyOf(i) == KeyOfH(hs, ts, i)
Generated  == { hs[i].key : i \in { j \in 1..Len(hs) : hs[j].origin = "gen" } }
Provided   == { ts[j].key : j \in { x \in 1..Len(ts) : ts[x].from = 0 } }
Introduced == Generated \cup Provided        \* the key pairs whose DNSKEY exists

Init == hs = <<>> /\ ts = <<>> /\ ss = <<>> /\ hist = <<>>

Generate(k) ==
  /\ k \notin Introduced
  /\ hs' = Append(hs, [origin |-> "gen", key |-> k])
  /\ hist' = Append(hist, [op |-> "gen", key |-> k])
  /\ UNCHANGED <<ts, ss>>
Provide(k) ==                          \* a private-key text for key pair k arrives from elsewhere
  /\ k \notin Introduced
  /\ ts' = Append(ts, [from |-> 0, key |-> k, copy |-> 0])
  /\ hist' = Append(hist, [op |-> "provide", key |-> k])
  /\ UNCHANGED <<hs, ss>>
Export(i) ==
  /\ i \in 1..Len(hs)
  /\ ts' = Append(ts, [from |-> i, key |-> 0, copy |-> 0])
  /\ hist' = Append(hist, [op |-> "export", h |-> i])
  /\ UNCHANGED <<hs, ss>>
Relay(j, lay) ==                       \* text j comes back from a store in layout lay: same fields, same key
  /\ j \in 1..Len(ts)
  /\ lay \in Layouts
  /\ ts' = Append(ts, [from |-> ts[j].from, key |-> ts[j].key, copy |-> j])
  /\ hist' = Append(hist, [op |-> "relay", t |-> j, lay |-> lay])
  /\ UNCHANGED <<hs, ss>>
\* The ways a text reaches the library; all mean the same.  "new" = NewPrivateKey(string); the others = ReadPrivateKey
\* from an io.Reader: "read" one that also reads single octets (strings.Reader: io.ByteReader), "readplain" one that does
\* not (a file: the library buffers it), "read1" one that delivers one octet per Read, "readeof" one that returns the last
\* octets together with io.EOF.  How the octets arrive never decides which key an import yields.
Apis == {"new", "read", "readplain", "read1", "readeof"}
Import(j, api) ==
  /\ j \in 1..Len(ts)
  /\ api \in Apis
  /\ hs' = Append(hs, [origin |-> "imp", text |-> j])
  /\ hist' = Append(hist, [op |-> "import", t |-> j, api |-> api])
  /\ UNCHANGED <<ts, ss>>
Sign(i) ==
  /\ i \in 1..Len(hs)
  /\ ss' = Append(ss, [by |-> i])
  /\ hist' = Append(hist, [op |-> "sign", h |-> i])
  /\ UNCHANGED <<hs, ts>>
VerifyResult(k, j) == KeyOf(ss[j].by) = k
Verify(k, j) ==
  /\ k \in Introduced
  /\ j \in 1..Len(ss)
  /\ hist' = Append(hist, [op |-> "verify", key |-> k, s |-> j, ok |-> VerifyResult(k, j)])
  /\ UNCHANGED <<hs, ts, ss>>

\* bounded behaviours; key identities are generated in order (symmetry)
Next ==
  /\ Len(hist) < MaxOps
  /\ \/ \E k \in Keys : k = Cardinality(Introduced) + 1 /\ Generate(k)
     \/ \E k \in Keys : k = Cardinality(Introduced) + 1 /\ Provide(k)
     \/ \E i \in 1..Len(hs) : Export(i)
     \/ \E j \in 1..Len(ts), lay \in Layouts : Relay(j, lay)
     \/ \E j \in 1..Len(ts), api \in {"new", "read"} : Import(j, api)
     \/ \E i \in 1..Len(hs) : Sign(i)
     \/ \E k \in Keys, j \in 1..Len(ss) : Verify(k, j)

-----------------------------------------------------------------------------
TypeOK ==
  /\ \A i \in 1..Len(hs) : IF hs[i].origin = "gen" THEN hs[i].key \in Keys ELSE hs[i].text \in 1..Len(ts)
  /\ \A j \in 1..Len(ts) : IF ts[j].from = 0 THEN ts[j].key \in Keys ELSE ts[j].from \in 1..Len(hs)
  /\ \A j \in 1..Len(ts) : ts[j].copy \in 0..(j - 1)
  /\ \A j \in 1..Len(ss) : ss[j].by \in 1..Len(hs)
\* provenance is well-founded and ends in a generated key
Rooted == \A i \in 1..Len(hs) : KeyOf(i) \in Introduced /\ (hs[i].origin = "imp" => ts[hs[i].text].from < i)
\* interchangeability: a handle and every handle read back from one of its exports have one identity
Interchangeable ==
  \A i \in 1..Len(hs) : hs[i].origin = "imp" =>
     LET t == ts[hs[i].text] IN KeyOf(i) = (IF t.from = 0 THEN t.key ELSE KeyOf(t.from))
\* the layout of a text is irrelevant: a relayed copy, and every handle read from it, is the key of the original
TextKey(j) == IF ts[j].from = 0 THEN ts[j].key ELSE KeyOf(ts[j].from)
LayoutIrrelevant ==
  /\ \A j \in 1..Len(ts) : ts[j].copy # 0 => TextKey(j) = TextKey(ts[j].copy)
  /\ \A i \in 1..Len(hs) : hs[i].origin = "imp" => KeyOf(i) = TextKey(hs[i].text)
\* every recorded verification succeeded iff the signer descends from that key; distinct keys never verify each other
VerifyIffSameKey ==
  \A n \in 1..Len(hist) : hist[n].op = "verify" =>
     (hist[n].ok <=> KeyOf(ss[hist[n].s].by) = hist[n].key)
=============================================================================
