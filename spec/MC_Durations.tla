----------------------------- MODULE MC_Durations -----------------------------
(* Durations.tla on itself: number x unit against plain integer arithmetic where *)
(* it fits, additivity, case, the 2^32 / 2^64 boundaries; every TYPEnnn / CLASSnnn*)
(* code; hex round trip of generic RDATA; the mnemonic table is injective.       *)
EXTENDS Durations

VARIABLES kind, n

Init == \/ kind = "num"  /\ n \in 0..3550
        \/ kind = "code" /\ n \in 0..65536
        \/ kind = "once" /\ n = 0
Next == UNCHANGED <<kind, n>>

Units == << <<115>>, <<77>>, <<104>>, <<68>>, <<119>> >>        \* s M h D w
Mult  == << 1, 60, 3600, 86400, 604800 >>
Ok(v) == { << TRUE, << v \div 65536, v % 65536 >> >> }

NumInv ==
  kind = "num" =>
    /\ TTLAdm(DecN(n)) = Ok(n)
    /\ \A u \in 1..5 : TTLAdm(DecN(n) \o Units[u]) = Ok(n * Mult[u])
    /\ \A u \in 1..5 : TTLAdm(DecN(n) \o Units[u]) = TTLAdm(DecN(n) \o UpperT(Units[u]))
    /\ (n <= 59 => TTLAdm(DecN(n) \o <<104>> \o DecN(n) \o <<109>> \o DecN(n)) = Ok(n * 3661))       \* nhnmn
    /\ TTLAdm(<<48, 48>> \o DecN(n)) = Ok(n)                                                        \* leading zeros of a number
    /\ TTLAdm(DecN(n) \o <<120>>) = { No } /\ TTLAdm(<<45>> \o DecN(n)) = { No } /\ TTLAdm(DecN(n) \o <<46, 53>>) = { No }
    /\ TTLAdm(DecN(n) \o <<104, 109>>) = { No, << TRUE, Low32(Scale(L4(n), "h")) >> }               \* a bare unit: AMBIG

CodeInv ==
  kind = "code" =>
    /\ GenericAdm(TypeGeneric(n), TTYPE) = IF n <= 65535 THEN { <<TRUE, n>> } ELSE { <<FALSE, 0>> }
    /\ GenericAdm(ClassGeneric(n), TCLASS) = IF n <= 65535 THEN { <<TRUE, n>> } ELSE { <<FALSE, 0>> }
    /\ GenericAdm(<<116, 121, 112, 101>> \o DecN(n), TTYPE) = GenericAdm(TypeGeneric(n), TTYPE)     \* "type"
    /\ GenericAdm(TTYPE \o <<43>> \o DecN(n), TTYPE) = { <<FALSE, 0>> }                             \* sign
    /\ GenericAdm(TTYPE \o DecN(n) \o <<120>>, TTYPE) = { <<FALSE, 0>> }
    /\ (n <= 65535 => <<TRUE, n>> \in GenericAdm(TTYPE \o <<48>> \o DecN(n), TTYPE))
    /\ GenericAdm(TypeGeneric(n), TCLASS) = { <<FALSE, 0>> }
    /\ (n <= 255 => LET rd == << n, 255 - n, 0 >>
                        hx == Concat([i \in 1..3 |-> << HexDigitL(rd[i] \div 16), HexDigitL(rd[i] % 16) >>]) IN
                    /\ GenericRdata(<< <<51>>, hx >>).rd = rd /\ GenericRdata(<< <<51>>, UpperT(hx) >>).rd = rd
                    /\ GenericRdata(<< <<51>>, Sub(hx, 1, 2), Sub(hx, 3, 6) >>).rd = rd
                    /\ ~GenericRdata(<< <<50>>, hx >>).ok /\ ~GenericRdata(<< <<52>>, hx >>).ok
                    /\ ~GenericRdata(<< <<51>>, Sub(hx, 1, 5) >>).ok /\ ~GenericRdata(<< <<51>>, Sub(hx, 1, 5) \o <<122>> >>).ok
                    /\ GenericRdataAdm(65280, << <<51>>, hx >>) = { <<TRUE, rd>> })

Anchors ==
  kind = "once" =>
    /\ TTLAdm(<<49, 104, 51, 48, 109>>) = Ok(5400) /\ TTLAdm(<<49, 72, 51, 48>>) = Ok(3630)
    /\ TTLAdm(<<52, 50, 57, 52, 57, 54, 55, 50, 57, 53>>) = { << TRUE, <<65535, 65535>> >> }
    /\ TTLAdm(<<52, 50, 57, 52, 57, 54, 55, 50, 57, 54>>) = { No }
    /\ TTLAdm(<<49, 56, 52, 52, 54, 55, 52, 52, 48, 55, 51, 55, 48, 57, 53, 53, 49, 54, 49, 55>>) = { No }      \* 2^64 + 1
    /\ TTLAdm(<<51, 48, 53, 48, 48, 53, 54, 56, 57, 48, 52, 57, 52, 52, 119>>) = { No }                          \* weeks that wrap 2^64
    /\ TTLAdm(<<55, 49, 48, 50, 119>>) = { No } /\ TTLAdm(<<55, 49, 48, 49, 119>>) = { << TRUE, <<65531, 45184>> >> }   \* 7101w = 4294684800
    /\ TTLAdm(<<52, 57, 55, 49, 48, 100>>) = { << TRUE, <<65535, 42240>> >> }                                    \* 49710d = 4294944000
    /\ TTLAdm(<<104>>) = { No, << TRUE, <<0, 0>> >> } /\ TTLAdm(<<>>) = { No, << TRUE, <<0, 0>> >> }
    /\ \A a \in DOMAIN Layout, b \in DOMAIN Layout : Layout[a].name = Layout[b].name => a = b
    /\ GenericRdataAdm(1, << <<52>>, <<99, 48, 48, 48, 48, 50, 48, 49>> >>) = { <<TRUE, <<192, 0, 2, 1>> >> }
    /\ GenericRdataAdm(1, << <<51>>, <<99, 48, 48, 48, 48, 50>> >>) = { <<FALSE, <<>> >> }
    /\ GenericRdataAdm(1, << <<53>>, <<99, 48, 48, 48, 48, 50, 48, 49, 48, 48>> >>) = { <<FALSE, <<>> >> }
    /\ GenericRdataAdm(15, << <<51>>, <<48, 48, 48, 97, 48, 48>> >>) = { <<TRUE, <<0, 10, 0>> >> }
    /\ GenericRdataAdm(16, << <<52>>, <<48, 51, 54, 49, 54, 50, 54, 51>> >>) = { <<TRUE, <<3, 97, 98, 99>> >> }
    /\ GenericRdataAdm(65280, << <<48>> >>) = { <<TRUE, <<>> >> } /\ GenericRdataAdm(65280, <<>>) = { <<FALSE, <<>> >> }
    /\ GenericRdataAdm(1, << <<48>> >>) = { <<FALSE, <<>> >>, <<TRUE, <<>> >> }
    /\ GenericRdataAdm(65280, << <<48, 51>>, <<54, 49, 54, 50, 54, 51>> >>) = { <<FALSE, <<>> >>, <<TRUE, <<97, 98, 99>> >> }
=============================================================================
