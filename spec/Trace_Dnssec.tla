---------------------------- MODULE Trace_Dnssec ----------------------------
(* Validates events of harness `dnssec' (C10) against Dnssec.tla, in two       *)
(* passes around the harness (the signature primitive is Go's standard         *)
(* library applied to the octets THIS specification fixes).                    *)
(*                                                                             *)
(* Pass 1 (from `dnssec record`)                                               *)
(*   sign   [id, rrset, req, out, ok, err, key]: RRSIG.Sign was called on      *)
(*          rrset with the RRSIG fields req; out = the record afterwards.      *)
(*          Judged: Sign succeeds; out = SignFills(req, rrset) but for the     *)
(*          signature.  Emitted: the signed octets SignedData(...).            *)
(*   check  [id, of, kind, sig, key, rrset, forge]: a variant to be verified   *)
(*          (equivalent or altered: the specification, not the harness, says   *)
(*          which).  Emitted: SignedData for the variant (<<>> if rrset is no  *)
(*          RRset).                                                            *)
(* Pass 2 (from `dnssec finish`)                                               *)
(*   verify [id, kind, sig, key, rrset, data, odata, osig, sigok, accepted]:    *)
(*          (odata, osig: octets and signature of the signed original) the real *)
(*          Verify said `accepted'; sigok = the standard library accepts       *)
(*          sig.Signature over `data' under key.PublicKey.  Judged: data is    *)
(*          SignedData(sig, rrset) and accepted = PreChecks /\ sigok.          *)
(*          AMBIG (not demanded, only "must not accept what is invalid"):      *)
(*          RRsets outside the signer's zone; owners differing in case inside  *)
(*          one RRset.                                                         *)
(* Finding keys are computed here (register 3).                                *)
EXTENDS Dnssec, TraceBase, CSV

VARIABLE l

Ev == Trace[l]
EmitX(rec) == CSVWrite("%1$s", <<ToJson(rec)>>, "emit.ndjson")

HasUpper(n) == \E i \in 1..Len(n) : \E j \in 1..Len(n[i]) : n[i][j] >= 65 /\ n[i][j] <= 90
RdNames(rr) ==
  IF rr.nodata THEN {}
  ELSE LET es == FieldsOf(rr.type) IN
       { rr.f[es[i].n] : i \in { i \in 1..Len(es) : es[i].k \in {"name", "cname"} } }
\* the feature of an RRset a finding is filed under (owner shapes the library is known to mishandle first)
Feature(rrset) ==
  IF rrset[1].name = <<Star>> THEN "wildcard-at-root"
  ELSE IF Len(rrset[1].name) >= 1 /\ Len(rrset[1].name[1]) > 1 /\ rrset[1].name[1][1] = 42 THEN "star-prefixed-label"
  ELSE IF \E i \in 1..Len(rrset) : LenRR(rrset[i]) > 4096 THEN "record-over-4096-octets"     \* larger than the library's DefaultMsgSize
  ELSE IF \E i \in 1..Len(rrset) : LenRR(rrset[i]) > 512 THEN "record-over-512-octets"       \* ... MinMsgSize
  ELSE IF \E i \in 1..Len(rrset) : \E n \in RdNames(rrset[i]) : HasUpper(n) THEN "rdata-name-uppercase"
  ELSE IF IsWildcard(rrset[1].name) THEN "wildcard-owner"
  ELSE IF HasUpper(rrset[1].name) THEN "owner-uppercase"
  ELSE IF ~NameEscapeFree(rrset[1].name) THEN "owner-escaped"
  ELSE "plain"
\* the RR type belongs in the key only where the defect can depend on it
TypedFeature(rrset) ==
  LET f == Feature(rrset) IN
  IF f = "rdata-name-uppercase" THEN LayoutOf(rrset[1].type).name \o ":" \o f ELSE f
\* for verification: an RRSIG with Labels = 0 over a non-root owner is an expansion of the wildcard "*."
VFeature(sig, rrset) ==
  IF sig.f.Labels = 0 /\ Len(rrset[1].name) >= 1 THEN "wildcard-at-root" ELSE Feature(rrset)

\* Cases whose Go strings spell octets >= 0x80 raw (the abstract values are the same) are filed apart; where the octets are no
\* UTF-8 the library's case folding is known to mangle them whatever else the case exercises: one key per clause.
RawTag(e) == IF "rawtag" \in DOMAIN e THEN e.rawtag ELSE ""
K(e, clause, tail) == IF RawTag(e) = "raw-nonutf8" THEN clause \o ":raw-nonutf8"
                      ELSE IF RawTag(e) = "" THEN clause \o ":" \o tail
                      ELSE clause \o ":" \o tail \o ":" \o RawTag(e)

WFEvent(e) ==
  /\ \A i \in 1..Len(e.rrset) : WFRR(e.rrset[i])
  /\ Len(e.rrset) >= 1
  /\ WFKey(e.key)

FirstFieldDiff(a, b) ==
  IF a.owner # b.owner THEN "owner" ELSE IF a.class # b.class THEN "class"
  ELSE LET ds == { n \in DOMAIN a.f \ {"Signature"} : a.f[n] # b.f[n] } IN
       IF ds = {} THEN "" ELSE CHOOSE n \in ds : TRUE

\* the RRSIG value handed to Sign was not fresh (it had signed another RRset, or came with every field filled in): req is the
\* value as it was, SignFills says what of it may show in the result (the original TTL, nothing else); filed apart
Reused(e) == IF "reused" \in DOMAIN e /\ e.reused # "" THEN ":reused-sig-struct" ELSE ""

SignKey(e) ==
  IF ~WFEvent(e) \/ ~WFSig(e.req) THEN "trace/sign-ill-formed"
  ELSE IF ~UniformOwner(e.rrset) \/ ~WFRRset(e.rrset) THEN "trace/sign-not-an-rrset"
  ELSE LET want == SignFills(e.req, e.rrset)
           feat == Feature(e.rrset) IN
    IF ~EmitX([id |-> e.id, kind |-> "sign", feature |-> TypedFeature(e.rrset), data |-> SignedData(want.f, e.rrset),
               \* the octets for the RRSIG as Sign actually filled it (they differ from `data' when the fields are wrong)
               dataout |-> IF e.ok /\ WFSig(e.out) THEN SignedData(e.out.f, e.rrset) ELSE <<>>]) THEN "trace/emit"
    ELSE IF ~e.ok THEN K(e, "dnssec/sign-error", feat \o Reused(e))
    ELSE IF ~WFSig(e.out) THEN "dnssec/sign-fields:ill-formed"
    ELSE IF FirstFieldDiff(e.out, want) # "" THEN K(e, "dnssec/sign-fields", FirstFieldDiff(e.out, want) \o ":" \o feat \o Reused(e))
    ELSE ""

CheckKey(e) ==
  IF ~WFEvent(e) \/ ~WFSig(e.sig) THEN "trace/check-ill-formed"
  ELSE IF EmitX([id |-> e.id, kind |-> "check", feature |-> TypedFeature(e.rrset), dataout |-> <<>>,
                 data |-> IF WFRRset(e.rrset) THEN SignedData(e.sig.f, e.rrset) ELSE <<>>]) THEN ""
  ELSE "trace/emit"

\* RSA keys at the size limits of RFC 3110 (a modulus of 512 resp. 64 octets behind the exponent) are filed apart
KeyFeature(key) ==
  IF key.f.Algorithm \notin {5, 7, 8, 10} THEN ""
  ELSE IF Len(key.f.PublicKey) > 500 THEN ":rsa-4096-bit-key"
  ELSE IF Len(key.f.PublicKey) < 80 THEN ":rsa-512-bit-key" ELSE ""

FirstPreFail(sig, key, rrset) ==
  IF ~WFRRset(rrset) THEN "not-an-rrset"
  ELSE IF sig.f.KeyTag # KeyTagOf(key.f) THEN "key-tag"
  ELSE IF sig.f.Algorithm # key.f.Algorithm THEN "algorithm"
  ELSE IF sig.class # key.class THEN "key-class"
  ELSE IF ~SameName(sig.f.SignerName, key.owner) THEN "signer"
  ELSE IF ~ZoneKey(key.f) THEN "zone-flag"
  ELSE IF key.f.Protocol # 3 THEN "protocol"
  ELSE IF ~SameName(sig.owner, rrset[1].name) THEN "owner"
  ELSE IF sig.class # rrset[1].class THEN "class"
  ELSE IF sig.f.TypeCovered # rrset[1].type THEN "type"
  ELSE IF sig.f.Labels > Len(rrset[1].name) THEN "labels"
  ELSE ""

VerifyKey(e) ==
  IF ~WFEvent(e) \/ ~WFSig(e.sig) THEN "trace/verify-ill-formed"
  ELSE LET wf   == WFRRset(e.rrset)
           data == IF wf THEN SignedData(e.sig.f, e.rrset) ELSE <<>>
           want == Accepts(e.sig, e.key, e.rrset, e.sigok)
           tn   == LayoutOf(e.rrset[1].type).name
       IN
    IF data # e.data THEN "trace/verify-data-differs"               \* sigok would be about other octets
    ELSE IF e.accepted = want THEN ""
    ELSE IF want THEN
       (IF ~InZone(e.sig, e.rrset) \/ ~UniformOwner(e.rrset) THEN ""      \* AMBIG
        ELSE LET vf == VFeature(e.sig, e.rrset) IN
             IF vf = "wildcard-at-root" THEN "dnssec/verify-rejects-valid:wildcard-at-root"
             ELSE IF e.kind = "ddd-spelling" THEN "dnssec/verify-rejects-valid:ddd-spelling"
             ELSE IF e.kind = "rdata-name-case" \/ vf = "rdata-name-uppercase"
               THEN K(e, "dnssec/verify-rejects-valid", tn \o ":rdata-name-case")
             ELSE K(e, "dnssec/verify-rejects-valid", e.kind \o ":" \o vf \o KeyFeature(e.key)))
    ELSE IF ~e.sigok /\ PreChecks(e.sig, e.key, e.rrset) THEN
       \* accepted although the primitive rejects the signature over the specified octets.  When the variant denotes the
       \* very octets and signature of the signed original, the fault lies with what was signed, not with the variant.
       (IF e.data = e.odata /\ e.sig.f.Signature = e.osig
        THEN K(e, "dnssec/verify-accepts-invalid:signature:unaltered", TypedFeature(e.rrset))
        ELSE K(e, "dnssec/verify-accepts-invalid:signature", e.kind))
    ELSE K(e, "dnssec/verify-accepts-invalid", e.kind \o ":" \o FirstPreFail(e.sig, e.key, e.rrset))

Key(e) == CASE e.ev = "sign"   -> SignKey(e)
            [] e.ev = "check"  -> CheckKey(e)
            [] e.ev = "verify" -> VerifyKey(e)
            [] OTHER -> "trace/unknown-event"

Bad(key) == MarkBad(l) /\ TLCSet(3, Append(TLCGet(3), key))
Init == l = 1 /\ HWInit /\ TLCSet(3, <<>>)
Next == /\ l <= Len(Trace)
        /\ LET k == Key(Ev) IN IF k = "" THEN TRUE ELSE Bad(k)
        /\ HW(l)
        /\ l' = l + 1

Accepted10 == PrintT("VP:keys=" \o ToJson(TLCGet(3))) /\ Accepted
=============================================================================
