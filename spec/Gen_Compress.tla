---------------------------- MODULE Gen_Compress ----------------------------
(* Vector generator for C04.  Each case is one TLC state `cv'; the invariant   *)
(* COut builds the abstract message, checks the specification on it (the       *)
(* reader finds in EncMsg(m) exactly the names of WireRR!PlanMsg(m); the       *)
(* hand-compressed octets are a transparent compressed form of EncMsg(m)) and  *)
(* appends one JSON line                                                       *)
(*   [g, v, msg, ddd, hand, implen]                                            *)
(* msg    the abstract message (the harness packs it with Compress true/false) *)
(* ddd    0-based indices into <<question names..., record owners...>> that    *)
(*        the harness must spell with \DDD escapes for every letter `a' (the   *)
(*        same name, another text: \097.x. is a.x.)                            *)
(* hand   octets of the message with RDATA names replaced by pointers to the   *)
(*        first question name (<<>>: none): the library must ACCEPT them and   *)
(*        read msg                                                             *)
(* implen what CompressLen!PackImpl predicts for len(Pack()) with Compress on  *)
(*        (informational)                                                      *)
(* Modes (CMode): "family"  shared-suffix name families under two zones,       *)
(*                          1..2 questions, NS + MX/SRV/RP records             *)
(*                "multiq"  2..3 questions, with and without a record          *)
(*                "types"   every type with a name in its RDATA layout: the    *)
(*                          name equal to / one label below an earlier owner   *)
(*                "first"   per type and RDATA name field: a suffix first seen in *)
(*                          that field, needed by later owners / NS / MX names  *)
(*                "pad"     a TXT record pushes a first occurrence to offset   *)
(*                          16382..16385 (thorough: 16370..16395)              *)
(*                "large"   messages with MANY records (g = the sub-family):   *)
(*                   runs   one RRset / address pool: n consecutive records    *)
(*                          with one owner (the question name or not), two     *)
(*                          owners in turn, one owner in two letter cases; A,  *)
(*                          NS to the owner itself, MX below the owner; n up   *)
(*                          to and beyond the number of labels a name can have *)
(*                          (126..129, 300): what accumulates over a run --    *)
(*                          the pointer chain read for the last owner --       *)
(*                   nest   names of 2..k labels, each the previous one with a *)
(*                          label in front, then the longest again (k up to    *)
(*                          127, the most a name can have): the deepest chain  *)
(*                          a packer pointing at first occurrences builds      *)
(*                   bulk   n records under a common 234-octet suffix: far     *)
(*                          shorter compressed; uncompressed length 65534 ..   *)
(*                          65537 (a TXT record sets it) and about 150 000,    *)
(*                          compressed below 13 000                            *)
(*                "foreign" compressed forms OTHER encoders emit (Compress!     *)
(*                          Recompress under four strategies: pointers to the   *)
(*                          LATEST earlier occurrence -- an RRset whose owners  *)
(*                          each point at the previous owner field, a pointer   *)
(*                          landing on a pointer --, whole names only and in    *)
(*                          the RDATA of every type, first occurrences in any   *)
(*                          RDATA, pointers replacing root octets) of runs,     *)
(*                          of every name-bearing type twice in a row, of the   *)
(*                          "first" messages: field `hands'; each is accepted   *)
(*                          by the specification's judge and must be accepted   *)
(*                          and read as msg by the library                      *)
(*                "spell"   names whose labels hold a dot, a backslash, a       *)
(*                          space, a quote, octet 200 (and their look-alikes    *)
(*                          a.b / xy), each position in one of four SPELLINGS   *)
(*                          (field sp: <<owner index, style>>; 0 canonical,     *)
(*                          1 \097 for a, 2 every escape as \DDD -- \046,    *)
(*                          \092 --, 3 every octet as \DDD)                   *)
(*                "overlong" names of 254..257, 300 wire octets / 127, 128      *)
(*                          labels / a 64-octet label whose tail occurs earlier *)
(*                          in the message, at every kind of position: nowf =   *)
(*                          the message is NOT well-formed (WFMsg): no packing  *)
(*                          of it exists, with or without compression           *)
(* ulen   the length of the message packed without compression (LenMsg)        *)
EXTENDS Gen_WireRR, Compress

CONSTANTS CMode, CShard, CNShards

VARIABLE cv

L(c)  == <<c>>
\* the family: x  a.x  A.x  b.a.x  "a.x" as ONE label  (and a.x spelled \097.x through ddd)
Fam == << << L(120) >>, << L(97), L(120) >>, << L(65), L(120) >>, << L(98), L(97), L(120) >>, << <<97, 46, 120>> >> >>
Zones == << <<>>, << L(122), L(90) >> >>                          \* the root, z.Z.
FamName(i, z) == Fam[i] \o Zones[z]
NFam == Len(Fam) * Len(Zones)
NameNo(x) == FamName(1 + ((x - 1) % Len(Fam)), 1 + ((x - 1) \div Len(Fam)))      \* x in 1..NFam

QOf(n, t) == [name |-> n, qtype |-> t, qclass |-> 1]
A4(n, x) == RR(n, 1, 1, Ttl1h, [A |-> <<192, 0, 2, x>>])

FamilyMsg(q, o1, t1, o2, t2, ty, nq) ==
  LET second ==
        CASE ty = 1 -> RR(NameNo(o2), 15, 1, Ttl1h, [Preference |-> 10, Mx |-> NameNo(t2)])
          [] ty = 2 -> RR(NameNo(o2), 33, 1, Ttl1h, [Priority |-> 1, Weight |-> 2, Port |-> 53, Target |-> NameNo(t2)])
          [] ty = 3 -> RR(NameNo(o2), 17, 1, Ttl1h, [Mbox |-> NameNo(t2), Txt |-> NameNo(t1)])
  IN Msg(H0, IF nq = 1 THEN << QOf(NameNo(q), 2) >> ELSE << QOf(NameNo(q), 2), QOf(NameNo(t2), 1) >>,
         << RR(NameNo(o1), 2, 1, Ttl1h, [Ns |-> NameNo(t1)]), second >>, <<>>, << A4(NameNo(t1), 7) >>)

MultiQMsg(a, b, c, withRR) ==
  Msg(H0, IF c = 0 THEN << QOf(NameNo(a), 1), QOf(NameNo(b), 28) >> ELSE << QOf(NameNo(a), 1), QOf(NameNo(b), 28), QOf(NameNo(c), 15) >>,
      IF withRR = 1 THEN << A4(NameNo(b), 1) >> ELSE <<>>, <<>>, <<>>)

\* every type with a name in its RDATA
NameTypes == SortedSeq({ t \in DOMAIN Layout : HasNameField(t) })
BAX == << L(98), L(97), L(120) >>
NameF(t, nm) ==
  LET es == FieldsOf(t)  base == Fix(es, BaseF(es))
      ent(n) == es[CHOOSE j \in 1..Len(es) : es[j].n = n]
  IN [n \in DOMAIN base |->
        IF ent(n).k \in {"name", "cname", "gateway"} THEN nm
        ELSE IF ent(n).k = "names" THEN << nm, nm >>
        ELSE IF ent(n).k = "bitmap0" THEN <<>>          \* NXT: the library's bitmap format is C01's finding, kept out of here
        ELSE IF \E j \in 1..Len(es) : es[j].k = "gateway" /\ es[j].of = n THEN 3
        ELSE base[n]]
\* variant 1: the RDATA names ARE the question name; 2: one more label in front;
\* 3: as 1 under a question name with a long first label (the pointer replaces 25 octets at the very end of the message)
LongL == [i \in 1..24 |-> 97 + (i % 26)]
TypesMsg2(t, variant) ==
  LET qn == IF variant = 3 THEN << LongL >> \o Tail(BAX) ELSE BAX
      nm == IF variant = 2 THEN << L(67) >> \o BAX ELSE qn IN
  Msg(H0, << QOf(qn, t) >>, << A4(qn, 1), RR(Tail(qn), t, 1, Ttl1h, NameF(t, nm)) >>, <<>>, <<>>)

\* Mode "first": a suffix (s.u.) is FIRST seen inside RDATA name field number j of a record of type t -- whatever the kind of the
\* field: the packer notes every name for later use -- and is then needed by later owners and RFC 1035 RDATA names.
\* One case per (type, name field); name fields before j hold an unrelated name.
SU  == << L(115), L(117) >>                                   \* s.u.
NSU == << L(110) >> \o SU                                     \* n.s.u.
XV  == << L(120), L(118) >>                                   \* x.v.
NameIdx(t) == SortedSeq({ i \in 1..Len(FieldsOf(t)) : FieldsOf(t)[i].k \in {"name", "cname", "names", "gateway"} })
NameFJ(t, j) ==
  LET es == FieldsOf(t)  base == Fix(es, BaseF(es))
      pos(n) == CHOOSE i \in 1..Len(es) : es[i].n = n
      nm(n) == IF pos(n) < j THEN XV ELSE NSU
  IN [n \in DOMAIN base |->
        IF es[pos(n)].k \in {"name", "cname", "gateway"} THEN nm(n)
        ELSE IF es[pos(n)].k = "names" THEN << nm(n), << L(107) >> \o nm(n) >>
        ELSE IF es[pos(n)].k = "bitmap0" THEN <<>>
        ELSE IF \E i \in 1..Len(es) : es[i].k = "gateway" /\ es[i].of = n THEN 3
        ELSE base[n]]
FirstMsg(t, j) ==
  Msg(H0, << QOf(<< L(113) >>, t) >>,
      << RR(<< L(111) >>, t, 1, Ttl1h, NameFJ(t, j)),
         RR(SU, 2, 1, Ttl1h, [Ns |-> << L(109) >> \o SU]),                       \* s.u. NS m.s.u.
         RR(NSU, 15, 1, Ttl1h, [Preference |-> 1, Mx |-> SU]),                   \* n.s.u. MX s.u.
         RR(<< L(107) >> \o NSU, 5, 1, Ttl1h, [Target |-> XV]) >>, <<>>, <<>>)   \* k.n.s.u. CNAME x.v.

\* TXT RDATA of exactly r octets (r >= 2)
TxtOf(r) == LET q == r \div 256  m == r % 256 IN
            [i \in 1..q |-> Rep(255, 112)] \o (IF m = 0 THEN <<>> ELSE << Rep(m - 1, 113) >>)
NmBY == << L(98), L(121) >>
\* records start at 12 + (2+1+1+1)+4 = 21; the TXT record (owner root) ends at 21 + 11 + r
PadMsg2(at) ==
  Msg(H0, << QOf(<< L(97), L(120) >>, 1) >>,
      << RR(<<>>, 16, 1, Ttl1h, [Txt |-> TxtOf(at - 32)]),
         A4(NmBY, 1),                                                                \* first occurrence of b.y. at offset `at'
         RR(<< L(99), L(121) >>, 2, 1, Ttl1h, [Ns |-> NmBY]),                        \* c.y. NS b.y.
         RR(NmBY, 15, 1, Ttl1h, [Preference |-> 1, Mx |-> << L(100) >> \o NmBY]),      \* b.y. MX d.b.y.
         RR(Tail(NmBY), 33, 1, Ttl1h, [Priority |-> 1, Weight |-> 1, Port |-> 1, Target |-> NmBY]),
         RR(<< L(97), L(120) >>, 5, 1, Ttl1h, [Target |-> << L(99), L(121) >>]) >>, <<>>, <<>>)

\* Mode "large".  cv = <<1, n, pat, ty>> runs | <<2, k>> nest | <<3, n, r>> bulk
ExL    == <<69, 120>>
PoolN == << <<80, 111, 111, 108>>, ExL >>                      \* Pool.Ex.
PoolL == << <<112, 111, 111, 108>>, ExL >>                     \* pool.Ex.   (another name: case is preserved)
OthN  == << L(111), ExL >>                                     \* o.Ex.
RunOwner(pat, i) == IF pat = 3 /\ i % 2 = 0 THEN OthN ELSE IF pat = 4 /\ i % 2 = 0 THEN PoolL ELSE PoolN
RunQ(pat) == IF pat = 1 THEN PoolN ELSE << L(113), ExL >>
RunRR(pat, ty, i) ==
  LET o == RunOwner(pat, i) IN
  CASE ty = 1 -> RR(o, 1, 1, Ttl1h, [A |-> <<10, 0, i \div 256, i % 256>>])
    [] ty = 2 -> RR(o, 2, 1, Ttl1h, [Ns |-> o])
    [] ty = 3 -> RR(o, 15, 1, Ttl1h, [Preference |-> i % 7, Mx |-> << L(109) >> \o o])
RunsMsg(n, pat, ty) ==
  Msg(H0, << QOf(RunQ(pat), 1) >>, [i \in 1..n |-> RunRR(pat, ty, i)],
      << RR(PoolN, 2, 1, Ttl1h, [Ns |-> << L(110) >> \o PoolN]) >>, <<>>)

NestName(j) == [i \in 1..j |-> L(97)]
NestMsg(k) == Msg(H0, << QOf(NestName(1), 1) >>, [i \in 1..k |-> A4(NestName(IF i < k THEN i + 1 ELSE k), 1)], <<>>, <<>>)

BulkSuffix == << Rep(63, 98), Rep(63, 99), Rep(63, 100), Rep(40, 101) >>          \* 234 octets on the wire
BulkOwner(i) == << << 97 + (i % 26), 97 + ((i \div 26) % 26), 97 + ((i \div 676) % 26) >> >> \o BulkSuffix
BulkMsg(n, r) ==
  Msg(H0, << QOf(BulkSuffix, 252) >>,
      [i \in 1..n |-> RR(BulkOwner(i), 1, 1, Ttl1h, [A |-> <<10, 1, i \div 256, i % 256>>])]
        \o (IF r = 0 THEN <<>> ELSE << RR(BulkSuffix, 16, 1, Ttl1h, [Txt |-> TxtOf(r)]) >>), <<>>, <<>>)
BulkLen(n, r) == 250 + 252 * n + (IF r = 0 THEN 0 ELSE 244 + r)
\* a transparent compressed form: every owner after the question is its first label (if any) and a pointer to offset 12
BulkCLen(n, r) == 250 + 20 * n + (IF r = 0 THEN 0 ELSE 12 + r)

LargeCases(tier) ==
  LET ns == IF tier = 0 THEN {2, 126, 127, 128, 129, 300} ELSE (1..5) \cup (120..135) \cup {255, 256, 257, 300, 400, 1000}
      ks == IF tier = 0 THEN {126, 127} ELSE {2, 3, 64, 100, 125, 126, 127}
      bs == IF tier = 0 THEN { <<258, r>> : r \in 25..26 } \cup { <<400, 0>> }
            ELSE { <<258, r>> : r \in 20..31 } \cup { <<259, 0>>, <<260, 0>>, <<400, 0>>, <<600, 0>>, <<1500, 0>>, <<1500, 300>> }
  IN { c \in { <<1, n, pat, ty>> : n \in ns, pat \in 1..4, ty \in 1..3 } :
           tier > 0 \/ (c[4] = 1 + ((c[2] + c[3]) % 3) /\ (c[2] < 200 \/ c[3] <= 2)) }
     \cup { <<2, k>> : k \in ks } \cup { <<3, b[1], b[2]>> : b \in bs }
LargeName == IF CMode # "large" THEN CMode ELSE IF cv[1] = 1 THEN "runs" ELSE IF cv[1] = 2 THEN "nest" ELSE "bulk"

\* Mode "foreign".  cv = <<1, n, pat, ty>> runs | <<2, t, variant>> a name-bearing type twice | <<3, t, j>> first
FStrats == << FStrategy("latest", FALSE, FALSE, FALSE), FStrategy("latest", TRUE, TRUE, FALSE),
              FStrategy("first", TRUE, FALSE, FALSE),   FStrategy("latest", FALSE, FALSE, TRUE) >>
FNames  == << "latest", "latest-whole-anyrdata", "first-anyrdata", "latest-rootptr" >>
TwiceMsg(t, variant) ==
  LET nm == IF variant = 2 THEN << L(67) >> \o BAX ELSE BAX
      r  == RR(Tail(BAX), t, 1, Ttl1h, NameF(t, nm)) IN
  Msg(H0, << QOf(BAX, t) >>, << A4(BAX, 1), r, r >>, <<>>, <<>>)
ForeignCases(tier) ==
  { <<1, n, pat, ty>> : n \in (IF tier = 0 THEN {2, 3, 10} ELSE (2..12) \cup {40}), pat \in 1..4, ty \in 1..3 }
  \cup { <<2, NameTypes[x], variant>> : x \in 1..Len(NameTypes), variant \in 1..2 }
  \cup (IF tier = 0 THEN {} ELSE
        UNION { { <<3, NameTypes[x], NameIdx(NameTypes[x])[y]>> : y \in 1..Len(NameIdx(NameTypes[x])) } : x \in 1..Len(NameTypes) })
ForeignMsg == IF cv[1] = 1 THEN RunsMsg(cv[2], cv[3], cv[4]) ELSE IF cv[1] = 2 THEN TwiceMsg(cv[2], cv[3]) ELSE FirstMsg(cv[2], cv[3])
Hands(m) == IF CMode # "foreign" THEN <<>>
            ELSE LET bu == EncMsg(m) IN [k \in 1..Len(FStrats) |-> [s |-> FNames[k], b |-> Recompress(bu, FStrats[k])]]

\* Mode "spell".  cv = <<i, j, si, sj>>
SpZ == << L(122) >>
SpNames == << << <<97, 46, 98>> >>, << L(97), L(98) >>, << <<120, 92, 121>> >>, << <<120, 121>> >>, << <<97, 32, 98>> >>,
              << <<97, 34, 98>> >>, << <<200, 97>> >>, << <<92>> >>, << <<46>> >>, << L(98) >> >>
SpName(i) == SpNames[i] \o SpZ
SpellMsg(i, j) == Msg(H0, << QOf(SpName(i), 1) >>, << RR(SpName(j), 2, 1, Ttl1h, [Ns |-> SpName(i)]) >>, <<>>,
                      << A4(SpName(i), 1), A4(SpName(j), 2) >>)
Sp == IF CMode # "spell" THEN <<>> ELSE << <<0, cv[3]>>, <<1, cv[4]>>, <<2, cv[4]>>, <<3, cv[3]>> >>

\* Mode "overlong".  cv = <<shape, pos, first>>
OvS == << Rep(63, 98), Rep(63, 99), Rep(63, 100) >>                 \* 193 octets on the wire
OvBase(shape) == IF shape = 7 THEN << L(120) >> ELSE IF shape >= 8 THEN [i \in 1..100 |-> L(97)] ELSE OvS
OvName(shape) ==
  CASE shape = 1 -> << Rep(60, 101) >> \o OvS                       \* 254
    [] shape = 2 -> << Rep(61, 101) >> \o OvS                       \* 255: the longest name there is
    [] shape = 3 -> << Rep(62, 101) >> \o OvS                       \* 256
    [] shape = 4 -> << Rep(63, 101) >> \o OvS                       \* 257
    [] shape = 5 -> << Rep(50, 102), Rep(55, 101) >> \o OvS         \* 300
    [] shape = 6 -> << Rep(64, 101) >> \o OvS                       \* a 64-octet label, 258
    [] shape = 7 -> << Rep(64, 101), L(120) >>                      \* a 64-octet label in a short name
    [] shape = 8 -> [i \in 1..128 |-> L(97)]                        \* 128 labels, 257
    [] shape = 9 -> [i \in 1..127 |-> L(97)]                        \* 127 labels, 255
OvValid(shape) == shape \in {1, 2, 9}
OvMsg(shape, pos, first) ==
  LET b   == OvBase(shape)  n == OvName(shape)
      q1  == IF first = 1 THEN b ELSE << L(113) >>
      pre == IF first = 1 THEN <<>> ELSE << RR(<< L(111) >>, 2, 1, Ttl1h, [Ns |-> b]) >>
      rec == CASE pos = 2 -> A4(n, 1)
               [] pos = 3 -> RR(b, 2, 1, Ttl1h, [Ns |-> n])
               [] pos = 4 -> RR(b, 15, 1, Ttl1h, [Preference |-> 1, Mx |-> n])
               [] pos = 5 -> RR(b, 5, 1, Ttl1h, [Target |-> n])
               [] pos = 6 -> RR(b, 33, 1, Ttl1h, [Priority |-> 1, Weight |-> 2, Port |-> 53, Target |-> n])
               [] OTHER   -> A4(b, 1)
  IN Msg(H0, IF pos = 1 THEN << QOf(q1, 1), QOf(n, 1) >> ELSE << QOf(q1, 1) >>,
         pre \o (IF pos = 1 THEN <<>> ELSE << rec >>), <<>>, <<>>)
NoWF == CMode = "overlong" /\ ~OvValid(cv[1])

CInShard(x) == x % CNShards = CShard

CInit ==
  /\ v = <<0>>
  /\ \/ CMode = "family" /\ \E q \in 1..NFam, o1 \in 1..NFam, t1 \in 1..NFam, o2 \in 1..NFam, t2 \in 1..NFam, ty \in 1..3, nq \in 1..2, d \in 0..2 :
          /\ CInShard(q + 3 * o1 + 7 * t1 + 13 * o2 + 31 * t2 + 61 * ty + 101 * nq + 211 * d)
          /\ cv = <<q, o1, t1, o2, t2, ty, nq, d>>
     \/ CMode = "multiq" /\ \E a \in 1..NFam, b \in 1..NFam, c \in 0..NFam, w \in 0..1, d \in 0..1 :
          /\ CInShard(a + 3 * b + 7 * c + w + d) /\ cv = <<a, b, c, w, d>>
     \/ CMode = "types" /\ \E x \in 1..Len(NameTypes), variant \in 1..3 : cv = <<NameTypes[x], variant>>
     \/ CMode = "first" /\ \E x \in 1..Len(NameTypes) : \E y \in 1..Len(NameIdx(NameTypes[x])) :
          cv = <<NameTypes[x], NameIdx(NameTypes[x])[y]>>
     \/ CMode = "pad" /\ \E at \in (IF Tier = 0 THEN 16382..16385 ELSE 16370..16395) : cv = <<at>>
     \/ CMode = "foreign" /\ \E c \in ForeignCases(Tier) : CInShard(c[1] + 3 * c[2] + 7 * c[3]) /\ cv = c
     \/ CMode = "spell" /\ \E i \in 1..Len(SpNames), j \in 1..Len(SpNames), si \in 0..3, sj \in 0..3 :
          CInShard(i + 3 * j + 7 * si + 13 * sj) /\ cv = <<i, j, si, sj>>
     \/ CMode = "overlong" /\ \E shape \in 1..9, pos \in 1..6, first \in 1..2 :
          /\ (Tier = 0 /\ shape >= 8) => (pos \in 2..3 /\ first = 1)     \* names of 127 labels cost the specification's own reader seconds each
          /\ cv = <<shape, pos, first>>
     \/ CMode = "large" /\ \E c \in LargeCases(Tier) : /\ CInShard(c[1] + 3 * c[2] + (IF Len(c) > 2 THEN 7 * c[3] ELSE 0) + (IF Len(c) > 3 THEN 13 * c[4] ELSE 0))
                                                       /\ cv = c
CNext == UNCHANGED <<v, cv>>

CCase == CASE CMode = "family" -> FamilyMsg(cv[1], cv[2], cv[3], cv[4], cv[5], cv[6], cv[7])
           [] CMode = "multiq" -> MultiQMsg(cv[1], cv[2], cv[3], cv[4])
           [] CMode = "types"  -> TypesMsg2(cv[1], cv[2])
           [] CMode = "first"  -> FirstMsg(cv[1], cv[2])
           [] CMode = "pad"    -> PadMsg2(cv[1])
           [] CMode = "foreign" -> ForeignMsg
           [] CMode = "spell"  -> SpellMsg(cv[1], cv[2])
           [] CMode = "overlong" -> OvMsg(cv[1], cv[2], cv[3])
           [] CMode = "large"  -> (IF cv[1] = 1 THEN RunsMsg(cv[2], cv[3], cv[4]) ELSE IF cv[1] = 2 THEN NestMsg(cv[2]) ELSE BulkMsg(cv[2], cv[3]))

\* which names get the other spelling: none / the last record's owner / the first question
Ddd(m) == LET d == IF CMode = "family" THEN cv[8] ELSE IF CMode = "multiq" THEN cv[5] ELSE 0 IN
          IF d = 0 THEN <<>> ELSE IF d = 1 THEN << Len(m.q) + Len(m.an) + Len(m.ns) + Len(m.ar) - 1 >> ELSE <<0>>

SamePlan(s, m) ==
  LET a == PlanView(s)  b == PlanMsg(m) IN
  Len(a) = Len(b) /\ \A i \in 1..Len(a) : a[i].n = b[i].n /\ a[i].c = b[i].c /\ a[i].off = b[i].off

\* the specification checked on the case itself (a failure is a specification bug)
\* "large": the reader is tried on the small cases (a name of 127 labels costs TLC's reader 127 x 127 steps, 127 such
\* names a minute); on all of them the lengths are checked (the octets the harness packs are read by its walker and re-checked
\* by the judge: Tiles, NameOK)
LargeLight == CMode = "large" /\ (cv[1] = 2 \/ cv[2] > 300)
SpecOK(m) ==
  LET bu == EncMsg(m)  su == StreamOf(bu) IN
  /\ WFMsg(m)
  /\ ~LargeLight => su.ok /\ SamePlan(su.parts, m)
  /\ CMode # "large" => ValidCompressedStage(bu, bu) = "ok"
  /\ CMode = "large" => /\ ~LargeLight => PtrStage(su.parts, FALSE) = "ok"
                        /\ Len(bu) = LenMsg(m)
                        /\ cv[1] = 3 => LenMsg(m) = BulkLen(cv[2], cv[3]) /\ BulkCLen(cv[2], cv[3]) < 65535
  /\ CMode = "types" =>
       LET bh == HandCompressed(m)  st == ValidCompressedStage(bh, bu)
           es == FieldsOf(cv[1])
           anyPlain == \E i \in 1..Len(es) : es[i].k \in {"name", "names", "gateway"} IN
       /\ Len(bh) < Len(bu)
       /\ st = (IF anyPlain THEN "pointer-in-uncompressible-rdata" ELSE "ok")      \* legal on input, never produced
  /\ CMode = "pad" => PlanMsg(m)[3].off = cv[1]
  /\ CMode = "foreign" =>
       LET hs == Hands(m) IN
       /\ \A k \in 1..Len(hs) :
            LET st == ValidCompressedStageH(hs[k].b, bu) IN
            /\ st \in {"ok"} \cup (IF FStrats[k].rd THEN {"pointer-in-uncompressible-rdata"} ELSE {})
                        \cup (IF FStrats[k].root THEN {"longer"} ELSE {})       \* every form is one the reader is obliged to take
            /\ ~FStrats[k].root => Len(hs[k].b) <= Len(bu)
       \* non-vacuity: the owners of a run chain pointer to pointer under "latest"
       /\ (cv[1] = 1 /\ cv[2] >= 3) => PtrOnPtr(WithHints(StreamOf(hs[1].b).parts))

\* the ill-formed messages of mode "overlong": nothing but that they are ill-formed, and why
SpecNoWF(m) == /\ ~WFMsg(m)
               /\ \E n \in { OvName(cv[1]) } : ~ValidName(n) /\ ValidName(OvBase(cv[1]))

COut ==
  LET m == CCase IN
  /\ Assert(IF NoWF THEN SpecNoWF(m) ELSE SpecOK(m), <<"specification fails on its own vector", CMode, cv>>)
  /\ Emit([g |-> LargeName, v |-> cv, msg |-> m, ddd |-> Ddd(m), ulen |-> IF NoWF THEN 0 ELSE LenMsg(m),
           hand |-> IF CMode = "types" THEN HandCompressed(m) ELSE <<>>,
           hands |-> Hands(m), sp |-> Sp, nowf |-> NoWF,
           implen |-> IF NoWF THEN 0 ELSE IF CMode = "large" /\ cv[1] = 3 THEN BulkCLen(cv[2], cv[3]) ELSE PackImplMsg(m, TRUE)])
=============================================================================
