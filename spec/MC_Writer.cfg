CONSTANTS
  MaxReq = 3
  MaxOps = 2
  MaxPost = 2
INIT Init
NEXT Next
INVARIANTS TypeOK AtMostMaxQ PacketsUnbounded CloseOnce ServerClosed Deadlines
PROPERTIES Disposed NoOctetsAfterClose WritesAccounted SecondCloseErrors Sticky Usable HandsOff ReplyToSource Framed
CHECK_DEADLOCK FALSE
