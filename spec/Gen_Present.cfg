CONSTANTS
  Alphabet = {97, 32, 10, 34, 40, 41, 59, 92, 36, 0, 46}
  Mode = "enum"
INIT Init
NEXT Next
INVARIANT Out
CHECK_DEADLOCK FALSE
