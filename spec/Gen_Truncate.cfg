INIT Init
NEXT Next
INVARIANT Out
CONSTANTS
  Mode = "base"
