------------------------------ MODULE Trace_Dup ------------------------------
(* Validates observations of dns.IsDuplicate and dns.Dedup recorded from the   *)
(* real code (harness `dup record`) against Dup.tla.                           *)
(*  pair : two records obtained from the wire (Unpack), each given by type,    *)
(*         class, its uncompressed owner and RDATA octets as the real Pack     *)
(*         writes them and the spans of its embedded names; dup / rdup = the   *)
(*         real IsDuplicate in both argument orders.                           *)
(*  dedup: a list of records as text (owner, class, type, RDATA text, TTL as   *)
(*         two 16-bit limbs) and what dns.Dedup returned: for each surviving   *)
(*         record its index in the input (pointer identity) and its TTL.       *)
(*  law  : two records WITHOUT a wire form (the library refuses to pack at     *)
(*         least one: a list with a repeated key ...), given by the element    *)
(*         numbers la, lb their lists hold; dup / rdup = IsDuplicate in both   *)
(*         orders, self = a with itself and with a record built the same way,  *)
(*         copy = a with its Copy, both orders (Dup!LawOK).                    *)
EXTENDS Dup, TraceBase

VARIABLE l

Ev == Trace[l]

PairOK(e) == /\ WFWire(e.a) /\ WFWire(e.b)
             /\ e.dup = IsDup(e.a, e.b)
             /\ e.rdup = e.dup

DedupOK(e) == LET d == DedupIdx(e.list) IN
              /\ Len(e.out) = Len(d)
              /\ \A k \in 1..Len(d) : e.out[k].i = d[k].i /\ e.out[k].ttl = d[k].ttl

Judge(e) == CASE e.ev = "pair"  -> PairOK(e)
              [] e.ev = "law"   -> LawOK(e.la, e.lb, e.dup, e.rdup, e.self, e.copy)
              [] e.ev = "dedup" -> DedupOK(e)
              [] OTHER -> FALSE

Init == l = 1 /\ HWInit
Next == /\ l <= Len(Trace)
        /\ IF Judge(Ev) THEN TRUE ELSE MarkBad(l)
        /\ HW(l)
        /\ l' = l + 1
=============================================================================
