---------------------------- MODULE Trace_Tsig ----------------------------
(* Validates observations of the real TSIG code against Tsig.tla.  The HMAC is *)
(* not computed here: for every event this module writes what the              *)
(* specification reads in the octets -- state of the TSIG, key and algorithm   *)
(* names, the digest input of RFC 8945 4.3 for the request MAC / timers-only   *)
(* setting in force, the MAC carried, the time verdict -- to vectors.ndjson;   *)
(* the harness (`tsig judge') applies crypto/hmac to the digest input and      *)
(* compares with the MAC and with the verdict the real code gave.              *)
(*   verify  one verification with explicit request MAC / timers-only / clock  *)
(*   q       start of a session: the (signed) request as sent -- whether or    *)
(*           not it verifies: signed TSIG error responses chain on its MAC too *)
(*   env     the next envelope of the session (SignEnv / VerifyEnv of Tsig):   *)
(*           request MAC and timers-only come from the session state           *)
(*   cw      a client connection (dns.Conn) writes a request: ConnWrite; the   *)
(*           line emitted says what a REQUEST's MAC covers (noted, not judged) *)
(*   cr      the connection reads a message: ConnReadDigest -- the request MAC *)
(*           of the transaction, full variables, state unchanged by the read   *)
EXTENDS Tsig, TraceBase, GenBase

VARIABLES l, s      \* cursor; session state [prev, timers]

Ev == Trace[l]

Line(e, st, d, now) ==
  IF d.st # "ok" THEN [i |-> e.i, ev |-> e.ev, st |-> d.st]
  ELSE LET base == [i |-> e.i, ev |-> e.ev, st |-> "ok", wf |-> d.wf, strict |-> d.strict, key |-> d.t.key, alg |-> d.t.alg,
                    class |-> d.t.class, ttl |-> d.t.ttl,
                    digest |-> d.digest, mac |-> d.t.mac, timeok |-> InWindow(now, d.t.time, d.t.fudge)] IN
       \* a signer stamps the message when it signs it (RFC 8945 4.2 "time signed"): not more than a second before the
       \* moment the message was handed to it
       IF Has(e, "handed") THEN [x \in DOMAIN base \cup {"fresh"} |->
                                   IF x = "fresh" THEN SignedNotBefore(d.t, e.handed, 1) ELSE base[x]]
       ELSE base

WellFormed(e) == /\ Has(e, "i") /\ Has(e, "ev") /\ Has(e, "octets") /\ IsOctets(e.octets)

Init == l = 1 /\ s = Session(<<>>) /\ HWInit

Step ==
  LET e == Ev IN
  IF ~WellFormed(e) THEN MarkBad(l) /\ s' = s
  ELSE CASE e.ev = "verify" ->
              /\ Emit(Line(e, s, EnvDigest([prev |-> e.reqmac, timers |-> e.timers], e.octets), e.now))
              /\ s' = s
         [] e.ev = "q" ->
              LET p == SplitTsig(e.octets) IN
              /\ s' = IF p.st = "ok" THEN Session(p.t.mac) ELSE Session(<<>>)
         [] e.ev = "env" ->
              LET d == EnvDigest(s, e.octets) IN
              /\ Emit(Line(e, s, d, e.now))
              /\ s' = IF d.st = "ok" THEN d.next ELSE s
         [] e.ev = "cw" ->
              /\ Emit(Line(e, s, ConnRequestDigest(e.octets), e.now))
              /\ s' = ConnWrite(s, e.octets)
         [] e.ev = "cr" ->
              /\ Emit(Line(e, s, ConnReadDigest(s, e.octets), e.now))
              /\ s' = s
         [] e.ev = "open" -> s' = ConnOpen
         [] OTHER -> MarkBad(l) /\ s' = s

Next == /\ l <= Len(Trace)
        /\ Step
        /\ HW(l)
        /\ l' = l + 1
=============================================================================
