---------------------------- MODULE Gen_Admission ----------------------------
(* Vector generators for C14.  Every vector is one TLC state; the invariant   *)
(* Out evaluates Admission.tla on it and appends the case with the expected   *)
(* results to vectors.ndjson.                                                 *)
(*   Mode "pkt"   : header (QR, opcode, qd, an, ns, ar) x body kind; the      *)
(*                  expected outcome for both values of "decodes" and the     *)
(*                  spec's own verdict on decodes ("yes" | "no" | "either")   *)
(*   Mode "short" : the 12 proper prefixes of a valid query                   *)
(*   Mode "phase" : packets x the lifecycle phases other than "serving": every *)
(*                  header the policy accepts with every body, one header of  *)
(*                  each other policy class (shard-dependent) with bodies     *)
(*                  none / full / garbage, and the short prefixes             *)
(*   Mode "seq"   : sequences of 2..SeqLen messages of 8 classes received by   *)
(*                  ONE server life; every message with the outcome          *)
(*                  OutcomeAfter gives it behind the earlier ones and whether *)
(*                  it ends the service (EndsService: never)                  *)
(*   Mode "route" : pattern subset x question name x qtype x request flags    *)
EXTENDS Admission, GenBase

CONSTANTS Mode, Shard, NShards, SeqLen

VARIABLES v

-----------------------------------------------------------------------------
\* labels
Lex    == <<101,120,97,109,112,108,101>>     \* example
LEX    == <<69,88,65,77,80,76,69>>           \* EXAMPLE
LEx    == <<69,120,97,109,80,108,101>>       \* ExamPle
Lsub   == <<115,117,98>>                     \* sub
LSub   == <<83,117,66>>                      \* SuB
La     == <<97>>
Lb     == <<98>>
Lx     == <<120>>
Lample == <<97,109,112,108,101>>             \* ample
Lorg   == <<111,114,103>>
LOrg   == <<79,114,103>>                     \* Org
Lnet   == <<110,101,116>>
Lxex   == <<120>> \o Lex                      \* xexample
Ladots == <<97,46,115,117,98>>               \* the single label "a.sub"
Lsdots == <<115,117,98,46>> \o Lex            \* the single label "sub.example"

\* the registered patterns, with the spelling handed to Handle()
PatSeq == << <<>>, <<Lex>>, <<LSub, Lex>>, <<La, Lsub, Lex>>, <<Lample>>, <<LOrg>> >>
NameSeq == << <<>>, <<Lex>>, <<LEX>>, <<Lsub, Lex>>, <<LSub, LEx>>, <<La, Lsub, Lex>>, <<Lx, Lsub, Lex>>,
              <<Lb, La, Lsub, Lex>>, <<Lxex>>, <<Lample>>, <<Lx, Lample>>, <<Lnet>>, <<Ladots, Lex>>,
              <<Lsub>>, <<Lex, Lorg>>, <<Lorg>>, <<Lsdots>>, <<Lb, Lx, Lsub, Lex>>,
              <<Lx, Lb, Lx, Lsub, Lex>>, <<La, Lb, Lx, Lex>>, <<Lx, Lb, La, Lsub, Lex>> >>      \* 1..3 labels below the closest pattern
QTypes == <<1, TypeDS, 2>>
\* (opcode, rd, cd) of the request given to the multiplexer
Flavours == << <<0,0,0>>, <<0,1,1>>, <<0,1,0>>, <<4,1,1>>, <<5,0,1>>, <<0,0,1>> >>

RECURSIVE SubsetOf(_, _)
SubsetOf(bits, i) ==     \* indices i..6 whose bit is set in `bits'
  IF i > Len(PatSeq) THEN {} ELSE (IF (bits \div Pow2(i - 1)) % 2 = 1 THEN {i} ELSE {}) \cup SubsetOf(bits, i + 1)

-----------------------------------------------------------------------------
\* packets
QName == <<2, 97, 98, 1, 99, 0>>                 \* ab.c.
QText == <<97, 98, 46, 99, 46>>
Question == QName \o <<0, 1, 0, 1>>               \* A IN
RRec == <<192, 12, 0, 1, 0, 1, 0, 0, 0, 60, 0, 4, 127, 0, 0, 1>>     \* ab.c. 60 IN A 127.0.0.1 (name = pointer to the question)
Rep(s, n) == Concat([i \in 1..n |-> s])

BodyKinds == 0..13
\*  0 none | 1 full: qd questions and an+ns+ar records | 2..10 the first question cut after 1..9 octets
\* 11 garbage (a label with the reserved type bits 10) | 12 one question, nothing else | 13 full minus its last 3 octets
Full(h) == Rep(Question, h.qd) \o Rep(RRec, h.an + h.ns + h.ar)
Body(h, b) ==
  CASE b = 0 -> <<>>
    [] b = 1 -> Full(h)
    [] b \in 2..10 -> Sub(Question, 1, b - 1)
    [] b = 11 -> <<128, 255, 255>>
    [] b = 12 -> Question
    [] b = 13 -> Sub(Full(h), 1, Len(Full(h)) - 3)

(* Does the message decode?  The spec only commits itself where no reading    *)
(* of RFC 1035 disagrees: "yes" when the sections hold exactly what the       *)
(* counts announce; "no" when the message ends inside a name, inside a 16-bit *)
(* field or inside RDATA, or holds a label of a reserved type; "either" when  *)
(* the counts announce more than there is but what is there is whole (the     *)
(* library is lenient about that; strictness would be as defensible).         *)
\* AMBIG
Decodes(h, b) ==
  CASE b = 1 -> "yes"
    [] b = 12 -> IF h.qd = 1 /\ h.an + h.ns + h.ar = 0 THEN "yes" ELSE "either"
    [] b \in {2, 3, 4, 5, 6, 8, 10} -> IF h.qd >= 1 THEN "no" ELSE "either"    \* 1..5 octets: inside the name; 7, 9: inside qtype / qclass
    [] b = 11 -> IF h.qd >= 1 THEN "no" ELSE "either"
    [] b = 13 -> IF Len(Full(h)) >= 3 THEN "no" ELSE "either"
    [] OTHER -> "either"

FlagVariant(k) ==
  CASE k = 0 -> [aa |-> 0, tc |-> 0, rd |-> 0, ra |-> 0, z |-> 0, ad |-> 0, cd |-> 0, rcode |-> 0]
    [] k = 1 -> [aa |-> 0, tc |-> 0, rd |-> 1, ra |-> 0, z |-> 0, ad |-> 0, cd |-> 0, rcode |-> 0]
    [] k = 2 -> [aa |-> 0, tc |-> 0, rd |-> 1, ra |-> 0, z |-> 0, ad |-> 1, cd |-> 1, rcode |-> 0]
    [] k = 3 -> [aa |-> 1, tc |-> 1, rd |-> 0, ra |-> 1, z |-> 1, ad |-> 0, cd |-> 1, rcode |-> 3]

\* v = <<qr, opcode, qd, an, ns, ar, body>>
HIdx(w) == ((((w[1] * 16 + w[2]) * 4 + w[3]) * 4 + w[4]) * 4 + w[5]) * 4 + w[6]
HdrOf(w) ==
  LET f == FlagVariant((w[2] + w[3] + w[4] + w[5] + w[6] + w[7]) % 4) IN
  [id |-> (HIdx(w) + 8192 * (w[7] % 8)) % 65536, qr |-> w[1], opcode |-> w[2],
   aa |-> f.aa, tc |-> f.tc, rd |-> f.rd, ra |-> f.ra, z |-> f.z, ad |-> f.ad, cd |-> f.cd, rcode |-> f.rcode,
   qd |-> w[3], an |-> w[4], ns |-> w[5], ar |-> w[6]]

\* always generated: every header with bodies none / full, and the headers the policy accepts with every body;
\* the rest is spread over the shards
Always(w) == w[7] \in {0, 1} \/ Policy(HdrOf(w)) = "accept"
InShard(w) == (HIdx(w) + 5 * w[7]) % NShards = Shard

OutRec(o, h) ==
  [handled |-> o.handled, invalid |-> o.invalid, reply |-> o.reply,
   exp |-> IF o.reply \in {"formerr", "notimp"} THEN ReplyExpect(h, o.reply) ELSE ReplyExpect(h, "formerr")]

\* a message with header h and body kind b, received in phase ph behind the messages `pre'
PktVectorH(ph, pre, h, b) ==
  LET pkt == EncHeader(h) \o Body(h, b)
      d == Decodes(h, b) IN
  [kind |-> "pkt", phase |-> ph, pkt |-> pkt, hdr |-> h, body |-> b, policy |-> Policy(h), dec |-> d,
   ifdec |-> OutRec(IF pre = <<>> THEN OutcomeAt(ph, Len(pkt), h, TRUE) ELSE OutcomeAfter(pre, Len(pkt), h, TRUE), h),
   ifnot |-> OutRec(IF pre = <<>> THEN OutcomeAt(ph, Len(pkt), h, FALSE) ELSE OutcomeAfter(pre, Len(pkt), h, FALSE), h),
   ends |-> EndsService(Len(pkt), h),        \* does the serve call come back because of this message?
   \* the decoded request a handler must be given when the spec is sure the message decodes
   req |-> [nq |-> IF b = 1 THEN h.qd ELSE 1, nan |-> IF b = 1 THEN h.an ELSE 0,
            nns |-> IF b = 1 THEN h.ns ELSE 0, nar |-> IF b = 1 THEN h.ar ELSE 0,
            qname |-> QText, qtype |-> 1, qclass |-> 1]]

PktVectorAt(ph, w) == PktVectorH(ph, <<>>, HdrOf(w), w[7])
PktVector(w) == PktVectorAt("serving", w)

ShortVectorH(ph, pre, h, n) ==
  LET pkt == Sub(EncHeader(h) \o Question, 1, n) IN
  [kind |-> "pkt", phase |-> ph, pkt |-> pkt, hdr |-> h, body |-> 100 + n, policy |-> "short", dec |-> "no",
   ifdec |-> OutRec(IF pre = <<>> THEN OutcomeAt(ph, n, h, TRUE) ELSE OutcomeAfter(pre, n, h, TRUE), h),
   ifnot |-> OutRec(IF pre = <<>> THEN OutcomeAt(ph, n, h, FALSE) ELSE OutcomeAfter(pre, n, h, FALSE), h),
   ends |-> EndsService(n, h),
   req |-> [nq |-> 0, nan |-> 0, nns |-> 0, nar |-> 0, qname |-> <<>>, qtype |-> 0, qclass |-> 0]]
ShortVectorAt(ph, n) == ShortVectorH(ph, <<>>, HdrOf(<<0, 0, 1, 0, 0, 0, 12>>), n)
ShortVector(n) == ShortVectorAt("serving", n)

\* Mode "seq": one server life (one socket, one connection) that receives 2..SeqLen messages, each of one of these
\* classes: <<0, n>> a prefix of n octets, <<1, w>> a message as in mode "pkt".  The k-th message carries the ID 1000 + k.
SeqAlphabet == << <<0, 0>>, <<0, 5>>, <<0, 11>>,
                  <<1, <<0, 0, 1, 0, 0, 0, 1>>>>,      \* accepted, decodes: handled
                  <<1, <<0, 0, 1, 0, 0, 0, 11>>>>,     \* accepted, does not decode: reported + FORMERR
                  <<1, <<0, 0, 2, 0, 0, 0, 1>>>>,      \* two questions: FORMERR
                  <<1, <<0, 2, 1, 0, 0, 0, 1>>>>,      \* opcode 2: NOTIMP
                  <<1, <<1, 0, 1, 0, 0, 0, 1>>>> >>    \* a response: ignored
SeqHdr(k, a) == [HdrOf(IF a[1] = 0 THEN <<0, 0, 1, 0, 0, 0, 12>> ELSE a[2]) EXCEPT !.id = 1000 + k]
SeqLenOf(k, a) == IF a[1] = 0 THEN a[2] ELSE Len(EncHeader(SeqHdr(k, a)) \o Body(SeqHdr(k, a), a[2][7]))
SeqVector(s) ==
  LET pre(k) == [j \in 1..(k - 1) |-> [len |-> SeqLenOf(j, SeqAlphabet[s[j]])]] IN
  [kind |-> "seq",
   msgs |-> [k \in 1..Len(s) |->
               LET a == SeqAlphabet[s[k]] IN
               IF a[1] = 0 THEN ShortVectorH("serving", pre(k), SeqHdr(k, a), a[2])
               ELSE PktVectorH("serving", pre(k), SeqHdr(k, a), a[2][7])]]

\* Mode "phase": v = <<phase, 0, <<n, 0, 0, 0, 0, 0, 0>>>> (a short prefix) or <<phase, 1, w>> (w as in mode "pkt")
PhaseHeader(w) == \/ Policy(HdrOf(w)) = "accept"
                  \/ w[7] \in {0, 1, 11} /\ HIdx(w) % NShards = Shard
PhaseVector(x) == IF x[2] = 0 THEN ShortVectorAt(x[1], x[3][1]) ELSE PktVectorAt(x[1], x[3])

-----------------------------------------------------------------------------
\* v = <<subset bits, name index (0 = request without a question), qtype index, flavour index>>
IdxOf(p) == CHOOSE i \in 1..Len(PatSeq) : LowerName(PatSeq[i]) = p
RouteVector(w) ==
  LET idx == SubsetOf(w[1], 1)
      PSet == { LowerName(PatSeq[i]) : i \in idx }
      fl == Flavours[w[4]]
      \* 0, 1 or 2 further questions behind the first (routing and the REFUSED echo look at the first only)
      xq == IF w[2] = 0 THEN <<>> ELSE SubSeq(<< Present(<<Lnet>>), Present(<<Lex, Lorg>>) >>, 1, (w[1] + w[2] + w[4]) % 3)
      h == [id |-> (w[1] * 997 + w[2] * 31 + w[3]) % 65536, qr |-> 0, opcode |-> fl[1], aa |-> 0, tc |-> 0, rd |-> fl[2],
            ra |-> 0, z |-> 0, ad |-> 0, cd |-> fl[3], rcode |-> 0, qd |-> IF w[2] = 0 THEN 0 ELSE 1 + Len(xq), an |-> 0, ns |-> 0, ar |-> 0]
      ord == [i \in 1..Len(PatSeq) |-> i]
      pl == SelectSeq(ord, LAMBDA i : i \in idx)
  IN
  IF w[2] = 0 THEN
    \* no question: nothing to match.  REFUSED; whether the root pattern, "the last resort", should get it
    \* is not said: admitted as well.                                                              \* AMBIG
    [kind |-> "route", pats |-> [k \in 1..Len(pl) |-> Present(PatSeq[pl[k]])], patidx |-> pl,
     hasq |-> FALSE, qname |-> <<>>, qtype |-> 0, hdr |-> h, cls |-> "noquestion", extraq |-> xq, emptyrefused |-> TRUE,
     admitted |-> IF 1 \in idx THEN <<1>> ELSE <<>>, refused |-> TRUE, past |-> <<>>,
     exp |-> ReplyExpect(h, "refused")]
  ELSE
    LET qn == NameSeq[w[2]]
        qt == QTypes[w[3]]
        R == RouteSet(PSet, qn, qt)
        adm == { IdxOf(r.pat) : r \in { x \in R : x.kind = "handler" } }
        past == { IdxOf(p) : p \in PastNearest(PSet, qn, qt) } IN
    [kind |-> "route", pats |-> [k \in 1..Len(pl) |-> Present(PatSeq[pl[k]])], patidx |-> pl,
     hasq |-> TRUE, qname |-> Present(qn), qtype |-> qt, hdr |-> h, cls |-> RouteClass(PSet, qn, qt), extraq |-> xq,
     emptyrefused |-> Refused \in RouteSet({}, qn, qt),      \* the same request while nothing is registered
     admitted |-> SelectSeq(ord, LAMBDA i : i \in adm), refused |-> Refused \in R,
     past |-> SelectSeq(ord, LAMBDA i : i \in past),
     exp |-> ReplyExpect(h, "refused")]

-----------------------------------------------------------------------------
Init ==
  \/ /\ Mode = "pkt"
     /\ v \in { w \in (0..1) \X (0..15) \X (0..3) \X (0..3) \X (0..3) \X (0..3) \X BodyKinds : Always(w) \/ InShard(w) }
  \/ Mode = "short" /\ v \in { <<n>> : n \in 0..11 }
  \/ /\ Mode = "phase"
     /\ v \in { <<ph, 0, <<n, 0, 0, 0, 0, 0, 0>>>> : ph \in Phases \ {"serving"}, n \in 0..11 }
          \cup { <<ph, 1, w>> : ph \in Phases \ {"serving"},
                                w \in { u \in (0..1) \X (0..15) \X (0..3) \X (0..3) \X (0..3) \X (0..3) \X BodyKinds : PhaseHeader(u) } }
  \/ /\ Mode = "seq"
     /\ v \in UNION { [1..n -> 1..Len(SeqAlphabet)] : n \in 2..SeqLen }
  \/ /\ Mode = "route"
     /\ v \in { w \in (0..(Pow2(Len(PatSeq)) - 1)) \X (0..Len(NameSeq)) \X (1..Len(QTypes)) \X (1..Len(Flavours)) :
                  (w[1] + w[2] + w[3]) % Len(Flavours) = w[4] - 1 \/ (w[2] = 0 /\ w[3] = 1 /\ w[4] <= 2) }
Next == UNCHANGED v

Out ==
  CASE Mode = "pkt"   -> Emit(PktVector(v))
    [] Mode = "short" -> Emit(ShortVector(v[1]))
    [] Mode = "phase" -> Emit(PhaseVector(v))
    [] Mode = "seq"   -> Emit(SeqVector(v))
    [] Mode = "route" -> Emit(RouteVector(v))
=============================================================================
