CONSTANTS
  MaxLabel = 63
  MaxName = 255
  Scale = 0
INIT Init
NEXT Next
INVARIANTS NV_ExtRcodeWithOpt NV_Unpackable NV_Nodata NV_NormDiffers NV_FieldDecoded NV_NotDecodable NV_PlanNames NV_TwoRecords NV_BitmapWindows NV_OptNotLast
CHECK_DEADLOCK FALSE
