------------------------------ MODULE Builders ------------------------------
(* The message builders and small predicates of defaults.go as operators on     *)
(* WireRR's abstract message [hdr, q, an, ns, ar].  A builder changes the       *)
(* fields it names and nothing else (it may be applied to a message that is not *)
(* fresh).  "Id()" is a fresh random id: the id after such a builder is free.   *)
(*                                                                            *)
(* Statements:                                                                  *)
(*  SetReply     RFC 1035 s.4.1.1: a response carries the query's ID, QR = 1,   *)
(*               the query's OPCODE; "RD ... may be set in a query and is       *)
(*               copied into the response"; CD likewise (RFC 4035 s.3.2.2);     *)
(*               RCODE 0; the question section of the query                     *)
(*  SetQuestion  question (z, t, IN), RD = 1, new id                            *)
(*  SetNotify    RFC 1996 s.3.7: opcode NOTIFY, AA = 1, question (z, SOA, IN)   *)
(*  SetRcode     SetReply, then RCODE                                           *)
(*  SetRcodeFormatError   RCODE 1, opcode QUERY, QR = 1, AA = 0, the request id *)
(*  SetUpdate    RFC 2136 s.2.2/2.3: opcode UPDATE, QR = 0, zone (z, SOA, IN)   *)
(*  SetIxfr      RFC 1995 s.3: question (z, IXFR, IN), authority = the client's *)
(*               SOA (serial, mname, rname; TTL 3600 = the library's default)   *)
(*  SetAxfr      RFC 5936 s.2.1: question (z, AXFR, IN)                         *)
(*  SetTsig      a skeleton TSIG appended LAST to the additional section        *)
(*               (RFC 8945 s.5.1), class ANY, TTL 0, original id = the id       *)
(*  IsTsig       the TSIG record if it is the last additional record            *)
(*  IsEdns0      an OPT record anywhere in the additional section (RFC 6891     *)
(*               s.6.1.1)                                                       *)
(*  IsRRset      RFC 2181 s.5: same owner (names compare case-insensitively,    *)
(*               RFC 4343), class and type; "IsRRset reports whether a set of   *)
(*               RRs is a valid RRset"                                          *)
(*  IsMsg        at least the 12 header octets                                  *)
(*  IsFqdn / Fqdn / CanonicalName   Names!IsFqdnSpec / FqdnSpec / CanonicalSpec *)
(*               ("lowercase and fully qualified.  Only US-ASCII letters are    *)
(*               affected", RFC 4034 s.6.2) -- over octets                      *)
EXTENDS WireRR

Zero4 == <<0, 0, 0, 0>>
TypeSOA == 6  TypeIXFR == 251  TypeAXFR == 252  TypeTSIG == 250
ClassIN == 1  ClassANYc == 255
OpQuery == 0  OpNotify == 4  OpUpdate == 5

Qn(name, t) == [name |-> name, qtype |-> t, qclass |-> ClassIN]

FreshHdr == [id |-> 0, qr |-> FALSE, opcode |-> 0, aa |-> FALSE, tc |-> FALSE, rd |-> FALSE, ra |-> FALSE,
             z |-> FALSE, ad |-> FALSE, cd |-> FALSE, rcode |-> 0]
Fresh == [hdr |-> FreshHdr, q |-> <<>>, an |-> <<>>, ns |-> <<>>, ar |-> <<>>]

(* AMBIG, decided by pol and all admitted:                                      *)
(*   pol.nq   RD / CD are copied into the reply for every opcode (RFC 1035      *)
(*            reads so) or only for QUERY (the library: other opcodes define    *)
(*            these bits differently or not at all)                             *)
(*   pol.allq the whole question section is copied, or its first entry (QDCOUNT *)
(*            above 1 is not used in practice)                                  *)
Pols == [nq : BOOLEAN, allq : BOOLEAN]

SetReply(m, req, pol) ==
  LET copy == req.hdr.opcode = OpQuery \/ pol.nq IN
  [m EXCEPT !.hdr.id = req.hdr.id, !.hdr.qr = TRUE, !.hdr.opcode = req.hdr.opcode,
            !.hdr.rd = IF copy THEN req.hdr.rd ELSE @, !.hdr.cd = IF copy THEN req.hdr.cd ELSE @,
            !.hdr.rcode = 0,
            !.q = IF req.q = <<>> THEN @ ELSE IF pol.allq THEN req.q ELSE << req.q[1] >>]
SetReplyAdm(m, req) == { SetReply(m, req, pol) : pol \in Pols }

SetRcode(m, req, rcode, pol) == [SetReply(m, req, pol) EXCEPT !.hdr.rcode = rcode]
SetRcodeAdm(m, req, rcode) == { SetRcode(m, req, rcode, pol) : pol \in Pols }

SetRcodeFormatError(m, req) ==
  [m EXCEPT !.hdr.rcode = 1, !.hdr.opcode = OpQuery, !.hdr.qr = TRUE, !.hdr.aa = FALSE, !.hdr.id = req.hdr.id]

\* builders that take a new id: the id field of the result is not constrained (the
\* binding compares everything else)
SetQuestion(m, z, t) == [m EXCEPT !.hdr.rd = TRUE, !.q = << Qn(z, t) >>]
SetNotify(m, z)      == [m EXCEPT !.hdr.opcode = OpNotify, !.hdr.aa = TRUE, !.q = << Qn(z, TypeSOA) >>]
SetUpdate(m, z)      == [m EXCEPT !.hdr.opcode = OpUpdate, !.hdr.qr = FALSE, !.q = << Qn(z, TypeSOA) >>]
SetAxfr(m, z)        == [m EXCEPT !.q = << Qn(z, TypeAXFR) >>]
SoaOf(z, serial, ns, mbox) ==
  [name |-> z, type |-> TypeSOA, class |-> ClassIN, ttl |-> <<0, 0, 14, 16>>, nodata |-> FALSE,
   f |-> [Ns |-> ns, Mbox |-> mbox, Serial |-> serial, Refresh |-> Zero4, Retry |-> Zero4, Expire |-> Zero4, Minttl |-> Zero4]]
SetIxfr(m, z, serial, ns, mbox) == [m EXCEPT !.q = << Qn(z, TypeIXFR) >>, !.ns = << SoaOf(z, serial, ns, mbox) >>]

TsigOf(z, algo, fudge, time6, id) ==
  [name |-> z, type |-> TypeTSIG, class |-> ClassANYc, ttl |-> Zero4, nodata |-> FALSE,
   f |-> [Algorithm |-> algo, TimeSigned |-> time6, Fudge |-> fudge, MACSize |-> 0, MAC |-> <<>>, OrigId |-> id,
          Error |-> 0, OtherLen |-> 0, OtherData |-> <<>>]]
SetTsig(m, z, algo, fudge, time6) == [m EXCEPT !.ar = Append(@, TsigOf(z, algo, fudge, time6, m.hdr.id))]

\* positions (1-based, 0 = none) over the types of the additional section
IsTsigAt(types) == IF types # <<>> /\ types[Len(types)] = TypeTSIG THEN Len(types) ELSE 0
IsEdns0Adm(types) == LET S == { i \in 1..Len(types) : types[i] = TypeOPT } IN IF S = {} THEN {0} ELSE S     \* "any ... will do"

\* IsRRset over <<ownerText, type, class>> triples
SameOwner(a, b) == Lower(FqdnSpec(a)) = Lower(FqdnSpec(b))
IsRRset(rrs) == /\ rrs # <<>>
                /\ \A i \in 2..Len(rrs) : SameOwner(rrs[i][1], rrs[1][1]) /\ rrs[i][2] = rrs[1][2] /\ rrs[i][3] = rrs[1][3]

\* AMBIG: an owner written without its final dot is the same name under Fqdn, but record owners are
\* meant to be fully qualified: when that spelling is the only difference both answers are admitted
DotOnly(rrs) == IsRRset(rrs) /\ \E i \in 2..Len(rrs) : Lower(rrs[i][1]) # Lower(rrs[1][1])
IsRRsetAdm(rrs) == IF DotOnly(rrs) THEN {TRUE, FALSE} ELSE { IsRRset(rrs) }

IsMsgOK(n) == n >= 12                     \* n = number of octets

\* the flag word of a header (RFC 1035 s.4.1.1 with AD / CD of RFC 4035)
FlagWord(h) == LET f == EncFlags(h) IN f[1] * 256 + f[2]
HdrOfWord(id, w) == DecHeader(<< id \div 256, id % 256, w \div 256, w % 256 >>)
=============================================================================
