------------------------------ MODULE Gen_Edns ------------------------------
(* Vectors for X01.                                                             *)
(*  Mode "ops":  every sequence of at most N operations over the boundary       *)
(*               arguments below, from each of the initial headers Inits[Start];*)
(*               expected = the view (TTL word, class, every getter) after each *)
(*               step.                                                          *)
(*  Mode "msg":  RCODE boundary values x additional-section shapes (A records   *)
(*               and at most one OPT, given or appended by SetEdns0) x OPT      *)
(*               header corners; expected = packable, the message octets, the   *)
(*               caller's OPT after Pack, what Unpack must recover.             *)
EXTENDS Edns, GenBase

CONSTANTS Mode, N, Start, Shard, NShards

VARIABLES v

Op(n, a, bs) == [op |-> n, v |-> a, bs |-> bs]
Ops ==
  << Op("SetDo", 0, <<>>), Op("SetDo", 0, <<TRUE>>), Op("SetDo", 0, <<FALSE>>), Op("SetDo", 0, <<FALSE, FALSE>>),
     Op("SetCo", 0, <<>>), Op("SetCo", 0, <<TRUE>>), Op("SetCo", 0, <<FALSE>>), Op("SetCo", 0, <<FALSE, TRUE>>),
     Op("SetZ", 0, <<>>), Op("SetZ", 1, <<>>), Op("SetZ", 8191, <<>>), Op("SetZ", 8192, <<>>), Op("SetZ", 16383, <<>>),
     Op("SetZ", 16384, <<>>), Op("SetZ", 32768, <<>>), Op("SetZ", 49153, <<>>), Op("SetZ", 65535, <<>>),
     Op("SetVersion", 0, <<>>), Op("SetVersion", 1, <<>>), Op("SetVersion", 127, <<>>), Op("SetVersion", 128, <<>>),
     Op("SetVersion", 255, <<>>),
     Op("SetExtendedRcode", 0, <<>>), Op("SetExtendedRcode", 1, <<>>), Op("SetExtendedRcode", 15, <<>>),
     Op("SetExtendedRcode", 16, <<>>), Op("SetExtendedRcode", 17, <<>>), Op("SetExtendedRcode", 255, <<>>),
     Op("SetExtendedRcode", 256, <<>>), Op("SetExtendedRcode", 4080, <<>>), Op("SetExtendedRcode", 4095, <<>>),
     Op("SetExtendedRcode", 4096, <<>>), Op("SetExtendedRcode", 65535, <<>>),
     Op("SetUDPSize", 0, <<>>), Op("SetUDPSize", 512, <<>>), Op("SetUDPSize", 1232, <<>>), Op("SetUDPSize", 4096, <<>>),
     Op("SetUDPSize", 65535, <<>>) >>

H(rc, ver, fl, udp) == [rc |-> rc, ver |-> ver, fl |-> fl, udp |-> udp]
Inits == << H(0, 0, 0, 0), H(255, 255, 65535, 65535), H(165, 90, 50115, 1232), H(90, 165, 15420, 4096) >>

InShard(q) == SumSeq([i \in 1..Len(q) |-> i * q[i]]) % NShards = Shard

RECURSIVE Steps(_, _)
Steps(o, q) ==      \* the views after each operation of q, with the operation
  IF q = <<>> THEN <<>>
  ELSE LET op == Ops[Head(q)]  o2 == Apply(o, op) IN
       << [op |-> op.op, v |-> op.v, bs |-> op.bs, exp |-> View(o2)] >> \o Steps(o2, Tail(q))

OpsVector(q) ==
  LET o == Inits[Start] IN
  [kind |-> "ops", w0 |-> Word(o), c0 |-> o.udp, view0 |-> View(o), steps |-> Steps(o, q)]

-----------------------------------------------------------------------------
Rcodes == {-1, 0, 1, 15, 16, 17, 291, 4080, 4095, 4096}
ARShapes ==        \* "a" = an A record, "o" = the OPT; at most one OPT
  { <<>>, <<"a">>, <<"o">>, <<"a", "a">>, <<"a", "o">>, <<"o", "a">>,
    <<"a", "a", "a">>, <<"o", "a", "a">>, <<"a", "o", "a">>, <<"a", "a", "o">> }
HasO(sh) == \E i \in 1..Len(sh) : sh[i] = "o"

ARec == [name |-> << <<97>> >>, type |-> 1, class |-> 1, ttl |-> <<0, 0, 14, 16>>, nodata |-> FALSE, f |-> [A |-> <<192, 0, 2, 1>>]]
MHdr(rcode) == [id |-> 4660, qr |-> TRUE, opcode |-> 0, aa |-> FALSE, tc |-> FALSE, rd |-> TRUE, ra |-> TRUE,
                z |-> FALSE, ad |-> FALSE, cd |-> FALSE, rcode |-> rcode]
Q == [name |-> << <<97>> >>, qtype |-> 1, qclass |-> 1]

\* case: [rcode, shape, h (index into Inits), via (use SetEdns0), udp, do]
MsgOf(c) ==
  LET ar0 == [i \in 1..Len(c.shape) |-> IF c.shape[i] = "o" THEN OptRR(Inits[c.h]) ELSE ARec]
      m0  == [hdr |-> MHdr(c.rcode), q |-> <<Q>>, an |-> <<ARec>>, ns |-> <<>>, ar |-> ar0]
  IN IF c.via THEN SetEdns0(m0, c.udp, c.do) ELSE m0

MsgVector(c) ==
  LET m  == MsgOf(c)
      ok == Packable(m)
      ix == IsEdns0(m)
      w  == IF ok THEN EncMsg(m) ELSE <<>>
      d  == IF ok THEN DecMsg(w) ELSE [ok |-> FALSE]
  IN [kind |-> "msg", rcode |-> c.rcode, shape |-> c.shape, w0 |-> Word(Inits[c.h]), c0 |-> Inits[c.h].udp,
      via |-> c.via, udp |-> c.udp, do |-> c.do,
      optidx |-> ix,                                              \* IsEdns0 on the built message (1-based, 0 = none)
      optview |-> IF ix = 0 THEN <<>> ELSE << View(HdrOfRR(m.ar[ix])) >>,     \* before Pack
      packable |-> ok, wire |-> w,
      after |-> IF ok /\ ix # 0 THEN << View(HdrOfRR(AfterPack(m).ar[ix])) >> ELSE <<>>,   \* the caller's OPT after Pack
      dec_rcode |-> IF ok THEN d.msg.hdr.rcode ELSE 0,
      dec_view |-> IF ok /\ ix # 0 THEN << View(HdrOfRR(d.msg.ar[ix])) >> ELSE <<>>]

MsgCases ==
     { [rcode |-> r, shape |-> sh, h |-> h, via |-> FALSE, udp |-> 0, do |-> FALSE] :
          r \in Rcodes, sh \in ARShapes, h \in (IF N >= 1 THEN 1..Len(Inits) ELSE {Start}) }
  \cup { [rcode |-> r, shape |-> sh, h |-> 1, via |-> TRUE, udp |-> u, do |-> d] :
          r \in Rcodes, sh \in { s \in ARShapes : ~HasO(s) /\ Len(s) <= 2 }, u \in {0, 1232, 65535}, d \in BOOLEAN }

-----------------------------------------------------------------------------
Init ==
  \/ Mode = "ops" /\ v \in UNION { [1..k -> 1..Len(Ops)] : k \in 0..N } /\ InShard(v)
  \/ Mode = "msg" /\ v \in MsgCases
Next == UNCHANGED v

Out == CASE Mode = "ops" -> Emit(OpsVector(v))
         [] Mode = "msg" -> Emit(MsgVector(v))
=============================================================================
