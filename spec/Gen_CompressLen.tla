-------------------------- MODULE Gen_CompressLen --------------------------
(* Vector generator for C08: Gen_WireRR's vectors plus, for each, what the       *)
(* CompressLen machines say the library predicts and emits with Compress = TRUE  *)
(*    limpl = LenImplMsg(m, TRUE)   pimpl = PackImplMsg(m, TRUE)                 *)
(*    exact = ExactOutsideNames(m): Len() and len(Pack()) must EQUAL them        *)
(* and one more mode:                                                            *)
(* "straddle"  the 16384-octet pointer limit crossed at EVERY kind of name       *)
(*    position the length predictor visits separately.  For every type and every *)
(*    RDATA field that holds a name (name, cname, names list, gateway host) a    *)
(*    message                                                                    *)
(*       question | TXT pad record | X = the type with Target in that field |    *)
(*       A z.Target | NS -> Target | MX -> a proper suffix of Target             *)
(*    is padded so that Target (which occurs nowhere before) starts at offset    *)
(*    16384 - k, k = -3..20: the record X straddles the limit (its start below,  *)
(*    Target's labels at or past it), and the later names could only compress    *)
(*    against labels first seen in X.  v = <<position, k>>.  These vectors carry *)
(*    no octets (nobytes): C01's modes already check the octets of every type.   *)
(* "sizes"     a caller may hand the packer a record whose stored length field *)
(*    (SaltLength, HashLength, HitLength, PublicKeyLength, KeySize, OtherLen,     *)
(*    MACSize) disagrees with the data it sizes: 0, one less, three more.  Such a *)
(*    record is not well-formed on the wire, but it "can be packed" (the library  *)
(*    writes the fields as given, which is what EncRdata does too), so C08's      *)
(*    clauses apply: Len() and Len(rr) must cover what Pack() writes.  Flagged    *)
(*    loose; never decoded.  v = <<type, sized entry index (0: all), data length, *)
(*    stored length>>.                                                            *)
(* "spell"     content that has many SPELLINGS.  For every type and every RDATA    *)
(*    field packed from escaped text -- character-strings (str, ostr), string     *)
(*    lists (strs: TXT, SPF, AVC, NINFO, RESINFO), dns:"octet" values (CAA, URI), *)
(*    names, name lists, gateway hosts -- a record whose field holds digits and    *)
(*    letters side by side: runs of one, two, three and four digits before a       *)
(*    letter, a punctuation mark, a label end and the end of the string, 3 to 14   *)
(*    such places per record, several strings per list; owner and question name    *)
(*    are of the same make and share a suffix with the RDATA names.  The vector    *)
(*    states octets and lengths as for any other message; the harness packs it in  *)
(*    the canonical spelling AND respelled (\X, \D, \DD before a non-digit, \DDD    *)
(*    of printable characters, trailing backslash; lenspell.go), each spelling     *)
(*    shown to be this very message by its octets.  v = <<type, entry, variant>>.  *)
EXTENDS Gen_WireRR, CompressLen

StTarget == << <<117, 110, 105, 113>>, <<115, 116, 114>>, <<116>> >>          \* uniq.str.t.
StOwner  == << <<111, 119, 110, 101, 114>>, <<122>> >>                         \* owner.z.  (record header: 19 octets)
StKs     == [i \in 1..24 |-> i - 4]                                            \* -3..20

IsNameEntry(e) == e.k \in {"name", "cname", "names", "gateway"}
\* <<type, entry index>> for every name position of the layout, in type-code order
StPositions ==
  Concat([x \in 1..Len(TypeCodes) |->
     LET es == FieldsOf(TypeCodes[x])  idx == SortedSeq({ i \in 1..Len(es) : IsNameEntry(es[i]) })
     IN [j \in 1..Len(idx) |-> << TypeCodes[x], idx[j] >>]])
\* quick tier: NSEC next, RRSIG signer, SOA mname and rname, MX, SRV, HIP servers, NS
StQuick == { p \in 1..Len(StPositions) : StPositions[p][1] \in {47, 46, 6, 15, 33, 55, 2} }

\* RDATA of n octets made of escape-free <character-string>s
StTxt(n) == [i \in 1..((n + 255) \div 256) |->
               IF i * 256 <= n THEN Rep(255, 65) ELSE Rep((n % 256) - 1, 66)]

StX(t, i) ==
  LET es == FieldsOf(t)  e == es[i]
      base0 == Fix(es, BaseF(es))
      \* NXT's RFC 2535 bitmap is left empty: how the library packs it is C01's (known) business
      base == [n \in DOMAIN base0 |-> IF \E j \in 1..Len(es) : es[j].n = n /\ es[j].k = "bitmap0" THEN <<>> ELSE base0[n]]
      val == IF e.k = "names" THEN << Baseline("name", i), StTarget >> ELSE StTarget
      f1 == [base EXCEPT ![e.n] = val]
  IN RR(StOwner, t, 1, Ttl1h, IF e.k = "gateway" THEN [f1 EXCEPT ![e.of] = 3] ELSE f1)

StBuild(t, i, padlen) ==
  Msg(H0, <<Q1>>,
      << RR(Www, 16, 1, Ttl1h, [Txt |-> StTxt(padlen)]), StX(t, i),
         RR(<< <<122>> >> \o StTarget, 1, 1, Ttl1h, [A |-> <<192, 0, 2, 1>>]),
         RR(StOwner, 2, 1, Ttl1h, [Ns |-> StTarget]),
         RR(StOwner, 15, 1, Ttl1h, [Preference |-> 10, Mx |-> Tail(StTarget)]) >>, <<>>, <<>>)

StTargetOff(m) == LET p == PlanMsg(m) IN p[CHOOSE i \in 1..Len(p) : p[i].n = StTarget /\ \A j \in 1..(i - 1) : p[j].n # StTarget].off

StMsg(pos, k) ==
  LET t == StPositions[pos][1]  i == StPositions[pos][2]
      off1 == StTargetOff(StBuild(t, i, 1))           \* with one octet of padding
  IN StBuild(t, i, 1 + (16384 - k) - off1)

SpS1 == <<118, 49, 50, 120, 51, 52, 59, 107, 53, 54>>                          \* v12x34;k56     two digits before a letter, ';', the end
SpS2 == <<49, 50, 97, 51, 52, 98, 53, 54, 99, 55, 56, 100, 57, 48, 101, 49, 50>>  \* 12a34b56c78d90e12   six places
SpS3 == <<107, 61, 49, 50, 51, 52, 32, 120, 55, 121, 56, 57, 48, 33, 49>>      \* k=1234 x7y890!1   runs of 4, 1, 3, 1
SpStr(k)  == IF k = 1 THEN SpS1 ELSE IF k = 2 THEN SpS2 ELSE SpS3
SpStrs(k) == IF k = 1 THEN << SpS1 >> ELSE IF k = 2 THEN << SpS1, SpS2, SpS3 >> ELSE << SpS2, <<>>, SpS2, <<49, 50>>, SpS3, SpS1 >>
SpOwner   == << <<104, 49, 50>>, <<51, 52, 122>> >>                             \* h12.34z.
SpName(k) == (IF k = 1 THEN << <<97, 49, 50, 98>>, <<51, 52>> >>                \* a12b.34.h12.34z.
              ELSE IF k = 2 THEN << <<49, 50>>, <<118, 49, 120>>, <<53, 54, 45, 55, 56, 57>>, <<48>> >>   \* 12.v1x.56-789.0.h12.34z.
              ELSE << <<49, 50, 51, 52, 97, 49, 50>> >>) \o SpOwner                \* 1234a12.h12.34z.
IsTextEntry(e) == e.k \in {"str", "ostr", "strs", "octet", "name", "cname", "names", "gateway"}
SpMsg(t, i, k) ==
  LET es == FieldsOf(t)  e == es[i]
      base0 == Fix(es, BaseF(es))
      \* NXT's RFC 2535 bitmap is left empty (as in StX)
      base == [n \in DOMAIN base0 |-> IF \E j \in 1..Len(es) : es[j].n = n /\ es[j].k = "bitmap0" THEN <<>> ELSE base0[n]]
      val == CASE e.k \in {"str", "octet"} -> SpStr(k)
               [] e.k = "ostr"  -> << SpStr(k) >>
               [] e.k = "strs"  -> SpStrs(k)
               [] e.k = "names" -> << SpName(k), SpName(1 + (k % 3)) >>
               [] OTHER -> SpName(k)
      f1 == [base EXCEPT ![e.n] = val]
      f  == IF e.k = "gateway" THEN [f1 EXCEPT ![e.of] = 3] ELSE f1
  IN Msg(H0, << [name |-> SpOwner, qtype |-> t, qclass |-> 1] >>, << RR(SpOwner, t, 1, Ttl1h, f) >>, <<>>, <<>>)

SizedIdx(t) == { i \in 1..Len(FieldsOf(t)) : "sz" \in DOMAIN FieldsOf(t)[i] /\ FieldsOf(t)[i].k # "prefixaddr" }
SizedTypes  == { t \in DOMAIN Layout : SizedIdx(t) # {} }
SzData(n)   == [j \in 1..n |-> 160 + j]
SzMsg(t, i, n, stored) ==
  LET es == FieldsOf(t)
      base == Fix(es, BaseF(es))
      f == IF i = 0        \* every sized member: n octets of data, the same stored length
           THEN [x \in DOMAIN base |->
                   IF \E j \in SizedIdx(t) : es[j].n = x THEN SzData(n)
                   ELSE IF \E j \in SizedIdx(t) : es[j].sz = x THEN stored ELSE base[x]]
           ELSE [base EXCEPT ![es[i].n] = SzData(n), ![es[i].sz] = stored]
  IN One1(t, f)

-----------------------------------------------------------------------------
InitL == \/ Mode \notin {"straddle", "sizes", "spell"} /\ Init
         \/ Mode = "spell" /\ \E x \in 1..Len(TypeCodes) : \E i \in 1..Len(FieldsOf(TypeCodes[x])), k \in 1..3 :
                                 IsTextEntry(FieldsOf(TypeCodes[x])[i]) /\ v = <<TypeCodes[x], i, k>>
         \/ Mode = "sizes" /\ \E t \in SizedTypes : \E i \in SizedIdx(t) \cup {0}, n \in {3, 20} : \E stored \in {0, n - 1, n + 3} :
                                 v = <<t, i, n, stored>>
         \/ Mode = "straddle" /\ \E pos \in (IF Tier = 0 THEN StQuick ELSE 1..Len(StPositions)), x \in 1..Len(StKs) :
                                    InShard(pos) /\ v = <<pos, StKs[x]>>

Model(m) == [pimpl |-> PackImplMsg(m, TRUE), limpl |-> LenImplMsg(m, TRUE), exact |-> ExactOutsideNames(m)]

OutL ==
  IF Mode = "layout" THEN Out
  ELSE IF Mode = "straddle" THEN
    LET m == StMsg(v[1], v[2]) IN
    /\ Assert(WFMsg(m) /\ StTargetOff(m) = 16384 - v[2], <<"straddle vector misplaced", v>>)
    /\ Emit([g |-> Mode, v |-> v, msg |-> m, ok |-> TRUE, bytes |-> <<>>, nobytes |-> TRUE, rroff |-> RROffsets(m),
             lenmsg |-> LenMsg(m), plain |-> PlainMsg(m), refuse |-> FALSE] @@ Model(m))
  ELSE IF Mode = "sizes" THEN
    LET m == SzMsg(v[1], v[2], v[3], v[4]) IN
    /\ Assert(~WFMsg(m) /\ IsOctets(EncMsg(m)), <<"sizes vector is not what it is meant to be", v>>)
    /\ Emit([g |-> Mode, v |-> v, msg |-> m, ok |-> TRUE, bytes |-> EncMsg(m), loose |-> TRUE, rroff |-> RROffsets(m),
             lenmsg |-> LenMsg(m), plain |-> FALSE, refuse |-> FALSE])
  ELSE IF Mode = "spell" THEN
    LET m == SpMsg(v[1], v[2], v[3])  vec == Vector(m) IN
    /\ Assert(WFMsg(m) /\ vec.ok, <<"spell vector is not a packable message", v>>)
    /\ Emit(vec @@ Model(m))
  ELSE LET m == Case  vec == Vector(m) IN
    /\ Assert(MayBeIllFormed \/ WFMsg(m), <<"ill-formed vector", Mode, v>>)
    /\ Emit(IF vec.ok THEN vec @@ Model(m) ELSE vec)
=============================================================================
