---------------------------- MODULE Trace_Names ----------------------------
(* Validates events recorded from the real code (harness `names record`)       *)
(* against Names.tla.  All events are pure-function observations; a wrong one  *)
(* is marked bad and the cursor moves on.                                      *)
EXTENDS Names, TraceBase

VARIABLE l

Ev == Trace[l]

\* unpack: the real UnpackDomainName on arbitrary wire octets, then the real packer on its text
UnpackOK(e) ==
  LET d == DecName(e.wire, e.off) IN
  IF e.ok THEN
       /\ d.ok                                     \* whatever the library emits is a valid name
       /\ e.text = Present(d.name)
       /\ e.next = d.next
       /\ e.isdn                                   \* ... which IsDomainName accepts
       /\ e.ok2 /\ e.wire2 = EncName(d.name)       \* ... and the packer maps back to the same octets
  ELSE ~(d.ok /\ d.hops <= 1)                      \* a valid name (at most one pointer) must unpack

\* respell: a text in ANY spelling of its octets (raw, \c, \DDD) given to the real packer and IsDomainName: both judge
\* it as the specification does, and the packer writes the octets the one reader of text (Parse) reads
RespellOK(e) ==
  LET p == Parse(e.text)  acc == p.st = "ok" /\ p.fq /\ ValidName(p.labels) IN
  \/ p.st = "undef"                               \* \DDD > 255: outside the universe (the recorder does not write it)
  \/ /\ e.isdn = acc
     /\ e.ok = acc
     /\ (acc /\ e.ok => e.wire = EncName(p.labels))

\* packseq: names packed one behind the other into one buffer over one compression map, beginning at e.start (any offset:
\* PackDomainName / PackRR are public).  Each is accepted exactly when it is a valid fully qualified name, and the octets
\* written for it - labels and, possibly, a pointer to what was written before - stand for exactly the labels the one reader
\* of text reads, octet for octet (Names!WireDenotesName), whatever went before and wherever the sequence began.
\* The octets before e.start are not the packer's: zeros here.
PackSeqOK(e) ==
  LET buf == [i \in 1..e.start |-> 0] \o e.wire IN
  \A k \in 1..Len(e.items) :
    LET it == e.items[k]  p == Parse(it.text)  acc == p.st = "ok" /\ p.fq /\ ValidName(p.labels) IN
    \/ p.st = "undef"
    \/ /\ it.ok = acc
       /\ (it.ok => /\ it.end <= Len(buf)
                    /\ WireDenotesName(Sub(buf, 1, it.end), it.off, it.end, p.labels))

HelpersOK(e) ==
  LET t == e.text  p == Parse(t) IN
  /\ p.st = "ok"
  /\ e.count = Len(p.labels)
  /\ e.split = p.starts
  /\ e.pieces = SplitDomainNameSpec(t)
  /\ e.canon = CanonicalSpec(t)
  \* PrevLabelSpec(t, k-1) / NextLabelSpec(t, start k), computed from the one parse (Names: ...From, MC_Names: SteppersFromStarts)
  /\ \A k \in 1..Len(e.prev) : LET r == PrevLabelFrom(p.starts, Len(t), k - 1) IN e.prev[k] = <<r.i, IF r.start THEN 1 ELSE 0>>
  /\ Len(e.next) = Len(p.starts)
  /\ \A k \in 1..Len(e.next) : LET r == NextLabelFrom(p.starts, Len(t), p.starts[k]) IN e.next[k] = <<r.i, IF r.end THEN 1 ELSE 0>>

CompareOK(e) ==
  /\ e.n = CompareSpec(e.a, e.b)
  /\ e.sub = IsSubDomainSpec(e.b, e.a)

Judge(e) == CASE e.ev = "unpack"  -> UnpackOK(e)
              [] e.ev = "respell" -> RespellOK(e)
              [] e.ev = "helpers" -> HelpersOK(e)
              [] e.ev = "compare" -> CompareOK(e)
              [] e.ev = "packseq" -> PackSeqOK(e)
              [] OTHER -> FALSE

Init == l = 1 /\ HWInit
Next == /\ l <= Len(Trace)
        /\ IF Judge(Ev) THEN TRUE ELSE MarkBad(l)
        /\ HW(l)
        /\ l' = l + 1
=============================================================================
