----------------------------- MODULE PrivateRR -----------------------------
(* The private-type registry of privaterr.go (RFC 6895 s.3.1 "Private Use"     *)
(* type codes) as a state machine.                                              *)
(*                                                                            *)
(*   PrivateHandle(mnemonic, code, generator)   "registers a private resource  *)
(*        record type"; the mnemonic is upper-cased                             *)
(*   PrivateHandleRemove(code)                  "removes definitions required  *)
(*        to support private RR type"                                           *)
(*                                                                            *)
(* State                                                                        *)
(*   reg     code -> None | [mn, gen]     the live registrations                *)
(*   stale   set of <<mn, code>>          earlier mnemonics of a code that is   *)
(*                                        still live under another one          *)
(*   shared  set of mnemonics that two live codes held at the same time         *)
(*   live    records made so far: [code, gen, text] -- a PrivateRR keeps the    *)
(*           generator it was made with, whatever happens to the registry later *)
(*                                                                            *)
(* What the statement fixes, and what it leaves open (AMBIG, all admitted):     *)
(*  - a registered code prints as its mnemonic, parses from it and from         *)
(*    TYPEnnn (RFC 3597 s.5), unpacks into a PrivateRR of the CURRENT generator *)
(*  - after removal nothing of the registration is left: the code prints as     *)
(*    TYPEnnn, its mnemonics are unknown again, records unpack as RFC3597       *)
(*  - the standard types are not damaged by a removal: a standard mnemonic      *)
(*    that a private registration borrowed is the standard type's again         *)
(*  - AMBIG while live: a borrowed standard mnemonic may resolve to either;     *)
(*    an earlier mnemonic of a re-registered code may still resolve to it;      *)
(*    a mnemonic given to two codes resolves to either of them, and after one   *)
(*    of the two is removed possibly to none                                    *)
(*  - removing a code that was never registered changes nothing                 *)
(* A generator is a kind of rdata coding ("A": the octets of the text; "B": a   *)
(* marker octet 66 followed by them) so that records tell which one made them.  *)
EXTENDS Bytes

\* the universe of the bounded checks
Codes    == <<65280, 65281, 65282>>          \* private-use type codes (RFC 6895 s.3.1: 65280..65534)
Mnems    == <<"PRIVA", "PRIVB", "MX">>       \* mnemonics observed (upper case)
Standard == [MX |-> 15]                      \* those of them that are a standard type's
UpperOf  == [priva |-> "PRIVA", PRIVB |-> "PRIVB", MX |-> "MX"]     \* strings.ToUpper on the spellings given to PrivateHandle

None == [mn |-> "", gen |-> ""]
IsReg(reg, c) == reg[c] # None
CodeSet == Range(Codes)

Owner     == <<1, 120, 0>>          \* "x."
Ttl60     == <<0, 0, 0, 60>>

InitState == [reg |-> [c \in CodeSet |-> None], stale |-> {}, shared |-> {}, live |-> <<>>]

Owners(reg, m) == { c \in CodeSet : IsReg(reg, c) /\ reg[c].mn = m }

\* PrivateHandle(upper-cased mnemonic mn, code, gen)
Handle(s, mn, c, g) ==
  LET reg2 == [s.reg EXCEPT ![c] = [mn |-> mn, gen |-> g]]
      st2  == { p \in s.stale : ~(p[1] = mn /\ p[2] = c) }
              \cup (IF IsReg(s.reg, c) /\ s.reg[c].mn # mn THEN { <<s.reg[c].mn, c>> } ELSE {})
      sh2  == s.shared \cup (IF Cardinality(Owners(reg2, mn)) > 1 THEN {mn} ELSE {})
  IN [s EXCEPT !.reg = reg2, !.stale = st2, !.shared = { m \in sh2 : Owners(reg2, m) # {} }]

\* PrivateHandleRemove(code)
Remove(s, c) ==
  IF ~IsReg(s.reg, c) THEN s
  ELSE LET reg2 == [s.reg EXCEPT ![c] = None] IN
       [s EXCEPT !.reg = reg2, !.stale = { p \in @ : p[2] # c }, !.shared = { m \in @ : Owners(reg2, m) # {} }]

\* an action: [op, mn, code, gen]
Apply(s, a) == IF a.op = "handle" THEN Handle(s, a.mn, a.code, a.gen) ELSE Remove(s, a.code)

\* after every action the harness makes one record per registered code from the
\* registry's generator (TypeToRR[code]()) with the given text
Make(s, text) ==
  LET new == [i \in 1..Len(Codes) |-> IF IsReg(s.reg, Codes[i]) THEN << [code |-> Codes[i], gen |-> s.reg[Codes[i]].gen, text |-> text] >> ELSE <<>>]
  IN [s EXCEPT !.live = @ \o Concat(new)]

-----------------------------------------------------------------------------
(* Observations *)
Rdata(gen, text)  == IF gen = "A" THEN text ELSE <<66>> \o text
UnRdata(gen, rd)  == IF gen = "A" THEN rd ELSE IF rd = <<>> THEN <<>> ELSE Tail(rd)
WireOf(rec)       == LET rd == Rdata(rec.gen, rec.text) IN Owner \o U16(rec.code) \o U16(1) \o Ttl60 \o U16(Len(rd)) \o rd

TypeText(s, c) == IF IsReg(s.reg, c) THEN s.reg[c].mn ELSE "TYPE" \o ToString(c)

\* StringToType[m]: the admissible values (0 = no entry)
S2TAdm(s, m) ==
  LET own == Owners(s.reg, m)
      old == { p[2] : p \in { q \in s.stale : q[1] = m } }
      std == IF m \in DOMAIN Standard THEN { Standard[m] } ELSE {}
  IN IF own # {} THEN own \cup std \cup old \cup (IF m \in s.shared /\ std = {} /\ Cardinality(own) = 1 THEN {0} ELSE {})
     ELSE IF std # {} THEN std \cup old
     ELSE {0} \cup old

\* what reading a record of a resolved type code yields: "priv" + generator, "std", "rfc3597", "err"
\* NewRR("x. 60 IN <m> 10 m.")
ResolveKind(s, v) == IF v = 0 THEN [k |-> "err", code |-> 0, gen |-> ""]
                     ELSE IF v \in CodeSet /\ IsReg(s.reg, v) THEN [k |-> "priv", code |-> v, gen |-> s.reg[v].gen]
                     ELSE IF v \in CodeSet THEN [k |-> "err", code |-> 0, gen |-> ""]     \* unreachable for admissible v
                     ELSE [k |-> "std", code |-> v, gen |-> ""]
ParseAdm(s, m) == { ResolveKind(s, v) : v \in S2TAdm(s, m) }

\* NewRR("x. 60 IN TYPE<c> \# 3 616263") and UnpackRR of a record of type c with RDATA "abc"
Abc == <<97, 98, 99>>
GenericKind(s, c) == IF IsReg(s.reg, c) THEN [k |-> "priv", gen |-> s.reg[c].gen, text |-> UnRdata(s.reg[c].gen, Abc)]
                     ELSE [k |-> "rfc3597", gen |-> "", text |-> Abc]

\* a record made earlier, now
LiveView(s, rec) ==
  [copykind |-> rec.gen, copytext |-> rec.text, independent |-> TRUE,
   len |-> Len(WireOf(rec)), wire |-> WireOf(rec), typetext |-> TypeText(s, rec.code),
   re |-> IF IsReg(s.reg, rec.code)
          THEN [k |-> "priv", gen |-> s.reg[rec.code].gen, text |-> UnRdata(s.reg[rec.code].gen, Rdata(rec.gen, rec.text))]
          ELSE [k |-> "rfc3597", gen |-> "", text |-> Rdata(rec.gen, rec.text)]]

Obs(s) ==
  [t2s  |-> [i \in 1..Len(Codes) |-> IF IsReg(s.reg, Codes[i]) THEN s.reg[Codes[i]].mn ELSE ""],
   rr   |-> [i \in 1..Len(Codes) |-> IsReg(s.reg, Codes[i])],
   s2t  |-> [j \in 1..Len(Mnems) |-> S2TAdm(s, Mnems[j])],
   parse |-> [j \in 1..Len(Mnems) |-> ParseAdm(s, Mnems[j])],
   generic |-> [i \in 1..Len(Codes) |-> GenericKind(s, Codes[i])],
   unpack  |-> [i \in 1..Len(Codes) |-> GenericKind(s, Codes[i])],        \* UnpackRR of the same record in wire form
   fresh   |-> [i \in 1..Len(Codes) |-> IsReg(s.reg, Codes[i])],          \* two new records of the type do not share their PrivateRdata
   std  |-> [m \in DOMAIN Standard |-> m],                       \* TypeToString[Standard[m]]: the standard types are untouched
   live |-> [i \in 1..Len(s.live) |-> LiveView(s, s.live[i])]]

\* an observed record (what the harness saw) against the expectation
SeqIn(obs, adm) == Len(obs) = Len(adm) /\ \A i \in 1..Len(obs) : obs[i] \in adm[i]
ObsOK(s, o) ==
  LET e == Obs(s) IN
  /\ o.t2s = e.t2s /\ o.rr = e.rr /\ o.generic = e.generic /\ o.unpack = e.unpack /\ o.fresh = e.fresh /\ o.live = e.live
  /\ SeqIn(o.s2t, e.s2t) /\ SeqIn(o.parse, e.parse)
  /\ o.std = e.std
=============================================================================
