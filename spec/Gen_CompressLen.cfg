CONSTANTS
  MaxLabel = 63
  MaxName = 255
  MaxOff = 16384
INIT InitL
NEXT Next
INVARIANT OutL
