------------------------------ MODULE Truncate ------------------------------
(* Property C09.  Msg.Truncate(size) on a reply without TSIG.                  *)
(*                                                                            *)
(* Two things are specified:                                                  *)
(*  1. TruncOK: the RELATION the statement imposes between the message before *)
(*     and after, written over measurable facts (counts, flags, packed        *)
(*     lengths).  It is what Trace_Truncate evaluates on facts recorded from  *)
(*     the real Truncate + the real Pack.                                     *)
(*  2. TruncImpl: an abstract model of the algorithm in msg_truncate.go over  *)
(*     records whose length depends on whether their name was seen before     *)
(*     (the effect of name compression).  MC_Truncate shows TruncImpl         *)
(*     satisfies TruncOK for every small message and every size, so the       *)
(*     relation is satisfiable and the design is right; the binding shows the *)
(*     code follows it.                                                       *)
EXTENDS Integers, Sequences, FiniteSets

CONSTANT MinSize            \* 512 in the real world (RFC 6891: smaller sizes are treated as 512)

Limit(size) == IF size < MinSize THEN MinSize ELSE size

-----------------------------------------------------------------------------
(* 1. The relation over facts.                                                *)
(* f is a record:                                                             *)
(*   size                   the argument of Truncate                          *)
(*   nAn nNs nAr            records before, OPT not counted                   *)
(*   aAn aNs aAr            records after, OPT not counted                    *)
(*   hasOpt, optKept        an OPT was present / the same OPT is present after*)
(*   tcBefore, tcAfter      TC bit                                            *)
(*   prefixOK               each section after is a prefix (same records,     *)
(*                          same order) of the section before, OPT aside      *)
(*   restSame               header (TC aside) and question section unchanged  *)
(*   lenFit                 packed length of the ORIGINAL, compression on     *)
(*   lenAfter               packed length of the result as Truncate left it   *)
(*   lenHQO                 packed length of header + question + OPT alone    *)
(*   lenNext                packed length of result + first dropped record    *)
(*                          (compression on), 0 when nothing was dropped      *)
(*   plain                  escape-free message of the common types           *)

Dropped(f) == f.aAn < f.nAn \/ f.aNs < f.nNs \/ f.aAr < f.nAr

Clauses(f) ==
  LET lim == Limit(f.size) IN
  [ counts    |-> f.aAn <= f.nAn /\ f.aNs <= f.nNs /\ f.aAr <= f.nAr,
    prefix    |-> f.prefixOK /\ f.restSame,
    later     |-> (f.aAn < f.nAn => f.aNs = 0 /\ f.aAr = 0) /\ (f.aNs < f.nNs => f.aAr = 0),
    opt       |-> f.hasOpt => f.optKept,
    tc        |-> f.tcAfter = (f.tcBefore \/ Dropped(f)),
    fitskeeps |-> f.lenFit <= lim => ~Dropped(f),
    fitsafter |-> f.lenHQO <= lim => f.lenAfter <= lim,
    greedy    |-> f.plain /\ Dropped(f) => f.lenNext > lim ]

ClauseNames == {"counts", "prefix", "later", "opt", "tc", "fitskeeps", "fitsafter", "greedy"}
Failed(f) == { c \in ClauseNames : ~Clauses(f)[c] }
TruncOK(f) == Failed(f) = {}

-----------------------------------------------------------------------------
(* 2. The algorithm, abstractly.                                              *)
(* A record is [name, full, short]: it packs to `full' octets the first time  *)
(* its name occurs in the message and to `short' octets afterwards.  A        *)
(* message is [hq, an, ns, ar, opt, tc]: hq = octets of header + question,    *)
(* opt = octets of the OPT record (0 = none; its root owner never compresses).*)

RECURSIVE PLenFrom(_, _, _)
PLenFrom(recs, seen, acc) ==
  IF recs = <<>> THEN [len |-> acc, seen |-> seen]
  ELSE LET r == Head(recs) IN
       PLenFrom(Tail(recs), seen \cup {r.name}, acc + (IF r.name \in seen THEN r.short ELSE r.full))

\* packed length (compression on) of header+question, the given sections and the OPT
PLen(m, an, ns, ar) == PLenFrom(an \o ns \o ar, {}, m.hq).len + m.opt
ULen(m) == m.hq + m.opt + PLenFrom(m.an \o m.ns \o m.ar, {}, 0).len
          + 0 * 0                                   \* (uncompressed: every record at full length)
RECURSIVE FullLen(_)
FullLen(recs) == IF recs = <<>> THEN 0 ELSE Head(recs).full + FullLen(Tail(recs))
UncompLen(m) == m.hq + m.opt + FullLen(m.an \o m.ns \o m.ar)

\* truncateLoop: walk recs from running length l; returns [l, n]
RECURSIVE Loop(_, _, _, _, _)
Loop(recs, i, size, l, seen) ==
  IF i > Len(recs) THEN [l |-> l, n |-> Len(recs), seen |-> seen]
  ELSE LET r  == recs[i]
           l2 == l + (IF r.name \in seen THEN r.short ELSE r.full)
       IN IF l2 > size THEN [l |-> size, n |-> i - 1, seen |-> seen]
          ELSE IF l2 = size THEN [l |-> l2, n |-> i, seen |-> seen \cup {r.name}]
          ELSE Loop(recs, i + 1, size, l2, seen \cup {r.name})

Prefix(s, n) == IF n = 0 THEN <<>> ELSE SubSeq(s, 1, n)

TruncImpl(m, size0) ==
  LET size1 == Limit(size0) IN
  IF UncompLen(m) <= size1 THEN m
  ELSE LET size == size1 - m.opt
           a == IF m.hq < size THEN Loop(m.an, 1, size, m.hq, {}) ELSE [l |-> m.hq, n |-> 0, seen |-> {}]
           b == IF a.l < size THEN Loop(m.ns, 1, size, a.l, a.seen) ELSE [l |-> a.l, n |-> 0, seen |-> a.seen]
           c == IF b.l < size THEN Loop(m.ar, 1, size, b.l, b.seen) ELSE [l |-> b.l, n |-> 0, seen |-> b.seen]
       IN [m EXCEPT !.an = Prefix(m.an, a.n), !.ns = Prefix(m.ns, b.n), !.ar = Prefix(m.ar, c.n),
                    !.tc = m.tc \/ a.n < Len(m.an) \/ b.n < Len(m.ns) \/ c.n < Len(m.ar)]

\* the facts of one abstract run (what the harness measures on the real code)
FirstDropped(m, r) ==
  IF Len(r.an) < Len(m.an) THEN [r EXCEPT !.an = Append(r.an, m.an[Len(r.an) + 1])]
  ELSE IF Len(r.ns) < Len(m.ns) THEN [r EXCEPT !.ns = Append(r.ns, m.ns[Len(r.ns) + 1])]
  ELSE IF Len(r.ar) < Len(m.ar) THEN [r EXCEPT !.ar = Append(r.ar, m.ar[Len(r.ar) + 1])]
  ELSE r

Facts(m, size, r) ==
  LET nx == FirstDropped(m, r) IN
  [ size |-> size, nAn |-> Len(m.an), nNs |-> Len(m.ns), nAr |-> Len(m.ar),
    aAn |-> Len(r.an), aNs |-> Len(r.ns), aAr |-> Len(r.ar),
    hasOpt |-> m.opt > 0, optKept |-> r.opt = m.opt, tcBefore |-> m.tc, tcAfter |-> r.tc,
    prefixOK |-> r.an = Prefix(m.an, Len(r.an)) /\ r.ns = Prefix(m.ns, Len(r.ns)) /\ r.ar = Prefix(m.ar, Len(r.ar)),
    restSame |-> r.hq = m.hq,
    lenFit |-> PLen(m, m.an, m.ns, m.ar), lenAfter |-> PLen(r, r.an, r.ns, r.ar),
    lenHQO |-> m.hq + m.opt,
    lenNext |-> IF nx = r THEN 0 ELSE PLen(nx, nx.an, nx.ns, nx.ar),
    plain |-> TRUE ]
=============================================================================
