INIT Init
NEXT Next
INVARIANTS HexInv DecInv DaneInv VerInv NameInv
CHECK_DEADLOCK FALSE
